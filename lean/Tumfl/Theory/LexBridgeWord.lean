import Tumfl.Theory.LexBridgeBase
/-!
# LexBridge, part 2: names and keywords

`getName` is `spanName`; the keyword table of an untyped lexer is the reference keyword list; so the word branch of
`scanToken` (which never fails) delivers the token `TkRel`-related to `wordTk`.
-/
namespace Tumfl.Theory
open Tumfl.Model Tumfl

theorem spanP_congr {p q : Char → Bool} (h : ∀ c, p c = q c) (l : List Char) : Spec.spanP p l = Spec.spanP q l := by
  have : p = q := funext h
  rw [this]

/-- `get_name` reads exactly what `spanName` reads -/
theorem getName_spanName (s0 : LexSt) (c : Char) (cs : List Char) (hs : s0.rest = c :: cs)
    (hl : Gen.letter.contains c = true) :
    ∃ s1, getName s0 = .ok ((Spec.spanName (c :: cs)).1, s1) ∧ s1.rest = (Spec.spanName (c :: cs)).2 := by
  obtain ⟨s1, h1, h2⟩ := takeWhileIn_span Gen.alphanumeric false (s0.rest.length + 1) s0 [] (Nat.lt_succ_self _)
  have e : Spec.spanP Gen.alphanumeric.contains s0.rest = Spec.spanName (c :: cs) := by
    rw [hs]; exact spanP_congr alphanumeric_contains _
  rw [e] at h1 h2
  refine ⟨s1, ?_, h2⟩
  unfold getName
  have hin : inStr s0.cur Gen.letter = true := by rw [cur_of hs]; exact hl
  simp only [hin, Bool.not_true, Bool.false_eq_true, if_false, h1]
  simp

/-! ## the keyword tables -/

def kwEntryOK (p : String × String) : Bool :=
  match TT.ofName p.2 with
  | some t =>
    if t == .AS || t == .IS then !Spec.keywords.contains p.1
    else Spec.keywords.contains p.1 && keywordTTs.contains t && decide (t.value = p.1)
  | none => false

theorem kw_entries : ∀ p ∈ Gen.keywords, kwEntryOK p = true := by decide

theorem kw_all_found : ∀ k ∈ Spec.keywords, (Gen.keywords.lookup k).isSome = true := by decide

/-- the keyword decision of an untyped lexer is the reference keyword list; the token type's value is the text -/
theorem keywordOf_spec (cfg : LexCfg) (hty : cfg.typed = false) (name : List Char) :
    match keywordOf cfg name with
    | some t => Spec.keywords.contains (String.ofList name) = true ∧ keywordTTs.contains t = true ∧
        t.value = String.ofList name
    | none => Spec.keywords.contains (String.ofList name) = false := by
  unfold keywordOf
  generalize String.ofList name = k
  cases hl : Gen.keywords.lookup k with
  | none =>
    simp only
    cases hk : Spec.keywords.contains k with
    | false => rfl
    | true =>
      have := kw_all_found k (by simpa using hk)
      rw [hl] at this
      cases this
  | some n =>
    have hm := kw_entries _ (lb_lookup_mem hl)
    unfold kwEntryOK at hm
    simp only at hm ⊢
    cases ht : TT.ofName n with
    | none => rw [ht] at hm; cases hm
    | some t =>
      rw [ht] at hm
      simp only at hm ⊢
      by_cases has : (t == .AS || t == .IS) = true
      · simp only [has, if_true, Bool.not_eq_true'] at hm
        simp only [has, hty, Bool.not_false, Bool.and_self, if_true]
        exact hm
      · simp only [has, Bool.false_eq_true, if_false, Bool.and_eq_true, decide_eq_true_eq] at hm
        simp only [has, Bool.false_and, Bool.false_eq_true, if_false]
        exact ⟨hm.1.1, hm.1.2, hm.2⟩

/-- the token the word branch of `scanToken` builds is related to `wordTk` -/
theorem word_tkRel (cfg : LexCfg) (hty : cfg.typed = false) (name : List Char) (a : Nat × Int × List (List Char)) :
    TkRel (match keywordOf cfg name with
      | some t => mkTok t (.str name) a
      | none => mkTok .NAME (.str name) a) (wordTk name) := by
  have h := keywordOf_spec cfg hty name
  unfold wordTk
  cases hk : keywordOf cfg name with
  | some t =>
    rw [hk] at h
    simp only at h ⊢
    simp only [h.1, if_true]
    exact ⟨h.2.1, h.2.2⟩
  | none =>
    rw [hk] at h
    simp only at h ⊢
    simp only [h, Bool.false_eq_true, if_false]
    exact ⟨rfl, name, rfl, rfl⟩

end Tumfl.Theory
