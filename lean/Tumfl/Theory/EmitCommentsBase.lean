import Tumfl.Model.Emit
/-!
# Statement comments in the output of `emit`: definitions and list-level lemmas

`isCommentPiece`, the comment lists of a tree (`commentsBlock` ...), the well-formedness predicate
`TreeWF`, and everything about `filter isCommentPiece` that does not need the induction over the tree
(literal pieces, strings, numerals, comment pieces, the slices `sliceInner` / `drop 1` / `blk`).
-/
namespace Tumfl.Theory
open Tumfl.Model Tumfl.Spec

/-- a piece that starts a Lua comment -/
def isCommentPiece : Piece → Bool
  | .str s => startsWith s ['-', '-']
  | .sep _ => false

local notation "fc" => List.filter isCommentPiece

/-! ## Comments of a tree, in output order -/

mutual
def commentsExpr : Expr → List (List Char)
  | .nil _ | .bool _ _ | .vararg _ | .number _ _ | .string _ _ | .name _ _ => []
  | .func _ ps body => commentsArgs ps ++ commentsBlock body
  | .table _ fs => commentsFields fs
  | .binop _ _ l r => commentsExpr l ++ commentsExpr r
  | .unop _ _ e => commentsExpr e
  | .index _ l k => commentsExpr l ++ commentsExpr k
  | .namedIndex _ l n => commentsExpr l ++ commentsExpr n
  | .call _ f args => commentsExpr f ++ commentsArgs args
  | .method _ f m args => commentsExpr f ++ commentsExpr m ++ commentsArgs args

def commentsArgs : List Expr → List (List Char)
  | [] => []
  | e :: rest => commentsExpr e ++ commentsArgs rest

def commentsFields : List Field → List (List Char)
  | [] => []
  | f :: rest => commentsField f ++ commentsFields rest

def commentsField : Field → List (List Char)
  | .explicit _ k v => commentsExpr k ++ commentsExpr v
  | .named _ n v => commentsExpr n ++ commentsExpr v
  | .numbered _ v => commentsExpr v

/-- all statement comments of a block, in the order in which the formatter meets the statements -/
def commentsBlock : Block → List (List Char)
  | .mk _ stmts rets _ =>
    commentsStmts stmts ++ (match rets with | some es => commentsArgs es | none => [])

/-- a statement's own comments first, then those inside it, then the following statements -/
def commentsStmts : List Stmt → List (List Char)
  | [] => []
  | s :: rest => stmtComments s ++ commentsStmt s ++ commentsStmts rest

/-- the comments of the statements nested in `s` (not `s`'s own) -/
def commentsStmt : Stmt → List (List Char)
  | .assign _ ts es => commentsArgs ts ++ commentsArgs es
  | .block b => commentsBlock b
  | .brk _ => []
  | .call _ f args => commentsExpr f ++ commentsArgs args
  | .funcDef _ names m ps body =>
    commentsArgs names ++ (match m with | some mn => commentsExpr mn | none => []) ++
    commentsArgs ps ++ commentsBlock body
  | .goto _ l => commentsExpr l
  | .label _ n => commentsExpr n
  | .iff _ test tr fl => commentsExpr test ++ commentsBlock tr ++ commentsFalse fl
  | .iterFor _ ns es body => commentsArgs ns ++ commentsArgs es ++ commentsBlock body
  | .localAssign _ _ es => (match es with | some es => commentsArgs es | none => [])
  | .localFunc _ n ps body => commentsExpr n ++ commentsArgs ps ++ commentsBlock body
  | .method _ f m args => commentsExpr f ++ commentsExpr m ++ commentsArgs args
  | .numFor _ v a b step body =>
    commentsExpr v ++ commentsExpr a ++ commentsExpr b ++
    (match step with | some s => commentsExpr s | none => []) ++ commentsBlock body
  | .repeat _ c body => commentsBlock body ++ commentsExpr c
  | .semi _ => []
  | .whl _ c body => commentsExpr c ++ commentsBlock body

def commentsFalse : IfFalse → List (List Char)
  | .none => []
  | .block b => commentsBlock b
  | .elif _ test tr fl => commentsExpr test ++ commentsBlock tr ++ commentsFalse fl
end

/-! ## Well-formedness -/

/-- a name does not look like a comment (the parser only yields `[A-Za-z_][A-Za-z0-9_]*`) -/
def nameOK (n : List Char) : Bool := !startsWith n ['-', '-']

/-- the printed numeral does not look like a comment -/
def numOK (n : NumTuple) : Bool := !startsWith (numberStr n) ['-', '-']

def wfAttName : AttName → Bool
  | .mk n a => nameOK (nameStr n) && (match a with | some att => nameOK (nameStr att) | none => true)

mutual
def wfExpr : Expr → Bool
  | .nil _ | .bool _ _ | .vararg _ | .string _ _ => true
  | .number _ n => numOK n
  | .name _ n => nameOK n
  | .func _ ps body => wfArgs ps && wfBlock body
  | .table _ fs => wfFields fs
  | .binop _ _ l r => wfExpr l && wfExpr r
  | .unop _ _ e => wfExpr e
  | .index _ l k => wfExpr l && wfExpr k
  | .namedIndex _ l n => wfExpr l && wfExpr n
  | .call _ f args => wfExpr f && wfArgs args
  | .method _ f m args => wfExpr f && wfExpr m && wfArgs args

def wfArgs : List Expr → Bool
  | [] => true
  | e :: rest => wfExpr e && wfArgs rest

def wfFields : List Field → Bool
  | [] => true
  | f :: rest => wfField f && wfFields rest

def wfField : Field → Bool
  | .explicit _ k v => wfExpr k && wfExpr v
  | .named _ n v => wfExpr n && wfExpr v
  | .numbered _ v => wfExpr v

def wfBlock : Block → Bool
  | .mk _ stmts rets _ => wfStmts stmts && (match rets with | some es => wfArgs es | none => true)

def wfStmts : List Stmt → Bool
  | [] => true
  | s :: rest => wfStmt s && wfStmts rest

/-- the blocks printed through `[2:-1]` (`if` / `elseif` / `else` / `repeat` bodies) are not chunks -/
def wfStmt : Stmt → Bool
  | .assign _ ts es => wfArgs ts && wfArgs es
  | .block b => wfBlock b
  | .brk _ => true
  | .call _ f args => wfExpr f && wfArgs args
  | .funcDef _ names m ps body =>
    wfArgs names && (match m with | some mn => wfExpr mn | none => true) && wfArgs ps && wfBlock body
  | .goto _ l => wfExpr l
  | .label _ n => wfExpr n
  | .iff _ test tr fl => wfExpr test && !tr.isChunk && wfBlock tr && wfFalse fl
  | .iterFor _ ns es body => wfArgs ns && wfArgs es && wfBlock body
  | .localAssign _ names es =>
    names.all wfAttName && (match es with | some es => wfArgs es | none => true)
  | .localFunc _ n ps body => wfExpr n && wfArgs ps && wfBlock body
  | .method _ f m args => wfExpr f && wfExpr m && wfArgs args
  | .numFor _ v a b step body =>
    wfExpr v && wfExpr a && wfExpr b && (match step with | some s => wfExpr s | none => true) && wfBlock body
  | .repeat _ c body => !body.isChunk && wfBlock body && wfExpr c
  | .semi _ => true
  | .whl _ c body => wfExpr c && wfBlock body

def wfFalse : IfFalse → Bool
  | .none => true
  | .block b => !b.isChunk && wfBlock b
  | .elif _ test tr fl => wfExpr test && !tr.isChunk && wfBlock tr && wfFalse fl
end

/-- Well-formedness of a tree for the comment theorem:
* every `Name` node (and every name / attribute of a `local` statement) does not start with `--`,
* every numeral prints (`numberStr`) as something not starting with `--`,
* the bodies of `if` / `elseif` / `else` / `repeat` are `Block`s, not `Chunk`s
  (the parser makes a `Chunk` only at the root). -/
def TreeWF (b : Block) : Prop := wfBlock b = true

/-! ## The expected comment pieces -/

/-- the comment piece printed for one comment -/
def commentPiece (sty : Style) (c : List Char) : Piece := (formatComment sty c).head!

/-- expected comment pieces for a list of comments under `sty` -/
def F (sty : Style) (cs : List (List Char)) : Pieces :=
  if sty.includeComments then cs.map (commentPiece sty) else []

@[simp] theorem F_nil (sty : Style) : F sty [] = [] := by simp [F]

@[simp] theorem F_append (sty : Style) (a b : List (List Char)) : F sty (a ++ b) = F sty a ++ F sty b := by
  unfold F; split <;> simp

/-! ## Literal pieces -/

@[simp] theorem isC_P (s : String) : isCommentPiece (P s) = isPrefix ['-', '-'] s.toList := rfl
@[simp] theorem isC_S (x : Sep) : isCommentPiece (S x) = false := rfl
@[simp] theorem isC_sep (x : Sep) : isCommentPiece (.sep x) = false := rfl

@[simp] theorem isC_bop (o : BOp) : isCommentPiece (.str o.sym.toList) = false := by cases o <;> rfl
@[simp] theorem isC_uop (o : UOp) : isCommentPiece (.str o.sym.toList) = false := by cases o <;> rfl

theorem isC_name {n : List Char} (h : nameOK n = true) : isCommentPiece (.str n) = false := by
  simpa [nameOK, isCommentPiece] using h

theorem isC_num {n : NumTuple} (h : numOK n = true) : isCommentPiece (.str (numberStr n)) = false := by
  simpa [numOK, isCommentPiece] using h

/-- sufficient condition for `numOK`: hexadecimal, or the integer part does not begin with `-` -/
theorem numOK_of_ip (n : NumTuple)
    (h : n.isHex = true ∨ ∀ c s, n.ip = some (c :: s) → c ≠ '-') : numOK n = true := by
  obtain ⟨hx, ip, fp, ex, fo⟩ := n
  cases hx
  · rcases h with h | h
    · simp at h
    · rcases ip with _ | ⟨_ | ⟨c, s⟩⟩
      · simp [numOK, numberStr, startsWith, isPrefix]
      · simp [numOK, numberStr, startsWith, isPrefix]
      · have := h c s rfl
        have this' : ¬ '-' = c := fun e => this e.symm
        simp [numOK, numberStr, startsWith, isPrefix, this']
  · simp [numOK, numberStr, startsWith, isPrefix]

/-- in particular when the integer part consists of digits (what the lexer produces) -/
theorem numOK_of_digits (n : NumTuple) (h : ∀ s, n.ip = some s → ∀ c ∈ s, c.isDigit = true ∨ c.isAlpha = true) :
    numOK n = true := by
  apply numOK_of_ip
  right
  intro c s hs hc
  subst hc
  have := h _ hs '-' (List.mem_cons_self ..)
  revert this; decide

theorem fc_visitString (sty : Style) (v : List Char) : fc (visitString sty v) = [] := by
  simp only [visitString]
  split <;> (try split) <;> simp [isCommentPiece, startsWith, isPrefix]

/-! ## Comment pieces -/

theorem fc_formatComment (sty : Style) (c : List Char) :
    fc (formatComment sty c) = [commentPiece sty c] := by
  simp only [commentPiece, formatComment]
  split <;> simp [isCommentPiece, startsWith, isPrefix, S, List.head!]

theorem isC_commentPiece (sty : Style) (c : List Char) : isCommentPiece (commentPiece sty c) = true := by
  simp only [commentPiece, formatComment]
  split <;> simp [isCommentPiece, startsWith, isPrefix, List.head!]

/-- `formatComment` is the comment piece followed by one separator -/
theorem formatComment_eq (sty : Style) (c : List Char) :
    ∃ x, formatComment sty c = [commentPiece sty c, S x] := by
  simp only [commentPiece, formatComment]
  split
  · exact ⟨.statement, by simp [List.head!]⟩
  · exact ⟨.newline, by simp [List.head!]⟩

theorem fc_flatMap_formatComment (sty : Style) (cs : List (List Char)) :
    fc (cs.flatMap (formatComment sty)) = cs.map (commentPiece sty) := by
  induction cs with
  | nil => rfl
  | cons c cs ih => simp [List.flatMap_cons, fc_formatComment, ih]

/-- the comment pieces `visitStmts` puts before statement `s` -/
def stmtCommentPieces (sty : Style) (s : Stmt) : Pieces :=
  if sty.includeComments then (stmtComments s).flatMap (formatComment sty) else []

/-- the `;` guard of `visitStmts` -/
def stmtGuard (first : Bool) (toks : Pieces) : Pieces :=
  match toks with
  | .str ['('] :: _ => if first then [] else [P ";"]
  | _ => []

@[simp] theorem fc_stmtCommentPieces (sty : Style) (s : Stmt) :
    fc (stmtCommentPieces sty s) = F sty (stmtComments s) := by
  unfold stmtCommentPieces F
  split <;> simp [fc_flatMap_formatComment]

@[simp] theorem fc_stmtGuard (first : Bool) (toks : Pieces) : fc (stmtGuard first toks) = [] := by
  unfold stmtGuard
  split
  · cases first <;> simp [isPrefix]
  · rfl

/-! ## Wrappers -/

@[simp] theorem fc_wrapParens (ps : Pieces) : fc (wrapParens ps) = fc ps := by
  simp [wrapParens, isPrefix]

@[simp] theorem fc_fmtVar (e : Expr) (ps : Pieces) : fc (fmtVar e ps) = fc ps := by
  unfold fmtVar; split <;> simp

@[simp] theorem fc_fmtKey (ps : Pieces) : fc (fmtKey ps) = fc ps := by
  unfold fmtKey
  split
  · split <;> simp
  · rfl

@[simp] theorem fc_fmtFunctionArgs (sty : Style) (args : List Expr) (ps : Pieces) :
    fc (fmtFunctionArgs sty args ps) = fc ps := by
  unfold fmtFunctionArgs
  split <;> (try split) <;> simp

theorem fc_attName (n : Expr) (a : Option Expr) (h : wfAttName (.mk n a) = true) : fc (attName n a) = [] := by
  cases a with
  | none =>
    simp only [wfAttName, Bool.and_true] at h
    simp [attName, isC_name h]
  | some att =>
    simp only [wfAttName, Bool.and_eq_true] at h
    simp [attName, isC_name h.1, isC_name h.2, isPrefix]

theorem fc_visitAttNames (names : List AttName) (h : names.all wfAttName = true) :
    fc (visitAttNames names) = [] := by
  induction names with
  | nil => rfl
  | cons x rest ih =>
    obtain ⟨n, a⟩ := x
    simp only [List.all_cons, Bool.and_eq_true] at h
    cases rest with
    | nil => simpa [visitAttNames] using fc_attName n a h.1
    | cons y rest =>
      simp [visitAttNames, fc_attName n a h.1, ih h.2]

/-! ## Slices -/

theorem sliceInner_mid (pre m suf : Pieces) (a b : Nat) (ha : pre.length = a) (hb : suf.length = b) :
    sliceInner a b (pre ++ m ++ suf) = m := by
  subst ha hb
  unfold sliceInner
  have h1 : (pre ++ m ++ suf).length - suf.length = (pre ++ m).length := by
    simp only [List.length_append]; omega
  rw [h1, List.take_left', List.drop_left']
  all_goals rfl

/-- the pieces of a block between `do` ... `end` -/
def bodyPieces (sty : Style) (stmts : List Stmt) (rets : Option (List Expr)) : Pieces :=
  visitStmts sty true stmts ++
    (match rets with
     | some es => [P "return"] ++ (if es.isEmpty then [] else [S .space]) ++ visitArgs sty es ++ [S .statement]
     | none => [])

theorem visitBlockFull_eq (sty : Style) (t : Token) (stmts : List Stmt) (rets : Option (List Expr)) (c : Bool) :
    visitBlockFull sty (.mk t stmts rets c) =
      [P "do", S .block, S .indent] ++ bodyPieces sty stmts rets ++ [S .deindent, P "end"] := by
  cases rets <;> simp [visitBlockFull, bodyPieces]

/-- the statement loop, one step (placement of the comments: directly before the statement) -/
theorem visitStmts_cons (sty : Style) (first : Bool) (s : Stmt) (rest : List Stmt) :
    visitStmts sty first (s :: rest) =
      stmtCommentPieces sty s ++ stmtGuard first (visitStmt sty s) ++ visitStmt sty s ++ [S .statement] ++
        visitStmts sty false rest := by
  rw [visitStmts]; rfl

theorem visitStmts_last (sty : Style) (first : Bool) (ss : List Stmt) :
    visitStmts sty first ss = [] ∨ ∃ init, visitStmts sty first ss = init ++ [S .statement] := by
  induction ss generalizing first with
  | nil => left; simp [visitStmts]
  | cons s rest ih =>
    right
    rw [visitStmts_cons]
    rcases ih false with h | ⟨init, h⟩
    · rw [h]
      exact ⟨stmtCommentPieces sty s ++ stmtGuard first (visitStmt sty s) ++ visitStmt sty s, by simp⟩
    · rw [h]
      exact ⟨stmtCommentPieces sty s ++ stmtGuard first (visitStmt sty s) ++ visitStmt sty s ++ [S .statement] ++ init,
        by simp⟩

theorem bodyPieces_last (sty : Style) (stmts : List Stmt) (rets : Option (List Expr)) :
    bodyPieces sty stmts rets = [] ∨ ∃ init, bodyPieces sty stmts rets = init ++ [S .statement] := by
  cases rets with
  | none => simpa [bodyPieces] using visitStmts_last sty true stmts
  | some es =>
    right
    exact ⟨visitStmts sty true stmts ++ ([P "return"] ++ (if es.isEmpty then [] else [S .space]) ++ visitArgs sty es),
      by simp [bodyPieces]⟩

theorem fc_visitBlockFull (sty : Style) (t : Token) (stmts : List Stmt) (rets : Option (List Expr)) (c : Bool) :
    fc (visitBlockFull sty (.mk t stmts rets c)) = fc (bodyPieces sty stmts rets) := by
  simp [visitBlockFull_eq, isPrefix]

/-- `visit_Chunk`'s `[3:-3]` removes no comment -/
@[simp] theorem fc_blk (sty : Style) (b : Block) :
    fc (blk b (visitBlockFull sty b)) = fc (visitBlockFull sty b) := by
  obtain ⟨t, stmts, rets, c⟩ := b
  cases c with
  | false => simp [blk, Block.isChunk]
  | true =>
    rw [fc_visitBlockFull, visitBlockFull_eq]
    simp only [blk, Block.isChunk, if_true]
    rcases bodyPieces_last sty stmts rets with h | ⟨init, h⟩
    · rw [h]; rfl
    · rw [h]
      have : [P "do", S .block, S .indent] ++ (init ++ [S .statement]) ++ [S .deindent, P "end"] =
          [P "do", S .block, S .indent] ++ init ++ [S .statement, S .deindent, P "end"] := by simp
      rw [this, sliceInner_mid _ _ _ 3 3 rfl rfl]
      simp

/-- the `[1:]` of the function printers removes no comment -/
@[simp] theorem fc_drop1 (sty : Style) (b : Block) :
    fc ((visitBlockFull sty b).drop 1) = fc (visitBlockFull sty b) := by
  obtain ⟨t, stmts, rets, c⟩ := b
  rw [visitBlockFull_eq]
  simp [isPrefix]

/-- `fc_drop1` in `simp`'s normal form (`drop 1` is rewritten to `tail`) -/
@[simp] theorem fc_tail (sty : Style) (b : Block) :
    fc (visitBlockFull sty b).tail = fc (visitBlockFull sty b) := by
  rw [← List.drop_one]; exact fc_drop1 sty b

/-- the `[2:-1]` of `if` / `else` / `repeat` removes no comment when the body is a `Block` -/
theorem fc_slice21 (sty : Style) (b : Block) (h : b.isChunk = false) :
    fc (sliceInner 2 1 (blk b (visitBlockFull sty b))) = fc (visitBlockFull sty b) := by
  obtain ⟨t, stmts, rets, c⟩ := b
  simp only [Block.isChunk] at h
  subst h
  simp only [blk, Block.isChunk, Bool.false_eq_true, if_false]
  rw [fc_visitBlockFull, visitBlockFull_eq]
  have : [P "do", S .block, S .indent] ++ bodyPieces sty stmts rets ++ [S .deindent, P "end"] =
      [P "do", S .block] ++ ([S .indent] ++ bodyPieces sty stmts rets ++ [S .deindent]) ++ [P "end"] := by simp
  rw [this, sliceInner_mid _ _ _ 2 1 rfl rfl]
  simp

end Tumfl.Theory
