import Tumfl.Model.Parser
import Tumfl.Model.Emit
import Tumfl.Theory.HintsCore
/-!
# A partial-correctness calculus for "which token does the node carry"

`PW m Q s` : if `m` succeeds in `s` with `(a, s')` then `Q a s'` (errors are irrelevant here).
Sub-parsers whose result does not matter are skipped with `PW_any`.
-/
namespace Tumfl.Theory
open Tumfl.Model Tumfl.Spec

/-- the token `stmtComments` reads -/
def stmtToken : Stmt → Token
  | .assign t _ _ | .brk t | .call t _ _ | .funcDef t _ _ _ _ | .goto t _ | .label t _ | .iff t _ _ _
  | .iterFor t _ _ _ | .localAssign t _ _ | .localFunc t _ _ _ | .method t _ _ _ | .numFor t _ _ _ _ _
  | .repeat t _ _ | .semi t | .whl t _ _ => t
  | .block (.mk t _ _ _) => t

theorem stmtComments_eq (s : Stmt) : stmtComments s = (stmtToken s).comment := by
  cases s with
  | block b => cases b; rfl
  | _ => rfl

variable {α β : Type}

def PW (m : PM α) (Q : α → PSt → Prop) (s : PSt) : Prop := ∀ a s', m s = .ok (a, s') → Q a s'

theorem PW_bind {m : PM α} {k : α → PM β} {Q : β → PSt → Prop} {s : PSt}
    (h : PW m (fun a s' => PW (k a) Q s') s) : PW (m >>= k) Q s := by
  intro b s2 hb
  cases hm : m s with
  | error e => rw [bind_err hm] at hb; cases hb
  | ok r =>
    obtain ⟨a, s1⟩ := r
    rw [bind_ok hm] at hb
    exact h a s1 hm b s2 hb

theorem PW_any {m : PM α} {Q : α → PSt → Prop} {s : PSt} (h : ∀ a s', Q a s') : PW m Q s :=
  fun a s' _ => h a s'

theorem PW_call {m : PM α} {Q' Q : α → PSt → Prop} {s : PSt} (h : PW m Q' s) (hq : ∀ a s', Q' a s' → Q a s') :
    PW m Q s := fun a s' hm => hq a s' (h a s' hm)

theorem PW_pure {a : α} {Q : α → PSt → Prop} {s : PSt} (h : Q a s) : PW (pure a : PM α) Q s := by
  intro b s' hb
  cases hb
  exact h

theorem PW_curTok {Q : Token → PSt → Prop} {s : PSt} (h : Q s.cur s) : PW curTok Q s := by
  intro b s' hb
  cases hb
  exact h

theorem PW_ite {c : Prop} [Decidable c] {a b : PM α} {Q : α → PSt → Prop} {s : PSt}
    (ha : c → PW a Q s) (hb : ¬ c → PW b Q s) : PW (if c then a else b) Q s := by
  split
  · exact ha ‹_›
  · exact hb ‹_›

theorem PW_err {m : PM α} {Q : α → PSt → Prop} {s : PSt} (h : ∀ s, ∃ e, m s = .error e) : PW m Q s := by
  intro a s' hm
  obtain ⟨e, he⟩ := h s
  rw [he] at hm
  cases hm

theorem PW_perror {msg : String} {tok : Token} {Q : α → PSt → Prop} {s : PSt} : PW (perror msg tok : PM α) Q s :=
  PW_err fun _ => ⟨_, rfl⟩

theorem PW_fuelErrP {Q : α → PSt → Prop} {s : PSt} : PW (fuelErrP : PM α) Q s := PW_err fun _ => ⟨_, rfl⟩

/-- after `eat`, the current token is the old look-ahead token (and the old current token had the asserted type) -/
theorem PW_eat {t : Option TT} {Q : Unit → PSt → Prop} {s : PSt}
    (h : ∀ s', s'.cur = s.nxt → (∀ ty, t = some ty → s.cur.type = ty) → Q () s') : PW (eat t) Q s := by
  intro a s' hm
  have key : ∀ s1 : PSt, eatRaw s = .ok ((), s1) → s1.cur = s.nxt := by
    intro s1 h1
    unfold eatRaw at h1
    split at h1
    · cases h1
    · cases h1; rfl
  cases t with
  | none =>
    have : eat none s = eatRaw s := rfl
    rw [this] at hm
    exact h s' (key s' hm) (fun _ h => by cases h)
  | some ty =>
    have : eat (some ty) s = (assertTok ty >>= fun _ => eatRaw) s := rfl
    rw [this] at hm
    by_cases hty : (s.cur.type != ty) = true
    · have : assertTok ty s = .error (.parser "Unexpected token" s.cur s.hints) := by
        unfold assertTok; rw [if_pos hty]
      rw [bind_err this] at hm
      cases hm
    · have : assertTok ty s = .ok ((), s) := by
        unfold assertTok; rw [if_neg hty]
      rw [bind_ok this] at hm
      refine h s' (key s' hm) ?_
      intro ty' h'
      cases h'
      simpa using hty

end Tumfl.Theory
