import Tumfl.Theory.ReadSimTCGDefs
/-!
# Readings (with optional trailing commas) of the leaf pieces
-/
namespace Tumfl.Theory.TCGSim
open Tumfl.Model

variable {sty : Style} {p : Option (List Char)} {K : List Spec.Tok → Prop} {r : Pieces}

theorem AllRd.imp {ps : Pieces} {K K' : List Spec.Tok → Prop} (h : AllRd p ps K) (hk : ∀ t, K t → K' t) : AllRd p ps K' :=
  fun t ht => hk t (h t ht)

@[simp] theorem AllRd_nil_kw : AllRd p (P "nil" :: r) K ↔ AllRd (some "nil".toList) r fun t => K (mkTok (.kw "nil") :: t) := AllRd_P (by decide) (by decide)
@[simp] theorem AllRd_true_kw : AllRd p (P "true" :: r) K ↔ AllRd (some "true".toList) r fun t => K (mkTok (.kw "true") :: t) := AllRd_P (by decide) (by decide)
@[simp] theorem AllRd_false_kw : AllRd p (P "false" :: r) K ↔ AllRd (some "false".toList) r fun t => K (mkTok (.kw "false") :: t) := AllRd_P (by decide) (by decide)
@[simp] theorem AllRd_function_kw : AllRd p (P "function" :: r) K ↔ AllRd (some "function".toList) r fun t => K (mkTok (.kw "function") :: t) := AllRd_P (by decide) (by decide)
@[simp] theorem AllRd_do_kw : AllRd p (P "do" :: r) K ↔ AllRd (some "do".toList) r fun t => K (mkTok (.kw "do") :: t) := AllRd_P (by decide) (by decide)
@[simp] theorem AllRd_end_kw : AllRd p (P "end" :: r) K ↔ AllRd (some "end".toList) r fun t => K (mkTok (.kw "end") :: t) := AllRd_P (by decide) (by decide)
@[simp] theorem AllRd_return_kw : AllRd p (P "return" :: r) K ↔ AllRd (some "return".toList) r fun t => K (mkTok (.kw "return") :: t) := AllRd_P (by decide) (by decide)
@[simp] theorem AllRd_break_kw : AllRd p (P "break" :: r) K ↔ AllRd (some "break".toList) r fun t => K (mkTok (.kw "break") :: t) := AllRd_P (by decide) (by decide)
@[simp] theorem AllRd_goto_kw : AllRd p (P "goto" :: r) K ↔ AllRd (some "goto".toList) r fun t => K (mkTok (.kw "goto") :: t) := AllRd_P (by decide) (by decide)
@[simp] theorem AllRd_if_kw : AllRd p (P "if" :: r) K ↔ AllRd (some "if".toList) r fun t => K (mkTok (.kw "if") :: t) := AllRd_P (by decide) (by decide)
@[simp] theorem AllRd_then_kw : AllRd p (P "then" :: r) K ↔ AllRd (some "then".toList) r fun t => K (mkTok (.kw "then") :: t) := AllRd_P (by decide) (by decide)
@[simp] theorem AllRd_else_kw : AllRd p (P "else" :: r) K ↔ AllRd (some "else".toList) r fun t => K (mkTok (.kw "else") :: t) := AllRd_P (by decide) (by decide)
@[simp] theorem AllRd_elseif_kw : AllRd p (P "elseif" :: r) K ↔ AllRd (some "elseif".toList) r fun t => K (mkTok (.kw "elseif") :: t) := AllRd_P (by decide) (by decide)
@[simp] theorem AllRd_for_kw : AllRd p (P "for" :: r) K ↔ AllRd (some "for".toList) r fun t => K (mkTok (.kw "for") :: t) := AllRd_P (by decide) (by decide)
@[simp] theorem AllRd_in_kw : AllRd p (P "in" :: r) K ↔ AllRd (some "in".toList) r fun t => K (mkTok (.kw "in") :: t) := AllRd_P (by decide) (by decide)
@[simp] theorem AllRd_local_kw : AllRd p (P "local" :: r) K ↔ AllRd (some "local".toList) r fun t => K (mkTok (.kw "local") :: t) := AllRd_P (by decide) (by decide)
@[simp] theorem AllRd_repeat_kw : AllRd p (P "repeat" :: r) K ↔ AllRd (some "repeat".toList) r fun t => K (mkTok (.kw "repeat") :: t) := AllRd_P (by decide) (by decide)
@[simp] theorem AllRd_until_kw : AllRd p (P "until" :: r) K ↔ AllRd (some "until".toList) r fun t => K (mkTok (.kw "until") :: t) := AllRd_P (by decide) (by decide)
@[simp] theorem AllRd_while_kw : AllRd p (P "while" :: r) K ↔ AllRd (some "while".toList) r fun t => K (mkTok (.kw "while") :: t) := AllRd_P (by decide) (by decide)
@[simp] theorem AllRd_lpar : AllRd p (P "(" :: r) K ↔ AllRd (some "(".toList) r fun t => K (mkTok (.sym "(") :: t) := AllRd_P (by decide) (by decide)
@[simp] theorem AllRd_rpar : AllRd p (P ")" :: r) K ↔ AllRd (some ")".toList) r fun t => K (mkTok (.sym ")") :: t) := AllRd_P (by decide) (by decide)
@[simp] theorem AllRd_lcurl : AllRd p (P "{" :: r) K ↔ AllRd (some "{".toList) r fun t => K (mkTok (.sym "{") :: t) := AllRd_P (by decide) (by decide)
@[simp] theorem AllRd_lbrack : AllRd p (P "[" :: r) K ↔ AllRd (some "[".toList) r fun t => K (mkTok (.sym "[") :: t) := AllRd_P (by decide) (by decide)
@[simp] theorem AllRd_rbrack : AllRd p (P "]" :: r) K ↔ AllRd (some "]".toList) r fun t => K (mkTok (.sym "]") :: t) := AllRd_P (by decide) (by decide)
@[simp] theorem AllRd_assign : AllRd p (P "=" :: r) K ↔ AllRd (some "=".toList) r fun t => K (mkTok (.sym "=") :: t) := AllRd_P (by decide) (by decide)
@[simp] theorem AllRd_colon : AllRd p (P ":" :: r) K ↔ AllRd (some ":".toList) r fun t => K (mkTok (.sym ":") :: t) := AllRd_P (by decide) (by decide)
@[simp] theorem AllRd_dcolon : AllRd p (P "::" :: r) K ↔ AllRd (some "::".toList) r fun t => K (mkTok (.sym "::") :: t) := AllRd_P (by decide) (by decide)
@[simp] theorem AllRd_semi : AllRd p (P ";" :: r) K ↔ AllRd (some ";".toList) r fun t => K (mkTok (.sym ";") :: t) := AllRd_P (by decide) (by decide)
@[simp] theorem AllRd_lt : AllRd p (P "<" :: r) K ↔ AllRd (some "<".toList) r fun t => K (mkTok (.sym "<") :: t) := AllRd_P (by decide) (by decide)
@[simp] theorem AllRd_gt : AllRd p (P ">" :: r) K ↔ AllRd (some ">".toList) r fun t => K (mkTok (.sym ">") :: t) := AllRd_P (by decide) (by decide)
@[simp] theorem AllRd_ellipsis : AllRd p (P "..." :: r) K ↔ AllRd (some "...".toList) r fun t => K (mkTok (.sym "...") :: t) := AllRd_P (by decide) (by decide)

theorem AllRd_wrapParens {ps : Pieces} :
    AllRd p (wrapParens ps) K ↔ AllRd (some "(".toList) ps fun t => K (mkTok (.sym "(") :: (t ++ [mkTok (.sym ")")])) := by
  simp only [wrapParens, AllRd_lpar, AllRd_append, AllRd_rpar, AllRd_nil, List.cons_append]

theorem bop_ne (o : Spec.BOp) : o.sym.toList ≠ ['}'] := by cases o <;> decide
theorem uop_ne (u : Spec.UOp) : u.sym.toList ≠ ['}'] := by cases u <;> decide

@[simp] theorem AllRd_bop (o : Spec.BOp) :
    AllRd p (.str o.sym.toList :: r) K ↔ AllRd (some o.sym.toList) r fun t => K (mkTok (bopTk o) :: t) := by
  rw [AllRd_str (bop_ne o), strTk_bop]; rfl

theorem AllRd_uop (u : Spec.UOp) :
    AllRd p (.str u.sym.toList :: r) K ↔ AllRd (some u.sym.toList) r fun t => K (mkTok (uopTk u) :: t) := by
  rw [AllRd_str (uop_ne u), strTk_uop]; rfl

theorem ident_ne {n : List Char} (h : identOK n = true) : n ≠ ['}'] := by
  rintro rfl; revert h; decide

theorem AllRd_ident {n : List Char} (h : identOK n = true) :
    AllRd p (.str n :: r) K ↔ AllRd (some n) r fun t => K (mkTok (.name (String.ofList n)) :: t) := by
  rw [AllRd_str (ident_ne h), strTk_ident h]; rfl

theorem AllRd_nameNode (sty : Style) {e : Expr} (h : nameNodeOK e = true) :
    AllRd p (visitExpr sty e ++ r) K ↔ AllRd (some (nameStr e)) r fun t => K (mkTok (.name (nameS e)) :: t) := by
  obtain ⟨t, n, rfl, hn⟩ := nameNodeOK_iff h
  simp only [visitExpr, List.cons_append, List.nil_append, AllRd_ident hn, nameS, nameStr]

theorem AllRd_nameNode' (sty : Style) {e : Expr} (h : nameNodeOK e = true) :
    AllRd p (visitExpr sty e) K ↔ K [mkTok (.name (nameS e))] := by
  have := AllRd_nameNode (p := p) (K := K) (r := []) sty h
  simpa [AllRd_nil] using this

theorem AllRd_nameStr {e : Expr} (h : nameNodeOK e = true) :
    AllRd p (.str (nameStr e) :: r) K ↔ AllRd (some (nameStr e)) r fun t => K (mkTok (.name (nameS e)) :: t) := by
  obtain ⟨t, n, rfl, hn⟩ := nameNodeOK_iff h
  simp only [nameStr, AllRd_ident hn, nameS]

/-- the state after a string literal (its text) -/
def strSt (sty : Style) (v : List Char) : Option (List Char) := st none (visitString sty v)

theorem AllRd_visitString (sty : Style) (v : List Char) :
    AllRd p (visitString sty v ++ r) K ↔
      AllRd (strSt sty v) r fun t => K (mkTok (.str (v.map fun c => Spec.SUnit.ch c.toNat)) :: t) := by
  unfold strSt
  rcases Props.C06_forms sty v with ⟨q, hq, h⟩ | h
  · rw [h]
    have := strTk_quoted q hq v
    simp only [List.cons_append] at this
    have hne : q :: (v.flatMap (escapeChar q) ++ [q]) ≠ ['}'] := by
      rcases hq with rfl | rfl <;> simp
    simp only [List.cons_append, List.nil_append, AllRd_str hne, this, st]; rfl
  · rw [h]
    have := strTk_long v
    simp only [List.cons_append, List.append_assoc, List.nil_append] at this ⊢
    rw [AllRd_str (by simp), this]; rfl

theorem number_ne {n : NumTuple} (h : numOKp n = true) : numberStr n ≠ ['}'] := by
  intro he
  simp only [numOKp, he, Bool.and_eq_true] at h
  have := h.1
  revert this; decide

theorem AllRd_number {n : NumTuple} (h : numOKp n = true) :
    AllRd p (.str (numberStr n) :: r) K ↔
      AllRd (some (numberStr n)) r fun t => K (mkTok (.num ((Spec.parseNumeral (numberStr n)).getD default)) :: t) := by
  obtain ⟨m, hp, _, hs⟩ := strTk_number h
  rw [AllRd_str (number_ne h), hs, hp]; rfl

@[simp] theorem AllRd_fmtKey {ps : Pieces} : AllRd p (fmtKey ps) K ↔ AllRd p ps K := by
  unfold fmtKey
  split
  · split
    · simp only [AllRd_space]
    · rfl
  · rfl

/-! ## comments -/

theorem dashes_ne {x : List Char} (h : startsWith x ['-', '-'] = true) : x ≠ ['}'] := by
  rintro rfl; revert h; decide

theorem Rd_formatComment (sty : Style) (c : List Char) : AllRd p (formatComment sty c) Semis := by
  unfold formatComment
  simp only
  split
  · rw [AllRd_str (dashes_ne (by simp [startsWith, isPrefix]))]
    simp only [AllRd_statement, AllRd_nil]
    intro s hs
    rw [strTk_of_dashes (by simp [startsWith, isPrefix])]
    simpa using hs.semis
  · rw [AllRd_str (dashes_ne (by simp [startsWith, isPrefix]))]
    simp only [AllRd_newline, AllRd_nil]
    rw [strTk_of_dashes (by simp [startsWith, isPrefix])]
    simpa using Semis_nil

theorem Rd_stmtCommentPieces (sty : Style) (s : Stmt) : AllRd p (stmtCommentPieces sty s) Semis := by
  unfold stmtCommentPieces
  split
  · generalize stmtComments s = cs
    induction cs generalizing p with
    | nil => simpa [AllRd_nil] using Semis_nil
    | cons c cs ih =>
      simp only [List.flatMap_cons, AllRd_append]
      intro ta ha tb hb
      exact (Rd_formatComment sty c ta ha).append (ih tb hb)
  · simpa [AllRd_nil] using Semis_nil

end Tumfl.Theory.TCGSim
