import Tumfl.Theory.ClimbRel
import Tumfl.Theory.LadderMono
/-!
# The expression ladder of tumfl parses exactly like Lua's `subexpr`

`LadderOK levels powOps` is a decidable condition on the level table (checked by the kernel for the
table extracted from parser.py in `Tumfl/Inst/Ladder.lean`).  It is phrased with *cuts*: a limit `L`
cuts the operators at a level if the operators with `lp o > L` are exactly the operators of that
level and of the levels above it (`absorbs`).  Required:

* `[]` (the unary/power level): `UPRI` and `rp o` for every `o ∈ powOps` cut at the power level;
* `d :: rest`: `d.ops` is not empty, and for every `o ∈ d.ops`: `lp o` cuts at `rest` (the level above),
  and `rp o` cuts at `rest` (left helper: operand is the next level) resp. at `d :: rest` (right
  helper: operand is the level itself);
* `0` cuts at the whole ladder (every operator with `lp o > 0` sits somewhere).

These follow from (and are weaker than) "all operators of a level share `lp`/`rp`, `rp = lp` for left levels,
`rp + 1 = lp` for right levels, `lp` strictly increasing along the ladder and below `UPRI`, power operators
above `UPRI`"; gaps in the numbering (Lua has none at `8 = rp ..`, `12 = UPRI`, `13 = rp ^`) are allowed.

Main theorem: `ladder_iff_climb`, for every signature `S`.
-/
namespace Tumfl.Theory
open Tumfl.Spec Tumfl.Model

variable {σ ε Err T : Type}

/-! ## the decidable well-formedness predicate -/

/-- operators handled by the levels `levels` or above them (power level) -/
def absorbs (levels : List LevelDesc) (powOps : List BOp) (o : BOp) : Bool :=
  powOps.contains o || levels.any fun d => d.ops.contains o

/-- the operators with left priority above `L` are exactly those absorbed by `levels` and above -/
def cutOK (levels : List LevelDesc) (powOps : List BOp) (L : Nat) : Bool :=
  BOp.all.all fun o => decide (L < lp o) == absorbs levels powOps o

def levelsOK (powOps : List BOp) : List LevelDesc → Bool
  | [] => cutOK [] powOps UPRI && powOps.all fun o => cutOK [] powOps (rp o)
  | d :: rest =>
    levelsOK powOps rest && !d.ops.isEmpty &&
      d.ops.all fun o => cutOK rest powOps (lp o) && cutOK (if d.right then d :: rest else rest) powOps (rp o)

/-- the ladder table agrees with Lua's priority table -/
def LadderOK (levels : List LevelDesc) (powOps : List BOp) : Bool :=
  levelsOK powOps levels && cutOK levels powOps 0

/-! ## propositional reading -/

def Cut (A : BOp → Prop) (L : Nat) : Prop := ∀ o, L < lp o ↔ A o

def Abs (levels : List LevelDesc) (powOps : List BOp) (o : BOp) : Prop := absorbs levels powOps o = true

theorem Cut.lt {A : BOp → Prop} {L : Nat} (h : Cut A L) {o : BOp} (ha : A o) : L < lp o := (h o).mpr ha

theorem Cut.not_of_le {A : BOp → Prop} {L : Nat} (h : Cut A L) {o : BOp} (hle : lp o ≤ L) : ¬ A o :=
  fun ha => by have := h.lt ha; omega

theorem Cut.le_of_not {A : BOp → Prop} {L : Nat} (h : Cut A L) {o : BOp} (hn : ¬ A o) : lp o ≤ L := by
  by_cases hl : L < lp o
  · exact absurd ((h o).mp hl) hn
  · omega

theorem BOp.mem_all (o : BOp) : o ∈ BOp.all := by
  cases o <;> simp [BOp.all]

theorem cutOK_iff {levels : List LevelDesc} {powOps : List BOp} {L : Nat} :
    cutOK levels powOps L = true ↔ Cut (Abs levels powOps) L := by
  unfold cutOK Cut Abs
  rw [List.all_eq_true]
  constructor
  · intro h o
    have := h o (BOp.mem_all o)
    rw [beq_iff_eq] at this
    rw [← this]
    simp
  · intro h o _
    rw [beq_iff_eq]
    have := h o
    cases hb : absorbs levels powOps o
    · rw [hb] at this; simpa using this
    · rw [hb] at this; simpa using this

theorem Abs_nil {powOps : List BOp} {o : BOp} : Abs [] powOps o ↔ o ∈ powOps := by
  simp [Abs, absorbs]

theorem Abs_cons {d : LevelDesc} {rest : List LevelDesc} {powOps : List BOp} {o : BOp} :
    Abs (d :: rest) powOps o ↔ (o ∈ d.ops ∨ Abs rest powOps o) := by
  simp only [Abs, absorbs, List.any_cons, Bool.or_eq_true, List.contains_iff_mem]
  constructor
  · rintro (h | h | h)
    · exact Or.inr (Or.inl h)
    · exact Or.inl h
    · exact Or.inr (Or.inr h)
  · rintro (h | h | h)
    · exact Or.inr (Or.inl h)
    · exact Or.inl h
    · exact Or.inr (Or.inr h)

theorem levelsOK_nil {powOps : List BOp} (h : levelsOK powOps [] = true) :
    Cut (Abs [] powOps) UPRI ∧ ∀ o ∈ powOps, Cut (Abs [] powOps) (rp o) := by
  simp only [levelsOK, Bool.and_eq_true, List.all_eq_true] at h
  exact ⟨cutOK_iff.mp h.1, fun o ho => cutOK_iff.mp (h.2 o ho)⟩

theorem levelsOK_cons {powOps : List BOp} {d : LevelDesc} {rest : List LevelDesc}
    (h : levelsOK powOps (d :: rest) = true) :
    levelsOK powOps rest = true ∧ (∃ o, o ∈ d.ops) ∧
      ∀ o ∈ d.ops, Cut (Abs rest powOps) (lp o) ∧
        Cut (Abs (if d.right then d :: rest else rest) powOps) (rp o) := by
  simp only [levelsOK, Bool.and_eq_true, List.all_eq_true, Bool.not_eq_true'] at h
  obtain ⟨⟨h1, h2⟩, h3⟩ := h
  refine ⟨h1, ?_, fun o ho => ⟨cutOK_iff.mp (h3 o ho).1, cutOK_iff.mp (h3 o ho).2⟩⟩
  cases hd : d.ops with
  | nil => rw [hd] at h2; simp at h2
  | cons o _ => exact ⟨o, by simp⟩

/-! ## the collecting loop when the operand absorbs everything -/

theorem rightCollect_nil {S : ExprSig σ ε Err T} {ops : List BOp} {operand : σ → PR σ ε Err} {s : σ}
    (hq : ∀ o, S.binOf (S.peek s) = some o → o ∉ ops) (f : Nat) :
    rightCollect S ops operand (f + 1) s = .ok ([], s) := by
  rw [rightCollect_succ]
  split
  · rename_i o ho
    have : ops.contains o = false := by
      cases hc : ops.contains o
      · rfl
      · exact absurd (List.contains_iff_mem.mp hc) (hq o ho)
    simp only [this, Bool.false_eq_true, if_false]
  · rfl

theorem rightCollect_quiet {S : ExprSig σ ε Err T} {ops : List BOp} {operand : σ → PR σ ε Err} {s : σ}
    (hq : ∀ o, S.binOf (S.peek s) = some o → o ∉ ops) {f : Nat} {r : List (T × BOp × ε) × σ}
    (h : rightCollect S ops operand f s = .ok r) : r = ([], s) := by
  cases f with
  | zero => rw [rightCollect] at h; cases h
  | succ f => rw [rightCollect_nil hq] at h; cases h; rfl

theorem rightCollect_one {S : ExprSig σ ε Err T} {ops : List BOp} {operand : σ → PR σ ε Err} {s s1 s2 : σ}
    {o : BOp} {e2 : ε} (ho : S.binOf (S.peek s) = some o) (hmem : o ∈ ops) (he : S.eat s = .ok s1)
    (hop : operand s1 = .ok (e2, s2)) (hq : ∀ o, S.binOf (S.peek s2) = some o → o ∉ ops) (f : Nat) :
    rightCollect S ops operand (f + 2) s = .ok ([(S.peek s, o, e2)], s2) := by
  rw [rightCollect_succ]
  simp only [ho, List.contains_iff_mem.mpr hmem, if_true, he, hop, rightCollect_nil hq]

/-! ## ladder ⊆ climb -/

/-- the collecting loop of a right-associative level is one round of `climbLoop` -/
theorem collect_sound {S : ExprSig σ ε Err T} {ops : List BOp} {operand : σ → PR σ ε Err} {A : BOp → Prop}
    (hsub : ∀ o, o ∈ ops → A o)
    (hop : ∀ s r, operand s = .ok r → ∀ L, Cut A L → CR S L none s r)
    (hrp : ∀ o, o ∈ ops → Cut A (rp o))
    {L : Nat} (hL : Cut A L) {f : Nat} {n : ε} {s : σ} {items : List (T × BOp × ε)} {s' : σ}
    (hq : ∀ o, S.binOf (S.peek s) = some o → A o → o ∈ ops)
    (h : rightCollect S ops operand f s = .ok (items, s')) :
    CR S L (some n) s (foldRight S n items, s') := by
  cases f with
  | zero => rw [rightCollect] at h; cases h
  | succ f =>
    rw [rightCollect_succ] at h
    split at h
    · rename_i o ho
      split at h
      · rename_i hc
        have hmem : o ∈ ops := List.contains_iff_mem.mp hc
        split at h
        · cases h
        · rename_i s1 he
          split at h
          · cases h
          · rename_i e2 s2 hop1
            split at h
            · cases h
            · rename_i rest s3 hr
              cases h
              have hc1 : CR S (rp o) none s1 (e2, s2) := hop _ _ hop1 _ (hrp o hmem)
              have hnA : ∀ o', S.binOf (S.peek s2) = some o' → ¬ A o' :=
                fun o' ho' => (hrp o hmem).not_of_le (hc1.quiet o' ho')
              have := rightCollect_quiet (fun o' ho' hm => hnA o' ho' (hsub o' hm)) hr
              cases this
              exact CR.step ho (hL.lt (hsub o hmem)) he hc1
                (CR.stop fun o' ho' => hL.le_of_not (hnA o' ho'))
      · rename_i hc
        cases h
        refine CR.stop fun o' ho' => hL.le_of_not fun ha => ?_
        rw [ho] at ho'; cases ho'
        exact hc (List.contains_iff_mem.mpr (hq o ho ha))
    · rename_i ho
      cases h
      exact CR.stop fun o' ho' => by rw [ho] at ho'; cases ho'

/-- the loop of a left-associative level is `climbLoop`, as long as it starts where the next level stopped -/
theorem leftLoop_sound {S : ExprSig σ ε Err T} {ops : List BOp} {base : σ → PR σ ε Err} {A A' : BOp → Prop}
    (hA : ∀ o, A o ↔ (o ∈ ops ∨ A' o))
    (hbase : ∀ s r, base s = .ok r → ∀ L, Cut A' L → CR S L none s r)
    (hrp : ∀ o, o ∈ ops → Cut A' (rp o)) {L : Nat} (hL : Cut A L) :
    ∀ f n s r, (∀ o, S.binOf (S.peek s) = some o → ¬ A' o) → leftLoop S ops base f n s = .ok r →
      CR S L (some n) s r := by
  intro f
  induction f with
  | zero => intro n s r _ h; rw [leftLoop] at h; cases h
  | succ f ih =>
    intro n s r hq h
    rw [leftLoop_succ] at h
    split at h
    · rename_i o ho
      split at h
      · rename_i hc
        have hmem : o ∈ ops := List.contains_iff_mem.mp hc
        split at h
        · cases h
        · rename_i s1 he
          split at h
          · cases h
          · rename_i e2 s2 hb
            have hc1 : CR S (rp o) none s1 (e2, s2) := hbase _ _ hb _ (hrp o hmem)
            have hq2 : ∀ o', S.binOf (S.peek s2) = some o' → ¬ A' o' :=
              fun o' ho' => (hrp o hmem).not_of_le (hc1.quiet o' ho')
            exact CR.step ho (hL.lt ((hA o).mpr (Or.inl hmem))) he hc1 (ih _ _ _ hq2 h)
      · rename_i hc
        cases h
        refine CR.stop fun o' ho' => hL.le_of_not fun ha => ?_
        rw [ho] at ho'; cases ho'
        rcases (hA o).mp ha with hm | ha'
        · exact hc (List.contains_iff_mem.mpr hm)
        · exact hq o ho ha'
    · rename_i ho
      cases h
      exact CR.stop fun o' ho' => by rw [ho] at ho'; cases ho'

theorem un_sound (S : ExprSig σ ε Err T) (pw : List BOp) (hU : Cut (Abs [] pw) UPRI)
    (hP : ∀ o, o ∈ pw → Cut (Abs [] pw) (rp o)) : ∀ f,
    (∀ s r, unLevel S pw f s = .ok r → ∀ L, Cut (Abs [] pw) L → CR S L none s r) ∧
    (∀ s r, powLevel S pw f s = .ok r →
      ∃ e s1, S.simple s = .ok (e, s1) ∧ ∀ L, Cut (Abs [] pw) L → CR S L (some e) s1 r) := by
  intro f
  induction f with
  | zero =>
    constructor
    · intro s r h; rw [unLevel] at h; cases h
    · intro s r h; rw [powLevel] at h; cases h
  | succ f ih =>
    obtain ⟨ihu, ihp⟩ := ih
    constructor
    · intro s r h L hL
      rw [unLevel_succ] at h
      split at h
      · rename_i u hu
        split at h
        · cases h
        · rename_i s1 he
          split at h
          · cases h
          · rename_i e s2 hr
            cases h
            have hc1 := ihu _ _ hr _ hU
            exact CR.un hu he hc1 (CR.stop fun o' ho' => hL.le_of_not (hU.not_of_le (hc1.quiet o' ho')))
      · rename_i hu
        obtain ⟨e, s1, hs, hc⟩ := ihp _ _ h
        exact CR.simple hu hs (hc L hL)
    · intro s r h
      rw [powLevel_succ] at h
      obtain ⟨n, s1, items, hb, hc, hr⟩ := rightAssoc_ok h
      refine ⟨n, s1, hb, fun L hL => ?_⟩
      have := collect_sound (A := Abs [] pw) (n := n) (fun o ho => Abs_nil.mpr ho) ihu hP hL
        (fun o _ ha => Abs_nil.mp ha) hc
      rw [← hr] at this
      exact this

theorem bin_sound (S : ExprSig σ ε Err T) (pw : List BOp) : ∀ levels, levelsOK pw levels = true →
    ∀ f s r, binLevels S pw levels f s = .ok r → ∀ L, Cut (Abs levels pw) L → CR S L none s r := by
  intro levels
  induction levels with
  | nil =>
    intro hok f s r h L hL
    rw [binLevels_nil] at h
    obtain ⟨hU, hP⟩ := levelsOK_nil hok
    exact (un_sound S pw hU hP f).1 _ _ h L hL
  | cons d rest ihl =>
    intro hok
    obtain ⟨hok', ⟨o0, ho0⟩, hops⟩ := levelsOK_cons hok
    have ihl := ihl hok'
    intro f
    induction f with
    | zero => intro s r h; rw [binLevels] at h; cases h
    | succ f ihf =>
      intro s r h L hL
      rw [binLevels_cons_succ] at h
      have hL' := (hops o0 ho0).1
      have hLL : ∀ o, lp o0 < lp o → L < lp o := fun o h => hL.lt (Abs_cons.mpr (Or.inr ((hL' o).mp h)))
      cases hd : d.right
      · simp only [hd, Bool.false_eq_true, if_false] at h
        obtain ⟨n, s1, hb, hl⟩ := leftAssoc_ok h
        have hc0 := ihl _ _ _ hb _ hL'
        have hq : ∀ o, S.binOf (S.peek s1) = some o → ¬ Abs rest pw o :=
          fun o ho => hL'.not_of_le (hc0.quiet o ho)
        have hloop := leftLoop_sound (S := S) (fun o => Abs_cons) (fun s r h => ihl _ s r h)
          (fun o ho => by have := (hops o ho).2; simpa [hd] using this) hL f n s1 r hq hl
        exact CR.join hLL hc0 rfl r hloop
      · simp only [hd, if_true] at h
        obtain ⟨n, s1, items, hb, hc, hr⟩ := rightAssoc_ok h
        have hc0 := ihl _ _ _ hb _ hL'
        have hq : ∀ o, S.binOf (S.peek s1) = some o → ¬ Abs rest pw o :=
          fun o ho => hL'.not_of_le (hc0.quiet o ho)
        have hloop := collect_sound (S := S) (A := Abs (d :: rest) pw) (n := n)
          (fun o ho => Abs_cons.mpr (Or.inl ho)) (fun s r h => ihf s r h)
          (fun o ho => by have := (hops o ho).2; simpa [hd] using this) hL
          (fun o ho ha => (Abs_cons.mp ha).resolve_right (hq o ho)) hc
        rw [← hr] at hloop
        exact CR.join hLL hc0 rfl r hloop

/-! ## climb ⊆ ladder -/

/-- what a climb derivation means at the unary / power level -/
def UnGoal (S : ExprSig σ ε Err T) (pw : List BOp) : Option ε → σ → ε × σ → Prop
  | none, s, r => ∃ f, unLevel S pw f s = .ok r
  | some acc, s, r => ∃ items g f, rightCollect S pw (unLevel S pw g) f s = .ok (items, r.2) ∧
      r.1 = foldRight S acc items

theorem un_complete (S : ExprSig σ ε Err T) (pw : List BOp) (hU : Cut (Abs [] pw) UPRI)
    (hP : ∀ o, o ∈ pw → Cut (Abs [] pw) (rp o)) {limit : Nat} {m : Option ε} {s : σ} {r : ε × σ}
    (h : CR S limit m s r) : Cut (Abs [] pw) limit → UnGoal S pw m s r := by
  induction h with
  | @un limit s u s1 e s2 r hu he h1 h2 ih1 _ =>
    intro hL
    obtain ⟨f, hf⟩ := ih1 hU
    have := h2.loop_inv_quiet fun o' ho' => hL.le_of_not (hU.not_of_le (h1.quiet o' ho'))
    subst this
    refine ⟨f + 1, ?_⟩
    rw [unLevel_succ]
    simp only [hu, he, hf]
  | @simple limit s e s1 r hu hs _ ih =>
    intro hL
    obtain ⟨items, g, f, hc, hr⟩ := ih hL
    let F := max g f
    refine ⟨F + 2, ?_⟩
    rw [unLevel_succ]
    simp only [hu]
    rw [powLevel_succ]
    have hc' := rightCollect_mono (unLevel_mono_le S pw (Nat.le_max_left g f)) _ F _ _ (Nat.le_max_right g f) hc
    rw [rightAssoc_intro hs hc', ← hr]
  | @step limit acc s o s1 e2 s2 r ho hlt he h1 h2 ih1 _ =>
    intro hL
    have hmem : o ∈ pw := Abs_nil.mp ((hL o).mp hlt)
    obtain ⟨f, hf⟩ := ih1 (hP o hmem)
    have hnA : ∀ o', S.binOf (S.peek s2) = some o' → ¬ Abs [] pw o' :=
      fun o' ho' => (hP o hmem).not_of_le (h1.quiet o' ho')
    have := h2.loop_inv_quiet fun o' ho' => hL.le_of_not (hnA o' ho')
    subst this
    exact ⟨_, f, 2, rightCollect_one ho hmem he hf (fun o' ho' hm => hnA o' ho' (Abs_nil.mpr hm)) 0, rfl⟩
  | @stop limit acc s hq =>
    intro hL
    exact ⟨[], 0, 1, rightCollect_nil (fun o ho hm => hL.not_of_le (hq o ho) (Abs_nil.mpr hm)) 0, rfl⟩

theorem leftLoop_complete {S : ExprSig σ ε Err T} {ops : List BOp} {base : Nat → σ → PR σ ε Err}
    (hmono : ∀ f g, f ≤ g → PLe (base f) (base g)) {A A' : BOp → Prop}
    (hA : ∀ o, A o ↔ (o ∈ ops ∨ A' o))
    (hbase : ∀ L s r, Cut A' L → CR S L none s r → ∃ f, base f s = .ok r)
    (hrp : ∀ o, o ∈ ops → Cut A' (rp o)) {L : Nat} (hL : Cut A L)
    {limit : Nat} {m : Option ε} {s : σ} {r : ε × σ} (h : CR S limit m s r) :
    limit = L → ∀ acc, m = some acc → (∀ o, S.binOf (S.peek s) = some o → ¬ A' o) →
      ∃ g f, leftLoop S ops (base g) f acc s = .ok r := by
  induction h with
  | un => intro _ acc hm; cases hm
  | simple => intro _ acc hm; cases hm
  | @step limit acc s o s1 e2 s2 r ho hlt he h1 _ _ ih2 =>
    intro hl acc' hm hq
    cases hm
    subst hl
    have hmem : o ∈ ops := ((hA o).mp ((hL o).mp hlt)).resolve_right (hq o ho)
    obtain ⟨g1, hg1⟩ := hbase _ _ _ (hrp o hmem) h1
    have hq2 : ∀ o', S.binOf (S.peek s2) = some o' → ¬ A' o' :=
      fun o' ho' => (hrp o hmem).not_of_le (h1.quiet o' ho')
    obtain ⟨g2, f2, h2⟩ := ih2 rfl _ rfl hq2
    refine ⟨max g1 g2, f2 + 1, ?_⟩
    rw [leftLoop_succ]
    simp only [ho, List.contains_iff_mem.mpr hmem, if_true, he,
      hmono _ _ (Nat.le_max_left g1 g2) _ _ hg1]
    exact leftLoop_mono (hmono _ _ (Nat.le_max_right g1 g2)) _ _ _ _ _ (Nat.le_refl _) h2
  | @stop limit acc s hq' =>
    intro hl acc' hm hq
    cases hm
    subst hl
    refine ⟨0, 1, ?_⟩
    rw [leftLoop_succ]
    split
    · rename_i o ho
      have : ¬ o ∈ ops := fun hm => hL.not_of_le (hq' o ho) ((hA o).mpr (Or.inl hm))
      have : ops.contains o = false := by
        cases hc : ops.contains o
        · rfl
        · exact absurd (List.contains_iff_mem.mp hc) this
      simp only [this, Bool.false_eq_true, if_false]
    · rfl

/-- what a climb derivation means at a right-associative binary level -/
def RightGoal (S : ExprSig σ ε Err T) (pw : List BOp) (d : LevelDesc) (rest : List LevelDesc) (L' : Nat) :
    Option ε → σ → ε × σ → Prop
  | none, s, r => ∃ f, binLevels S pw (d :: rest) f s = .ok r
  | some acc, s, r => ∃ n s1, CR S L' (some acc) s (n, s1) ∧
      ∃ items g f, rightCollect S d.ops (binLevels S pw (d :: rest) g) f s1 = .ok (items, r.2) ∧
        r.1 = foldRight S n items

theorem right_assemble {S : ExprSig σ ε Err T} {pw : List BOp} {d : LevelDesc} {rest : List LevelDesc}
    (hd : d.right = true) {s s1 : σ} {n : ε} {r : ε × σ} {items : List (T × BOp × ε)} {f1 g f : Nat}
    (hb : binLevels S pw rest f1 s = .ok (n, s1))
    (hc : rightCollect S d.ops (binLevels S pw (d :: rest) g) f s1 = .ok (items, r.2))
    (hr : r.1 = foldRight S n items) : ∃ F, binLevels S pw (d :: rest) F s = .ok r := by
  let F := max f1 (max g f)
  have h1 : f1 ≤ F := Nat.le_max_left _ _
  have h2 : g ≤ F := Nat.le_trans (Nat.le_max_left g f) (Nat.le_max_right _ _)
  have h3 : f ≤ F := Nat.le_trans (Nat.le_max_right g f) (Nat.le_max_right _ _)
  refine ⟨F + 1, ?_⟩
  rw [binLevels_cons_succ]
  simp only [hd, if_true]
  have hb' := binLevels_mono_le S pw rest h1 _ _ hb
  have hc' := rightCollect_mono (binLevels_mono_le S pw (d :: rest) h2) _ F _ _ h3 hc
  rw [rightAssoc_intro hb' hc', ← hr]

theorem right_complete {S : ExprSig σ ε Err T} {pw : List BOp} {d : LevelDesc} {rest : List LevelDesc}
    (hd : d.right = true) {L' : Nat} (hL' : Cut (Abs rest pw) L')
    (ihl : ∀ L s r, Cut (Abs rest pw) L → CR S L none s r → ∃ f, binLevels S pw rest f s = .ok r)
    (hrp : ∀ o, o ∈ d.ops → Cut (Abs (d :: rest) pw) (rp o))
    {limit : Nat} {m : Option ε} {s : σ} {r : ε × σ} (h : CR S limit m s r) :
    Cut (Abs (d :: rest) pw) limit → RightGoal S pw d rest L' m s r := by
  induction h with
  | @un limit s u s1 e s2 r hu he h1 _ _ ih2 =>
    intro hL
    obtain ⟨n, s1', hc0, items, g, f, hc, hr⟩ := ih2 hL
    obtain ⟨f1, hb⟩ := ihl _ _ _ hL' (CR.un hu he h1 hc0)
    exact right_assemble hd hb hc hr
  | @simple limit s e s1 r hu hs _ ih =>
    intro hL
    obtain ⟨n, s1', hc0, items, g, f, hc, hr⟩ := ih hL
    obtain ⟨f1, hb⟩ := ihl _ _ _ hL' (CR.simple hu hs hc0)
    exact right_assemble hd hb hc hr
  | @step limit acc s o s1 e2 s2 r ho hlt he h1 h2 ih1 ih2 =>
    intro hL
    by_cases hlt' : L' < lp o
    · obtain ⟨n, s1', hc0, rest'⟩ := ih2 hL
      exact ⟨n, s1', CR.step ho hlt' he h1 hc0, rest'⟩
    · have hmem : o ∈ d.ops :=
        (Abs_cons.mp ((hL o).mp hlt)).resolve_right fun ha => hlt' (hL'.lt ha)
      obtain ⟨f1, hf1⟩ := ih1 (hrp o hmem)
      have hnA : ∀ o', S.binOf (S.peek s2) = some o' → ¬ Abs (d :: rest) pw o' :=
        fun o' ho' => (hrp o hmem).not_of_le (h1.quiet o' ho')
      have := h2.loop_inv_quiet fun o' ho' => hL.le_of_not (hnA o' ho')
      subst this
      refine ⟨acc, s, CR.stop fun o' ho' => ?_, _, f1, 2,
        rightCollect_one ho hmem he hf1 (fun o' ho' hm => hnA o' ho' (Abs_cons.mpr (Or.inl hm))) 0, rfl⟩
      rw [ho] at ho'; cases ho'; omega
  | @stop limit acc s hq =>
    intro hL
    have hnA : ∀ o, S.binOf (S.peek s) = some o → ¬ Abs (d :: rest) pw o :=
      fun o ho => hL.not_of_le (hq o ho)
    exact ⟨acc, s, CR.stop fun o ho => hL'.le_of_not fun ha => hnA o ho (Abs_cons.mpr (Or.inr ha)),
      [], 0, 1, rightCollect_nil (fun o ho hm => hnA o ho (Abs_cons.mpr (Or.inl hm))) 0, rfl⟩

theorem bin_complete (S : ExprSig σ ε Err T) (pw : List BOp) : ∀ levels, levelsOK pw levels = true →
    ∀ L s r, Cut (Abs levels pw) L → CR S L none s r → ∃ f, binLevels S pw levels f s = .ok r := by
  intro levels
  induction levels with
  | nil =>
    intro hok L s r hL h
    obtain ⟨hU, hP⟩ := levelsOK_nil hok
    obtain ⟨f, hf⟩ := un_complete S pw hU hP h hL
    exact ⟨f, by rw [binLevels_nil]; exact hf⟩
  | cons d rest ihl =>
    intro hok L s r hL h
    obtain ⟨hok', ⟨o0, ho0⟩, hops⟩ := levelsOK_cons hok
    have ihl := ihl hok'
    have hL' := (hops o0 ho0).1
    cases hd : d.right
    · have hLL : ∀ o, lp o0 < lp o → L < lp o := fun o h => hL.lt (Abs_cons.mpr (Or.inr ((hL' o).mp h)))
      obtain ⟨n, s1, hc0, hloop⟩ := CR.split hLL h rfl
      obtain ⟨f1, hb⟩ := ihl _ _ _ hL' hc0
      have hq : ∀ o, S.binOf (S.peek s1) = some o → ¬ Abs rest pw o :=
        fun o ho => hL'.not_of_le (hc0.quiet o ho)
      obtain ⟨g, f, hl⟩ := leftLoop_complete (S := S) (base := binLevels S pw rest)
        (fun f g hfg => binLevels_mono_le S pw rest hfg) (fun o => Abs_cons) ihl
        (fun o ho => by have := (hops o ho).2; simpa [hd] using this) hL hloop rfl n rfl hq
      let F := max f1 (max g f)
      have h1 : f1 ≤ F := Nat.le_max_left _ _
      have h2 : g ≤ F := Nat.le_trans (Nat.le_max_left g f) (Nat.le_max_right _ _)
      have h3 : f ≤ F := Nat.le_trans (Nat.le_max_right g f) (Nat.le_max_right _ _)
      refine ⟨F + 1, ?_⟩
      rw [binLevels_cons_succ]
      simp only [hd, Bool.false_eq_true, if_false]
      exact leftAssoc_intro (binLevels_mono_le S pw rest h1 _ _ hb)
        (leftLoop_mono (binLevels_mono_le S pw rest h2) _ _ _ _ _ h3 hl)
    · exact right_complete hd hL' ihl (fun o ho => by have := (hops o ho).2; simpa [hd] using this) h hL

/-! ## main theorem -/

theorem ladder_iff_climb {σ ε Err T : Type} (S : ExprSig σ ε Err T) (levels : List LevelDesc) (powOps : List BOp)
    (h : LadderOK levels powOps = true) (s : σ) (r : ε × σ) :
    (∃ f, ladderExp S levels powOps f s = .ok r) ↔ (∃ f, climb S f 0 s = .ok r) := by
  simp only [LadderOK, Bool.and_eq_true] at h
  obtain ⟨hok, hcut⟩ := h
  have hcut := cutOK_iff.mp hcut
  rw [climb_iff]
  constructor
  · rintro ⟨f, hf⟩
    exact bin_sound S powOps levels hok f s r hf 0 hcut
  · intro hc
    exact bin_complete S powOps levels hok 0 s r hcut hc

end Tumfl.Theory
