import Tumfl.Theory.LayoutKeepsBrackets
/-!
# The layout passes keep the tokens

"The layout passes change white space (and statement / argument separators at allowed places) only:
the sequence of tokens emitted by the first stage survives unchanged" - pass by pass:

1. `removeSeparators_keeps`: only deletes, and only Space / Statement / Block separators.
2. `addSpacing_keeps`: only inserts Newline separators (`filter_insertAt`).
3. `removeOrphaned_keeps`: deletes exactly the empty string pieces and some Statement separators.
4. `resolveTokens_keeps` (pointwise `ResolveRel`), `indentLoop_keeps` (pointwise `IndentRel`),
   `joinTokens_eq`.
5. `indentBrackets_keeps` (file `LayoutKeepsBrackets`) and its corollaries `indentBrackets_strs`,
   `indentBrackets_nq`, `indentBrackets_seps`, `indentBrackets_strs_of_no_wrap`; the local facts about
   `_string_ident` are in `LayoutKeepsString` (`stringIdent_flatten`, `stringIdent_parts`,
   `stepPos_pos`, `stringIdentLoop_parts_ne_nil`, `stringIdentLoop_flatten`).
   `nq ts' = nq ts` itself is false: `indentBrackets_nq_counterexample`.
6. `format_stages` exposes the intermediate streams of `format` so that the above can be chained.
-/
namespace Tumfl.Theory
open Tumfl.Model

/-! ## 1. `removeSeparators` -/

/-- the pieces `removeSeparators` never removes: everything but Space / Statement / Block separators -/
def keepRS (p : Piece) : Bool := p != S .space && p != S .statement && p != S .block

theorem removeSepsFrom_cons {rp : Pieces} {x : Piece} {xs out : Pieces}
    (h : removeSepsFrom rp (x :: xs) = .ok out) :
    ∃ suf, removeSepsFrom (x :: rp) xs = .ok suf ∧ (out = x :: suf ∨ (out = suf ∧ keepRS x = false)) := by
  rw [removeSepsFrom] at h
  obtain ⟨suf, hs, h⟩ := lk_bind_ok h
  refine ⟨suf, hs, ?_⟩
  have key : ∀ x : Piece, keepRS x = false →
      (do let next ← searchFwd suf
          match searchBwd rp, next with
          | .str a, .str b => do
            let req ← sepRequired a b
            if req then .ok (x :: suf) else .ok suf
          | _, _ => .ok suf : R Pieces) = .ok out → (out = x :: suf ∨ (out = suf ∧ keepRS x = false)) := by
    intro x hx h
    obtain ⟨next, _, h⟩ := lk_bind_ok h
    split at h
    · obtain ⟨req, _, h⟩ := lk_bind_ok h
      cases req <;> simp at h <;> simp [h, hx]
    · simp at h; simp [h, hx]
  split at h
  · exact key _ (by decide) h
  · exact key _ (by decide) h
  · exact key _ (by decide) h
  · simp at h; simp [h]

theorem removeSepsFrom_spec : ∀ (xs rp suf : Pieces), removeSepsFrom rp xs = .ok suf →
    ∃ body, suf = body ++ [P "/"] ∧ body.Sublist xs ∧ body.filter keepRS = xs.filter keepRS
  | [], rp, suf, h => by
    rw [removeSepsFrom] at h
    exact ⟨[], by simpa using h.symm, .slnil, rfl⟩
  | x :: xs, rp, out, h => by
    obtain ⟨suf, hs, hout⟩ := removeSepsFrom_cons h
    obtain ⟨body, rfl, hsub, hf⟩ := removeSepsFrom_spec xs _ _ hs
    rcases hout with rfl | ⟨rfl, hx⟩
    · exact ⟨x :: body, rfl, hsub.cons_cons x, by simp [List.filter_cons, hf]⟩
    · exact ⟨body, rfl, hsub.cons x, by simp [hf, hx]⟩

/-- `remove_separators` only deletes pieces, and only Space / Statement / Block separators: the string
pieces are unchanged, the result is a sublist, and everything else survives in order. -/
theorem removeSeparators_keeps {ts ts' : Pieces} (h : removeSeparators ts = .ok ts') :
    strs ts' = strs ts ∧ ts'.Sublist ts ∧ ts'.filter keepRS = ts.filter keepRS := by
  have main : ts'.Sublist ts ∧ ts'.filter keepRS = ts.filter keepRS := by
    cases ts with
    | nil => simp [removeSeparators] at h; subst h; exact ⟨.slnil, rfl⟩
    | cons x0 xs =>
      simp only [removeSeparators] at h
      obtain ⟨suf, hs, h⟩ := lk_bind_ok h
      obtain ⟨body, rfl, hsub, hf⟩ := removeSepsFrom_spec _ _ _ hs
      simp at h; subst h
      exact ⟨hsub.cons_cons x0, by simp [List.filter_cons, hf]⟩
  exact ⟨strs_eq_of_filter_eq keepRS (fun s => by rfl) main.2, main⟩

/-- the explicit reading of `keepRS` -/
theorem keepRS_eq_false {p : Piece} : keepRS p = false ↔ p = .sep .space ∨ p = .sep .statement ∨ p = .sep .block := by
  cases p with
  | str s => simp [keepRS, S]
  | sep x => cases x <;> simp [keepRS, S]

/-! ## 2. `addSpacing` -/

/-- inserting an element that a filter rejects is invisible through the filter -/
theorem filter_insertAt (f : Piece → Bool) (x : Piece) (hx : f x = false) (xs : Pieces) (i : Nat) :
    (insertAt xs i x).filter f = xs.filter f := by
  simp only [insertAt, List.filter_append, List.filter_cons, hx]
  simp only [Bool.false_eq_true, if_false]
  rw [← List.filter_append, List.take_append_drop]

theorem sublist_insertAt (x : Piece) (xs : Pieces) (i : Nat) : xs.Sublist (insertAt xs i x) := by
  have : (xs.take i ++ xs.drop i).Sublist (xs.take i ++ x :: xs.drop i) :=
    List.Sublist.append (List.Sublist.refl _) (List.sublist_cons_self _ _)
  simpa [insertAt] using this

theorem filter_foldl_insertAt (f : Piece → Bool) (x : Piece) (hx : f x = false) :
    ∀ (is : List Nat) (xs : Pieces), (is.foldl (fun acc i => insertAt acc i x) xs).filter f = xs.filter f
  | [], _ => rfl
  | i :: is, xs => by
    simp only [List.foldl_cons]
    rw [filter_foldl_insertAt f x hx is, filter_insertAt f x hx]

theorem sublist_foldl_insertAt (x : Piece) :
    ∀ (is : List Nat) (xs : Pieces), xs.Sublist (is.foldl (fun acc i => insertAt acc i x) xs)
  | [], _ => List.Sublist.refl _
  | i :: is, xs => by
    simp only [List.foldl_cons]
    exact (sublist_insertAt x xs i).trans (sublist_foldl_insertAt x is _)

/-- `add_spacing` only inserts Newline separators -/
theorem addSpacing_keeps {ts ts' : Pieces} {sty : Style} (h : addSpacing ts sty = .ok ts') :
    ts'.filter (· != S .newline) = ts.filter (· != S .newline) ∧ ts.Sublist ts' ∧ strs ts' = strs ts := by
  simp only [addSpacing] at h
  obtain ⟨⟨_, _, toAdd⟩, _, h⟩ := lk_bind_ok h
  simp only [Except.ok.injEq] at h
  subst h
  have hf := filter_foldl_insertAt (· != S .newline) (S .newline) (by simp)
    (toAdd.eraseDups.toArray.qsort (· > ·)).toList ts
  exact ⟨hf, sublist_foldl_insertAt _ _ _, strs_eq_of_filter_eq _ (fun s => by simp [S]) hf⟩

/-! ## 3. `removeOrphaned` -/

theorem orphan_match (r : Pieces) (x : Piece) :
    (match r with
      | .sep .newline :: .sep .deindent :: _ => r
      | _ => x :: r) = r ∨
    (match r with
      | .sep .newline :: .sep .deindent :: _ => r
      | _ => x :: r) = x :: r := by
  rcases r with _ | ⟨a, _ | ⟨b, t⟩⟩
  · exact .inr rfl
  · rcases a with _ | s
    · exact .inr rfl
    · cases s <;> exact .inr rfl
  · rcases a with _ | s
    · exact .inr rfl
    · rcases b with _ | s'
      · cases s <;> exact .inr rfl
      · cases s <;> cases s' <;> first | exact .inr rfl | exact .inl rfl

theorem orphan_match2 (prev : Piece) (r : Pieces) (x : Piece) :
    (match prev with
      | .sep _ => r
      | .str _ =>
        match r with
        | .sep .newline :: .sep .deindent :: _ => r
        | _ => x :: r) = r ∨
    (match prev with
      | .sep _ => r
      | .str _ =>
        match r with
        | .sep .newline :: .sep .deindent :: _ => r
        | _ => x :: r) = x :: r := by
  cases prev
  · exact orphan_match r x
  · exact .inl rfl

theorem removeOrphanedFrom_cons (rp : Pieces) (x : Piece) (xs : Pieces) :
    (x = .str [] ∧ removeOrphanedFrom rp (x :: xs) = removeOrphanedFrom (x :: rp) xs) ∨
    (x = .sep .statement ∧ removeOrphanedFrom rp (x :: xs) = removeOrphanedFrom (x :: rp) xs) ∨
    (x ≠ .str [] ∧ removeOrphanedFrom rp (x :: xs) = x :: removeOrphanedFrom (x :: rp) xs) := by
  by_cases h1 : x = .str []
  · left; cases rp <;> rw [removeOrphanedFrom] <;> simp [h1]
  · right
    by_cases h2 : x = .sep .statement
    · subst h2
      have key : removeOrphanedFrom rp (.sep .statement :: xs) = removeOrphanedFrom (.sep .statement :: rp) xs ∨
          removeOrphanedFrom rp (.sep .statement :: xs) =
            .sep .statement :: removeOrphanedFrom (.sep .statement :: rp) xs := by
        cases rp <;> rw [removeOrphanedFrom] <;>
          simp only [beq_self_eq_true, if_true, reduceCtorEq, beq_iff_eq, if_false] <;>
          exact orphan_match2 _ _ _
      rcases key with e | e
      · exact .inl ⟨rfl, e⟩
      · exact .inr ⟨h1, e⟩
    · right; cases rp <;> rw [removeOrphanedFrom] <;> simp [h1, h2]

/-- string pieces that are not empty -/
def keepRO (p : Piece) : Bool := p != S .statement && p != .str []

theorem removeOrphanedFrom_spec : ∀ (xs rp : Pieces),
    (removeOrphanedFrom rp xs).Sublist xs ∧
    (removeOrphanedFrom rp xs).filter (· != S .statement) = xs.filter keepRO ∧
    strs (removeOrphanedFrom rp xs) = (strs xs).filter (· ≠ [])
  | [], rp => by simp [removeOrphanedFrom]
  | x :: xs, rp => by
    obtain ⟨hsub, hf, hs⟩ := removeOrphanedFrom_spec xs (x :: rp)
    rcases removeOrphanedFrom_cons rp x xs with ⟨rfl, e⟩ | ⟨rfl, e⟩ | ⟨hx, e⟩
    · rw [e]; exact ⟨hsub.cons _, by simp [hf, keepRO], by simp [hs]⟩
    · rw [e]; exact ⟨hsub.cons _, by simpa [keepRO, S] using hf, by simp [hs]⟩
    · rw [e]
      refine ⟨hsub.cons_cons _, ?_, ?_⟩
      · cases hx' : x != S .statement <;> simp [hx', hf, keepRO, hx]
      · cases x with
        | str s => simp [hs, List.filter_cons]; intro h; exact absurd (by rw [h]) hx
        | sep s => simp [hs]

/-- `__remove_orphaned_tokens` deletes exactly the empty string pieces and some Statement separators -/
theorem removeOrphaned_keeps (ts : Pieces) :
    strs (removeOrphaned ts) = (strs ts).filter (· ≠ []) ∧
    (removeOrphaned ts).Sublist ts ∧
    (removeOrphaned ts).filter (· != S .statement) = ts.filter (fun p => p != S .statement && p != .str []) := by
  obtain ⟨h1, h2, h3⟩ := removeOrphanedFrom_spec ts []
  exact ⟨h3, h1, h2⟩

/-! ## 4. `resolveTokens`, `indentLoop`, `joinTokens` -/

/-- the characters a resolved separator may consist of -/
def resolveChars (sty : Style) : List Char :=
  sty.statementSeparator ++ sty.argumentSeparator ++ " .\n".toList

/-- what `resolve_tokens` does to one piece: strings and Indent / Deindent are kept, every other
separator becomes a string of separator characters -/
def ResolveRel (sty : Style) (t t' : Piece) : Prop :=
  match t with
  | .str s => t' = .str s
  | .sep .indent => t' = .sep .indent
  | .sep .deindent => t' = .sep .deindent
  | .sep _ => ∃ s, t' = .str s ∧ ∀ c ∈ s, c ∈ resolveChars sty

theorem mem_pyRstrip {c : Char} {s : List Char} (h : c ∈ pyRstrip s) : c ∈ s := by
  have := (List.dropWhile_sublist pyIsSpace (l := s.reverse)).subset (List.mem_reverse.mp h)
  exact List.mem_reverse.mp this

theorem resolve_fin {sty : Style} {b' : Bool} {rest : Pieces} {tok t' : Piece} {ts' : Pieces}
    (hrel : ResolveRel sty tok t')
    (h : (do let r ← resolveTokensAux sty b' rest; Except.ok (t' :: r)) = .ok ts') :
    ∃ b' t' r, resolveTokensAux sty b' rest = .ok r ∧ ts' = t' :: r ∧ ResolveRel sty tok t' := by
  obtain ⟨r, hr, h⟩ := lk_bind_ok h
  cases h
  exact ⟨b', t', r, hr, rfl, hrel⟩

theorem resolveTokensAux_cons {sty : Style} {blank : Bool} {tok : Piece} {rest ts' : Pieces}
    (h : resolveTokensAux sty blank (tok :: rest) = .ok ts') :
    ∃ b' t' r, resolveTokensAux sty b' rest = .ok r ∧ ts' = t' :: r ∧ ResolveRel sty tok t' := by
  cases tok with
  | str s =>
    simp only [resolveTokensAux] at h
    split at h
    · rename_i hc; simp at hc
    · exact resolve_fin rfl h
  | sep x =>
    cases x <;> simp only [resolveTokensAux] at h <;> split at h
    case newline.isTrue => exact resolve_fin ⟨_, rfl, by simp⟩ h
    case newline.isFalse =>
      refine resolve_fin ⟨_, rfl, ?_⟩ h
      intro c hc
      split at hc
      · simp [resolveChars, hc]
      · simp at hc; simp [resolveChars, hc]
    case argument.isFalse =>
      obtain ⟨r, hr, h⟩ := lk_bind_ok h
      split at h
      · cases h
      · cases h
        refine ⟨_, _, r, hr, rfl, ?_⟩
        split
        · exact ⟨_, rfl, fun c hc => by simp [resolveChars, mem_pyRstrip hc]⟩
        · exact ⟨_, rfl, fun c hc => by simp [resolveChars, hc]⟩
    all_goals first
      | (rename_i hc; simp at hc; done)
      | exact resolve_fin rfl h
      | exact resolve_fin ⟨_, rfl, fun c hc => by simp [resolveChars] at hc ⊢; simp [hc]⟩ h

theorem resolveTokensAux_spec (sty : Style) : ∀ (ts : Pieces) (blank : Bool) (ts' : Pieces),
    resolveTokensAux sty blank ts = .ok ts' → Fa2 (ResolveRel sty) ts ts'
  | [], blank, ts', h => by
    rw [resolveTokensAux] at h; cases h; exact .nil
  | tok :: rest, blank, ts', h => by
    obtain ⟨b', t', r, hr, rfl, hrel⟩ := resolveTokensAux_cons h
    exact .cons hrel (resolveTokensAux_spec sty rest b' r hr)

/-- `resolve_tokens` works piece by piece: string pieces and Indent / Deindent are kept, every other
separator is replaced by a string of separator characters. -/
theorem resolveTokens_keeps {sty : Style} {ts ts' : Pieces} (h : resolveTokens sty ts = .ok ts') :
    Fa2 (ResolveRel sty) ts ts' := resolveTokensAux_spec sty ts false ts' h

theorem ResolveRel.strs_sublist {sty : Style} {ts ts' : Pieces} (h : Fa2 (ResolveRel sty) ts ts') :
    (strs ts).Sublist (strs ts') := by
  induction h with
  | nil => exact .slnil
  | @cons a b as bs hr _ ih =>
    cases a with
    | str s => simp only [ResolveRel] at hr; subst hr; exact ih.cons_cons s
    | sep x =>
      cases x <;> simp only [ResolveRel] at hr
      case indent => subst hr; exact ih
      case deindent => subst hr; exact ih
      all_goals (obtain ⟨s, rfl, _⟩ := hr; exact ih.cons s)

/-- corollary: the string pieces appear unchanged and in order in the result, which has the same length -/
theorem resolveTokens_strs {sty : Style} {ts ts' : Pieces} (h : resolveTokens sty ts = .ok ts') :
    ts'.length = ts.length ∧ (strs ts).Sublist (strs ts') :=
  ⟨(resolveTokens_keeps h).length_eq.symm, ResolveRel.strs_sublist (resolveTokens_keeps h)⟩

/-- what `indent` does to one piece: Indent / Deindent are kept (no other separator may be left), a
string piece gets some copies of the indentation string in front -/
def IndentRel (ind : List Char) (t t' : Piece) : Prop :=
  match t with
  | .str s => ∃ n : Nat, t' = .str ((List.replicate n ind).flatten ++ s)
  | .sep x => t' = .sep x ∧ (x = .indent ∨ x = .deindent)

theorem indentLoop_spec (ind : List Char) : ∀ (ts : Pieces) (level : Int) (dirty : Bool) (ts' : Pieces),
    indentLoop ind ts level dirty = .ok ts' → Fa2 (IndentRel ind) ts ts'
  | [], level, dirty, ts', h => by
    rw [indentLoop] at h
    split at h
    · cases h; exact .nil
    · cases h
  | .str s :: rest, level, dirty, ts', h => by
    rw [indentLoop] at h
    obtain ⟨r, hr, h⟩ := lk_bind_ok h
    cases h
    refine .cons ?_ (indentLoop_spec ind rest _ _ r hr)
    cases dirty
    · exact ⟨0, by simp⟩
    · exact ⟨level.toNat, by simp⟩
  | .sep x :: rest, level, dirty, ts', h => by
    cases x <;> simp only [indentLoop] at h
    case indent =>
      obtain ⟨r, hr, h⟩ := lk_bind_ok h
      cases h
      exact .cons ⟨rfl, .inl rfl⟩ (indentLoop_spec ind rest _ _ r hr)
    case deindent =>
      obtain ⟨r, hr, h⟩ := lk_bind_ok h
      cases h
      exact .cons ⟨rfl, .inr rfl⟩ (indentLoop_spec ind rest _ _ r hr)
    all_goals cases h

/-- `indent` keeps the length and only puts copies of the indentation string in front of string pieces -/
theorem indentLoop_keeps {ind : List Char} {ts ts' : Pieces} (h : indentLoop ind ts 0 false = .ok ts') :
    ts'.length = ts.length ∧ Fa2 (IndentRel ind) ts ts' :=
  ⟨(indentLoop_spec ind ts 0 false ts' h).length_eq.symm, indentLoop_spec ind ts 0 false ts' h⟩

/-- the same on the string pieces alone -/
theorem IndentRel.strs {ind : List Char} {ts ts' : Pieces} (h : Fa2 (IndentRel ind) ts ts') :
    Fa2 (fun s s' => ∃ n : Nat, s' = (List.replicate n ind).flatten ++ s) (strs ts) (strs ts') := by
  induction h with
  | nil => exact .nil
  | @cons a b as bs hr _ ih =>
    cases a with
    | str s => obtain ⟨n, rfl⟩ := hr; exact .cons ⟨n, rfl⟩ ih
    | sep x => obtain ⟨rfl, _⟩ := hr; exact ih

/-- `join_tokens` concatenates the string pieces -/
theorem joinTokens_eq (ts : Pieces) : joinTokens ts = (strs ts).flatten := by
  induction ts with
  | nil => rfl
  | cons t ts ih =>
    cases t with
    | str s => simpa [joinTokens] using ih
    | sep x => simpa [joinTokens] using ih

/-! ## 5. `indentBrackets`

The main theorem is `indentBrackets_keeps` (in `LayoutKeepsBrackets`): `Rw sty (core ts) (core ts')`.
Here are its consequences on the string pieces.  Note that `nq ts' = nq ts` is *false* in general
(`indentBrackets_nq_counterexample`): when a quoted string is wrapped, the continuation parts do not
start with a quote any more. -/

/-- the non-quoted string pieces -/
def nq (ps : Pieces) : List (List Char) := (strs ps).filter (fun s => !isQuoted s)

theorem strs_core (ps : Pieces) : strs (core ps) = strs ps :=
  strs_filter _ (fun _ => rfl) ps

theorem nq_core (ps : Pieces) : nq (core ps) = nq ps := by simp [nq, strs_core]

theorem nq_append (a b : Pieces) : nq (a ++ b) = nq a ++ nq b := by simp [nq]

/-- how one string piece `s` of the input shows up in the output, as the group `g` of string pieces:
unchanged if it is not quoted, and as the string pieces of some `stringIdent s ind sty` otherwise -
which give `s` back when the `\z` continuation marks are removed and the parts are concatenated -/
def GroupRel (sty : Style) (s : List Char) (g : List (List Char)) : Prop :=
  (isQuoted s = false → g = [s]) ∧
  (isQuoted s = true → (dez g).flatten = s ∧ ∃ ind ps, stringIdent s ind sty = .ok ps ∧ g = strs ps)

theorem Rw.groups {sty : Style} {a b : Pieces} (h : Rw sty a b) :
    ∃ groups : List (List (List Char)), strs b = groups.flatten ∧ Fa2 (GroupRel sty) (strs a) groups := by
  induction h with
  | nil => exact ⟨[], rfl, .nil⟩
  | @keep a b p hp _ ih =>
    obtain ⟨G, hG, hF⟩ := ih
    cases p with
    | sep x => exact ⟨G, by simpa using hG, by simpa using hF⟩
    | str s =>
      have hs : isQuoted s = false := hp s rfl
      refine ⟨[s] :: G, by simp [hG], .cons ⟨fun _ => rfl, fun h => ?_⟩ hF⟩
      rw [hs] at h; cases h
  | @wrap a b q ind ps hps _ ih =>
    obtain ⟨G, hG, hF⟩ := ih
    have hq := stringIdent_isQuoted hps
    refine ⟨strs ps :: G, by simp [hG, strs_core], .cons ⟨fun h => ?_, fun _ => ?_⟩ hF⟩
    · rw [hq] at h; cases h
    · exact ⟨stringIdent_flatten hps, ind, ps, hps, rfl⟩

theorem Rw.nq_sublist {sty : Style} {a b : Pieces} (h : Rw sty a b) : (nq a).Sublist (nq b) := by
  induction h with
  | nil => exact .slnil
  | @keep a b p hp _ ih =>
    cases p with
    | sep x => simpa [nq] using ih
    | str s =>
      have hs : isQuoted s = false := hp s rfl
      simpa [nq, hs] using ih
  | @wrap a b q ind ps hps _ ih =>
    have hq := stringIdent_isQuoted hps
    have e : nq (.str q :: a) = nq a := by simp [nq, hq]
    rw [e, nq_append]
    exact List.sublist_append_of_sublist_right ih

theorem Rw.seps {sty : Style} {a b : Pieces} (h : Rw sty a b) : b.filter isSep = a.filter isSep := by
  induction h with
  | nil => rfl
  | @keep a b p hp _ ih => cases h : isSep p <;> simp [h, ih]
  | @wrap a b q ind ps hps _ ih =>
    obtain ⟨parts, _, _, _, hsep⟩ := stringIdent_shape hps
    have e : (core ps).filter isSep = [] := by
      rw [List.filter_eq_nil_iff]
      intro p hp
      have hmem : p ∈ ps := (List.mem_filter.mp hp).1
      have hl : isLayoutSep p = false := by simpa using (List.mem_filter.mp hp).2
      rcases hsep p hmem with rfl | ⟨s, rfl⟩
      · cases hl
      · simp [isSep]
    simp [e, ih, isSep]

theorem Rw.eq_of_trivial {sty : Style} {a b : Pieces} (h : Rw sty a b)
    (htriv : ∀ q ∈ strs a, ∀ ind ps, stringIdent q ind sty = .ok ps → ps = [.str q]) : b = a := by
  induction h with
  | nil => rfl
  | @keep a b p hp _ ih =>
    rw [ih (fun q hq => htriv q (by cases p <;> simp [hq]))]
  | @wrap a b q ind ps hps _ ih =>
    have := htriv q (by simp) ind ps hps
    subst this
    rw [ih (fun q' hq' => htriv q' (by simp [hq']))]
    simp

/-- `indent_brackets`, on the string pieces: the string pieces of the result are the concatenation of
one group per string piece of the input (in order); the group of a non-quoted piece is the piece
itself, the group of a quoted piece `q` are the string pieces of `stringIdent q ind sty` for some
`ind`, which concatenate to `q` after removing the `\z` marks. -/
theorem indentBrackets_strs {ts ts' : Pieces} {sty : Style} (h : indentBrackets ts sty = .ok ts') :
    ∃ groups : List (List (List Char)), strs ts' = groups.flatten ∧ Fa2 (GroupRel sty) (strs ts) groups := by
  simpa [strs_core] using (indentBrackets_keeps h).groups

/-- the non-quoted string pieces survive in order (the result may have more non-quoted pieces: the
continuation parts of wrapped strings) -/
theorem indentBrackets_nq {ts ts' : Pieces} {sty : Style} (h : indentBrackets ts sty = .ok ts') :
    (nq ts).Sublist (nq ts') := by
  simpa [nq_core] using (indentBrackets_keeps h).nq_sublist

/-- Statement / Space / Dot / Block separators are neither inserted nor removed -/
theorem indentBrackets_seps {ts ts' : Pieces} {sty : Style} (h : indentBrackets ts sty = .ok ts') :
    (core ts').filter isSep = (core ts).filter isSep := (indentBrackets_keeps h).seps

/-- if no quoted string piece is actually wrapped, all string pieces survive unchanged, in particular
`nq ts' = nq ts` -/
theorem indentBrackets_strs_of_no_wrap {ts ts' : Pieces} {sty : Style} (h : indentBrackets ts sty = .ok ts')
    (htriv : ∀ q ∈ strs ts, ∀ ind ps, stringIdent q ind sty = .ok ps → ps = [.str q]) :
    core ts' = core ts ∧ strs ts' = strs ts ∧ nq ts' = nq ts := by
  have e : core ts' = core ts := (indentBrackets_keeps h).eq_of_trivial (by simpa [strs_core] using htriv)
  have e2 : strs ts' = strs ts := by rw [← strs_core ts', e, strs_core]
  exact ⟨e, e2, by simp [nq, e2]⟩

/-- `nq ts' = nq ts` fails when a string is wrapped: line width 12, one long quoted piece -/
def cexStyle : Style :=
  ⟨"\n".toList, "\t".toList, ", ".toList, true, " ".toList, false, false, false, false, true, true, 4, 12, 5, false⟩

theorem indentBrackets_nq_counterexample :
    (indentBrackets [P "'aaaa bbbb cccc dddd'"] cexStyle).toOption =
      some [P "'aaaa \\z", S .newline, P "bbbb cccc \\z", S .newline, P "dddd'"] ∧
    nq [P "'aaaa bbbb cccc dddd'"] = [] ∧
    nq [P "'aaaa \\z", S .newline, P "bbbb cccc \\z", S .newline, P "dddd'"] =
      ["bbbb cccc \\z".toList, "dddd'".toList] := by
  refine ⟨by decide +kernel, by decide +kernel, by decide +kernel⟩

/-! ## 6. the stages of `format`, for chaining the theorems above -/

theorem format_stages {sty : Style} {ast : Block} {out : List Char} (h : format sty ast = .ok out) :
    ∃ ts1 ts2 ts3 ts6 ts7 : Pieces,
      (if sty.removeUnnecessaryChars then removeSeparators (emit sty ast) else .ok (emit sty ast)) = .ok ts1 ∧
      (if sty.lineWidth > 0 then indentBrackets ts1 sty else .ok ts1) = .ok ts2 ∧
      (if sty.blockSpacer > 0 then addSpacing ts2 sty else .ok ts2) = .ok ts3 ∧
      resolveTokens sty (removeOrphaned
        (.str ("--".toList ++ sty.commentSep ++ "tumfl".toList) :: S .newline :: ts3)) = .ok ts6 ∧
      indentLoop sty.indentation ts6 0 false = .ok ts7 ∧
      out = pyStripAll (((splitOnNewline (joinTokens ts7)).map pyRstrip).intersperse ['\n']).flatten ++
        (if sty.removeUnnecessaryChars then [] else sty.statementSeparator) := by
  unfold format at h
  obtain ⟨ts1, h1, h⟩ := lk_bind_ok h
  obtain ⟨ts2, h2, h⟩ := lk_bind_ok h
  obtain ⟨ts3, h3, h⟩ := lk_bind_ok h
  obtain ⟨ts6, h6, h⟩ := lk_bind_ok h
  obtain ⟨ts7, h7, h⟩ := lk_bind_ok h
  simp only [Except.ok.injEq] at h
  exact ⟨ts1, ts2, ts3, ts6, ts7, h1, h2, h3, h6, h7, h.symm⟩

end Tumfl.Theory
