import Tumfl.Theory.IdemTree
import Tumfl.Theory.IdemScan
import Tumfl.Theory.FormatTextRS
import Tumfl.Theory.FormatTextGlue
/-!
# C15: the `;` that the minifier keeps never stands in front of a `(`

* `InsSemi a b`: the token list `b` is `a` with `;` tokens inserted, none of them directly in front of a `(`;
* `scan_ins`: then the block-start scanner sees the same kinds on both lists, except that "something else" may become `;`;
* `rs_kept`: in the output of `removeSepsFrom` every Statement / Block separator is followed (Indent / DeIndent aside) by a
  text piece other than `(`;
* `read_ins`: hence every reading of that output is an `InsSemi` extension of the reading that spells no separator `;`.
-/
namespace Tumfl.Theory
open Tumfl Tumfl.Model

/-! ## inserted `;` tokens and the scanner -/

inductive InsSemi : List Spec.Tk → List Spec.Tk → Prop
  | nil : InsSemi [] []
  | keep (t : Spec.Tk) {a b : List Spec.Tk} : InsSemi a b → InsSemi (t :: a) (t :: b)
  | ins {a b : List Spec.Tk} : InsSemi a b → b.head? ≠ some (.sym "(") → InsSemi a (.sym ";" :: b)

theorem InsSemi.refl : ∀ a : List Spec.Tk, InsSemi a a
  | [] => .nil
  | t :: a => .keep t (InsSemi.refl a)

theorem InsSemi.prepend (p : List Spec.Tk) {a b : List Spec.Tk} (h : InsSemi a b) : InsSemi (p ++ a) (p ++ b) := by
  induction p with
  | nil => exact h
  | cons t p ih => exact .keep t ih

/-- the first token of the longer list is the first token of the shorter one, or an inserted `;` -/
theorem InsSemi.head {a b : List Spec.Tk} (h : InsSemi a b) : b.head? = a.head? ∨ b.head? = some (.sym ";") := by
  cases h with
  | nil => exact .inl rfl
  | keep t _ => exact .inl rfl
  | ins _ _ => exact .inr rfl

theorem InsSemi.head_ne {a b : List Spec.Tk} (h : InsSemi a b) (ha : a.head? ≠ some (.sym "(")) :
    b.head? ≠ some (.sym "(") := by
  rcases h.head with e | e
  · rw [e]; exact ha
  · rw [e]; simp

theorem InsSemi.head_ne' {a b : List Spec.Tk} (h : InsSemi a b) (hb : b.head? ≠ some (.sym "(")) :
    a.head? ≠ some (.sym "(") := by
  induction h with
  | nil => exact hb
  | keep t _ _ => exact hb
  | ins _ h1 ih => exact ih h1

def isSk (k : Kd) : Bool := decide (k = .S)

theorem scan_Pd_cons (k : Spec.Tk) (r : List Spec.Tk) : scan .Pd (k :: r) = kindOf k :: scan .N (k :: r) := by
  simp [scan, scStep]

theorem scan_Pd_eq (a : List Spec.Tk) : scan .Pd a = kindOf (a.head?.getD .eof) :: scan .N a := by
  cases a with
  | nil => simp [scan, kindOf]
  | cons k r => rw [scan_Pd_cons]; rfl

theorem KLrel_self (k : Kd) : KLrel k (isSk k) := by
  cases k <;> simp [KLrel, isSk]

/-- the scanner on a list with inserted `;` tokens -/
theorem scan_ins {a b : List Spec.Tk} (h : InsSemi a b) : ∀ st, KL (scan st a) ((scan st b).map isSk) := by
  induction h with
  | nil => intro st; cases st <;> simp [scan, KL, KLrel]
  | @keep t a b _ ih =>
    intro st
    by_cases hst : st = .Pd
    · subst hst
      rw [scan_Pd_cons, scan_Pd_cons]
      simp only [scan, List.map_cons, KL]
      exact ⟨KLrel_self _, by simpa using ih (scStep .N t)⟩
    · have e1 : scan st (t :: a) = scan (scStep st t) a := by simp [scan, hst]
      have e2 : scan st (t :: b) = scan (scStep st t) b := by simp [scan, hst]
      rw [e1, e2]
      exact ih _
  | @ins a b hab hb ih =>
    intro st
    cases st with
    | N =>
      have e : scan .N (.sym ";" :: b) = scan .N b := by
        simp [scan, scStep, nxtN]
      rw [e]; exact ih _
    | Fn =>
      have e : scan .Fn (.sym ";" :: b) = scan .Fn b := by
        simp [scan, scStep]
      rw [e]; exact ih _
    | Pa =>
      have e : scan .Pa (.sym ";" :: b) = scan .Pa b := by
        simp [scan, scStep]
      rw [e]; exact ih _
    | Pd =>
      have e : scan .Pd (.sym ";" :: b) = .S :: scan .N b := by
        rw [scan_Pd_cons]
        simp [scan, scStep, nxtN, kindOf]
      rw [e, scan_Pd_eq a]
      simp only [List.map_cons, KL]
      refine ⟨⟨fun _ => by simp [isSk], fun hp => ?_⟩, ih _⟩
      exfalso
      have ha := hab.head_ne' hb
      cases a with
      | nil => simp [kindOf] at hp
      | cons k r =>
        simp only [List.head?_cons, Option.getD_some] at hp
        simp only [List.head?_cons, ne_eq, Option.some.injEq] at ha
        unfold kindOf at hp
        rw [if_neg ha] at hp
        split at hp <;> cases hp

/-! ## what `removeSepsFrom` keeps -/

def AllInd (ps : Pieces) : Prop := ∀ q ∈ ps, isIndentTok q = true

/-- the first piece that is not Indent / DeIndent, if any, is a text piece other than `(` -/
def NextOK (post : Pieces) : Prop := AllInd post ∨ ∃ b, searchFwd post = .ok (.str b) ∧ b ≠ ['(']

def Kept1 : Pieces → Prop
  | [] => True
  | x :: post => ((x = .sep .statement ∨ x = .sep .block) → NextOK post) ∧ Kept1 post

theorem searchFwd_snoc_cases : ∀ (body : Pieces) (q : Piece), searchFwd (body ++ [P "/"]) = .ok q →
    (AllInd body ∧ q = P "/") ∨ searchFwd body = .ok q
  | [], q, h => by
    simp only [List.nil_append, searchFwd, P, isIndentTok, Bool.false_eq_true, if_false, Except.ok.injEq] at h
    exact .inl ⟨fun _ hq => (by cases hq), h.symm⟩
  | p :: r, q, h => by
    simp only [List.cons_append, searchFwd] at h ⊢
    split at h
    · rename_i hi
      rcases searchFwd_snoc_cases r q h with ⟨ha, hq⟩ | h'
      · refine .inl ⟨fun x hx => ?_, hq⟩
        rcases List.mem_cons.mp hx with rfl | hx
        · exact hi
        · exact ha x hx
      · exact .inr (by rw [if_pos hi]; exact h')
    · rename_i hi
      exact .inr (by rw [if_neg hi]; exact h)

theorem sepRequired_true_not_lpar {a b : List Char} (h : sepRequired a b = .ok true) : b ≠ ['('] := by
  rintro rfl
  have hne : a ≠ [] := by
    rintro rfl
    simp [sepRequired] at h
  rw [sepRequired_inert a hne '(' [] (by unfold Inert; decide)] at h
  cases h

theorem rs_kept : ∀ (xs rp out : Pieces), removeSepsFrom rp xs = .ok out →
    ∃ body, out = body ++ [P "/"] ∧ Kept1 body
  | [], rp, out, h => by
    rw [removeSepsFrom] at h
    exact ⟨[], by simpa using h.symm, trivial⟩
  | x :: xs, rp, out, h => by
    rw [removeSepsFrom] at h
    obtain ⟨suf, hs, h⟩ := lk_bind_ok h
    obtain ⟨body, rfl, ih⟩ := rs_kept xs (x :: rp) suf hs
    have soft :
        (do let next ← searchFwd (body ++ [P "/"])
            match searchBwd rp, next with
            | .str a, .str b => do
              let req ← sepRequired a b
              if req then .ok (x :: (body ++ [P "/"])) else .ok (body ++ [P "/"])
            | _, _ => .ok (body ++ [P "/"]) : R Pieces) = .ok out →
        ∃ body', out = body' ++ [P "/"] ∧ Kept1 body' := by
      intro hdo
      rcases soft_decision hdo with ⟨ho, a, b, _, hf, hr⟩ | ⟨ho, _⟩
      · refine ⟨x :: body, by rw [ho]; rfl, fun _ => ?_, ih⟩
        rcases searchFwd_snoc_cases body _ hf with ⟨ha, _⟩ | hf'
        · exact .inl ha
        · exact .inr ⟨b, hf', sepRequired_true_not_lpar hr⟩
      · exact ⟨body, ho, ih⟩
    split at h
    · exact soft h
    · exact soft h
    · exact soft h
    · rename_i h1 h2 h3
      simp only [Except.ok.injEq] at h
      refine ⟨x :: body, by rw [← h]; rfl, fun hx => ?_, ih⟩
      rcases hx with rfl | rfl
      · exact absurd rfl (h2 )
      · exact absurd rfl (h3 )

/-! ## readings of such a list -/

theorem read_allInd {ps : Pieces} {ks : List Spec.Tk} (h : ReadTks ps ks) (ha : AllInd ps) : ks = [] := by
  induction h with
  | nil => rfl
  | @semi p ps ks hp _ _ =>
    have := ha p List.mem_cons_self
    rcases hp with rfl | rfl <;> simp [isIndentTok] at this
  | @skip p ps ks hp _ _ =>
    have := ha p List.mem_cons_self
    rcases hp with rfl | rfl <;> simp [isIndentTok] at this
  | @other p ps ks _ _ _ ih =>
    have hi := ha p List.mem_cons_self
    have : pieceTks false p = [] := by
      cases p with
      | str s => simp [isIndentTok] at hi
      | sep k => cases k <;> first | rfl | simp [isIndentTok] at hi
    rw [this, ih (fun q hq => ha q (List.mem_cons_of_mem _ hq))]
    rfl

theorem searchFwd_mem : ∀ (ps : Pieces) (q : Piece), searchFwd ps = .ok q → q ∈ ps
  | [], q, h => by simp [searchFwd] at h
  | p :: r, q, h => by
    simp only [searchFwd] at h
    split at h
    · exact List.mem_cons_of_mem _ (searchFwd_mem r q h)
    · simp only [Except.ok.injEq] at h; subst h; exact List.mem_cons_self

theorem read_first {ps : Pieces} {ks : List Spec.Tk} (h : ReadTks ps ks) {b : List Char} {tk : Spec.Tk}
    (hs : searchFwd ps = .ok (.str b)) (ht : strTk b = [tk]) : ∃ r, ks = tk :: r := by
  induction h with
  | nil => simp [searchFwd] at hs
  | @semi p ps ks hp _ _ =>
    exfalso
    rcases hp with rfl | rfl <;> simp [searchFwd, isIndentTok] at hs
  | @skip p ps ks hp _ _ =>
    exfalso
    rcases hp with rfl | rfl <;> simp [searchFwd, isIndentTok] at hs
  | @other p ps ks _ _ _ ih =>
    simp only [searchFwd] at hs
    split at hs
    · rename_i hi
      have : pieceTks false p = [] := by
        cases p with
        | str s => simp [isIndentTok] at hi
        | sep k => cases k <;> first | rfl | simp [isIndentTok] at hi
      rw [this]
      exact ih hs
    · simp only [Except.ok.injEq] at hs
      subst hs
      exact ⟨_, by simp only [pieceTks, ht]; rfl⟩

theorem piecesTks_cons (semi : Bool) (p : Piece) (ps : Pieces) :
    piecesTks semi (p :: ps) = pieceTks semi p ++ piecesTks semi ps := by
  simp [piecesTks]

/-- every reading of a list in which the kept separators are not in front of a `(` extends the reading without `;` -/
theorem read_ins {ps : Pieces} {ks : List Spec.Tk} (h : ReadTks ps ks) :
    Kept1 ps → (∀ s, .str s ∈ ps → ∃ tk, strTk s = [tk] ∧ (tk = .sym "(" → s = ['('])) →
    InsSemi (piecesTks false ps ++ [.eof]) (ks ++ [.eof]) := by
  induction h with
  | nil => intro _ _; exact InsSemi.refl _
  | @semi p ps ks hp hr ih =>
    intro hk hg
    have e : piecesTks false (p :: ps) = piecesTks false ps := by
      rw [piecesTks_cons]; rcases hp with rfl | rfl <;> rfl
    rw [e, List.cons_append]
    refine .ins (ih hk.2 (fun s hs => hg s (List.mem_cons_of_mem _ hs))) ?_
    rcases hk.1 hp with ha | ⟨b, hb, hne⟩
    · rw [read_allInd hr ha]; simp
    · obtain ⟨tk, ht, hpar⟩ := hg b (List.mem_cons_of_mem _ (searchFwd_mem _ _ hb))
      obtain ⟨r, rfl⟩ := read_first hr hb ht
      simp only [List.cons_append, List.head?_cons, ne_eq, Option.some.injEq]
      exact fun e => hne (hpar e)
  | @skip p ps ks hp _ ih =>
    intro hk hg
    have e : piecesTks false (p :: ps) = piecesTks false ps := by
      rw [piecesTks_cons]; rcases hp with rfl | rfl <;> rfl
    rw [e]
    exact ih hk.2 (fun s hs => hg s (List.mem_cons_of_mem _ hs))
  | @other p ps ks _ _ _ ih =>
    intro hk hg
    rw [piecesTks_cons, List.append_assoc, List.append_assoc]
    exact InsSemi.prepend _ (ih hk.2 (fun s hs => hg s (List.mem_cons_of_mem _ hs)))

/-- only the piece `(` reads as the token `(` -/
theorem strTk_lpar {s : List Char} (h : strTk s = [.sym "("]) : s = ['('] := by
  unfold strTk at h
  repeat' split at h
  all_goals first
    | (simp only [List.cons.injEq, and_true, Spec.Tk.sym.injEq] at h
       have := congrArg String.toList h
       simpa [String.toList_ofList] using this)
    | simp at h

end Tumfl.Theory
