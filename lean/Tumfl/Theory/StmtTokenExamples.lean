import Tumfl.Theory.StmtToken
/-!
# Kernel-checked instances for `Theory/StmtToken.lean`

* two statements, comments in front of each: each node gets exactly the comments written between the previous statement and
  itself (a trailing comment on the previous statement's last line included);
* assignments to an indexed variable, calls of a bracketed expression, method calls: the node's token is the first token;
* `local function`: the node carries the `function` token, whose comment list is the comments in front of `function`
  FOLLOWED BY the comments in front of `local` - source order is reversed;
* `local x`: a comment between `local` and the name is on the name token, not on the statement.
-/
namespace Tumfl.Theory
open Tumfl.Model

/-- the `stmtComments` of the top-level statements of a text (`none` if it does not parse) -/
def topComments (text : List Char) : Option (List (List (List Char))) :=
  match parseText text with
  | .ok (b, _) => some (b.stmts.map stmtComments)
  | .error _ => none

theorem topComments_two : topComments "-- a\nx = 1 -- b\n-- c\nf(x)".toList =
    some [[" a".toList], [" b".toList, " c".toList]] := by decide +kernel

theorem topComments_var_forms : topComments "-- a\na.b[c] = 1 -- b\n(f)(x) -- c\na:m()".toList =
    some [[" a".toList], [" b".toList], [" c".toList]] := by decide +kernel

/-- the exceptional form: the comments come out in the order `function`-comments, `local`-comments -/
theorem topComments_local_function : topComments "-- a\nlocal -- b\nfunction f() end".toList =
    some [[" b".toList, " a".toList]] := by decide +kernel

theorem topComments_local_assign : topComments "-- a\nlocal -- b\nx = 1".toList =
    some [[" a".toList]] := by decide +kernel

end Tumfl.Theory
