import Tumfl.Theory.FormatTextDefs
/-!
# The per-line right-strip of `format` as a character-level function
-/
namespace Tumfl.Theory
open Tumfl Tumfl.Model

/-- one character in front of an already stripped text: a white-space character (other than the line break) in front of
a line break or of the end of the text goes away -/
def stepR (c : Char) (acc : List Char) : List Char :=
  if spaceNN c && (acc.isEmpty || acc.head? == some '\n') then acc else c :: acc

/-- the text `x` in front of the already stripped text `r` -/
def Rst (x r : List Char) : List Char := x.foldr stepR r

/-- the per-line right-strip -/
def rsl (t : List Char) : List Char := Rst t []

@[simp] theorem Rst_nil (r : List Char) : Rst [] r = r := rfl
theorem Rst_cons (c : Char) (x r : List Char) : Rst (c :: x) r = stepR c (Rst x r) := rfl
theorem Rst_append (x y r : List Char) : Rst (x ++ y) r = Rst x (Rst y r) := by simp [Rst, List.foldr_append]
theorem rsl_append (x y : List Char) : rsl (x ++ y) = Rst x (rsl y) := Rst_append x y []

theorem stepR_keep {c : Char} (h : spaceNN c = false) (acc : List Char) : stepR c acc = c :: acc := by
  simp [stepR, h]

theorem stepR_nl (acc : List Char) : stepR '\n' acc = '\n' :: acc := stepR_keep (by decide) acc

/-! ## `rsl` is what `format` does line by line -/

theorem splitOnNewline_ne_nil : ∀ t : List Char, splitOnNewline t ≠ []
  | [] => by simp [splitOnNewline]
  | c :: cs => by
    rw [splitOnNewline]
    split
    · simp
    · split <;> simp

theorem splitOnNewline_no_nl : ∀ (t : List Char), ∀ l ∈ splitOnNewline t, '\n' ∉ l
  | [], l, h => by simp [splitOnNewline] at h; subst h; simp
  | c :: cs, l, h => by
    rw [splitOnNewline] at h
    split at h
    · rename_i he; exact absurd he (splitOnNewline_ne_nil cs)
    · rename_i l0 ls he
      have ih := splitOnNewline_no_nl cs
      rw [he] at ih
      split at h
      · rcases List.mem_cons.mp h with rfl | h
        · simp
        · exact ih l h
      · rename_i hc
        rcases List.mem_cons.mp h with rfl | h
        · intro hm
          rcases List.mem_cons.mp hm with e | hm
          · exact hc (by rw [← e]; rfl)
          · exact ih l0 (by simp) hm
        · exact ih l (by simp [h])

theorem pyRstrip_cons (c : Char) (l : List Char) :
    pyRstrip (c :: l) = if pyRstrip l = [] ∧ pyIsSpace c = true then [] else c :: pyRstrip l := by
  unfold pyRstrip
  rw [List.reverse_cons]
  rw [List.dropWhile_append]
  cases hd : l.reverse.dropWhile pyIsSpace with
  | nil =>
    simp only [List.isEmpty_nil, if_true, List.reverse_nil, true_and]
    cases hc : pyIsSpace c <;> simp [List.dropWhile, hc]
  | cons a b =>
    simp only [List.isEmpty_cons, Bool.false_eq_true, if_false, List.reverse_append, List.reverse_cons, List.reverse_nil,
      List.nil_append, List.cons_append]
    simp

theorem pyRstrip_head {l : List Char} (h : '\n' ∉ l) : (pyRstrip l).head? ≠ some '\n' := by
  intro hh
  have : '\n' ∈ pyRstrip l := by
    cases hp : pyRstrip l with
    | nil => rw [hp] at hh; cases hh
    | cons a b => rw [hp] at hh; simp at hh; subst hh; simp
  exact h (mem_pyRstrip this)

/-- the joined right-stripped lines -/
def joinLines (ls : List (List Char)) : List Char := ((ls.map pyRstrip).intersperse ['\n']).flatten

theorem joinLines_cons2 (l m : List Char) (ls : List (List Char)) :
    joinLines (l :: m :: ls) = pyRstrip l ++ '\n' :: joinLines (m :: ls) := by
  simp [joinLines, List.intersperse]

theorem joinLines_one (l : List Char) : joinLines [l] = pyRstrip l := by simp [joinLines]

theorem joinLines_shape (l : List Char) (ls : List (List Char)) :
    ∃ T, joinLines (l :: ls) = pyRstrip l ++ T ∧ (T = [] ∨ ∃ t, T = '\n' :: t) ∧
      ∀ c l', joinLines ((c :: l') :: ls) = pyRstrip (c :: l') ++ T := by
  cases ls with
  | nil => exact ⟨[], by simp [joinLines_one], .inl rfl, fun c l' => by simp [joinLines_one]⟩
  | cons m ls => exact ⟨'\n' :: joinLines (m :: ls), joinLines_cons2 l m ls, .inr ⟨_, rfl⟩, fun c l' => joinLines_cons2 _ m ls⟩

theorem rsl_eq_lines : ∀ t : List Char, joinLines (splitOnNewline t) = rsl t
  | [] => by simp [splitOnNewline, joinLines, rsl, pyRstrip]
  | c :: cs => by
    have ih := rsl_eq_lines cs
    have hno := splitOnNewline_no_nl cs
    rw [splitOnNewline]
    split
    · rename_i he; exact absurd he (splitOnNewline_ne_nil cs)
    · rename_i l ls he
      rw [he] at ih hno
      show _ = stepR c (rsl cs)
      rw [← ih]
      split
      · rename_i hc
        have : c = '\n' := by simpa using hc
        subst this
        rw [stepR_nl, joinLines_cons2]
        simp [pyRstrip]
      · rename_i hc
        have hcn : c ≠ '\n' := by simpa using hc
        obtain ⟨T, hT, hTs, hTc⟩ := joinLines_shape l ls
        rw [hTc c l, hT, pyRstrip_cons]
        have hsn : spaceNN c = pyIsSpace c := by simp [spaceNN, hcn]
        have hl := pyRstrip_head (hno l (by simp))
        unfold stepR
        rw [hsn]
        cases hp : pyRstrip l with
        | nil =>
          cases hs : pyIsSpace c
          · simp
          · rcases hTs with rfl | ⟨t, rfl⟩ <;> simp
        | cons a b =>
          rw [hp] at hl
          have : a ≠ '\n' := by intro e; apply hl; simp [e]
          simp [this]

/-- the comment items of a layout, in order -/
def comItems (is : List LItem) : List (List Char) := is.filterMap fun | .com c => some c | _ => none

/-- the comment pieces of a piece list, in order -/
def comStrs (L : Pieces) : List (List Char) :=
  L.filterMap fun | .str s => if isCom s then some s else none | .sep _ => none

theorem comStrs_cons_str (s : List Char) (L : Pieces) :
    comStrs (.str s :: L) = (if isCom s then [s] else []) ++ comStrs L := by
  cases h : isCom s <;> simp [comStrs, h]

theorem comStrs_cons_sep (k : Sep) (L : Pieces) : comStrs (.sep k :: L) = comStrs L := by simp [comStrs]

theorem mem_comItems {is : List LItem} {c : List Char} (h : .com c ∈ is) : c ∈ comItems is :=
  List.mem_filterMap.mpr ⟨.com c, h, rfl⟩

theorem mem_comStrs {L : Pieces} {c : List Char} (h : c ∈ comStrs L) : .str c ∈ L ∧ isCom c = true := by
  obtain ⟨p, hp, e⟩ := List.mem_filterMap.mp h
  cases p with
  | sep k => cases e
  | str s =>
    simp only at e
    split at e
    · rename_i hc
      cases e
      exact ⟨hp, hc⟩
    · cases e

end Tumfl.Theory
