import Tumfl.Theory.ParserSimSound5
/-!
# Soundness, step lemmas: `if`, assignments and calls
-/
namespace Tumfl.Theory
open Tumfl.Model Tumfl.Spec

variable {B : Bridge}

theorem IfFalseRel_foldr (c : List (List Char)) {tail : IfFalse} {els : Option Spec.Block}
    (ht : IfFalseRel tail [] els) {elifs : List (Token × Expr × Model.Block)} {elifs' : List ElseIf}
    (h : Forall₂ ElifRel elifs elifs') :
    IfFalseRel (elifs.foldr (fun x acc => .elif x.1 x.2.1 (x.2.2.extendComment c) acc) tail) elifs' els := by
  induction h with
  | nil => exact ht
  | @cons x y l l' hxy _ ih =>
    cases y with
    | mk c' b' => exact .elif _ hxy.1 (hxy.2.extendComment _) ih

theorem parseElseIfs_sound_step {f : Nat} (ih : AllSound B f) (ts : List Tok) :
    SPF B (Model.parseElseIfs (f + 1)) ts (fun r ts' =>
    pk ts' ≠ .kw "return" → pk ts ≠ .kw "return" ∧ ∃ elifs, Forall₂ ElifRel r elifs ∧
      ∀ els tsE, Ev (ifrest · ts') ([], els, tsE) → Ev (ifrest · ts) (elifs, els, tsE)) := by
  rw [Model.parseElseIfs]
  sp ih
  · rename_i hbp _ _ hrest
    intro hnr
    obtain ⟨hnr1, elifs, hel, hcont⟩ := hrest hnr
    obtain ⟨c, hb, hbr⟩ := BlockPost.false hbp hnr1
    exact ⟨by simp [*], .mk _ c :: elifs, .cons ⟨asm, hbr⟩ hel,
      fun els tsE h => ev_ifrest_elseif asm asm asm hb (hcont _ _ h)⟩
  · intro h; exact ⟨h, [], .nil, fun _ _ h => h⟩

theorem parseIf_sound_step {f : Nat} (ih : AllSound B f) (ts : List Tok) :
    SPF B (Model.parseIf (f + 1)) ts (fun r ts' => ∃ s', Ev (statement · ts) (s', ts') ∧ StmtRel r s') := by
  rw [Model.parseIf]
  sp ih
  · rename_i hbp _ _ hrest helse _ _ _ _ hbp2 hend
    obtain ⟨hnr1, elifs, hel, hcont⟩ := hrest (by simp [helse])
    obtain ⟨c, hb, hbr⟩ := BlockPost.false hbp hnr1
    obtain ⟨c2, hb2, hbr2⟩ := BlockPost.false hbp2 (by simp [hend])
    exact ⟨_, ev_stat_if asm asm asm hb (hcont _ _ (ev_ifrest_else helse hb2 hend)),
      .iff _ asm (hbr.extendComment _) (IfFalseRel_foldr _ (.els hbr2) hel)⟩
  · rename_i hbp _ _ hrest helse hend
    obtain ⟨hnr1, elifs, hel, hcont⟩ := hrest (by simp [hend])
    obtain ⟨c, hb, hbr⟩ := BlockPost.false hbp hnr1
    exact ⟨_, ev_stat_if asm asm asm hb (hcont _ _ (ev_ifrest_end hend)),
      .iff _ asm (hbr.extendComment _) (IfFalseRel_foldr _ .none hel)⟩

theorem VarRel.isVar {e : Expr} {e' : Exp} (h : VarRel e e') : isVarNode e = Spec.isVar e' := by
  obtain ⟨hr, hnp⟩ := h
  cases hr <;> first | rfl | exact hnp.elim

theorem VarRel.all_isVar {l : List Expr} {l' : List Exp} (h : Forall₂ VarRel l l') :
    l.all isVarNode = l'.all Spec.isVar := by
  induction h with
  | nil => rfl
  | cons h1 _ ih => simp only [List.all_cons, h1.isVar, ih]

theorem VarRel.forall₂ {l : List Expr} {l' : List Exp} (h : Forall₂ VarRel l l') : Forall₂ ExpRel l l' := by
  induction h with
  | nil => exact .nil
  | cons h1 _ ih => exact .cons h1.1 ih

theorem parseVarStmt_sound_step {f : Nat} (ih : AllSound B f) (ts : List Tok) :
    SPF B (Model.parseVarStmt (f + 1)) ts (fun r ts' => ∃ s', Ev (statement · ts) (s', ts') ∧ StmtRel r s') := by
  rw [Model.parseVarStmt]
  sp ih
  · rename_i t0 hk0 v ts1 v' hev hrel hnp hprim t1 hk1 h1 vs ts2 vs' hev2 hvs t2 hk2 hall _ es ts3 es' hev3 hes _
    have h1' := Cond.elim h1
    simp only [Bool.or_eq_true, hk1.beq_iff] at h1'
    have hvars : Forall₂ VarRel (v :: vs) (v' :: vs') := .cons ⟨hrel, hnp rfl⟩ hvs
    have hall' : (v' :: vs').all Spec.isVar = true := by
      rw [← VarRel.all_isVar hvars]; simpa [Cond] using hall
    exact ⟨_, ev_stat_assign hprim hev h1'.symm hev2 asm hev3 hall', .assign _ (VarRel.forall₂ hvars) hes⟩
  · rename_i t0 hk0 v ts1 v' hev hrel hnp hprim t1 hk1 h1
    have h1' := Cond.elim h1
    simp only [Bool.or_eq_true, hk1.beq_iff, not_or] at h1'
    have hnp' := hnp rfl
    split <;> sp ih
    · cases hrel with
      | call _ hf hargs => exact ⟨_, ev_stat_call hprim hev h1'.2 h1'.1 rfl, .call _ hf hargs⟩
      | paren _ => exact hnp'.elim
    · cases hrel with
      | mcall _ hf hm hargs => exact ⟨_, ev_stat_call hprim hev h1'.2 h1'.1 rfl, .mcall _ hf hm hargs⟩
      | paren _ => exact hnp'.elim

end Tumfl.Theory
