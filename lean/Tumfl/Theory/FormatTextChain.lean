import Tumfl.Theory.FormatTextDefs
/-!
# Well-formed layouts from a left-to-right check: `ChainOK`
-/
namespace Tumfl.Theory
open Tumfl Tumfl.Model

/-- what the text so far ends with -/
inductive PendC
  | none
  | tok (a : List Char)
  | short

/-- the character `d` may come next -/
def FollC : PendC → Char → Prop
  | .none, _ => True
  | .tok a, d => sepRequired a [d] = .ok false ∧ fuses a d = false
  | .short, d => d = '\n'

def nextC (p : PendC) (w : List Char) : PendC := if w = [] then p else .none

def ChainOK : PendC → List LItem → Prop
  | _, [] => True
  | p, .tok a tk :: r => ReadsAs a tk ∧ (∀ d t, a = d :: t → FollC p d) ∧ ChainOK (.tok a) r
  | p, .ws w :: r => (∀ c ∈ w, isLayoutSpace c = true) ∧ (∀ d t, w = d :: t → FollC p d) ∧ ChainOK (nextC p w) r
  | p, .com c :: r => isCom c = true ∧ ComOK c ∧ (∀ d t, c = d :: t → FollC p d) ∧
      ChainOK (if isLongCom c then .none else .short) r

theorem chainOK_append : ∀ (is js : List LItem) (p : PendC), ChainOK p is →
    (∀ p', ChainOK p' js) → ChainOK p (is ++ js)
  | [], js, p, _, h2 => h2 p
  | .tok a tk :: r, js, p, h1, h2 => ⟨h1.1, h1.2.1, chainOK_append r js _ h1.2.2 h2⟩
  | .ws w :: r, js, p, h1, h2 => ⟨h1.1, h1.2.1, chainOK_append r js _ h1.2.2 h2⟩
  | .com c :: r, js, p, h1, h2 => ⟨h1.1, h1.2.1, h1.2.2.1, chainOK_append r js _ h1.2.2.2 h2⟩

theorem chain_lwf : ∀ (is : List LItem) (p : PendC), ChainOK p is →
    LWF is ∧ ∀ d t, renderItems is = d :: t → FollC p d
  | [], p, _ => ⟨.nil, fun d t h => by simp [renderItems] at h⟩
  | .tok a tk :: r, p, h => by
    obtain ⟨hr, hf, hrest⟩ := h
    obtain ⟨hl, hh⟩ := chain_lwf r (.tok a) hrest
    have hne : a ≠ [] := hr.1
    refine ⟨.tok hr hl ?_ ?_, ?_⟩
    · cases hR : renderItems r with
      | nil => exact .inr rfl
      | cons d t =>
        left
        rw [sepRequired_head a d t []]
        exact (hh d t hR).1
    · intro d t hR
      exact (hh d t hR).2
    · intro d t hR
      rw [render_cons] at hR
      cases a with
      | nil => exact absurd rfl hne
      | cons d' t' =>
        simp only [LItem.text, List.cons_append, List.cons.injEq] at hR
        rw [← hR.1]
        exact hf d' t' rfl
  | .ws w :: r, p, h => by
    obtain ⟨hw, hf, hrest⟩ := h
    obtain ⟨hl, hh⟩ := chain_lwf r (nextC p w) hrest
    refine ⟨.ws hw hl, ?_⟩
    intro d t hR
    rw [render_cons] at hR
    cases w with
    | nil =>
      simp only [LItem.text, List.nil_append] at hR
      simpa [nextC] using hh d t hR
    | cons d' t' =>
      simp only [LItem.text, List.cons_append, List.cons.injEq] at hR
      rw [← hR.1]
      exact hf d' t' rfl
  | .com c :: r, p, h => by
    obtain ⟨hc, hok, hf, hrest⟩ := h
    obtain ⟨hl, hh⟩ := chain_lwf r _ hrest
    have hne : c ≠ [] := by rintro rfl; simp [isCom, startsWith, isPrefix] at hc
    refine ⟨?_, ?_⟩
    · cases hlc : isLongCom c
      · rw [hlc] at hh
        refine .short (hok.2 hlc) hl ?_
        cases hR : renderItems r with
        | nil => exact .inl rfl
        | cons d t =>
          right
          have : d = '\n' := hh d t hR
          exact ⟨t, by rw [this]⟩
      · exact .long (hok.1 hlc) hl
    · intro d t hR
      rw [render_cons] at hR
      cases c with
      | nil => exact absurd rfl hne
      | cons d' t' =>
        simp only [LItem.text, List.cons_append, List.cons.injEq] at hR
        rw [← hR.1]
        exact hf d' t' rfl

end Tumfl.Theory
