import Tumfl.Theory.IdemDefs
import Tumfl.Theory.PrintSimDefs
/-!
# C15: the block-start lists of a model tree

* `lB b` (with `lE`, `lS`, ..): for every block of the model tree `b`, in source order, whether its first statement is a
  `Semicolon` statement;
* `gB sty b` (with `gE`, `gS`, ..): for every block of `b`, in source order, the kind of the token that follows the block
  opener in the tokens of `emit sty b` when no statement / block separator is spelled `;` (for a style that prints no
  comments and no `Semicolon` statements): `;` if the `;` guard stands there (the first statement that is not a `Semicolon`
  begins with `(` and is not `statements[0]`), `(` if that statement begins with `(` and is `statements[0]`, something else
  otherwise;
* `KL ks ls`: the two lists agree where the first one says `;` or `(`.
-/
namespace Tumfl.Theory
open Tumfl.Model

/-! ## does the block begin with a `Semicolon` statement? -/

def leadSemi : List Stmt → Bool
  | s :: _ => isSemi s
  | [] => false

mutual
def lE : Expr → List Bool
  | .func _ _ body => lB body
  | .table _ fs => lFs fs
  | .binop _ _ l r => lE l ++ lE r
  | .unop _ _ e => lE e
  | .index _ l k => lE l ++ lE k
  | .namedIndex _ l _ => lE l
  | .call _ f args => lE f ++ lEs args
  | .method _ f _ args => lE f ++ lEs args
  | _ => []

def lEs : List Expr → List Bool
  | [] => []
  | e :: rest => lE e ++ lEs rest

def lFs : List Field → List Bool
  | [] => []
  | f :: rest => lF f ++ lFs rest

def lF : Field → List Bool
  | .explicit _ k v => lE k ++ lE v
  | .named _ _ v => lE v
  | .numbered _ v => lE v

def lB : Block → List Bool
  | .mk _ stmts (some es) _ => leadSemi stmts :: (lSs stmts ++ lEs es)
  | .mk _ stmts none _ => leadSemi stmts :: lSs stmts

def lSs : List Stmt → List Bool
  | [] => []
  | s :: rest => lS s ++ lSs rest

def lS : Stmt → List Bool
  | .assign _ ts es => lEs ts ++ lEs es
  | .block b => lB b
  | .call _ f args => lE f ++ lEs args
  | .funcDef _ _ _ _ body => lB body
  | .iff _ test tr fl => lE test ++ lB tr ++ lFalse fl
  | .iterFor _ _ es body => lEs es ++ lB body
  | .localAssign _ _ (some es) => lEs es
  | .localFunc _ _ _ body => lB body
  | .method _ f _ args => lE f ++ lEs args
  | .numFor _ _ a b (some s) body => lE a ++ lE b ++ lE s ++ lB body
  | .numFor _ _ a b none body => lE a ++ lE b ++ lB body
  | .repeat _ c body => lB body ++ lE c
  | .whl _ c body => lE c ++ lB body
  | _ => []

def lFalse : IfFalse → List Bool
  | .none => []
  | .block b => lB b
  | .elif _ test tr fl => lE test ++ lB tr ++ lFalse fl
end

/-! ## what follows the block opener in the printed tokens -/

/-- the statement is printed with `(` as its first piece (the situation the `;` guard of `visitStmts` looks for) -/
def guardable (sty : Style) (s : Stmt) : Bool :=
  match visitStmt sty s with
  | .str ['('] :: _ => true
  | _ => false

/-- the kind of the first token of a printed statement list; `first` as in `visitStmts` -/
def gFirst (sty : Style) : Bool → List Stmt → Kd
  | _, [] => .O
  | first, s :: rest =>
    if isSemi s then gFirst sty false rest
    else if guardable sty s then (if first then .P else .S)
    else .O

mutual
def gE (sty : Style) : Expr → List Kd
  | .func _ _ body => gB sty body
  | .table _ fs => gFs sty fs
  | .binop _ _ l r => gE sty l ++ gE sty r
  | .unop _ _ e => gE sty e
  | .index _ l k => gE sty l ++ gE sty k
  | .namedIndex _ l _ => gE sty l
  | .call _ f args => gE sty f ++ gEs sty args
  | .method _ f _ args => gE sty f ++ gEs sty args
  | _ => []

def gEs (sty : Style) : List Expr → List Kd
  | [] => []
  | e :: rest => gE sty e ++ gEs sty rest

def gFs (sty : Style) : List Field → List Kd
  | [] => []
  | f :: rest => gF sty f ++ gFs sty rest

def gF (sty : Style) : Field → List Kd
  | .explicit _ k v => gE sty k ++ gE sty v
  | .named _ _ v => gE sty v
  | .numbered _ v => gE sty v

def gB (sty : Style) : Block → List Kd
  | .mk _ stmts (some es) _ => gFirst sty true stmts :: (gSs sty stmts ++ gEs sty es)
  | .mk _ stmts none _ => gFirst sty true stmts :: gSs sty stmts

def gSs (sty : Style) : List Stmt → List Kd
  | [] => []
  | s :: rest => gS sty s ++ gSs sty rest

def gS (sty : Style) : Stmt → List Kd
  | .assign _ ts es => gEs sty ts ++ gEs sty es
  | .block b => gB sty b
  | .call _ f args => gE sty f ++ gEs sty args
  | .funcDef _ _ _ _ body => gB sty body
  | .iff _ test tr fl => gE sty test ++ gB sty tr ++ gFalse sty fl
  | .iterFor _ _ es body => gEs sty es ++ gB sty body
  | .localAssign _ _ (some es) => gEs sty es
  | .localFunc _ _ _ body => gB sty body
  | .method _ f _ args => gE sty f ++ gEs sty args
  | .numFor _ _ a b (some s) body => gE sty a ++ gE sty b ++ gE sty s ++ gB sty body
  | .numFor _ _ a b none body => gE sty a ++ gE sty b ++ gB sty body
  | .repeat _ c body => gB sty body ++ gE sty c
  | .whl _ c body => gE sty c ++ gB sty body
  | _ => []

def gFalse (sty : Style) : IfFalse → List Kd
  | .none => []
  | .block b => gB sty b
  | .elif _ test tr fl => gE sty test ++ gB sty tr ++ gFalse sty fl
end

/-! ## agreement of the lists -/

/-- where the printed tokens have `;` after the opener the block begins with a `Semicolon`, where they have `(` it does
not -/
def KLrel (k : Kd) (l : Bool) : Prop := (k = .S → l = true) ∧ (k = .P → l = false)

def KL : List Kd → List Bool → Prop
  | [], [] => True
  | k :: ks, l :: ls => KLrel k l ∧ KL ks ls
  | _, _ => False

theorem KL_append : ∀ {a : List Kd} {b : List Bool} {a' : List Kd} {b' : List Bool}, a.length = b.length →
    (KL (a ++ a') (b ++ b') ↔ KL a b ∧ KL a' b')
  | [], [], _, _, _ => by simp [KL]
  | [], _ :: _, _, _, h => by simp at h
  | _ :: _, [], _, _, h => by simp at h
  | k :: a, l :: b, a', b', h => by
    simp only [List.length_cons, Nat.add_right_cancel_iff] at h
    simp only [List.cons_append, KL, KL_append h, and_assoc]

end Tumfl.Theory
