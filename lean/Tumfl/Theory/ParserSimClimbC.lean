import Tumfl.Theory.ParserSimTPF
import Tumfl.Theory.ParserSimClimb
import Tumfl.Theory.ParserSimLadderMono
/-!
# Naturality of `climb`, completeness direction: the reference's expression layer against the model's
-/
namespace Tumfl.Theory
open Tumfl.Model Tumfl.Spec

variable {B : Bridge}

/-- what the atom parser has to satisfy (completeness direction) at reference fuel `f'` -/
def AtomComplete (B : Bridge) (f' : Nat) : Prop :=
  ∀ ts e' ts', simpleexp f' ts = .ok (e', ts') →
    ∀ n, TPF B (fun g => Model.parseAtom g) ts n n (fun e tsx => tsx = ts' ∧ ExpRel e e')

open Classical in
/-- the atom parser at fuel `G`, restricted to the states where its result no longer changes with more fuel -/
noncomputable def atomR (G : Nat) : PM Expr := fun s =>
  if ∀ g, G ≤ g → Model.parseAtom g s = Model.parseAtom G s then Model.parseAtom G s else .error .fuel

theorem atomR_le_atom {G g : Nat} (h : G ≤ g) : PLe (atomR G) (Model.parseAtom g) := by
  intro s r hr
  unfold atomR at hr
  split at hr
  · next hst => rw [hst g h]; exact hr
  · cases hr

theorem atomR_mono {G G' : Nat} (h : G ≤ G') : PLe (atomR G) (atomR G') := by
  intro s r hr
  unfold atomR at hr
  split at hr
  · next hst =>
    unfold atomR
    rw [if_pos (fun g hg => by rw [hst g (by omega), hst G' h]), hst G' h]
    exact hr
  · cases hr

theorem atomR_of_stable {G : Nat} {s : PSt} {r : Expr × PSt} (h : ∀ g, G ≤ g → Model.parseAtom g s = .ok r) :
    atomR G s = .ok r := by
  unfold atomR
  rw [if_pos (fun g hg => by rw [h g hg, h G (Nat.le_refl _)])]
  exact h G (Nat.le_refl _)

theorem modelSig_withSimple (a x : PM Expr) : (modelSig a).withSimple x = modelSig x := rfl

theorem CR_atomR_mono {G G' : Nat} (h : G ≤ G') {limit : Nat} {m : Option Expr} {s : PSt} {r : Expr × PSt}
    (hc : CR (modelSig (atomR G)) limit m s r) : CR (modelSig (atomR G')) limit m s r := by
  rw [← modelSig_withSimple (atomR G) (atomR G')]
  rw [← modelSig_withSimple (atomR G) (atomR G)] at hc
  exact hc.mono_simple (atomR_mono h)

theorem psim_modelSig_eat_ok {atom : PM Expr} {s s1 : PSt} (h : eatRaw s = .ok ((), s1)) : (modelSig atom).eat s = .ok s1 := by
  simp only [modelSig, h]

theorem climb_natural_rev (hC : B.Complete) {f' : Nat} (hatom : AtomComplete B f') {limit : Nat} {m' : Option Exp}
    {ts : List Tok} {r' : Exp × List Tok} (h : CR (specSig (simpleexp f')) limit m' ts r') :
    ∀ (m : Option Expr) (s : PSt) (n : Nat), ModeRel m m' → B.Feeds s ts → s.hints.length = n →
      ∃ G e s1, CR (modelSig (atomR G)) limit m s (e, s1) ∧ ExpRel e r'.1 ∧ B.Feeds s1 r'.2 ∧ s1.hints.length = n := by
  induction h with
  | @un limit ts u ts1 e' ts2 r' hu he _ _ ih1 ih2 =>
    intro m s n hm hf hn
    cases hm
    have hu0 : unOfTk (pk ts) = some u := hu
    have hts1 : ts1 = ts.tail := by
      have : (Except.ok ts.tail : Except PErr (List Tok)) = .ok ts1 := he
      cases this; rfl
    subst hts1
    have hne := unOfTk_ne_eof hu0
    obtain ⟨s1, hs1⟩ := hC.eat hf hne
    have hf1 := B.eat_sound hf hne hs1
    have hn1 : s1.hints.length = n := by rw [eatRaw_hints hs1, hn]
    obtain ⟨G1, e1, s2, hc1, hr1, hf2, hn2⟩ := ih1 none s1 n .none hf1 hn1
    obtain ⟨G2, e2, s3, hc2, hr2, hf3, hn3⟩ := ih2 (some (.unop s.cur u e1)) s2 n (.some (.un _ _ hr1)) hf2 hn2
    refine ⟨G1 + G2, e2, s3, ?_, hr2, hf3, hn3⟩
    have hum : (modelSig (atomR (G1 + G2))).unOf ((modelSig (atomR (G1 + G2))).peek s) = some u := by
      show unOfTok s.cur = some u
      rw [unOf_rel (B.cur hf)]; exact hu0
    exact CR.un hum (psim_modelSig_eat_ok hs1) (CR_atomR_mono (by omega) hc1) (CR_atomR_mono (by omega) hc2)
  | @simple limit ts e' ts1 r' hu hs _ ih =>
    intro m s n hm hf hn
    cases hm
    have hu0 : unOfTk (pk ts) = none := hu
    obtain ⟨G1, e1, s1, tsx, h1, hf1, hn1, rfl, hr1⟩ := hatom ts e' ts1 hs n s hf hn
    obtain ⟨G2, e2, s2, hc2, hr2, hf2, hn2⟩ := ih (some e1) s1 n (.some hr1) hf1 hn1
    refine ⟨G1 + G2, e2, s2, ?_, hr2, hf2, hn2⟩
    have hum : (modelSig (atomR (G1 + G2))).unOf ((modelSig (atomR (G1 + G2))).peek s) = none := by
      show unOfTok s.cur = none
      rw [unOf_rel (B.cur hf)]; exact hu0
    have hsm : (modelSig (atomR (G1 + G2))).simple s = .ok (e1, s1) :=
      atomR_of_stable (fun g hg => h1 g (by omega))
    exact CR.simple hum hsm (CR_atomR_mono (by omega) hc2)
  | @step limit acc' ts o ts1 e2' ts2 r' ho hlt he _ _ ih1 ih2 =>
    intro m s n hm hf hn
    cases hm with | some hacc => ?_
    rename_i acc
    have ho0 : binOfTk (pk ts) = some o := ho
    have hts1 : ts1 = ts.tail := by
      have : (Except.ok ts.tail : Except PErr (List Tok)) = .ok ts1 := he
      cases this; rfl
    subst hts1
    have hne := binOfTk_ne_eof ho0
    obtain ⟨s1, hs1⟩ := hC.eat hf hne
    have hf1 := B.eat_sound hf hne hs1
    have hn1 : s1.hints.length = n := by rw [eatRaw_hints hs1, hn]
    obtain ⟨G1, e1, s2, hc1, hr1, hf2, hn2⟩ := ih1 none s1 n .none hf1 hn1
    obtain ⟨G2, e3, s3, hc2, hr2, hf3, hn3⟩ :=
      ih2 (some (.binop s.cur o acc e1)) s2 n (.some (.bin _ _ hacc hr1)) hf2 hn2
    refine ⟨G1 + G2, e3, s3, ?_, hr2, hf3, hn3⟩
    have hom : (modelSig (atomR (G1 + G2))).binOf ((modelSig (atomR (G1 + G2))).peek s) = some o := by
      show binOfTok s.cur = some o
      rw [binOf_rel (B.cur hf)]; exact ho0
    exact CR.step hom hlt (psim_modelSig_eat_ok hs1) (CR_atomR_mono (by omega) hc1) (CR_atomR_mono (by omega) hc2)
  | @stop limit acc' ts hq =>
    intro m s n hm hf hn
    cases hm with | some hacc => ?_
    rename_i acc
    refine ⟨0, acc, s, CR.stop ?_, hacc, hf, hn⟩
    intro o ho
    have : binOfTok s.cur = some o := ho
    rw [binOf_rel (B.cur hf)] at this
    exact hq o this

/-- `expr` is simulated by `parseExp`, given that `simpleexp` at the previous fuel is simulated by the atom parser -/
theorem parseExp_complete_step (hC : B.Complete) {f' : Nat} (hatom : AtomComplete B f') (ts : List Tok) (e' : Exp)
    (ts' : List Tok) (h : expr (f' + 1) ts = .ok (e', ts')) (n : Nat) :
    TPF B (fun g => Model.parseExp g) ts n n (fun e tsx => tsx = ts' ∧ ExpRel e e') := by
  rw [expr_succ] at h
  have hcr := (climb_sound _ (f' + 1)).1 _ _ _ h
  intro s hf hn
  obtain ⟨G, e, s1, hc, hrel, hf1, hn1⟩ := climb_natural_rev hC hatom hcr none s n .none hf hn
  obtain ⟨F, hF⟩ := climbRel_complete _ hc
  simp only [runMode] at hF
  obtain ⟨f1, h1⟩ := (Inst.model_ladder_iff_climb (modelSig (atomR G)) s (e, s1)).2 ⟨F, hF⟩
  refine ⟨G + f1 + 1, e, s1, ts', fun g hg => ?_, hf1, hn1, rfl, hrel⟩
  obtain ⟨g', rfl⟩ : ∃ g', g = g' + 1 := ⟨g - 1, by omega⟩
  show Model.parseExp (g' + 1) s = _
  rw [Model.parseExp]
  rw [← modelSig_withSimple (atomR G) (Model.parseAtom g')]
  rw [← modelSig_withSimple (atomR G) (atomR G)] at h1
  exact ladderExp_mono_simple _ (atomR_le_atom (by omega)) _ _ (by omega) _ _ h1

end Tumfl.Theory
