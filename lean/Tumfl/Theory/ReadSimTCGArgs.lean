import Tumfl.Theory.ReadSimTCGExpr
/-!
# Variable-like expressions, expression lists and call arguments, for every reading
-/
namespace Tumfl.Theory.TCGSim
open Tumfl.Model Tumfl.Spec

variable {sty : Style}

/-! ## `fmtVar` -/

theorem var_stepR {l : Expr} (hx : XPropR sty l) :
    ∀ p, AllRd p (fmtVar l (visitExpr sty l)) fun kv => HeadV kv ∧ ∃ c, ExpRel (dsExpr l) (deExp c) ∧ PBody kv c := by
  intro p
  unfold fmtVar
  by_cases hv : isVarLike l = true
  · rw [if_pos hv]
    intro kv hkv
    obtain ⟨hd, c, hrel, _, _, hb⟩ := hx.P hv _ kv hkv
    exact ⟨hd, c, hrel, hb⟩
  · rw [if_neg hv, AllRd_wrapParens]
    intro kl hkl
    obtain ⟨hd, c, hrel, hb⟩ := hx.E _ kl hkl
    refine ⟨⟨_, _, rfl, .inl rfl⟩, .paren c, ?_, ?_⟩
    · simp only [deExp]; exact .paren hrel
    · intro F rest hF
      simp only [List.length_cons, List.length_append, List.length_nil] at hF ⊢
      obtain ⟨F, rfl⟩ : ∃ f, F = f + 1 := ⟨F - 1, by omega⟩
      refine ⟨F, by omega, ?_⟩
      have hin := expr_of_EBody hb F (mkTok (.sym ")") :: rest) (by omega) (by simp [sfx]) (by simp [hdLp, binOfTk])
      simp only [List.cons_append, List.append_assoc, List.nil_append]
      rw [suffixedexp]
      simp only [pk_mkTok, tail_mkTok, hin]
      simp [expectSym, isSym, bind, Except.bind]

/-! ## expression lists -/

def ArgsPropR (sty : Style) (es : List Expr) : Prop :=
  es ≠ [] → ∀ p, AllRd p (visitArgs sty es) fun ks => HeadE ks ∧ ∃ cs, Forall₂ ExpRel (dsArgs es) (deExps cs) ∧
    ∀ F rest, 4 * ks.length + 2 ≤ F → stopTk (pk rest) = true → explist F (ks ++ rest) = .ok (cs, rest)

theorem args_of_allR : (es : List Expr) → (∀ e ∈ es, XPropR sty e) → ArgsPropR sty es
  | [], _ => by intro h; exact absurd rfl h
  | [e], hall => by
    intro _ p ks hks
    simp only [visitArgs] at hks
    obtain ⟨hd, c, hrel, hb⟩ := (hall e (by simp)).E _ ks hks
    refine ⟨hd, [c], ?_, ?_⟩
    · simp only [dsArgs, deExps]; exact .cons hrel .nil
    · intro F rest hF hstop
      obtain ⟨h1, h2, h3⟩ := stopTk_facts hstop
      obtain ⟨F, rfl⟩ : ∃ f, F = f + 1 := ⟨F - 1, by omega⟩
      exact explist_one F _ rest _ (expr_of_EBody hb F rest (by omega) h1 h2) h3
  | e :: e2 :: es, hall => by
    intro _ p
    rw [visitArgs]
    simp only [AllRd_append, AllRd_argument]
    intro ke hke kr hkr
    obtain ⟨hd, c, hrel, hb⟩ := (hall e (by simp)).E _ ke hke
    obtain ⟨_, cs, hrels, hbs⟩ := args_of_allR (e2 :: es) (fun x hx => hall x (by simp [hx])) (by simp) _ kr hkr
    refine ⟨hd.append _, c :: cs, ?_, ?_⟩
    · rw [dsArgs, deExps]; exact .cons hrel hrels
    · intro F rest hF hstop
      simp only [List.length_append, List.length_cons] at hF
      obtain ⟨F, rfl⟩ : ∃ f, F = f + 1 := ⟨F - 1, by omega⟩
      rw [List.append_assoc, List.cons_append]
      exact explist_cons F _ _ rest _ _
        (expr_of_EBody hb F _ (by omega) (by simp [sfx]) (by simp [hdLp, binOfTk])) (hbs F rest (by omega) hstop)

/-! ## call arguments -/

theorem fargs_stepR (args : List Expr) (hall : ∀ e ∈ args, XPropR sty e) :
    ∀ p, AllRd p (fmtFunctionArgs sty args (visitArgs sty args)) fun ka => FArgsHead ka ∧
      ∃ cs, Forall₂ ExpRel (dsArgs args) (deExps cs) ∧ FArgsBody ka cs := by
  intro p
  rcases fmtFunctionArgs_cases sty args (visitArgs sty args) with ⟨t, v, rfl, _, h⟩ | ⟨t, fs, rfl, _, h⟩ | ⟨h, _⟩
  · rw [h]
    have := AllRd_visitString (p := p) (K := fun ka => FArgsHead ka ∧
      ∃ cs, Forall₂ ExpRel (dsArgs [.string t v]) (deExps cs) ∧ FArgsBody ka cs) (r := []) sty v
    simp only [List.append_nil, AllRd_nil] at this
    simp only [visitArgs, visitExpr]
    rw [this]
    refine ⟨⟨_, _, rfl, .inr (.inr ⟨_, rfl⟩)⟩, [.str (v.map fun c => SUnit.ch c.toNat)], ?_, ?_⟩
    · simp only [dsArgs, dsExpr, deExps, deExp]; exact .cons (.str t v) .nil
    · intro F rest hF
      simp only [List.length_cons, List.length_nil] at hF
      obtain ⟨F, rfl⟩ : ∃ f, F = f + 1 := ⟨F - 1, by omega⟩
      rw [List.cons_append, funcargs]; simp
  · rw [h]
    have hf := (hall _ (by simp)).Tb t fs rfl
    simp only [visitArgs, visitExpr]
    apply table_pieces
    intro q kf hkf
    obtain ⟨cs, hrel, hb, hbc⟩ := hf q kf hkf
    have hrel' : Forall₂ ExpRel (dsArgs [Expr.table t fs]) (deExps [Exp.table cs]) := by
      simp only [dsArgs, dsExpr, deExps, deExp]; exact .cons (.table t hrel) .nil
    refine ⟨⟨⟨_, _, rfl, .inr (.inl rfl)⟩, [.table cs], hrel', ?_⟩, fun hne => ⟨⟨_, _, rfl, .inr (.inl rfl)⟩, [.table cs], hrel', ?_⟩⟩
    · intro F rest hF
      simp only [List.length_cons, List.length_append, List.length_nil] at hF
      obtain ⟨F, rfl⟩ : ∃ f, F = f + 1 := ⟨F - 1, by omega⟩
      simp only [List.cons_append, List.append_assoc, List.nil_append]
      rw [funcargs]
      simp [hb F rest (by omega), bind, Except.bind]
    · intro F rest hF
      simp only [List.length_cons, List.length_append, List.length_nil] at hF
      obtain ⟨F, rfl⟩ : ∃ f, F = f + 1 := ⟨F - 1, by omega⟩
      simp only [List.cons_append, List.append_assoc, List.nil_append]
      rw [funcargs]
      simp [hbc hne F rest (by omega), bind, Except.bind]
  · rw [h, AllRd_wrapParens]
    cases args with
    | nil =>
      simp only [visitArgs, AllRd_nil]
      refine ⟨⟨_, _, rfl, .inl rfl⟩, [], by simp only [dsArgs, deExps]; exact .nil, ?_⟩
      intro F rest hF
      simp only [List.length_cons, List.length_nil, List.nil_append] at hF
      obtain ⟨F, rfl⟩ : ∃ f, F = f + 1 := ⟨F - 1, by omega⟩
      rw [List.cons_append, funcargs]
      simp [isSym]
    | cons e r =>
      intro ks hks
      obtain ⟨hd, cs, hrel, hb⟩ := args_of_allR (e :: r) hall (by simp) _ ks hks
      refine ⟨⟨_, _, rfl, .inl rfl⟩, cs, hrel, ?_⟩
      intro F rest hF
      simp only [List.length_cons, List.length_append, List.length_nil] at hF
      obtain ⟨F, rfl⟩ : ∃ f, F = f + 1 := ⟨F - 1, by omega⟩
      have hex := hb F (mkTok (.sym ")") :: rest) (by omega) (by rfl)
      simp only [List.cons_append, List.append_assoc, List.nil_append]
      refine funcargs_paren F _ rest _ ?_ hex
      obtain ⟨k, tks, rfl, hs⟩ := hd
      rw [List.cons_append, isSym_mkTok]
      cases hbk : k == .sym ")" with
      | false => rfl
      | true =>
        have : k = .sym ")" := by simpa using hbk
        subst this
        simp [exprStartTk] at hs

/-! ## variable-like expressions -/

theorem index_PR {t : Token} {l k : Expr} (hxl : XPropR sty l) (hk : EPropR sty k) : PPropR sty (.index t l k) := by
  unfold PPropR
  intro p
  simp only [visitExpr, AllRd_append, AllRd_lbrack, AllRd_rbrack, AllRd_fmtKey, AllRd_nil]
  intro kv hkv kk hkk
  obtain ⟨hdv, cv, relv, bv⟩ := var_stepR hxl _ kv hkv
  obtain ⟨hdk, ck, relk, bk⟩ := hk _ kk hkk
  refine ⟨((hdv.append _).append _).append _, .index cv ck, ?_, ?_, ?_, ?_⟩
  · simp only [dsExpr, deExp]; exact .index t relv relk
  · intro _; rfl
  · intro h; cases h
  · intro F rest hF
    simp only [List.length_append, List.length_cons, List.length_nil] at hF ⊢
    obtain ⟨F1, hF1, h1⟩ := bv F (mkTok (.sym "[") :: (kk ++ mkTok (.sym "]") :: rest)) (by omega)
    obtain ⟨F1, rfl⟩ : ∃ f, F1 = f + 1 := ⟨F1 - 1, by omega⟩
    refine ⟨F1, by omega, ?_⟩
    simp only [List.append_assoc, List.cons_append, List.nil_append]
    rw [h1]
    exact suffixes_index F1 _ _ _ rest (expr_of_EBody bk F1 _ (by omega) (by simp [sfx]) (by simp [hdLp, binOfTk]))

theorem namedIndex_PR {t : Token} {l nm : Expr} (hxl : XPropR sty l) (hn : nameNodeOK nm = true) :
    PPropR sty (.namedIndex t l nm) := by
  unfold PPropR
  intro p
  simp only [visitExpr, AllRd_append, AllRd_dot, AllRd_nameNode' sty hn, AllRd_nil]
  intro kv hkv
  obtain ⟨hdv, cv, relv, bv⟩ := var_stepR hxl _ kv hkv
  refine ⟨(hdv.append _).append _, .dot cv (nameS nm), ?_, ?_, ?_, ?_⟩
  · simp only [dsExpr, deExp]; exact .dot t relv (NameRel_of_nameNodeOK hn)
  · intro _; rfl
  · intro h; cases h
  · intro F rest hF
    simp only [List.length_append, List.length_cons, List.length_nil] at hF ⊢
    obtain ⟨F1, hF1, h1⟩ := bv F (mkTok (.sym ".") :: mkTok (.name (nameS nm)) :: rest) (by omega)
    obtain ⟨F1, rfl⟩ : ∃ f, F1 = f + 1 := ⟨F1 - 1, by omega⟩
    refine ⟨F1, by omega, ?_⟩
    simp only [List.append_assoc, List.cons_append, List.nil_append]
    rw [h1]
    exact suffixes_dot F1 _ _ rest

theorem call_core {t : Token} {f : Expr} {args : List Expr} (hxf : XPropR sty f) (hall : ∀ e ∈ args, XPropR sty e) :
    ∀ p, AllRd p (visitExpr sty (.call t f args)) fun ks => HeadV ks ∧ ∃ cv cs, ExpRel (dsExpr f) (deExp cv) ∧
      Forall₂ ExpRel (dsArgs args) (deExps cs) ∧ PBody ks (.call cv cs) := by
  intro p
  simp only [visitExpr, AllRd_append]
  intro kv hkv ka hka
  obtain ⟨hdv, cv, relv, bv⟩ := var_stepR hxf _ kv hkv
  obtain ⟨hda, cs, rela, ba⟩ := fargs_stepR args hall _ ka hka
  refine ⟨hdv.append _, cv, cs, relv, rela, ?_⟩
  intro F rest hF
  simp only [List.length_append] at hF ⊢
  have pa := hda.pos
  obtain ⟨F1, hF1, h1⟩ := bv F (ka ++ rest) (by omega)
  obtain ⟨F1, rfl⟩ : ∃ f, F1 = f + 1 := ⟨F1 - 1, by omega⟩
  refine ⟨F1, by omega, ?_⟩
  rw [List.append_assoc, h1]
  exact suffixes_call F1 _ _ _ rest (hda.pk rest) (ba F1 rest (by omega))

theorem call_PR {t : Token} {f : Expr} {args : List Expr} (hxf : XPropR sty f) (hall : ∀ e ∈ args, XPropR sty e) :
    PPropR sty (.call t f args) := by
  intro p ks hks
  obtain ⟨hd, cv, cs, relv, rela, hb⟩ := call_core (t := t) hxf hall p ks hks
  refine ⟨hd, .call cv cs, ?_, ?_, ?_, hb⟩
  · simp only [dsExpr, deExp]; exact .call t relv rela
  · intro h; cases h
  · intro _; rfl

theorem method_core {t : Token} {f m : Expr} {args : List Expr} (hxf : XPropR sty f) (hm : nameNodeOK m = true)
    (hall : ∀ e ∈ args, XPropR sty e) :
    ∀ p, AllRd p (visitExpr sty (.method t f m args)) fun ks => HeadV ks ∧ ∃ cv cs, ExpRel (dsExpr f) (deExp cv) ∧
      Forall₂ ExpRel (dsArgs args) (deExps cs) ∧ PBody ks (.mcall cv (nameS m) cs) := by
  intro p
  simp only [visitExpr, AllRd_append, AllRd_colon, AllRd_nameNode' sty hm, AllRd_nil]
  intro kv hkv ka hka
  obtain ⟨hdv, cv, relv, bv⟩ := var_stepR hxf _ kv hkv
  obtain ⟨hda, cs, rela, ba⟩ := fargs_stepR args hall _ ka hka
  refine ⟨((hdv.append _).append _).append _, cv, cs, relv, rela, ?_⟩
  intro F rest hF
  simp only [List.length_append, List.length_cons, List.length_nil] at hF ⊢
  have pa := hda.pos
  obtain ⟨F1, hF1, h1⟩ := bv F (mkTok (.sym ":") :: mkTok (.name (nameS m)) :: (ka ++ rest)) (by omega)
  obtain ⟨F1, rfl⟩ : ∃ f, F1 = f + 1 := ⟨F1 - 1, by omega⟩
  refine ⟨F1, by omega, ?_⟩
  simp only [List.append_assoc, List.cons_append, List.nil_append]
  rw [h1]
  exact suffixes_mcall F1 _ _ _ _ rest (ba F1 rest (by omega))

theorem method_PR {t : Token} {f m : Expr} {args : List Expr} (hxf : XPropR sty f) (hm : nameNodeOK m = true)
    (hall : ∀ e ∈ args, XPropR sty e) : PPropR sty (.method t f m args) := by
  intro p ks hks
  obtain ⟨hd, cv, cs, relv, rela, hb⟩ := method_core (t := t) hxf hm hall p ks hks
  refine ⟨hd, .mcall cv (nameS m) cs, ?_, ?_, ?_, hb⟩
  · simp only [dsExpr, deExp]; exact .mcall t relv (NameRel_of_nameNodeOK hm) rela
  · intro h; cases h
  · intro _; rfl

end Tumfl.Theory.TCGSim
