import Tumfl.Theory.ParserSimRef
/-!
# Productions of the reference parser (continued): statements, simple expressions, suffix chains, tables
-/
namespace Tumfl.Theory
open Tumfl.Spec

variable {ts ts1 ts2 ts3 ts4 ts5 ts6 ts7 : List Tok}

/-! ## statements -/

theorem ev_stat_empty (h : pk ts = .sym ";") : Ev (statement · ts) (.empty, ts.tail) :=
  Ev.intro0 fun g => by rw [statement]; prod

theorem ev_stat_break (h : pk ts = .kw "break") : Ev (statement · ts) (.brk, ts.tail) :=
  Ev.intro0 fun g => by rw [statement]; prod

theorem ev_stat_goto {n : String} (h : pk ts = .kw "goto") (hn : pk ts.tail = .name n) :
    Ev (statement · ts) (.goto n, ts.tail.tail) :=
  Ev.intro0 fun g => by rw [statement]; prod

theorem ev_stat_label {n : String} (h : pk ts = .sym "::") (hn : pk ts.tail = .name n)
    (h2 : pk ts.tail.tail = .sym "::") : Ev (statement · ts) (.label n, ts.tail.tail.tail) :=
  Ev.intro0 fun g => by rw [statement]; prod

theorem ev_stat_do {b : Block} (h : pk ts = .kw "do") (h1 : Ev (block · ts.tail) (b, ts1)) (he : pk ts1 = .kw "end") :
    Ev (statement · ts) (.doo b, ts1.tail) :=
  Ev.intro1 h1 fun g e1 => by rw [statement]; prod

theorem ev_stat_while {c : Exp} {b : Block} (h : pk ts = .kw "while") (h1 : Ev (expr · ts.tail) (c, ts1))
    (hd : pk ts1 = .kw "do") (h2 : Ev (block · ts1.tail) (b, ts3)) (he : pk ts3 = .kw "end") :
    Ev (statement · ts) (.whl c b, ts3.tail) :=
  Ev.intro2 h1 h2 fun g e1 e2 => by rw [statement]; prod

theorem ev_stat_repeat {c : Exp} {b : Block} (h : pk ts = .kw "repeat") (h1 : Ev (block · ts.tail) (b, ts1))
    (hu : pk ts1 = .kw "until") (h2 : Ev (expr · ts1.tail) (c, ts3)) :
    Ev (statement · ts) (.rep b c, ts3) :=
  Ev.intro2 h1 h2 fun g e1 e2 => by rw [statement]; prod

theorem ev_stat_if {c : Exp} {b : Block} {elifs : List ElseIf} {els : Option Block}
    (h : pk ts = .kw "if") (h1 : Ev (expr · ts.tail) (c, ts1)) (ht : pk ts1 = .kw "then")
    (h2 : Ev (block · ts1.tail) (b, ts3)) (h3 : Ev (ifrest · ts3) (elifs, els, ts4)) :
    Ev (statement · ts) (.iff c b elifs els, ts4) :=
  Ev.intro3 h1 h2 h3 fun g e1 e2 e3 => by rw [statement]; prod

theorem ev_stat_fornum1 {n : String} {a b s : Exp} {bd : Block} (h : pk ts = .kw "for") (hn : pk ts.tail = .name n)
    (ha : pk ts.tail.tail = .sym "=") (h1 : Ev (expr · ts.tail.tail.tail) (a, ts2)) (hc : pk ts2 = .sym ",")
    (h2 : Ev (expr · ts2.tail) (b, ts4)) (hc2 : pk ts4 = .sym ",") (h3 : Ev (expr · ts4.tail) (s, ts5))
    (hd : pk ts5 = .kw "do") (h4 : Ev (block · ts5.tail) (bd, ts7)) (he : pk ts7 = .kw "end") :
    Ev (statement · ts) (.fornum n a b (some s) bd, ts7.tail) :=
  Ev.intro4 h1 h2 h3 h4 fun g e1 e2 e3 e4 => by rw [statement]; prod

theorem ev_stat_fornum0 {n : String} {a b : Exp} {bd : Block} (h : pk ts = .kw "for") (hn : pk ts.tail = .name n)
    (ha : pk ts.tail.tail = .sym "=") (h1 : Ev (expr · ts.tail.tail.tail) (a, ts2)) (hc : pk ts2 = .sym ",")
    (h2 : Ev (expr · ts2.tail) (b, ts4))
    (hd : pk ts4 = .kw "do") (h4 : Ev (block · ts4.tail) (bd, ts7)) (he : pk ts7 = .kw "end") :
    Ev (statement · ts) (.fornum n a b none bd, ts7.tail) :=
  Ev.intro3 h1 h2 h4 fun g e1 e2 e4 => by rw [statement]; prod

theorem ev_stat_forin {n : String} {ns : List String} {es : List Exp} {bd : Block} (h : pk ts = .kw "for")
    (hn : pk ts.tail = .name n) (ha : pk ts.tail.tail = .sym "," ∨ pk ts.tail.tail = .kw "in")
    (h1 : Ev (namelistRest · ts.tail.tail) (ns, ts2)) (hi : pk ts2 = .kw "in")
    (h2 : Ev (explist · ts2.tail) (es, ts4)) (hd : pk ts4 = .kw "do") (h3 : Ev (block · ts4.tail) (bd, ts6))
    (he : pk ts6 = .kw "end") : Ev (statement · ts) (.forin (n :: ns) es bd, ts6.tail) :=
  Ev.intro3 h1 h2 h3 fun g e1 e2 e3 => by
    rw [statement]
    rcases ha with ha | ha <;> prod

theorem ev_stat_func_method {n m : String} {ns ps : List String} {va : Bool} {b : Block} (h : pk ts = .kw "function")
    (hn : pk ts.tail = .name n) (h1 : Ev (dottedRest · ts.tail.tail) (ns, ts2)) (hc : pk ts2 = .sym ":")
    (hm : pk ts2.tail = .name m) (h2 : Ev (body · ts2.tail.tail) (ps, va, b, ts4)) :
    Ev (statement · ts) (.func (n :: ns) (some m) ps va b, ts4) :=
  Ev.intro2 h1 h2 fun g e1 e2 => by rw [statement]; prod

theorem ev_stat_func {n : String} {ns ps : List String} {va : Bool} {b : Block} (h : pk ts = .kw "function")
    (hn : pk ts.tail = .name n) (h1 : Ev (dottedRest · ts.tail.tail) (ns, ts2)) (hc : pk ts2 ≠ .sym ":")
    (h2 : Ev (body · ts2) (ps, va, b, ts4)) :
    Ev (statement · ts) (.func (n :: ns) none ps va b, ts4) :=
  Ev.intro2 h1 h2 fun g e1 e2 => by rw [statement]; prod

theorem ev_stat_localfunc {n : String} {ps : List String} {va : Bool} {b : Block} (h : pk ts = .kw "local")
    (hf : pk ts.tail = .kw "function") (hn : pk ts.tail.tail = .name n)
    (h1 : Ev (body · ts.tail.tail.tail) (ps, va, b, ts2)) :
    Ev (statement · ts) (.localfunc n ps va b, ts2) :=
  Ev.intro1 h1 fun g e1 => by rw [statement]; prod

theorem ev_stat_local1 {ns : List (String × Option String)} {es : List Exp} (h : pk ts = .kw "local")
    (hf : pk ts.tail ≠ .kw "function") (h1 : Ev (attnamelist · ts.tail) (ns, ts1)) (ha : pk ts1 = .sym "=")
    (h2 : Ev (explist · ts1.tail) (es, ts2)) : Ev (statement · ts) (.locl ns es, ts2) :=
  Ev.intro2 h1 h2 fun g e1 e2 => by rw [statement]; prod

theorem ev_stat_local0 {ns : List (String × Option String)} (h : pk ts = .kw "local")
    (hf : pk ts.tail ≠ .kw "function") (h1 : Ev (attnamelist · ts.tail) (ns, ts1)) (ha : pk ts1 ≠ .sym "=") :
    Ev (statement · ts) (.locl ns [], ts1) :=
  Ev.intro1 h1 fun g e1 => by rw [statement]; prod

theorem statement_primary (g : Nat) (h : primaryTk (pk ts) = true) :
    statement (g + 1) ts = (do
      let (e, ts1) ← suffixedexp g ts
      if isSym "=" ts1 || isSym "," ts1 then do
        let (vs, ts2) ← restassign g ts1
        let ts3 ← expectSym "=" ts2
        let (es, ts4) ← explist g ts3
        if (e :: vs).all isVar then .ok (.assign (e :: vs) es, ts4) else perr "syntax error" ts
      else if isCall e then .ok (.call e, ts1)
      else perr "syntax error" ts1) := by
  rw [statement]
  split <;> simp_all [primaryTk]

theorem ev_stat_assign {e : Exp} {vs es : List Exp} (h : primaryTk (pk ts) = true)
    (h1 : Ev (suffixedexp · ts) (e, ts1)) (ha : pk ts1 = .sym "=" ∨ pk ts1 = .sym ",")
    (h2 : Ev (restassign · ts1) (vs, ts2)) (he : pk ts2 = .sym "=") (h3 : Ev (explist · ts2.tail) (es, ts4))
    (hv : (e :: vs).all isVar = true) : Ev (statement · ts) (.assign (e :: vs) es, ts4) :=
  Ev.intro3 h1 h2 h3 fun g e1 e2 e3 => by
    rw [statement_primary g h]
    simp only [List.all_cons, Bool.and_eq_true] at hv
    rcases ha with ha | ha <;> prod

theorem ev_stat_call {e : Exp} (h : primaryTk (pk ts) = true)
    (h1 : Ev (suffixedexp · ts) (e, ts1)) (ha : pk ts1 ≠ .sym "=") (ha2 : pk ts1 ≠ .sym ",")
    (hc : isCall e = true) : Ev (statement · ts) (.call e, ts1) :=
  Ev.intro1 h1 fun g e1 => by rw [statement_primary g h]; prod

/-! ## simple expressions -/

theorem ev_simple_num {n : Numeral} (h : pk ts = .num n) : Ev (simpleexp · ts) (.num n, ts.tail) :=
  Ev.intro0 fun g => by rw [simpleexp]; prod
theorem ev_simple_str {v : List SUnit} (h : pk ts = .str v) : Ev (simpleexp · ts) (.str v, ts.tail) :=
  Ev.intro0 fun g => by rw [simpleexp]; prod
theorem ev_simple_nil (h : pk ts = .kw "nil") : Ev (simpleexp · ts) (.nil, ts.tail) :=
  Ev.intro0 fun g => by rw [simpleexp]; prod
theorem ev_simple_true (h : pk ts = .kw "true") : Ev (simpleexp · ts) (.tru, ts.tail) :=
  Ev.intro0 fun g => by rw [simpleexp]; prod
theorem ev_simple_false (h : pk ts = .kw "false") : Ev (simpleexp · ts) (.fls, ts.tail) :=
  Ev.intro0 fun g => by rw [simpleexp]; prod
theorem ev_simple_vararg (h : pk ts = .sym "...") : Ev (simpleexp · ts) (.vararg, ts.tail) :=
  Ev.intro0 fun g => by rw [simpleexp]; prod

theorem ev_simple_table {fs : List Field} (h : pk ts = .sym "{") (h1 : Ev (fields · ts.tail) (fs, ts1)) :
    Ev (simpleexp · ts) (.table fs, ts1) :=
  Ev.intro1 h1 fun g e1 => by rw [simpleexp]; prod

theorem ev_simple_func {ps : List String} {va : Bool} {b : Block} (h : pk ts = .kw "function")
    (h1 : Ev (body · ts.tail) (ps, va, b, ts1)) : Ev (simpleexp · ts) (.func ps va b, ts1) :=
  Ev.intro1 h1 fun g e1 => by rw [simpleexp]; prod

theorem ev_simple_suffixed {r : Exp × List Tok} (h : primaryTk (pk ts) = true) (h1 : Ev (suffixedexp · ts) r) :
    Ev (simpleexp · ts) r :=
  Ev.intro1 h1 fun g e1 => by
    rw [simpleexp]
    split <;> simp_all [primaryTk]

/-! ## suffixed expressions -/

theorem ev_suffixed_name {n : String} {r : Exp × List Tok} (h : pk ts = .name n)
    (h1 : Ev (suffixes · (.name n) ts.tail) r) : Ev (suffixedexp · ts) r :=
  Ev.intro1 h1 fun g e1 => by rw [suffixedexp]; prod

theorem ev_suffixed_paren {e : Exp} {r : Exp × List Tok} (h : pk ts = .sym "(") (h1 : Ev (expr · ts.tail) (e, ts1))
    (hc : pk ts1 = .sym ")") (h2 : Ev (suffixes · (.paren e) ts1.tail) r) : Ev (suffixedexp · ts) r :=
  Ev.intro2 h1 h2 fun g e1 e2 => by rw [suffixedexp]; prod

theorem ev_suffixes_stop {e : Exp} (h : suffixTk (pk ts) = false) : Ev (suffixes · e ts) (e, ts) :=
  Ev.intro0 fun g => by
    rw [suffixes]
    split <;> simp_all [suffixTk]

theorem ev_suffixes_dot {e : Exp} {n : String} {r : Exp × List Tok} (h : pk ts = .sym ".") (hn : pk ts.tail = .name n)
    (h1 : Ev (suffixes · (.dot e n) ts.tail.tail) r) : Ev (suffixes · e ts) r :=
  Ev.intro1 h1 fun g e1 => by rw [suffixes]; prod

theorem ev_suffixes_index {e k : Exp} {r : Exp × List Tok} (h : pk ts = .sym "[") (h1 : Ev (expr · ts.tail) (k, ts1))
    (hc : pk ts1 = .sym "]") (h2 : Ev (suffixes · (.index e k) ts1.tail) r) : Ev (suffixes · e ts) r :=
  Ev.intro2 h1 h2 fun g e1 e2 => by rw [suffixes]; prod

theorem ev_suffixes_mcall {e : Exp} {m : String} {args : List Exp} {r : Exp × List Tok} (h : pk ts = .sym ":")
    (hn : pk ts.tail = .name m) (h1 : Ev (funcargs · ts.tail.tail) (args, ts2))
    (h2 : Ev (suffixes · (.mcall e m args) ts2) r) : Ev (suffixes · e ts) r :=
  Ev.intro2 h1 h2 fun g e1 e2 => by rw [suffixes]; prod

/-- the tokens that start call arguments -/
def argsTk : Tk → Bool
  | .sym "(" | .sym "{" | .str _ => true
  | _ => false

theorem ev_suffixes_call {e : Exp} {args : List Exp} {r : Exp × List Tok} (h : argsTk (pk ts) = true)
    (h1 : Ev (funcargs · ts) (args, ts1)) (h2 : Ev (suffixes · (.call e args) ts1) r) : Ev (suffixes · e ts) r :=
  Ev.intro2 h1 h2 fun g e1 e2 => by
    rw [suffixes]
    split <;> (try prod) <;> simp_all [argsTk]

/-! ## call arguments -/

theorem ev_funcargs_paren0 (h : pk ts = .sym "(") (hc : pk ts.tail = .sym ")") :
    Ev (funcargs · ts) ([], ts.tail.tail) :=
  Ev.intro0 fun g => by rw [funcargs]; prod

theorem ev_funcargs_paren1 {es : List Exp} (h : pk ts = .sym "(") (hc : pk ts.tail ≠ .sym ")")
    (h1 : Ev (explist · ts.tail) (es, ts1)) (hc2 : pk ts1 = .sym ")") : Ev (funcargs · ts) (es, ts1.tail) :=
  Ev.intro1 h1 fun g e1 => by rw [funcargs]; prod

theorem ev_funcargs_table {fs : List Field} (h : pk ts = .sym "{") (h1 : Ev (fields · ts.tail) (fs, ts1)) :
    Ev (funcargs · ts) ([.table fs], ts1) :=
  Ev.intro1 h1 fun g e1 => by rw [funcargs]; prod

theorem ev_funcargs_str {v : List SUnit} (h : pk ts = .str v) : Ev (funcargs · ts) ([.str v], ts.tail) :=
  Ev.intro0 fun g => by rw [funcargs]; prod

/-! ## table fields -/

/-- one field of a table constructor -/
def fieldOne (f : Nat) (ts : List Tok) : Except PErr (Field × List Tok) :=
  match pk ts with
  | .name n =>
    if isSym "=" ts.tail then do
      let (e, t2) ← expr f ts.tail.tail
      .ok (.named n e, t2)
    else do
      let (e, t2) ← expr f ts
      .ok (.pos e, t2)
  | .sym "[" => do
    let (k, t1) ← expr f ts.tail
    let t2 ← expectSym "]" t1
    let t3 ← expectSym "=" t2
    let (e, t4) ← expr f t3
    .ok (.keyed k e, t4)
  | _ => do
    let (e, t2) ← expr f ts
    .ok (.pos e, t2)

theorem fields_succ (g : Nat) (ts : List Tok) : fields (g + 1) ts =
    (if isSym "}" ts then .ok ([], ts.tail)
    else do
      let (fd, ts1) ← fieldOne g ts
      if isSym "," ts1 || isSym ";" ts1 then do
        let (fs, ts2) ← fields g ts1.tail
        .ok (fd :: fs, ts2)
      else do
        let ts2 ← expectSym "}" ts1
        .ok ([fd], ts2)) := by
  rw [fields]; rfl

theorem ev_field_named {n : String} {e : Exp} (h : pk ts = .name n) (ha : pk ts.tail = .sym "=")
    (h1 : Ev (expr · ts.tail.tail) (e, ts2)) : Ev (fieldOne · ts) (.named n e, ts2) :=
  Ev.lift1 h1 fun g e1 => by unfold fieldOne; prod

theorem ev_field_keyed {k e : Exp} (h : pk ts = .sym "[") (h1 : Ev (expr · ts.tail) (k, ts1))
    (hc : pk ts1 = .sym "]") (ha : pk ts1.tail = .sym "=") (h2 : Ev (expr · ts1.tail.tail) (e, ts4)) :
    Ev (fieldOne · ts) (.keyed k e, ts4) :=
  Ev.lift2 h1 h2 fun g e1 e2 => by unfold fieldOne; prod

theorem ev_field_pos {e : Exp} (h : pk ts ≠ .sym "[") (hn : ∀ n, pk ts = .name n → pk ts.tail ≠ .sym "=")
    (h1 : Ev (expr · ts) (e, ts2)) : Ev (fieldOne · ts) (.pos e, ts2) :=
  Ev.lift1 h1 fun g e1 => by
    unfold fieldOne
    split
    · next n hn' => have := hn n hn'; prod
    · next h' => exact absurd h' h
    · prod

theorem ev_fields_end (h : pk ts = .sym "}") : Ev (fields · ts) ([], ts.tail) :=
  Ev.intro0 fun g => by rw [fields_succ]; prod

theorem ev_fields_more {fd : Field} {fs : List Field} (h : pk ts ≠ .sym "}") (h1 : Ev (fieldOne · ts) (fd, ts1))
    (hc : pk ts1 = .sym "," ∨ pk ts1 = .sym ";") (h2 : Ev (fields · ts1.tail) (fs, ts2)) :
    Ev (fields · ts) (fd :: fs, ts2) :=
  Ev.intro2 h1 h2 fun g e1 e2 => by
    rw [fields_succ]
    rcases hc with hc | hc <;> prod

theorem ev_fields_last {fd : Field} (h : pk ts ≠ .sym "}") (h1 : Ev (fieldOne · ts) (fd, ts1))
    (he : pk ts1 = .sym "}") :
    Ev (fields · ts) ([fd], ts1.tail) :=
  Ev.intro1 h1 fun g e1 => by rw [fields_succ]; prod

end Tumfl.Theory
