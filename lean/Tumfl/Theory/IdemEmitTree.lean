import Tumfl.Theory.IdemEmitStmts
/-!
# C15: two model trees that denote the same reference tree print alike up to superfluous Statement separators

The induction over the tree (`cnE`, `cnEs`, `cnFs`, `cnF`, `cnB`, `cnSs`, `cnS`, `cnFalse`): for every syntactic category,
given `to* x = to* y`, the block-start lists and the numeral lists of `x` and `y` have the same lengths, and when the
flags agree (`KL`) and the numerals are spelled alike the printed pieces agree after `cn`.
-/
namespace Tumfl.Theory
namespace IdemE
open Tumfl Tumfl.Model

set_option linter.unusedVariables false

mutual
theorem cnE (sty : Style) (hic : sty.includeComments = false) (hks : sty.keepSemicolon = false) :
    (x : Expr) → (y : Expr) → pExpr x = true → pExpr y = true → toE x = toE y →
    Rel2 (lE x) (gE sty y) (numsExpr x) (numsExpr y) (CE (visitExpr sty x) (visitExpr sty y))
  | .nil t, y, hx, hy, h => by
    simp only [toE] at h
    obtain ⟨t', rfl⟩ := toE_inv_nil h.symm
    simp only [lE, gE, numsExpr, visitExpr]
    exact Rel2.pure (CE.rfl' _)
  | .bool t v, y, hx, hy, h => by
    simp only [toE] at h
    obtain ⟨t', rfl⟩ := toE_inv_bool h.symm
    simp only [lE, gE, numsExpr, visitExpr]
    exact Rel2.pure (CE.rfl' _)
  | .vararg t, y, hx, hy, h => by
    simp only [toE] at h
    obtain ⟨t', rfl⟩ := toE_inv_vararg h.symm
    simp only [lE, gE, numsExpr, visitExpr]
    exact Rel2.pure (CE.rfl' _)
  | .number t n, y, hx, hy, h => by
    simp only [toE] at h
    obtain ⟨t', n', rfl⟩ := toE_inv_num h.symm
    simp only [lE, gE, numsExpr, visitExpr]
    refine ⟨rfl, rfl, fun _ hn => ?_⟩
    simp only [List.map_cons, List.map_nil, List.cons.injEq, and_true] at hn
    rw [hn]
    exact CE.rfl' _
  | .string t v, y, hx, hy, h => by
    simp only [toE] at h
    obtain ⟨t', v', rfl, hv⟩ := toE_inv_str h.symm
    have := strUnits_inj hv
    subst this
    simp only [lE, gE, numsExpr, visitExpr]
    exact Rel2.pure (CE.rfl' _)
  | .func t ps body, y, hx, hy, h => by
    simp only [toE] at h
    obtain ⟨t', ps', b', rfl, h1, h2, h3⟩ := toE_inv_func h.symm
    simp only [pExpr, Bool.and_eq_true] at hx hy
    have r := cnB sty hic hks body b' hx.2 hy.2 h3.symm
    have ea := visitArgs_params_congr sty hx.1 hy.1 h1.symm h2.symm
    simp only [lE, gE, numsExpr, visitExpr, (visitArgs_params sty hx.1).2, (visitArgs_params sty hy.1).2,
      List.nil_append, ea]
    exact r.mono fun c => CE.pre _ (ce_drop1 sty c)
  | .table t fs, y, hx, hy, h => by
    simp only [toE] at h
    obtain ⟨t', fs', rfl, hf⟩ := toE_inv_table h.symm
    simp only [pExpr] at hx hy
    have r := cnFs sty hic hks fs fs' hx hy hf.symm
    simp only [lE, gE, numsExpr, visitExpr]
    exact r.mono fun c => CE.cons _ (c.post _)
  | .binop t o l r, y, hx, hy, h => by
    simp only [toE] at h
    obtain ⟨t', l', r', rfl, hl, hr⟩ := toE_inv_bin h.symm
    simp only [pExpr, Bool.and_eq_true] at hx hy
    have r1 := cnE sty hic hks l l' hx.1 hy.1 hl.symm
    have r2 := cnE sty hic hks r r' hx.2 hy.2 hr.symm
    simp only [lE, gE, numsExpr, visitExpr]
    rw [kind_congr hl.symm, kind_congr hr.symm]
    exact (r1.and r2).mono fun ⟨c1, c2⟩ => ((CE.ite _ c1.wrap c1).post _).append (CE.ite _ c2.wrap c2)
  | .unop t u e, y, hx, hy, h => by
    simp only [toE] at h
    obtain ⟨t', e', rfl, he⟩ := toE_inv_un h.symm
    simp only [pExpr] at hx hy
    have r1 := cnE sty hic hks e e' hx hy he.symm
    simp only [lE, gE, numsExpr, visitExpr]
    rw [kind_congr he.symm]
    exact r1.mono fun c => CE.cons _ (CE.ite _ c.wrap (CE.ite _ (CE.cons _ c) c))
  | .name t n, y, hx, hy, h => by
    simp only [toE] at h
    obtain ⟨t', n', rfl, hn⟩ := toE_inv_name h.symm
    have := String.ofList_injective hn
    subst this
    simp only [lE, gE, numsExpr, visitExpr]
    exact Rel2.pure (CE.rfl' _)
  | .index t l k, y, hx, hy, h => by
    simp only [toE] at h
    obtain ⟨t', l', k', rfl, hl, hk⟩ := toE_inv_index h.symm
    simp only [pExpr, Bool.and_eq_true] at hx hy
    have r1 := cnE sty hic hks l l' hx.1 hy.1 hl.symm
    have r2 := cnE sty hic hks k k' hx.2 hy.2 hk.symm
    simp only [lE, gE, numsExpr, visitExpr]
    exact (r1.and r2).mono fun ⟨c1, c2⟩ => (((c1.fmtVar hl.symm).post _).append c2.fmtKey).post _
  | .namedIndex t l nm, y, hx, hy, h => by
    simp only [toE] at h
    obtain ⟨t', l', nm', rfl, hl, hn⟩ := toE_inv_dot h.symm
    simp only [pExpr, Bool.and_eq_true] at hx hy
    have r1 := cnE sty hic hks l l' hx.1 hy.1 hl.symm
    simp only [lE, gE, numsExpr, visitExpr, numsExpr_nameNode hx.2, numsExpr_nameNode hy.2, List.append_nil,
      visitExpr_name_congr sty hx.2 hy.2 hn.symm]
    exact r1.mono fun c => ((c.fmtVar hl.symm).post _).post _
  | .call t f args, y, hx, hy, h => by
    simp only [toE] at h
    obtain ⟨t', f', args', rfl, hf, ha⟩ := toE_inv_call h.symm
    simp only [pExpr, Bool.and_eq_true] at hx hy
    have r1 := cnE sty hic hks f f' hx.1 hy.1 hf.symm
    have r2 := cnEs sty hic hks args args' hx.2 hy.2 ha.symm
    simp only [lE, gE, numsExpr, visitExpr]
    exact (r1.and r2).mono fun ⟨c1, c2⟩ => (c1.fmtVar hf.symm).append (CE.fmtFunctionArgs sty ha.symm c2.1)
  | .method t f m args, y, hx, hy, h => by
    simp only [toE] at h
    obtain ⟨t', f', m', args', rfl, hf, hm, ha⟩ := toE_inv_mcall h.symm
    simp only [pExpr, Bool.and_eq_true] at hx hy
    have r1 := cnE sty hic hks f f' hx.1.1 hy.1.1 hf.symm
    have r2 := cnEs sty hic hks args args' hx.2 hy.2 ha.symm
    simp only [lE, gE, numsExpr, visitExpr, numsExpr_nameNode hx.1.2, numsExpr_nameNode hy.1.2, List.append_nil,
      visitExpr_name_congr sty hx.1.2 hy.1.2 hm.symm]
    exact (r1.and r2).mono fun ⟨c1, c2⟩ =>
      (((c1.fmtVar hf.symm).post _).post _).append (CE.fmtFunctionArgs sty ha.symm c2.1)

theorem cnEs (sty : Style) (hic : sty.includeComments = false) (hks : sty.keepSemicolon = false) :
    (xs : List Expr) → (ys : List Expr) → pArgs xs = true → pArgs ys = true → toEs xs = toEs ys →
    Rel2 (lEs xs) (gEs sty ys) (numsArgs xs) (numsArgs ys)
      (CE (visitArgs sty xs) (visitArgs sty ys) ∧ CE (visitTargets sty xs) (visitTargets sty ys))
  | [], ys, hx, hy, h => by
    simp only [toEs] at h
    have := toEs_inv_nil h.symm
    subst this
    simp only [lEs, gEs, numsArgs]
    exact Rel2.pure ⟨CE.rfl' _, CE.rfl' _⟩
  | x :: xs, ys, hx, hy, h => by
    simp only [toEs] at h
    obtain ⟨y, r, rfl, h1, h2⟩ := toEs_inv_cons h.symm
    simp only [pArgs, Bool.and_eq_true] at hx hy
    have r1 := cnE sty hic hks x y hx.1 hy.1 h1.symm
    have r2 := cnEs sty hic hks xs r hx.2 hy.2 h2.symm
    simp only [lEs, gEs, numsArgs]
    rw [visitArgs_cons, visitArgs_cons, visitTargets_cons, visitTargets_cons, toEs_isEmpty h2.symm]
    exact (r1.and r2).mono fun ⟨c1, c2⟩ =>
      ⟨c1.append (CE.ite _ (CE.rfl' _) (CE.cons _ c2.1)),
        (c1.fmtVar h1.symm).append (CE.ite _ (CE.rfl' _) (CE.cons _ c2.2))⟩

theorem cnFs (sty : Style) (hic : sty.includeComments = false) (hks : sty.keepSemicolon = false) :
    (xs : List Field) → (ys : List Field) → pFields xs = true → pFields ys = true → toFs xs = toFs ys →
    Rel2 (lFs xs) (gFs sty ys) (numsFields xs) (numsFields ys) (CE (visitFields sty xs) (visitFields sty ys))
  | [], ys, hx, hy, h => by
    simp only [toFs] at h
    have := toFs_inv_nil h.symm
    subst this
    simp only [lFs, gFs, numsFields]
    exact Rel2.pure (CE.rfl' _)
  | x :: xs, ys, hx, hy, h => by
    simp only [toFs] at h
    obtain ⟨y, r, rfl, h1, h2⟩ := toFs_inv_cons h.symm
    simp only [pFields, Bool.and_eq_true] at hx hy
    have r1 := cnF sty hic hks x y hx.1 hy.1 h1.symm
    have r2 := cnFs sty hic hks xs r hx.2 hy.2 h2.symm
    simp only [lFs, gFs, numsFields]
    rw [visitFields_cons, visitFields_cons, toFs_isEmpty h2.symm]
    exact (r1.and r2).mono fun ⟨c1, c2⟩ => c1.append (CE.ite _ (CE.rfl' _) (CE.cons _ c2))

theorem cnF (sty : Style) (hic : sty.includeComments = false) (hks : sty.keepSemicolon = false) :
    (x : Field) → (y : Field) → pField x = true → pField y = true → toF x = toF y →
    Rel2 (lF x) (gF sty y) (numsField x) (numsField y) (CE (visitField sty x) (visitField sty y))
  | .explicit t k v, y, hx, hy, h => by
    simp only [toF] at h
    obtain ⟨t', k', v', rfl, hk, hv⟩ := toF_inv_keyed h.symm
    simp only [pField, Bool.and_eq_true] at hx hy
    have r1 := cnE sty hic hks k k' hx.1 hy.1 hk.symm
    have r2 := cnE sty hic hks v v' hx.2 hy.2 hv.symm
    simp only [lF, gF, numsField, visitField]
    exact (r1.and r2).mono fun ⟨c1, c2⟩ => ((CE.pre _ c1.fmtKey).post _).append c2
  | .named t n v, y, hx, hy, h => by
    simp only [toF] at h
    obtain ⟨t', n', v', rfl, hn, hv⟩ := toF_inv_named h.symm
    simp only [pField, Bool.and_eq_true] at hx hy
    have r2 := cnE sty hic hks v v' hx.2 hy.2 hv.symm
    simp only [lF, gF, numsField, visitField, numsExpr_nameNode hx.1, numsExpr_nameNode hy.1, List.nil_append,
      visitExpr_name_congr sty hx.1 hy.1 hn.symm]
    exact r2.mono fun c => CE.pre _ c
  | .numbered t v, y, hx, hy, h => by
    simp only [toF] at h
    obtain ⟨t', v', rfl, hv⟩ := toF_inv_pos h.symm
    simp only [pField] at hx hy
    have r2 := cnE sty hic hks v v' hx hy hv.symm
    simp only [lF, gF, numsField, visitField]
    exact r2

theorem cnB (sty : Style) (hic : sty.includeComments = false) (hks : sty.keepSemicolon = false) :
    (x : Block) → (y : Block) → pBlock x = true → pBlock y = true → toB x = toB y →
    Rel2 (lB x) (gB sty y) (numsBlock x) (numsBlock y) (CT (bodyOf sty x) (bodyOf sty y))
  | .mk t ss none c, y, hx, hy, h => by
    rw [toB_none] at h
    obtain ⟨t', ss', c', rfl, hs⟩ := toB_inv_none h.symm
    simp only [pBlock, Bool.and_true] at hx hy
    have r := cnSs sty hic hks ss ss' hx hy hs.symm
    simp only [lB, gB, numsBlock]
    refine (r.consK (gFirst sty true ss') (leadSemi ss)).mono fun ⟨hk, c1, c2⟩ => ?_
    simp only [bodyOf, Block.stmts, Block.rets, bodyPieces, List.append_nil]
    exact c2 true true (gd_of_KLrel sty c1 hk)
  | .mk t ss (some es) c, y, hx, hy, h => by
    rw [toB_some] at h
    obtain ⟨t', ss', es', c', rfl, hs, he⟩ := toB_inv_some h.symm
    simp only [pBlock, Bool.and_eq_true] at hx hy
    have r1 := cnSs sty hic hks ss ss' hx.1 hy.1 hs.symm
    have r2 := cnEs sty hic hks es es' hx.2 hy.2 he.symm
    simp only [lB, gB, numsBlock]
    refine ((r1.and r2).consK (gFirst sty true ss') (leadSemi ss)).mono fun ⟨hk, ⟨c1, c2⟩, c3⟩ => ?_
    simp only [bodyOf, Block.stmts, Block.rets, bodyPieces]
    rw [toEs_isEmpty he.symm]
    exact CT.append (c2 true true (gd_of_KLrel sty c1 hk)) ((CE.pre _ c3.1).post _)

theorem cnSs (sty : Style) (hic : sty.includeComments = false) (hks : sty.keepSemicolon = false) :
    (ssx : List Stmt) → (ssy : List Stmt) → pStmts ssx = true → pStmts ssy = true → toSs ssx = toSs ssy →
    Rel2 (lSs ssx) (gSs sty ssy) (numsStmts ssx) (numsStmts ssy)
      (g1 sty ssx = g1 sty ssy ∧
        ∀ fx fy, gd sty fx ssx = gd sty fy ssy → CT (visitStmts sty fx ssx) (visitStmts sty fy ssy))
  | [], ssy, hx, hy, h => by
    simp only [toSs] at h
    have hs := toSs_inv_nil h.symm
    rw [← gSs_skp sty ssy, ← numsStmts_skp ssy, hs]
    simp only [lSs, gSs, numsStmts]
    apply Rel2.pure
    refine ⟨?_, fun fx fy _ => ?_⟩
    · rw [g1_of_skp_nil sty hs]; rfl
    · unfold CT
      rw [ct_skp sty hks hic fy ssy, hs]
      simp only [visitStmts]
  | sx :: rx, ssy, hx, hy, h => by
    simp only [pStmts, Bool.and_eq_true] at hx
    cases hsx : isSemi sx
    · simp only [toSs, hsx, Bool.false_eq_true, if_false] at h
      obtain ⟨sy, ry, hs, hsy, h1, h2⟩ := toSs_inv_cons h.symm
      have hy' := pStmts_skp hy
      rw [hs] at hy'
      simp only [pStmts, Bool.and_eq_true] at hy'
      have r1 := cnS sty hic hks sx sy hx.1 hy'.1 h1.symm
      have r2 := cnSs sty hic hks rx ry hx.2 hy'.2 h2.symm
      rw [← gSs_skp sty ssy, ← numsStmts_skp ssy, hs]
      simp only [lSs, gSs, numsStmts]
      refine (r1.and r2).mono fun ⟨c1, c2⟩ => ?_
      have hg := guardable_congr sty c1
      refine ⟨?_, fun fx fy hgd => ?_⟩
      · rw [g1_real sty hsx, g1_of_skp sty hs]; exact hg
      · unfold CT
        rw [ct_skp sty hks hic fy ssy, hs, visitStmts_real sty hic, visitStmts_real sty hic, gd_skp sty fy hs,
          ← gd_real sty fx hsx rx, hgd]
        exact ct_stmts_cons c1 (c2.2 false false (by rw [gd_false, gd_false]; exact c2.1))
    · simp only [toSs, hsx, if_true] at h
      have r := cnSs sty hic hks rx ssy hx.2 hy h
      simp only [lSs, numsStmts, lS_semi hsx, numsStmt_semi hsx, List.nil_append]
      refine r.mono fun c => ⟨by rw [g1_semi sty hsx]; exact c.1, fun fx fy hgd => ?_⟩
      unfold CT
      rw [visitStmts_semi sty hks hic fx hsx, cn_true_statement]
      exact c.2 false fy (by rw [← hgd, gd_semi sty fx hsx])

theorem cnS (sty : Style) (hic : sty.includeComments = false) (hks : sty.keepSemicolon = false) :
    (x : Stmt) → (y : Stmt) → pStmt x = true → pStmt y = true → toS x = toS y →
    Rel2 (lS x) (gS sty y) (numsStmt x) (numsStmt y) (CE (visitStmt sty x) (visitStmt sty y))
  | .assign t ts es, y, hx, hy, h => by
    simp only [toS] at h
    obtain ⟨t', ts', es', rfl, h1, h2⟩ := toS_inv_assign h.symm
    simp only [pStmt, Bool.and_eq_true] at hx hy
    have r1 := cnEs sty hic hks ts ts' hx.1.1.2 hy.1.1.2 h1.symm
    have r2 := cnEs sty hic hks es es' hx.2 hy.2 h2.symm
    simp only [lS, gS, numsStmt, visitStmt]
    exact (r1.and r2).mono fun ⟨c1, c2⟩ => (c1.2.post _).append c2.1
  | .block b, y, hx, hy, h => by
    simp only [toS] at h
    obtain ⟨b', rfl, hb⟩ := toS_inv_doo h.symm
    simp only [pStmt, Bool.and_eq_true, Bool.not_eq_true'] at hx hy
    have r := cnB sty hic hks b b' hx.2 hy.2 hb.symm
    simp only [lS, gS, numsStmt, visitStmt]
    exact r.mono (ce_blk sty hx.1 hy.1)
  | .brk t, y, hx, hy, h => by
    simp only [toS] at h
    obtain ⟨t', rfl⟩ := toS_inv_brk h.symm
    simp only [lS, gS, numsStmt, visitStmt]
    exact Rel2.pure (CE.rfl' _)
  | .call t f args, y, hx, hy, h => by
    simp only [toS] at h
    obtain ⟨t', f', args', rfl, hf, ha⟩ := toS_inv_call h.symm
    simp only [pStmt, Bool.and_eq_true] at hx hy
    have r1 := cnE sty hic hks f f' hx.1 hy.1 hf.symm
    have r2 := cnEs sty hic hks args args' hx.2 hy.2 ha.symm
    simp only [lS, gS, numsStmt, visitStmt]
    exact (r1.and r2).mono fun ⟨c1, c2⟩ => (c1.fmtVar hf.symm).append (CE.fmtFunctionArgs sty ha.symm c2.1)
  | .funcDef t names none ps body, y, hx, hy, h => by
    simp only [toS] at h
    obtain ⟨t', names', mo, ps', b', rfl, h1, h2, h3, h4, h5⟩ := toS_inv_func h.symm
    cases mo with
    | some mn => cases h2
    | none =>
      simp only [pStmt, Bool.and_eq_true, Bool.and_true] at hx hy
      have r := cnB sty hic hks body b' hx.2 hy.2 h5.symm
      have ea := visitArgs_params_congr sty hx.1.2 hy.1.2 h3.symm h4.symm
      have ed : visitDotted sty names = visitDotted sty names' := by
        rw [visitDotted_names sty hx.1.1.2, visitDotted_names sty hy.1.1.2, h1]
      simp only [lS, gS, numsStmt, visitStmt, (visitArgs_params sty hx.1.2).2, (visitArgs_params sty hy.1.2).2,
        numsArgs_names hx.1.1.2, numsArgs_names hy.1.1.2, List.nil_append, ea, ed]
      exact r.mono fun c => (CE.pre _ (ce_drop1 sty c)).post _
  | .funcDef t names (some mn) ps body, y, hx, hy, h => by
    simp only [toS] at h
    obtain ⟨t', names', mo, ps', b', rfl, h1, h2, h3, h4, h5⟩ := toS_inv_func h.symm
    cases mo with
    | none => cases h2
    | some mn' =>
      simp only [Option.map_some, Option.some.injEq] at h2
      simp only [pStmt, Bool.and_eq_true] at hx hy
      have r := cnB sty hic hks body b' hx.2 hy.2 h5.symm
      have ea := visitArgs_params_congr sty hx.1.2 hy.1.2 h3.symm h4.symm
      have ed : visitDotted sty names = visitDotted sty names' := by
        rw [visitDotted_names sty hx.1.1.1.2, visitDotted_names sty hy.1.1.1.2, h1]
      have em := visitExpr_name_congr sty hx.1.1.2 hy.1.1.2 h2.symm
      simp only [lS, gS, numsStmt, visitStmt, (visitArgs_params sty hx.1.2).2, (visitArgs_params sty hy.1.2).2,
        numsArgs_names hx.1.1.1.2, numsArgs_names hy.1.1.1.2, numsExpr_nameNode hx.1.1.2, numsExpr_nameNode hy.1.1.2,
        List.nil_append, ea, ed, em]
      exact r.mono fun c => (CE.pre _ (ce_drop1 sty c)).post _
  | .goto t l, y, hx, hy, h => by
    simp only [toS] at h
    obtain ⟨t', l', rfl, hl⟩ := toS_inv_goto h.symm
    simp only [pStmt] at hx hy
    simp only [lS, gS, numsStmt, visitStmt, numsExpr_nameNode hx, numsExpr_nameNode hy,
      visitExpr_name_congr sty hx hy hl.symm]
    exact Rel2.pure (CE.rfl' _)
  | .label t l, y, hx, hy, h => by
    simp only [toS] at h
    obtain ⟨t', l', rfl, hl⟩ := toS_inv_label h.symm
    simp only [pStmt] at hx hy
    simp only [lS, gS, numsStmt, visitStmt, numsExpr_nameNode hx, numsExpr_nameNode hy,
      visitExpr_name_congr sty hx hy hl.symm]
    exact Rel2.pure (CE.rfl' _)
  | .iff t test tr fl, y, hx, hy, h => by
    simp only [toS] at h
    obtain ⟨t', test', tr', fl', rfl, h1, h2, h3, h4⟩ := toS_inv_iff h.symm
    simp only [pStmt, Bool.and_eq_true, Bool.not_eq_true'] at hx hy
    have r1 := cnE sty hic hks test test' hx.1.1.1 hy.1.1.1 h1.symm
    have r2 := cnB sty hic hks tr tr' hx.1.2 hy.1.2 h2.symm
    have r3 := cnFalse sty hic hks fl fl' hx.2 hy.2 h3.symm h4.symm
    simp only [lS, gS, numsStmt, visitStmt]
    refine ((r1.and r2).and r3).mono fun ⟨⟨c1, c2⟩, c3⟩ => ?_
    have k := ce_slice sty hx.1.1.2 hy.1.1.2 c2 (c3.post [P "end"])
    ce_norm
    ce_auto
  | .iterFor t ns es body, y, hx, hy, h => by
    simp only [toS] at h
    obtain ⟨t', ns', es', b', rfl, h1, h2, h3⟩ := toS_inv_forin h.symm
    simp only [pStmt, Bool.and_eq_true, Bool.not_eq_true'] at hx hy
    have r1 := cnEs sty hic hks es es' hx.1.1.2 hy.1.1.2 h2.symm
    have r2 := cnB sty hic hks body b' hx.2 hy.2 h3.symm
    have en : visitArgs sty ns = visitArgs sty ns' := by
      rw [visitArgs_names sty hx.1.1.1.1.2, visitArgs_names sty hy.1.1.1.1.2, h1]
    simp only [lS, gS, numsStmt, visitStmt, numsArgs_names hx.1.1.1.1.2, numsArgs_names hy.1.1.1.1.2, List.nil_append,
      en]
    refine (r1.and r2).mono fun ⟨c1, c2⟩ => ?_
    have k := ce_blk sty hx.1.2 hy.1.2 c2
    have c1' := c1.1
    ce_norm
    ce_auto
  | .localAssign t names none, y, hx, hy, h => by
    rw [toS_localAssign_none] at h
    obtain ⟨t', names', eo, rfl, h1, h2⟩ := toS_inv_locl h.symm
    cases eo with
    | none =>
      simp only [lS, gS, numsStmt, visitStmt, visitAttNames_eq, h1]
      exact Rel2.pure (CE.rfl' _)
    | some l =>
      have : l = [] := toEs_inv_nil h2
      subst this
      simp [pStmt] at hy
  | .localAssign t names (some []), y, hx, hy, h => by
    simp [pStmt] at hx
  | .localAssign t names (some (e :: r)), y, hx, hy, h => by
    rw [toS_localAssign_some] at h
    obtain ⟨t', names', eo, rfl, h1, h2⟩ := toS_inv_locl h.symm
    cases eo with
    | none => simp only [optEs, toEs] at h2; cases h2
    | some l =>
      simp only [optEs] at h2
      obtain ⟨e', r', rfl, _, _⟩ := toEs_inv_cons (by simpa only [toEs] using h2)
      simp only [pStmt, Bool.and_eq_true] at hx hy
      have r1 := cnEs sty hic hks (e :: r) (e' :: r') hx.2 hy.2 h2.symm
      simp only [lS, gS, numsStmt, visitStmt, visitAttNames_eq, h1]
      exact r1.mono fun c => CE.pre _ (CE.pre _ c.1)
  | .localFunc t n ps body, y, hx, hy, h => by
    simp only [toS] at h
    obtain ⟨t', n', ps', b', rfl, h1, h3, h4, h5⟩ := toS_inv_localfunc h.symm
    simp only [pStmt, Bool.and_eq_true] at hx hy
    have r := cnB sty hic hks body b' hx.2 hy.2 h5.symm
    have ea := visitArgs_params_congr sty hx.1.2 hy.1.2 h3.symm h4.symm
    have en := visitExpr_name_congr sty hx.1.1 hy.1.1 h1.symm
    simp only [lS, gS, numsStmt, visitStmt, (visitArgs_params sty hx.1.2).2, (visitArgs_params sty hy.1.2).2,
      numsExpr_nameNode hx.1.1, numsExpr_nameNode hy.1.1, List.nil_append, ea, en]
    exact r.mono fun c => (CE.pre _ (ce_drop1 sty c)).post _
  | .method t f m args, y, hx, hy, h => by
    simp only [toS] at h
    obtain ⟨t', f', m', args', rfl, hf, hm, ha⟩ := toS_inv_mcall h.symm
    simp only [pStmt, Bool.and_eq_true] at hx hy
    have r1 := cnE sty hic hks f f' hx.1.1 hy.1.1 hf.symm
    have r2 := cnEs sty hic hks args args' hx.2 hy.2 ha.symm
    simp only [lS, gS, numsStmt, visitStmt, numsExpr_nameNode hx.1.2, numsExpr_nameNode hy.1.2, List.append_nil,
      visitExpr_name_congr sty hx.1.2 hy.1.2 hm.symm]
    exact (r1.and r2).mono fun ⟨c1, c2⟩ =>
      (((c1.fmtVar hf.symm).post _).post _).append (CE.fmtFunctionArgs sty ha.symm c2.1)
  | .numFor t v a b none body, y, hx, hy, h => by
    simp only [toS] at h
    obtain ⟨t', v', a', b', so, body', rfl, hv, ha, hb, hso, hbody⟩ := toS_inv_fornum h.symm
    cases so with
    | some s' => cases hso
    | none =>
      simp only [pStmt, Bool.and_eq_true, Bool.not_eq_true', Bool.and_true] at hx hy
      have r1 := cnE sty hic hks a a' hx.1.1.1.2 hy.1.1.1.2 ha.symm
      have r2 := cnE sty hic hks b b' hx.1.1.2 hy.1.1.2 hb.symm
      have r3 := cnB sty hic hks body body' hx.2 hy.2 hbody.symm
      simp only [lS, gS, numsStmt, visitStmt, numsExpr_nameNode hx.1.1.1.1, numsExpr_nameNode hy.1.1.1.1,
        List.nil_append, visitExpr_name_congr sty hx.1.1.1.1 hy.1.1.1.1 hv.symm]
      refine ((r1.and r2).and r3).mono fun ⟨⟨c1, c2⟩, c3⟩ => ?_
      have k := ce_blk sty hx.1.2 hy.1.2 c3
      ce_norm
      ce_auto
  | .numFor t v a b (some s) body, y, hx, hy, h => by
    simp only [toS] at h
    obtain ⟨t', v', a', b', so, body', rfl, hv, ha, hb, hso, hbody⟩ := toS_inv_fornum h.symm
    cases so with
    | none => cases hso
    | some s' =>
      simp only [Option.map_some, Option.some.injEq] at hso
      simp only [pStmt, Bool.and_eq_true, Bool.not_eq_true'] at hx hy
      have r1 := cnE sty hic hks a a' hx.1.1.1.1.2 hy.1.1.1.1.2 ha.symm
      have r2 := cnE sty hic hks b b' hx.1.1.1.2 hy.1.1.1.2 hb.symm
      have r4 := cnE sty hic hks s s' hx.1.1.2 hy.1.1.2 hso.symm
      have r3 := cnB sty hic hks body body' hx.2 hy.2 hbody.symm
      simp only [lS, gS, numsStmt, visitStmt, numsExpr_nameNode hx.1.1.1.1.1, numsExpr_nameNode hy.1.1.1.1.1,
        List.nil_append, visitExpr_name_congr sty hx.1.1.1.1.1 hy.1.1.1.1.1 hv.symm]
      refine (((r1.and r2).and r4).and r3).mono fun ⟨⟨⟨c1, c2⟩, c4⟩, c3⟩ => ?_
      have k := ce_blk sty hx.1.2 hy.1.2 c3
      ce_norm
      ce_auto
  | .repeat t c body, y, hx, hy, h => by
    simp only [toS] at h
    obtain ⟨t', c', b', rfl, hb, hc⟩ := toS_inv_rep h.symm
    simp only [pStmt, Bool.and_eq_true, Bool.not_eq_true'] at hx hy
    have r1 := cnB sty hic hks body b' hx.1.2 hy.1.2 hb.symm
    have r2 := cnE sty hic hks c c' hx.2 hy.2 hc.symm
    simp only [lS, gS, numsStmt, visitStmt]
    refine (r1.and r2).mono fun ⟨c1, c2⟩ => ?_
    have k := ce_slice sty hx.1.1 hy.1.1 c1 (CE.pre [P "until", S .space] c2)
    ce_norm
    simp only [List.cons_append, List.nil_append] at k
    ce_auto
  | .semi t, y, hx, hy, h => by
    simp only [toS] at h
    obtain ⟨t', rfl⟩ := toS_inv_empty h.symm
    simp only [lS, gS, numsStmt, visitStmt]
    exact Rel2.pure (CE.rfl' _)
  | .whl t c body, y, hx, hy, h => by
    simp only [toS] at h
    obtain ⟨t', c', b', rfl, hc, hb⟩ := toS_inv_whl h.symm
    simp only [pStmt, Bool.and_eq_true, Bool.not_eq_true'] at hx hy
    have r1 := cnE sty hic hks c c' hx.1.1 hy.1.1 hc.symm
    have r2 := cnB sty hic hks body b' hx.2 hy.2 hb.symm
    simp only [lS, gS, numsStmt, visitStmt]
    refine (r1.and r2).mono fun ⟨c1, c2⟩ => ?_
    have k := ce_blk sty hx.1.2 hy.1.2 c2
    ce_norm
    ce_auto

theorem cnFalse (sty : Style) (hic : sty.includeComments = false) (hks : sty.keepSemicolon = false) :
    (x : IfFalse) → (y : IfFalse) → pFalse x = true → pFalse y = true → toElifs x = toElifs y →
    toElse x = toElse y →
    Rel2 (lFalse x) (gFalse sty y) (numsFalse x) (numsFalse y) (CE (visitFalse sty x) (visitFalse sty y))
  | .none, y, hx, hy, h1, h2 => by
    simp only [toElifs, toElse] at h1 h2
    have := toFalse_inv_none h1.symm h2.symm
    subst this
    simp only [lFalse, gFalse, numsFalse, visitFalse]
    exact Rel2.pure (CE.rfl' _)
  | .block b, y, hx, hy, h1, h2 => by
    simp only [toElifs, toElse] at h1 h2
    obtain ⟨b', rfl, hb⟩ := toFalse_inv_block h1.symm h2.symm
    simp only [pFalse, Bool.and_eq_true, Bool.not_eq_true'] at hx hy
    have r := cnB sty hic hks b b' hx.2 hy.2 hb.symm
    simp only [lFalse, gFalse, numsFalse, visitFalse]
    refine r.mono fun c => ?_
    have k := ce_slice_nil sty hx.1 hy.1 c
    ce_norm
    ce_auto
  | .elif t test tr fl, y, hx, hy, h1, h2 => by
    simp only [toElifs] at h1
    obtain ⟨t', test', tr', fl', rfl, e1, e2, e3, e4⟩ := toFalse_inv_elif h1.symm
    simp only [toElse] at h2
    simp only [pFalse, Bool.and_eq_true, Bool.not_eq_true'] at hx hy
    have r1 := cnE sty hic hks test test' hx.1.1.1 hy.1.1.1 e1.symm
    have r2 := cnB sty hic hks tr tr' hx.1.2 hy.1.2 e2.symm
    have r3 := cnFalse sty hic hks fl fl' hx.2 hy.2 e3.symm h2
    simp only [lFalse, gFalse, numsFalse, visitFalse]
    refine ((r1.and r2).and r3).mono fun ⟨⟨c1, c2⟩, c3⟩ => ?_
    have k := ce_slice sty hx.1.1.2 hy.1.1.2 c2 c3
    ce_norm
    ce_auto
end

end IdemE
end Tumfl.Theory
