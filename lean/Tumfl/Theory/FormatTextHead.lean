import Tumfl.Theory.FormatTextTr
import Tumfl.Theory.EmitOpsSep
/-!
# The first piece of a printed expression
-/
namespace Tumfl.Theory
open Tumfl Tumfl.Model

/-- first characters that are not `<`, `>`, `/`, `:`, `=` -/
def H5 (c : Char) : Prop := c ≠ '<' ∧ c ≠ '>' ∧ c ≠ '/' ∧ c ≠ ':' ∧ c ≠ '=' ∧ c ≠ '}'

instance (c : Char) : Decidable (H5 c) := by unfold H5; exact inferInstance

theorem hq_of {c : Char} (h : H5 c ∧ c ≠ '-') (k : K) : H5 c ∧ (k = .atom → c ≠ '-') := ⟨h.1, fun _ => h.2⟩

theorem H5.h3 {c : Char} (h : H5 c) : H3 c := ⟨h.1, h.2.1, h.2.2.1, h.2.2.2.2.2⟩

theorem alpha_h5 {c : Char} (h : Spec.isAlpha c = true) : H5 c ∧ c ≠ '-' := by
  refine ⟨⟨?_, ?_, ?_, ?_, ?_, ?_⟩, ?_⟩ <;> (rintro rfl; revert h; decide)

theorem digit_h5 {c : Char} (h : Spec.isDigit c = true) : H5 c ∧ c ≠ '-' := by
  refine ⟨⟨?_, ?_, ?_, ?_, ?_, ?_⟩, ?_⟩ <;> (rintro rfl; revert h; decide)

def firstStr (ps : Pieces) : List Char :=
  match ps with
  | .str s :: _ => s
  | _ => []

@[simp] theorem firstStr_cons_str (s : List Char) (r : Pieces) : firstStr (.str s :: r) = s := rfl
@[simp] theorem firstStr_P (s : String) (r : Pieces) : firstStr (P s :: r) = s.toList := rfl

/-- the shape of the head of a piece list -/
def HeadIs (ps : Pieces) (Q : Char → Prop) : Prop := ∃ c cs tail, ps = .str (c :: cs) :: tail ∧ Q c

theorem HeadIs.append {ps : Pieces} {Q : Char → Prop} (h : HeadIs ps Q) (r : Pieces) : HeadIs (ps ++ r) Q := by
  obtain ⟨c, cs, tail, rfl, hq⟩ := h
  exact ⟨c, cs, tail ++ r, rfl, hq⟩

theorem HeadIs.imp {ps : Pieces} {Q Q' : Char → Prop} (h : HeadIs ps Q) (hi : ∀ c, Q c → Q' c) : HeadIs ps Q' := by
  obtain ⟨c, cs, tail, rfl, hq⟩ := h
  exact ⟨c, cs, tail, rfl, hi c hq⟩

theorem headIs_P (s : String) (r : Pieces) {Q : Char → Prop} {c : Char} {cs : List Char} (hs : s.toList = c :: cs)
    (hq : Q c) : HeadIs (P s :: r) Q := ⟨c, cs, r, by rw [P_eq, hs], hq⟩

theorem headIs_wrapParens (ps : Pieces) {Q : Char → Prop} (hq : Q '(') : HeadIs (wrapParens ps) Q :=
  headIs_P "(" _ (c := '(') (cs := []) (by decide) hq

theorem isVarLike_kind {e : Expr} (h : isVarLike e = true) : e.kind = .atom := by
  cases e <;> simp [isVarLike] at h <;> rfl

theorem nameNodeOK_pExpr {e : Expr} (h : nameNodeOK e = true) : pExpr e = true := by
  obtain ⟨t, n, rfl, hn⟩ := nameNodeOK_iff h
  simpa [pExpr] using hn

/-- the head of a printed expression: not `<`, `>`, `/`, `:`, `=`; and not `-` unless the expression is an operator -/
theorem head_expr (sty : Style) : (e : Expr) → pExpr e = true → NumsCanon (numsExpr e) →
    HeadIs (visitExpr sty e) (fun c => H5 c ∧ (e.kind = .atom → c ≠ '-'))
  | .nil _, _, _ => by
    simp only [visitExpr]; exact headIs_P "nil" _ (c := 'n') (cs := ['i', 'l']) (by decide) (hq_of (by decide) _)
  | .bool _ v, _, _ => by
    simp only [visitExpr]
    cases v
    · exact headIs_P "false" _ (c := 'f') (cs := "alse".toList) (by decide) (hq_of (by decide) _)
    · exact headIs_P "true" _ (c := 't') (cs := "rue".toList) (by decide) (hq_of (by decide) _)
  | .vararg _, _, _ => by
    simp only [visitExpr]; exact headIs_P "..." _ (c := '.') (cs := ['.', '.']) (by decide) (hq_of (by decide) _)
  | .number _ n, hp, hn => by
    simp only [pExpr] at hp
    obtain ⟨_, _, _, _, c, cs, e, hc⟩ := number_tok hp (hn n (by simp [numsExpr]))
    simp only [visitExpr]
    refine ⟨c, cs, [], by rw [e], ?_⟩
    rcases hc with hc | rfl
    · exact ⟨(digit_h5 hc).1, fun _ => (digit_h5 hc).2⟩
    · exact hq_of (by decide) _
  | .string _ v, _, _ => by
    obtain ⟨a, ha, _, _, _, _, c, cs, rfl, hc⟩ := visitString_tok sty v
    simp only [visitExpr]
    refine ⟨c, cs, [], ha, ?_⟩
    rcases hc with rfl | rfl | rfl <;> exact hq_of (by decide) _
  | .func _ ps body, _, _ => by
    simp only [visitExpr, List.cons_append]
    exact headIs_P "function" _ (c := 'f') (cs := "unction".toList) (by decide) (hq_of (by decide) _)
  | .table _ fs, _, _ => by
    simp only [visitExpr]
    exact headIs_P "{" _ (c := '{') (cs := []) (by decide) (hq_of (by decide) _)
  | .binop _ o l r, hp, hn => by
    simp only [pExpr, Bool.and_eq_true] at hp
    simp only [visitExpr]
    refine HeadIs.append (HeadIs.append ?_ _) _
    split
    · exact headIs_wrapParens _ ⟨by decide, by simp [Expr.kind]⟩
    · exact (head_expr sty l hp.1 (by simp only [numsExpr] at hn; exact hn.left)).imp
        fun c h => ⟨h.1, by simp [Expr.kind]⟩
  | .unop _ u e, _, _ => by
    simp only [visitExpr]
    cases u
    · exact headIs_P "-" _ (c := '-') (cs := []) (by decide) ⟨by decide, by simp [Expr.kind]⟩
    · exact headIs_P "#" _ (c := '#') (cs := []) (by decide) ⟨by decide, by simp [Expr.kind]⟩
    · exact headIs_P "~" _ (c := '~') (cs := []) (by decide) ⟨by decide, by simp [Expr.kind]⟩
    · exact headIs_P "not" _ (c := 'n') (cs := ['o', 't']) (by decide) ⟨by decide, by simp [Expr.kind]⟩
  | .name _ n, hp, _ => by
    simp only [pExpr] at hp
    obtain ⟨c, cs, rfl, hc⟩ := word_head (identOK_word hp)
    simp only [visitExpr]
    exact ⟨c, cs, [], rfl, (alpha_h5 hc).1, fun _ => (alpha_h5 hc).2⟩
  | .index _ lhs key, hp, hn => by
    simp only [pExpr, Bool.and_eq_true] at hp
    simp only [visitExpr, fmtVar]
    refine HeadIs.append (HeadIs.append (HeadIs.append ?_ _) _) _
    split
    · rename_i hv
      exact (head_expr sty lhs hp.1 (by simp only [numsExpr] at hn; exact hn.left)).imp
        fun c h => ⟨h.1, fun _ => h.2 (isVarLike_kind hv)⟩
    · exact headIs_wrapParens _ (hq_of (by decide) _)
  | .namedIndex _ lhs nm, hp, hn => by
    simp only [pExpr, Bool.and_eq_true] at hp
    simp only [visitExpr, fmtVar]
    refine HeadIs.append (HeadIs.append ?_ _) _
    split
    · rename_i hv
      exact (head_expr sty lhs hp.1 (by simp only [numsExpr] at hn; exact hn.left)).imp
        fun c h => ⟨h.1, fun _ => h.2 (isVarLike_kind hv)⟩
    · exact headIs_wrapParens _ (hq_of (by decide) _)
  | .call _ f args, hp, hn => by
    simp only [pExpr, Bool.and_eq_true] at hp
    simp only [visitExpr, fmtVar]
    refine HeadIs.append ?_ _
    split
    · rename_i hv
      exact (head_expr sty f hp.1 (by simp only [numsExpr] at hn; exact hn.left)).imp
        fun c h => ⟨h.1, fun _ => h.2 (isVarLike_kind hv)⟩
    · exact headIs_wrapParens _ (hq_of (by decide) _)
  | .method _ f m args, hp, hn => by
    simp only [pExpr, Bool.and_eq_true] at hp
    simp only [visitExpr, fmtVar]
    refine HeadIs.append (HeadIs.append (HeadIs.append ?_ _) _) _
    split
    · rename_i hv
      exact (head_expr sty f hp.1.1 (by simp only [numsExpr] at hn; exact hn.left.left)).imp
        fun c h => ⟨h.1, fun _ => h.2 (isVarLike_kind hv)⟩
    · exact headIs_wrapParens _ (hq_of (by decide) _)

end Tumfl.Theory
