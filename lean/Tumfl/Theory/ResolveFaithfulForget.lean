import Tumfl.Theory.ResolveFaithfulFoundDefs
/-!
# The threaded relation refines the plain one

Forgetting the `found` table: `Inl*F fs sp dir found x x' found' → Inl* fs sp dir x x'`.
-/
namespace Tumfl.Theory
open Tumfl.Model

mutual
theorem InlExprF.forget {fs : FS} {sp : List Path} {dir : Path} {fd fd' : List Path} {e e' : Expr} :
    InlExprF fs sp dir fd e e' fd' → InlExpr fs sp dir e e'
  | .nil t => .nil t
  | .bool t v => .bool t v
  | .vararg t => .vararg t
  | .number t n => .number t n
  | .string t v => .string t v
  | .name t n => .name t n
  | .func h1 h2 => .func h1.forget h2.forget
  | .table h1 => .table h1.forget
  | .binop h1 h2 => .binop h2.forget h1.forget
  | .unop h1 => .unop h1.forget
  | .index h1 h2 => .index h1.forget h2.forget
  | .namedIndex h1 h2 => .namedIndex h1.forget h2.forget
  | .call hn h1 h2 => .call hn h1.forget h2.forget
  | .method h1 h2 h3 => .method h1.forget h2.forget h3.forget
  | .require hr hf hread hp hb => .require hr hf hread hp hb.forget
theorem InlExprsF.forget {fs : FS} {sp : List Path} {dir : Path} {fd fd' : List Path} {es es' : List Expr} :
    InlExprsF fs sp dir fd es es' fd' → InlExprs fs sp dir es es'
  | .nil => .nil
  | .cons h1 h2 => .cons h1.forget h2.forget
theorem InlFieldF.forget {fs : FS} {sp : List Path} {dir : Path} {fd fd' : List Path} {f f' : Field} :
    InlFieldF fs sp dir fd f f' fd' → InlField fs sp dir f f'
  | .explicit h1 h2 => .explicit h1.forget h2.forget
  | .named h1 h2 => .named h1.forget h2.forget
  | .numbered h1 => .numbered h1.forget
theorem InlFieldsF.forget {fs : FS} {sp : List Path} {dir : Path} {fd fd' : List Path} {fds fds' : List Field} :
    InlFieldsF fs sp dir fd fds fds' fd' → InlFields fs sp dir fds fds'
  | .nil => .nil
  | .cons h1 h2 => .cons h1.forget h2.forget
theorem InlOptExprF.forget {fs : FS} {sp : List Path} {dir : Path} {fd fd' : List Path} {o o' : Option Expr} :
    InlOptExprF fs sp dir fd o o' fd' → InlOptExpr fs sp dir o o'
  | .none => .none
  | .some h1 => .some h1.forget
theorem InlOptExprsF.forget {fs : FS} {sp : List Path} {dir : Path} {fd fd' : List Path} {o o' : Option (List Expr)} :
    InlOptExprsF fs sp dir fd o o' fd' → InlOptExprs fs sp dir o o'
  | .none => .none
  | .some h1 => .some h1.forget
theorem InlStmtF.forget {fs : FS} {sp : List Path} {dir : Path} {fd fd' : List Path} {s s' : Stmt} :
    InlStmtF fs sp dir fd s s' fd' → InlStmt fs sp dir s s'
  | .assign h1 h2 => .assign h1.forget h2.forget
  | .block h1 => .block h1.forget
  | .brk t => .brk t
  | .call hn h1 h2 => .call hn h1.forget h2.forget
  | .funcDef h1 h2 h3 h4 => .funcDef h1.forget h2.forget h3.forget h4.forget
  | .goto h1 => .goto h1.forget
  | .label h1 => .label h1.forget
  | .iff h1 h2 h3 => .iff h1.forget h2.forget h3.forget
  | .iterFor h1 h2 h3 => .iterFor h1.forget h2.forget h3.forget
  | .localAssign h1 => .localAssign h1.forget
  | .localFunc h1 h2 h3 => .localFunc h1.forget h2.forget h3.forget
  | .method h1 h2 h3 => .method h1.forget h2.forget h3.forget
  | .numFor h1 h2 h3 h4 h5 => .numFor h1.forget h2.forget h3.forget h4.forget h5.forget
  | .repeat h1 h2 => .repeat h1.forget h2.forget
  | .semi t => .semi t
  | .whl h1 h2 => .whl h1.forget h2.forget
  | .requireInline hr hf _ hread hp hb => .requireInline hr hf hread hp hb.forget
  | .requireDedup hr hf _ => .requireDedup hr hf
theorem InlStmtsF.forget {fs : FS} {sp : List Path} {dir : Path} {fd fd' : List Path} {ss ss' : List Stmt} :
    InlStmtsF fs sp dir fd ss ss' fd' → InlStmts fs sp dir ss ss'
  | .nil => .nil
  | .cons h1 h2 => .cons h1.forget h2.forget
theorem InlFalseF.forget {fs : FS} {sp : List Path} {dir : Path} {fd fd' : List Path} {fl fl' : IfFalse} :
    InlFalseF fs sp dir fd fl fl' fd' → InlFalse fs sp dir fl fl'
  | .none => .none
  | .block h1 => .block h1.forget
  | .elif h1 h2 h3 => .elif h1.forget h2.forget h3.forget
theorem InlBlockF.forget {fs : FS} {sp : List Path} {dir : Path} {fd fd' : List Path} {b b' : Block} :
    InlBlockF fs sp dir fd b b' fd' → InlBlock fs sp dir b b'
  | .mk h1 h2 => .mk h1.forget h2.forget
end

end Tumfl.Theory
