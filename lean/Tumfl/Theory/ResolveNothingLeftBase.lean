import Tumfl.Theory.ResolveSpec
/-!
# Dependency resolver, "nothing left behind": shared vocabulary (trivial error postcondition, induction-hypothesis tactic)
-/
namespace Tumfl.Theory
open Tumfl.Model

/-- error postcondition used here: anything -/
def NLAnyErr : PyErr → Prop := fun _ => True

theorem Spec.trivial {α : Type} (x : RM α) : Spec x (fun _ => True) NLAnyErr :=
  fun _ => ⟨fun _ _ _ => True.intro, fun _ _ => True.intro⟩

/-- a postcondition that does not depend on the result -/
theorem Spec.const {α : Type} (x : RM α) {C : Prop} (h : C) : Spec x (fun _ => C) NLAnyErr :=
  fun _ => ⟨fun _ _ _ => h, fun _ _ => True.intro⟩

set_option hygiene false in
macro "nl_ih" : tactic => `(tactic|
  first | exact ihE _ _ | exact ihEs _ _ | exact ihFs _ _ | exact ihB _ _ | exact ihSs _ _ | exact ihO _ _
        | exact ihS _ _ | exact ihF _ _)

end Tumfl.Theory
