import Tumfl.Theory.FormatText
/-!
# C15: the minified text lexes to a reading of the pieces that `removeSeparators` leaves

`format_lex_rs`: the proof of `format_items_core` replayed for `lineWidth = 0` and `removeUnnecessaryChars = true`, keeping
the intermediate fact that the tokens of the text are a reading (`ReadTks`) of the output `ts1` of `removeSeparators` - so
every `;` of the text that is not a text piece comes from a Statement / Block separator that `removeSeparators` kept.
-/
namespace Tumfl.Theory
open Tumfl Tumfl.Model

theorem format_lex_rs (sty : Style) (hd : DocStyle sty) (b : Block) (hp : Printable b)
    (hn : NumsCanon (numsBlock b))
    (hcm : ∀ s, .str s ∈ emit sty b → isCom s = true → Tidy s)
    (hw : sty.lineWidth = 0) (he : sty.removeUnnecessaryChars = true)
    (text : List Char) (h : format sty b = .ok text) :
    ∃ ts1 ts ks, removeSeparators (emit sty b) = .ok ts1 ∧ Disc DS.init ts1 ∧ Spec.lex text = .ok ts ∧
      ts.map (·.tk) = ks ++ [.eof] ∧ ReadTks ts1 ks := by
  obtain ⟨ts1, ts2, ts3, ts6, ts7, h1, h2, h3, h6, h7, rfl⟩ := format_stages h
  obtain ⟨hcom, hlc, hcok, htidy⟩ := header_facts hd
  rw [he] at h1
  simp only [if_true] at h1
  have hdisc0 : Disc DS.init (emit sty b) := ((disc_append _ _ _).mp (disc_emit sty hd b hp hn)).1
  have hdisc1 : Disc DS.init ts1 := removeSeparators_disc h1 hdisc0
  have hsd : SoftDrop (emit sty b) ts1 := removeSeparators_softDrop h1
  have hlay2 : Lay sty (decide (sty.lineWidth > 0)) none ts1 ts2 := by
    split at h2
    · rename_i hpos
      rw [decide_eq_true hpos]
      exact indentBrackets_lay h2 none
    · cases h2; exact Lay.refl sty _ _ _
  have hlay3 : Lay sty (decide (sty.lineWidth > 0)) none ts1 ts3 := by
    split at h3
    · exact hlay2.insNls (addSpacing_insNl h3)
    · cases h3; exact hlay2
  have hw1 : Weak DS.init := ⟨rfl, by simp [DS.init], .inl rfl⟩
  have hw2 : Weak ⟨none, .sep, .other⟩ := ⟨rfl, by simp, .inr (.inl rfl)⟩
  obtain ⟨L1, htg1, hdl3, hL1⟩ := lay_dl hlay3 ⟨none, .sep, .other⟩ .none none (disc_weak _ _ _ hw1 hw2 hdisc1) trivial
    (fun x hx => by cases hx) (fun bb hb => by cases hb)
  have htc1 : TC ts1 L1 := htg1.toTC
  have hro : removeOrphaned (.str (headerText sty) :: S .newline :: ts3) =
      .str (headerText sty) :: .sep .newline :: removeOrphanedFrom [.sep .newline, .str (headerText sty)] ts3 := by
    have hne : headerText sty ≠ [] := by simp [headerText]
    unfold removeOrphaned
    rw [ro_keep _ (by simpa using hne) (by simp), S, ro_keep _ (by simp) (by simp)]
  have hdl5 : DL sty true .none (removeOrphaned (.str (headerText sty) :: S .newline :: ts3))
      (.str (headerText sty) :: .sep .newline :: L1) := by
    rw [hro]
    refine .com hcom hcok trivial ?_
    rw [hlc]
    exact .nl (ro_dl hdl3 _ (by simp) (fun k r' _ x hx => by cases hx))
  have hh6 : resolveTokensAux sty false (removeOrphaned (.str (headerText sty) :: S .newline :: ts3)) = .ok ts6 := h6
  obtain ⟨is, hch, hren, hrd, hio⟩ := dl_text hd hdl5 .none false 0 false ts6 ts7 (fun d => trivial)
    (fun h => absurd rfl h) hh6 h7
  have hlwf := (chain_lwf is .none hch).1
  have hcomI : comItems is = headerText sty :: comStrs (emit sty b) := by
    rw [hio.2, comStrs_cons_str, hcom, comStrs_cons_sep, comStrs_tc htc1, ← comStrs_softDrop hsd]
    rfl
  have hhard : HardIt is := by
    intro it hit
    cases it with
    | tok a tk => exact hio.1 a tk hit
    | ws w => trivial
    | com c =>
      have hm := mem_comItems hit
      rw [hcomI] at hm
      rcases List.mem_cons.mp hm with e | hm
      · rw [e]; exact htidy
      · obtain ⟨h1, h2⟩ := mem_comStrs hm
        exact hcm c h1 h2
  obtain ⟨is1, hl1, hren1, htk1, hend1, hcom1⟩ := lwf_rsl hlwf hhard
  obtain ⟨core, hlc', hrenc, htkc, _, hcomc, hcore⟩ := lwf_rstrip hl1 hend1
  have hstart : ∃ F2, joinTokens ts7 = headerText sty ++ F2 := by
    rw [hro] at hh6
    obtain ⟨txt, _, _, _, _, r7, _, _, hj, hout⟩ := step_cons hd _ _ _ _ _ _ _ hh6 h7
    simp only [StepOut] at hout
    exact ⟨joinTokens r7, by rw [hj, hout.1]; rfl⟩
  obtain ⟨F2, hF⟩ := hstart
  have hstrip : pyStripAll (((splitOnNewline (joinTokens ts7)).map pyRstrip).intersperse ['\n']).flatten =
      renderItems core ∧ ∃ t, renderItems core = '-' :: t := by
    have e1 : (((splitOnNewline (joinTokens ts7)).map pyRstrip).intersperse ['\n']).flatten = rsl (joinTokens ts7) :=
      rsl_eq_lines _
    rw [e1, hrenc, hren1, hren]
    unfold pyStripAll
    have e2 : rsl (joinTokens ts7) = headerText sty ++ rsl F2 := by
      rw [hF, rsl_append, Rst_tidy _ htidy]
    have e3 : (rsl (joinTokens ts7)).dropWhile pyIsSpace = rsl (joinTokens ts7) := by
      rw [e2]
      have : headerText sty ++ rsl F2 = '-' :: ('-' :: (sty.commentSep ++ "tumfl".toList ++ rsl F2)) := by
        simp [headerText]
      rw [this, List.dropWhile_cons_of_neg (by decide)]
    rw [e3]
    refine ⟨rfl, ?_⟩
    have : rsl (joinTokens ts7) = '-' :: ('-' :: (sty.commentSep ++ "tumfl".toList ++ rsl F2)) := by
      rw [e2]; simp [headerText]
    rw [this, pyRstrip_cons, if_neg (by intro hh; exact absurd hh.2 (by decide))]
    exact ⟨_, rfl⟩
  have hrd1 : ReadTks L1 (itemTks core) := by
    rw [htkc, htk1]
    exact readTks_header hcom hrd
  have hL : L1 = ts1 := hL1 (by simp [hw])
  subst hL
  obtain ⟨t, ht⟩ := hstrip.2
  have htext : pyStripAll (((splitOnNewline (joinTokens ts7)).map pyRstrip).intersperse ['\n']).flatten ++
      (if sty.removeUnnecessaryChars then [] else sty.statementSeparator) = renderItems core := by
    rw [he, hstrip.1]; simp
  have hsh : ∀ r, renderItems core ≠ '#' :: r := by
    intro r e
    rw [ht] at e
    cases e
  obtain ⟨ts, hl1', hl2⟩ := unlex core hlc' hsh
  exact ⟨L1, ts, itemTks core, h1, hdisc1, by rw [htext]; exact hl1', hl2, hrd1⟩

end Tumfl.Theory
