import Tumfl.Theory.ResolveNothingLeftBase
/-!
# Dependency resolver: a successful run was started on a tree without a malformed `require` call
-/
namespace Tumfl.Theory
open Tumfl.Model

/-! ## The input of a successful run contains no malformed `require` call

`badRequire*`: a call of the bare name `require` whose argument list is not exactly one string literal occurs;
it descends exactly where `mentionsRequire*` descends. -/

mutual
def badRequireExpr : Expr → Bool
  | .func _ ps body => badRequireExprs ps || badRequireBlock body
  | .table _ fs => badRequireFields fs
  | .binop _ _ l r => badRequireExpr l || badRequireExpr r
  | .unop _ _ x => badRequireExpr x
  | .index _ l k => badRequireExpr l || badRequireExpr k
  | .namedIndex _ l n => badRequireExpr l || badRequireExpr n
  | .call _ fn args => (isRequireName fn && !isStrLit1 args) || badRequireExpr fn || badRequireExprs args
  | .method _ fn m args => badRequireExpr fn || badRequireExpr m || badRequireExprs args
  | _ => false
def badRequireExprs : List Expr → Bool
  | [] => false
  | e :: es => badRequireExpr e || badRequireExprs es
def badRequireOptExpr : Option Expr → Bool
  | none => false
  | some e => badRequireExpr e
def badRequireOptExprs : Option (List Expr) → Bool
  | none => false
  | some es => badRequireExprs es
def badRequireField : Field → Bool
  | .explicit _ k v => badRequireExpr k || badRequireExpr v
  | .named _ n v => badRequireExpr n || badRequireExpr v
  | .numbered _ v => badRequireExpr v
def badRequireFields : List Field → Bool
  | [] => false
  | fd :: rest => badRequireField fd || badRequireFields rest
def badRequireStmt : Stmt → Bool
  | .assign _ ts es => badRequireExprs ts || badRequireExprs es
  | .block b => badRequireBlock b
  | .call _ fn args => (isRequireName fn && !isStrLit1 args) || badRequireExpr fn || badRequireExprs args
  | .funcDef _ ns m ps body => badRequireExprs ns || badRequireOptExpr m || badRequireExprs ps || badRequireBlock body
  | .goto _ l => badRequireExpr l
  | .label _ n => badRequireExpr n
  | .iff _ c tr fl => badRequireExpr c || badRequireBlock tr || badRequireFalse fl
  | .iterFor _ ns es body => badRequireExprs ns || badRequireExprs es || badRequireBlock body
  | .localAssign _ _ es => badRequireOptExprs es
  | .localFunc _ n ps body => badRequireExpr n || badRequireExprs ps || badRequireBlock body
  | .method _ fn m args => badRequireExpr fn || badRequireExpr m || badRequireExprs args
  | .numFor _ v a b st body => badRequireExpr v || badRequireExpr a || badRequireExpr b || badRequireOptExpr st || badRequireBlock body
  | .repeat _ c body => badRequireExpr c || badRequireBlock body
  | .whl _ c body => badRequireExpr c || badRequireBlock body
  | _ => false
def badRequireStmts : List Stmt → Bool
  | [] => false
  | s :: rest => badRequireStmt s || badRequireStmts rest
def badRequireFalse : IfFalse → Bool
  | .none => false
  | .block b => badRequireBlock b
  | .elif _ c tr fl => badRequireExpr c || badRequireBlock tr || badRequireFalse fl
def badRequireBlock : Block → Bool
  | .mk _ ss rs _ => badRequireStmts ss || badRequireOptExprs rs
end

theorem badRequireExpr_of_isRequireName {fn : Expr} (h : isRequireName fn = true) : badRequireExpr fn = false := by
  cases fn <;> simp_all [isRequireName, badRequireExpr]

set_option hygiene false in
macro "bad_steps" : tactic => `(tactic|
  repeat (first
    | (refine Spec.bind (by nl_ih) ?_; intro _ _)
    | (refine Spec.const _ ?_; simp_all [badRequireExpr, badRequireExprs, badRequireOptExpr,
        badRequireOptExprs, badRequireField, badRequireFields, badRequireStmt, badRequireStmts,
        badRequireFalse, badRequireBlock, isRequireName, isStrLit1, badRequireExpr_of_isRequireName])))

/-- every successful run of a `resolve*` function (any fuel, any initial state) was started on a tree without a
malformed `require` call -/
theorem resolve_ok_input_spec (fs : FS) (sp : List Path) : ∀ f : Nat,
    (∀ dir e, Spec (resolveExpr fs sp f dir e) (fun _ => badRequireExpr e = false) NLAnyErr) ∧
    (∀ dir es, Spec (resolveExprs fs sp f dir es) (fun _ => badRequireExprs es = false) NLAnyErr) ∧
    (∀ dir fds, Spec (resolveFields fs sp f dir fds) (fun _ => badRequireFields fds = false) NLAnyErr) ∧
    (∀ dir b, Spec (resolveBlock fs sp f dir b) (fun _ => badRequireBlock b = false) NLAnyErr) ∧
    (∀ dir ss, Spec (resolveStmts fs sp f dir ss) (fun _ => badRequireStmts ss = false) NLAnyErr) ∧
    (∀ dir o, Spec (resolveOptExpr fs sp f dir o) (fun _ => badRequireOptExpr o = false) NLAnyErr) ∧
    (∀ dir s, Spec (resolveStmt fs sp f dir s) (fun _ => badRequireStmt s = false) NLAnyErr) ∧
    (∀ dir fl, Spec (resolveFalse fs sp f dir fl) (fun _ => badRequireFalse fl = false) NLAnyErr) := by
  intro f
  induction f with
  | zero =>
    refine ⟨?_, ?_, ?_, ?_, ?_, ?_, ?_, ?_⟩ <;> intro dir x
    · rw [resolveExpr]; exact Spec.rfuel True.intro
    · rw [resolveExprs]; exact Spec.rfuel True.intro
    · rw [resolveFields]; exact Spec.rfuel True.intro
    · rw [resolveBlock]; exact Spec.rfuel True.intro
    · rw [resolveStmts]; exact Spec.rfuel True.intro
    · rw [resolveOptExpr]; exact Spec.rfuel True.intro
    · rw [resolveStmt]; exact Spec.rfuel True.intro
    · rw [resolveFalse]; exact Spec.rfuel True.intro
  | succ f ih =>
    obtain ⟨ihE, ihEs, ihFs, ihB, ihSs, ihO, ihS, ihF⟩ := ih
    refine ⟨?_, ?_, ?_, ?_, ?_, ?_, ?_, ?_⟩
    · intro dir e
      cases e <;> simp only [resolveExpr]
      all_goals try (bad_steps; done)
      rename_i t fn args
      cases hreq : isRequireName fn
      · simp only [Bool.false_eq_true, if_false]
        bad_steps
      · simp only [if_true]
        split
        · bad_steps
        · exact Spec.rthrow True.intro
    · intro dir es
      cases es <;> simp only [resolveExprs] <;> bad_steps
    · intro dir fds
      cases fds with
      | nil => simp only [resolveFields]; bad_steps
      | cons fd rest =>
        simp only [resolveFields]
        refine Spec.bind (P := fun _ => badRequireField fd = false) ?_ ?_
        · cases fd <;> simp only <;> bad_steps
        · intro _ _; bad_steps
    · intro dir b
      obtain ⟨t, ss, rs, c⟩ := b
      simp only [resolveBlock]
      refine Spec.bind (by nl_ih) ?_
      intro _ _
      refine Spec.bind (P := fun _ => badRequireOptExprs rs = false) ?_ ?_
      · cases rs <;> simp only <;> bad_steps
      · intro _ _; bad_steps
    · intro dir ss
      cases ss <;> simp only [resolveStmts] <;> bad_steps
    · intro dir o
      cases o <;> simp only [resolveOptExpr] <;> bad_steps
    · intro dir s
      cases s <;> simp only [resolveStmt]
      all_goals try (bad_steps; done)
      · rename_i t fn args
        cases hreq : isRequireName fn
        · simp only [Bool.false_eq_true, if_false]
          bad_steps
        · simp only [if_true]
          split
          · bad_steps
          · exact Spec.rthrow True.intro
      · rename_i t ns es
        refine Spec.bind (P := fun _ => badRequireOptExprs es = false) ?_ ?_
        · cases es <;> simp only <;> bad_steps
        · intro _ _; bad_steps
    · intro dir fl
      cases fl <;> simp only [resolveFalse] <;> bad_steps

end Tumfl.Theory
