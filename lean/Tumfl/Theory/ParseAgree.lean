import Tumfl.Theory.ParseAgreeLex
import Tumfl.Theory.ParserFuel
import Tumfl.Theory.ParseAgreeRefMono
/-!
# The model parser accepts exactly the valid Lua chunks and builds the tree the grammar assigns

Composition of the lexer equivalence (`LexBridge.lean`), the parser simulation over an abstract bridge (`ParserSim.lean`),
the concrete bridge (`ParseAgreeBridge.lean`, `ParseAgreeLex.lean`) and the fuel adequacy of `parseText`
(`ParserFuel.lean`).

* `Spec.Accepts src c` : the reference lexes `src` and, for some fuel, parses the token list as the block `c` followed by
  the end of input.
* `parseText_lexes` : a successful `parseText` has lexed the whole text (`lexText {} src` succeeds).
* `parse_sound`, `parse_complete`, `parse_accept_iff`.
-/
namespace Tumfl.Spec

/-- the mathematical reference: `src` lexes, and for some fuel the token list is the block `c` followed by the end of
input (`Spec.parse` uses the fixed fuel `4 * length + 64`, an executable convenience) -/
def Accepts (src : List Char) (c : Spec.Block) : Prop :=
  ∃ ts f ts', Spec.lex src = .ok ts ∧ Spec.block f ts = .ok (c, ts') ∧ Spec.pk ts' = .eof

theorem accepts_of_parse {src : List Char} {c : Spec.Block} (h : Spec.parse src = .ok c) : Accepts src c := by
  unfold Spec.parse at h
  split at h
  · cases h
  · rename_i ts hl
    split at h
    · cases h
    · rename_i b hp
      cases h
      unfold Spec.parseToks at hp
      split at hp
      · cases hp
      · rename_i b' rest hb
        split at hp
        · rename_i heof
          cases hp
          exact ⟨ts, _, rest, hl, hb, by simpa using heof⟩
        · cases hp

end Tumfl.Spec

namespace Tumfl.Theory
open Tumfl.Model Tumfl.Spec

/-! ## taking `parseText` apart -/

theorem initParser_ok {cfg : LexCfg} {src : List Char} {s0 : PSt} (h : initParser cfg src = .ok s0) :
    ∃ t1 l1 t2 l2, getNextToken cfg (initLex src) = .ok (t1, l1) ∧ getNextToken cfg l1 = .ok (t2, l2) ∧
      s0 = { cur := t1, nxt := t2, lex := l2, hints := [], cfg := cfg } := by
  unfold initParser at h
  split at h
  · cases h
  · rename_i t1 l1 h1
    split at h
    · cases h
    · rename_i t2 l2 h2
      cases h
      exact ⟨t1, l1, t2, l2, h1, h2, rfl⟩

theorem parseTextWith_ok {fuel : Nat} {src : List Char} {b : Model.Block} {hs : List Hint}
    (h : parseTextWith fuel src = .ok (b, hs)) :
    ∃ s0 s1, initParser {} src = .ok s0 ∧
      (do let b ← parseChunk fuel; assertTok .EOF; pure b : PM Model.Block) s0 = .ok (b, s1) ∧ hs = s1.hints := by
  unfold parseTextWith at h
  split at h
  · cases h
  · rename_i s0 h0
    split at h
    · cases h
    · rename_i b' s1 h1
      cases h
      exact ⟨s0, s1, h0, h1, rfl⟩

theorem parseTextWith_of_ok {fuel : Nat} {src : List Char} {b : Model.Block} {s0 s1 : PSt}
    (h0 : initParser {} src = .ok s0)
    (h1 : (do let b ← parseChunk fuel; assertTok .EOF; pure b : PM Model.Block) s0 = .ok (b, s1)) :
    parseTextWith fuel src = .ok (b, s1.hints) := by
  unfold parseTextWith
  rw [h0]
  dsimp only
  rw [h1]

/-! ## a successful parse has lexed the whole text -/

/-- **whole-text lexing from a parse**: the final `_assert(EOF)` means that the lexer has delivered its `EOF` token -/
theorem parseText_lexes {src : List Char} (hcr : NoCR src) {b : Model.Block} {hs : List Hint}
    (h : parseText src = .ok (b, hs)) : ∃ mts, lexText {} src = .ok mts := by
  rw [parseText_eq_parseTextWith] at h
  obtain ⟨s0, s1, h0, hrun, -⟩ := parseTextWith_ok h
  obtain ⟨t1, l1, t2, l2, hg1, hg2, rfl⟩ := initParser_ok h0
  obtain ⟨ts, hts⟩ := exists_inStep src {} rfl rfl (src.length + 1) (initLex src) (by rw [initLex_rest]; omega)
    (runInv_initLex hcr)
  let P : Prop := ∃ F mts, lexAll {} F (initLex src) = .ok mts
  have hfeeds : (doneBridge P).Feeds { cur := t1, nxt := t2, lex := l2, hints := [], cfg := {} } ts := by
    refine ⟨fun toks l' hr => hts _ _ (.cons hg1 (.cons hg2 hr)), ?_⟩
    rintro (hd | hd | hd)
    · exact lexAll_of_step hg1 (Or.inl hd)
    · exact lexAll_of_step hg1 (Or.inr (lexAll_of_step hg2 (Or.inl hd)))
    · exact lexAll_of_step hg1 (Or.inr (lexAll_of_step hg2 (Or.inr hd)))
  obtain ⟨_, _, ts', _, hp, _, hf'⟩ := parseChunk_eof_sound' (doneBridge P) hfeeds hrun
  have hcur : s1.cur.type = .EOF := by
    have := (doneBridge P).cur hf'
    rw [hp] at this
    exact this
  obtain ⟨F, mts, hl⟩ : P := hf'.2 (Or.inl hcur)
  exact ⟨mts, lexAll_any_fuel {} F _ mts hl _ (by rw [initLex_rest]; omega)⟩

/-! ## the initial parser state is fed by the reference token list -/

theorem initParser_feeds {src : List Char} {mts : List Token} {ts : List Tok} {s0 : PSt}
    (hl : lexText {} src = .ok mts) (hfa : Fa2 (fun m x => TkRel m x.tk) mts ts) (h0 : initParser {} src = .ok s0) :
    lexBridge.Feeds s0 ts := by
  obtain ⟨t1, l1, t2, l2, hg1, hg2, rfl⟩ := initParser_ok h0
  unfold lexText at hl
  refine ⟨fun toks l' hr => inStep_of_lexAll _ _ _ _ _ _ hl hfa (.cons hg1 (.cons hg2 hr)), ?_⟩
  exact ((nf_of_lexAll _ _ _ hl).step hg1).step hg2

theorem initParser_of_lexText {src : List Char} {mts : List Token} (hl : lexText {} src = .ok mts) :
    ∃ s0, initParser {} src = .ok s0 := by
  unfold lexText at hl
  have hnf := nf_of_lexAll _ _ _ hl
  obtain ⟨t1, l1, hg1⟩ := hnf.now
  obtain ⟨t2, l2, hg2⟩ := (hnf.step hg1).now
  refine ⟨{ cur := t1, nxt := t2, lex := l2, hints := [], cfg := {} }, ?_⟩
  unfold initParser
  rw [hg1]
  dsimp only
  rw [hg2]

/-! ## the top-level theorems -/

/-- **soundness**: if the model parser accepts a text (without carriage returns), the reference accepts it, with a
related tree -/
theorem parse_sound (src : List Char) (hcr : NoCR src) (b : Model.Block) (hs : List Hint)
    (h : parseText src = .ok (b, hs)) : ∃ c, Spec.Accepts src c ∧ BlockRel b c := by
  obtain ⟨mts, hl⟩ := parseText_lexes hcr h
  obtain ⟨ts, hlex, hfa⟩ := lexText_sound hcr hl
  rw [parseText_eq_parseTextWith] at h
  obtain ⟨s0, s1, h0, hrun, -⟩ := parseTextWith_ok h
  obtain ⟨f', c, ts', hb, hp, hrel, -⟩ := parseChunk_eof_sound' lexBridge (initParser_feeds hl hfa h0) hrun
  exact ⟨c, ⟨ts, f', ts', hlex, hb, hp⟩, hrel⟩

/-- **completeness**: if the reference accepts a text whose tokens are in the scope of the Python lexer, the model parser
accepts it, with a related tree -/
theorem parse_complete (src : List Char) (c : Spec.Block) (h : Spec.Accepts src c)
    (hin : ∀ ts, Spec.lex src = .ok ts → ∀ x ∈ ts, InScopeTk x.tk) :
    ∃ b hs, parseText src = .ok (b, hs) ∧ BlockRel b c := by
  obtain ⟨ts, f, ts', hlex, hb, hp⟩ := h
  obtain ⟨mts, hl, hfa⟩ := lexText_complete hlex (hin ts hlex)
  obtain ⟨s0, h0⟩ := initParser_of_lexText hl
  obtain ⟨f0, b, s', hrun, hrel, -⟩ := parseChunk_eof_complete lexBridge_complete (initParser_feeds hl hfa h0) hb hp
  refine ⟨b, s'.hints, ?_, hrel⟩
  rw [parseText_eq_any_fuel src (max f0 (5 * src.length + 15)) (Nat.le_max_right _ _)]
  exact parseTextWith_of_ok h0 (hrun _ (Nat.le_max_left _ _))

/-- **acceptance coincides** -/
theorem parse_accept_iff (src : List Char) (hcr : NoCR src)
    (hin : ∀ ts, Spec.lex src = .ok ts → ∀ x ∈ ts, InScopeTk x.tk) :
    (∃ b hs, parseText src = .ok (b, hs)) ↔ (∃ c, Spec.Accepts src c) := by
  constructor
  · rintro ⟨b, hs, h⟩
    obtain ⟨c, hc, _⟩ := parse_sound src hcr b hs h
    exact ⟨c, hc⟩
  · rintro ⟨c, hc⟩
    obtain ⟨b, hs, h, _⟩ := parse_complete src c hc hin
    exact ⟨b, hs, h⟩

/-- in terms of the executable reference `Spec.parse` (fixed fuel): what it accepts, the model accepts -/
theorem parse_complete' (src : List Char) (c : Spec.Block) (h : Spec.parse src = .ok c)
    (hin : ∀ ts, Spec.lex src = .ok ts → ∀ x ∈ ts, InScopeTk x.tk) :
    ∃ b hs, parseText src = .ok (b, hs) ∧ BlockRel b c :=
  parse_complete src c (accepts_of_parse h) hin

/-! ## `Spec.Accepts` against the executable `Spec.parse` (fixed fuel `4 * length + 64`) -/

theorem parse_eq_of_block {src : List Char} {ts ts' : List Tok} {c : Spec.Block} (hl : Spec.lex src = .ok ts)
    (hb : Spec.block (4 * ts.length + 64) ts = .ok (c, ts')) (hp : pk ts' = .eof) : Spec.parse src = .ok c := by
  unfold Spec.parse
  rw [hl]
  dsimp only
  unfold Spec.parseToks
  rw [hb]
  simp [hp]

/-- the acceptance tree is unique -/
theorem accepts_det {src : List Char} {c c' : Spec.Block} (h : Spec.Accepts src c) (h' : Spec.Accepts src c') : c = c' := by
  obtain ⟨ts, f, ts1, hl, hb, _⟩ := h
  obtain ⟨ts2, g, ts3, hl', hb', _⟩ := h'
  rw [hl] at hl'
  cases hl'
  have := block_stable ts (f := f) (g := g) (by rw [hb]; intro h; cases h) (by rw [hb']; intro h; cases h)
  rw [hb, hb'] at this
  cases this
  rfl

/-- acceptance with a fuel not above the fixed fuel of `Spec.parse` is acceptance by `Spec.parse` -/
theorem parse_of_accepts_le {src : List Char} {ts ts' : List Tok} {f : Nat} {c : Spec.Block} (hl : Spec.lex src = .ok ts)
    (hb : Spec.block f ts = .ok (c, ts')) (hp : pk ts' = .eof) (hf : f ≤ 4 * ts.length + 64) :
    Spec.parse src = .ok c := by
  refine parse_eq_of_block hl ?_ hp
  rw [block_mono_le hf ts (by rw [hb]; intro h; cases h), hb]

/-- whenever the fixed fuel of `Spec.parse` does not run dry, `Spec.parse` decides `Spec.Accepts` -/
theorem parse_of_accepts {src : List Char} {c : Spec.Block} (h : Spec.Accepts src c)
    (hfuel : ∀ ts, Spec.lex src = .ok ts → Spec.block (4 * ts.length + 64) ts ≠ .error fuelErr) :
    Spec.parse src = .ok c := by
  obtain ⟨ts, f, ts', hl, hb, hp⟩ := h
  refine parse_eq_of_block hl ?_ hp
  rw [← block_stable ts (by rw [hb]; intro h; cases h) (hfuel ts hl), hb]

/-- a lexical error of `Spec.parse`, or a syntax error other than running out of fuel, means that no tree is accepted -/
theorem not_accepts_of_parse_error {src : List Char} {e : SpecErr} (h : Spec.parse src = .error e)
    (hne : e ≠ .parse fuelErr.1 fuelErr.2) : ¬ ∃ c, Spec.Accepts src c := by
  rintro ⟨c, hc⟩
  have := parse_of_accepts hc ?_
  · rw [this] at h; cases h
  · intro ts hl hfe
    apply hne
    unfold Spec.parse at h
    rw [hl] at h
    dsimp only at h
    unfold Spec.parseToks at h
    rw [hfe] at h
    cases h
    rfl

end Tumfl.Theory
