import Tumfl.Theory.EmitIBase
import Tumfl.Theory.ReadTks
/-!
# Relating piece lists that differ in the position of a `;` guard relative to comment pieces

* `RdSub a b`: every token reading of `a` is a reading of `b`; `SRel` adds "same leading token" (`leadTok`, what the repaired
  guard looks at), `ERel` adds "same first piece" (what `fmtKey` looks at).  All three are congruences for `++`.
* `rdSub_swap`: a `;` piece in front of comment pieces reads like the same pieces followed by the `;`.
* `VSK`: the statement loop of `visitStmtsI` with a continuation in place of the last statement separator (so that
  `visit_Chunk`'s slice, which drops that separator, is expressible).
-/
namespace Tumfl.Theory
open Tumfl.Model

/-! ## Readings of appended lists -/

theorem readTks_append {a b : Pieces} {ka kb : List Spec.Tk} (ha : ReadTks a ka) (hb : ReadTks b kb) :
    ReadTks (a ++ b) (ka ++ kb) := by
  induction ha with
  | nil => simpa using hb
  | semi hp _ ih => exact ReadTks.semi hp ih
  | skip hp _ ih => exact ReadTks.skip hp ih
  | other h1 h2 _ ih => rw [List.cons_append, List.append_assoc]; exact ReadTks.other h1 h2 ih

theorem readTks_split : ∀ {a b : Pieces} {ks : List Spec.Tk}, ReadTks (a ++ b) ks →
    ∃ ka kb, ks = ka ++ kb ∧ ReadTks a ka ∧ ReadTks b kb
  | [], b, ks, h => ⟨[], ks, rfl, .nil, h⟩
  | p :: a, b, ks, h => by
    rw [List.cons_append] at h
    cases h with
    | semi hp h' =>
      obtain ⟨ka, kb, he, h1, h2⟩ := readTks_split h'
      exact ⟨_ :: ka, kb, by rw [he]; rfl, .semi hp h1, h2⟩
    | skip hp h' =>
      obtain ⟨ka, kb, he, h1, h2⟩ := readTks_split h'
      exact ⟨ka, kb, he, .skip hp h1, h2⟩
    | other h1 h2 h' =>
      obtain ⟨ka, kb, he, h3, h4⟩ := readTks_split h'
      exact ⟨_ ++ ka, kb, by rw [he, List.append_assoc], .other h1 h2 h3, h4⟩

/-- every reading of `a` is a reading of `b` -/
def RdSub (a b : Pieces) : Prop := ∀ ks, ReadTks a ks → ReadTks b ks

theorem RdSub.refl (a : Pieces) : RdSub a a := fun _ h => h
theorem RdSub.trans {a b c : Pieces} (h1 : RdSub a b) (h2 : RdSub b c) : RdSub a c := fun ks h => h2 ks (h1 ks h)
theorem RdSub.append {a a' b b' : Pieces} (h1 : RdSub a a') (h2 : RdSub b b') : RdSub (a ++ b) (a' ++ b') := by
  intro ks h
  obtain ⟨ka, kb, he, ha, hb⟩ := readTks_split h
  rw [he]
  exact readTks_append (h1 _ ha) (h2 _ hb)

/-! ## Comment-like pieces -/

/-- the pieces `formatComment` produces: a comment text, a statement separator, a newline separator -/
def commentLike (p : Piece) : Prop :=
  p = .sep .statement ∨ p = .sep .newline ∨ ∃ s, p = .str s ∧ startsWith s ['-', '-'] = true

theorem commentLike_stmtCommentPieces (sty : Style) (s : Stmt) : ∀ p ∈ stmtCommentPieces sty s, commentLike p := by
  unfold stmtCommentPieces
  split
  · intro p hp
    rw [List.mem_flatMap] at hp
    obtain ⟨c, _, hc⟩ := hp
    unfold formatComment at hc
    simp only at hc
    split at hc
    · simp only [List.mem_cons, List.not_mem_nil, or_false] at hc
      rcases hc with rfl | rfl
      · exact Or.inr (Or.inr ⟨_, rfl, by simp [startsWith, isPrefix]⟩)
      · exact Or.inl rfl
    · simp only [List.mem_cons, List.not_mem_nil, or_false] at hc
      rcases hc with rfl | rfl
      · exact Or.inr (Or.inr ⟨_, rfl, by simp [startsWith, isPrefix]⟩)
      · exact Or.inr (Or.inl rfl)
  · intro p hp; cases hp

theorem leadTok_commentLike : ∀ {cps : Pieces}, (∀ p ∈ cps, commentLike p) → ∀ r, leadTok (cps ++ r) = leadTok r
  | [], _, r => rfl
  | p :: cps, h, r => by
    have ih := leadTok_commentLike (cps := cps) (fun q hq => h q (List.mem_cons_of_mem _ hq)) r
    rcases h p (List.mem_cons_self ..) with rfl | rfl | ⟨s, rfl, hs⟩
    · exact ih
    · exact ih
    · rw [List.cons_append, leadTok_comment hs]; exact ih

theorem pieceTks_semi : pieceTks false (P ";") = [Spec.Tk.sym ";"] := by decide

theorem readTks_push_semi : ∀ {cps : Pieces}, (∀ p ∈ cps, commentLike p) → ∀ {Z : Pieces} {ks : List Spec.Tk},
    ReadTks (cps ++ Z) ks → ReadTks (cps ++ P ";" :: Z) (.sym ";" :: ks)
  | [], _, Z, ks, h => by
    have := ReadTks.other (p := P ";") (by simp [P]) (by simp [P]) h
    rw [pieceTks_semi] at this
    exact this
  | p :: cps, hc, Z, ks, h => by
    have hc' : ∀ q ∈ cps, commentLike q := fun q hq => hc q (List.mem_cons_of_mem _ hq)
    rw [List.cons_append] at h ⊢
    cases h with
    | semi hp h' => exact ReadTks.semi hp (readTks_push_semi hc' h')
    | skip hp h' => exact ReadTks.skip hp (readTks_push_semi hc' h')
    | other h1 h2 h' =>
      have hnil : pieceTks false p = [] := by
        rcases hc p (List.mem_cons_self ..) with rfl | rfl | ⟨s, rfl, hs⟩
        · exact absurd rfl h1
        · rfl
        · simp [pieceTks, strTk, hs]
      have := ReadTks.other h1 h2 (readTks_push_semi hc' h')
      rw [hnil, List.nil_append] at this ⊢
      exact this

/-- **the swap**: a `;` piece in front of comment pieces reads like the comment pieces followed by the `;` -/
theorem rdSub_swap {cps : Pieces} (hc : ∀ p ∈ cps, commentLike p) (Z : Pieces) :
    RdSub (P ";" :: (cps ++ Z)) (cps ++ P ";" :: Z) := by
  intro ks h
  cases h with
  | semi hp _ => rcases hp with hp | hp <;> cases hp
  | skip hp _ => rcases hp with hp | hp <;> cases hp
  | other _ _ h' =>
    rw [pieceTks_semi]
    exact readTks_push_semi hc h'

/-! ## The relations -/

structure SRel (a b : Pieces) : Prop where
  lead : leadTok a = leadTok b
  rd : RdSub a b

structure ERel (a b : Pieces) : Prop where
  head : a.head? = b.head?
  lead : leadTok a = leadTok b
  rd : RdSub a b

theorem SRel.refl (a : Pieces) : SRel a a := ⟨rfl, RdSub.refl a⟩
theorem ERel.refl (a : Pieces) : ERel a a := ⟨rfl, rfl, RdSub.refl a⟩
theorem ERel.toSRel {a b : Pieces} (h : ERel a b) : SRel a b := ⟨h.lead, h.rd⟩
theorem SRel.trans {a b c : Pieces} (h1 : SRel a b) (h2 : SRel b c) : SRel a c := ⟨h1.lead.trans h2.lead, h1.rd.trans h2.rd⟩
theorem SRel.of_eq {a b : Pieces} (h : a = b) : SRel a b := h ▸ SRel.refl a

theorem SRel.append {a a' b b' : Pieces} (h1 : SRel a a') (h2 : SRel b b') : SRel (a ++ b) (a' ++ b') :=
  ⟨by rw [leadTok_append, leadTok_append, h1.lead, h2.lead], h1.rd.append h2.rd⟩

theorem SRel.cons (p : Piece) {a a' : Pieces} (h : SRel a a') : SRel (p :: a) (p :: a') :=
  SRel.append (SRel.refl [p]) h

theorem ERel.append {a a' b b' : Pieces} (h1 : ERel a a') (h2 : ERel b b') : ERel (a ++ b) (a' ++ b') :=
  ⟨by rw [List.head?_append, List.head?_append, h1.head, h2.head],
   by rw [leadTok_append, leadTok_append, h1.lead, h2.lead], h1.rd.append h2.rd⟩

theorem ERel.cons (p : Piece) {a a' : Pieces} (h : ERel a a') : ERel (p :: a) (p :: a') :=
  ERel.append (ERel.refl [p]) h

/-- behind a common first piece "same leading token and readings" is enough -/
theorem ERel.cons_of_SRel (p : Piece) {a a' : Pieces} (h : SRel a a') : ERel (p :: a) (p :: a') :=
  ⟨rfl, (SRel.cons p h).lead, (SRel.cons p h).rd⟩

theorem ERel.ite (c : Prop) [Decidable c] {a a' b b' : Pieces} (h1 : ERel a a') (h2 : ERel b b') :
    ERel (if c then a else b) (if c then a' else b') := by
  split <;> assumption

theorem SRel.ite (c : Prop) [Decidable c] {a a' b b' : Pieces} (h1 : SRel a a') (h2 : SRel b b') :
    SRel (if c then a else b) (if c then a' else b') := by
  split <;> assumption

theorem ERel.wrapParens {a a' : Pieces} (h : ERel a a') : ERel (wrapParens a) (wrapParens a') := by
  unfold Model.wrapParens
  exact ERel.cons _ (ERel.append h (ERel.refl _))

theorem ERel.fmtVar (e : Expr) {a a' : Pieces} (h : ERel a a') : ERel (fmtVar e a) (fmtVar e a') := by
  unfold Model.fmtVar
  exact ERel.ite _ h h.wrapParens

theorem ERel.fmtKey {a a' : Pieces} (h : ERel a a') : ERel (fmtKey a) (fmtKey a') := by
  cases a with
  | nil =>
    cases a' with
    | nil => exact ERel.refl _
    | cons p' r' => have := h.head; simp at this
  | cons p r =>
    cases a' with
    | nil => have := h.head; simp at this
    | cons p' r' =>
      have hp : p = p' := by have := h.head; simpa using this
      subst hp
      cases p with
      | sep x => exact h
      | str s =>
        simp only [Model.fmtKey]
        split
        · exact ERel.cons _ h
        · exact h

theorem ERel.fmtFunctionArgs (sty : Style) (args : List Expr) {a a' : Pieces} (h : ERel a a') :
    ERel (fmtFunctionArgs sty args a) (fmtFunctionArgs sty args a') := by
  unfold Model.fmtFunctionArgs
  split
  · exact ERel.ite _ h h.wrapParens
  · exact ERel.ite _ h h.wrapParens
  · exact h.wrapParens

end Tumfl.Theory
