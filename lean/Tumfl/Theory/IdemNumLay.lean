import Tumfl.Theory.IdemLex
import Tumfl.Theory.IdemNumDefs
/-!
# C15, numerals: the numeral token items of the layout of the formatted text are the numeral pieces

`format_lex_rs_num`: `format_lex_rs` stopped before `unlex`, returning the layout `core` of the text, with the additional
fact that the texts of the numeral token items of `core` are, in order, the numeral pieces that `removeSeparators` leaves.
The three stage theorems `dl_text`, `lwf_rsl`, `lwf_rstrip` are replayed with one more conjunct each.
-/
namespace Tumfl.Theory.NumLay
open Tumfl Tumfl.Spec Tumfl.Model

/-! ## numeral items / numeral pieces -/

theorem strTk_com {s : List Char} (h : isCom s = true) : strTk s = [] := by
  unfold strTk
  unfold isCom at h
  rw [if_pos h]

theorem numItems_ws (w : List Char) (is : List LItem) : numItems (.ws w :: is) = numItems is := rfl
theorem numItems_com (c : List Char) (is : List LItem) : numItems (.com c :: is) = numItems is := rfl
theorem numItems_num (a : List Char) (m : Numeral) (is : List LItem) :
    numItems (.tok a (.num m) :: is) = a :: numItems is := rfl
theorem numItems_nn {a : List Char} {tk : Tk} (hn : ∀ m, tk ≠ .num m) (is : List LItem) :
    numItems (.tok a tk :: is) = numItems is := by
  cases tk with
  | num m => exact absurd rfl (hn m)
  | _ => rfl

theorem numStrP_sep (k : Sep) (L : Pieces) : numStrP (.sep k :: L) = numStrP L := rfl
theorem numStrP_str (s : List Char) (L : Pieces) :
    numStrP (.str s :: L) = if isNumTk (strTk s) then s :: numStrP L else numStrP L := by
  unfold numStrP
  rw [List.filterMap_cons]
  simp only [numPiece]
  by_cases h : isNumTk (strTk s) = true
  · rw [if_pos h, if_pos h]
  · rw [if_neg h, if_neg h]

theorem numStrP_com {s : List Char} (h : isCom s = true) (L : Pieces) : numStrP (.str s :: L) = numStrP L := by
  rw [numStrP_str, strTk_com h]; rfl

theorem numItems_append (a b : List LItem) : numItems (a ++ b) = numItems a ++ numItems b := by
  unfold numItems; rw [List.filterMap_append]

theorem mem_numItems {is : List LItem} {a : List Char} : a ∈ numItems is ↔ ∃ m, LItem.tok a (.num m) ∈ is := by
  constructor
  · intro h
    obtain ⟨it, hit, e⟩ := List.mem_filterMap.mp h
    cases it with
    | ws w => cases e
    | com c => cases e
    | tok x tk =>
      cases tk with
      | num m => simp only [numItem, Option.some.injEq] at e; subst e; exact ⟨m, hit⟩
      | _ => cases e
  · rintro ⟨m, hm⟩
    exact List.mem_filterMap.mpr ⟨_, hm, rfl⟩

theorem mem_numStrP {L : Pieces} {a : List Char} (h : a ∈ numStrP L) : .str a ∈ L ∧ isNumTk (strTk a) = true := by
  obtain ⟨p, hp, e⟩ := List.mem_filterMap.mp h
  cases p with
  | sep k => cases e
  | str s =>
    simp only [numPiece] at e
    split at e
    · rename_i hn
      cases e
      exact ⟨hp, hn⟩
    · cases e

theorem disc_goodTok : ∀ (ps : Pieces) (σ : DS), Disc σ ps → ∀ s, .str s ∈ ps → isCom s = false → GoodTok s
  | [], _, _, s, hs, _ => by cases hs
  | p :: r, σ, hd, s, hs, hc => by
    obtain ⟨hok, hr⟩ := hd
    rcases List.mem_cons.mp hs with e | hs
    · subst e
      simp only [okPiece, hc, Bool.false_eq_true, if_false] at hok
      exact hok.2.1
    · exact disc_goodTok r _ hr s hs hc

/-- the numeral pieces of disciplined pieces are tidy -/
theorem numStrP_tidy {σ : DS} {ps : Pieces} (hd : Disc σ ps) {a : List Char} (h : a ∈ numStrP ps) : Tidy a := by
  obtain ⟨hm, hn⟩ := mem_numStrP h
  have hc : isCom a = false := by
    cases hc : isCom a with
    | false => rfl
    | true => rw [strTk_com hc] at hn; cases hn
  exact (disc_goodTok ps σ hd a hm hc).2.2

/-! ## the items of the `DL` derivation -/

/-- `ItemsOK`, and the numeral token items are the numeral pieces -/
def IOK (L : Pieces) (is : List LItem) : Prop := ItemsOK L is ∧ numItems is = numStrP L

theorem iok_nil : IOK [] [] := ⟨itemsOK_nil, rfl⟩

theorem iok_sep {L : Pieces} {is : List LItem} (k : Sep) (h : IOK L is) : IOK (.sep k :: L) is :=
  ⟨itemsOK_sep k h.1, by rw [numStrP_sep]; exact h.2⟩

theorem iok_ws {L : Pieces} {is : List LItem} (w : List Char) (h : IOK L is) : IOK L (.ws w :: is) :=
  ⟨itemsOK_ws w h.1, by rw [numItems_ws]; exact h.2⟩

theorem iok_tok_nn {L : Pieces} {is : List LItem} {a : List Char} {tk : Tk} (ha : HardTok a tk)
    (hn : ∀ m, tk ≠ .num m) (h : IOK L is) : IOK L (.tok a tk :: is) :=
  ⟨itemsOK_tok ha h.1, by rw [numItems_nn hn]; exact h.2⟩

theorem iok_tokstr {L : Pieces} {is : List LItem} {s : List Char} {tk : Tk} (hc : isCom s = false)
    (hst : strTk s = [tk]) (ha : HardTok s tk) (h : IOK L is) : IOK (.str s :: L) (.tok s tk :: is) := by
  refine ⟨itemsOK_tok ha (itemsOK_str hc h.1), ?_⟩
  rw [numStrP_str, hst]
  cases tk with
  | num m => rw [numItems_num, h.2]; rfl
  | _ => rw [numItems_nn (by intro m hm; cases hm), h.2]; rfl

theorem iok_grp {L : Pieces} {is : List LItem} {q a : List Char} {tk : Tk} (hc : isCom q = false)
    (hst : strTk q = [tk]) (hn : ∀ m, tk ≠ .num m) (ha : HardTok a tk) (h : IOK L is) :
    IOK (.str q :: L) (.tok a tk :: is) := by
  refine ⟨itemsOK_tok ha (itemsOK_str hc h.1), ?_⟩
  rw [numStrP_str, hst, numItems_nn hn, h.2]
  cases tk with
  | num m => exact absurd rfl (hn m)
  | _ => rfl

theorem iok_com {L : Pieces} {is : List LItem} {c : List Char} (hc : isCom c = true) (h : IOK L is) :
    IOK (.str c :: L) (.com c :: is) :=
  ⟨itemsOK_com hc h.1, by rw [numItems_com, numStrP_com hc]; exact h.2⟩

/-- a Newline separator (kept or inserted) -/
theorem nl_items_num {sty : Style} (hd : DocStyle sty) {pend : Pend} {pc : PendC} {blank dirty : Bool} {level : Int}
    {r ts6 ts7 L : Pieces} (hcomp : Compat pend pc) (hcoup : Coup pend blank dirty)
    (h6 : resolveTokensAux sty blank (.sep .newline :: r) = .ok ts6)
    (h7 : indentLoop sty.indentation ts6 level dirty = .ok ts7)
    (ih : ∀ (pc : PendC) (blank : Bool) (level : Int) (dirty : Bool) (ts6 ts7 : Pieces), Compat .none pc →
      Coup .none blank dirty → resolveTokensAux sty blank r = .ok ts6 →
      indentLoop sty.indentation ts6 level dirty = .ok ts7 →
      ∃ is, ChainOK pc is ∧ renderItems is = joinTokens ts7 ∧ ReadTks L (itemTks is) ∧ IOK L is) :
    ∃ is, ChainOK pc is ∧ renderItems is = joinTokens ts7 ∧ ReadTks L (itemTks is) ∧ IOK L is := by
  obtain ⟨txt, b1, l1, d1, r6, r7, hr6, hr7, hj, hout⟩ := step_cons hd _ _ _ _ _ _ _ h6 h7
  obtain ⟨p1, p2, p3⟩ := pre_ok hd level hcomp hcoup
  simp only [StepOut] at hout
  have htxt : (∀ c ∈ txt, isLayoutSpace c = true) ∧ (∀ d t, txt = d :: t → FollC pc d) ∧ Compat .none (nextC pc txt) := by
    cases blank with
    | true =>
      simp only [if_true] at hout
      obtain ⟨rfl, _, _, _⟩ := hout
      have hpn : pend = .none := by
        cases pend with
        | none => rfl
        | _ => exact absurd (hcoup (by simp)).1 (by simp)
      subst hpn
      refine ⟨p1, p2, ?_⟩
      unfold nextC
      split
      · exact hcomp
      · intro d; trivial
    | false =>
      simp only [Bool.false_eq_true, if_false] at hout
      obtain ⟨rfl, _, _, _⟩ := hout
      refine ⟨?_, ?_, ?_⟩
      · intro c hc
        rcases List.mem_append.mp hc with h | h
        · exact p1 c h
        · simp only [List.mem_singleton] at h; subst h; decide
      · intro d t e
        by_cases hps : pend = .short
        · subst hps
          rw [p3 (by simp)] at e
          simp only [List.nil_append, List.cons.injEq] at e
          rw [hcomp, ← e.1]
          rfl
        · have hdl : isLayoutSpace d = true := by
            cases hpre : indPre sty.indentation level dirty with
            | nil => rw [hpre] at e; simp at e; rw [← e.1]; decide
            | cons a b => rw [hpre] at e; simp at e; rw [← e.1]; exact p1 a (by rw [hpre]; simp)
          exact follC_inert hcomp hps (inert_of_layout hdl)
      · have : nextC pc (indPre sty.indentation level dirty ++ ['\n']) = .none := by simp [nextC]
        rw [this]; intro d; trivial
  have hl : l1 = level := by
    cases blank
    · simp only [Bool.false_eq_true, if_false] at hout; exact hout.2.2.1
    · simp only [if_true] at hout; exact hout.2.2.1
  subst hl
  obtain ⟨is, hch, hren, hrd, hio⟩ := ih (nextC pc txt) b1 l1 d1 r6 r7 htxt.2.2 (fun h => absurd rfl h) hr6 hr7
  exact ⟨.ws txt :: is, ⟨htxt.1, htxt.2.1, hch⟩, by simp only [render_cons, LItem.text, hren, hj],
    by simpa [itemTks, LItem.tks] using hrd, iok_ws _ hio⟩

theorem dl_text_num {sty : Style} (hd : DocStyle sty) {pend : Pend} {ts5 L : Pieces} (h : DL sty true pend ts5 L) :
    ∀ (pc : PendC) (blank : Bool) (level : Int) (dirty : Bool) (ts6 ts7 : Pieces), Compat pend pc →
      Coup pend blank dirty → resolveTokensAux sty blank ts5 = .ok ts6 →
      indentLoop sty.indentation ts6 level dirty = .ok ts7 →
      ∃ is, ChainOK pc is ∧ renderItems is = joinTokens ts7 ∧ ReadTks L (itemTks is) ∧ IOK L is := by
  induction h with
  | nil =>
    intro pc blank level dirty ts6 ts7 _ _ h6 h7
    rw [resolveTokensAux] at h6; cases h6
    rw [indentLoop] at h7
    split at h7
    · cases h7; exact ⟨[], trivial, rfl, .nil, iok_nil⟩
    · cases h7
  | @tok pend s r L hc hg hf _ ih =>
    intro pc blank level dirty ts6 ts7 hcomp hcoup h6 h7
    obtain ⟨txt, b1, l1, d1, r6, r7, hr6, hr7, hj, hout⟩ := step_cons hd _ _ _ _ _ _ _ h6 h7
    simp only [StepOut] at hout
    obtain ⟨rfl, rfl, rfl, rfl⟩ := hout
    obtain ⟨⟨tk, hra, hst⟩, _, htidy⟩ := hg
    rw [tidy_endsNl htidy] at hr7
    obtain ⟨is, hch, hren, hrd, hio⟩ := ih (.tok s) false l1 false r6 r7 ⟨hra.1, fun d h => h⟩ (fun _ => ⟨rfl, rfl⟩) hr6 hr7
    obtain ⟨p1, p2, _⟩ := pre_ok hd l1 hcomp hcoup
    refine ⟨.ws (indPre sty.indentation l1 dirty) :: .tok s tk :: is, ⟨p1, p2, hra, ?_, hch⟩, ?_, ?_,
      iok_ws _ (iok_tokstr hc hst (hardTok_tidy hra htidy) hio)⟩
    · intro d t e
      exact follC_of_follP (compat_nextC l1 hcomp hcoup) hf e
    · simp only [render_cons, LItem.text, hren, hj, List.append_assoc]
    · have := ReadTks.other (p := .str s) (by simp) (by simp) hrd
      simpa [itemTks, LItem.tks, pieceTks, hst] using this
  | @grp pend q ind ps G r L hc hg hs hi hf _ ih =>
    intro pc blank level dirty ts6 ts7 hcomp hcoup h6 h7
    obtain ⟨⟨tk, hra, hst⟩, hqf, htidy⟩ := hg
    obtain ⟨quote, v, hq, rfl⟩ := hqf (stringIdent_isQuoted hs)
    obtain ⟨parts, rfl, hflat, hpne⟩ := stringIdent_parts hs
    have hparts : parts ≠ [] := by rintro rfl; simp at hflat
    have hlast : ∀ a, parts.getLast? = some a → endsNl a = false := by
      intro a ha
      obtain ⟨init, rfl⟩ := List.getLast?_eq_some_iff.mp ha
      have hane : a ≠ [] := hpne a (by simp)
      obtain ⟨a0, l, rfl⟩ : ∃ a0 l, a = a0 ++ [l] := by
        rcases List.eq_nil_or_concat a with rfl | ⟨a0, l, rfl⟩
        · exact absurd rfl hane
        · exact ⟨a0, l, by simp⟩
      have e : (init ++ [a0 ++ [l]]).flatten = (init.flatten ++ a0) ++ [l] := by simp
      rw [e] at hflat
      have : (quote :: v.flatMap (escapeChar quote) ++ [quote]) = (quote :: v.flatMap (escapeChar quote)) ++ [quote] := rfl
      rw [this] at hflat
      have hl := List.append_inj_right' hflat rfl
      simp only [List.cons.injEq, and_true] at hl
      subst hl
      unfold endsNl
      rw [List.getLast?_append]
      rcases hq with rfl | rfl <;> rfl
    obtain ⟨fill, hfill, r6, r7, hr6, hr7, hj⟩ := grp_text hd parts hparts hlast G hi r blank level dirty ts6 ts7 h6 h7
    have hfsp : ∀ i, ∀ ch ∈ fill i, Spec.isSpace ch = true := fun i ch h => isSpace_of_layout (hfill i ch h)
    have hlit := wrap_reads_sp sty quote hq v ind _ hs fill hfsp
    obtain ⟨g, gs, _, _, hshape⟩ := wrap_shape sty quote hq v ind _ hs fill
    have hra' : ReadsAs (wrappedText (stringIdent.build parts) fill) (.str (v.map fun c => Spec.SUnit.ch c.toNat)) :=
      readsAs_of_isPiece (.quoted _ _ hlit)
    have htk : tk = .str (v.map fun c => Spec.SUnit.ch c.toNat) := by
      rw [strTk_quoted quote hq v] at hst
      simp only [List.cons.injEq, and_true] at hst
      exact hst.symm
    have hcompat : Compat (.t0 (quote :: v.flatMap (escapeChar quote) ++ [quote]))
        (.tok (wrappedText (stringIdent.build parts) fill)) := by
      refine ⟨by simp, fun d hd' => ?_⟩
      rw [hshape]
      refine ⟨?_, fuses_long d⟩
      rw [sepRequired_quoted]
      have := hd'.1
      rw [sepRequired_quoted] at this
      exact this
    obtain ⟨is, hch, hren, hrd, hio⟩ := ih _ false level false r6 r7 hcompat (fun _ => ⟨rfl, rfl⟩) hr6 hr7
    obtain ⟨p1, p2, _⟩ := pre_ok hd level hcomp hcoup
    refine ⟨.ws (indPre sty.indentation level dirty) :: .tok (wrappedText (stringIdent.build parts) fill) _ :: is,
      ⟨p1, p2, hra', ?_, hch⟩, ?_, ?_,
      iok_ws _ (iok_grp hc (by rw [hst, htk]) (by intro m hm; cases hm) (hardTok_wrapped sty quote hq v ind _ hs fill hfill) hio)⟩
    · intro d t e
      rw [hshape] at e
      simp only [List.cons_append, List.cons.injEq] at e
      exact follC_of_follP (compat_nextC level hcomp hcoup) hf (by rw [← e.1]; rfl)
    · simp only [render_cons, LItem.text, hren, hj, wrappedText, List.append_assoc]
    · have := ReadTks.other (p := .str (quote :: v.flatMap (escapeChar quote) ++ [quote])) (by simp) (by simp) hrd
      have h0 : pieceTks false (.str (quote :: v.flatMap (escapeChar quote) ++ [quote])) =
          [.str (v.map fun c => Spec.SUnit.ch c.toNat)] := by
        show strTk _ = _
        rw [hst, htk]
      rw [h0] at this
      simpa [itemTks, LItem.tks] using this
  | @com pend s r L hc hok hf _ ih =>
    intro pc blank level dirty ts6 ts7 hcomp hcoup h6 h7
    obtain ⟨txt, b1, l1, d1, r6, r7, hr6, hr7, hj, hout⟩ := step_cons hd _ _ _ _ _ _ _ h6 h7
    simp only [StepOut] at hout
    obtain ⟨rfl, rfl, rfl, rfl⟩ := hout
    rw [comOK_endsNl hc hok] at hr7
    have hcompat : Compat (if isLongCom s then Pend.none else Pend.short) (if isLongCom s then PendC.none else PendC.short) := by
      cases isLongCom s
      · rfl
      · intro d; trivial
    obtain ⟨is, hch, hren, hrd, hio⟩ := ih _ false l1 false r6 r7 hcompat (fun _ => ⟨rfl, rfl⟩) hr6 hr7
    obtain ⟨p1, p2, _⟩ := pre_ok hd l1 hcomp hcoup
    refine ⟨.ws (indPre sty.indentation l1 dirty) :: .com s :: is, ⟨p1, p2, hc, hok, ?_, hch⟩, ?_, ?_,
      iok_ws _ (iok_com hc hio)⟩
    · intro d t e
      exact follC_of_follP (compat_nextC l1 hcomp hcoup) hf e
    · simp only [render_cons, LItem.text, hren, hj, List.append_assoc]
    · have := ReadTks.other (p := .str s) (by simp) (by simp) hrd
      have hst : strTk s = [] := by
        unfold strTk
        rw [show startsWith s ['-', '-'] = true from hc]
        rfl
      simpa [itemTks, LItem.tks, pieceTks, hst] using this
  | @dot pend r L hf _ ih =>
    intro pc blank level dirty ts6 ts7 hcomp hcoup h6 h7
    obtain ⟨txt, b1, l1, d1, r6, r7, hr6, hr7, hj, hout⟩ := step_cons hd _ _ _ _ _ _ _ h6 h7
    simp only [StepOut] at hout
    obtain ⟨rfl, rfl, rfl, rfl⟩ := hout
    obtain ⟨is, hch, hren, hrd, hio⟩ := ih (.tok ['.']) false l1 false r6 r7 (fun d h => h) (fun _ => ⟨rfl, rfl⟩) hr6 hr7
    obtain ⟨p1, p2, _⟩ := pre_ok hd l1 hcomp hcoup
    refine ⟨.ws (indPre sty.indentation l1 dirty) :: .tok ['.'] (.sym ".") :: is, ⟨p1, p2, readsAs_dot, ?_, hch⟩, ?_, ?_,
      iok_ws _ (iok_tok_nn hardTok_dot (by intro m hm; cases hm) (iok_sep _ hio))⟩
    · intro d t e
      exact follC_of_follP (compat_nextC l1 hcomp hcoup) hf e
    · simp only [render_cons, LItem.text, hren, hj, List.append_assoc]
    · have := ReadTks.other (p := .sep .dot) (by simp) (by simp) hrd
      simpa [itemTks, LItem.tks, pieceTks] using this
  | @sepT pend k r L hk hp _ ih =>
    intro pc blank level dirty ts6 ts7 hcomp hcoup h6 h7
    obtain ⟨txt, b1, l1, d1, r6, r7, hr6, hr7, hj, hout⟩ := step_cons hd _ _ _ _ _ _ _ h6 h7
    obtain ⟨p1, p2, _⟩ := pre_ok hd level hcomp hcoup
    have hnext := compat_nextC (sty := sty) level hcomp hcoup
    rcases hk with rfl | rfl | rfl
    · -- Space
      simp only [StepOut] at hout
      obtain ⟨rfl, rfl, rfl, rfl⟩ := hout
      obtain ⟨is, hch, hren, hrd, hio⟩ := ih .none false l1 false r6 r7 (fun d => trivial) (fun h => absurd rfl h) hr6 hr7
      refine ⟨.ws (indPre sty.indentation l1 dirty ++ [' ']) :: is, ⟨?_, ?_, ?_⟩, ?_, ?_, iok_ws _ (iok_sep _ hio)⟩
      · intro c hc
        rcases List.mem_append.mp hc with h | h
        · exact p1 c h
        · simp only [List.mem_singleton] at h; subst h; decide
      · intro d t e
        have hdl : isLayoutSpace d = true := by
          cases hpre : indPre sty.indentation l1 dirty with
          | nil => rw [hpre] at e; simp at e; rw [← e.1]; decide
          | cons a b => rw [hpre] at e; simp at e; rw [← e.1]; exact p1 a (by rw [hpre]; simp)
        exact follC_inert hcomp hp (inert_of_layout hdl)
      · have : nextC pc (indPre sty.indentation l1 dirty ++ [' ']) = .none := by simp [nextC]
        rw [this]; exact hch
      · simp only [render_cons, LItem.text, hren, hj, List.append_assoc]
      · have := ReadTks.other (p := .sep .space) (by simp) (by simp) hrd
        simpa [itemTks, LItem.tks, pieceTks] using this
    · -- Block
      simp only [StepOut] at hout
      obtain ⟨rfl, rfl, rfl, rfl⟩ := hout
      rcases hd.stmtSep with hs | hs
      · rw [hs] at hr7 hj
        obtain ⟨is, hch, hren, hrd, hio⟩ := ih .none false l1 true r6 r7 (fun d => trivial) (fun h => absurd rfl h) hr6
          (by simpa [endsNl] using hr7)
        refine ⟨.ws (indPre sty.indentation l1 dirty ++ ['\n']) :: is, ⟨?_, ?_, ?_⟩, ?_, .skip (Or.inr rfl) ?_,
          iok_ws _ (iok_sep _ hio)⟩
        · intro c hc
          rcases List.mem_append.mp hc with h | h
          · exact p1 c h
          · simp only [List.mem_singleton] at h; subst h; decide
        · intro d t e
          have hdl : isLayoutSpace d = true := by
            cases hpre : indPre sty.indentation l1 dirty with
            | nil => rw [hpre] at e; simp at e; rw [← e.1]; decide
            | cons a b => rw [hpre] at e; simp at e; rw [← e.1]; exact p1 a (by rw [hpre]; simp)
          exact follC_inert hcomp hp (inert_of_layout hdl)
        · have : nextC pc (indPre sty.indentation l1 dirty ++ ['\n']) = .none := by simp [nextC]
          rw [this]; exact hch
        · simp only [render_cons, LItem.text, hren, hj, List.append_assoc]
        · simpa [itemTks, LItem.tks] using hrd
      · rw [hs] at hr7 hj
        obtain ⟨is, hch, hren, hrd, hio⟩ := ih (.tok [';']) false l1 false r6 r7 free_semi (fun h => absurd rfl h) hr6
          (by simpa [endsNl] using hr7)
        refine ⟨.ws (indPre sty.indentation l1 dirty) :: .tok [';'] (.sym ";") :: is,
          ⟨p1, p2, readsAs_semi, ?_, hch⟩, ?_, ?_, iok_ws _ (iok_tok_nn hardTok_semi (by intro m hm; cases hm) (iok_sep _ hio))⟩
        · intro d t e
          cases e
          exact follC_inert hnext hp inert_closers.2.2.2.2.2.2.2.1
        · simp only [render_cons, LItem.text, hren, hj, List.append_assoc]
        · have := ReadTks.semi (p := .sep .block) (Or.inr rfl) hrd
          simpa [itemTks, LItem.tks] using this
    · -- Argument
      simp only [StepOut] at hout
      obtain ⟨_, rfl, rfl, rfl, rfl⟩ := hout
      obtain ⟨w, hw, hwl⟩ : ∃ w, (if r.head? = some (.sep .newline) then [','] else sty.argumentSeparator) = ',' :: w ∧
          (w = [] ∨ w = [' ']) := by
        split
        · exact ⟨[], rfl, .inl rfl⟩
        · rcases hd.argSep with e | e <;> rw [e]
          · exact ⟨[], rfl, .inl rfl⟩
          · exact ⟨[' '], rfl, .inr rfl⟩
      rw [hw] at hj
      obtain ⟨is, hch, hren, hrd, hio⟩ := ih (nextC (.tok [',']) w) false l1 false r6 r7
        (by unfold nextC; split; exact free_comma; exact fun d => trivial) (fun h => absurd rfl h) hr6 hr7
      refine ⟨.ws (indPre sty.indentation l1 dirty) :: .tok [','] (.sym ",") :: .ws w :: is,
        ⟨p1, p2, readsAs_comma, ?_, ?_, ?_, hch⟩, ?_, ?_,
        iok_ws _ (iok_tok_nn hardTok_comma (by intro m hm; cases hm) (iok_ws _ (iok_sep _ hio)))⟩
      · intro d t e
        cases e
        exact follC_inert hnext hp inert_closers.2.2.2.2.2.2.2.2
      · intro c hc
        rcases hwl with rfl | rfl
        · cases hc
        · simp only [List.mem_singleton] at hc; subst hc; decide
      · intro d t e
        exact free_comma d
      · simp only [render_cons, LItem.text, hren, hj, List.append_assoc, List.cons_append, List.nil_append]
      · have := ReadTks.other (p := .sep .argument) (by simp) (by simp) hrd
        simpa [itemTks, LItem.tks, pieceTks] using this
  | @stmt pend r L hp _ _ _ ih =>
    intro pc blank level dirty ts6 ts7 hcomp hcoup h6 h7
    obtain ⟨txt, b1, l1, d1, r6, r7, hr6, hr7, hj, hout⟩ := step_cons hd _ _ _ _ _ _ _ h6 h7
    obtain ⟨p1, p2, _⟩ := pre_ok hd level hcomp hcoup
    have hnext := compat_nextC (sty := sty) level hcomp hcoup
    simp only [StepOut] at hout
    obtain ⟨rfl, rfl, rfl, rfl⟩ := hout
    rcases hd.stmtSep with hs | hs
    · rw [hs] at hr7 hj
      obtain ⟨is, hch, hren, hrd, hio⟩ := ih .none false l1 true r6 r7 (fun d => trivial) (fun h => absurd rfl h) hr6
        (by simpa [endsNl] using hr7)
      refine ⟨.ws (indPre sty.indentation l1 dirty ++ ['\n']) :: is, ⟨?_, ?_, ?_⟩, ?_, .skip (Or.inl rfl) ?_,
        iok_ws _ (iok_sep _ hio)⟩
      · intro c hc
        rcases List.mem_append.mp hc with h | h
        · exact p1 c h
        · simp only [List.mem_singleton] at h; subst h; decide
      · intro d t e
        have hdl : isLayoutSpace d = true := by
          cases hpre : indPre sty.indentation l1 dirty with
          | nil => rw [hpre] at e; simp at e; rw [← e.1]; decide
          | cons a b => rw [hpre] at e; simp at e; rw [← e.1]; exact p1 a (by rw [hpre]; simp)
        exact follC_inert hcomp hp (inert_of_layout hdl)
      · have : nextC pc (indPre sty.indentation l1 dirty ++ ['\n']) = .none := by simp [nextC]
        rw [this]; exact hch
      · simp only [render_cons, LItem.text, hren, hj, List.append_assoc]
      · simpa [itemTks, LItem.tks] using hrd
    · rw [hs] at hr7 hj
      obtain ⟨is, hch, hren, hrd, hio⟩ := ih (.tok [';']) false l1 false r6 r7 free_semi (fun h => absurd rfl h) hr6
        (by simpa [endsNl] using hr7)
      refine ⟨.ws (indPre sty.indentation l1 dirty) :: .tok [';'] (.sym ";") :: is,
        ⟨p1, p2, readsAs_semi, ?_, hch⟩, ?_, ?_, iok_ws _ (iok_tok_nn hardTok_semi (by intro m hm; cases hm) (iok_sep _ hio))⟩
      · intro d t e
        cases e
        exact follC_inert hnext hp inert_closers.2.2.2.2.2.2.2.1
      · simp only [render_cons, LItem.text, hren, hj, List.append_assoc]
      · have := ReadTks.semi (p := .sep .statement) (Or.inl rfl) hrd
        simpa [itemTks, LItem.tks] using this
  | @nl pend r L _ ih =>
    intro pc blank level dirty ts6 ts7 hcomp hcoup h6 h7
    obtain ⟨is, hch, hren⟩ := nl_items_num hd hcomp hcoup h6 h7 ih
    exact ⟨is, hch, hren.1, by
      have := ReadTks.other (p := .sep .newline) (by simp) (by simp) hren.2.1
      simpa [pieceTks] using this, iok_sep _ hren.2.2⟩
  | @nlIns pend r L _ ih =>
    intro pc blank level dirty ts6 ts7 hcomp hcoup h6 h7
    obtain ⟨is, hch, hren⟩ := nl_items_num hd hcomp hcoup h6 h7 ih
    exact ⟨is, hch, hren.1, hren.2.1, hren.2.2⟩
  | @ind pend k r L hk _ ih =>
    intro pc blank level dirty ts6 ts7 hcomp hcoup h6 h7
    obtain ⟨txt, b1, l1, d1, r6, r7, hr6, hr7, hj, hout⟩ := step_cons hd _ _ _ _ _ _ _ h6 h7
    have hst : txt = [] ∧ b1 = false ∧ d1 = dirty := by
      rcases hk with rfl | rfl <;> simp only [StepOut] at hout <;> exact ⟨hout.1, hout.2.1, hout.2.2.2⟩
    obtain ⟨rfl, rfl, rfl⟩ := hst
    obtain ⟨is, hch, hren, hrd, hio⟩ := ih pc false l1 d1 r6 r7 (compat_bump hcomp) (coup_bump hcoup) hr6 hr7
    refine ⟨is, hch, by rw [hren, hj]; rfl, ?_, iok_sep _ hio⟩
    have := ReadTks.other (p := .sep k) (by rcases hk with rfl | rfl <;> simp) (by rcases hk with rfl | rfl <;> simp) hrd
    rcases hk with rfl | rfl <;> simpa [pieceTks] using this
  | @indIns pend k r L hk _ _ ih =>
    intro pc blank level dirty ts6 ts7 hcomp hcoup h6 h7
    obtain ⟨txt, b1, l1, d1, r6, r7, hr6, hr7, hj, hout⟩ := step_cons hd _ _ _ _ _ _ _ h6 h7
    have hst : txt = [] ∧ b1 = false ∧ d1 = dirty := by
      rcases hk with rfl | rfl <;> simp only [StepOut] at hout <;> exact ⟨hout.1, hout.2.1, hout.2.2.2⟩
    obtain ⟨rfl, rfl, rfl⟩ := hst
    obtain ⟨is, hch, hren, hrd, hio⟩ := ih pc false l1 d1 r6 r7 (compat_bump hcomp) (coup_bump hcoup) hr6 hr7
    exact ⟨is, hch, by rw [hren, hj]; rfl, hrd, hio⟩
  | @dropS pend r L _ _ ih =>
    intro pc blank level dirty ts6 ts7 hcomp hcoup h6 h7
    obtain ⟨is, hch, hren, hrd, hio⟩ := ih pc blank level dirty ts6 ts7 hcomp hcoup h6 h7
    exact ⟨is, hch, hren, .skip (Or.inl rfl) hrd, iok_sep _ hio⟩

/-! ## the strips -/

theorem hard_tidy_eq {a a' : List Char} (ht : Tidy a) (hR : ∀ r, Rst a r = a' ++ r) : a' = a := by
  have h1 := hR []
  rw [Rst_tidy a ht] at h1
  simpa using h1.symm

/-- `lwf_rsl`, and the numeral token items keep their texts when these are tidy -/
theorem lwf_rsl_num {is : List LItem} (h : LWF is) : HardIt is → (∀ a m, LItem.tok a (.num m) ∈ is → Tidy a) →
    ∃ is', LWF is' ∧ renderItems is' = rsl (renderItems is) ∧ itemTks is' = itemTks is ∧ EndOK is' ∧
      comItems is' = comItems is ∧ numItems is' = numItems is := by
  induction h with
  | nil => intro _ _; exact ⟨[], .nil, rfl, rfl, fun _ h => (by cases h), rfl, rfl⟩
  | @tok a tk rest hr hl hs hfu ih =>
    intro hh hnum
    obtain ⟨is', hl', hren, htk, hend, hcom, hni⟩ := ih (fun it hit => hh it (List.mem_cons_of_mem _ hit))
      (fun a m hm => hnum a m (List.mem_cons_of_mem _ hm))
    obtain ⟨a', hR, hra', hsep, hfus, hlast⟩ := hh (.tok a tk) (by simp)
    refine ⟨.tok a' tk :: is', .tok hra' hl' ?_ ?_, ?_, ?_, endOK_cons ⟨hra'.1, hlast⟩ hend, ?_, ?_⟩
    · rw [hren]
      rcases rsl_head (renderItems rest) with h0 | ⟨d, t', h1, hd⟩
      · exact .inr h0
      · left
        rw [h1]
        rcases hd with rfl | ⟨t0, h2⟩
        · exact sepRequired_inert a' hra'.1 '\n' t' (inert_of_layout (by decide))
        · rw [sepRequired_head a' d t' [], hsep d]
          rcases hs with hs | hs
          · rw [h2, sepRequired_head a d t0 []] at hs; exact hs
          · rw [hs] at h2; cases h2
    · intro d t e
      rw [hren] at e
      rcases rsl_head (renderItems rest) with h0 | ⟨d', t', h1, hd⟩
      · rw [h0] at e; cases e
      · rw [h1] at e; cases e
        rw [hfus d]
        rcases hd with rfl | ⟨t0, h2⟩
        · exact fuses_inert a '\n' (inert_of_layout (by decide))
        · exact hfu d t0 h2
    · rw [render_cons, render_cons, hren, rsl_append]
      exact (hR _).symm
    · simp only [itemTks, List.flatMap_cons, LItem.tks] at htk ⊢
      rw [htk]
    · simp only [comItems, List.filterMap_cons] at hcom ⊢
      exact hcom
    · by_cases hn : ∃ m, tk = .num m
      · obtain ⟨m, rfl⟩ := hn
        have ht : Tidy a := hnum a m (by simp)
        rw [hard_tidy_eq ht hR, numItems_num, numItems_num, hni]
      · have hn' : ∀ m, tk ≠ .num m := fun m e => hn ⟨m, e⟩
        rw [numItems_nn hn', numItems_nn hn', hni]
  | @ws w rest hw hl ih =>
    intro hh hnum
    obtain ⟨is', hl', hren, htk, hend, hcom, hni⟩ := ih (fun it hit => hh it (List.mem_cons_of_mem _ hit))
      (fun a m hm => hnum a m (List.mem_cons_of_mem _ hm))
    obtain ⟨w', hw', hsub, _⟩ := Rst_layout w (rsl (renderItems rest))
    refine ⟨.ws w' :: is', .ws (fun c hc => hw c (hsub c hc)) hl', ?_, ?_, endOK_cons trivial hend, ?_, ?_⟩
    · rw [render_cons, render_cons, hren, rsl_append]
      exact hw'.symm
    · simp only [itemTks, List.flatMap_cons, LItem.tks] at htk ⊢
      rw [htk]
    · simp only [comItems, List.filterMap_cons] at hcom ⊢
      exact hcom
    · rw [numItems_ws, numItems_ws, hni]
  | @short c rest hc hl hr ih =>
    intro hh hnum
    obtain ⟨is', hl', hren, htk, hend, hcom, hni⟩ := ih (fun it hit => hh it (List.mem_cons_of_mem _ hit))
      (fun a m hm => hnum a m (List.mem_cons_of_mem _ hm))
    have ht : Tidy c := hh (.com c) (by simp)
    refine ⟨.com c :: is', .short hc hl' ?_, ?_, ?_, endOK_cons ⟨isCom_of_short hc, ht.2⟩ hend, ?_, ?_⟩
    · rw [hren]
      rcases hr with h0 | ⟨t, h1⟩
      · left; rw [h0]; rfl
      · right
        rw [h1]
        exact ⟨rsl t, by show stepR '\n' (rsl t) = _; rw [stepR_nl]⟩
    · rw [render_cons, render_cons, hren, rsl_append]
      exact (Rst_tidy c ht _).symm
    · simp only [itemTks, List.flatMap_cons, LItem.tks] at htk ⊢
      rw [htk]
    · simp only [comItems, List.filterMap_cons] at hcom ⊢
      rw [hcom]
    · rw [numItems_com, numItems_com, hni]
  | @long c rest hc hl ih =>
    intro hh hnum
    obtain ⟨is', hl', hren, htk, hend, hcom, hni⟩ := ih (fun it hit => hh it (List.mem_cons_of_mem _ hit))
      (fun a m hm => hnum a m (List.mem_cons_of_mem _ hm))
    have ht : Tidy c := hh (.com c) (by simp)
    refine ⟨.com c :: is', .long hc hl', ?_, ?_, endOK_cons ⟨isCom_of_long hc, ht.2⟩ hend, ?_, ?_⟩
    · rw [render_cons, render_cons, hren, rsl_append]
      exact (Rst_tidy c ht _).symm
    · simp only [itemTks, List.flatMap_cons, LItem.tks] at htk ⊢
      rw [htk]
    · simp only [comItems, List.filterMap_cons] at hcom ⊢
      rw [hcom]
    · rw [numItems_com, numItems_com, hni]

/-- `lwf_rstrip`, and the numeral token items are kept -/
theorem lwf_rstrip_num {is : List LItem} (h : LWF is) (he : EndOK is) :
    ∃ core, LWF core ∧ renderItems core = pyRstrip (renderItems is) ∧ itemTks core = itemTks is ∧ EndOK core ∧
      comItems core = comItems is ∧ (core = [] ∨ ∃ c0 x, core = c0 ++ [x] ∧ isWsItem x = false) ∧
      numItems core = numItems is := by
  obtain ⟨core, tail, rfl, ht, hc⟩ := split_trailing_ws is
  have hlc := lwf_drop_tail _ core tail rfl ht h
  have hW := render_ws_tail tail ht (lwf_suffix core tail h)
  have hec : EndOK core := fun it hit => he it (by simp [hit])
  refine ⟨core, hlc, ?_, ?_, hec, ?_, hc, ?_⟩
  · rw [render_append]
    refine (pyRstrip_append_ws _ _ (fun c hc => layout_pySpace (hW c hc)) ?_).symm
    rcases hc with rfl | ⟨c0, x, rfl, hx⟩
    · exact .inl rfl
    · exact .inr (render_last_nonspace hx hec)
  · have : itemTks tail = [] := by
      simp only [itemTks, List.flatMap_eq_nil_iff]
      intro it hit
      have := ht it hit
      cases it <;> simp_all [isWsItem, LItem.tks]
    simp only [itemTks, List.flatMap_append] at this ⊢
    rw [this]; simp
  · have : comItems tail = [] := by
      simp only [comItems, List.filterMap_eq_nil_iff]
      intro it hit
      have := ht it hit
      cases it <;> simp_all [isWsItem]
    simp only [comItems, List.filterMap_append] at this ⊢
    rw [this]; simp
  · have : numItems tail = [] := by
      unfold numItems
      rw [List.filterMap_eq_nil_iff]
      intro it hit
      have := ht it hit
      cases it with
      | ws w => rfl
      | tok _ _ => cases this
      | com _ => cases this
    rw [numItems_append, this, List.append_nil]

end Tumfl.Theory.NumLay

namespace Tumfl.Theory
open Tumfl Tumfl.Model Tumfl.Theory.NumLay

theorem format_lex_rs_num (sty : Style) (hd : DocStyle sty) (b : Block) (hp : Printable b)
    (hn : NumsCanon (numsBlock b))
    (hcm : ∀ s, .str s ∈ emit sty b → isCom s = true → Tidy s)
    (hw : sty.lineWidth = 0) (he : sty.removeUnnecessaryChars = true)
    (text : List Char) (h : format sty b = .ok text) :
    ∃ (ts1 : Pieces) (core : List LItem), removeSeparators (emit sty b) = .ok ts1 ∧ Disc DS.init ts1 ∧ LWF core ∧
      renderItems core = text ∧ (∀ r, text ≠ '#' :: r) ∧ ReadTks ts1 (itemTks core) ∧ numItems core = numStrP ts1 := by
  obtain ⟨ts1, ts2, ts3, ts6, ts7, h1, h2, h3, h6, h7, rfl⟩ := format_stages h
  obtain ⟨hcom, hlc, hcok, htidy⟩ := header_facts hd
  rw [he] at h1
  simp only [if_true] at h1
  have hdisc0 : Disc DS.init (emit sty b) := ((disc_append _ _ _).mp (disc_emit sty hd b hp hn)).1
  have hdisc1 : Disc DS.init ts1 := removeSeparators_disc h1 hdisc0
  have hsd : SoftDrop (emit sty b) ts1 := removeSeparators_softDrop h1
  have hlay2 : Lay sty (decide (sty.lineWidth > 0)) none ts1 ts2 := by
    split at h2
    · rename_i hpos
      rw [decide_eq_true hpos]
      exact indentBrackets_lay h2 none
    · cases h2; exact Lay.refl sty _ _ _
  have hlay3 : Lay sty (decide (sty.lineWidth > 0)) none ts1 ts3 := by
    split at h3
    · exact hlay2.insNls (addSpacing_insNl h3)
    · cases h3; exact hlay2
  have hw1 : Weak DS.init := ⟨rfl, by simp [DS.init], .inl rfl⟩
  have hw2 : Weak ⟨none, .sep, .other⟩ := ⟨rfl, by simp, .inr (.inl rfl)⟩
  obtain ⟨L1, htg1, hdl3, hL1⟩ := lay_dl hlay3 ⟨none, .sep, .other⟩ .none none (disc_weak _ _ _ hw1 hw2 hdisc1) trivial
    (fun x hx => by cases hx) (fun bb hb => by cases hb)
  have htc1 : TC ts1 L1 := htg1.toTC
  have hro : removeOrphaned (.str (headerText sty) :: S .newline :: ts3) =
      .str (headerText sty) :: .sep .newline :: removeOrphanedFrom [.sep .newline, .str (headerText sty)] ts3 := by
    have hne : headerText sty ≠ [] := by simp [headerText]
    unfold removeOrphaned
    rw [ro_keep _ (by simpa using hne) (by simp), S, ro_keep _ (by simp) (by simp)]
  have hdl5 : DL sty true .none (removeOrphaned (.str (headerText sty) :: S .newline :: ts3))
      (.str (headerText sty) :: .sep .newline :: L1) := by
    rw [hro]
    refine .com hcom hcok trivial ?_
    rw [hlc]
    exact .nl (ro_dl hdl3 _ (by simp) (fun k r' _ x hx => by cases hx))
  have hh6 : resolveTokensAux sty false (removeOrphaned (.str (headerText sty) :: S .newline :: ts3)) = .ok ts6 := h6
  obtain ⟨is, hch, hren, hrd, hio, hni⟩ := dl_text_num hd hdl5 .none false 0 false ts6 ts7 (fun d => trivial)
    (fun h => absurd rfl h) hh6 h7
  have hL : L1 = ts1 := hL1 (by simp [hw])
  subst hL
  have hni1 : numItems is = numStrP L1 := by
    rw [hni, numStrP_com hcom, numStrP_sep]
  have hlwf := (chain_lwf is .none hch).1
  have hcomI : comItems is = headerText sty :: comStrs (emit sty b) := by
    rw [hio.2, comStrs_cons_str, hcom, comStrs_cons_sep, comStrs_tc htc1, ← comStrs_softDrop hsd]
    rfl
  have hhard : HardIt is := by
    intro it hit
    cases it with
    | tok a tk => exact hio.1 a tk hit
    | ws w => trivial
    | com c =>
      have hm := mem_comItems hit
      rw [hcomI] at hm
      rcases List.mem_cons.mp hm with e | hm
      · rw [e]; exact htidy
      · obtain ⟨h1, h2⟩ := mem_comStrs hm
        exact hcm c h1 h2
  have hnt : ∀ a m, LItem.tok a (.num m) ∈ is → Tidy a := by
    intro a m hm
    have : a ∈ numItems is := mem_numItems.mpr ⟨m, hm⟩
    rw [hni1] at this
    exact numStrP_tidy hdisc1 this
  obtain ⟨is1, hl1, hren1, htk1, hend1, hcom1, hni2⟩ := lwf_rsl_num hlwf hhard hnt
  obtain ⟨core, hlc', hrenc, htkc, _, hcomc, hcore, hni3⟩ := lwf_rstrip_num hl1 hend1
  have hstart : ∃ F2, joinTokens ts7 = headerText sty ++ F2 := by
    rw [hro] at hh6
    obtain ⟨txt, _, _, _, _, r7, _, _, hj, hout⟩ := step_cons hd _ _ _ _ _ _ _ hh6 h7
    simp only [StepOut] at hout
    exact ⟨joinTokens r7, by rw [hj, hout.1]; rfl⟩
  obtain ⟨F2, hF⟩ := hstart
  have hstrip : pyStripAll (((splitOnNewline (joinTokens ts7)).map pyRstrip).intersperse ['\n']).flatten =
      renderItems core ∧ ∃ t, renderItems core = '-' :: t := by
    have e1 : (((splitOnNewline (joinTokens ts7)).map pyRstrip).intersperse ['\n']).flatten = rsl (joinTokens ts7) :=
      rsl_eq_lines _
    rw [e1, hrenc, hren1, hren]
    unfold pyStripAll
    have e2 : rsl (joinTokens ts7) = headerText sty ++ rsl F2 := by
      rw [hF, rsl_append, Rst_tidy _ htidy]
    have e3 : (rsl (joinTokens ts7)).dropWhile pyIsSpace = rsl (joinTokens ts7) := by
      rw [e2]
      have : headerText sty ++ rsl F2 = '-' :: ('-' :: (sty.commentSep ++ "tumfl".toList ++ rsl F2)) := by
        simp [headerText]
      rw [this, List.dropWhile_cons_of_neg (by decide)]
    rw [e3]
    refine ⟨rfl, ?_⟩
    have : rsl (joinTokens ts7) = '-' :: ('-' :: (sty.commentSep ++ "tumfl".toList ++ rsl F2)) := by
      rw [e2]; simp [headerText]
    rw [this, pyRstrip_cons, if_neg (by intro hh; exact absurd hh.2 (by decide))]
    exact ⟨_, rfl⟩
  have hrd1 : ReadTks L1 (itemTks core) := by
    rw [htkc, htk1]
    exact readTks_header hcom hrd
  obtain ⟨t, ht⟩ := hstrip.2
  have htext : pyStripAll (((splitOnNewline (joinTokens ts7)).map pyRstrip).intersperse ['\n']).flatten ++
      (if sty.removeUnnecessaryChars then [] else sty.statementSeparator) = renderItems core := by
    rw [he, hstrip.1]; simp
  have hsh : ∀ r, renderItems core ≠ '#' :: r := by
    intro r e
    rw [ht] at e
    cases e
  refine ⟨L1, core, h1, hdisc1, hlc', htext.symm, ?_, hrd1, by rw [hni3, hni2, hni1]⟩
  rw [htext]
  exact hsh

end Tumfl.Theory

