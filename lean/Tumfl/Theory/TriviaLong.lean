import Tumfl.Theory.StrRead
import Tumfl.Theory.LexPosScan
/-!
# Long brackets: the model reader `getLongBrackets` agrees with the reference (`Spec.longOpener` / `Spec.longBody`)

The model's body loop keeps a counter `closing_equals` (`ce`): `some k` iff the text consumed so far ends with a `]`
followed by `k` `=` signs, `none` otherwise; it stops at a `]` when `ce = some equals` and then cuts the last
`equals + 1` characters off what it collected.  The reference tests `closesAt` at every `]`.

Loop invariant (`longBody_agree`): with `pend ce` the "pending" suffix `]` `=`^k that the counter stands for, the
model in state `(rest = cs, ce, acc)` where `acc.reverse = a0 ++ pend ce` behaves as the reference on the text
`pend ce ++ cs`: the reference finds `(b, rest')` iff the model returns `(a0 ++ b, s')` with `s'.rest = rest'`, and the
reference fails (unterminated) iff the model raises "long brackets never closed".
-/
namespace Tumfl.Theory
open Tumfl.Model

/-! ## reference side -/

/-- prepend `p` to the collected body -/
def pre (p : List Char) (x : List Char × List Char) : List Char × List Char := (p ++ x.1, x.2)

theorem pre_pre (p q : List Char) (x : List Char × List Char) : pre p (pre q x) = pre (p ++ q) x := by
  simp [pre]

theorem pre_nil (x : List Char × List Char) : pre [] x = x := by simp [pre]

theorem map_pre_pre (p q : List Char) (o : Option (List Char × List Char)) :
    (o.map (pre q)).map (pre p) = o.map (pre (p ++ q)) := by
  cases o <;> simp [pre_pre]

theorem spec_longBody_nil (lvl : Nat) : Spec.longBody lvl [] = none := by rw [Spec.longBody]

theorem spec_longBody_cons_ne (lvl : Nat) {c : Char} (h : c ≠ ']') (cs : List Char) :
    Spec.longBody lvl (c :: cs) = (Spec.longBody lvl cs).map (pre [c]) := by
  rw [Spec.longBody.eq_3 lvl c cs (fun e => h e)]
  rfl

theorem spec_longBody_rb (lvl : Nat) (cs : List Char) :
    Spec.longBody lvl (']' :: cs) =
      match Spec.closesAt lvl cs with
      | some rest => some ([], rest)
      | none => (Spec.longBody lvl cs).map (pre [']']) := by
  rw [Spec.longBody.eq_2]
  rfl

theorem spec_longBody_eqs (lvl : Nat) (k : Nat) (x : List Char) :
    Spec.longBody lvl (List.replicate k '=' ++ x) = (Spec.longBody lvl x).map (pre (List.replicate k '=')) := by
  induction k with
  | zero =>
    cases h : Spec.longBody lvl x <;> simp [h, pre_nil]
  | succ k ih =>
    rw [List.replicate_succ, List.cons_append, spec_longBody_cons_ne lvl (by decide), ih, map_pre_pre]
    rfl

/-- `closesAt` on a run of `=` followed by a character that is not `=` -/
theorem closesAt_eqs {c : Char} (hc : c ≠ '=') (cs : List Char) : ∀ (k lvl : Nat),
    Spec.closesAt lvl (List.replicate k '=' ++ c :: cs) = if k = lvl ∧ c = ']' then some cs else none
  | 0, 0 => by
    by_cases h : c = ']'
    · subst h; simp [Spec.closesAt]
    · rw [List.replicate_zero, List.nil_append, Spec.closesAt.eq_3]
      · simp [h]
      · intro cs' _ h'; simp at h'; exact h h'.1
      · intro n cs' h'; cases h'
  | 0, lvl + 1 => by
    rw [List.replicate_zero, List.nil_append, Spec.closesAt.eq_3]
    · simp
    · intro cs' h'; cases h'
    · intro n cs' _ h'; simp at h'; exact hc h'.1
  | k + 1, 0 => by
    rw [List.replicate_succ, List.cons_append, Spec.closesAt.eq_3]
    · simp
    · intro cs' _ h'; simp at h'
    · intro n cs' h'; cases h'
  | k + 1, lvl + 1 => by
    rw [List.replicate_succ, List.cons_append, Spec.closesAt, closesAt_eqs hc cs k lvl]
    simp

theorem closesAt_eqs_nil : ∀ (k lvl : Nat), Spec.closesAt lvl (List.replicate k '=') = none
  | 0, lvl => by
    rw [List.replicate_zero, Spec.closesAt.eq_3]
    · intro cs' _ h'; cases h'
    · intro n cs' _ h'; cases h'
  | k + 1, 0 => by
    rw [List.replicate_succ, Spec.closesAt.eq_3]
    · intro cs' _ h'; simp at h'
    · intro n cs' h'; cases h'
  | k + 1, lvl + 1 => by
    rw [List.replicate_succ, Spec.closesAt, closesAt_eqs_nil k lvl]

/-- the pending suffix that the counter `closing_equals` stands for -/
def pend : Option Nat → List Char
  | none => []
  | some k => ']' :: List.replicate k '='

/-- (R0) at the end of the text the reference fails -/
theorem ref_end (lvl : Nat) (ce : Option Nat) : Spec.longBody lvl (pend ce ++ []) = none := by
  cases ce with
  | none => simp [pend, spec_longBody_nil]
  | some k =>
    simp only [pend, List.append_nil]
    rw [spec_longBody_rb, closesAt_eqs_nil]
    have := spec_longBody_eqs lvl k []
    rw [List.append_nil] at this
    simp [this, spec_longBody_nil]

/-- (R3) one more `=` -/
theorem pend_eq (k : Nat) (cs : List Char) : pend (some k) ++ '=' :: cs = pend (some (k + 1)) ++ cs := by
  simp only [pend, List.cons_append, List.cons.injEq, true_and]
  rw [List.replicate_succ', List.append_assoc]
  rfl

/-- (R4) the closing `]` -/
theorem ref_close (lvl : Nat) (cs : List Char) :
    Spec.longBody lvl (pend (some lvl) ++ ']' :: cs) = some ([], cs) := by
  simp only [pend, List.cons_append]
  rw [spec_longBody_rb, closesAt_eqs (by decide)]
  simp

/-- (R5) a `]` after a `]` `=`^k with the wrong `k` -/
theorem ref_rb (lvl k : Nat) (h : k ≠ lvl) (cs : List Char) :
    Spec.longBody lvl (pend (some k) ++ ']' :: cs) =
      (Spec.longBody lvl (pend (some 0) ++ cs)).map (pre (pend (some k))) := by
  simp only [pend, List.cons_append, List.replicate_zero, List.nil_append]
  rw [spec_longBody_rb, closesAt_eqs (by decide)]
  simp only [h, false_and, if_false]
  rw [spec_longBody_eqs, map_pre_pre]
  rfl

/-- (R6) any other character after a `]` `=`^k -/
theorem ref_other (lvl k : Nat) {c : Char} (h1 : c ≠ '=') (h2 : c ≠ ']') (cs : List Char) :
    Spec.longBody lvl (pend (some k) ++ c :: cs) =
      (Spec.longBody lvl cs).map (pre (pend (some k) ++ [c])) := by
  simp only [pend, List.cons_append]
  rw [spec_longBody_rb, closesAt_eqs h1]
  simp only [h2, and_false, if_false]
  rw [spec_longBody_eqs, spec_longBody_cons_ne lvl h2, map_pre_pre, map_pre_pre]
  rfl

/-! ## the agreement relation -/

/-- what the model's result `m` must be, given the reference's result -/
def LBAgree (l0 : Nat) (c0 : Int) (a0 : List Char) (m : Except PyErr (List Char × LexSt)) :
    Option (List Char × List Char) → Prop
  | some x => ∃ s', m = .ok (a0 ++ x.1, s') ∧ s'.rest = x.2
  | none => m = lexErrorAt "long brackets never closed" l0 c0

theorem LBAgree_map {l0 : Nat} {c0 : Int} {a0 : List Char} {m : Except PyErr (List Char × LexSt)} (p : List Char)
    {r : Option (List Char × List Char)} (h : LBAgree l0 c0 (a0 ++ p) m r) : LBAgree l0 c0 a0 m (r.map (pre p)) := by
  cases r with
  | none => exact h
  | some x =>
    obtain ⟨s', h1, h2⟩ := h
    exact ⟨s', by simpa [pre, List.append_assoc] using h1, h2⟩

theorem dropLast_append (a b : List Char) (n : Nat) (h : b.length = n) : dropLast n (a ++ b) = a := by
  simp [dropLast, List.length_append, h]

theorem pend_length (k : Nat) : (pend (some k)).length = k + 1 := by simp [pend]

/-- the loop invariant relating the model's body loop to the reference's `longBody` -/
theorem longBody_agree (lvl l0 : Nat) (c0 : Int) :
    ∀ (cs : List Char) (f : Nat) (s : LexSt) (ce : Option Nat) (a0 acc : List Char),
      s.rest = cs → cs.length < f → acc.reverse = a0 ++ pend ce →
      LBAgree l0 c0 a0 (longBody lvl l0 c0 f s ce acc) (Spec.longBody lvl (pend ce ++ cs))
  | [], f, s, ce, a0, acc, hs, hf, hacc => by
    obtain ⟨f, rfl⟩ : ∃ g, f = g + 1 := ⟨f - 1, by omega⟩
    rw [ref_end, longBody, cur_eq_none hs]
    rfl
  | c :: cs, f, s, ce, a0, acc, hs, hf, hacc => by
    obtain ⟨f, rfl⟩ : ∃ g, f = g + 1 := ⟨f - 1, by omega⟩
    have hf' : cs.length < f := by simpa using hf
    have hadv : (advance s).rest = cs := advance_rest_of hs
    rw [longBody, cur_of hs]
    cases ce with
    | none =>
      by_cases hc : c = ']'
      · subst hc
        have := longBody_agree lvl l0 c0 cs f (advance s) (some 0) a0 (']' :: acc) hadv hf'
          (by simp [hacc, pend])
        simpa [pend] using this
      · have := longBody_agree lvl l0 c0 cs f (advance s) none (a0 ++ [c]) (c :: acc) hadv hf'
          (by simp [hacc, pend])
        have h1 : (c == ']') = false := by simpa using hc
        simp only [h1, Bool.false_and, Bool.false_eq_true, if_false, Option.isSome_none, Bool.and_false,
          pend, List.nil_append] at this ⊢
        rw [spec_longBody_cons_ne lvl hc]
        exact LBAgree_map [c] this
    | some k =>
      by_cases hc : c = ']'
      · subst hc
        by_cases hk : k = lvl
        · subst hk
          rw [ref_close]
          refine ⟨advance s, ?_, hadv⟩
          simp only [beq_self_eq_true, Bool.and_self, if_true, List.append_nil]
          rw [hacc, dropLast_append _ _ _ (pend_length k)]
        · have := longBody_agree lvl l0 c0 cs f (advance s) (some 0) (a0 ++ pend (some k)) (']' :: acc) hadv hf'
            (by simp [hacc, pend])
          rw [ref_rb lvl k hk]
          have hk' : (some k == some lvl) = false := by simpa using hk
          simp only [hk', Bool.and_false, Bool.false_eq_true, if_false]
          exact LBAgree_map _ this
      · by_cases he : c = '='
        · subst he
          have := longBody_agree lvl l0 c0 cs f (advance s) (some (k + 1)) a0 ('=' :: acc) hadv hf'
            (by rw [List.reverse_cons, hacc, List.append_assoc]; congr 1; simpa using pend_eq k [])
          rw [pend_eq]
          simpa using this
        · have := longBody_agree lvl l0 c0 cs f (advance s) none (a0 ++ (pend (some k) ++ [c])) (c :: acc) hadv hf'
            (by simp [hacc, pend])
          rw [ref_other lvl k he hc]
          have h1 : (c == ']') = false := by simpa using hc
          have h2 : (c == '=') = false := by simpa using he
          simp only [h1, h2, Bool.false_and, Bool.false_eq_true, if_false]
          exact LBAgree_map _ (by simpa [pend] using this)

/-! ## the opener -/

theorem countEq_cons_eq (cs : List Char) :
    Spec.countEq ('=' :: cs) = ((Spec.countEq cs).1 + 1, (Spec.countEq cs).2) := by
  rw [Spec.countEq]

theorem countEq_cons_ne {c : Char} (h : c ≠ '=') (cs : List Char) : Spec.countEq (c :: cs) = (0, c :: cs) := by
  rw [Spec.countEq.eq_2]
  intro cs' h'
  simp at h'
  exact h h'.1

theorem countEq_nil : Spec.countEq [] = (0, []) := by
  rw [Spec.countEq.eq_2]
  intro cs' h'; cases h'

/-- the model's `=`-counting loop is `Spec.countEq` -/
theorem countEquals_spec : ∀ (r : List Char) (f : Nat) (s : LexSt) (n : Nat), s.rest = r → r.length < f →
    ∃ s2, countEquals f s n = (n + (Spec.countEq r).1, s2) ∧ s2.rest = (Spec.countEq r).2
  | [], f, s, n, hs, hf => by
    obtain ⟨f, rfl⟩ : ∃ g, f = g + 1 := ⟨f - 1, by omega⟩
    refine ⟨s, ?_, by rw [countEq_nil]; exact hs⟩
    rw [countEquals, cur_eq_none hs, countEq_nil]
    simp
  | c :: cs, f, s, n, hs, hf => by
    obtain ⟨f, rfl⟩ : ∃ g, f = g + 1 := ⟨f - 1, by omega⟩
    rw [countEquals, cur_of hs]
    by_cases hc : c = '='
    · subst hc
      obtain ⟨s2, h1, h2⟩ := countEquals_spec cs f (advance s) (n + 1) (advance_rest_of hs) (by simpa using hf)
      refine ⟨s2, ?_, by rw [countEq_cons_eq]; exact h2⟩
      rw [countEq_cons_eq]
      simp only [beq_self_eq_true, if_true, h1]
      congr 1
      omega
    · refine ⟨s, ?_, by rw [countEq_cons_ne hc]; exact hs⟩
      rw [countEq_cons_ne hc]
      have : (some c == some '=') = false := by simpa using hc
      simp [this]

theorem longOpener_cons (r : List Char) :
    Spec.longOpener ('[' :: r) =
      match Spec.countEq r with
      | (n, '[' :: b) => some (n, b)
      | _ => none := by
  rw [Spec.longOpener]
  rfl

theorem longOpener_some_iff (r : List Char) (lvl : Nat) (body : List Char) :
    Spec.longOpener ('[' :: r) = some (lvl, body) ↔ Spec.countEq r = (lvl, '[' :: body) := by
  rw [longOpener_cons]
  generalize Spec.countEq r = p
  obtain ⟨n, t⟩ := p
  constructor
  · intro h
    split at h
    · rename_i n' b heq
      cases heq
      cases h
      rfl
    · cases h
  · intro h
    cases h
    rfl

theorem longOpener_none_iff (r : List Char) :
    Spec.longOpener ('[' :: r) = none ↔ (Spec.countEq r).2.head? ≠ some '[' := by
  rw [longOpener_cons]
  generalize Spec.countEq r = p
  obtain ⟨n, t⟩ := p
  constructor
  · intro h
    split at h
    · cases h
    · rename_i hne
      intro ht
      cases t with
      | nil => cases ht
      | cons c t' =>
        simp at ht
        subst ht
        exact hne n t' rfl
  · intro h
    split
    · rename_i n' b heq
      cases heq
      simp at h
    · rfl

theorem peek_of {s : LexSt} {a b : Char} {t : List Char} (h : s.rest = a :: b :: t) : s.peek = some b := by
  simp [LexSt.peek, h]

/-- what follows a `[` that opens a long bracket is `=` or `[` -/
theorem opener_peek {s : LexSt} {r : List Char} (hs : s.rest = '[' :: r) {lvl : Nat} {body : List Char}
    (ho : Spec.longOpener s.rest = some (lvl, body)) : s.peek = some '=' ∨ s.peek = some '[' := by
  rw [hs, longOpener_some_iff] at ho
  cases r with
  | nil => rw [countEq_nil] at ho; cases ho
  | cons c t =>
    by_cases hc : c = '='
    · subst hc; exact Or.inl (peek_of hs)
    · rw [countEq_cons_ne hc] at ho
      cases ho
      exact Or.inr (peek_of hs)

theorem dropNewline_rest (s3 : LexSt) :
    (if s3.cur == some '\n' then advance s3 else s3).rest = Spec.dropFirstNewline s3.rest := by
  cases h : s3.rest with
  | nil => simp [cur_eq_none h, h, Spec.dropFirstNewline]
  | cons c t =>
    rw [cur_of h]
    by_cases hc : c = '\n'
    · subst hc
      simp [advance_rest_of h, Spec.dropFirstNewline]
    · have : (some c == some '\n') = false := by simpa using hc
      rw [Spec.dropFirstNewline.eq_2]
      · simp [this, h]
      · intro cs' h'; simp at h'; exact hc h'.1

/-- `getLongBrackets` on a text `[` `=`^lvl `[` body: the body loop, started after the optional first newline -/
theorem getLongBrackets_unfold {s : LexSt} {r : List Char} (hs : s.rest = '[' :: r) {lvl : Nat} {body : List Char}
    (ho : Spec.longOpener s.rest = some (lvl, body)) :
    ∃ s4, s4.rest = Spec.dropFirstNewline body ∧
      getLongBrackets s = longBody lvl s.line s.col (s4.rest.length + 1) s4 none [] := by
  have hpk := opener_peek hs ho
  rw [hs, longOpener_some_iff] at ho
  obtain ⟨s2, h1, h2⟩ := countEquals_spec r ((advance s).rest.length + 1) (advance s) 0 (advance_rest_of hs)
    (by rw [advance_rest_of hs]; omega)
  rw [ho] at h1 h2
  simp only [Nat.zero_add] at h1 h2
  have hcond : (s.cur == some '[' && (s.peek == some '=' || s.peek == some '[')) = true := by
    rw [cur_of hs]
    rcases hpk with h | h <;> simp [h]
  have hs3 : (advance s2).rest = body := advance_rest_of h2
  refine ⟨if (advance s2).cur == some '\n' then advance (advance s2) else advance s2, ?_, ?_⟩
  · rw [dropNewline_rest, hs3]
  · unfold getLongBrackets
    simp only [hcond, Bool.not_true, Bool.false_eq_true, if_false, h1, cur_of h2, bne_self_eq_false]

/-- **Long brackets agree (1)**: the reference reads `(v, rest')`, so does the model -/
theorem getLongBrackets_agree {s : LexSt} {r : List Char} (hs : s.rest = '[' :: r) {lvl : Nat} {body v rest' : List Char}
    (ho : Spec.longOpener s.rest = some (lvl, body))
    (hb : Spec.longBody lvl (Spec.dropFirstNewline body) = some (v, rest')) :
    ∃ s', getLongBrackets s = .ok (v, s') ∧ s'.rest = rest' := by
  obtain ⟨s4, h4, heq⟩ := getLongBrackets_unfold hs ho
  have := longBody_agree lvl s.line s.col s4.rest (s4.rest.length + 1) s4 none [] [] rfl (by omega) (by simp [pend])
  rw [← heq] at this
  simp only [pend, List.nil_append, h4, hb] at this
  exact this

/-- **Long brackets agree (2)**: the reference finds no closer, the model raises "long brackets never closed" at
the position of the opening `[` -/
theorem getLongBrackets_unclosed {s : LexSt} {r : List Char} (hs : s.rest = '[' :: r) {lvl : Nat} {body : List Char}
    (ho : Spec.longOpener s.rest = some (lvl, body))
    (hb : Spec.longBody lvl (Spec.dropFirstNewline body) = none) :
    getLongBrackets s = .error (.lexer "long brackets never closed" s.line s.col) := by
  obtain ⟨s4, h4, heq⟩ := getLongBrackets_unfold hs ho
  have := longBody_agree lvl s.line s.col s4.rest (s4.rest.length + 1) s4 none [] [] rfl (by omega) (by simp [pend])
  rw [← heq] at this
  simp only [pend, List.nil_append, h4, hb] at this
  exact this

/-- **Long brackets agree (3)**: `[` followed by `=` or `[` that is not an opener `[=*[` is the lexer error
"Malformed long bracket" (never a Python exception, never out of fuel) -/
theorem getLongBrackets_malformed {s : LexSt} {r : List Char} (hs : s.rest = '[' :: r)
    (ho : Spec.longOpener s.rest = none) (hpk : s.peek = some '=' ∨ s.peek = some '[') :
    ∃ l c, getLongBrackets s = .error (.lexer "Malformed long bracket" l c) := by
  rw [hs, longOpener_none_iff] at ho
  obtain ⟨s2, h1, h2⟩ := countEquals_spec r ((advance s).rest.length + 1) (advance s) 0 (advance_rest_of hs)
    (by rw [advance_rest_of hs]; omega)
  have hcond : (s.cur == some '[' && (s.peek == some '=' || s.peek == some '[')) = true := by
    rw [cur_of hs]
    rcases hpk with h | h <;> simp [h]
  have hcur : (s2.cur != some '[') = true := by
    simp only [LexSt.cur, h2]
    simpa using ho
  refine ⟨s2.line, s2.col, ?_⟩
  unfold getLongBrackets
  simp only [hcond, Bool.not_true, Bool.false_eq_true, if_false, h1, hcur, if_true]
  rfl

/-- the case not covered by (3): `[` followed by neither `=` nor `[` violates the assertion of `get_long_brackets`
(the lexer never calls it there) -/
theorem getLongBrackets_assert {s : LexSt} (h : ¬ (s.cur = some '[' ∧ (s.peek = some '=' ∨ s.peek = some '['))) :
    getLongBrackets s = .error (.py "AssertionError" "lexer.get_long_brackets") := by
  unfold getLongBrackets
  have : (s.cur == some '[' && (s.peek == some '=' || s.peek == some '[')) = false := by
    cases hb : (s.cur == some '[' && (s.peek == some '=' || s.peek == some '['))
    · rfl
    · exfalso; apply h; simpa using hb
  simp [this]

end Tumfl.Theory
