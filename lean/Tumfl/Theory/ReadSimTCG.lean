import Tumfl.Theory.ReadSimTCGInd
/-!
# Formatting preserves the program, at token level, for what the final text lexes to

The final text of `format` lexes to a reading `ks` of `L ++ [.sep .statement]` where `TCG none (emit sty b) L`: `L` is
`emit sty b` with at most one Argument separator inserted in front of a `}` whose constructor is not empty and does not
already end in a separator (`indent_brackets`' trailing comma), and one more statement separator stands at the very end
(a non-minifying style appends it).  `read_sim_tcg`: the reference parser accepts every such reading, with the same tree
modulo parentheses and empty statements.  The reference `fields` loop accepts the trailing `,`; the final `;` is an empty
statement - or, after a final `return ...` (whose own separator `visit_Chunk` has sliced off), the one `;` that `retstat`
allows.

The development `ReadSimTCG*.lean` (namespace `Tumfl.Theory.TCGSim`) is the development `ReadSim*.lean` over the reading
relation `TCGSim.Rd p ps ts := ∃ L, TCG p ps L ∧ Rd L ts`; the reading-independent parts are shared.
-/
namespace Tumfl.Theory
open Tumfl.Model Tumfl.Spec

theorem read_sim_tcg_fuel (sty : Style) (b : Model.Block) (hb : Printable b) (L : Pieces) (ks : List Spec.Tk)
    (hL : TCG none (emit sty b) L) (hks : ReadTks (L ++ [.sep .statement]) ks) :
    ∃ c, BlockRel (dropSemis b) (dropEmpty c) ∧
      ∀ f, 4 * ks.length + 2 ≤ f → Spec.block f (toToks ks) = .ok (c, [eofTok]) := by
  obtain ⟨t, ss, rets, c⟩ := b
  obtain ⟨hc, hp⟩ := hb
  simp only [Block.isChunk] at hc
  subst hc
  have hss : ∀ s ∈ ss, pStmt s = true ∧ TCGSim.StmtPropR sty s := by
    cases rets <;> simp only [pBlock, Bool.and_eq_true, Bool.and_true] at hp
    · exact TCGSim.xstmtsR sty ss hp
    · exact TCGSim.xstmtsR sty ss hp.1
  have hr : ∀ es, rets = some es → ∀ e ∈ es, TCGSim.XPropR sty e := by
    intro es he
    subst he
    simp only [pBlock, Bool.and_eq_true] at hp
    exact TCGSim.xargsR sty es hp.2
  -- split the reading at the final separator
  have hrd : Rd (L ++ [.sep .statement]) (ks.map mkTok) := ⟨ks, hks, rfl⟩
  obtain ⟨tl, te, htl, hte, hsplit⟩ := Rd_append.mp hrd
  have hsE : SemiOpt te := by
    have := (AllRd_statement (r := []) (K := SemiOpt)).mpr (by intro s hs t ht; rw [Rd_nil.mp ht]; simpa using hs)
    exact this te hte
  obtain ⟨cb, rel, hparse⟩ := TCGSim.root_stepR hss hr none tl ⟨L, hL, htl⟩ te hsE
  refine ⟨cb, rel, ?_⟩
  intro f hf
  have hlen : ks.length = tl.length + te.length := by
    have := congrArg List.length hsplit
    simpa using this
  have := hparse f (by omega)
  rw [toToks, hsplit, List.append_assoc]
  exact this

/-- MAIN THEOREM (what the final text lexes to). -/
theorem read_sim_tcg (sty : Style) (b : Model.Block) (hb : Printable b) (L : Pieces) (ks : List Spec.Tk)
    (hL : TCG none (emit sty b) L) (hks : ReadTks (L ++ [.sep .statement]) ks) :
    ∃ f c, Spec.block f (toToks ks) = .ok (c, [eofTok]) ∧ BlockRel (dropSemis b) (dropEmpty c) := by
  obtain ⟨c, rel, h⟩ := read_sim_tcg_fuel sty b hb L ks hL hks
  exact ⟨_, c, h _ (Nat.le_refl _), rel⟩

/-- the same for the reference parser's entry point `parseToks` -/
theorem read_sim_tcg_parseToks (sty : Style) (b : Model.Block) (hb : Printable b) (L : Pieces) (ks : List Spec.Tk)
    (hL : TCG none (emit sty b) L) (hks : ReadTks (L ++ [.sep .statement]) ks) :
    ∃ c, Spec.parseToks (toToks ks) = .ok c ∧ BlockRel (dropSemis b) (dropEmpty c) := by
  obtain ⟨c, rel, h⟩ := read_sim_tcg_fuel sty b hb L ks hL hks
  refine ⟨c, ?_, rel⟩
  have := h (4 * (toToks ks).length + 64) (by simp [toToks]; omega)
  unfold parseToks
  rw [this]
  rfl

/-! ## non-vacuity: `return {x, y,};` -/

/-- `return {x, y}` -/
def tcgDemoTree : Model.Block :=
  let tk : Token := default
  let nm (s : String) : Expr := .name tk s.toList
  .mk tk [] (some [.table tk [.numbered tk (nm "x"), .numbered tk (nm "y")]]) true

example : Printable tcgDemoTree := by decide

example : emit Props.demoStyle tcgDemoTree =
    [.str "return".toList, .sep .space, .str ['{'], .str ['x'], .sep .argument, .str ['y'], .str ['}']] := by decide +kernel

/-- the trailing comma in front of the `}` -/
example : TCG none [.str "return".toList, .sep .space, .str ['{'], .str ['x'], .sep .argument, .str ['y'], .str ['}']]
    [.str "return".toList, .sep .space, .str ['{'], .str ['x'], .sep .argument, .str ['y'], .sep .argument, .str ['}']] :=
  .str _ (.sep _ (by decide) (.str _ (.str _ (.arg (.str _ (.comma (by decide) (.str _ .nil)))))))

/-- the reading `return {x, y,};` of it (the final separator read as `;`) is accepted by the reference parser -/
example : (match Spec.parseToks (toToks (piecesTks true
      ([.str "return".toList, .sep .space, .str ['{'], .str ['x'], .sep .argument, .str ['y'], .sep .argument, .str ['}']] ++
        [.sep .statement]))) with
    | .ok _ => true | .error _ => false) = true := by decide +kernel

end Tumfl.Theory
