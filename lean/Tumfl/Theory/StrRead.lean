import Tumfl.Inst.StrRead
/-!
# Quoted string literals are decoded exactly as Lua 5.4 reads them (core of C05)

A quoted literal body is described *declaratively* as a list of `StrItem`s (plain characters and the
six kinds of escape sequences) with a spelling and a value.  `WF` carries the side conditions that
maximal munch needs.  Then

* `getString_spell`: the model of `Lexer.get_string` decodes every well-formed in-scope literal to its
  declared value and stops right after the closing quote;
* `spec_strBody_spell`: the reference reader `Spec.strBody` reads the same items to the same value;
* `getString_no_py`, `getString_no_fuel`: whatever the input, `get_string` fails only with a
  `LexerError` (or at the two documented model borders), never with a Python built-in exception and
  never by running out of fuel; the "Unreachable" site in `escapeSeq` is unreachable.
-/
namespace Tumfl.Theory
open Tumfl.Model

/-! ## the declarative description -/

inductive StrItem
  | plain (c : Char)
  | simple (l : Char) (v : Char)
  | z (ws : List Char)
  | dec (ds : List Char)
  | hex (a b : Char)
  | uni (ds : List Char)
  deriving Repr

def StrItem.spell : StrItem → List Char
  | .plain c => [c]
  | .simple l _ => ['\\', l]
  | .z ws => '\\' :: 'z' :: ws
  | .dec ds => '\\' :: ds
  | .hex a b => ['\\', 'x', a, b]
  | .uni ds => '\\' :: 'u' :: '{' :: (ds ++ ['}'])

/-- the characters an item denotes (meaningful for in-scope items, see `InScope`) -/
def StrItem.value : StrItem → List Char
  | .plain c => [c]
  | .simple _ v => [v]
  | .z _ => []
  | .dec ds => [Char.ofNat (intOfDec ds)]
  | .hex a b => [Char.ofNat (intOfHex [a, b])]
  | .uni ds => [Char.ofNat (intOfHex ds)]

/-- the value in the reference's terms -/
def StrItem.units : StrItem → List Spec.SUnit
  | .plain c => [.ch c.toNat]
  | .simple _ v => [.ch v.toNat]
  | .z _ => []
  | .dec ds => [Spec.byteUnit (intOfDec ds)]
  | .hex a b => [Spec.byteUnit (intOfHex [a, b])]
  | .uni ds => [.ch (intOfHex ds)]

def spellAll (is : List StrItem) : List Char := is.flatMap StrItem.spell
def valueAll (is : List StrItem) : List Char := is.flatMap StrItem.value
def unitsAll (is : List StrItem) : List Spec.SUnit := is.flatMap StrItem.units

@[simp] theorem spellAll_nil : spellAll [] = [] := rfl
@[simp] theorem spellAll_cons (i : StrItem) (is : List StrItem) : spellAll (i :: is) = i.spell ++ spellAll is := by
  simp [spellAll]
@[simp] theorem valueAll_nil : valueAll [] = [] := rfl
@[simp] theorem valueAll_cons (i : StrItem) (is : List StrItem) : valueAll (i :: is) = i.value ++ valueAll is := by
  simp [valueAll]
@[simp] theorem unitsAll_nil : unitsAll [] = [] := rfl
@[simp] theorem unitsAll_cons (i : StrItem) (is : List StrItem) : unitsAll (i :: is) = i.units ++ unitsAll is := by
  simp [unitsAll]

/-- well-formedness of one item; `next` is the character that follows it in the literal (the first
character of the next item's spelling, or the closing quote) -/
def StrItem.WF (q : Char) (next : Char) : StrItem → Prop
  | .plain c => c ≠ q ∧ c ≠ '\\' ∧ c ≠ '\n' ∧ c ≠ '\r'
  | .simple l v => (l, v) ∈ Gen.escapeCodes
  | .z ws => (∀ w ∈ ws, w ∈ Gen.whitespace) ∧ next ∉ Gen.whitespace
  | .dec ds => 1 ≤ ds.length ∧ ds.length ≤ 3 ∧ (∀ d ∈ ds, d ∈ Gen.number) ∧ intOfDec ds ≤ 255 ∧
      (ds.length < 3 → next ∉ Gen.number)
  | .hex a b => a ∈ Gen.hexNumber ∧ b ∈ Gen.hexNumber
  | .uni ds => ds ≠ [] ∧ (∀ d ∈ ds, d ∈ Gen.hexNumber) ∧ intOfHex ds < 2 ^ 31

/-- the character following the items `is` in a literal closed by `q` -/
def nextChar (q : Char) (is : List StrItem) : Char := (spellAll is ++ [q]).head (by simp)

/-- well-formedness of a literal body: every item is well formed w.r.t. the character after it -/
def WF (q : Char) : List StrItem → Prop
  | [] => True
  | i :: is => i.WF q (nextChar q is) ∧ WF q is

/-- what the Python code can represent: byte escapes below 128 (`bytes((b,)).decode("utf-8")`), and
`\u{..}` escapes that are Unicode scalar values (`chr` of a non-surrogate) -/
def StrItem.InScope : StrItem → Prop
  | .dec ds => intOfDec ds < 128
  | .hex a b => intOfHex [a, b] < 128
  | .uni ds => intOfHex ds ≤ 0x10FFFF ∧ ¬ (0xD800 ≤ intOfHex ds ∧ intOfHex ds ≤ 0xDFFF)
  | _ => True

def InScope (is : List StrItem) : Prop := ∀ i ∈ is, i.InScope

theorem spell_ne_nil (i : StrItem) : i.spell ≠ [] := by cases i <;> simp [StrItem.spell]

theorem head_spellAll_append (q : Char) (is : List StrItem) (rest : List Char) :
    ∃ t, spellAll is ++ q :: rest = nextChar q is :: t := by
  cases h : spellAll is with
  | nil => exact ⟨rest, by simp [nextChar, h]⟩
  | cons c cs => exact ⟨cs ++ q :: rest, by simp [nextChar, h]⟩

/-! ## the cursor: every scanner's resulting `rest` depends only on `rest` -/

theorem advance_rest (s : LexSt) : (advance s).rest = s.rest.tail := by
  unfold advance
  cases h : s.rest with
  | nil => simp [h]
  | cons c r =>
    cases r with
    | nil => rfl
    | cons d r' => simp only; split <;> rfl

theorem advance_rest_of {s : LexSt} {c : Char} {r : List Char} (h : s.rest = c :: r) : (advance s).rest = r := by
  rw [advance_rest, h]; rfl

theorem cur_of {s : LexSt} {c : Char} {r : List Char} (h : s.rest = c :: r) : s.cur = some c := by
  simp [LexSt.cur, h]

theorem cur_eq_none {s : LexSt} (h : s.rest = []) : s.cur = none := by
  simp [LexSt.cur, h]

theorem skipWhitespace_spell (ws rest : List Char) (c : Char) (t : List Char) (hrest : rest = c :: t)
    (hws : ∀ w ∈ ws, w ∈ Gen.whitespace) (hc : c ∉ Gen.whitespace) :
    ∀ (f : Nat) (s : LexSt), ws.length ≤ f → s.rest = ws ++ rest → (skipWhitespace f s).rest = rest := by
  induction ws with
  | nil =>
    intro f s _ hs
    cases f with
    | zero => simpa [skipWhitespace] using hs
    | succ f =>
      have hcur : s.cur = some c := cur_of (by simpa [hrest] using hs)
      have : Gen.whitespace.contains c = false := by simpa using hc
      simp only [skipWhitespace, hcur, inStr, this]
      simpa using hs
  | cons w ws ih =>
    intro f s hf hs
    cases f with
    | zero => simp at hf
    | succ f =>
      have hcur : s.cur = some w := cur_of (by simpa using hs)
      have : Gen.whitespace.contains w = true := by simpa using hws w (by simp)
      simp only [skipWhitespace, hcur, inStr, this, if_true]
      exact ih (fun x hx => hws x (by simp [hx])) f (advance s) (by simpa using hf)
        (advance_rest_of (by simpa using hs))

theorem takeWhileIn_spell (set : List Char) (ds rest : List Char) (c : Char) (t : List Char) (hrest : rest = c :: t)
    (hds : ∀ d ∈ ds, d ∈ set) (hc : c ∉ set) :
    ∀ (f : Nat) (s : LexSt) (acc : List Char), ds.length < f → s.rest = ds ++ rest →
      ∃ s', takeWhileIn set false f s acc = (acc.reverse ++ ds, s') ∧ s'.rest = rest := by
  induction ds with
  | nil =>
    intro f s acc hf hs
    cases f with
    | zero => simp at hf
    | succ f =>
      have hcur : s.cur = some c := cur_of (by simpa [hrest] using hs)
      exact ⟨s, by simp [takeWhileIn, hcur, hc], by simpa using hs⟩
  | cons d ds ih =>
    intro f s acc hf hs
    cases f with
    | zero => simp at hf
    | succ f =>
      have hcur : s.cur = some d := cur_of (by simpa using hs)
      obtain ⟨s', h1, h2⟩ := ih (fun x hx => hds x (by simp [hx])) f (advance s) (d :: acc)
        (by simpa using hf) (advance_rest_of (by simpa using hs))
      exact ⟨s', by simp [takeWhileIn, hcur, hds d (by simp), h1], h2⟩

/-! ## one escape sequence, read by the model -/

theorem escapeSeq_simple (iu : Bool) (s : LexSt) (l v : Char) (r : List Char) (hs : s.rest = l :: r)
    (h : (l, v) ∈ Gen.escapeCodes) : ∃ s', escapeSeq iu s = .ok ([v], s') ∧ s'.rest = r := by
  obtain ⟨h1, h2, h3, h4, h5, _, _⟩ := Inst.escapeCodes_facts (l, v) h
  refine ⟨advance s, ?_, advance_rest_of hs⟩
  simp only at h1 h2 h3 h4 h5
  unfold escapeSeq
  simp only [cur_of hs, h1, h2, h3, h4, h5, Bool.false_eq_true, if_false]

theorem escapeSeq_z (iu : Bool) (s : LexSt) (ws rest : List Char) (c : Char) (t : List Char) (hrest : rest = c :: t)
    (hws : ∀ w ∈ ws, w ∈ Gen.whitespace) (hc : c ∉ Gen.whitespace)
    (hs : s.rest = 'z' :: (ws ++ rest)) : ∃ s', escapeSeq iu s = .ok ([], s') ∧ s'.rest = rest := by
  have h1 := advance_rest_of hs
  refine ⟨_, ?_, skipWhitespace_spell ws rest c t hrest hws hc ((advance s).rest.length + 1) (advance s) (by simp [h1]; omega) h1⟩
  unfold escapeSeq
  simp only [cur_of hs, beq_self_eq_true, if_true]

theorem escapeSeq_hex (s : LexSt) (a b : Char) (r : List Char) (ha : a ∈ Gen.hexNumber) (hb : b ∈ Gen.hexNumber)
    (hv : intOfHex [a, b] < 128) (hs : s.rest = 'x' :: a :: b :: r) :
    ∃ s', escapeSeq false s = .ok ([Char.ofNat (intOfHex [a, b])], s') ∧ s'.rest = r := by
  have h1 := advance_rest_of hs
  have h2 := advance_rest_of h1
  have h3 := advance_rest_of h2
  refine ⟨_, ?_, h3⟩
  have ha' : Gen.hexNumber.contains a = true := by simpa using ha
  have hb' : Gen.hexNumber.contains b = true := by simpa using hb
  have hxz : ('x' == 'z') = false := by decide
  unfold escapeSeq
  simp only [cur_of hs, cur_of h1, cur_of h2, hxz, beq_self_eq_true, if_true, ha', hb', Bool.not_true, Bool.false_eq_true, if_false,
    safeDecode, hv]

theorem escapeSeq_uni (s : LexSt) (ds r : List Char) (hne : ds ≠ []) (hds : ∀ d ∈ ds, d ∈ Gen.hexNumber)
    (hv : intOfHex ds < 2 ^ 31) (h1 : intOfHex ds ≤ 0x10FFFF) (h2 : ¬ (0xD800 ≤ intOfHex ds ∧ intOfHex ds ≤ 0xDFFF))
    (hs : s.rest = 'u' :: '{' :: (ds ++ '}' :: r)) :
    ∃ s', escapeSeq false s = .ok ([Char.ofNat (intOfHex ds)], s') ∧ s'.rest = r := by
  have e1 := advance_rest_of hs
  have e2 := advance_rest_of e1
  obtain ⟨s3, e3, e3r⟩ := takeWhileIn_spell Gen.hexNumber ds ('}' :: r) '}' r rfl hds (by decide)
    ((advance (advance s)).rest.length + 1) (advance (advance s)) [] (by simp [e2]; omega) e2
  have e4 := advance_rest_of e3r
  refine ⟨advance s3, ?_, e4⟩
  have huz : ('u' == 'z') = false := by decide
  have hux : ('u' == 'x') = false := by decide
  have hne' : ds.isEmpty = false := by cases ds <;> simp_all
  have hv' : ¬ (intOfHex ds ≥ 2 ^ 31) := by omega
  have h1' : ¬ (intOfHex ds > 0x10FFFF) := by omega
  unfold escapeSeq
  simp only [cur_of hs, cur_of e1, huz, hux, beq_self_eq_true, if_true, Bool.false_eq_true, if_false, bne_self_eq_false,
    e3, List.reverse_nil, List.nil_append, hne', cur_of e3r, hv', safeCodePoint, h1']
  by_cases h3 : 0xD800 ≤ intOfHex ds
  · have h4 : ¬ intOfHex ds ≤ 0xDFFF := fun h => h2 ⟨h3, h⟩
    simp [h3, h4]
  · simp [h3]

theorem escapeSeq_dec (s : LexSt) (ds rest : List Char) (c0 : Char) (t : List Char) (hrest : rest = c0 :: t)
    (hlen1 : 1 ≤ ds.length) (hlen3 : ds.length ≤ 3) (hds : ∀ d ∈ ds, d ∈ Gen.number)
    (hstop : ds.length < 3 → c0 ∉ Gen.number) (hv : intOfDec ds < 128)
    (hs : s.rest = ds ++ rest) :
    ∃ s', escapeSeq false s = .ok ([Char.ofNat (intOfDec ds)], s') ∧ s'.rest = rest := by
  subst hrest
  have hv' : ¬ (intOfDec ds > 255) := by omega
  match ds, hlen1, hlen3 with
  | [a], _, _ =>
    have ha := hds a (by simp)
    obtain ⟨z1, z2, z3, _⟩ := Inst.number_facts a ha
    have hc : c0 ∉ Gen.number := hstop (by simp)
    have e1 := advance_rest_of hs
    refine ⟨advance s, ?_, e1⟩
    unfold escapeSeq
    simp [cur_of hs, cur_of e1, z1, z2, z3, ha, hc, safeDecode, hv, hv'] 
  | [a, b], _, _ =>
    have ha := hds a (by simp)
    have hb := hds b (by simp)
    obtain ⟨z1, z2, z3, _⟩ := Inst.number_facts a ha
    have hc : c0 ∉ Gen.number := hstop (by simp)
    have e1 := advance_rest_of hs
    have e2 := advance_rest_of e1
    refine ⟨advance (advance s), ?_, e2⟩
    unfold escapeSeq
    simp [cur_of hs, cur_of e1, cur_of e2, z1, z2, z3, ha, hb, hc, safeDecode, hv, hv']
  | [a, b, c], _, _ =>
    have ha := hds a (by simp)
    have hb := hds b (by simp)
    have hc := hds c (by simp)
    obtain ⟨z1, z2, z3, _⟩ := Inst.number_facts a ha
    have e1 := advance_rest_of hs
    have e2 := advance_rest_of e1
    have e3 := advance_rest_of e2
    refine ⟨advance (advance (advance s)), ?_, e3⟩
    unfold escapeSeq
    simp [cur_of hs, cur_of e1, cur_of e2, z1, z2, z3, ha, hb, hc, safeDecode, hv, hv']


/-! ## the loop of `get_string` on a well-formed in-scope literal -/

theorem stringLoop_close (iu : Bool) (q : Char) (f : Nat) (s : LexSt) (acc r : List Char) (hs : s.rest = q :: r) :
    stringLoop iu q (f + 1) false s acc = .ok (acc.reverse, advance s) := by
  simp [stringLoop, cur_of hs]

theorem stringLoop_plain (iu : Bool) (q : Char) (f : Nat) (s : LexSt) (acc r : List Char) (c : Char)
    (hs : s.rest = c :: r) (h1 : c ≠ q) (h2 : c ≠ '\\') (h3 : c ≠ '\n') :
    stringLoop iu q (f + 1) false s acc = stringLoop iu q f false (advance s) (c :: acc) := by
  simp [stringLoop, cur_of hs, h1, h2, h3]

theorem stringLoop_esc (iu : Bool) (q : Char) (f : Nat) (s s1 : LexSt) (acc r v : List Char)
    (hs : s.rest = '\\' :: r) (hr : r ≠ []) (hq : q ≠ '\\') (he : escapeSeq iu (advance s) = .ok (v, s1)) :
    stringLoop iu q (f + 2) false s acc = stringLoop iu q f false s1 (v.reverse ++ acc) := by
  obtain ⟨c, r, rfl⟩ := List.exists_cons_of_ne_nil hr
  have e1 := advance_rest_of hs
  have : ('\\' == q) = false := by simpa using fun h => hq h.symm
  simp [stringLoop, cur_of hs, cur_of e1, this, he]

theorem quote_ne_backslash {q : Char} (hq : q = '"' ∨ q = '\'') : q ≠ '\\' := by
  rcases hq with rfl | rfl <;> decide

theorem stringLoop_spell (q : Char) (hq : q = '"' ∨ q = '\'') (rest : List Char) :
    ∀ (items : List StrItem), WF q items → InScope items →
    ∀ (f : Nat) (s : LexSt) (acc : List Char), 2 * (spellAll items).length + 1 ≤ f →
      s.rest = spellAll items ++ q :: rest →
      ∃ s', stringLoop false q f false s acc = .ok (acc.reverse ++ valueAll items, s') ∧ s'.rest = rest := by
  have hqb := quote_ne_backslash hq
  intro items
  induction items with
  | nil =>
    intro _ _ f s acc hf hs
    obtain ⟨f, rfl⟩ : ∃ f', f = f' + 1 := ⟨f - 1, by omega⟩
    simp only [spellAll_nil, List.nil_append] at hs
    exact ⟨advance s, by simp [stringLoop_close false q f s acc rest hs], advance_rest_of hs⟩
  | cons i is ih =>
    intro hwf hsc f s acc hf hs
    obtain ⟨hi, hwf'⟩ := hwf
    have hsci : i.InScope := hsc i (by simp)
    have hsc' : InScope is := fun j hj => hsc j (by simp [hj])
    obtain ⟨t, ht⟩ := head_spellAll_append q is rest
    simp only [spellAll_cons, List.append_assoc] at hs
    simp only [spellAll_cons, List.length_append] at hf
    cases i with
    | plain c =>
      obtain ⟨h1, h2, h3, _⟩ := hi
      obtain ⟨f, rfl⟩ : ∃ f', f = f' + 1 := ⟨f - 1, by omega⟩
      simp only [StrItem.spell, List.cons_append, List.nil_append] at hs
      simp only [StrItem.spell, List.length_singleton] at hf
      rw [stringLoop_plain false q f s acc _ c hs h1 h2 h3]
      obtain ⟨s', e, er⟩ := ih hwf' hsc' f (advance s) (c :: acc) (by omega) (advance_rest_of hs)
      exact ⟨s', by simpa [StrItem.value] using e, er⟩
    | simple l v =>
      obtain ⟨f, rfl⟩ : ∃ f', f = f' + 2 := ⟨f - 2, by simp [StrItem.spell] at hf; omega⟩
      simp only [StrItem.spell, List.cons_append, List.nil_append] at hs
      simp only [StrItem.spell, List.length_cons, List.length_nil] at hf
      obtain ⟨s1, he, hs1⟩ := escapeSeq_simple false (advance s) l v _ (advance_rest_of hs) hi
      rw [stringLoop_esc false q f s s1 acc _ _ hs (by simp) hqb he]
      obtain ⟨s', e, er⟩ := ih hwf' hsc' f s1 ([v].reverse ++ acc) (by omega) hs1
      exact ⟨s', by simpa [StrItem.value] using e, er⟩
    | z ws =>
      obtain ⟨h1, h2⟩ := hi
      obtain ⟨f, rfl⟩ : ∃ f', f = f' + 2 := ⟨f - 2, by simp [StrItem.spell] at hf; omega⟩
      simp only [StrItem.spell, List.cons_append] at hs
      simp only [StrItem.spell, List.length_cons] at hf
      obtain ⟨s1, he, hs1⟩ := escapeSeq_z false (advance s) ws _ _ t ht h1 h2 (advance_rest_of hs)
      rw [stringLoop_esc false q f s s1 acc _ _ hs (by simp) hqb he]
      obtain ⟨s', e, er⟩ := ih hwf' hsc' f s1 ([].reverse ++ acc) (by omega) hs1
      exact ⟨s', by simpa [StrItem.value] using e, er⟩
    | dec ds =>
      obtain ⟨h1, h2, h3, _, h5⟩ := hi
      obtain ⟨f, rfl⟩ : ∃ f', f = f' + 2 := ⟨f - 2, by simp [StrItem.spell] at hf; omega⟩
      simp only [StrItem.spell, List.cons_append] at hs
      simp only [StrItem.spell, List.length_cons] at hf
      obtain ⟨s1, he, hs1⟩ := escapeSeq_dec (advance s) ds _ _ t ht h1 h2 h3 h5 hsci (advance_rest_of hs)
      rw [stringLoop_esc false q f s s1 acc _ _ hs (by cases ds <;> simp_all) hqb he]
      obtain ⟨s', e, er⟩ := ih hwf' hsc' f s1 ([Char.ofNat (intOfDec ds)].reverse ++ acc) (by omega) hs1
      exact ⟨s', by simpa [StrItem.value] using e, er⟩
    | hex a b =>
      obtain ⟨h1, h2⟩ := hi
      obtain ⟨f, rfl⟩ : ∃ f', f = f' + 2 := ⟨f - 2, by simp [StrItem.spell] at hf; omega⟩
      simp only [StrItem.spell, List.cons_append, List.nil_append] at hs
      simp only [StrItem.spell, List.length_cons] at hf
      obtain ⟨s1, he, hs1⟩ := escapeSeq_hex (advance s) a b _ h1 h2 hsci (advance_rest_of hs)
      rw [stringLoop_esc false q f s s1 acc _ _ hs (by simp) hqb he]
      obtain ⟨s', e, er⟩ := ih hwf' hsc' f s1 ([Char.ofNat (intOfHex [a, b])].reverse ++ acc) (by omega) hs1
      exact ⟨s', by simpa [StrItem.value] using e, er⟩
    | uni ds =>
      obtain ⟨h1, h2, h3⟩ := hi
      obtain ⟨f, rfl⟩ : ∃ f', f = f' + 2 := ⟨f - 2, by simp [StrItem.spell] at hf; omega⟩
      simp only [StrItem.spell, List.cons_append, List.append_assoc, List.nil_append] at hs
      simp only [StrItem.spell, List.length_cons] at hf
      obtain ⟨s1, he, hs1⟩ := escapeSeq_uni (advance s) ds _ h1 h2 h3 hsci.1 hsci.2 (advance_rest_of hs)
      rw [stringLoop_esc false q f s s1 acc _ _ hs (by simp) hqb he]
      obtain ⟨s', e, er⟩ := ih hwf' hsc' f s1 ([Char.ofNat (intOfHex ds)].reverse ++ acc) (by omega) hs1
      exact ⟨s', by simpa [StrItem.value] using e, er⟩

theorem getString_spell (q : Char) (hq : q = '"' ∨ q = '\'') (items : List StrItem) (hwf : WF q items)
    (hscope : InScope items) (s : LexSt) (rest : List Char) (hs : s.rest = q :: (spellAll items ++ q :: rest)) :
    ∃ s', getString false s = .ok (valueAll items, s') ∧ s'.rest = rest := by
  have h1 := advance_rest_of hs
  have hq' : (q == '\'' || q == '"') = true := by rcases hq with rfl | rfl <;> decide
  obtain ⟨s', e, er⟩ := stringLoop_spell q hq rest items hwf hscope (2 * (advance s).rest.length + 2) (advance s) []
    (by simp [h1]; omega) h1
  refine ⟨s', ?_, er⟩
  unfold getString
  simp only [cur_of hs, hq', if_true]
  simpa using e


/-! ## the reference reader `Spec.strBody` on the same items -/

theorem strBody_close (q : Char) (f : Nat) (cs : List Char) : Spec.strBody q (f + 1) (q :: cs) = some ([], cs) := by
  simp [Spec.strBody]

theorem strBody_plain (q : Char) (f : Nat) (c : Char) (cs : List Char) (h1 : c ≠ q) (h2 : c ≠ '\\') (h3 : c ≠ '\n') (h4 : c ≠ '\r') :
    Spec.strBody q (f + 1) (c :: cs) = (Spec.strBody q f cs).map fun (v, r) => (.ch c.toNat :: v, r) := by
  simp [Spec.strBody, h1, h2, h3, h4]

/-- after a backslash: the generic arm (neither `x`, `u`, `z`) -/
theorem strBody_esc_other (q : Char) (f : Nat) (d : Char) (r : List Char) (hq : q ≠ '\\')
    (hx : (d == 'x') = false) (hu : (d == 'u') = false) (hz : (d == 'z') = false) :
    Spec.strBody q (f + 1) ('\\' :: d :: r) =
      if Spec.isDigit d then
        (if (Spec.readDec3 (d :: r)).1 ≤ 255 then
          (Spec.strBody q f (Spec.readDec3 (d :: r)).2).map fun x => (Spec.byteUnit (Spec.readDec3 (d :: r)).1 :: x.1, x.2) else none)
      else
        (Spec.escChar d).bind fun v => (Spec.strBody q f r).map fun x => (.ch v :: x.1, x.2) := by
  have : ('\\' == q) = false := by simpa using fun h => hq h.symm
  simp only [beq_eq_false_iff_ne, ne_eq] at hx hu hz
  rw [Spec.strBody]
  · simp only [this, Bool.false_eq_true, if_false]
    cases Spec.escChar d <;> simp
  all_goals (intros; simp_all)

theorem strBody_hex (q : Char) (f : Nat) (a b : Char) (r : List Char) (hq : q ≠ '\\')
    (ha : a ∈ Gen.hexNumber) (hb : b ∈ Gen.hexNumber) :
    Spec.strBody q (f + 1) ('\\' :: 'x' :: a :: b :: r) =
      (Spec.strBody q f r).map fun x => (Spec.byteUnit (intOfHex [a, b]) :: x.1, x.2) := by
  have : ('\\' == q) = false := by simpa using fun h => hq h.symm
  obtain ⟨a1, a2, _, _⟩ := Inst.hexNumber_facts a ha
  obtain ⟨b1, b2, _, _⟩ := Inst.hexNumber_facts b hb
  simp [Spec.strBody, this, a1, a2, b1, b2, intOfHex]

theorem strBody_z (q : Char) (f : Nat) (r : List Char) (hq : q ≠ '\\') :
    Spec.strBody q (f + 1) ('\\' :: 'z' :: r) = Spec.strBody q f (Spec.skipSpaces r) := by
  have : ('\\' == q) = false := by simpa using fun h => hq h.symm
  simp [Spec.strBody, this]

theorem strBody_uni (q : Char) (f : Nat) (r : List Char) (hq : q ≠ '\\') :
    Spec.strBody q (f + 1) ('\\' :: 'u' :: '{' :: r) =
      (Spec.readUHex r 0 false).bind fun p => (Spec.strBody q f p.2).map fun x => (.ch p.1 :: x.1, x.2) := by
  have : ('\\' == q) = false := by simpa using fun h => hq h.symm
  simp only [Spec.strBody, this, Bool.false_eq_true, if_false]
  cases Spec.readUHex r 0 false <;> simp

theorem skipSpaces_spell (ws : List Char) (c : Char) (t : List Char) (hws : ∀ w ∈ ws, w ∈ Gen.whitespace)
    (hc : c ∉ Gen.whitespace) : Spec.skipSpaces (ws ++ c :: t) = c :: t := by
  induction ws with
  | nil => 
    have : Spec.isSpace c = false := by rw [Inst.isSpace_eq]; simpa using hc
    simp [Spec.skipSpaces, this]
  | cons w ws ih =>
    have : Spec.isSpace w = true := Inst.whitespace_facts w (hws w (by simp))
    simp only [List.cons_append, Spec.skipSpaces, this, if_true]
    exact ih (fun x hx => hws x (by simp [hx]))

theorem hexfold_ge (ds : List Char) (a : Nat) : a ≤ ds.foldl (fun a c => a * 16 + hexVal c) a := by
  induction ds generalizing a with
  | nil => simp
  | cons d ds ih => simp only [List.foldl_cons]; exact Nat.le_trans (by omega) (ih _)

theorem readUHex_spell (ds r : List Char) (hds : ∀ d ∈ ds, d ∈ Gen.hexNumber) :
    ∀ (acc : Nat) (seen : Bool), (seen = true ∨ ds ≠ []) → ds.foldl (fun a c => a * 16 + hexVal c) acc < 2 ^ 31 →
      Spec.readUHex (ds ++ '}' :: r) acc seen = some (ds.foldl (fun a c => a * 16 + hexVal c) acc, r) := by
  induction ds with
  | nil =>
    intro acc seen hseen _
    have : seen = true := by simpa using hseen
    simp [Spec.readUHex, this]
  | cons d ds ih =>
    intro acc seen _ hv
    obtain ⟨d1, d2, _, d4⟩ := Inst.hexNumber_facts d (hds d (by simp))
    simp only [List.foldl_cons] at hv ⊢
    have hle := hexfold_ge ds (acc * 16 + hexVal d)
    have hlt : acc * 16 + hexVal d < 2 ^ 31 := by omega
    rw [List.cons_append, Spec.readUHex]
    · simp only [d1, d2, if_true, hlt]
      exact ih (fun x hx => hds x (by simp [hx])) _ true (Or.inl rfl) hv
    · intro h
      simp at d4
      exact d4 h

theorem readDec3_spell (ds : List Char) (c0 : Char) (t : List Char)
    (hlen1 : 1 ≤ ds.length) (hlen3 : ds.length ≤ 3) (hds : ∀ d ∈ ds, d ∈ Gen.number)
    (hstop : ds.length < 3 → c0 ∉ Gen.number) :
    Spec.readDec3 (ds ++ c0 :: t) = (intOfDec ds, c0 :: t) := by
  match ds, hlen1, hlen3 with
  | [a], _, _ =>
    obtain ⟨_, _, _, a1, a2, _⟩ := Inst.number_facts a (hds a (by simp))
    have hc : Spec.isDigit c0 = false := Inst.isDigit_of_not_mem c0 (by simpa using hstop (by simp))
    cases t with
    | nil => simp [Spec.readDec3, a1, a2, hc, intOfDec]
    | cons t1 t' => simp [Spec.readDec3, a1, a2, hc, intOfDec]
  | [a, b], _, _ =>
    obtain ⟨_, _, _, a1, a2, _⟩ := Inst.number_facts a (hds a (by simp))
    obtain ⟨_, _, _, b1, b2, _⟩ := Inst.number_facts b (hds b (by simp))
    have hc : Spec.isDigit c0 = false := Inst.isDigit_of_not_mem c0 (by simpa using hstop (by simp))
    simp [Spec.readDec3, a1, a2, b1, b2, hc, intOfDec]
  | [a, b, c], _, _ =>
    obtain ⟨_, _, _, a1, a2, _⟩ := Inst.number_facts a (hds a (by simp))
    obtain ⟨_, _, _, b1, b2, _⟩ := Inst.number_facts b (hds b (by simp))
    obtain ⟨_, _, _, c1, c2, _⟩ := Inst.number_facts c (hds c (by simp))
    simp [Spec.readDec3, a1, a2, b1, b2, c1, c2, intOfDec]
    omega


theorem strBody_simple (q : Char) (f : Nat) (l v : Char) (r : List Char) (hq : q ≠ '\\') (h : (l, v) ∈ Gen.escapeCodes) :
    Spec.strBody q (f + 1) ('\\' :: l :: r) = (Spec.strBody q f r).map fun x => (.ch v.toNat :: x.1, x.2) := by
  obtain ⟨_, h2, h3, h4, _, h6, h7⟩ := Inst.escapeCodes_facts (l, v) h
  simp only at h2 h3 h4 h6 h7
  rw [strBody_esc_other q f l r hq h3 h4 h2]
  simp [h6, h7]

theorem strBody_dec (q : Char) (f : Nat) (ds : List Char) (c0 : Char) (t : List Char) (hq : q ≠ '\\')
    (hlen1 : 1 ≤ ds.length) (hlen3 : ds.length ≤ 3) (hds : ∀ d ∈ ds, d ∈ Gen.number)
    (hstop : ds.length < 3 → c0 ∉ Gen.number) (hv : intOfDec ds ≤ 255) :
    Spec.strBody q (f + 1) ('\\' :: (ds ++ c0 :: t)) =
      (Spec.strBody q f (c0 :: t)).map fun x => (Spec.byteUnit (intOfDec ds) :: x.1, x.2) := by
  have hrd := readDec3_spell ds c0 t hlen1 hlen3 hds hstop
  cases ds with
  | nil => simp at hlen1
  | cons d ds' =>
    obtain ⟨h1, h2, h3, h4, _⟩ := Inst.number_facts d (hds d (by simp))
    rw [List.cons_append] at hrd ⊢
    rw [strBody_esc_other q f d _ hq h2 h3 h1, hrd]
    simp [h4, hv]

theorem spec_strBody_fuel (q : Char) (hq : q = '"' ∨ q = '\'') (rest : List Char) :
    ∀ (items : List StrItem), WF q items → ∀ f, (spellAll items).length + 1 ≤ f →
      Spec.strBody q f (spellAll items ++ q :: rest) = some (unitsAll items, rest) := by
  have hqb := quote_ne_backslash hq
  intro items
  induction items with
  | nil =>
    intro _ f hf
    obtain ⟨f, rfl⟩ : ∃ f', f = f' + 1 := ⟨f - 1, by omega⟩
    simp [strBody_close]
  | cons i is ih =>
    intro hwf f hf
    obtain ⟨hi, hwf'⟩ := hwf
    obtain ⟨t, ht⟩ := head_spellAll_append q is rest
    obtain ⟨f, rfl⟩ : ∃ f', f = f' + 1 := ⟨f - 1, by omega⟩
    have hne := spell_ne_nil i
    have hlen : 1 ≤ i.spell.length := by cases h : i.spell <;> simp_all
    simp only [spellAll_cons, List.length_append] at hf
    have ih' := ih hwf' f (by omega)
    simp only [spellAll_cons, List.append_assoc, unitsAll_cons]
    cases i with
    | plain c =>
      obtain ⟨h1, h2, h3, h4⟩ := hi
      simp only [StrItem.spell, List.cons_append, List.nil_append]
      rw [strBody_plain q f c _ h1 h2 h3 h4, ih']
      simp [StrItem.units]
    | simple l v =>
      simp only [StrItem.spell, List.cons_append, List.nil_append]
      rw [strBody_simple q f l v _ hqb hi, ih']
      simp [StrItem.units]
    | z ws =>
      obtain ⟨h1, h2⟩ := hi
      simp only [StrItem.spell, List.cons_append]
      rw [strBody_z q f _ hqb, ht, skipSpaces_spell ws _ t h1 h2, ← ht, ih']
      simp [StrItem.units]
    | dec ds =>
      obtain ⟨h1, h2, h3, h4, h5⟩ := hi
      simp only [StrItem.spell, List.cons_append]
      rw [ht, strBody_dec q f ds _ t hqb h1 h2 h3 h5 h4, ← ht, ih']
      simp [StrItem.units]
    | hex a b =>
      obtain ⟨h1, h2⟩ := hi
      simp only [StrItem.spell, List.cons_append, List.nil_append]
      rw [strBody_hex q f a b _ hqb h1 h2, ih']
      simp [StrItem.units]
    | uni ds =>
      obtain ⟨h1, h2, h3⟩ := hi
      simp only [StrItem.spell, List.cons_append, List.append_assoc, List.nil_append]
      rw [strBody_uni q f _ hqb, readUHex_spell ds _ h2 0 false (Or.inr h1) h3]
      simp only [Option.bind_some]
      rw [ih']
      simp [StrItem.units, intOfHex]

theorem spec_strBody_spell (q : Char) (hq : q = '"' ∨ q = '\'') (items : List StrItem) (hwf : WF q items)
    (rest : List Char) : ∃ f, Spec.strBody q f (spellAll items ++ q :: rest) = some (unitsAll items, rest) :=
  ⟨_, spec_strBody_fuel q hq rest items hwf _ (Nat.le_refl _)⟩

/-- the fuel the reference lexer `Spec.lexLoop` actually passes -/
theorem spec_strBody_spell_lex (q : Char) (hq : q = '"' ∨ q = '\'') (items : List StrItem) (hwf : WF q items)
    (rest : List Char) :
    Spec.strBody q ((spellAll items ++ q :: rest).length + 1) (spellAll items ++ q :: rest) = some (unitsAll items, rest) :=
  spec_strBody_fuel q hq rest items hwf _ (by simp)

theorem toNat_ofNat_valid (n : Nat) (h : n.isValidChar) : (Char.ofNat n).toNat = n := by
  simp [Char.ofNat, h, Char.ofNatAux, Char.toNat]

theorem units_inScope (i : StrItem) (h : i.InScope) : i.units = i.value.map fun c => .ch c.toNat := by
  cases i with
  | plain c => rfl
  | simple l v => rfl
  | z ws => rfl
  | dec ds =>
    have h : intOfDec ds < 128 := h
    simp [StrItem.units, StrItem.value, Spec.byteUnit, h, toNat_ofNat_valid (intOfDec ds) (Or.inl (by omega))]
  | hex a b =>
    have h : intOfHex [a, b] < 128 := h
    simp [StrItem.units, StrItem.value, Spec.byteUnit, h, toNat_ofNat_valid (intOfHex [a, b]) (Or.inl (by omega))]
  | uni ds =>
    obtain ⟨h1, h2⟩ : intOfHex ds ≤ 0x10FFFF ∧ ¬ (0xD800 ≤ intOfHex ds ∧ intOfHex ds ≤ 0xDFFF) := h
    have : (intOfHex ds).isValidChar := by unfold Nat.isValidChar; omega
    simp [StrItem.units, StrItem.value, toNat_ofNat_valid _ this]

/-- in scope, the reference value is the model value, character by character -/
theorem unitsAll_inScope (items : List StrItem) (h : InScope items) :
    unitsAll items = (valueAll items).map fun c => .ch c.toNat := by
  induction items with
  | nil => rfl
  | cons i is ih =>
    simp only [unitsAll_cons, valueAll_cons, List.map_append]
    rw [units_inScope i (h i (by simp)), ih (fun j hj => h j (by simp [hj]))]

/-- model and reference agree on every well-formed in-scope literal -/
theorem getString_agrees_spec (q : Char) (hq : q = '"' ∨ q = '\'') (items : List StrItem) (hwf : WF q items)
    (hscope : InScope items) (s : LexSt) (rest : List Char) (hs : s.rest = q :: (spellAll items ++ q :: rest)) :
    ∃ v s', getString false s = .ok (v, s') ∧ s'.rest = rest ∧
      Spec.strBody q (s.rest.tail.length + 1) s.rest.tail = some (v.map fun c => .ch c.toNat, rest) := by
  obtain ⟨s', e, er⟩ := getString_spell q hq items hwf hscope s rest hs
  refine ⟨_, s', e, er, ?_⟩
  rw [hs, List.tail_cons, ← unitsAll_inScope items hscope]
  exact spec_strBody_spell_lex q hq items hwf rest


/-! ## rejection: only `LexerError`s, no built-in exception, no fuel exhaustion -/

/-- the errors `get_string` may end with besides `LexerError`: the model border for lone surrogates -/
def Benign (e : PyErr) : Prop := (∃ m l c, e = .lexer m l c) ∨ e = .py "OutOfModel" "lone surrogate"

/-- outcome of a scanner started with `n` characters left: a benign error, or success having consumed at least one character -/
def Progress (n : Nat) : Except PyErr (List Char × LexSt) → Prop
  | .error e => Benign e
  | .ok (_, s1) => s1.rest.length < n

theorem progress_lexError (n : Nat) (m : String) (s : LexSt) : Progress n (lexError m s) := Or.inl ⟨_, _, _, rfl⟩
theorem progress_lexErrorAt (n : Nat) (m : String) (l : Nat) (c : Int) : Progress n (lexErrorAt m l c) := Or.inl ⟨_, _, _, rfl⟩

theorem advance_len_le (s : LexSt) : (advance s).rest.length ≤ s.rest.length := by
  rw [advance_rest]; simp

theorem advance_len_lt {s : LexSt} {c : Char} (h : s.cur = some c) : (advance s).rest.length < s.rest.length := by
  rw [advance_rest]
  cases hr : s.rest with
  | nil => simp [LexSt.cur, hr] at h
  | cons d r => simp

theorem skipWhitespace_len_le (f : Nat) (s : LexSt) : (skipWhitespace f s).rest.length ≤ s.rest.length := by
  induction f generalizing s with
  | zero => simp [skipWhitespace]
  | succ f ih =>
    simp only [skipWhitespace]
    split
    · exact Nat.le_trans (ih _) (advance_len_le s)
    · exact Nat.le_refl _

theorem takeWhileIn_len_le (set : List Char) (lower : Bool) (f : Nat) (s : LexSt) (acc : List Char) :
    (takeWhileIn set lower f s acc).2.rest.length ≤ s.rest.length := by
  induction f generalizing s acc with
  | zero => simp [takeWhileIn]
  | succ f ih =>
    simp only [takeWhileIn]
    split
    · split
      · exact Nat.le_trans (ih _ _) (advance_len_le s)
      · exact Nat.le_refl _
    · exact Nat.le_refl _

theorem safeDecode_err {iu : Bool} {b : Nat} {s : LexSt} {e : PyErr} (h : safeDecode iu b s = .error e) : Benign e := by
  unfold safeDecode at h
  split at h
  · cases h
  · split at h
    · cases h
    · exact Or.inl ⟨_, _, _, (Except.error.inj h).symm⟩

theorem safeCodePoint_err {iu : Bool} {b : Nat} {s : LexSt} {e : PyErr} (h : safeCodePoint iu b s = .error e) : Benign e := by
  unfold safeCodePoint at h
  split at h
  · split at h
    · cases h
    · exact Or.inl ⟨_, _, _, (Except.error.inj h).symm⟩
  · split at h
    · exact Or.inr (Except.error.inj h).symm
    · cases h

theorem progress_safeDecode (n : Nat) (iu : Bool) (b : Nat) (s s3 : LexSt) (h : s3.rest.length < n) :
    Progress n (match safeDecode iu b s with | .error e => .error e | .ok r => .ok (r, s3)) := by
  cases hd : safeDecode iu b s with
  | error e => exact safeDecode_err hd
  | ok r => exact h

theorem progress_safeCodePoint (n : Nat) (iu : Bool) (b : Nat) (s s3 : LexSt) (h : s3.rest.length < n) :
    Progress n (match safeCodePoint iu b s with | .error e => .error e | .ok r => .ok (r, s3)) := by
  cases hd : safeCodePoint iu b s with
  | error e => exact safeCodePoint_err hd
  | ok r => exact h

theorem progress_dec_aux (n : Nat) (iu : Bool) (c : Char) (line : Nat) (col : Int) (p2 p3 : List Char × LexSt)
    (h : p3.2.rest.length < n) :
    Progress n (if intOfDec (c :: p2.1 ++ p3.1) > 255 then lexErrorAt "Invalid char with number" line col
      else match safeDecode iu (intOfDec (c :: p2.1 ++ p3.1)) p3.2 with
        | .error e => .error e
        | .ok r => .ok (r, p3.2)) := by
  split
  · exact progress_lexErrorAt _ _ _ _
  · exact progress_safeDecode _ _ _ _ _ h

theorem escapeSeq_progress (iu : Bool) (s : LexSt) (c : Char) (hc : s.cur = some c) :
    Progress s.rest.length (escapeSeq iu s) := by
  have l1 := advance_len_lt hc
  unfold escapeSeq
  simp only [hc]
  split
  · -- z
    exact Nat.lt_of_le_of_lt (skipWhitespace_len_le _ _) l1
  split
  · -- x
    have l2 := advance_len_le (advance s)
    have l3 := advance_len_le (advance (advance s))
    split
    · exact progress_lexErrorAt _ _ _ _
    split
    · exact progress_lexErrorAt _ _ _ _
    split
    · exact progress_lexErrorAt _ _ _ _
    split
    · exact progress_lexErrorAt _ _ _ _
    exact progress_safeDecode _ _ _ _ _ (by omega)
  split
  · -- u
    split
    · exact progress_lexError _ _ _
    have l2 := advance_len_le (advance s)
    have hl := takeWhileIn_len_le Gen.hexNumber false ((advance (advance s)).rest.length + 1) (advance (advance s)) []
    generalize takeWhileIn Gen.hexNumber false ((advance (advance s)).rest.length + 1) (advance (advance s)) [] = p at hl ⊢
    have l4 := advance_len_le p.2
    split
    · exact progress_lexError _ _ _
    split
    · exact progress_lexError _ _ _
    split
    · exact progress_lexError _ _ _
    exact progress_safeCodePoint _ _ _ _ _ (by omega)
  split
  · -- decimal
    refine progress_dec_aux s.rest.length iu c s.line s.col _ _ ?_
    have l2 := advance_len_le (advance s)
    have l3 := advance_len_le (advance (advance s))
    repeat' split
    all_goals (dsimp only; omega)
  · -- simple
    split
    · exact progress_lexErrorAt _ _ _ _
    · exact l1


theorem stringLoop_err (iu : Bool) (q : Char) :
    ∀ (f : Nat) (esc : Bool) (s : LexSt) (acc : List Char) (e : PyErr),
      stringLoop iu q f esc s acc = .error e → Benign e ∨ (e = .fuel ∧ f ≤ s.rest.length) := by
  intro f
  induction f with
  | zero =>
    intro esc s acc e h
    simp only [stringLoop] at h
    exact Or.inr ⟨(Except.error.inj h).symm, Nat.zero_le _⟩
  | succ f ih =>
    intro esc s acc e h
    rw [stringLoop] at h
    split at h
    · exact Or.inl (Or.inl ⟨_, _, _, (Except.error.inj h).symm⟩)
    · rename_i c hc
      have l1 := advance_len_lt hc
      split at h
      · cases h
      split at h
      · have hp := escapeSeq_progress iu s c hc
        split at h
        · rename_i e' he
          rw [he] at hp
          cases h
          exact Or.inl hp
        · rename_i r s1 he
          rw [he] at hp
          have hp : s1.rest.length < s.rest.length := hp
          rcases ih _ _ _ _ h with hb | ⟨hf, hl⟩
          · exact Or.inl hb
          · exact Or.inr ⟨hf, by omega⟩
      split at h
      · rcases ih _ _ _ _ h with hb | ⟨hf, hl⟩
        · exact Or.inl hb
        · exact Or.inr ⟨hf, by omega⟩
      split at h
      · exact Or.inl (Or.inl ⟨_, _, _, (Except.error.inj h).symm⟩)
      · rcases ih _ _ _ _ h with hb | ⟨hf, hl⟩
        · exact Or.inl hb
        · exact Or.inr ⟨hf, by omega⟩


theorem getString_err (iu : Bool) (s : LexSt) (e : PyErr) (h : getString iu s = .error e) :
    Benign e ∨ e = .py "AssertionError" "lexer.get_string" := by
  unfold getString at h
  split at h
  · rename_i q hq
    split at h
    · rcases stringLoop_err iu q _ _ _ _ e h with hb | ⟨_, hl⟩
      · exact Or.inl hb
      · exfalso; omega
    · exact Or.inr (Except.error.inj h).symm
  · exact Or.inr (Except.error.inj h).symm

/-- malformed literals give `LexerError`, never a Python built-in exception (the two `.py` values are the
documented borders of the model: a lone surrogate from `\u{D800}`, and the caller's contract of `get_string`) -/
theorem getString_no_py (s : LexSt) (e : PyErr) : getString false s = .error e →
    (∃ m l c, e = .lexer m l c) ∨ e = .py "OutOfModel" "lone surrogate" ∨
    e = .py "AssertionError" "lexer.get_string" ∨ e = .fuel := by
  intro h
  rcases getString_err false s e h with (hl | ho) | ha
  · exact Or.inl hl
  · exact Or.inr (Or.inl ho)
  · exact Or.inr (Or.inr (Or.inl ha))

/-- with the fuel `getString` actually uses, the loop never runs out of fuel -/
theorem getString_no_fuel (iu : Bool) (s : LexSt) : getString iu s ≠ .error .fuel := by
  intro h
  rcases getString_err iu s _ h with (⟨m, l, c, hl⟩ | ho) | ha
  · cases hl
  · cases ho
  · cases ha

/-- the sharp form: no `.fuel` alternative -/
theorem getString_no_py' (s : LexSt) (e : PyErr) (h : getString false s = .error e) :
    (∃ m l c, e = .lexer m l c) ∨ e = .py "OutOfModel" "lone surrogate" ∨
    e = .py "AssertionError" "lexer.get_string" := by
  rcases getString_err false s e h with (hl | ho) | ha
  · exact Or.inl hl
  · exact Or.inr (Or.inl ho)
  · exact Or.inr (Or.inr ha)

/-- when `get_string` is called as `get_next_token` calls it (on a quote), only the lexer errors remain -/
theorem getString_on_quote (iu : Bool) (s : LexSt) (q : Char) (hc : s.cur = some q) (hq : q = '"' ∨ q = '\'')
    (e : PyErr) (h : getString iu s = .error e) : Benign e := by
  have hq' : (q == '\'' || q == '"') = true := by rcases hq with rfl | rfl <;> decide
  unfold getString at h
  simp only [hc, hq', if_true] at h
  rcases stringLoop_err iu q _ _ _ _ e h with hb | ⟨_, hl⟩
  · exact hb
  · exfalso; omega

/-! ### the "Unreachable" site -/

theorem not_benign_unreachable (site : String) : ¬ Benign (.py "Unreachable" site) := by
  rintro (⟨m, l, c, h⟩ | h)
  · cases h
  · injection h with h1 _
    exact absurd h1 (by decide)

/-- `escapeSeq` hits its "Unreachable" site exactly when there is no current character ... -/
theorem escapeSeq_unreachable_iff (iu : Bool) (s : LexSt) :
    escapeSeq iu s = .error (.py "Unreachable" "lexer.get_string.escape-at-end") ↔ s.cur = none := by
  constructor
  · intro h
    cases hc : s.cur with
    | none => rfl
    | some c =>
      have hp := escapeSeq_progress iu s c hc
      rw [h] at hp
      exact absurd hp (not_benign_unreachable _)
  · intro hc
    unfold escapeSeq
    simp only [hc]

/-- ... and `stringLoop` (hence `getString`) never does: it calls `escapeSeq` only under `s.cur = some _` -/
theorem stringLoop_not_unreachable (iu : Bool) (q : Char) (f : Nat) (esc : Bool) (s : LexSt) (acc : List Char) (site : String) :
    stringLoop iu q f esc s acc ≠ .error (.py "Unreachable" site) := by
  intro h
  rcases stringLoop_err iu q f esc s acc _ h with hb | ⟨hf, _⟩
  · exact not_benign_unreachable _ hb
  · cases hf

theorem getString_not_unreachable (iu : Bool) (s : LexSt) (site : String) :
    getString iu s ≠ .error (.py "Unreachable" site) := by
  intro h
  rcases getString_err iu s _ h with hb | ha
  · exact not_benign_unreachable _ hb
  · injection ha with h1 _
    exact absurd h1 (by decide)


/-! ## sanity: the hypotheses are satisfiable -/

/-- non-vacuity: the literal `"a\n\65\z  b\x41\u{48}\0x"` is described by well-formed in-scope items -/
def exampleItems : List StrItem :=
  [.plain 'a', .simple 'n' '\n', .dec ['6', '5'], .z [' ', '\n'], .plain 'b', .hex '4' '1', .uni ['4', '8'],
   .dec ['0'], .plain 'x']

example : String.ofList (spellAll exampleItems) = "a\\n\\65\\z \nb\\x41\\u{48}\\0x" := by decide
example : String.ofList (valueAll exampleItems) = "a\nAbAH\x00x" := by decide
example : WF '"' exampleItems ∧ InScope exampleItems := by
  simp [WF, StrItem.WF, InScope, StrItem.InScope, exampleItems, nextChar, StrItem.spell]
  decide

end Tumfl.Theory
