import Tumfl.Theory.FormatTextRsl
import Tumfl.Theory.FormatTextWrap
/-!
# Texts that the per-line right-strip leaves alone (or changes harmlessly)
-/
namespace Tumfl.Theory
open Tumfl Tumfl.Spec Tumfl.Model

theorem tidy_tail {c d : Char} {cs : List Char} (h : Tidy (c :: d :: cs)) : Tidy (d :: cs) :=
  ⟨fun a x b e => h.1 (c :: a) x b (by rw [e]; rfl), fun i l e => h.2 (c :: i) l (by rw [e]; rfl)⟩

/-- a tidy text is not changed -/
theorem Rst_tidy : ∀ (x : List Char), Tidy x → ∀ r, Rst x r = x ++ r
  | [], _, r => rfl
  | [c], h, r => by
    have hc : pyIsSpace c = false := h.2 [] c rfl
    rw [Rst_cons, Rst_nil, stepR_keep (by simp [spaceNN, hc])]
    rfl
  | c :: d :: cs, h, r => by
    rw [Rst_cons, Rst_tidy (d :: cs) (tidy_tail h) r]
    unfold stepR
    by_cases hd : d = '\n'
    · subst hd
      have := h.1 [] c cs rfl
      simp [this]
    · have : ¬ (some d = some '\n') := by simpa using hd
      simp [hd]

/-- of a run of blanks, tabs and line breaks some blanks and tabs go away -/
theorem Rst_layout : ∀ (w : List Char), ∀ Y, ∃ w', Rst w Y = w' ++ Y ∧ (∀ c ∈ w', c ∈ w) ∧
    (∀ t, w = '\n' :: t → ∃ t', w' = '\n' :: t')
  | [], Y => ⟨[], rfl, fun _ h => h, fun t e => by cases e⟩
  | c :: w, Y => by
    obtain ⟨w', hw, hsub, _⟩ := Rst_layout w Y
    rw [Rst_cons, hw]
    unfold stepR
    split
    · rename_i hc
      refine ⟨w', rfl, fun x hx => List.mem_cons_of_mem _ (hsub x hx), fun t e => ?_⟩
      simp only [List.cons.injEq] at e
      rw [e.1] at hc
      simp [spaceNN] at hc
    · exact ⟨c :: w', rfl, fun x hx => by
        rcases List.mem_cons.mp hx with rfl | hx
        · simp
        · exact List.mem_cons_of_mem _ (hsub x hx), fun t e => ⟨w', by simp only [List.cons.injEq] at e; rw [e.1]⟩⟩

/-- a token text as far as the per-line right-strip is concerned: what it becomes is read as the same token and has
the same first and last character -/
def HardTok (a : List Char) (tk : Spec.Tk) : Prop :=
  ∃ a', (∀ r, Rst a r = a' ++ r) ∧ ReadsAs a' tk ∧ (∀ d, sepRequired a' [d] = sepRequired a [d]) ∧
    (∀ d, fuses a' d = fuses a d) ∧ (∀ i l, a' = i ++ [l] → pyIsSpace l = false)

theorem hardTok_tidy {a : List Char} {tk : Spec.Tk} (h : ReadsAs a tk) (ht : Tidy a) : HardTok a tk :=
  ⟨a, Rst_tidy a ht, h, fun _ => rfl, fun _ => rfl, ht.2⟩

/-! ## wrapped literals -/

theorem wrap_shape' (sty : Style) (quote : Char) (hq : quote = '"' ∨ quote = '\'') (v : List Char) (ind : Int)
    (ps : Pieces) (h : stringIdent (quote :: v.flatMap (escapeChar quote) ++ [quote]) ind sty = .ok ps) :
    ∃ g gs, g ++ gs.flatten = v ∧ (∀ g' ∈ gs, g'.head? ≠ some ' ') ∧
      ∀ fill, wrappedText ps fill = quote :: joined fill quote 0 g gs ++ [quote] := by
  rcases stringIdent_cases h with rfl | rfl
  · exact ⟨v, [], by simp, by simp, fun fill => by simp [wrappedText, wrappedTextFrom, joined, escBody]⟩
  · have e : quote :: v.flatMap (escapeChar quote) ++ [quote] = [quote] ++ escBody quote v ++ [quote] := rfl
    rw [e]
    obtain ⟨g, gs, hv, hloop, hgs⟩ := loop_groups quote hq
      ((sty.lineWidth : Int) - (ind * indentationWidth sty + 2))
      (([quote] ++ escBody quote v ++ [quote]).length + 1) [quote] v (.inr rfl) (Nat.lt_succ_self _)
    refine ⟨g, gs, hv, hgs, fun fill => ?_⟩
    rw [hloop, wrappedText, wrappedTextFrom_build]
    simp

theorem escBody_no_nl (q : Char) (hq : q = '"' ∨ q = '\'') (g : List Char) : '\n' ∉ escBody q g := by
  unfold escBody
  simp only [List.mem_flatMap, not_exists, not_and]
  exact fun c _ => escapeChar_no_nl q hq c

theorem tidy_snoc {x : List Char} (h : '\n' ∉ x) {l : Char} (hl : pyIsSpace l = false) (hn : l ≠ '\n') : Tidy (x ++ [l]) := by
  refine tidy_no_nl ?_ ?_
  · simp only [List.mem_append, List.mem_singleton, not_or]
    exact ⟨h, fun e => hn e.symm⟩
  · intro i l' e
    have := List.append_inj_right' e rfl
    simp only [List.cons.injEq, and_true] at this
    rw [← this]; exact hl

theorem joined_congr (f f' : Nat → List Char) (q : Char) : ∀ (gs : List (List Char)) (k : Nat) (g : List Char),
    (∀ j, k ≤ j → f j = f' j) → joined f q k g gs = joined f' q k g gs
  | [], k, g, _ => rfl
  | g' :: gs, k, g, h => by
    simp only [joined]
    rw [h k (Nat.le_refl _), joined_congr f f' q gs (k + 1) g' (fun j hj => h j (by omega))]

/-- in front of a text that does not start with a line break, what a layout run becomes does not depend on that text -/
theorem Rst_layout_indep : ∀ (w : List Char), ∃ w', (∀ Y, Y ≠ [] → Y.head? ≠ some '\n' → Rst w Y = w' ++ Y) ∧ (∀ c ∈ w', c ∈ w)
  | [] => ⟨[], fun _ _ _ => rfl, fun _ h => h⟩
  | c :: w => by
    obtain ⟨w', hw, hsub⟩ := Rst_layout_indep w
    by_cases hc : spaceNN c = true ∧ w'.head? = some '\n'
    · refine ⟨w', fun Y h1 h2 => ?_, fun x hx => List.mem_cons_of_mem _ (hsub x hx)⟩
      rw [Rst_cons, hw Y h1 h2]
      unfold stepR
      cases w' with
      | nil => simp at hc
      | cons a b =>
        simp only [List.head?_cons, Option.some.injEq] at hc
        simp [hc.1, hc.2]
    · refine ⟨c :: w', fun Y h1 h2 => ?_, fun x hx => ?_⟩
      · rw [Rst_cons, hw Y h1 h2]
        unfold stepR
        cases w' with
        | nil =>
          cases Y with
          | nil => exact absurd rfl h1
          | cons y Y' =>
            have : y ≠ '\n' := by simpa using h2
            simp [this]
        | cons a b =>
          simp only [List.head?_cons, Option.some.injEq, not_and] at hc
          by_cases hs : spaceNN c = true
          · have := hc hs
            simp [this]
          · have : spaceNN c = false := by simpa using hs
            simp [this]
      · rcases List.mem_cons.mp hx with rfl | hx
        · simp
        · exact List.mem_cons_of_mem _ (hsub x hx)

theorem joined_head_nl (f : Nat → List Char) (q : Char) (hq : q = '"' ∨ q = '\'') (k : Nat) (g : List Char)
    (gs : List (List Char)) (r : List Char) :
    joined f q k g gs ++ [q] ++ r ≠ [] ∧ (joined f q k g gs ++ [q] ++ r).head? ≠ some '\n' := by
  have hqn : q ≠ '\n' := by rcases hq with rfl | rfl <;> decide
  cases g with
  | nil =>
    cases gs with
    | nil => simp [joined, hqn]
    | cons g' gs => simp [joined]
  | cons a t =>
    have hp := escapeChar_length_pos q a
    have hno := escapeChar_no_nl q hq a
    cases he : escapeChar q a with
    | nil => rw [he] at hp; simp at hp
    | cons c cs =>
      have hc : c ≠ '\n' := by rintro rfl; apply hno; rw [he]; simp
      have hX : ∃ X, joined f q k (a :: t) gs = escapeChar q a ++ X := by
        cases gs with
        | nil => exact ⟨escBody q t, by simp [joined]⟩
        | cons g' gs => exact ⟨escBody q t ++ '\\' :: 'z' :: '\n' :: (f k ++ joined f q (k + 1) g' gs), by simp [joined]⟩
      obtain ⟨X, hX⟩ := hX
      rw [hX, he]
      simp [hc]

/-- the per-line right-strip changes a wrapped literal into a wrapped literal with other fills -/
theorem Rst_joined (fill : Nat → List Char) (hfill : ∀ i, ∀ ch ∈ fill i, isLayoutSpace ch = true) (q : Char)
    (hq : q = '"' ∨ q = '\'') : ∀ (gs : List (List Char)) (i : Nat) (g : List Char),
    ∃ fill' : Nat → List Char, (∀ j, ∀ ch ∈ fill' j, isLayoutSpace ch = true) ∧
      ∀ r, Rst (joined fill q i g gs ++ [q]) r = joined fill' q i g gs ++ [q] ++ r
  | [], i, g => by
    refine ⟨fill, hfill, fun r => ?_⟩
    simp only [joined]
    have hqs : pyIsSpace q = false ∧ q ≠ '\n' := by rcases hq with rfl | rfl <;> exact ⟨by decide, by decide⟩
    exact Rst_tidy _ (tidy_snoc (escBody_no_nl q hq g) hqs.1 hqs.2) r
  | g' :: gs, i, g => by
    obtain ⟨fill2, hfill2, hR⟩ := Rst_joined fill hfill q hq gs (i + 1) g'
    obtain ⟨w', hw, hsub⟩ := Rst_layout_indep (fill i)
    refine ⟨fun j => if j = i then w' else fill2 j, fun j ch hch => ?_, fun r => ?_⟩
    · simp only at hch
      split at hch
      · exact hfill i ch (hsub ch hch)
      · exact hfill2 j ch hch
    · have hcongr : joined (fun j => if j = i then w' else fill2 j) q (i + 1) g' gs = joined fill2 q (i + 1) g' gs :=
        joined_congr _ _ q gs (i + 1) g' (fun j hj => if_neg (by omega))
      have hA : Tidy (escBody q g ++ ['\\', 'z']) := by
        have : escBody q g ++ ['\\', 'z'] = (escBody q g ++ ['\\']) ++ ['z'] := by simp
        rw [this]
        refine tidy_snoc ?_ (by decide) (by decide)
        simp only [List.mem_append, List.mem_singleton, not_or]
        exact ⟨escBody_no_nl q hq g, by decide⟩
      have e1 : joined fill q i g (g' :: gs) ++ [q] =
          (escBody q g ++ ['\\', 'z']) ++ ('\n' :: (fill i ++ (joined fill q (i + 1) g' gs ++ [q]))) := by
        simp [joined]
      obtain ⟨hne, hhd⟩ := joined_head_nl fill2 q hq (i + 1) g' gs r
      have h1 : Rst (fill i ++ (joined fill q (i + 1) g' gs ++ [q])) r =
          w' ++ (joined fill2 q (i + 1) g' gs ++ [q] ++ r) := by rw [Rst_append, hR r, hw _ hne hhd]
      have h2 : Rst ('\n' :: (fill i ++ (joined fill q (i + 1) g' gs ++ [q]))) r =
          '\n' :: (w' ++ (joined fill2 q (i + 1) g' gs ++ [q] ++ r)) := by rw [Rst_cons, h1, stepR_nl]
      rw [e1, Rst_append, h2, Rst_tidy _ hA]
      simp only [joined, if_true, hcongr]
      simp

/-- a wrapped literal is a hard token -/
theorem hardTok_wrapped (sty : Style) (quote : Char) (hq : quote = '"' ∨ quote = '\'') (v : List Char) (ind : Int)
    (ps : Pieces) (h : stringIdent (quote :: v.flatMap (escapeChar quote) ++ [quote]) ind sty = .ok ps)
    (fill : Nat → List Char) (hfill : ∀ i, ∀ ch ∈ fill i, isLayoutSpace ch = true) :
    HardTok (wrappedText ps fill) (.str (v.map fun c => Spec.SUnit.ch c.toNat)) := by
  obtain ⟨g, gs, _, _, hshape⟩ := wrap_shape' sty quote hq v ind ps h
  obtain ⟨fill', hfill', hR⟩ := Rst_joined fill hfill quote hq gs 0 g
  have hqs : spaceNN quote = false := by rcases hq with rfl | rfl <;> decide
  have hlit := wrap_reads_sp sty quote hq v ind ps h fill' (fun i ch hc => isSpace_of_layout (hfill' i ch hc))
  refine ⟨wrappedText ps fill', fun r => ?_, readsAs_of_isPiece (.quoted _ _ hlit), fun d => ?_, fun d => ?_, ?_⟩
  · rw [hshape fill, hshape fill']
    have : quote :: joined fill quote 0 g gs ++ [quote] = quote :: (joined fill quote 0 g gs ++ [quote]) := rfl
    rw [this, Rst_cons, hR r, stepR_keep hqs]
    simp
  · rw [hshape fill, hshape fill']
    have e : ∀ X : List Char, sepRequired (quote :: X ++ [quote]) [d] = .ok (sepBool quote d quote) := fun X => by
      have : quote :: X ++ [quote] = (quote :: X) ++ [quote] := rfl
      exact sepRequired_of _ _ quote d quote (by rw [this, List.getLast?_append]; rfl) rfl rfl
    rw [e, e]
  · rw [hshape fill, hshape fill']
    have e : ∀ X : List Char, fuses (quote :: X ++ [quote]) d = false := fun X => by cases X <;> rfl
    rw [e, e]
  · rw [hshape fill']
    intro i l e
    have : quote :: joined fill' quote 0 g gs ++ [quote] = (quote :: joined fill' quote 0 g gs) ++ [quote] := rfl
    rw [this] at e
    have := List.append_inj_right' e rfl
    simp only [List.cons.injEq, and_true] at this
    rw [← this]
    rcases hq with rfl | rfl <;> decide

end Tumfl.Theory
