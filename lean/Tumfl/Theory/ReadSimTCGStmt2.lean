import Tumfl.Theory.ReadSimTCGStmt
/-!
# Statements, for every reading, continued: loops, `local`, function definitions, calls, assignments
-/
namespace Tumfl.Theory.TCGSim
open Tumfl.Model Tumfl.Spec

variable {sty : Style}

/-! ## numeric `for` -/

theorem numFor0_SR {t : Token} {v a b : Expr} {body : Model.Block} (hv : nameNodeOK v = true)
    (ha : EPropR sty a) (hb : EPropR sty b) (hc : body.isChunk = false) (hbody : BlockPropR sty body) :
    StmtPropR sty (.numFor t v a b none body) := by
  intro _ p
  simp only [visitStmt, List.append_assoc, List.cons_append, List.nil_append, AllRd_for_kw, AllRd_space, AllRd_nameNode sty hv,
    AllRd_assign, AllRd_append, AllRd_argument, AllRd_blk sty body hc]
  intro ka hka kb hkb s hs kbody hkbody
  obtain ⟨_, ca, rela, ba⟩ := ha _ ka hka
  obtain ⟨_, cb, relb, bb⟩ := hb _ kb hkb
  obtain ⟨mk, rel, bbody⟩ := hbody _ kbody hkbody
  refine ⟨headKw _ rfl rfl, .fornum (nameS v) ca cb none (mk s), [], .inl rfl,
    by simp only [dsStmt, deStat]; exact .fornum0 t (NameRel_of_nameNodeOK hv) rela relb (rel s hs), rfl, ?_⟩
  intro F rest hF _
  simp only [List.length_cons, List.length_append, List.length_nil] at hF
  obtain ⟨F, rfl⟩ : ∃ f, F = f + 1 := ⟨F - 1, by omega⟩
  have h3 := bbody s hs F (mkTok (.kw "end") :: rest) (by omega) (by rfl)
  have h2 := expr_of_EBody bb F (mkTok (.kw "do") :: (s ++ (kbody ++ mkTok (.kw "end") :: rest))) (by omega)
    (by simp [sfx]) (by simp [hdLp, binOfTk])
  have h1 := expr_of_EBody ba F (mkTok (.sym ",") :: (kb ++ mkTok (.kw "do") :: (s ++ (kbody ++ mkTok (.kw "end") :: rest))))
    (by omega) (by simp [sfx]) (by simp [hdLp, binOfTk])
  rw [statement]
  simp only [List.cons_append, List.append_assoc, List.nil_append, pk_mkTok, tail_mkTok] at h1 h2 h3 ⊢
  simp [h1, h2, h3, expectName, expectSym, expectKw, isSym_mkTok, isKw_mkTok, bind, Except.bind]

theorem numFor1_SR {t : Token} {v a b st : Expr} {body : Model.Block} (hv : nameNodeOK v = true)
    (ha : EPropR sty a) (hb : EPropR sty b) (hst : EPropR sty st) (hc : body.isChunk = false)
    (hbody : BlockPropR sty body) : StmtPropR sty (.numFor t v a b (some st) body) := by
  intro _ p
  simp only [visitStmt, List.append_assoc, List.cons_append, List.nil_append, AllRd_for_kw, AllRd_space, AllRd_nameNode sty hv,
    AllRd_assign, AllRd_append, AllRd_argument, AllRd_blk sty body hc]
  intro ka hka kb hkb ks hks s hs kbody hkbody
  obtain ⟨_, ca, rela, ba⟩ := ha _ ka hka
  obtain ⟨_, cb, relb, bb⟩ := hb _ kb hkb
  obtain ⟨_, cs, rels, bs⟩ := hst _ ks hks
  obtain ⟨mk, rel, bbody⟩ := hbody _ kbody hkbody
  refine ⟨headKw _ rfl rfl, .fornum (nameS v) ca cb (some cs) (mk s), [], .inl rfl,
    by simp only [dsStmt, deStat]; exact .fornum1 t (NameRel_of_nameNodeOK hv) rela relb rels (rel s hs), rfl, ?_⟩
  intro F rest hF _
  simp only [List.length_cons, List.length_append, List.length_nil] at hF
  obtain ⟨F, rfl⟩ : ∃ f, F = f + 1 := ⟨F - 1, by omega⟩
  have h3 := bbody s hs F (mkTok (.kw "end") :: rest) (by omega) (by rfl)
  have h2' := expr_of_EBody bs F (mkTok (.kw "do") :: (s ++ (kbody ++ mkTok (.kw "end") :: rest))) (by omega)
    (by simp [sfx]) (by simp [hdLp, binOfTk])
  have h2 := expr_of_EBody bb F (mkTok (.sym ",") :: (ks ++ mkTok (.kw "do") :: (s ++ (kbody ++ mkTok (.kw "end") :: rest))))
    (by omega) (by simp [sfx]) (by simp [hdLp, binOfTk])
  have h1 := expr_of_EBody ba F (mkTok (.sym ",") :: (kb ++ mkTok (.sym ",") :: (ks ++ mkTok (.kw "do") ::
    (s ++ (kbody ++ mkTok (.kw "end") :: rest))))) (by omega) (by simp [sfx]) (by simp [hdLp, binOfTk])
  rw [statement]
  simp only [List.cons_append, List.append_assoc, List.nil_append, pk_mkTok, tail_mkTok] at h1 h2 h2' h3 ⊢
  simp [h1, h2, h2', h3, expectName, expectSym, expectKw, isSym_mkTok, isKw_mkTok, bind, Except.bind]

/-! ## generic `for` -/

theorem iterFor_SR {t : Token} {n : Expr} {ns es : List Expr} {body : Model.Block} (hn : nameNodeOK n = true)
    (hns : ns.all nameNodeOK = true) (hes : es ≠ []) (hall : ∀ e ∈ es, XPropR sty e)
    (hc : body.isChunk = false) (hbody : BlockPropR sty body) : StmtPropR sty (.iterFor t (n :: ns) es body) := by
  intro _ p
  simp only [visitStmt, List.append_assoc, List.cons_append, List.nil_append, AllRd_for_kw, AllRd_space, AllRd_append,
    AllRd_noChoice _ (NoChoice_names (sty := sty) (n :: ns) (by simp [hn, hns])), TK_visitArgs_names n ns hn hns,
    AllRd_in_kw, AllRd_blk sty body hc]
  intro ke hke s hs kbody hkbody
  obtain ⟨_, cs, rele, be⟩ := args_of_allR es hall hes _ ke hke
  obtain ⟨mk, rel, bbody⟩ := hbody _ kbody hkbody
  refine ⟨headKw _ rfl rfl, .forin (nameS n :: ns.map nameS) cs (mk s), [], .inl rfl, ?_, rfl, ?_⟩
  · simp only [dsStmt, deStat]
    exact .forin t (Forall₂_names (n :: ns) (by simp [hn, hns])) rele (rel s hs)
  intro F rest hF _
  simp only [List.length_cons, List.length_append, List.length_nil, sepTail_length] at hF
  obtain ⟨F, rfl⟩ : ∃ f, F = f + 1 := ⟨F - 1, by omega⟩
  have h3 := bbody s hs F (mkTok (.kw "end") :: rest) (by omega) (by rfl)
  have h2 := be F (mkTok (.kw "do") :: (s ++ (kbody ++ mkTok (.kw "end") :: rest))) (by omega) (by rfl)
  have h1 := namelistRest_step ns F (mkTok (.kw "in") :: (ke ++ mkTok (.kw "do") :: (s ++
    (kbody ++ mkTok (.kw "end") :: rest)))) (by omega) (by simp [isSym_mkTok])
  have hhead : isSym "=" (sepTail "," ns ++ mkTok (.kw "in") :: (ke ++ mkTok (.kw "do") ::
      (s ++ (kbody ++ mkTok (.kw "end") :: rest)))) = false ∧
      (isSym "," (sepTail "," ns ++ mkTok (.kw "in") :: (ke ++ mkTok (.kw "do") ::
      (s ++ (kbody ++ mkTok (.kw "end") :: rest)))) ||
      isKw "in" (sepTail "," ns ++ mkTok (.kw "in") :: (ke ++ mkTok (.kw "do") ::
      (s ++ (kbody ++ mkTok (.kw "end") :: rest))))) = true := by
    rcases sepTail_head "," ns (mkTok (.kw "in") :: (ke ++ mkTok (.kw "do") ::
      (s ++ (kbody ++ mkTok (.kw "end") :: rest)))) with h | ⟨tl, h⟩ <;>
      rw [h] <;> simp [isSym_mkTok, isKw_mkTok]
  rw [statement]
  simp only [List.cons_append, List.append_assoc, List.nil_append, pk_mkTok, tail_mkTok] at h1 h2 h3 hhead ⊢
  simp only [expectName, pk_mkTok, tail_mkTok, bind, Except.bind, hhead.1, hhead.2, Bool.false_eq_true, if_false, if_true, h1]
  simp [expectKw, isKw_mkTok, h2, h3]

/-! ## `local` -/

theorem localAssign0_SR {t : Token} {names : List AttName} (hne : names ≠ []) (hp : names.all attOK = true) :
    StmtPropR sty (.localAssign t names none) := by
  intro _ p
  simp only [visitStmt, List.append_assoc, List.cons_append, List.nil_append, List.append_nil, AllRd_local_kw, AllRd_space,
    AllRd_noChoice _ (NoChoice_attNames names hp)]
  refine ⟨headKw _ rfl rfl, .locl (names.map refAtt) [], [], .inl rfl,
    by simp only [dsStmt, deStat, deExps]; exact .locl0 t (Forall₂_atts names hp), rfl, ?_⟩
  intro F rest hF hsafe
  obtain ⟨_, _, hs3, hs4⟩ := safe_facts hsafe
  simp only [List.length_cons] at hF
  have hl := attNames_length names hp
  obtain ⟨F, rfl⟩ : ∃ f, F = f + 1 := ⟨F - 1, by omega⟩
  have h1 := attnames_step (semi := false) names hp hne F rest (by omega) hs3 (isSym_lt_of_safe hsafe)
  rw [statement]
  simp only [List.cons_append, pk_mkTok, tail_mkTok, attNames_notFunction hne hp]
  simp [h1, hs4, bind, Except.bind]

theorem localAssign1_SR {t : Token} {names : List AttName} {e : Expr} {r : List Expr} (hne : names ≠ [])
    (hp : names.all attOK = true) (hall : ∀ x ∈ e :: r, XPropR sty x) :
    StmtPropR sty (.localAssign t names (some (e :: r))) := by
  intro _ p
  simp only [visitStmt, List.append_assoc, List.cons_append, List.nil_append, AllRd_local_kw, AllRd_space, AllRd_append,
    AllRd_noChoice _ (NoChoice_attNames names hp), AllRd_assign]
  intro ke hke
  obtain ⟨_, cs, rele, be⟩ := args_of_allR (e :: r) hall (by simp) _ ke hke
  refine ⟨headKw _ rfl rfl, .locl (names.map refAtt) cs, [], .inl rfl,
    by simp only [dsStmt, deStat]; exact .locl1 t (Forall₂_atts names hp) rele (by simp [dsArgs]), rfl, ?_⟩
  intro F rest hF hsafe
  simp only [List.length_cons, List.length_append] at hF
  have hl := attNames_length names hp
  obtain ⟨F, rfl⟩ : ∃ f, F = f + 1 := ⟨F - 1, by omega⟩
  have h2 := be F rest (by omega) (stopTk_of_safe hsafe)
  have h1 := attnames_step (semi := false) names hp hne F (mkTok (.sym "=") :: (ke ++ rest)) (by omega)
    (by simp [isSym_mkTok]) (by simp [isSym_mkTok])
  rw [statement]
  simp only [List.cons_append, List.append_assoc, pk_mkTok, tail_mkTok, attNames_notFunction hne hp]
  simp [h1, h2, isSym_mkTok, bind, Except.bind]

/-! ## function definitions -/

theorem localFunc_SR {t : Token} {n : Expr} {ps : List Expr} {body : Model.Block} (hn : nameNodeOK n = true)
    (hp : paramsOK ps = true) (hb : BlockPropR sty body) : StmtPropR sty (.localFunc t n ps body) := by
  intro _ p
  have hbody := body_stepR hp hb
  have hv : visitStmt sty (.localFunc t n ps body) =
      [S .newline, P "local", S .space, P "function", S .space] ++ (visitExpr sty n ++
        (funcBodyPieces sty ps body ++ [S .statement, S .newline])) := by
    simp [visitStmt, funcBodyPieces]
  rw [hv]
  simp only [List.cons_append, List.nil_append, AllRd_newline, AllRd_local_kw, AllRd_space,
    AllRd_function_kw, AllRd_nameNode sty hn, AllRd_append, AllRd_statement, AllRd_nil]
  intro k hk tr htr
  obtain ⟨cb, rel, bb⟩ := hbody _ k hk
  refine ⟨headKw _ rfl rfl, .localfunc (nameS n) (refParams ps).1 (refParams ps).2 cb, tr, htr, ?_, rfl, ?_⟩
  · simp only [dsStmt, deStat]
    exact .localfunc t (NameRel_of_nameNodeOK hn) (ParamsRel_of_paramsOK ps hp) rel
  intro F rest hF _
  simp only [List.length_cons, List.length_append, List.length_nil] at hF
  obtain ⟨F, rfl⟩ : ∃ f, F = f + 1 := ⟨F - 1, by omega⟩
  have h1 := bb F (tr ++ rest) (by omega)
  rw [statement]
  simp only [List.cons_append, List.append_assoc, List.nil_append, List.append_nil, pk_mkTok, tail_mkTok] at h1 ⊢
  simp [isKw_mkTok, expectName, h1, bind, Except.bind]

theorem funcDef_SR {t : Token} {n : Expr} {ns : List Expr} {m : Option Expr} {ps : List Expr} {body : Model.Block}
    (hn : nameNodeOK n = true) (hns : ns.all nameNodeOK = true) (hm : ∀ x, m = some x → nameNodeOK x = true)
    (hp : paramsOK ps = true) (hb : BlockPropR sty body) : StmtPropR sty (.funcDef t (n :: ns) m ps body) := by
  intro _ p
  have hbody := body_stepR hp hb
  have hkhead : ∀ q k, Rd q (funcBodyPieces sty ps body) k → ∃ tl, k = mkTok (.sym "(") :: tl := by
    intro q
    have : AllRd q (funcBodyPieces sty ps body) fun k => ∃ tl, k = mkTok (.sym "(") :: tl := by
      simp only [funcBodyPieces, List.append_assoc, List.cons_append, List.nil_append, AllRd_lpar]
      intro t _; exact ⟨t, rfl⟩
    exact this
  cases m with
  | none =>
    have hv : visitStmt sty (.funcDef t (n :: ns) none ps body) =
        [S .newline, P "function", S .space] ++ (visitDotted sty (n :: ns) ++
          (funcBodyPieces sty ps body ++ [S .block, S .newline])) := by
      simp [visitStmt, funcBodyPieces]
    rw [hv]
    simp only [List.cons_append, List.nil_append, AllRd_newline, AllRd_space,
      AllRd_function_kw, AllRd_append, AllRd_noChoice _ (NoChoice_dotted (sty := sty) (n :: ns) (by simp [hn, hns])),
      TK_visitDotted_names n ns hn hns, AllRd_block, AllRd_nil]
    intro k hk tr htr
    obtain ⟨cb, rel, bb⟩ := hbody _ k hk
    obtain ⟨tl, rfl⟩ := hkhead _ k hk
    refine ⟨headKw _ rfl rfl, .func (nameS n :: ns.map nameS) none (refParams ps).1 (refParams ps).2 cb, tr, htr, ?_, rfl, ?_⟩
    · simp only [dsStmt, deStat]
      exact .func t (Forall₂_names (n :: ns) (by simp [hn, hns])) trivial (ParamsRel_of_paramsOK ps hp) rel
    intro F rest hF _
    simp only [List.length_cons, List.length_append, List.length_nil, sepTail_length] at hF
    obtain ⟨F, rfl⟩ : ∃ f, F = f + 1 := ⟨F - 1, by omega⟩
    have h1 := bb F (tr ++ rest) (by simp only [List.length_cons]; omega)
    have h0 := dottedRest_step ns F (mkTok (.sym "(") :: (tl ++ (tr ++ rest))) (by omega) (by simp [isSym_mkTok])
    rw [statement]
    simp only [List.cons_append, List.append_assoc, List.nil_append, List.append_nil, pk_mkTok, tail_mkTok] at h0 h1 ⊢
    simp [expectName, h0, isSym_mkTok, h1, bind, Except.bind]
  | some x =>
    have hx := hm x rfl
    have hv : visitStmt sty (.funcDef t (n :: ns) (some x) ps body) =
        [S .newline, P "function", S .space] ++ (visitDotted sty (n :: ns) ++ ([P ":"] ++ (visitExpr sty x ++
          (funcBodyPieces sty ps body ++ [S .block, S .newline])))) := by
      simp [visitStmt, funcBodyPieces]
    rw [hv]
    simp only [List.cons_append, List.nil_append, AllRd_newline, AllRd_space, AllRd_colon, AllRd_nameNode sty hx,
      AllRd_function_kw, AllRd_append, AllRd_noChoice _ (NoChoice_dotted (sty := sty) (n :: ns) (by simp [hn, hns])),
      TK_visitDotted_names n ns hn hns, AllRd_block, AllRd_nil]
    intro k hk tr htr
    obtain ⟨cb, rel, bb⟩ := hbody _ k hk
    refine ⟨headKw _ rfl rfl, .func (nameS n :: ns.map nameS) (some (nameS x)) (refParams ps).1 (refParams ps).2 cb, tr,
      htr, ?_, rfl, ?_⟩
    · simp only [dsStmt, deStat]
      exact .func t (Forall₂_names (n :: ns) (by simp [hn, hns])) (NameRel_of_nameNodeOK hx) (ParamsRel_of_paramsOK ps hp) rel
    intro F rest hF _
    simp only [List.length_cons, List.length_append, List.length_nil, sepTail_length] at hF
    obtain ⟨F, rfl⟩ : ∃ f, F = f + 1 := ⟨F - 1, by omega⟩
    have h1 := bb F (tr ++ rest) (by omega)
    have h0 := dottedRest_step ns F (mkTok (.sym ":") :: mkTok (.name (nameS x)) :: (k ++ (tr ++ rest))) (by omega)
      (by simp [isSym_mkTok])
    rw [statement]
    simp only [List.cons_append, List.append_assoc, List.nil_append, List.append_nil, pk_mkTok, tail_mkTok] at h0 h1 ⊢
    simp [expectName, h0, isSym_mkTok, h1, bind, Except.bind]

end Tumfl.Theory.TCGSim
