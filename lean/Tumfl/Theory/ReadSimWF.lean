import Tumfl.Theory.ReadSim
/-!
# `Printable` is stronger than the well-formedness of the comment theorem (`TreeWF`, C13)

`TreeWF` (what `parseText` is proved to deliver: `Props.C13_parsed`, `parseText_wf`) only says that names and numerals do not
look like comments and that `if` / `repeat` bodies are not `Chunk`s.  `Printable` needs much more (identifiers, name slots,
parameter shapes, targets, numerals read by the reference grammar) and is therefore an explicit hypothesis of `read_sim`;
this file shows that it at least implies `TreeWF`, so the two theorems can be used together.
-/
namespace Tumfl.Theory
open Tumfl.Model

theorem nameOK_of_identOK {n : List Char} (h : identOK n = true) : nameOK n = true := by
  cases n with
  | nil => simp [identOK] at h
  | cons c cs =>
    simp only [identOK, Bool.and_eq_true] at h
    obtain ⟨h1, _, _, _, _, _, _⟩ := isAlpha_not_special h.1.1
    simp [nameOK, startsWith, isPrefix, Ne.symm h1]

theorem numOK_of_numOKp {n : NumTuple} (h : numOKp n = true) : numOK n = true := by
  simp only [numOKp, Bool.and_eq_true] at h
  obtain ⟨h1, _⟩ := h
  unfold numOK
  cases hs : numberStr n with
  | nil => simp [hs] at h1
  | cons c cs =>
    rw [hs] at h1
    simp only at h1
    have : c ≠ '-' := by
      rintro rfl
      simp [Spec.isDigit] at h1
    simp [startsWith, isPrefix, Ne.symm this]

theorem wf_nameNode {e : Expr} (h : nameNodeOK e = true) : wfExpr e = true ∧ nameOK (nameStr e) = true := by
  obtain ⟨t, n, rfl, hn⟩ := nameNodeOK_iff h
  exact ⟨by simp [wfExpr, nameOK_of_identOK hn], by simp [nameStr, nameOK_of_identOK hn]⟩

theorem wf_names : (ns : List Expr) → ns.all nameNodeOK = true → wfArgs ns = true
  | [], _ => rfl
  | e :: r, h => by
    simp only [List.all_cons, Bool.and_eq_true] at h
    simp [wfArgs, (wf_nameNode h.1).1, wf_names r h.2]

theorem wf_params : (ps : List Expr) → paramsOK ps = true → wfArgs ps = true
  | [], _ => rfl
  | e :: r, h => by
    rcases paramsOK_cons h with ⟨t, rfl, rfl⟩ | ⟨hn, hr⟩
    · simp [wfArgs, wfExpr]
    · simp [wfArgs, (wf_nameNode hn).1, wf_params r hr]

theorem wf_att : (a : AttName) → attOK a = true → wfAttName a = true
  | .mk n none, h => by
    simp only [attOK, Bool.and_true] at h
    simp [wfAttName, (wf_nameNode h).2]
  | .mk n (some x), h => by
    simp only [attOK, Bool.and_eq_true] at h
    simp [wfAttName, (wf_nameNode h.1).2, (wf_nameNode h.2).2]

theorem wf_atts (names : List AttName) (h : names.all attOK = true) : names.all wfAttName = true := by
  simp only [List.all_eq_true] at h ⊢
  intro a ha
  exact wf_att a (h a ha)

mutual
theorem wfE : (e : Expr) → pExpr e = true → wfExpr e = true
  | .nil _, _ | .bool _ _, _ | .vararg _, _ | .string _ _, _ => rfl
  | .number _ n, h => by simp only [pExpr] at h; simp [wfExpr, numOK_of_numOKp h]
  | .func _ ps body, h => by
    simp only [pExpr, Bool.and_eq_true] at h
    simp [wfExpr, wf_params ps h.1, wfB body h.2]
  | .table _ fs, h => by simp only [pExpr] at h; simp [wfExpr, wfFs fs h]
  | .binop _ _ l r, h => by
    simp only [pExpr, Bool.and_eq_true] at h
    simp [wfExpr, wfE l h.1, wfE r h.2]
  | .unop _ _ x, h => by simp only [pExpr] at h; simp [wfExpr, wfE x h]
  | .name _ n, h => by simp only [pExpr] at h; simp [wfExpr, nameOK_of_identOK h]
  | .index _ l k, h => by
    simp only [pExpr, Bool.and_eq_true] at h
    simp [wfExpr, wfE l h.1, wfE k h.2]
  | .namedIndex _ l nm, h => by
    simp only [pExpr, Bool.and_eq_true] at h
    simp [wfExpr, wfE l h.1, (wf_nameNode h.2).1]
  | .call _ f args, h => by
    simp only [pExpr, Bool.and_eq_true] at h
    simp [wfExpr, wfE f h.1, wfA args h.2]
  | .method _ f m args, h => by
    simp only [pExpr, Bool.and_eq_true] at h
    simp [wfExpr, wfE f h.1.1, (wf_nameNode h.1.2).1, wfA args h.2]

theorem wfA : (es : List Expr) → pArgs es = true → wfArgs es = true
  | [], _ => rfl
  | e :: r, h => by
    simp only [pArgs, Bool.and_eq_true] at h
    simp [wfArgs, wfE e h.1, wfA r h.2]

theorem wfFs : (fs : List Model.Field) → pFields fs = true → wfFields fs = true
  | [], _ => rfl
  | f :: r, h => by
    simp only [pFields, Bool.and_eq_true] at h
    simp [wfFields, wfF f h.1, wfFs r h.2]

theorem wfF : (f : Model.Field) → pField f = true → wfField f = true
  | .explicit _ k v, h => by
    simp only [pField, Bool.and_eq_true] at h
    simp [wfField, wfE k h.1, wfE v h.2]
  | .named _ n v, h => by
    simp only [pField, Bool.and_eq_true] at h
    simp [wfField, (wf_nameNode h.1).1, wfE v h.2]
  | .numbered _ v, h => by simp only [pField] at h; simp [wfField, wfE v h]

theorem wfB : (b : Model.Block) → pBlock b = true → wfBlock b = true
  | .mk _ ss none _, h => by
    simp only [pBlock, Bool.and_true] at h
    simp [wfBlock, wfSs ss h]
  | .mk _ ss (some es) _, h => by
    simp only [pBlock, Bool.and_eq_true] at h
    simp [wfBlock, wfSs ss h.1, wfA es h.2]

theorem wfSs : (ss : List Stmt) → pStmts ss = true → wfStmts ss = true
  | [], _ => rfl
  | s :: r, h => by
    simp only [pStmts, Bool.and_eq_true] at h
    simp [wfStmts, wfS s h.1, wfSs r h.2]

theorem wfS : (s : Stmt) → pStmt s = true → wfStmt s = true
  | .assign _ ts es, h => by
    simp only [pStmt, Bool.and_eq_true] at h
    simp [wfStmt, wfA ts h.1.1.2, wfA es h.2]
  | .block b, h => by
    simp only [pStmt, Bool.and_eq_true] at h
    simp [wfStmt, wfB b h.2]
  | .brk _, _ => rfl
  | .call _ f args, h => by
    simp only [pStmt, Bool.and_eq_true] at h
    simp [wfStmt, wfE f h.1, wfA args h.2]
  | .funcDef _ names none ps body, h => by
    simp only [pStmt, Bool.and_eq_true, Bool.and_true] at h
    simp [wfStmt, wf_names names h.1.1.2, wf_params ps h.1.2, wfB body h.2]
  | .funcDef _ names (some mn) ps body, h => by
    simp only [pStmt, Bool.and_eq_true] at h
    simp [wfStmt, wf_names names h.1.1.1.2, (wf_nameNode h.1.1.2).1, wf_params ps h.1.2, wfB body h.2]
  | .goto _ l, h => by simp only [pStmt] at h; simp [wfStmt, (wf_nameNode h).1]
  | .label _ l, h => by simp only [pStmt] at h; simp [wfStmt, (wf_nameNode h).1]
  | .iff _ test tr fl, h => by
    simp only [pStmt, Bool.and_eq_true] at h
    simp [wfStmt, wfE test h.1.1.1, h.1.1.2, wfB tr h.1.2, wfFl fl h.2]
  | .iterFor _ ns es body, h => by
    simp only [pStmt, Bool.and_eq_true] at h
    simp [wfStmt, wf_names ns h.1.1.1.1.2, wfA es h.1.1.2, wfB body h.2]
  | .localAssign _ names none, h => by
    simp only [pStmt, Bool.and_eq_true, Bool.and_true] at h
    simp only [wfStmt, wf_atts names h.2, Bool.and_true]
  | .localAssign _ names (some []), h => by simp [pStmt] at h
  | .localAssign _ names (some (e :: r)), h => by
    simp only [pStmt, Bool.and_eq_true] at h
    simp only [wfStmt, wf_atts names h.1.2, wfA (e :: r) h.2, Bool.and_true]
  | .localFunc _ n ps body, h => by
    simp only [pStmt, Bool.and_eq_true] at h
    simp [wfStmt, (wf_nameNode h.1.1).1, wf_params ps h.1.2, wfB body h.2]
  | .method _ f m args, h => by
    simp only [pStmt, Bool.and_eq_true] at h
    simp [wfStmt, wfE f h.1.1, (wf_nameNode h.1.2).1, wfA args h.2]
  | .numFor _ v a b none body, h => by
    simp only [pStmt, Bool.and_eq_true, Bool.and_true] at h
    simp [wfStmt, (wf_nameNode h.1.1.1.1).1, wfE a h.1.1.1.2, wfE b h.1.1.2, wfB body h.2]
  | .numFor _ v a b (some st) body, h => by
    simp only [pStmt, Bool.and_eq_true] at h
    simp [wfStmt, (wf_nameNode h.1.1.1.1.1).1, wfE a h.1.1.1.1.2, wfE b h.1.1.1.2, wfE st h.1.1.2, wfB body h.2]
  | .repeat _ c body, h => by
    simp only [pStmt, Bool.and_eq_true] at h
    simp [wfStmt, h.1.1, wfB body h.1.2, wfE c h.2]
  | .semi _, _ => rfl
  | .whl _ c body, h => by
    simp only [pStmt, Bool.and_eq_true] at h
    simp [wfStmt, wfE c h.1.1, wfB body h.2]

theorem wfFl : (fl : IfFalse) → pFalse fl = true → wfFalse fl = true
  | .none, _ => rfl
  | .block b, h => by
    simp only [pFalse, Bool.and_eq_true] at h
    simp [wfFalse, h.1, wfB b h.2]
  | .elif _ test tr fl, h => by
    simp only [pFalse, Bool.and_eq_true] at h
    simp [wfFalse, wfE test h.1.1.1, h.1.1.2, wfB tr h.1.2, wfFl fl h.2]
end

/-- a printable tree is well formed in the sense of the comment theorem (C13) -/
theorem TreeWF_of_Printable {b : Model.Block} (h : Printable b) : TreeWF b := wfB b h.2

end Tumfl.Theory
