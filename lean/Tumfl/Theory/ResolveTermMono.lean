import Tumfl.Theory.ResolveTerm
/-!
# Fuel monotonicity of the dependency resolver

`RLe x y`: wherever `x` does not fail with `.fuel`, `y` has the very same outcome (value and state, or error).  Every
`resolve*` function at fuel `f + 1` is above itself at fuel `f`; hence the outcome of `resolveRecursive` is independent
of the fuel as soon as the fuel suffices, and under the hypothesis of the termination theorem `resolveRecursive` has one
well-defined fuel-free outcome.
-/
namespace Tumfl.Theory
open Tumfl.Model

def RLe {α : Type} (x y : RM α) : Prop := ∀ st, x st ≠ .error .fuel → y st = x st

theorem RLe.refl {α : Type} (x : RM α) : RLe x x := fun _ _ => rfl

theorem RLe.rfuel {α : Type} (y : RM α) : RLe (rfuel : RM α) y := fun _ h => absurd rfl h

theorem RLe.bind {α β : Type} {x x' : RM α} {g g' : α → RM β} (hx : RLe x x') (hg : ∀ a, RLe (g a) (g' a)) :
    RLe (x >>= g) (x' >>= g') := by
  intro st h
  cases hxs : x st with
  | error e =>
    have hne : x st ≠ .error .fuel := by
      intro h'
      apply h
      exact bind_error h'
    rw [bind_error hxs, bind_error ((hx st hne).trans hxs)]
  | ok r =>
    obtain ⟨a, s⟩ := r
    have h1 : x' st = .ok (a, s) := (hx st (by rw [hxs]; intro h'; cases h')).trans hxs
    have e1 : (x >>= g) st = g a s := by
      show StateT.bind x g st = _
      unfold StateT.bind; rw [hxs]; rfl
    have e2 : (x' >>= g') st = g' a s := by
      show StateT.bind x' g' st = _
      unfold StateT.bind; rw [h1]; rfl
    rw [e1] at h
    rw [e1, e2]
    exact hg a s h

set_option hygiene false in
macro "mono_steps" : tactic => `(tactic|
  repeat (first
    | exact RLe.refl _
    | exact ihE _ _
    | exact ihEs _ _
    | exact ihFs _ _
    | exact ihB _ _
    | exact ihSs _ _
    | exact ihO _ _
    | exact ihS _ _
    | exact ihF _ _
    | (refine RLe.bind ?_ (fun _ => ?_))
    | split))

theorem resolve_mono (fs : FS) (sp : List Path) : ∀ f : Nat,
    (∀ dir e, RLe (resolveExpr fs sp f dir e) (resolveExpr fs sp (f + 1) dir e)) ∧
    (∀ dir es, RLe (resolveExprs fs sp f dir es) (resolveExprs fs sp (f + 1) dir es)) ∧
    (∀ dir fds, RLe (resolveFields fs sp f dir fds) (resolveFields fs sp (f + 1) dir fds)) ∧
    (∀ dir b, RLe (resolveBlock fs sp f dir b) (resolveBlock fs sp (f + 1) dir b)) ∧
    (∀ dir ss, RLe (resolveStmts fs sp f dir ss) (resolveStmts fs sp (f + 1) dir ss)) ∧
    (∀ dir o, RLe (resolveOptExpr fs sp f dir o) (resolveOptExpr fs sp (f + 1) dir o)) ∧
    (∀ dir s, RLe (resolveStmt fs sp f dir s) (resolveStmt fs sp (f + 1) dir s)) ∧
    (∀ dir fl, RLe (resolveFalse fs sp f dir fl) (resolveFalse fs sp (f + 1) dir fl)) := by
  intro f
  induction f with
  | zero =>
    refine ⟨?_, ?_, ?_, ?_, ?_, ?_, ?_, ?_⟩ <;> intro dir x
    · rw [resolveExpr]; exact RLe.rfuel _
    · rw [resolveExprs]; exact RLe.rfuel _
    · rw [resolveFields]; exact RLe.rfuel _
    · rw [resolveBlock]; exact RLe.rfuel _
    · rw [resolveStmts]; exact RLe.rfuel _
    · rw [resolveOptExpr]; exact RLe.rfuel _
    · rw [resolveStmt]; exact RLe.rfuel _
    · rw [resolveFalse]; exact RLe.rfuel _
  | succ f ih =>
    obtain ⟨ihE, ihEs, ihFs, ihB, ihSs, ihO, ihS, ihF⟩ := ih
    refine ⟨?_, ?_, ?_, ?_, ?_, ?_, ?_, ?_⟩
    · intro dir e
      cases e <;> simp only [resolveExpr] <;> mono_steps
    · intro dir es
      cases es <;> simp only [resolveExprs] <;> mono_steps
    · intro dir fds
      cases fds <;> simp only [resolveFields] <;> mono_steps
    · intro dir b
      obtain ⟨t, ss, rs, c⟩ := b
      simp only [resolveBlock]
      mono_steps
    · intro dir ss
      cases ss <;> simp only [resolveStmts] <;> mono_steps
    · intro dir o
      cases o <;> simp only [resolveOptExpr] <;> mono_steps
    · intro dir s
      cases s <;> simp only [resolveStmt] <;> mono_steps
    · intro dir fl
      cases fl <;> simp only [resolveFalse] <;> mono_steps

theorem resolveBlock_mono_le (fs : FS) (sp : List Path) (dir : Path) (b : Block) {f f' : Nat} (h : f ≤ f') :
    RLe (resolveBlock fs sp f dir b) (resolveBlock fs sp f' dir b) := by
  induction h with
  | refl => exact RLe.refl _
  | step _ ih =>
    intro st hne
    have e1 := ih st hne
    rw [(resolve_mono fs sp _).2.2.2.1 dir b st (by rw [e1]; exact hne), e1]

/-- fuel monotonicity of `resolveRecursive`: a fuel-free outcome persists with more fuel -/
theorem resolveRecursive_mono (fs : FS) (main : Path) (sp : List Path) {f f' : Nat} (h : f ≤ f')
    (hne : resolveRecursive fs main sp f ≠ .error .fuel) :
    resolveRecursive fs main sp f' = resolveRecursive fs main sp f := by
  have hle : RLe (parseFile fs main >>= fun ast => resolveBlock fs sp f (dirOf main) ast)
      (parseFile fs main >>= fun ast => resolveBlock fs sp f' (dirOf main) ast) :=
    RLe.bind (RLe.refl _) (fun ast => resolveBlock_mono_le fs sp (dirOf main) ast h)
  have hne' : (parseFile fs main >>= fun ast => resolveBlock fs sp f (dirOf main) ast) { found := [] } ≠
      .error .fuel := by
    intro h'
    apply hne
    unfold resolveRecursive
    rw [h']
  have := hle _ hne'
  unfold resolveRecursive
  rw [this]

/-- under the hypothesis of the termination theorem, `resolve_recursive` has a well-defined outcome: one result (a tree
or a Python exception, never fuel exhaustion) for every sufficient fuel -/
theorem resolveRecursive_outcome {fs : FS} {sp : List Path} {rank : Path → Nat}
    (hrank : ∀ p q, ExprEdge fs sp p q → rank q < rank p) (main : Path) :
    ∃ res, res ≠ .error .fuel ∧ ∀ fuel, resolveFuel fs rank ≤ fuel → resolveRecursive fs main sp fuel = res :=
  ⟨resolveRecursive fs main sp (resolveFuel fs rank),
    resolveRecursive_no_fuel hrank main _ (Nat.le_refl _),
    fun _ hf => resolveRecursive_mono fs main sp hf (resolveRecursive_no_fuel hrank main _ (Nat.le_refl _))⟩

end Tumfl.Theory
