import Tumfl.Theory.ParsePrintableTok
import Tumfl.Theory.FormatTextNums
/-!
# Every `NUMBER` token the lexer delivers prints in the canonical shape

`TokN t` : a `NUMBER` token carries a numeral tuple `n` with `CanonNumeral (numberStr n)`: the scanner delivers
`tupleOf m sg` for a well-formed reference numeral `m` (`number_sound`, `getNumber_spec`), and such a tuple prints as
`numText (canon m) 'x' (stdMark m.hex) sg` (`canonNumeral_numberStr`).  This includes `5.` (printed `5`) and `0x.8`
(printed `0x1.8`).  No assumption on the lexer configuration.
-/
namespace Tumfl.Theory
open Tumfl.Model Tumfl

/-- what `get_number` delivers, when the acceptance test of `nextTokenLoop` passes, prints canonically -/
theorem getNumber_canon (s : LexSt) (c : Char) (cs : List Char) (hs : s.rest = c :: cs)
    (hc : Spec.isDigit c = true ∨ (c = '.' ∧ nextIsDigit cs = true))
    (hacc : numReject (getNumber s) = false) : CanonNumeral (numberStr (getNumber s).1) := by
  obtain ⟨m, hp, _, _⟩ := number_sound s c cs hs hc hacc
  have hb := numScan_boundary c cs m hp
  obtain ⟨x, mk, sg, hx, hsrc, wf⟩ := parseNumeral_inv _ m hp
  have htext : s.rest = numText m x mk sg ++ (numScan c cs).2 := by rw [hs, ← hsrc, numScan_text]
  obtain ⟨g1, _⟩ := getNumber_spec s m x mk sg _ wf hx hb htext
  rw [g1]
  exact canonNumeral_numberStr m mk sg wf

def TokN (t : Token) : Prop := t.type = .NUMBER → ∃ n, t.value = .num n ∧ CanonNumeral (numberStr n)

/-- a successful outcome carries a good token -/
def TokResN (r : Except PyErr (Token × LexSt)) : Prop := ∀ tok s', r = .ok (tok, s') → TokN tok

theorem TokResN_error (e : PyErr) : TokResN (.error e) := by intro _ _ h; cases h

theorem TokResN_other {ty : TT} {v : TokVal} {a : Nat × Int × List (List Char)} {X : LexSt}
    (h : ty ≠ .NUMBER) : TokResN (.ok (Model.mkTok ty v a, X)) := by
  intro tok s' he; cases he; exact fun h' => absurd h' h

theorem TokResN_ite {c : Prop} [Decidable c] {a b : Except PyErr (Token × LexSt)}
    (ha : c → TokResN a) (hb : ¬ c → TokResN b) : TokResN (if c then a else b) := by
  split
  · exact ha ‹_›
  · exact hb ‹_›

theorem nextTokenLoop_tokN (cfg : LexCfg) : ∀ (f : Nat) (s : LexSt), TokResN (nextTokenLoop cfg f s)
  | 0, s => by rw [nextTokenLoop]; exact TokResN_error _
  | f + 1, s => by
    rw [nextTokenLoop]
    split
    · exact TokResN_other (ty := .EOF) (by decide)
    · rename_i c hc
      refine TokResN_ite (fun _ => nextTokenLoop_tokN cfg f _) (fun hws => ?_)
      refine TokResN_ite (fun _ => ?_) (fun hcm => ?_)
      · split
        · exact TokResN_error _
        · exact nextTokenLoop_tokN cfg f _
      simp only [tokenArgs]
      have hc0 : ({ s with comments := [] } : LexSt).cur = some c := hc
      obtain ⟨cs, hrest⟩ := rest_of_cur hc0
      refine TokResN_ite (fun hl => ?_) (fun _ => ?_)
      · -- name or keyword
        split
        · exact TokResN_error _
        · split
          · rename_i t ht
            exact TokResN_other (keywordOf_ne ht).2
          · exact TokResN_other (ty := .NAME) (by decide)
      refine TokResN_ite (fun hnum => ?_) (fun _ => ?_)
      · -- number
        refine TokResN_ite (fun _ => TokResN_error _) (fun hacc => ?_)
        intro tok s' he
        cases he
        refine fun _ => ⟨_, rfl, ?_⟩
        have hcond : Spec.isDigit c = true ∨ (c = '.' ∧ nextIsDigit cs = true) := by
          rw [number_contains, inStr_peek _ c cs hrest] at hnum
          simpa using hnum
        have hrej : numReject (getNumber { s with comments := [] }) = false := by
          cases hr : numReject (getNumber { s with comments := [] }) with
          | false => rfl
          | true => exact absurd hr hacc
        exact getNumber_canon _ c cs hrest hcond hrej
      refine TokResN_ite (fun _ => ?_) (fun _ => ?_)
      · split
        · exact TokResN_error _
        · exact TokResN_other (ty := .STRING) (by decide)
      refine TokResN_ite (fun _ => ?_) (fun _ => ?_)
      · split
        · exact TokResN_error _
        · exact TokResN_other (ty := .STRING) (by decide)
      refine TokResN_ite (fun _ => ?_) (fun _ => ?_)
      · exact TokResN_ite (fun _ => TokResN_other (ty := .ELLIPSIS) (by decide))
          (fun _ => TokResN_other (ty := .CONCAT) (by decide))
      split
      · rename_i t v htwo
        split at htwo
        · rename_i p hp
          cases hs : symbolOf [c, p] with
          | none => rw [hs] at htwo; cases htwo
          | some t' =>
            rw [hs] at htwo
            cases htwo
            exact TokResN_other (symbolOf_ne hs).2
        · cases htwo
      · split
        · rename_i t ht
          exact TokResN_other (symbolOf_ne ht).2
        · exact TokResN_error _

/-- **every `NUMBER` token delivered by `get_next_token` prints in the canonical shape** -/
theorem getNextToken_tokN {cfg : LexCfg} {s : LexSt} {tok : Token} {s' : LexSt}
    (h : getNextToken cfg s = .ok (tok, s')) : TokN tok := by
  unfold getNextToken at h
  exact nextTokenLoop_tokN cfg _ _ tok s' h

end Tumfl.Theory
