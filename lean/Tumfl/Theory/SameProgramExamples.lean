import Tumfl.Theory.SameProgram
import Tumfl.Props.C06
/-!
# Non-vacuity of `SameProgram.lean`
-/
namespace Tumfl.Theory
open Tumfl.Model

/-! ## (2) on a concrete pair: `local x = (0XA); ; f((x))` versus `local x = 0xa f(x)` -/

def exTok : Token := default

/-- the model tree of both programs (the `Semicolon` node of the first one is kept by the parser) -/
def exModel : Model.Block :=
  .mk exTok [ .localAssign exTok [.mk (.name exTok ['x']) none]
               (some [.number exTok { isHex := true, ip := some ['a'], fp := none, ex := none, fo := none }]),
             .semi exTok,
             .call exTok (.name exTok ['f']) [.name exTok ['x']] ] none true

/-- the reference tree of `local x = (0XA); ; f((x))`: parentheses, an empty statement, an upper-case numeral -/
def exSrc : Spec.Block :=
  .mk [ .locl [("x", none)] [.paren (.num ⟨true, ['A'], none, none⟩)], .empty,
        .call (.call (.name "f") [.paren (.name "x")]) ] none

/-- the reference tree of `local x = 0xa f(x)` -/
def exOut : Spec.Block :=
  .mk [ .locl [("x", none)] [.num ⟨true, ['a'], none, none⟩], .call (.call (.name "f") [.name "x"]) ] none

theorem exNum : NumRel { isHex := true, ip := some ['a'], fp := none, ex := none, fo := none } ⟨true, ['A'], none, none⟩ := by
  unfold NumRel
  decide +kernel

theorem exNum' : NumRel { isHex := true, ip := some ['a'], fp := none, ex := none, fo := none } ⟨true, ['a'], none, none⟩ := by
  unfold NumRel
  decide +kernel

theorem exName (t : Token) (cs : List Char) (s : String) (h : s = String.ofList cs) : ExpRel (.name t cs) (.name s) := by
  subst h; exact .name t cs

theorem exNameRel (t : Token) (cs : List Char) (s : String) (h : s = String.ofList cs) : NameRel (.name t cs) s :=
  ⟨t, cs, rfl, h⟩

theorem exSrc_rel : BlockRel exModel exSrc := by
  unfold exModel exSrc
  refine .blk0 _ _ (.cons (.locl1 _ (.cons ⟨exNameRel _ _ _ ?_, trivial⟩ .nil) (.cons (.paren (.num _ exNum)) .nil) ?_)
    (.cons (.empty _) (.cons (.call _ (exName _ _ _ ?_) (.cons (.paren (exName _ _ _ ?_)) .nil)) .nil)))
  all_goals first | decide | simp

theorem exOut_rel : BlockRel (dropSemis exModel) (dropEmpty exOut) := by
  simp only [dropSemis, exModel, dsBlock, dsStmts, isSemi, dsStmt, dsArgs, dsExpr, dropEmpty, exOut, deBlock, deStats,
    isEmptyStat, deStat, deExps, deExp, Bool.false_eq_true, if_false]
  refine .blk0 _ _ (.cons (.locl1 _ (.cons ⟨exNameRel _ _ _ ?_, trivial⟩ .nil) (.cons (.num _ exNum') .nil) ?_)
    (.cons (.call _ (exName _ _ _ ?_) (.cons (exName _ _ _ ?_) .nil)) .nil))
  all_goals first | decide | simp

/-- (2) applies: the two reference trees have the same normal form ... -/
example : normS exSrc = normS exOut := blockRel_normS_eq' exSrc_rel exOut_rel

/-- ... which is `exOut` itself (it is normal), although the trees differ -/
example : NormalS exOut := by decide
example : ¬ NormalS exSrc := by decide
example : normS exSrc = exOut := (blockRel_normS_eq' exSrc_rel exOut_rel).trans (normS_of_normal (by decide))

/-- `normS` does not identify different programs: `local x = 0xa f(x)` and `local x = 0xb f(x)` are both normal -/
def exOther : Spec.Block :=
  .mk [ .locl [("x", none)] [.num ⟨true, ['b'], none, none⟩], .call (.call (.name "f") [.name "x"]) ] none

example : NormalS exOther := by decide
example : normS exOut ≠ normS exOther := by
  rw [normS_of_normal (c := exOut) (by decide), normS_of_normal (c := exOther) (by decide)]
  intro h
  simp [exOut, exOther] at h

/-! ## (1) and (3) on a concrete pair of texts -/

def exText : List Char := "local x = (0XA); f((x))".toList
def exFormatted : List Char := "local x = 0xa\nf(x)".toList

/-- the model parser accepts `exText`, the reference lexer reads `exFormatted`, and the token kinds of `exFormatted` are
the reading "no separator is a `;`" of the pieces emitted for the parsed tree -/
def exCheck : Bool :=
  match parseText exText, Spec.lex exFormatted with
  | .ok (b, _), .ok ts => ts.map (·.tk) == piecesTks false (emit Props.demoStyle b) ++ [.eof]
  | _, _ => false

theorem exCheck_true : exCheck = true := by decide +kernel

/-- all hypotheses of `same_program` hold for the pair, hence its conclusion -/
theorem exSame : ∃ c c', Spec.Accepts exText c ∧ Spec.Accepts exFormatted c' ∧ normS c = normS c' := by
  have h := exCheck_true
  unfold exCheck at h
  split at h
  · rename_i b hs ts hp hl
    exact same_program (sty := Props.demoStyle) (by unfold NoCR exText; decide) hp (readTks_const false _) hl
      (by simpa using h)
  · cases h

end Tumfl.Theory
