import Tumfl.Theory.TriviaLong
import Tumfl.Theory.TriviaScan
/-!
# White space and comments: what the lexer model skips, what Lua skips, and where the comments go

* `Tumfl/Theory/TriviaLong.lean`: long brackets - `getLongBrackets` agrees with `Spec.longOpener` / `Spec.longBody`
  (`getLongBrackets_agree`, `getLongBrackets_unclosed`, `getLongBrackets_malformed`).
* here, part 2: `skipComment` agrees with the comment branch of the reference lexer (`refComment`), up to the one
  newline directly after the opener of a long comment, which the model drops and the reference keeps.
* here, part 3: every comment is delivered, in order, with the next token; the model's `nextTokenLoop` and the
  reference's `lexLoop` both factor through the pure function `trivia`.
-/
namespace Tumfl.Theory
open Tumfl.Model

/-! ## part 2: comments -/

theorem untilNewline_nil : Spec.untilNewline [] = ([], []) := by rw [Spec.untilNewline]

theorem untilNewline_nl (cs : List Char) : Spec.untilNewline ('\n' :: cs) = ([], '\n' :: cs) := by
  rw [Spec.untilNewline]

theorem untilNewline_cons {c : Char} (h : c ≠ '\n') (cs : List Char) :
    Spec.untilNewline (c :: cs) = (c :: (Spec.untilNewline cs).1, (Spec.untilNewline cs).2) := by
  rw [Spec.untilNewline.eq_2 c cs (fun e => h e)]

/-- the short-comment loop of the model is `Spec.untilNewline` -/
theorem shortComment_spec : ∀ (r : List Char) (f : Nat) (s : LexSt) (acc : List Char), s.rest = r → r.length < f →
    ∃ s3, shortComment f s acc = (acc.reverse ++ (Spec.untilNewline r).1, s3) ∧ s3.rest = (Spec.untilNewline r).2
  | [], f, s, acc, hs, hf => by
    obtain ⟨f, rfl⟩ : ∃ g, f = g + 1 := ⟨f - 1, by omega⟩
    refine ⟨s, ?_, by rw [untilNewline_nil]; exact hs⟩
    rw [shortComment, cur_eq_none hs, untilNewline_nil]
    simp
  | c :: cs, f, s, acc, hs, hf => by
    obtain ⟨f, rfl⟩ : ∃ g, f = g + 1 := ⟨f - 1, by omega⟩
    rw [shortComment, cur_of hs]
    by_cases hc : c = '\n'
    · subst hc
      refine ⟨s, ?_, by rw [untilNewline_nl]; exact hs⟩
      rw [untilNewline_nl]
      simp
    · obtain ⟨s3, h1, h2⟩ := shortComment_spec cs f (advance s) (c :: acc) (advance_rest_of hs) (by simpa using hf)
      refine ⟨s3, ?_, by rw [untilNewline_cons hc]; exact h2⟩
      have : (c != '\n') = true := by simpa using hc
      simp only [this, if_true, h1, untilNewline_cons hc]
      simp

theorem longOpener_isSome (r : List Char) :
    (Spec.longOpener ('[' :: r)).isSome = ((Spec.countEq r).2.head? == some '[') := by
  rw [longOpener_cons]
  generalize Spec.countEq r = p
  obtain ⟨n, t⟩ := p
  cases t with
  | nil => rfl
  | cons d t' =>
    by_cases hd : d = '['
    · subst hd; rfl
    · split
      · rename_i heq
        cases heq
        exact absurd rfl hd
      · simpa using hd

theorem isLongBracketAux_eq : ∀ (r : List Char), isLongBracketAux r = ((Spec.countEq r).2.head? == some '[')
  | [] => by
    rw [countEq_nil, isLongBracketAux.eq_3]
    · rfl
    · intro r h; cases h
    · intro r h; cases h
  | c :: r => by
    by_cases h1 : c = '='
    · subst h1
      rw [isLongBracketAux, countEq_cons_eq, isLongBracketAux_eq r]
    · rw [countEq_cons_ne h1]
      by_cases h2 : c = '['
      · subst h2
        rw [isLongBracketAux]
        rfl
      · rw [isLongBracketAux.eq_3]
        · simpa using fun h => h2 h
        · intro r' h; simp at h; exact h1 h.1
        · intro r' h; simp at h; exact h2 h.1

/-- `_is_long_bracket` decides exactly `Spec.longOpener` -/
theorem isLongBracket_iff {s2 : LexSt} {r : List Char} (h : s2.rest = '[' :: r) :
    isLongBracket s2 = true ↔ (Spec.longOpener s2.rest).isSome := by
  rw [isLongBracket, h, List.tail_cons, isLongBracketAux_eq, longOpener_isSome]

theorem longOpener_ne {c : Char} (h : c ≠ '[') (r : List Char) : Spec.longOpener (c :: r) = none := by
  rw [Spec.longOpener.eq_2]
  intro cs h'
  simp at h'
  exact h h'.1

theorem longOpener_nil : Spec.longOpener [] = none := by
  rw [Spec.longOpener.eq_2]
  intro cs h'; cases h'

theorem longOpener_some_cons {r : List Char} {lvl : Nat} {body : List Char} (h : Spec.longOpener r = some (lvl, body)) :
    ∃ r0, r = '[' :: r0 := by
  cases r with
  | nil => rw [longOpener_nil] at h; cases h
  | cons c r0 =>
    by_cases hc : c = '['
    · exact ⟨r0, by rw [hc]⟩
    · rw [longOpener_ne hc] at h; cases h

/-- the comment branch of the reference lexer `Spec.lexLoop`, after `--`: the text of the comment and the rest;
`none` for an unfinished long comment -/
def refComment (r : List Char) : Option (List Char × List Char) :=
  match Spec.longOpener r with
  | some (lvl, body) => Spec.longBody lvl body
  | none => some (Spec.untilNewline r)

theorem dropFirstNewline_nl (cs : List Char) : Spec.dropFirstNewline ('\n' :: cs) = cs := by
  rw [Spec.dropFirstNewline]

theorem dropFirstNewline_ne {c : Char} (h : c ≠ '\n') (cs : List Char) : Spec.dropFirstNewline (c :: cs) = c :: cs := by
  rw [Spec.dropFirstNewline.eq_2]
  intro cs' h'; simp at h'; exact h h'.1

theorem dropFirstNewline_nil : Spec.dropFirstNewline [] = [] := by
  rw [Spec.dropFirstNewline.eq_2]
  intro cs' h'; cases h'

/-- dropping the newline after the opener before reading = dropping it from the text read -/
theorem spec_longBody_dropNL (lvl : Nat) (body : List Char) :
    Spec.longBody lvl (Spec.dropFirstNewline body) =
      (Spec.longBody lvl body).map fun x => (Spec.dropFirstNewline x.1, x.2) := by
  cases body with
  | nil => rw [dropFirstNewline_nil, spec_longBody_nil]; rfl
  | cons c cs =>
    by_cases hc : c = '\n'
    · subst hc
      rw [dropFirstNewline_nl, spec_longBody_cons_ne lvl (by decide)]
      cases Spec.longBody lvl cs with
      | none => rfl
      | some x => simp [pre, dropFirstNewline_nl]
    · rw [dropFirstNewline_ne hc]
      by_cases hb : c = ']'
      · subst hb
        rw [spec_longBody_rb]
        cases Spec.closesAt lvl cs with
        | some rest => simp [dropFirstNewline_nil]
        | none =>
          cases Spec.longBody lvl cs with
          | none => rfl
          | some x => simp [pre, dropFirstNewline_ne hc]
      · rw [spec_longBody_cons_ne lvl hb]
        cases Spec.longBody lvl cs with
        | none => rfl
        | some x => simp [pre, dropFirstNewline_ne hc]

/-- a short comment contains no newline -/
theorem dropFirstNewline_untilNewline (r : List Char) :
    Spec.dropFirstNewline (Spec.untilNewline r).1 = (Spec.untilNewline r).1 := by
  cases r with
  | nil => rw [untilNewline_nil, dropFirstNewline_nil]
  | cons c cs =>
    by_cases hc : c = '\n'
    · subst hc; rw [untilNewline_nl, dropFirstNewline_nil]
    · rw [untilNewline_cons hc, dropFirstNewline_ne hc]

theorem skipComment_cond {s : LexSt} {r : List Char} (hs : s.rest = '-' :: '-' :: r) :
    (s.cur == some '-' && s.peek == some '-') = true := by
  rw [cur_of hs, peek_of hs]; rfl

theorem advance2_rest {s : LexSt} {a b : Char} {r : List Char} (hs : s.rest = a :: b :: r) :
    (advance (advance s)).rest = r := advance_rest_of (advance_rest_of hs)

theorem advance2_comments (s : LexSt) : (advance (advance s)).comments = s.comments := by
  rw [advance_comments, advance_comments]

/-- **Comments agree (success)**: if the reference skips the comment after `--` as `(b, rest')`, the model's
`skipComment` succeeds, leaves the same text `rest'`, and appends `b` - minus the newline directly after the opener of a
long comment - to the pending comments. -/
theorem skipComment_agree {s : LexSt} {r : List Char} (hs : s.rest = '-' :: '-' :: r) {b rest' : List Char}
    (h : refComment r = some (b, rest')) :
    ∃ s', skipComment s = .ok s' ∧ s'.rest = rest' ∧ s'.comments = s.comments ++ [Spec.dropFirstNewline b] := by
  have hr2 : (advance (advance s)).rest = r := advance2_rest hs
  unfold skipComment
  simp only [skipComment_cond hs, Bool.not_true, Bool.false_eq_true, if_false]
  unfold refComment at h
  cases ho : Spec.longOpener r with
  | some p =>
    obtain ⟨lvl, body⟩ := p
    rw [ho] at h
    simp only at h
    obtain ⟨r0, rfl⟩ := longOpener_some_cons ho
    have hlb : isLongBracket (advance (advance s)) = true := by
      rw [isLongBracket_iff hr2, hr2, ho]; rfl
    have hb : Spec.longBody lvl (Spec.dropFirstNewline body) = some (Spec.dropFirstNewline b, rest') := by
      rw [spec_longBody_dropNL, h]; rfl
    obtain ⟨s3, h3, h3r⟩ := getLongBrackets_agree hr2 (by rw [hr2]; exact ho) hb
    have h3c : s3.comments = s.comments :=
      getLongBrackets_adv (advStable_comments s.comments) (advance2_comments s) h3
    refine ⟨{ s3 with comments := s3.comments ++ [Spec.dropFirstNewline b] }, ?_, h3r, by rw [h3c]⟩
    simp only [cur_of hr2, hlb, beq_self_eq_true, Bool.and_self, if_true, h3]
  | none =>
    rw [ho] at h
    simp only [Option.some.injEq, Prod.ext_iff] at h
    obtain ⟨hb, hrest⟩ := h
    have hcond : ((advance (advance s)).cur == some '[' && isLongBracket (advance (advance s))) = false := by
      cases r with
      | nil => simp [cur_eq_none hr2]
      | cons c r0 =>
        by_cases hc : c = '['
        · subst hc
          have : ¬ (isLongBracket (advance (advance s)) = true) := by
            rw [isLongBracket_iff hr2, hr2, ho]; simp
          simp [this]
        · rw [cur_of hr2]
          have : (some c == some '[') = false := by simpa using hc
          simp [this]
    obtain ⟨s3, h3, h3r⟩ := shortComment_spec r ((advance (advance s)).rest.length + 1) (advance (advance s)) [] hr2
      (by rw [hr2]; omega)
    have h3c : s3.comments = s.comments := by
      have := shortComment_adv (advStable_comments s.comments) ((advance (advance s)).rest.length + 1)
        (advance (advance s)) [] (advance2_comments s)
      rw [h3] at this
      exact this
    refine ⟨{ s3 with comments := s3.comments ++ [(Spec.untilNewline r).1] }, ?_, by rw [← hrest]; exact h3r, ?_⟩
    · simp only [hcond, Bool.false_eq_true, if_false, h3, List.reverse_nil, List.nil_append]
    · simp only [h3c, ← hb, dropFirstNewline_untilNewline]

/-- **Comments agree (failure)**: the reference's comment branch fails (only possible for an unfinished long comment)
iff the model raises "long brackets never closed", at the position of the `[` after `--`. -/
theorem skipComment_unclosed {s : LexSt} {r : List Char} (hs : s.rest = '-' :: '-' :: r) (h : refComment r = none) :
    skipComment s = .error (.lexer "long brackets never closed" (advance (advance s)).line (advance (advance s)).col) := by
  have hr2 : (advance (advance s)).rest = r := advance2_rest hs
  unfold skipComment
  simp only [skipComment_cond hs, Bool.not_true, Bool.false_eq_true, if_false]
  unfold refComment at h
  cases ho : Spec.longOpener r with
  | some p =>
    obtain ⟨lvl, body⟩ := p
    rw [ho] at h
    simp only at h
    obtain ⟨r0, rfl⟩ := longOpener_some_cons ho
    have hlb : isLongBracket (advance (advance s)) = true := by
      rw [isLongBracket_iff hr2, hr2, ho]; rfl
    have hb : Spec.longBody lvl (Spec.dropFirstNewline body) = none := by
      rw [spec_longBody_dropNL, h]; rfl
    have h3 := getLongBrackets_unclosed hr2 (by rw [hr2]; exact ho) hb
    simp only [cur_of hr2, hlb, beq_self_eq_true, Bool.and_self, if_true, h3]
  | none => rw [ho] at h; cases h

/-- **Comments agree**: `skipComment` succeeds iff the reference's comment branch does -/
theorem skipComment_ok_iff {s : LexSt} {r : List Char} (hs : s.rest = '-' :: '-' :: r) :
    (∃ s', skipComment s = .ok s') ↔ (refComment r).isSome := by
  cases h : refComment r with
  | none =>
    rw [skipComment_unclosed hs h]
    simp
  | some x =>
    obtain ⟨s', h1, _⟩ := skipComment_agree hs (b := x.1) (rest' := x.2) h
    simp only [Option.isSome_some, iff_true]
    exact ⟨s', h1⟩

/-- the converse reading of `skipComment_agree`: whenever `skipComment` succeeds, the reference's comment branch
succeeded with the same rest and (up to the newline after a long opener) the same text -/
theorem tv_skipComment_ok {s s' : LexSt} {r : List Char} (hs : s.rest = '-' :: '-' :: r) (h : skipComment s = .ok s') :
    ∃ b, refComment r = some (b, s'.rest) ∧ s'.comments = s.comments ++ [Spec.dropFirstNewline b] := by
  cases hr : refComment r with
  | none => rw [skipComment_unclosed hs hr] at h; cases h
  | some x =>
    obtain ⟨s'', h1, h2, h3⟩ := skipComment_agree hs (b := x.1) (rest' := x.2) hr
    rw [h1] at h
    cases h
    exact ⟨x.1, by rw [h2], h3⟩

/-! ## part 3a: every pending comment goes to the next token -/

/-- `skipComment` appends exactly one comment text -/
theorem skipComment_comments {s s' : LexSt} (h : skipComment s = .ok s') : ∃ c, s'.comments = s.comments ++ [c] := by
  unfold skipComment at h
  split at h
  · cases h
  · dsimp only at h
    split at h
    · split at h
      · cases h
      · rename_i c s3 heq
        cases h
        exact ⟨c, by rw [getLongBrackets_adv (advStable_comments s.comments) (advance2_comments s) heq]⟩
    · have h3 := shortComment_adv (advStable_comments s.comments) ((advance (advance s)).rest.length + 1)
        (advance (advance s)) [] (advance2_comments s)
      revert h h3
      generalize shortComment ((advance (advance s)).rest.length + 1) (advance (advance s)) [] = p
      obtain ⟨c, s3⟩ := p
      intro h h3
      cases h
      exact ⟨c, by rw [show s3.comments = s.comments from h3]⟩

theorem skipWhitespace_comments (f : Nat) (s : LexSt) : (skipWhitespace f s).comments = s.comments :=
  skipWhitespace_adv (advStable_comments s.comments) f s rfl

/-- **Comment delivery (one call of the loop)**: the delivered token carries all comments that were pending, in order,
followed by those skipped in this call; none stays pending. -/
theorem nextTokenLoop_comments {cfg : LexCfg} : ∀ (f : Nat) (s : LexSt) (tok : Token) (s' : LexSt),
    nextTokenLoop cfg f s = .ok (tok, s') → s'.comments = [] ∧ ∃ cs, tok.comment = s.comments ++ cs
  | 0, s, tok, s', h => by rw [nextTokenLoop] at h; cases h
  | f + 1, s, tok, s', h => by
    rw [nextTokenLoop_succ] at h
    split at h
    · obtain ⟨rfl, rfl⟩ := ok_pair h
      exact ⟨rfl, [], by simp [tokenArgs, mkTok]⟩
    · split at h
      · obtain ⟨h1, cs, h2⟩ := nextTokenLoop_comments f _ tok s' h
        rw [skipWhitespace_comments] at h2
        exact ⟨h1, cs, h2⟩
      · split at h
        · split at h
          · cases h
          · rename_i s1 heq
            obtain ⟨h1, cs, h2⟩ := nextTokenLoop_comments f _ tok s' h
            obtain ⟨c, hc⟩ := skipComment_comments heq
            exact ⟨h1, c :: cs, by rw [h2, hc]; simp⟩
        · obtain ⟨h1, h2, _⟩ := scanToken_adv (advStable_comments []) (P := fun s => s.comments = []) rfl h
          exact ⟨h1, [], by simp [h2]⟩

/-- **Comment delivery (`get_next_token`)** -/
theorem getNextToken_comments {cfg : LexCfg} {s : LexSt} {tok : Token} {s' : LexSt}
    (h : getNextToken cfg s = .ok (tok, s')) : s'.comments = [] ∧ ∃ cs, tok.comment = s.comments ++ cs := by
  unfold getNextToken at h
  obtain ⟨h1, cs, h2⟩ := nextTokenLoop_comments _ _ _ _ h
  refine ⟨h1, cs, ?_⟩
  rw [h2]
  split
  · rw [skipShebang_adv (advStable_comments s.comments) _ s rfl]
  · rfl

/-! ## part 3b: the pure function `trivia` -/

theorem closesAt_suffix : ∀ (lvl : Nat) (cs rest : List Char), Spec.closesAt lvl cs = some rest → rest <:+ cs ∧ rest.length < cs.length
  | lvl, [], rest, h => by
    rw [Spec.closesAt.eq_3] at h
    · cases h
    · intro cs' _ h'; cases h'
    · intro n cs' _ h'; cases h'
  | lvl, c :: cs, rest, h => by
    cases lvl with
    | zero =>
      by_cases hc : c = ']'
      · subst hc
        rw [Spec.closesAt] at h
        cases h
        exact ⟨List.suffix_cons _ _, by simp⟩
      · rw [Spec.closesAt.eq_3] at h
        · cases h
        · intro cs' _ h'; simp at h'; exact hc h'.1
        · intro n cs' h'; cases h'
    | succ n =>
      by_cases hc : c = '='
      · subst hc
        rw [Spec.closesAt] at h
        obtain ⟨h1, h2⟩ := closesAt_suffix n cs rest h
        exact ⟨h1.trans (List.suffix_cons _ _), by simp; omega⟩
      · rw [Spec.closesAt.eq_3] at h
        · cases h
        · intro cs' h'; cases h'
        · intro n' cs' _ h'; simp at h'; exact hc h'.1

theorem spec_longBody_suffix (lvl : Nat) : ∀ (t b rest : List Char), Spec.longBody lvl t = some (b, rest) →
    rest <:+ t ∧ rest.length < t.length
  | [], b, rest, h => by rw [spec_longBody_nil] at h; cases h
  | c :: cs, b, rest, h => by
    have step : ∀ p, (Spec.longBody lvl cs).map (pre p) = some (b, rest) → rest <:+ c :: cs ∧ rest.length < (c :: cs).length := by
      intro p h
      cases hb : Spec.longBody lvl cs with
      | none => rw [hb] at h; cases h
      | some x =>
        rw [hb] at h
        simp only [Option.map_some, pre, Option.some.injEq, Prod.mk.injEq] at h
        obtain ⟨h1, h2⟩ := spec_longBody_suffix lvl cs x.1 x.2 hb
        rw [h.2] at h1 h2
        exact ⟨h1.trans (List.suffix_cons _ _), by simp; omega⟩
    by_cases hc : c = ']'
    · subst hc
      rw [spec_longBody_rb] at h
      cases hca : Spec.closesAt lvl cs with
      | some r =>
        rw [hca] at h
        simp only [Option.some.injEq, Prod.mk.injEq] at h
        obtain ⟨h1, h2⟩ := closesAt_suffix lvl cs r hca
        rw [h.2] at h1 h2
        exact ⟨h1.trans (List.suffix_cons _ _), by simp; omega⟩
      | none =>
        rw [hca] at h
        exact step _ h
    · rw [spec_longBody_cons_ne lvl hc] at h
      exact step _ h

theorem countEq_suffix : ∀ (r : List Char), (Spec.countEq r).2 <:+ r
  | [] => by rw [countEq_nil]; exact List.suffix_refl _
  | c :: r => by
    by_cases hc : c = '='
    · subst hc
      rw [countEq_cons_eq]
      exact (countEq_suffix r).trans (List.suffix_cons _ _)
    · rw [countEq_cons_ne hc]; exact List.suffix_refl _

theorem longOpener_suffix {r : List Char} {lvl : Nat} {body : List Char} (h : Spec.longOpener r = some (lvl, body)) :
    body <:+ r := by
  obtain ⟨r0, rfl⟩ := longOpener_some_cons h
  rw [longOpener_some_iff] at h
  have := countEq_suffix r0
  rw [h] at this
  exact ((List.suffix_cons _ _).trans this).trans (List.suffix_cons _ _)

theorem untilNewline_suffix : ∀ (r : List Char), (Spec.untilNewline r).2 <:+ r
  | [] => by rw [untilNewline_nil]; exact List.suffix_refl _
  | c :: r => by
    by_cases hc : c = '\n'
    · subst hc
      rw [untilNewline_nl]; exact List.suffix_refl _
    · rw [untilNewline_cons hc]
      exact (untilNewline_suffix r).trans (List.suffix_cons _ _)

/-- a comment ends within the text -/
theorem refComment_suffix {r b rest : List Char} (h : refComment r = some (b, rest)) : rest <:+ r := by
  unfold refComment at h
  split at h
  · rename_i lvl body ho
    exact (spec_longBody_suffix lvl body b rest h).1.trans (longOpener_suffix ho)
  · have e : Spec.untilNewline r = (b, rest) := by simpa using h
    have := untilNewline_suffix r
    rw [e] at this
    exact this

/-- Skip white space and comments (as the reference lexer does).  `some (cms, rest)`: the texts of the comments
skipped, in order, exactly as the reference lexer records them, and the remaining text, which is empty or starts a token;
`none`: an unfinished long comment (or not enough fuel: `text.length + 1` is always enough, see `triviaOf`). -/
def trivia : Nat → List Char → Option (List (List Char) × List Char)
  | 0, _ => none
  | _ + 1, [] => some ([], [])
  | f + 1, c :: cs =>
    if Spec.isSpace c then trivia f cs
    else if c = '-' ∧ cs.head? = some '-' then
      match refComment cs.tail with
      | some (b, rest) => (trivia f rest).map fun x => (b :: x.1, x.2)
      | none => none
    else some ([], c :: cs)

/-- more fuel than the length of the text makes no difference -/
theorem trivia_fuel : ∀ (f g : Nat) (cs : List Char), cs.length < f → cs.length < g → trivia f cs = trivia g cs
  | 0, _, _, hf, _ => by omega
  | _, 0, _, _, hg => by omega
  | f + 1, g + 1, [], _, _ => by rw [trivia, trivia]
  | f + 1, g + 1, c :: cs, hf, hg => by
    rw [trivia, trivia]
    have e1 := trivia_fuel f g cs (by simpa using hf) (by simpa using hg)
    split
    · exact e1
    · split
      · split
        · rename_i b rest hr
          have hl : rest.length ≤ cs.length :=
            ((refComment_suffix hr).trans (List.tail_suffix cs)).length_le
          rw [trivia_fuel f g rest (by simp at hf; omega) (by simp at hg; omega)]
        · rfl
      · rfl

/-- `trivia` with enough fuel -/
def triviaOf (cs : List Char) : Option (List (List Char) × List Char) := trivia (cs.length + 1) cs

/-- the end of the text, or a character that is neither white space nor the start of a comment -/
def AtToken : List Char → Prop
  | [] => True
  | c :: cs => Spec.isSpace c = false ∧ ¬ (c = '-' ∧ cs.head? = some '-')

theorem triviaOf_nil : triviaOf [] = some ([], []) := by
  rw [triviaOf, trivia]

theorem triviaOf_space {c : Char} (h : Spec.isSpace c = true) (cs : List Char) : triviaOf (c :: cs) = triviaOf cs := by
  rw [triviaOf, trivia]
  simp only [h, if_true]
  exact trivia_fuel _ _ _ (by simp) (by simp)

theorem triviaOf_comment (r : List Char) :
    triviaOf ('-' :: '-' :: r) =
      match refComment r with
      | some (b, rest) => (triviaOf rest).map fun x => (b :: x.1, x.2)
      | none => none := by
  rw [triviaOf, trivia]
  have : Spec.isSpace '-' = false := by decide
  simp only [this, Bool.false_eq_true, if_false, List.head?_cons, and_self, if_true, List.tail_cons]
  split
  · rename_i b rest hr
    have hl : rest.length ≤ r.length := (refComment_suffix hr).length_le
    rw [trivia_fuel _ (rest.length + 1) rest (by simp; omega) (by omega)]
    rfl
  · rfl

theorem triviaOf_atToken {cs : List Char} (h : AtToken cs) : triviaOf cs = some ([], cs) := by
  cases cs with
  | nil => exact triviaOf_nil
  | cons c cs =>
    obtain ⟨h1, h2⟩ := h
    rw [triviaOf, trivia]
    simp [h1, h2]

/-- `trivia` stops at the end of the text or at the start of a token, within the text -/
theorem triviaOf_spec : ∀ (n : Nat) (cs : List Char), cs.length < n → ∀ cms rest, triviaOf cs = some (cms, rest) →
    AtToken rest ∧ rest <:+ cs
  | 0, _, h, _, _, _ => by omega
  | n + 1, [], _, cms, rest, h => by
    rw [triviaOf_nil] at h
    cases h
    exact ⟨trivial, List.suffix_refl _⟩
  | n + 1, c :: cs, hn, cms, rest, h => by
    by_cases hsp : Spec.isSpace c = true
    · rw [triviaOf_space hsp] at h
      obtain ⟨h1, h2⟩ := triviaOf_spec n cs (by simpa using hn) cms rest h
      exact ⟨h1, h2.trans (List.suffix_cons _ _)⟩
    · by_cases hcm : c = '-' ∧ cs.head? = some '-'
      · obtain ⟨rfl, h2⟩ := hcm
        cases cs with
        | nil => cases h2
        | cons d r =>
          simp only [List.head?_cons, Option.some.injEq] at h2
          subst h2
          rw [triviaOf_comment] at h
          split at h
          · rename_i b rest1 hr
            have hsuf := refComment_suffix hr
            cases ht : triviaOf rest1 with
            | none => rw [ht] at h; cases h
            | some x =>
              rw [ht] at h
              simp only [Option.map_some, Option.some.injEq, Prod.mk.injEq] at h
              have hl := hsuf.length_le
              obtain ⟨h1, h2⟩ := triviaOf_spec n rest1 (by simp at hn; omega) x.1 x.2 ht
              rw [h.2] at h1 h2
              exact ⟨h1, (h2.trans hsuf).trans ((List.suffix_cons _ _).trans (List.suffix_cons _ _))⟩
          · cases h
      · have hat : AtToken (c :: cs) := ⟨by simpa using hsp, hcm⟩
        rw [triviaOf_atToken hat] at h
        cases h
        exact ⟨hat, List.suffix_refl _⟩

/-! ## part 3c: the model's `nextTokenLoop` factors through `trivia` -/

/-- the model's version of a comment text: without the newline directly after the opener of a long comment -/
def normC (cms : List (List Char)) : List (List Char) := cms.map Spec.dropFirstNewline

theorem peek_eq {s : LexSt} {c : Char} {cs : List Char} (h : s.rest = c :: cs) : s.peek = cs.head? := by
  cases cs with
  | nil => simp [LexSt.peek, h]
  | cons d t => simp [LexSt.peek, h]

theorem tv_rest_of_cur {s : LexSt} {c : Char} (h : s.cur = some c) : ∃ cs, s.rest = c :: cs := by
  cases hr : s.rest with
  | nil => rw [cur_eq_none hr] at h; cases h
  | cons d cs =>
    rw [cur_of hr] at h
    cases h
    exact ⟨cs, rfl⟩

/-- skipping white space does not change what `trivia` finds -/
theorem skipWhitespace_trivia : ∀ (f : Nat) (s : LexSt), triviaOf (skipWhitespace f s).rest = triviaOf s.rest
  | 0, s => by rw [skipWhitespace]
  | f + 1, s => by
    rw [skipWhitespace]
    split
    · rename_i h
      cases hr : s.rest with
      | nil => rw [cur_eq_none hr] at h; cases h
      | cons c cs =>
        rw [cur_of hr] at h
        rw [skipWhitespace_trivia f (advance s), advance_rest_of hr, triviaOf_space]
        rw [Inst.isSpace_eq]
        exact h
    · rfl

theorem skipWhitespace_lt {s : LexSt} {c : Char} {cs : List Char} (hr : s.rest = c :: cs)
    (hws : Gen.whitespace.contains c = true) : (skipWhitespace (s.rest.length + 1) s).rest.length < s.rest.length := by
  have hl : s.rest.length = cs.length + 1 := by rw [hr]; rfl
  rw [skipWhitespace]
  simp only [cur_of hr, inStr, hws, if_true]
  have := skipWhitespace_len_le s.rest.length (advance s)
  rw [advance_rest_of hr] at this
  omega

/-- the loop's test for a comment -/
theorem comment_test {s : LexSt} {c : Char} {cs : List Char} (hs : s.rest = c :: cs) :
    (c == '-' && s.peek == some '-') = true ↔ (c = '-' ∧ cs.head? = some '-') := by
  rw [peek_eq hs]
  simp

theorem rest_of_comment_test {s : LexSt} {c : Char} {cs : List Char} (hs : s.rest = c :: cs)
    (h : c = '-' ∧ cs.head? = some '-') : s.rest = '-' :: '-' :: cs.tail := by
  obtain ⟨rfl, h2⟩ := h
  cases cs with
  | nil => cases h2
  | cons d t =>
    simp only [List.head?_cons, Option.some.injEq] at h2
    subst h2
    exact hs

/-- how a token is delivered from a state `s0` at which no more white space or comment follows -/
def Delivered (cfg : LexCfg) (s0 : LexSt) (tok : Token) (s' : LexSt) : Prop :=
  (s0.rest = [] ∧ tok = mkTok .EOF (.str "eof".toList) (tokenArgs s0).1 ∧ s' = (tokenArgs s0).2) ∨
  (∃ c cs, s0.rest = c :: cs ∧ scanToken cfg s0 c = .ok (tok, s'))

/-- a delivered token carries exactly the pending comments; none stays pending; the scan ends within the text -/
theorem Delivered.facts {cfg : LexCfg} {s0 : LexSt} {tok : Token} {s' : LexSt} (h : Delivered cfg s0 tok s') :
    tok.comment = s0.comments ∧ s'.comments = [] ∧ s'.rest <:+ s0.rest ∧ (s0.rest = [] → tok.type = .EOF) := by
  rcases h with ⟨h0, rfl, rfl⟩ | ⟨c, cs, h0, h⟩
  · exact ⟨rfl, rfl, List.suffix_refl _, fun _ => rfl⟩
  · have hP : AdvStable (fun s => s.comments = [] ∧ s.rest <:+ s0.rest) := by
      intro s ⟨h1, h2⟩
      exact ⟨(advance_comments s).trans h1, by rw [advance_rest]; exact (List.tail_suffix _).trans h2⟩
    obtain ⟨⟨h1, h2⟩, h3, _⟩ := scanToken_adv hP (s := s0) ⟨rfl, List.suffix_refl _⟩ h
    exact ⟨h3, h1, h2, fun e => by rw [h0] at e; cases e⟩

/-- **The model factors through `trivia` (successful calls)**: if the loop delivers a token, then `trivia` succeeds on
the remaining text; the loop has skipped exactly `trivia`'s prefix (the state `s0` stands at `trivia`'s rest) and has
appended exactly `trivia`'s comments (each without the newline after a long opener), in order, to the pending ones;
and the token is then delivered from `s0`. -/
theorem nextTokenLoop_trivia {cfg : LexCfg} : ∀ (f : Nat) (s : LexSt) (tok : Token) (s' : LexSt),
    nextTokenLoop cfg f s = .ok (tok, s') →
    ∃ cms s0, triviaOf s.rest = some (cms, s0.rest) ∧ AtToken s0.rest ∧ s0.comments = s.comments ++ normC cms ∧
      Delivered cfg s0 tok s'
  | 0, s, tok, s', h => by rw [nextTokenLoop] at h; cases h
  | f + 1, s, tok, s', h => by
    rw [nextTokenLoop_succ] at h
    split at h
    · rename_i hcur
      have hr : s.rest = [] := by
        cases hr : s.rest with
        | nil => rfl
        | cons c cs => rw [cur_of hr] at hcur; cases hcur
      obtain ⟨rfl, rfl⟩ := ok_pair h
      exact ⟨[], s, by rw [hr, triviaOf_nil], by rw [hr]; trivial, by simp [normC], Or.inl ⟨hr, rfl, rfl⟩⟩
    · rename_i c hcur
      obtain ⟨cs, hr⟩ := tv_rest_of_cur hcur
      split at h
      · obtain ⟨cms, s0, h1, h2, h3, h4⟩ := nextTokenLoop_trivia f _ tok s' h
        rw [skipWhitespace_trivia] at h1
        rw [skipWhitespace_comments] at h3
        exact ⟨cms, s0, h1, h2, h3, h4⟩
      · rename_i hws
        split at h
        · rename_i hcm
          have hr' := rest_of_comment_test hr ((comment_test hr).mp hcm)
          split at h
          · cases h
          · rename_i s1 heq
            obtain ⟨b, hb, hbc⟩ := tv_skipComment_ok hr' heq
            obtain ⟨cms, s0, h1, h2, h3, h4⟩ := nextTokenLoop_trivia f _ tok s' h
            refine ⟨b :: cms, s0, ?_, h2, ?_, h4⟩
            · rw [hr', triviaOf_comment, hb]
              simp only [h1, Option.map_some]
            · rw [h3, hbc]
              simp [normC]
        · rename_i hcm
          have hat : AtToken s.rest := by
            rw [hr]
            refine ⟨?_, fun hc => hcm ((comment_test hr).mpr hc)⟩
            rw [Inst.isSpace_eq]
            simpa using hws
          exact ⟨[], s, triviaOf_atToken hat, hat, by simp [normC], Or.inr ⟨c, cs, hr, h⟩⟩

/-- the loop at a state where no white space or comment follows: the token is delivered in this iteration -/
theorem nextTokenLoop_atToken (cfg : LexCfg) (f : Nat) {s0 : LexSt} (h : AtToken s0.rest) :
    nextTokenLoop cfg (f + 1) s0 =
      match s0.cur with
      | none => .ok (mkTok .EOF (.str "eof".toList) (tokenArgs s0).1, (tokenArgs s0).2)
      | some c => scanToken cfg s0 c := by
  rw [nextTokenLoop_succ]
  cases hr : s0.rest with
  | nil => rw [cur_eq_none hr]
  | cons c cs =>
    rw [hr] at h
    obtain ⟨h1, h2⟩ := h
    rw [cur_of hr]
    rw [Inst.isSpace_eq] at h1
    have hcm : (c == '-' && s0.peek == some '-') = false := by
      cases hb : (c == '-' && s0.peek == some '-')
      · rfl
      · exact absurd ((comment_test hr).mp hb) h2
    simp only [h1, Bool.false_eq_true, if_false, hcm]

/-- **The model factors through `trivia` (forward, as an equation)**: when `trivia` finds `(cms, rest)`, the loop
started at `s` behaves - for every fuel, for success and failure alike - as the loop started at a state `s0` that stands
at `rest`, with `cms` (normalised) appended to the pending comments; getting there costs `k` iterations. -/
theorem nextTokenLoop_factor : ∀ (n : Nat) (s : LexSt), s.rest.length < n → ∀ cms rest, triviaOf s.rest = some (cms, rest) →
    ∃ s0 k, s0.rest = rest ∧ s0.comments = s.comments ++ normC cms ∧ k + rest.length ≤ s.rest.length ∧
      ∀ cfg f, nextTokenLoop cfg f s = nextTokenLoop cfg (f - k) s0
  | 0, _, hn, _, _, _ => by omega
  | n + 1, s, hn, cms, rest, h => by
    cases hr : s.rest with
    | nil =>
      rw [hr, triviaOf_nil] at h
      cases h
      exact ⟨s, 0, hr, by simp [normC], by simp, fun _ _ => rfl⟩
    | cons c cs =>
      have hslen : s.rest.length = cs.length + 1 := by rw [hr]; rfl
      by_cases hsp : Spec.isSpace c = true
      · -- white space: one iteration skips the whole run
        have hws : Gen.whitespace.contains c = true := by rw [← Inst.isSpace_eq]; exact hsp
        have hlen := skipWhitespace_lt hr hws
        obtain ⟨s0, k, h1, h2, h3, h4⟩ := nextTokenLoop_factor n (skipWhitespace (s.rest.length + 1) s) (by omega) cms rest
          (by rw [skipWhitespace_trivia]; exact h)
        refine ⟨s0, k + 1, h1, by rw [h2, skipWhitespace_comments], by simp only [List.length_cons]; omega, ?_⟩
        intro cfg f
        cases f with
        | zero => rw [Nat.zero_sub, nextTokenLoop, nextTokenLoop]
        | succ f =>
          rw [nextTokenLoop_succ, cur_of hr]
          simp only [hws, if_true]
          rw [h4, Nat.add_sub_add_right]
      · have hws : Gen.whitespace.contains c = false := by
          rw [← Inst.isSpace_eq]; simpa using hsp
        by_cases hcm : c = '-' ∧ cs.head? = some '-'
        · -- a comment
          have hr' := rest_of_comment_test hr hcm
          have hct := (comment_test hr).mpr hcm
          rw [hr', triviaOf_comment] at h
          split at h
          · rename_i b rest1 hb
            cases ht : triviaOf rest1 with
            | none => rw [ht] at h; cases h
            | some x =>
              rw [ht] at h
              simp only [Option.map_some, Option.some.injEq, Prod.mk.injEq] at h
              obtain ⟨rfl, rfl⟩ := h
              obtain ⟨s1, hs1, hs1r, hs1c⟩ := skipComment_agree hr' hb
              have hl1 : rest1.length ≤ cs.tail.length := (refComment_suffix hb).length_le
              have hl2 : s.rest.length = cs.tail.length + 2 := by rw [hr']; simp
              obtain ⟨s0, k, h1, h2, h3, h4⟩ := nextTokenLoop_factor n s1 (by rw [hs1r]; omega) x.1 x.2
                (by rw [hs1r]; exact ht)
              refine ⟨s0, k + 1, h1, by rw [h2, hs1c]; simp [normC], by rw [hs1r] at h3; simp only [List.length_cons]; omega, ?_⟩
              intro cfg f
              cases f with
              | zero => rw [Nat.zero_sub, nextTokenLoop, nextTokenLoop]
              | succ f =>
                rw [nextTokenLoop_succ, cur_of hr]
                simp only [hws, Bool.false_eq_true, if_false, hct, if_true, hs1]
                rw [h4, Nat.add_sub_add_right]
          · cases h
        · have hat : AtToken (c :: cs) := ⟨by simpa using hsp, hcm⟩
          rw [hr, triviaOf_atToken hat] at h
          cases h
          exact ⟨s, 0, hr, by simp [normC], by simp, fun _ _ => rfl⟩

/-- **The model factors through `trivia` (failure)**: when `trivia` fails (an unfinished long comment), so does the
loop: with the lexer error "long brackets never closed" as soon as the fuel exceeds the `k < length` iterations it takes
to get to that comment (and out of fuel otherwise - `getNextToken` always supplies more than the length). -/
theorem nextTokenLoop_trivia_none : ∀ (n : Nat) (s : LexSt), s.rest.length < n → triviaOf s.rest = none →
    ∃ k l c, k < s.rest.length ∧ ∀ cfg f, nextTokenLoop cfg f s =
      if f ≤ k then .error .fuel else .error (.lexer "long brackets never closed" l c)
  | 0, _, hn, _ => by omega
  | n + 1, s, hn, h => by
    cases hr : s.rest with
    | nil => rw [hr, triviaOf_nil] at h; cases h
    | cons c cs =>
      have hslen : s.rest.length = cs.length + 1 := by rw [hr]; rfl
      by_cases hsp : Spec.isSpace c = true
      · have hws : Gen.whitespace.contains c = true := by rw [← Inst.isSpace_eq]; exact hsp
        have hlen := skipWhitespace_lt hr hws
        obtain ⟨k, l, c0, h3, h4⟩ := nextTokenLoop_trivia_none n (skipWhitespace (s.rest.length + 1) s) (by omega)
          (by rw [skipWhitespace_trivia]; exact h)
        refine ⟨k + 1, l, c0, by simp only [List.length_cons]; omega, ?_⟩
        intro cfg f
        cases f with
        | zero => rw [nextTokenLoop]; simp
        | succ f =>
          rw [nextTokenLoop_succ, cur_of hr]
          simp only [hws, if_true]
          rw [h4]
          simp only [Nat.add_le_add_iff_right]
      · have hws : Gen.whitespace.contains c = false := by
          rw [← Inst.isSpace_eq]; simpa using hsp
        by_cases hcm : c = '-' ∧ cs.head? = some '-'
        · have hr' := rest_of_comment_test hr hcm
          have hct := (comment_test hr).mpr hcm
          rw [hr', triviaOf_comment] at h
          split at h
          · rename_i b rest1 hb
            cases ht : triviaOf rest1 with
            | some x => rw [ht] at h; cases h
            | none =>
              obtain ⟨s1, hs1, hs1r, hs1c⟩ := skipComment_agree hr' hb
              have hl1 : rest1.length ≤ cs.tail.length := (refComment_suffix hb).length_le
              have hl2 : s.rest.length = cs.tail.length + 2 := by rw [hr']; simp
              obtain ⟨k, l, c0, h3, h4⟩ := nextTokenLoop_trivia_none n s1 (by rw [hs1r]; omega) (by rw [hs1r]; exact ht)
              refine ⟨k + 1, l, c0, by rw [hs1r] at h3; simp only [List.length_cons]; omega, ?_⟩
              intro cfg f
              cases f with
              | zero => rw [nextTokenLoop]; simp
              | succ f =>
                rw [nextTokenLoop_succ, cur_of hr]
                simp only [hws, Bool.false_eq_true, if_false, hct, if_true, hs1]
                rw [h4]
                simp only [Nat.add_le_add_iff_right]
          · rename_i hb
            refine ⟨0, (advance (advance s)).line, (advance (advance s)).col, by simp, ?_⟩
            intro cfg f
            cases f with
            | zero => rw [nextTokenLoop]; simp
            | succ f =>
              rw [nextTokenLoop_succ, cur_of hr]
              simp only [hws, Bool.false_eq_true, if_false, hct, if_true, skipComment_unclosed hr' hb]
              simp
        · have hat : AtToken (c :: cs) := ⟨by simpa using hsp, hcm⟩
          rw [hr, triviaOf_atToken hat] at h
          cases h

/-! ## part 3d: `get_next_token`, and the whole token list -/

theorem kw_not_eof : ∀ p ∈ Gen.keywords, TT.ofName p.2 ≠ some .EOF := by decide
theorem sym_not_eof : ∀ p ∈ Gen.symbols, TT.ofName p.2 ≠ some .EOF := by decide

theorem tv_lookup_mem {α β : Type} [BEq α] {k : α} {v : β} : ∀ {l : List (α × β)}, l.lookup k = some v → ∃ k', (k', v) ∈ l
  | [], h => by simp [List.lookup] at h
  | (a, b) :: l, h => by
    rw [List.lookup] at h
    split at h
    · cases h; exact ⟨a, by simp⟩
    · obtain ⟨k', hk⟩ := tv_lookup_mem h
      exact ⟨k', by simp [hk]⟩

theorem keywordOf_not_eof (cfg : LexCfg) (name : List Char) : keywordOf cfg name ≠ some .EOF := by
  unfold keywordOf
  split
  · rename_i n hn
    obtain ⟨k', hk⟩ := tv_lookup_mem hn
    have := kw_not_eof _ hk
    split
    · rename_i t ht
      split
      · simp
      · intro h
        cases h
        exact this ht
    · simp
  · simp

theorem symbolOf_not_eof (x : List Char) : symbolOf x ≠ some .EOF := by
  unfold symbolOf
  split
  · rename_i n hn
    obtain ⟨k', hk⟩ := tv_lookup_mem hn
    exact sym_not_eof _ hk
  · simp

/-- only the end of the text yields an EOF token -/
theorem scanToken_not_eof {cfg : LexCfg} {s : LexSt} {c : Char} {tok : Token} {s' : LexSt}
    (h : scanToken cfg s c = .ok (tok, s')) : tok.type ≠ .EOF := by
  unfold scanToken at h
  simp only [tokenArgs] at h
  have fin : ∀ {ty v a X}, ty ≠ TT.EOF → (Except.ok (mkTok ty v a, X) : Except PyErr (Token × LexSt)) = Except.ok (tok, s') →
      tok.type ≠ .EOF := by
    intro ty v a X hty h
    obtain ⟨rfl, rfl⟩ := ok_pair h
    exact hty
  split at h
  · split at h
    · cases h
    · split at h
      · rename_i t ht
        exact fin (fun e => keywordOf_not_eof _ _ (e ▸ ht)) h
      · exact fin (by decide) h
  · rcases ite_cases h with ⟨_, h⟩ | ⟨_, h⟩
    · rcases ite_cases h with ⟨_, h⟩ | ⟨_, h⟩
      · cases h
      · exact fin (by decide) h
    · rcases ite_cases h with ⟨_, h⟩ | ⟨_, h⟩
      · split at h
        · cases h
        · exact fin (by decide) h
      · rcases ite_cases h with ⟨_, h⟩ | ⟨_, h⟩
        · split at h
          · cases h
          · exact fin (by decide) h
        · rcases ite_cases h with ⟨_, h⟩ | ⟨_, h⟩
          · rcases ite_cases h with ⟨_, h⟩ | ⟨_, h⟩
            · exact fin (by decide) h
            · exact fin (by decide) h
          · split at h
            · rename_i t v heq
              refine fin ?_ h
              intro e
              subst e
              split at heq
              · rename_i p _
                cases hs : symbolOf [c, p] with
                | none => rw [hs] at heq; cases heq
                | some t' =>
                  rw [hs] at heq
                  simp only [Option.map_some, Option.some.injEq, Prod.mk.injEq] at heq
                  exact symbolOf_not_eof _ (heq.1 ▸ hs)
              · cases heq
            · split at h
              · rename_i t ht
                exact fin (fun e => symbolOf_not_eof _ (e ▸ ht)) h
              · cases h

/-- the state on which `get_next_token` starts its loop: after the `#!` line, at the very start of the text -/
def startSt (s : LexSt) : LexSt :=
  if s.line == 0 && s.col == 0 && s.cur == some '#' then skipShebang (s.rest.length + 1) s else s

theorem getNextToken_eq (cfg : LexCfg) (s : LexSt) :
    getNextToken cfg s = nextTokenLoop cfg ((startSt s).rest.length + 2) (startSt s) := rfl

theorem startSt_comments (s : LexSt) : (startSt s).comments = s.comments := by
  unfold startSt
  split
  · exact skipShebang_adv (advStable_comments s.comments) _ s rfl
  · rfl

/-- the model's `#!`-line loop is `Spec.untilNewline` -/
theorem skipShebang_spec : ∀ (r : List Char) (f : Nat) (s : LexSt), s.rest = r → r.length < f →
    (skipShebang f s).rest = (Spec.untilNewline r).2
  | [], f, s, hs, hf => by
    obtain ⟨f, rfl⟩ : ∃ g, f = g + 1 := ⟨f - 1, by omega⟩
    rw [skipShebang, cur_eq_none hs, untilNewline_nil]
    exact hs
  | c :: cs, f, s, hs, hf => by
    obtain ⟨f, rfl⟩ : ∃ g, f = g + 1 := ⟨f - 1, by omega⟩
    rw [skipShebang, cur_of hs]
    by_cases hc : c = '\n'
    · subst hc
      rw [untilNewline_nl]
      simpa using hs
    · have : (c != '\n') = true := by simpa using hc
      simp only [this, if_true, untilNewline_cons hc]
      exact skipShebang_spec cs f (advance s) (advance_rest_of hs) (by simpa using hf)

/-- the text on which `get_next_token` starts its loop, as a function of the text and the shebang test -/
theorem startSt_rest (s : LexSt) :
    (startSt s).rest =
      if s.line == 0 && s.col == 0 && s.cur == some '#' then (Spec.untilNewline s.rest).2 else s.rest := by
  unfold startSt
  split
  · exact skipShebang_spec s.rest _ s rfl (by omega)
  · rfl

/-- **`get_next_token` factors through `trivia`** (successful calls) -/
theorem getNextToken_trivia {cfg : LexCfg} {s : LexSt} {tok : Token} {s' : LexSt}
    (h : getNextToken cfg s = .ok (tok, s')) :
    ∃ cms s0, triviaOf (startSt s).rest = some (cms, s0.rest) ∧ AtToken s0.rest ∧
      s0.comments = s.comments ++ normC cms ∧ Delivered cfg s0 tok s' := by
  rw [getNextToken_eq] at h
  obtain ⟨cms, s0, h1, h2, h3, h4⟩ := nextTokenLoop_trivia _ _ _ _ h
  rw [startSt_comments] at h3
  exact ⟨cms, s0, h1, h2, h3, h4⟩

/-- **`get_next_token` factors through `trivia`** (forward): its fuel always suffices -/
theorem getNextToken_factor (cfg : LexCfg) (s : LexSt) {cms : List (List Char)} {rest : List Char}
    (h : triviaOf (startSt s).rest = some (cms, rest)) :
    ∃ s0 : LexSt, s0.rest = rest ∧ s0.comments = s.comments ++ normC cms ∧
      getNextToken cfg s =
        match s0.cur with
        | none => .ok (mkTok .EOF (.str "eof".toList) (tokenArgs s0).1, (tokenArgs s0).2)
        | some c => scanToken cfg s0 c := by
  obtain ⟨s0, k, h1, h2, h3, h4⟩ := nextTokenLoop_factor _ (startSt s) (Nat.lt_succ_self _) cms rest h
  refine ⟨s0, h1, by rw [h2, startSt_comments], ?_⟩
  have hat : AtToken s0.rest := by
    rw [h1]
    exact (triviaOf_spec _ _ (Nat.lt_succ_self _) _ _ h).1
  rw [getNextToken_eq, h4]
  obtain ⟨g, hg⟩ : ∃ g, (startSt s).rest.length + 2 - k = g + 1 := ⟨(startSt s).rest.length + 1 - k, by omega⟩
  rw [hg, nextTokenLoop_atToken cfg g hat]

/-- **`get_next_token` factors through `trivia`** (failure): an unfinished long comment -/
theorem getNextToken_trivia_none (cfg : LexCfg) (s : LexSt) (h : triviaOf (startSt s).rest = none) :
    ∃ l c, getNextToken cfg s = .error (.lexer "long brackets never closed" l c) := by
  obtain ⟨k, l, c, h1, h2⟩ := nextTokenLoop_trivia_none _ (startSt s) (Nat.lt_succ_self _) h
  refine ⟨l, c, ?_⟩
  rw [getNextToken_eq, h2]
  have : ¬ ((startSt s).rest.length + 2 ≤ k) := by omega
  simp [this]

/-- `Segmented t L`: the text `t` is white space and comments (`trivia`), a token, white space and comments, a token, ...
up to its end; `L` lists, for each token and finally for the end of the text, the comment texts (as the reference lexer
records them) skipped directly before it.  The tokens themselves are arbitrary pieces of text: this predicate
describes *where the comments go*, not how tokens are delimited. -/
inductive Segmented : List Char → List (List (List Char)) → Prop
  | eof {t : List Char} {cms : List (List Char)} : triviaOf t = some (cms, []) → Segmented t [cms]
  | tok {t rest next : List Char} {cms : List (List Char)} {L : List (List (List Char))} :
      triviaOf t = some (cms, rest) → rest ≠ [] → next <:+ rest → Segmented next L → Segmented t (cms :: L)

/-- **Comment delivery (the whole token list)**, for any start state whose later states never satisfy the shebang test:
the list of the tokens' comment lists is the list of the comments (normalised) that `trivia` finds before each token
and before the end of the text. -/
theorem lexAll_segmented {Q : LexSt → Prop} (hQ : Stable Q) (hno : ∀ s, Q s → startSt s = s) {cfg : LexCfg} :
    ∀ (f : Nat) (s : LexSt) (toks : List Token), Q (startSt s) → s.comments = [] → lexAll cfg f s = .ok toks →
    ∃ L, Segmented (startSt s).rest L ∧ toks.map (·.comment) = L.map normC
  | 0, s, toks, _, _, h => by rw [lexAll] at h; cases h
  | f + 1, s, toks, hq, hc, h => by
    rw [lexAll] at h
    split at h
    · cases h
    · rename_i t s1 heq
      obtain ⟨cms, s0, h1, h2, h3, h4⟩ := getNextToken_trivia heq
      obtain ⟨f1, f2, f3, f4⟩ := h4.facts
      have hq1 : Q s1 := by
        rw [getNextToken_eq] at heq
        exact (nextTokenLoop_core hQ _ _ _ _ hq heq).1
      rw [hc, List.nil_append] at h3
      split at h
      · rename_i hty
        cases h
        have h0 : s0.rest = [] := by
          rcases h4 with ⟨h0, _⟩ | ⟨c, cs, _, hsc⟩
          · exact h0
          · exact absurd (by simpa using hty) (scanToken_not_eof hsc)
        refine ⟨[cms], .eof (by rw [h1, h0]), ?_⟩
        simp [f1, h3]
      · rename_i hty
        cases hr : lexAll cfg f s1 with
        | error e => rw [hr] at h; cases h
        | ok r =>
          rw [hr] at h
          cases h
          have hs1 : startSt s1 = s1 := hno s1 hq1
          obtain ⟨L, hL1, hL2⟩ := lexAll_segmented hQ hno f s1 r (by rw [hs1]; exact hq1) f2 hr
          rw [hs1] at hL1
          have h0 : s0.rest ≠ [] := fun e => hty (by rw [f4 e]; rfl)
          refine ⟨cms :: L, .tok h1 h0 f3 hL1, ?_⟩
          simp [f1, h3, hL2]

/-! ### `lexText`: the shebang test fires at most once, at the very start -/

theorem pos_zero_nil (pre : List Char) (h1 : lineOf pre = 0) (h2 : colOf pre = 0) : pre = [] := by
  rcases List.eq_nil_or_concat pre with rfl | ⟨pre', c, rfl⟩
  · rfl
  · rw [List.concat_eq_append] at h1 h2
    rw [lineOf_snoc] at h1
    rw [colOf_snoc] at h2
    by_cases hc : c = '\n'
    · simp [hc] at h1
    · simp [hc] at h2

/-- the invariant of `lexText`'s states: a split point of the text, and past the first character when the text
starts with `#` -/
def PastShebang (t : List Char) (s : LexSt) : Prop :=
  Inv t s ∧ s.rest.length ≤ t.length ∧ (t.head? = some '#' → s.rest.length < t.length)

theorem stable_pastShebang (t : List Char) : Stable (PastShebang t) := by
  constructor
  · intro s ⟨h1, h2, h3⟩
    have := advance_len_le s
    exact ⟨inv_advance h1, by omega, fun h => by have := h3 h; omega⟩
  · intro s cs ⟨h1, h2, h3⟩
    exact ⟨inv_comments cs h1, h2, h3⟩

theorem pastShebang_startSt {t : List Char} {s : LexSt} (h : PastShebang t s) : startSt s = s := by
  unfold startSt
  split
  · rename_i hcond
    exfalso
    simp only [Bool.and_eq_true, beq_iff_eq] at hcond
    obtain ⟨⟨hl, hc⟩, hcur⟩ := hcond
    obtain ⟨r, hr⟩ := tv_rest_of_cur hcur
    obtain ⟨⟨pre, ht, hp⟩, h2, h3⟩ := h
    simp only [PosAt, hr] at hp
    have hne : ('#' : Char) ≠ '\n' := by decide
    simp only [hne, if_false] at hp
    have hpre : pre = [] := pos_zero_nil pre (by omega) (by omega)
    subst hpre
    rw [List.nil_append] at ht
    have := h3 (by rw [ht, hr]; rfl)
    rw [ht] at this
    omega
  · rfl

theorem tv_initLex_rest (t : List Char) : (initLex t).rest = t := by
  cases t with
  | nil => rfl
  | cons c cs => simp only [initLex]; split <;> rfl

theorem initLex_comments (t : List Char) : (initLex t).comments = [] := by
  cases t with
  | nil => rfl
  | cons c cs => simp only [initLex]; split <;> rfl

theorem initLex_cond (t : List Char) :
    ((initLex t).line == 0 && (initLex t).col == 0 && (initLex t).cur == some '#') = (t.head? == some '#') := by
  cases t with
  | nil => simp [initLex, LexSt.cur]
  | cons c cs =>
    by_cases hc : c = '\n'
    · subst hc
      simp [initLex, LexSt.cur]
    · have : (c == '\n') = false := by simpa using hc
      simp [initLex, this, LexSt.cur]

theorem startSt_initLex_rest (t : List Char) : (startSt (initLex t)).rest = Spec.skipShebang t := by
  rw [startSt_rest, initLex_cond, tv_initLex_rest]
  cases t with
  | nil =>
    rw [Spec.skipShebang.eq_2]
    · rfl
    · intro cs h; cases h
  | cons c cs =>
    by_cases hc : c = '#'
    · subst hc
      rw [Spec.skipShebang, untilNewline_cons (by decide)]
      rfl
    · rw [Spec.skipShebang.eq_2]
      · have : (some c == some '#') = false := by simpa using hc
        simp [this]
      · intro cs' h; simp at h; exact hc h.1

theorem pastShebang_initLex (t : List Char) : PastShebang t (startSt (initLex t)) := by
  have h0 : Inv t (initLex t) := inv_init t
  have hl : (initLex t).rest.length = t.length := by rw [tv_initLex_rest]
  unfold startSt
  rw [initLex_cond]
  split
  · rename_i hc
    have hcur : (initLex t).cur = some '#' := by
      rw [LexSt.cur, tv_initLex_rest]; simpa using hc
    rw [skipShebang, hcur]
    have : (('#' : Char) != '\n') = true := by decide
    simp only [this, if_true]
    refine skipShebang_pres (stable_pastShebang t) _ _ ⟨inv_advance h0, ?_, fun _ => ?_⟩
    · have := advance_len_le (initLex t); omega
    · have := advance_len_lt hcur; omega
  · rename_i hc
    exact ⟨h0, by omega, fun h => absurd (by simpa using h) hc⟩

/-- **Comment delivery (`lexText`)**: the text after the `#!` line is white space and comments, a token, white space
and comments, a token, ... up to its end (`Segmented`), and the tokens' comment lists are, in order, exactly the lists
of comments (normalised: without the newline after a long opener) that `trivia` finds in front of each token, the last
one (the EOF token's) being those in front of the end of the text. -/
theorem lexText_segmented {cfg : LexCfg} {t : List Char} {toks : List Token} (h : lexText cfg t = .ok toks) :
    ∃ L, Segmented (Spec.skipShebang t) L ∧ toks.map (·.comment) = L.map normC := by
  obtain ⟨L, h1, h2⟩ := lexAll_segmented (stable_pastShebang t) (fun _ hs => pastShebang_startSt hs) _ _ _
    (pastShebang_initLex t) (initLex_comments t) h
  rw [startSt_initLex_rest] at h1
  exact ⟨L, h1, h2⟩

/-- no comment is lost, duplicated or reordered: the comments of all delivered tokens, concatenated in order, are
the comments skipped, in order -/
theorem lexText_all_comments {cfg : LexCfg} {t : List Char} {toks : List Token} (h : lexText cfg t = .ok toks) :
    ∃ L, Segmented (Spec.skipShebang t) L ∧ toks.flatMap (·.comment) = normC L.flatten := by
  obtain ⟨L, h1, h2⟩ := lexText_segmented h
  refine ⟨L, h1, ?_⟩
  rw [List.flatMap_def, h2]
  rw [normC, List.map_flatten]
  rfl

end Tumfl.Theory
