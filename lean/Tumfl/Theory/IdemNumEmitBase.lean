import Tumfl.Theory.IdemNumDefs
import Tumfl.Theory.FormatTextNums
import Tumfl.Theory.FormatTextGlue
import Tumfl.Theory.FormatTextEmit
import Tumfl.Theory.PrintSimTok
import Tumfl.Theory.EmitCommentsBase
/-!
# C15, numerals: the numeral pieces of `emit` - list-level lemmas

`numStrP` on literal pieces, separators, leaves (names, strings, operators, numerals), wrappers and the slices
(`sliceInner`, `drop 1`, `blk`).  Everything that does not need the induction over the tree.
-/
namespace Tumfl.Theory.NumEmit
open Tumfl Tumfl.Model Tumfl.Theory

/-! ## `numStrP` distributes -/

@[simp] theorem ns_nil : numStrP [] = [] := rfl

@[simp] theorem ns_append (a b : Pieces) : numStrP (a ++ b) = numStrP a ++ numStrP b := by
  simp [numStrP, List.filterMap_append]

@[simp] theorem ns_sep (k : Sep) (r : Pieces) : numStrP (.sep k :: r) = numStrP r := by
  simp [numStrP, List.filterMap_cons, numPiece]

@[simp] theorem ns_S (k : Sep) (r : Pieces) : numStrP (S k :: r) = numStrP r := ns_sep k r

theorem ns_str_no {s : List Char} (h : isNumTk (strTk s) = false) (r : Pieces) :
    numStrP (.str s :: r) = numStrP r := by
  simp [numStrP, numPiece, h]

theorem ns_str_yes {s : List Char} (h : isNumTk (strTk s) = true) (r : Pieces) :
    numStrP (.str s :: r) = s :: numStrP r := by
  simp [numStrP, numPiece, h]

theorem ns_P_no {s : String} (h : isNumTk (strTk s.toList) = false) (r : Pieces) :
    numStrP (P s :: r) = numStrP r := ns_str_no h r

/-! ## keyword and symbol literals -/

@[simp] theorem ns_nil_kw (r) : numStrP (P "nil" :: r) = numStrP r := ns_P_no (by decide) r
@[simp] theorem ns_true_kw (r) : numStrP (P "true" :: r) = numStrP r := ns_P_no (by decide) r
@[simp] theorem ns_false_kw (r) : numStrP (P "false" :: r) = numStrP r := ns_P_no (by decide) r
@[simp] theorem ns_function_kw (r) : numStrP (P "function" :: r) = numStrP r := ns_P_no (by decide) r
@[simp] theorem ns_do_kw (r) : numStrP (P "do" :: r) = numStrP r := ns_P_no (by decide) r
@[simp] theorem ns_end_kw (r) : numStrP (P "end" :: r) = numStrP r := ns_P_no (by decide) r
@[simp] theorem ns_return_kw (r) : numStrP (P "return" :: r) = numStrP r := ns_P_no (by decide) r
@[simp] theorem ns_break_kw (r) : numStrP (P "break" :: r) = numStrP r := ns_P_no (by decide) r
@[simp] theorem ns_goto_kw (r) : numStrP (P "goto" :: r) = numStrP r := ns_P_no (by decide) r
@[simp] theorem ns_if_kw (r) : numStrP (P "if" :: r) = numStrP r := ns_P_no (by decide) r
@[simp] theorem ns_then_kw (r) : numStrP (P "then" :: r) = numStrP r := ns_P_no (by decide) r
@[simp] theorem ns_else_kw (r) : numStrP (P "else" :: r) = numStrP r := ns_P_no (by decide) r
@[simp] theorem ns_elseif_kw (r) : numStrP (P "elseif" :: r) = numStrP r := ns_P_no (by decide) r
@[simp] theorem ns_for_kw (r) : numStrP (P "for" :: r) = numStrP r := ns_P_no (by decide) r
@[simp] theorem ns_in_kw (r) : numStrP (P "in" :: r) = numStrP r := ns_P_no (by decide) r
@[simp] theorem ns_local_kw (r) : numStrP (P "local" :: r) = numStrP r := ns_P_no (by decide) r
@[simp] theorem ns_repeat_kw (r) : numStrP (P "repeat" :: r) = numStrP r := ns_P_no (by decide) r
@[simp] theorem ns_until_kw (r) : numStrP (P "until" :: r) = numStrP r := ns_P_no (by decide) r
@[simp] theorem ns_while_kw (r) : numStrP (P "while" :: r) = numStrP r := ns_P_no (by decide) r

@[simp] theorem ns_lpar (r) : numStrP (P "(" :: r) = numStrP r := ns_P_no (by decide) r
@[simp] theorem ns_rpar (r) : numStrP (P ")" :: r) = numStrP r := ns_P_no (by decide) r
@[simp] theorem ns_lcurl (r) : numStrP (P "{" :: r) = numStrP r := ns_P_no (by decide) r
@[simp] theorem ns_rcurl (r) : numStrP (P "}" :: r) = numStrP r := ns_P_no (by decide) r
@[simp] theorem ns_lbrack (r) : numStrP (P "[" :: r) = numStrP r := ns_P_no (by decide) r
@[simp] theorem ns_rbrack (r) : numStrP (P "]" :: r) = numStrP r := ns_P_no (by decide) r
@[simp] theorem ns_assign (r) : numStrP (P "=" :: r) = numStrP r := ns_P_no (by decide) r
@[simp] theorem ns_colon (r) : numStrP (P ":" :: r) = numStrP r := ns_P_no (by decide) r
@[simp] theorem ns_dcolon (r) : numStrP (P "::" :: r) = numStrP r := ns_P_no (by decide) r
@[simp] theorem ns_semi (r) : numStrP (P ";" :: r) = numStrP r := ns_P_no (by decide) r
@[simp] theorem ns_lt (r) : numStrP (P "<" :: r) = numStrP r := ns_P_no (by decide) r
@[simp] theorem ns_gt (r) : numStrP (P ">" :: r) = numStrP r := ns_P_no (by decide) r
@[simp] theorem ns_ellipsis (r) : numStrP (P "..." :: r) = numStrP r := ns_P_no (by decide) r

@[simp] theorem ns_boolLit (v : Bool) (r) : numStrP (P (if v then "true" else "false") :: r) = numStrP r := by
  cases v <;> simp

/-! ## operators -/

@[simp] theorem ns_bop (o : Spec.BOp) (r) : numStrP (.str o.sym.toList :: r) = numStrP r :=
  ns_str_no (by rw [strTk_bop]; cases o <;> rfl) r

@[simp] theorem ns_uop (u : Spec.UOp) (r) : numStrP (.str u.sym.toList :: r) = numStrP r :=
  ns_str_no (by rw [strTk_uop]; cases u <;> rfl) r

/-! ## leaves -/

theorem ns_ident {n : List Char} (h : identOK n = true) (r) : numStrP (.str n :: r) = numStrP r :=
  ns_str_no (by rw [strTk_ident h]; rfl) r

theorem ns_number {n : NumTuple} (h : numOKp n = true) (r) :
    numStrP (.str (numberStr n) :: r) = numberStr n :: numStrP r := by
  obtain ⟨m, _, _, hs⟩ := strTk_number h
  exact ns_str_yes (by rw [hs]; rfl) r

@[simp] theorem ns_visitString (sty : Style) (v : List Char) : numStrP (visitString sty v) = [] := by
  rcases Props.C06_forms sty v with ⟨q, hq, h⟩ | h
  · rw [h]
    have := strTk_quoted q hq v
    simp only [List.cons_append] at this
    rw [ns_str_no (by simp only [List.cons_append]; rw [this]; rfl)]
    rfl
  · rw [h]
    have := strTk_long v
    rw [ns_str_no (by rw [this]; rfl)]
    rfl

theorem pExpr_of_nameNode {e : Expr} (h : nameNodeOK e = true) : pExpr e = true := by
  obtain ⟨t, n, rfl, hn⟩ := nameNodeOK_iff h
  simpa [pExpr] using hn

theorem nums_nameNode {e : Expr} (h : nameNodeOK e = true) : numsExpr e = [] := by
  obtain ⟨t, n, rfl, _⟩ := nameNodeOK_iff h
  simp [numsExpr]

theorem ns_nameStr {e : Expr} (h : nameNodeOK e = true) (r) : numStrP (.str (nameStr e) :: r) = numStrP r := by
  obtain ⟨t, n, rfl, hn⟩ := nameNodeOK_iff h
  exact ns_ident hn r

/-! ## wrappers -/

@[simp] theorem ns_wrapParens (ps : Pieces) : numStrP (wrapParens ps) = numStrP ps := by
  simp [wrapParens]

@[simp] theorem ns_fmtVar (e : Expr) (ps : Pieces) : numStrP (fmtVar e ps) = numStrP ps := by
  unfold fmtVar; split <;> simp

@[simp] theorem ns_fmtKey (ps : Pieces) : numStrP (fmtKey ps) = numStrP ps := by
  unfold fmtKey
  split
  · split <;> simp
  · rfl

@[simp] theorem ns_fmtFunctionArgs (sty : Style) (args : List Expr) (ps : Pieces) :
    numStrP (fmtFunctionArgs sty args ps) = numStrP ps := by
  unfold fmtFunctionArgs
  split <;> (try split) <;> simp

theorem ns_attName (n : Expr) (a : Option Expr) (h : attOK (.mk n a) = true) : numStrP (attName n a) = [] := by
  cases a with
  | none =>
    simp only [attOK, Bool.and_true] at h
    simp [attName, ns_nameStr h]
  | some att =>
    simp only [attOK, Bool.and_eq_true] at h
    simp [attName, ns_nameStr h.1, ns_nameStr h.2]

theorem ns_visitAttNames (names : List AttName) (h : names.all attOK = true) :
    numStrP (visitAttNames names) = [] := by
  induction names with
  | nil => rfl
  | cons x rest ih =>
    obtain ⟨n, a⟩ := x
    simp only [List.all_cons, Bool.and_eq_true] at h
    cases rest with
    | nil => simpa [visitAttNames] using ns_attName n a h.1
    | cons y rest =>
      simp [visitAttNames, ns_attName n a h.1, ih h.2]

/-! ## comments (switched off) and the `;` guard -/

theorem stmtCommentPieces_off {sty : Style} (hic : sty.includeComments = false) (s : Stmt) :
    stmtCommentPieces sty s = [] := by
  simp [stmtCommentPieces, hic]

@[simp] theorem ns_stmtGuard (first : Bool) (toks : Pieces) : numStrP (stmtGuard first toks) = [] := by
  unfold stmtGuard
  split
  · cases first <;> simp
  · rfl

/-! ## slices -/

theorem ns_visitBlockFull (sty : Style) (t : Token) (stmts : List Stmt) (rets : Option (List Expr)) (c : Bool) :
    numStrP (visitBlockFull sty (.mk t stmts rets c)) = numStrP (bodyPieces sty stmts rets) := by
  simp [visitBlockFull_eq]

/-- `visit_Chunk`'s `[3:-3]` removes no numeral -/
@[simp] theorem ns_blk (sty : Style) (b : Block) :
    numStrP (blk b (visitBlockFull sty b)) = numStrP (visitBlockFull sty b) := by
  obtain ⟨t, stmts, rets, c⟩ := b
  cases c with
  | false => simp [blk, Block.isChunk]
  | true =>
    rw [ns_visitBlockFull, visitBlockFull_eq]
    simp only [blk, Block.isChunk, if_true]
    rcases bodyPieces_last sty stmts rets with h | ⟨init, h⟩
    · rw [h]; rfl
    · rw [h]
      have : [P "do", S .block, S .indent] ++ (init ++ [S .statement]) ++ [S .deindent, P "end"] =
          [P "do", S .block, S .indent] ++ init ++ [S .statement, S .deindent, P "end"] := by simp
      rw [this, sliceInner_mid _ _ _ 3 3 rfl rfl]
      simp

/-- the `[1:]` of the function printers removes no numeral -/
@[simp] theorem ns_drop1 (sty : Style) (b : Block) :
    numStrP ((visitBlockFull sty b).drop 1) = numStrP (visitBlockFull sty b) := by
  obtain ⟨t, stmts, rets, c⟩ := b
  rw [visitBlockFull_eq]
  simp

@[simp] theorem ns_tail (sty : Style) (b : Block) :
    numStrP (visitBlockFull sty b).tail = numStrP (visitBlockFull sty b) := by
  rw [← List.drop_one]; exact ns_drop1 sty b

/-- the `[2:-1]` of `if` / `else` / `repeat` removes no numeral when the body is a `Block` -/
theorem ns_slice21 (sty : Style) (b : Block) (h : b.isChunk = false) :
    numStrP (sliceInner 2 1 (blk b (visitBlockFull sty b))) = numStrP (visitBlockFull sty b) := by
  rw [slice21_eq sty b h, full_eq]
  simp

theorem blk_block (sty : Style) (b : Block) (h : b.isChunk = false) :
    blk b (visitBlockFull sty b) = visitBlockFull sty b := by
  simp [blk, h]

end Tumfl.Theory.NumEmit
