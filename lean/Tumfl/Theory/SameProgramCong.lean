import Tumfl.Spec.Parse
import Tumfl.Theory.ClimbRel
/-!
# The reference parser looks only at the `.tk` field of its tokens

`nz ts` erases offsets and comments of a token list.  Every reference parse function commutes with `nz`:
`X f (nz ts) = nzO (X f ts)` where `nzO` erases the rest list of a result and the offset of an error
(`EqN a b := b = nzO a`).  One induction on the fuel over all 18 functions (`AllN`), through `climb` (`climb_nz`).
-/
namespace Tumfl.Theory
open Tumfl.Spec

set_option linter.unusedVariables false

/-- a token without offset and comments -/
def nzT (t : Tok) : Tok := ⟨t.tk, 0, []⟩

/-- erase offsets and comments -/
def nz (ts : List Tok) : List Tok := ts.map nzT

/-- result types of parse functions: the remaining token list is the last component -/
class NZ (α : Type) where
  nzr : α → α

instance : NZ (List Tok) := ⟨nz⟩
instance {α β : Type} [NZ β] : NZ (α × β) := ⟨fun p => (p.1, NZ.nzr p.2)⟩

/-- erase the rest list of a result and the offset of an error -/
def nzO {α : Type} [NZ α] : Except PErr α → Except PErr α
  | .ok x => .ok (NZ.nzr x)
  | .error (m, _) => .error (m, 0)

/-- `b` is the outcome `a` with offsets erased -/
def EqN {α : Type} [NZ α] (a b : Except PErr α) : Prop := b = nzO a

@[simp] theorem nzr_list (ts : List Tok) : NZ.nzr ts = nz ts := rfl
@[simp] theorem nzr_pair {α β : Type} [NZ β] (a : α) (b : β) : NZ.nzr (a, b) = (a, NZ.nzr b) := rfl

theorem nz_nil : nz [] = [] := rfl
theorem nz_cons (t : Tok) (ts : List Tok) : nz (t :: ts) = nzT t :: nz ts := rfl

theorem pk_nz (ts : List Tok) : pk (nz ts) = pk ts := by cases ts <;> rfl
theorem tail_nz (ts : List Tok) : (nz ts).tail = nz ts.tail := by cases ts <;> rfl
theorem isSym_nz (s : String) (ts : List Tok) : isSym s (nz ts) = isSym s ts := by simp only [isSym, pk_nz]
theorem isKw_nz (s : String) (ts : List Tok) : isKw s (nz ts) = isKw s ts := by simp only [isKw, pk_nz]
theorem offOf_nz (ts : List Tok) : offOf (nz ts) = 0 := by cases ts <;> rfl

theorem nz_map_tk (ts : List Tok) : (nz ts).map (·.tk) = ts.map (·.tk) := by
  induction ts with
  | nil => rfl
  | cons t ts ih => simp only [nz_cons, List.map_cons, ih, nzT]

theorem nz_eq_of_tks {ts ts2 : List Tok} (h : ts.map (·.tk) = ts2.map (·.tk)) : nz ts = nz ts2 := by
  induction ts generalizing ts2 with
  | nil => cases ts2 with
    | nil => rfl
    | cons _ _ => simp at h
  | cons t ts ih => cases ts2 with
    | nil => simp at h
    | cons t2 ts2 =>
      simp only [List.map_cons, List.cons.injEq] at h
      simp only [nz_cons, nzT, h.1, ih h.2]

theorem tks_of_nz_eq {ts ts2 : List Tok} (h : nz ts = nz ts2) : ts.map (·.tk) = ts2.map (·.tk) := by
  rw [← nz_map_tk ts, ← nz_map_tk ts2, h]

/-! ## the calculus -/

section
variable {α β γ δ : Type}

theorem EqN_ok [NZ α] (x : α) : EqN (.ok x : Except PErr α) (.ok (NZ.nzr x)) := rfl

theorem EqN_fuel [NZ α] : EqN (.error fuelErr : Except PErr α) (.error fuelErr) := rfl

theorem EqN_perr [NZ α] (m : String) (ts : List Tok) : EqN (perr m ts : Except PErr α) (perr m (nz ts)) := by
  simp only [EqN, perr, offOf_nz, nzO]

theorem EqN_bind [NZ α] [NZ β] {a a' : Except PErr α} {k k' : α → Except PErr β} (ha : EqN a a')
    (hk : ∀ x, EqN (k x) (k' (NZ.nzr x))) : EqN (a >>= k) (a' >>= k') := by
  unfold EqN at ha
  subst ha
  cases a with
  | error e => obtain ⟨m, o⟩ := e; rfl
  | ok x => exact hk x

theorem EqN_bind0 [NZ β] {a a' : Except PErr (List Tok)} {k k' : List Tok → Except PErr β} (ha : EqN a a')
    (hk : ∀ ts, EqN (k ts) (k' (nz ts))) : EqN (a >>= k) (a' >>= k') := EqN_bind ha hk

theorem EqN_bind1 [NZ β] {a a' : Except PErr (α × List Tok)} {k k' : α × List Tok → Except PErr β} (ha : EqN a a')
    (hk : ∀ x ts, EqN (k (x, ts)) (k' (x, nz ts))) : EqN (a >>= k) (a' >>= k') :=
  EqN_bind ha (fun ⟨x, ts⟩ => hk x ts)

theorem EqN_bind2 [NZ β] {a a' : Except PErr (α × γ × List Tok)} {k k' : α × γ × List Tok → Except PErr β}
    (ha : EqN a a') (hk : ∀ x y ts, EqN (k (x, y, ts)) (k' (x, y, nz ts))) : EqN (a >>= k) (a' >>= k') :=
  EqN_bind ha (fun ⟨x, y, ts⟩ => hk x y ts)

theorem EqN_bind3 [NZ β] {a a' : Except PErr (α × γ × δ × List Tok)} {k k' : α × γ × δ × List Tok → Except PErr β}
    (ha : EqN a a') (hk : ∀ x y z ts, EqN (k (x, y, z, ts)) (k' (x, y, z, nz ts))) : EqN (a >>= k) (a' >>= k') :=
  EqN_bind ha (fun ⟨x, y, z, ts⟩ => hk x y z ts)

theorem EqN_ite [NZ α] {c : Prop} [Decidable c] {a a' b b' : Except PErr α} (ha : EqN a a') (hb : EqN b b') :
    EqN (if c then a else b) (if c then a' else b') := by
  split
  · exact ha
  · exact hb

end

theorem EqN_expectSym (s : String) (ts : List Tok) : EqN (expectSym s ts) (expectSym s (nz ts)) := by
  simp only [expectSym, isSym_nz, tail_nz]
  exact EqN_ite (EqN_ok _) (EqN_perr _ _)

theorem EqN_expectKw (s : String) (ts : List Tok) : EqN (expectKw s ts) (expectKw s (nz ts)) := by
  simp only [expectKw, isKw_nz, tail_nz]
  exact EqN_ite (EqN_ok _) (EqN_perr _ _)

theorem EqN_expectName (ts : List Tok) : EqN (expectName ts) (expectName (nz ts)) := by
  simp only [expectName, pk_nz, tail_nz]
  split
  · exact EqN_ok _
  · exact EqN_perr _ _

/-- a successful result whose rest list is spelled with `if` -/
theorem EqN_ok_of {α : Type} [NZ α] {x y : α} (h : y = NZ.nzr x) : EqN (.ok x : Except PErr α) (.ok y) := by
  subst h; rfl

/-! ## through the operator-precedence climber -/

theorem climb_nz {x x' : List Tok → Except PErr (Exp × List Tok)} (hx : ∀ ts, EqN (x ts) (x' (nz ts))) : ∀ f,
    (∀ limit ts, EqN (climb (specSig x) f limit ts) (climb (specSig x') f limit (nz ts))) ∧
    (∀ limit acc ts, EqN (climbLoop (specSig x) f limit acc ts) (climbLoop (specSig x') f limit acc (nz ts))) := by
  intro f
  induction f with
  | zero =>
    constructor
    · intro limit ts; rw [climb_zero, climb_zero]; exact EqN_fuel
    · intro limit acc ts; rw [climbLoop_zero, climbLoop_zero]; exact EqN_fuel
  | succ f ih =>
    obtain ⟨ihc, ihl⟩ := ih
    constructor
    · intro limit ts
      rw [climb_succ, climb_succ]
      simp only [specSig, pk_nz, tail_nz]
      cases unOfTk (pk ts) with
      | some u =>
        simp only
        have h1 := ihc UPRI ts.tail
        simp only [specSig] at h1
        unfold EqN at h1
        rw [h1]
        cases climb _ f UPRI ts.tail with
        | error e => obtain ⟨m, o⟩ := e; rfl
        | ok r => obtain ⟨e, s2⟩ := r; exact ihl _ _ _
      | none =>
        simp only
        have h1 := hx ts
        unfold EqN at h1
        rw [h1]
        cases x ts with
        | error e => obtain ⟨m, o⟩ := e; rfl
        | ok r => obtain ⟨e, s2⟩ := r; exact ihl _ _ _
    · intro limit acc ts
      rw [climbLoop_succ, climbLoop_succ]
      simp only [specSig, pk_nz, tail_nz]
      cases binOfTk (pk ts) with
      | none => exact EqN_ok _
      | some o =>
        simp only
        split
        · have h1 := ihc (rp o) ts.tail
          simp only [specSig] at h1
          unfold EqN at h1
          rw [h1]
          cases climb _ f (rp o) ts.tail with
          | error e => obtain ⟨m, o⟩ := e; rfl
          | ok r => obtain ⟨e, s2⟩ := r; exact ihl _ _ _
        · exact EqN_ok _

end Tumfl.Theory
