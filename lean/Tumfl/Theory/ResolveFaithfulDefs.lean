import Tumfl.Theory.ResolveSpec
/-!
# Dependency resolver: the declarative specification of "faithful inlining"

`InlBlock fs sp dir b b'` (and its eight siblings): `b'` is `b` in which every `require(<string literal>)` call of the bare
name `require` has been replaced by (the faithful inlining of) the file it names, and nothing else has changed.
The relations are indexed by the file system, the search path and the directory of the file the node was written in.

* congruence rules: same constructor, same token, same non-tree data, pointwise related children; leaves only to
  themselves; a `call` may be rebuilt by congruence only if it is not a literal require (`isReqLit fn args = false`);
* inlining rules: `InlExpr.require`, `InlStmt.requireInline`, `InlStmt.requireDedup`.

Deviation from the "obvious" congruence (it mirrors the model, i.e. the Python walker): `Stmt.localAssign t ns es`
keeps its attributed names `ns` as they are (they are not visited), only `es` is related.

Note: the side condition of the `call` congruence rules is `isReqLit fn args = false`, so `require(x)` (bare name `require`,
arguments other than one string literal) is related to itself by congruence although the model raises
`InvalidDependencyError` there: the relation over-approximates the model at that point (`inl_nonliteral_require`).
-/
namespace Tumfl.Theory
open Tumfl.Model

mutual
inductive InlExpr (fs : FS) (sp : List Path) : Path → Expr → Expr → Prop
  | nil {dir : Path} (t : Token) : InlExpr fs sp dir (.nil t) (.nil t)
  | bool {dir : Path} (t : Token) (v : Bool) : InlExpr fs sp dir (.bool t v) (.bool t v)
  | vararg {dir : Path} (t : Token) : InlExpr fs sp dir (.vararg t) (.vararg t)
  | number {dir : Path} (t : Token) (n : NumTuple) : InlExpr fs sp dir (.number t n) (.number t n)
  | string {dir : Path} (t : Token) (v : List Char) : InlExpr fs sp dir (.string t v) (.string t v)
  | name {dir : Path} (t : Token) (n : List Char) : InlExpr fs sp dir (.name t n) (.name t n)
  | func {dir : Path} {t : Token} {ps ps' : List Expr} {body body' : Block} :
      InlExprs fs sp dir ps ps' → InlBlock fs sp dir body body' → InlExpr fs sp dir (.func t ps body) (.func t ps' body')
  | table {dir : Path} {t : Token} {fds fds' : List Field} :
      InlFields fs sp dir fds fds' → InlExpr fs sp dir (.table t fds) (.table t fds')
  | binop {dir : Path} {t : Token} {o : Tumfl.Spec.BOp} {l l' r r' : Expr} :
      InlExpr fs sp dir l l' → InlExpr fs sp dir r r' → InlExpr fs sp dir (.binop t o l r) (.binop t o l' r')
  | unop {dir : Path} {t : Token} {o : Tumfl.Spec.UOp} {x x' : Expr} :
      InlExpr fs sp dir x x' → InlExpr fs sp dir (.unop t o x) (.unop t o x')
  | index {dir : Path} {t : Token} {l l' k k' : Expr} :
      InlExpr fs sp dir l l' → InlExpr fs sp dir k k' → InlExpr fs sp dir (.index t l k) (.index t l' k')
  | namedIndex {dir : Path} {t : Token} {l l' n n' : Expr} :
      InlExpr fs sp dir l l' → InlExpr fs sp dir n n' → InlExpr fs sp dir (.namedIndex t l n) (.namedIndex t l' n')
  /-- congruence for a call that is NOT a literal require -/
  | call {dir : Path} {t : Token} {fn fn' : Expr} {args args' : List Expr} :
      isReqLit fn args = false →
      InlExpr fs sp dir fn fn' → InlExprs fs sp dir args args' → InlExpr fs sp dir (.call t fn args) (.call t fn' args')
  | method {dir : Path} {t : Token} {fn fn' m m' : Expr} {args args' : List Expr} :
      InlExpr fs sp dir fn fn' → InlExpr fs sp dir m m' → InlExprs fs sp dir args args' →
      InlExpr fs sp dir (.method t fn m args) (.method t fn' m' args')
  /-- INLINING, expression level: `require("name")` becomes `(function() <file> end)("name")` -/
  | require {dir : Path} {t tk tk' : Token} {fn : Expr} {name : List Char} {path : Path} {text : List Char}
      {ss : List Stmt} {rs : Option (List Expr)} {c : Bool} {x : List Hint} {body' : Block} :
      isRequireName fn = true →
      findFileInPath fs sp name dir = some path →
      fs.read path = some text →
      parseText text = .ok (Block.mk tk' ss rs c, x) →
      InlBlock fs sp (dirOf path) (Block.mk tk' ss rs true) body' →
      InlExpr fs sp dir (.call t fn [.string tk name]) (.call t (.func t [] body') [.string tk name])

inductive InlExprs (fs : FS) (sp : List Path) : Path → List Expr → List Expr → Prop
  | nil {dir : Path} : InlExprs fs sp dir [] []
  | cons {dir : Path} {e e' : Expr} {es es' : List Expr} :
      InlExpr fs sp dir e e' → InlExprs fs sp dir es es' → InlExprs fs sp dir (e :: es) (e' :: es')

inductive InlField (fs : FS) (sp : List Path) : Path → Field → Field → Prop
  | explicit {dir : Path} {t : Token} {k k' v v' : Expr} :
      InlExpr fs sp dir k k' → InlExpr fs sp dir v v' → InlField fs sp dir (.explicit t k v) (.explicit t k' v')
  | named {dir : Path} {t : Token} {n n' v v' : Expr} :
      InlExpr fs sp dir n n' → InlExpr fs sp dir v v' → InlField fs sp dir (.named t n v) (.named t n' v')
  | numbered {dir : Path} {t : Token} {v v' : Expr} :
      InlExpr fs sp dir v v' → InlField fs sp dir (.numbered t v) (.numbered t v')

inductive InlFields (fs : FS) (sp : List Path) : Path → List Field → List Field → Prop
  | nil {dir : Path} : InlFields fs sp dir [] []
  | cons {dir : Path} {fd fd' : Field} {rest rest' : List Field} :
      InlField fs sp dir fd fd' → InlFields fs sp dir rest rest' → InlFields fs sp dir (fd :: rest) (fd' :: rest')

inductive InlOptExpr (fs : FS) (sp : List Path) : Path → Option Expr → Option Expr → Prop
  | none {dir : Path} : InlOptExpr fs sp dir none none
  | some {dir : Path} {e e' : Expr} : InlExpr fs sp dir e e' → InlOptExpr fs sp dir (some e) (some e')

inductive InlOptExprs (fs : FS) (sp : List Path) : Path → Option (List Expr) → Option (List Expr) → Prop
  | none {dir : Path} : InlOptExprs fs sp dir none none
  | some {dir : Path} {es es' : List Expr} : InlExprs fs sp dir es es' → InlOptExprs fs sp dir (some es) (some es')

inductive InlStmt (fs : FS) (sp : List Path) : Path → Stmt → Stmt → Prop
  | assign {dir : Path} {t : Token} {ts ts' es es' : List Expr} :
      InlExprs fs sp dir ts ts' → InlExprs fs sp dir es es' → InlStmt fs sp dir (.assign t ts es) (.assign t ts' es')
  | block {dir : Path} {b b' : Block} : InlBlock fs sp dir b b' → InlStmt fs sp dir (.block b) (.block b')
  | brk {dir : Path} (t : Token) : InlStmt fs sp dir (.brk t) (.brk t)
  /-- congruence for a call statement that is NOT a literal require -/
  | call {dir : Path} {t : Token} {fn fn' : Expr} {args args' : List Expr} :
      isReqLit fn args = false →
      InlExpr fs sp dir fn fn' → InlExprs fs sp dir args args' → InlStmt fs sp dir (.call t fn args) (.call t fn' args')
  | funcDef {dir : Path} {t : Token} {ns ns' : List Expr} {m m' : Option Expr} {ps ps' : List Expr} {body body' : Block} :
      InlExprs fs sp dir ns ns' → InlOptExpr fs sp dir m m' → InlExprs fs sp dir ps ps' → InlBlock fs sp dir body body' →
      InlStmt fs sp dir (.funcDef t ns m ps body) (.funcDef t ns' m' ps' body')
  | goto {dir : Path} {t : Token} {l l' : Expr} : InlExpr fs sp dir l l' → InlStmt fs sp dir (.goto t l) (.goto t l')
  | label {dir : Path} {t : Token} {n n' : Expr} : InlExpr fs sp dir n n' → InlStmt fs sp dir (.label t n) (.label t n')
  | iff {dir : Path} {t : Token} {c c' : Expr} {tr tr' : Block} {fl fl' : IfFalse} :
      InlExpr fs sp dir c c' → InlBlock fs sp dir tr tr' → InlFalse fs sp dir fl fl' →
      InlStmt fs sp dir (.iff t c tr fl) (.iff t c' tr' fl')
  | iterFor {dir : Path} {t : Token} {ns ns' es es' : List Expr} {body body' : Block} :
      InlExprs fs sp dir ns ns' → InlExprs fs sp dir es es' → InlBlock fs sp dir body body' →
      InlStmt fs sp dir (.iterFor t ns es body) (.iterFor t ns' es' body')
  /-- the attributed names `ns` are NOT visited by the model: they are kept as they are -/
  | localAssign {dir : Path} {t : Token} {ns : List AttName} {es es' : Option (List Expr)} :
      InlOptExprs fs sp dir es es' → InlStmt fs sp dir (.localAssign t ns es) (.localAssign t ns es')
  | localFunc {dir : Path} {t : Token} {n n' : Expr} {ps ps' : List Expr} {body body' : Block} :
      InlExpr fs sp dir n n' → InlExprs fs sp dir ps ps' → InlBlock fs sp dir body body' →
      InlStmt fs sp dir (.localFunc t n ps body) (.localFunc t n' ps' body')
  | method {dir : Path} {t : Token} {fn fn' m m' : Expr} {args args' : List Expr} :
      InlExpr fs sp dir fn fn' → InlExpr fs sp dir m m' → InlExprs fs sp dir args args' →
      InlStmt fs sp dir (.method t fn m args) (.method t fn' m' args')
  | numFor {dir : Path} {t : Token} {v v' a a' b b' : Expr} {st st' : Option Expr} {body body' : Block} :
      InlExpr fs sp dir v v' → InlExpr fs sp dir a a' → InlExpr fs sp dir b b' → InlOptExpr fs sp dir st st' →
      InlBlock fs sp dir body body' → InlStmt fs sp dir (.numFor t v a b st body) (.numFor t v' a' b' st' body')
  | repeat {dir : Path} {t : Token} {c c' : Expr} {body body' : Block} :
      InlExpr fs sp dir c c' → InlBlock fs sp dir body body' → InlStmt fs sp dir (.repeat t c body) (.repeat t c' body')
  | semi {dir : Path} (t : Token) : InlStmt fs sp dir (.semi t) (.semi t)
  | whl {dir : Path} {t : Token} {c c' : Expr} {body body' : Block} :
      InlExpr fs sp dir c c' → InlBlock fs sp dir body body' → InlStmt fs sp dir (.whl t c body) (.whl t c' body')
  /-- INLINING, statement level: `require("name")` becomes `do <file> end` -/
  | requireInline {dir : Path} {t tk tk' : Token} {fn : Expr} {name : List Char} {path : Path} {text : List Char}
      {ss : List Stmt} {rs : Option (List Expr)} {c : Bool} {x : List Hint} {chunk' : Block} :
      isRequireName fn = true →
      findFileInPath fs sp name dir = some path →
      fs.read path = some text →
      parseText text = .ok (Block.mk tk' ss rs c, x) →
      InlBlock fs sp (dirOf path) (Block.mk tk' ss rs true) chunk' →
      InlStmt fs sp dir (.call t fn [.string tk name]) (.block chunk')
  /-- DEDUPLICATION, statement level: `require("name")` of an existing file becomes `;` -/
  | requireDedup {dir : Path} {t tk : Token} {fn : Expr} {name : List Char} {path : Path} :
      isRequireName fn = true →
      findFileInPath fs sp name dir = some path →
      InlStmt fs sp dir (.call t fn [.string tk name]) (.semi t)

inductive InlStmts (fs : FS) (sp : List Path) : Path → List Stmt → List Stmt → Prop
  | nil {dir : Path} : InlStmts fs sp dir [] []
  | cons {dir : Path} {s s' : Stmt} {rest rest' : List Stmt} :
      InlStmt fs sp dir s s' → InlStmts fs sp dir rest rest' → InlStmts fs sp dir (s :: rest) (s' :: rest')

inductive InlFalse (fs : FS) (sp : List Path) : Path → IfFalse → IfFalse → Prop
  | none {dir : Path} : InlFalse fs sp dir .none .none
  | block {dir : Path} {b b' : Block} : InlBlock fs sp dir b b' → InlFalse fs sp dir (.block b) (.block b')
  | elif {dir : Path} {t : Token} {c c' : Expr} {tr tr' : Block} {fl fl' : IfFalse} :
      InlExpr fs sp dir c c' → InlBlock fs sp dir tr tr' → InlFalse fs sp dir fl fl' →
      InlFalse fs sp dir (.elif t c tr fl) (.elif t c' tr' fl')

inductive InlBlock (fs : FS) (sp : List Path) : Path → Block → Block → Prop
  | mk {dir : Path} {t : Token} {ss ss' : List Stmt} {rs rs' : Option (List Expr)} {c : Bool} :
      InlStmts fs sp dir ss ss' → InlOptExprs fs sp dir rs rs' → InlBlock fs sp dir (.mk t ss rs c) (.mk t ss' rs' c)
end

end Tumfl.Theory
