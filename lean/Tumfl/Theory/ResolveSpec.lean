import Tumfl.Model.Resolve
/-!
# Dependency resolver: specification vocabulary

* the lookup specification `candidates` and `findFileInPath_eq`;
* the syntactic predicates `hasRequire*` (a `require(<string literal>)` call occurs) and `mentionsRequire*`
  (a call of the bare name `require` occurs, any arguments);
* a small Hoare-style calculus `Spec` / `Unch` for the state-and-exception monad `RM`.
-/
namespace Tumfl.Theory
open Tumfl.Model

/-! ## 1. Lookup specification -/

/-- first dotted component of a module name (`name.split(".")[0]`) -/
def firstComp (name : List Char) : List Char := (splitDots name).headD []

/-- the non-empty dotted components, as path components -/
def modComps (name : List Char) : List String :=
  ((splitDots name).filter (fun c => !c.isEmpty)).map String.ofList

/-- `comps` with `sfx` appended to the last component -/
def withSuffix (comps : List String) (sfx : String) : Path :=
  match comps.getLast? with
  | some last => comps.dropLast ++ [last ++ sfx]
  | none => []

def suffixes : List String := ["", ".tl", ".lua"]

def candidates (sp : List Path) (name : List Char) (startDir : Path) : List Path :=
  (startDir :: sp).flatMap fun d => suffixes.map fun sfx => d ++ withSuffix (modComps name) sfx

theorem splitDots_go_ne_nil (s cur : List Char) : splitDots.go s cur ≠ [] := by
  induction s generalizing cur with
  | nil => simp [splitDots.go]
  | cons c cs ih =>
    rw [splitDots.go]; split
    · simp
    · exact ih _

theorem splitDots_ne_nil (s : List Char) : splitDots s ≠ [] := splitDots_go_ne_nil s []

theorem withSuffix_eq (comps : List String) (sfx : String) (d : Path) :
    (match comps.reverse with
      | last :: init => d ++ init.reverse ++ [last ++ sfx]
      | [] => d) = d ++ withSuffix comps sfx := by
  unfold withSuffix
  rcases List.eq_nil_or_concat comps with h | ⟨init, last, h⟩
  · subst h; simp
  · subst h; simp

theorem findFileInPath_eq (fs : FS) (sp : List Path) (name : List Char) (startDir : Path) :
    findFileInPath fs sp name startDir =
      if (firstComp name).isEmpty then none else (candidates sp name startDir).find? fs.isFile := by
  have hf : firstComp name = (splitDots name).headD [] := rfl
  unfold findFileInPath candidates modComps suffixes
  rw [hf]
  cases h : splitDots name with
  | nil => exact absurd h (splitDots_ne_nil _)
  | cons p0 rest =>
    show (if p0.isEmpty = true then none else _) = (if p0.isEmpty = true then none else _)
    cases p0.isEmpty
    · simp only [Bool.false_eq_true, if_false]
      congr 2
      funext d
      congr 1
      funext sfx
      exact withSuffix_eq _ _ _
    · rfl

/-! ## 2. Syntactic predicates -/

def isStrLit1 : List Expr → Bool
  | [.string _ _] => true
  | _ => false

def isReqLit (fn : Expr) (args : List Expr) : Bool := isRequireName fn && isStrLit1 args

mutual
def hasRequireExpr : Expr → Bool
  | .func _ ps body => hasRequireExprs ps || hasRequireBlock body
  | .table _ fs => hasRequireFields fs
  | .binop _ _ l r => hasRequireExpr l || hasRequireExpr r
  | .unop _ _ x => hasRequireExpr x
  | .index _ l k => hasRequireExpr l || hasRequireExpr k
  | .namedIndex _ l n => hasRequireExpr l || hasRequireExpr n
  | .call _ fn args => isReqLit fn args || hasRequireExpr fn || hasRequireExprs args
  | .method _ fn m args => hasRequireExpr fn || hasRequireExpr m || hasRequireExprs args
  | _ => false
def hasRequireExprs : List Expr → Bool
  | [] => false
  | e :: es => hasRequireExpr e || hasRequireExprs es
def hasRequireOptExpr : Option Expr → Bool
  | none => false
  | some e => hasRequireExpr e
def hasRequireOptExprs : Option (List Expr) → Bool
  | none => false
  | some es => hasRequireExprs es
def hasRequireField : Field → Bool
  | .explicit _ k v => hasRequireExpr k || hasRequireExpr v
  | .named _ n v => hasRequireExpr n || hasRequireExpr v
  | .numbered _ v => hasRequireExpr v
def hasRequireFields : List Field → Bool
  | [] => false
  | fd :: rest => hasRequireField fd || hasRequireFields rest
def hasRequireStmt : Stmt → Bool
  | .assign _ ts es => hasRequireExprs ts || hasRequireExprs es
  | .block b => hasRequireBlock b
  | .call _ fn args => isReqLit fn args || hasRequireExpr fn || hasRequireExprs args
  | .funcDef _ ns m ps body => hasRequireExprs ns || hasRequireOptExpr m || hasRequireExprs ps || hasRequireBlock body
  | .goto _ l => hasRequireExpr l
  | .label _ n => hasRequireExpr n
  | .iff _ c tr fl => hasRequireExpr c || hasRequireBlock tr || hasRequireFalse fl
  | .iterFor _ ns es body => hasRequireExprs ns || hasRequireExprs es || hasRequireBlock body
  | .localAssign _ _ es => hasRequireOptExprs es
  | .localFunc _ n ps body => hasRequireExpr n || hasRequireExprs ps || hasRequireBlock body
  | .method _ fn m args => hasRequireExpr fn || hasRequireExpr m || hasRequireExprs args
  | .numFor _ v a b st body => hasRequireExpr v || hasRequireExpr a || hasRequireExpr b || hasRequireOptExpr st || hasRequireBlock body
  | .repeat _ c body => hasRequireExpr c || hasRequireBlock body
  | .whl _ c body => hasRequireExpr c || hasRequireBlock body
  | _ => false
def hasRequireStmts : List Stmt → Bool
  | [] => false
  | s :: rest => hasRequireStmt s || hasRequireStmts rest
def hasRequireFalse : IfFalse → Bool
  | .none => false
  | .block b => hasRequireBlock b
  | .elif _ c tr fl => hasRequireExpr c || hasRequireBlock tr || hasRequireFalse fl
def hasRequireBlock : Block → Bool
  | .mk _ ss rs _ => hasRequireStmts ss || hasRequireOptExprs rs
end


/-! `mentionsRequire*`: a call of the bare name `require` (any arguments) occurs -/
mutual
def mentionsRequireExpr : Expr → Bool
  | .func _ ps body => mentionsRequireExprs ps || mentionsRequireBlock body
  | .table _ fs => mentionsRequireFields fs
  | .binop _ _ l r => mentionsRequireExpr l || mentionsRequireExpr r
  | .unop _ _ x => mentionsRequireExpr x
  | .index _ l k => mentionsRequireExpr l || mentionsRequireExpr k
  | .namedIndex _ l n => mentionsRequireExpr l || mentionsRequireExpr n
  | .call _ fn args => isRequireName fn || mentionsRequireExpr fn || mentionsRequireExprs args
  | .method _ fn m args => mentionsRequireExpr fn || mentionsRequireExpr m || mentionsRequireExprs args
  | _ => false
def mentionsRequireExprs : List Expr → Bool
  | [] => false
  | e :: es => mentionsRequireExpr e || mentionsRequireExprs es
def mentionsRequireOptExpr : Option Expr → Bool
  | none => false
  | some e => mentionsRequireExpr e
def mentionsRequireOptExprs : Option (List Expr) → Bool
  | none => false
  | some es => mentionsRequireExprs es
def mentionsRequireField : Field → Bool
  | .explicit _ k v => mentionsRequireExpr k || mentionsRequireExpr v
  | .named _ n v => mentionsRequireExpr n || mentionsRequireExpr v
  | .numbered _ v => mentionsRequireExpr v
def mentionsRequireFields : List Field → Bool
  | [] => false
  | fd :: rest => mentionsRequireField fd || mentionsRequireFields rest
def mentionsRequireStmt : Stmt → Bool
  | .assign _ ts es => mentionsRequireExprs ts || mentionsRequireExprs es
  | .block b => mentionsRequireBlock b
  | .call _ fn args => isRequireName fn || mentionsRequireExpr fn || mentionsRequireExprs args
  | .funcDef _ ns m ps body => mentionsRequireExprs ns || mentionsRequireOptExpr m || mentionsRequireExprs ps || mentionsRequireBlock body
  | .goto _ l => mentionsRequireExpr l
  | .label _ n => mentionsRequireExpr n
  | .iff _ c tr fl => mentionsRequireExpr c || mentionsRequireBlock tr || mentionsRequireFalse fl
  | .iterFor _ ns es body => mentionsRequireExprs ns || mentionsRequireExprs es || mentionsRequireBlock body
  | .localAssign _ _ es => mentionsRequireOptExprs es
  | .localFunc _ n ps body => mentionsRequireExpr n || mentionsRequireExprs ps || mentionsRequireBlock body
  | .method _ fn m args => mentionsRequireExpr fn || mentionsRequireExpr m || mentionsRequireExprs args
  | .numFor _ v a b st body => mentionsRequireExpr v || mentionsRequireExpr a || mentionsRequireExpr b || mentionsRequireOptExpr st || mentionsRequireBlock body
  | .repeat _ c body => mentionsRequireExpr c || mentionsRequireBlock body
  | .whl _ c body => mentionsRequireExpr c || mentionsRequireBlock body
  | _ => false
def mentionsRequireStmts : List Stmt → Bool
  | [] => false
  | s :: rest => mentionsRequireStmt s || mentionsRequireStmts rest
def mentionsRequireFalse : IfFalse → Bool
  | .none => false
  | .block b => mentionsRequireBlock b
  | .elif _ c tr fl => mentionsRequireExpr c || mentionsRequireBlock tr || mentionsRequireFalse fl
def mentionsRequireBlock : Block → Bool
  | .mk _ ss rs _ => mentionsRequireStmts ss || mentionsRequireOptExprs rs
end


/-! ## 3. Hoare-style rules for `RM` -/

def Spec {α : Type} (x : RM α) (P : α → Prop) (E : PyErr → Prop) : Prop :=
  ∀ st, (∀ a st', x st = .ok (a, st') → P a) ∧ (∀ e, x st = .error e → E e)

theorem Spec.pure {α : Type} {a : α} {P : α → Prop} {E : PyErr → Prop} (h : P a) : Spec (Pure.pure a : RM α) P E := by
  intro st
  refine ⟨?_, ?_⟩
  · intro a' st' h'
    cases h'
    exact h
  · intro e h'
    cases h'

theorem Spec.bind {α β : Type} {x : RM α} {g : α → RM β} {P : α → Prop} {Q : β → Prop} {E : PyErr → Prop}
    (hx : Spec x P E) (hg : ∀ a, P a → Spec (g a) Q E) : Spec (x >>= g) Q E := by
  intro st
  have h1 := hx st
  show (∀ b st', (StateT.bind x g st) = .ok (b, st') → Q b) ∧ (∀ e, StateT.bind x g st = .error e → E e)
  unfold StateT.bind
  cases h : x st with
  | error e =>
    refine ⟨?_, ?_⟩
    · intro b st' h'; cases h'
    · intro e' h'; cases h'; exact h1.2 _ h
  | ok r =>
    obtain ⟨a, s⟩ := r
    exact hg a (h1.1 _ _ h) s

theorem Spec.rfuel {α : Type} {P : α → Prop} {E : PyErr → Prop} (h : E .fuel) : Spec (rfuel : RM α) P E := by
  intro st
  refine ⟨?_, ?_⟩
  · intro a' st' h'
    cases h'
  · intro e h'
    cases h'; exact h

theorem Spec.rthrow {α : Type} {P : α → Prop} {E : PyErr → Prop} {e : PyErr} (h : E e) : Spec (rthrow e : RM α) P E := by
  intro st
  refine ⟨?_, ?_⟩
  · intro a' st' h'
    cases h'
  · intro e h'
    cases h'; exact h

theorem Spec.mono {α : Type} {x : RM α} {P Q : α → Prop} {E E' : PyErr → Prop}
    (h : Spec x P E) (hP : ∀ a, P a → Q a) (hE : ∀ e, E e → E' e) : Spec x Q E' :=
  fun st => ⟨fun a st' h' => hP _ ((h st).1 a st' h'), fun e h' => hE _ ((h st).2 e h')⟩


/-- `x` succeeds only by returning `a` and leaving the state alone -/
def Unch {α : Type} (x : RM α) (a : α) : Prop := ∀ st r, x st = .ok r → r = (a, st)

theorem Unch.pure {α : Type} {a : α} : Unch (Pure.pure a : RM α) a := by
  intro st r h; cases h; rfl

theorem Unch.rfuel {α : Type} {a : α} : Unch (rfuel : RM α) a := by
  intro st r h; cases h

theorem Unch.bind {α β : Type} {x : RM α} {g : α → RM β} {a : α} {b : β}
    (hx : Unch x a) (hg : Unch (g a) b) : Unch (x >>= g) b := by
  intro st r
  have h1 := hx st
  show StateT.bind x g st = .ok r → _
  unfold StateT.bind
  cases h : x st with
  | error e => intro h'; cases h'
  | ok r' =>
    have := h1 _ h
    subst this
    exact hg st r

end Tumfl.Theory
