import Tumfl.Theory.LexBridgeBase
import Tumfl.Theory.LexBridgeNum1
import Tumfl.Theory.LexBridgeNum2
/-!
# LexBridge, numerals: the model's numeral scanner and the reference numeral scan agree

`number_complete` / `number_sound`: at a place where a numeral starts, the reference scan (`numScan` + `parseNumeral`)
accepts iff the model (`getNumber` + the acceptance test `numReject` of `nextTokenLoop`) accepts; both continue at the
same place and deliver related values (`NumRel`).
-/
namespace Tumfl.Theory
open Tumfl.Model Tumfl

/-- the acceptance test of the number branch of `nextTokenLoop` (true = "Malformed number") -/
def numReject (p : NumTuple × LexSt) : Bool :=
  !(p.1.ip.isSome || p.1.fp.isSome)
    || (if p.1.isHex then "pP+-".toList else "eE+-".toList).contains (p.2.prev.getD ' ')
    || inStr p.2.cur Gen.alphanumeric
    || p.2.cur == some '.'

/-! ## the four parts of the acceptance test -/

theorem numReject_false (p : NumTuple × LexSt) :
    numReject p = false ↔
      ((p.1.ip.isSome || p.1.fp.isSome) = true ∧
       (if p.1.isHex then "pP+-".toList else "eE+-".toList).contains (p.2.prev.getD ' ') = false ∧
       inStr p.2.cur Gen.alphanumeric = false ∧ (p.2.cur == some '.') = false) := by
  unfold numReject
  simp only [Bool.or_eq_false_iff, Bool.not_eq_false', and_assoc]

theorem boundary_iff_cur (x : LexSt) :
    Boundary x.rest ↔ (inStr x.cur Gen.alphanumeric = false ∧ (x.cur == some '.') = false) := by
  cases hr : x.rest with
  | nil => simp [Boundary, cur_eq, hr, inStr]
  | cons d t => simp [Boundary, cur_eq, hr, inStr]

theorem marksHex : "pP+-".toList = ['p', 'P', '+', '-'] := by decide
theorem marksDec : "eE+-".toList = ['e', 'E', '+', '-'] := by decide

/-- a digit of the base, or the dot, is not in the marker list of the acceptance test -/
theorem last_not_mark (h : Bool) (l : Char) (hl : dig h l = true ∨ l = '.') :
    (if h then "pP+-".toList else "eE+-".toList).contains l = false := by
  rw [marksHex, marksDec]
  cases hc : (if h then ['p', 'P', '+', '-'] else ['e', 'E', '+', '-']).contains l with
  | false => rfl
  | true =>
    exfalso
    cases h with
    | true =>
      simp only [if_true, List.contains_iff_mem, List.mem_cons, List.not_mem_nil, or_false] at hc
      rcases hl with hd | rfl
      · rcases hc with rfl | rfl | rfl | rfl <;> revert hd <;> decide
      · revert hc; decide
    | false =>
      simp only [Bool.false_eq_true, if_false, List.contains_iff_mem, List.mem_cons, List.not_mem_nil, or_false] at hc
      rcases hl with hd | rfl
      · rcases hc with rfl | rfl | rfl | rfl <;> revert hd <;> decide
      · revert hc; decide

/-- an exponent mark, or a sign, is in the marker list -/
theorem mark_in_list (h : Bool) (mk : Char) (hm : isExpC h mk = true) :
    (if h then "pP+-".toList else "eE+-".toList).contains mk = true ∧
    (if h then "pP+-".toList else "eE+-".toList).contains '+' = true ∧
    (if h then "pP+-".toList else "eE+-".toList).contains '-' = true := by
  rw [marksHex, marksDec]
  rcases mark_cases h mk hm with ⟨rfl, rfl | rfl⟩ | ⟨rfl, rfl | rfl⟩ <;> decide

/-! ## completeness -/

set_option linter.unusedVariables false in
/-- COMPLETENESS: what the reference scan accepts, the model accepts, with the same rest and a related value -/
theorem number_complete (s : LexSt) (c : Char) (cs : List Char) (hs : s.rest = c :: cs)
    (hc : Spec.isDigit c = true ∨ (c = '.' ∧ nextIsDigit cs = true)) (m : Spec.Numeral)
    (hp : Spec.parseNumeral (numScan c cs).1 = some m) :
    (getNumber s).2.rest = (numScan c cs).2 ∧ NumRel (getNumber s).1 m ∧ numReject (getNumber s) = false := by
  have hb := numScan_boundary c cs m hp
  have htext : s.rest = (numScan c cs).1 ++ (numScan c cs).2 := by rw [hs, numScan_text]
  obtain ⟨g2, g3⟩ := C07_roundtrip_canon _ _ m hp hb s htext
  refine ⟨g2, g3, ?_⟩
  obtain ⟨x, mk, sg, hx, hsrc, wf⟩ := parseNumeral_inv _ m hp
  obtain ⟨g1, _⟩ := getNumber_spec s m x mk sg _ wf hx hb (by rw [htext, hsrc])
  rw [numReject_false]
  refine ⟨?_, ?_, (boundary_iff_cur _).1 (by rw [g2]; exact hb)⟩
  · -- an integer or a fraction digit was read
    rw [g1]
    have hv := wf.valid
    simp only [tupleOf, exTuple]
    cases hip : m.ip with
    | cons d ip' => simp [optStr]
    | nil =>
      cases hfp : m.fp with
      | none => simp [Spec.Numeral.valid, hip, hfp] at hv
      | some f =>
        cases f with
        | nil => simp [Spec.Numeral.valid, hip, hfp] at hv
        | cons d f' => simp [optStr]
  · -- the last consumed character
    obtain ⟨l, hl, hlc⟩ := numText_last m x mk sg wf
    have hne : (numScan c cs).1 ≠ [] := by
      intro h0
      rw [← hsrc, h0] at hl
      cases hl
    have hprev := prevOf_last (src := (numScan c cs).1) (rest := (numScan c cs).2)
      (by rw [← htext]; exact getNumber_adv (advStable_prevOf s.rest) (prevOf_start s)) g2 hne
    rw [hprev, hsrc, hl, g1]
    exact last_not_mark m.hex l hlc

/-! ## soundness -/

set_option linter.unusedVariables false in
/-- SOUNDNESS: what the model accepts, the reference scan accepts, with the same rest and a related value -/
theorem number_sound (s : LexSt) (c : Char) (cs : List Char) (hs : s.rest = c :: cs)
    (hc : Spec.isDigit c = true ∨ (c = '.' ∧ nextIsDigit cs = true))
    (hacc : numReject (getNumber s) = false) :
    ∃ m, Spec.parseNumeral (numScan c cs).1 = some m ∧ (numScan c cs).2 = (getNumber s).2.rest ∧
      NumRel (getNumber s).1 m := by
  rw [numReject_false] at hacc
  obtain ⟨hdig, hprev, hcur1, hcur2⟩ := hacc
  have hb : Boundary (getNumber s).2.rest := (boundary_iff_cur _).2 ⟨hcur1, hcur2⟩
  obtain ⟨hex, x, ip, fp, E, hx, htext, dip, dfp, thex, tip, tfp, hE⟩ := getNumber_inv s
  -- the integer part or the fraction is not empty
  have hne : ip ≠ [] ∨ ∃ f, fp = some f ∧ f ≠ [] := by
    simp only [Bool.or_eq_true] at hdig
    rcases hdig with h | h
    · exact Or.inl (tip h)
    · exact Or.inr (tfp h)
  -- it suffices to exhibit a well-formed numeral whose text was consumed
  suffices hmain : ∃ (n : Spec.Numeral) (mk : Char) (sg : List Char), NumWF n mk sg ∧
      s.rest = numText n x mk sg ++ (getNumber s).2.rest by
    obtain ⟨n, mk, sg, wf, htxt⟩ := hmain
    have hscan := numScan_wf c cs n x mk sg _ wf hx hb (by rw [← hs]; exact htxt)
    have hparse := parseNumeral_build n x mk sg wf hx
    refine ⟨n, by rw [hscan]; exact hparse, by rw [hscan], ?_⟩
    exact (C07_roundtrip_canon _ _ n hparse hb s htxt).2
  have hvalid : ∀ ex : Option (Bool × List Char), (∀ neg ds, ex = some (neg, ds) → ds ≠ []) →
      Spec.Numeral.valid { hex := hex, ip := ip, fp := fp, ex := ex } = true := by
    intro ex hex'
    simp only [Spec.Numeral.valid, Bool.and_eq_true]
    constructor
    · rcases hne with h | ⟨f, rfl, h⟩
      · cases ip with
        | nil => exact absurd rfl h
        | cons _ _ => simp
      · cases f with
        | nil => exact absurd rfl h
        | cons _ _ => simp
    · cases ex with
      | none => rfl
      | some nd =>
        obtain ⟨neg, ds⟩ := nd
        have := hex' neg ds rfl
        cases ds with
        | nil => exact absurd rfl this
        | cons _ _ => rfl
  rcases hE with rfl | ⟨mk, sg, ds, neg, rfl, hmk, hsg, hds⟩
  · -- no exponent
    refine ⟨{ hex := hex, ip := ip, fp := fp, ex := none }, stdMark hex, [], ⟨dip, dfp, ?_, ?_, ?_⟩, ?_⟩
    · cases hex <;> rfl
    · intro neg ds h; cases h
    · exact hvalid none (by intro neg ds h; cases h)
    · rw [htext]; simp [numText, exS]
  · -- an exponent mark was consumed
    cases ds with
    | nil =>
      -- no digit after it: the last consumed character is the mark or the sign, and the model rejects
      exfalso
      have hsrc_ne : (if hex then ['0', x] else []) ++ ip ++ dotS fp ++ (mk :: (sg ++ [])) ≠ [] := by simp
      have hp := prevOf_last (src := (if hex then ['0', x] else []) ++ ip ++ dotS fp ++ (mk :: (sg ++ [])))
        (rest := (getNumber s).2.rest)
        (by rw [← htext]; exact getNumber_adv (advStable_prevOf s.rest) (prevOf_start s)) rfl hsrc_ne
      obtain ⟨i1, i2, i3⟩ := mark_in_list hex mk hmk
      have hlast : ∃ l, (mk :: (sg ++ [])).getLast? = some l ∧
          (if hex then "pP+-".toList else "eE+-".toList).contains l = true := by
        rcases hsg with ⟨rfl, _⟩ | ⟨rfl, _⟩ | ⟨rfl, _⟩
        · exact ⟨mk, rfl, i1⟩
        · exact ⟨'+', rfl, i2⟩
        · exact ⟨'-', rfl, i3⟩
      obtain ⟨l, hl1, hl2⟩ := hlast
      rw [getLast?_app_some _ _ l hl1] at hp
      rw [hp, thex] at hprev
      simp only [Option.getD_some] at hprev
      rw [hl2] at hprev
      cases hprev
    | cons d ds' =>
      refine ⟨{ hex := hex, ip := ip, fp := fp, ex := some (neg, d :: ds') }, mk, sg, ⟨dip, dfp, hmk, ?_, ?_⟩, ?_⟩
      · intro neg' ds'' h
        simp only [Option.some.injEq, Prod.mk.injEq] at h
        obtain ⟨rfl, rfl⟩ := h
        exact ⟨hsg, by simp, hds⟩
      · apply hvalid
        intro neg' ds'' h
        simp only [Option.some.injEq, Prod.mk.injEq] at h
        obtain ⟨_, rfl⟩ := h
        simp
      · rw [htext]; simp [numText, exS]

end Tumfl.Theory
