import Tumfl.Theory.SimTok
import Tumfl.Theory.StrRead
import Tumfl.Theory.BoundaryLex
/-!
# LexBridge, part 0: the scope of the token-by-token agreement of the two lexers

`InScopeTk`: what the Python lexer can represent - string units that are code points which are Unicode scalar values
(no raw byte at or above 128, no surrogate, nothing beyond U+10FFFF).
-/
namespace Tumfl.Theory
open Tumfl.Model

/-- a string unit the Python lexer can represent: a code point that is a Unicode scalar value -/
def InScopeUnit : Spec.SUnit → Prop
  | .ch c => c.isValidChar
  | .byte _ => False

/-- in-scope reference token: string units are code points that are Unicode scalar values (no raw byte ≥ 128, no
surrogate, ≤ 0x10FFFF) -/
def InScopeTk : Spec.Tk → Prop
  | .str u => ∀ x ∈ u, InScopeUnit x
  | _ => True

/-- the text contains no carriage return (the reference lexer, like `llex.c`, ends a quoted string at a raw CR; the
Python lexer only at LF) -/
def NoCR (t : List Char) : Prop := '\r' ∉ t

end Tumfl.Theory
