import Tumfl.Theory.BoundaryWord
/-!
# Boundary lemmas, part 3: numerals

`CanonNumeral a`: `a` is spelled `D+`, `D+.D+`, optionally followed by `e[+-]?D+`, or `0xH+`,
`0xH+.H+`, optionally followed by `p[+-]?D+` (what `Model.numberStr` prints).  If
`sepRequired a b = .ok false`, the reference lexer's numeral scan (`numBuf`, which swallows every
hexadecimal digit, dot, exponent mark with sign, and one touching letter) stops exactly after `a`.
-/
namespace Tumfl.Theory
open Tumfl Tumfl.Spec Tumfl.Model

/-! ## `numBuf`, step by step -/

theorem numBuf_plain (expo : Char → Bool) (c : Char) (cs : List Char) (f : Nat) (h1 : expo c = false)
    (h2 : (isXDigit c || c == '.') = true) :
    numBuf expo (f + 1) (c :: cs) = (c :: (numBuf expo f cs).1, (numBuf expo f cs).2) := by
  cases cs <;> (rw [numBuf]; simp only [h1, h2, Bool.false_eq_true, if_false, if_true])

theorem numBuf_stop (expo : Char → Bool) (c : Char) (t : List Char) (f : Nat) (h1 : expo c = false)
    (h2 : isXDigit c = false) (h3 : c ≠ '.') (h4 : isAlpha c = false) :
    numBuf expo (f + 1) (c :: t) = ([], c :: t) := by
  have h3' : (c == '.') = false := by simpa using h3
  cases t <;> (rw [numBuf]; simp only [h1, h2, h3', h4, Bool.or_self, Bool.false_eq_true, if_false])

theorem numBuf_sign (expo : Char → Bool) (e s : Char) (t : List Char) (f : Nat) (he : expo e = true)
    (hs : s = '+' ∨ s = '-') :
    numBuf expo (f + 1) (e :: s :: t) = (e :: s :: (numBuf expo f t).1, (numBuf expo f t).2) := by
  rw [numBuf]
  have : (s == '+' || s == '-') = true := by rcases hs with rfl | rfl <;> decide
  simp only [he, this, if_true]

theorem numBuf_nosign (expo : Char → Bool) (e d : Char) (t : List Char) (f : Nat) (he : expo e = true)
    (hd : d ≠ '+' ∧ d ≠ '-') :
    numBuf expo (f + 1) (e :: d :: t) = (e :: (numBuf expo f (d :: t)).1, (numBuf expo f (d :: t)).2) := by
  rw [numBuf]
  have : (d == '+' || d == '-') = false := by simp [hd.1, hd.2]
  simp only [he, this, if_true, Bool.false_eq_true, if_false]

/-- a run of digits and dots is swallowed whole -/
theorem numBuf_run (expo : Char → Bool) (ds t : List Char)
    (hds : ∀ c ∈ ds, expo c = false ∧ (isXDigit c || c == '.') = true) (F : Nat) (hF : ds.length ≤ F) :
    numBuf expo F (ds ++ t) =
      (ds ++ (numBuf expo (F - ds.length) t).1, (numBuf expo (F - ds.length) t).2) := by
  induction ds generalizing F with
  | nil => simp
  | cons c cs ih =>
    obtain ⟨h1, h2⟩ := hds c (by simp)
    obtain ⟨F', rfl⟩ : ∃ F', F = F' + 1 := ⟨F - 1, by simp at hF; omega⟩
    have e : F' + 1 - (c :: cs).length = F' - cs.length := by simp
    rw [e, List.cons_append, numBuf_plain expo c _ _ h1 h2,
      ih (fun x hx => hds x (by simp [hx])) F' (by simpa using hF)]
    rfl

/-- a character at which the numeral scan stops without taking it -/
structure Stopper (h : Bool) (d : Char) : Prop where
  noexp : isExpC h d = false
  nox : isXDigit d = false
  nodot : d ≠ '.'
  noalpha : isAlpha d = false

theorem stopper_of (h : Bool) (d : Char) (h1 : isAlnum d = false) (h2 : d ≠ '.') : Stopper h d := by
  obtain ⟨a1, _, a3, e1, e2, e3, e4, _, _⟩ := not_alnum_facts d h1
  refine ⟨?_, a3, h2, a1⟩
  cases h <;> simp [isExpC, e1, e2, e3, e4]

theorem dig_plain (h : Bool) (c : Char) (hc : dig h c = true) :
    isExpC h c = false ∧ (isXDigit c || c == '.') = true := by
  refine ⟨?_, by simp [dig_xdigit h c hc]⟩
  cases hh : isExpC h c with
  | false => rfl
  | true => rw [(mark_not_dig h c hh).1] at hc; cases hc

theorem digit_plain (h : Bool) (c : Char) (hc : isDigit c = true) :
    isExpC h c = false ∧ (isXDigit c || c == '.') = true := by
  refine ⟨?_, by simp [digit_xdigit c hc]⟩
  cases hh : isExpC h c with
  | false => rfl
  | true =>
    rcases mark_cases h c hh with ⟨_, rfl | rfl⟩ | ⟨_, rfl | rfl⟩ <;> revert hc <;> decide

theorem dot_plain (h : Bool) : isExpC h '.' = false ∧ (isXDigit '.' || '.' == '.') = true := by
  cases h <;> decide

/-- the exponent part followed by a stopper -/
theorem numBuf_exS (h : Bool) (m : Char) (sg : List Char) (ex : Option (Bool × List Char)) (d : Char)
    (t : List Char) (hm : isExpC h m = true)
    (hex : ∀ neg ds, ex = some (neg, ds) → SignOK sg neg ∧ ds ≠ [] ∧ ∀ c ∈ ds, isDigit c = true)
    (hd : Stopper h d) (F : Nat) (hF : (exS m sg ex).length < F) :
    numBuf (isExpC h) F (exS m sg ex ++ d :: t) = (exS m sg ex, d :: t) := by
  have hstop : ∀ F, 0 < F → numBuf (isExpC h) F (d :: t) = ([], d :: t) := by
    intro F hF
    obtain ⟨F', rfl⟩ : ∃ F', F = F' + 1 := ⟨F - 1, by omega⟩
    exact numBuf_stop _ d t F' hd.noexp hd.nox hd.nodot hd.noalpha
  cases ex with
  | none => simp only [exS, List.nil_append]; exact hstop F (by omega)
  | some nd =>
    obtain ⟨neg, ds⟩ := nd
    obtain ⟨hs, hne, hds⟩ := hex neg ds rfl
    have hrun : ∀ F, ds.length < F → numBuf (isExpC h) F (ds ++ d :: t) = (ds, d :: t) := by
      intro F hF
      rw [numBuf_run _ ds _ (fun c hc => digit_plain h c (hds c hc)) F (by omega), hstop _ (by omega)]
      simp
    obtain ⟨F', rfl⟩ : ∃ F', F = F' + 1 := ⟨F - 1, by omega⟩
    rcases hs with ⟨rfl, _⟩ | ⟨rfl, _⟩ | ⟨rfl, _⟩
    · cases ds with
      | nil => exact absurd rfl hne
      | cons d0 ds' =>
        have hns := digit_not_sign d0 (hds d0 (by simp))
        simp only [exS, List.nil_append, List.cons_append, List.length_cons] at hF ⊢
        rw [numBuf_nosign _ m d0 _ _ hm hns]
        have := hrun F' (by simp; omega)
        simp only [List.cons_append] at this
        rw [this]
    · simp only [exS, List.cons_append, List.nil_append, List.length_cons] at hF ⊢
      rw [numBuf_sign _ m '+' _ _ hm (Or.inl rfl), hrun F' (by omega)]
    · simp only [exS, List.cons_append, List.nil_append, List.length_cons] at hF ⊢
      rw [numBuf_sign _ m '-' _ _ hm (Or.inr rfl), hrun F' (by omega)]

/-- the whole body `ip . fp e±ds` of a well-formed numeral followed by a stopper: `numBuf` returns
exactly the body (any fuel above its length) -/
theorem numBuf_body (n : Numeral) (m : Char) (sg : List Char) (wf : NumWF n m sg) (d : Char) (t : List Char)
    (hd : Stopper n.hex d) (F : Nat) (hF : (n.ip ++ dotS n.fp ++ exS m sg n.ex).length < F) :
    numBuf (isExpC n.hex) F (n.ip ++ dotS n.fp ++ exS m sg n.ex ++ d :: t) =
      (n.ip ++ dotS n.fp ++ exS m sg n.ex, d :: t) := by
  obtain ⟨hip, hfp, hm, hex, _⟩ := wf
  have hplain : ∀ c ∈ n.ip ++ dotS n.fp, isExpC n.hex c = false ∧ (isXDigit c || c == '.') = true := by
    intro c hc
    simp only [List.mem_append] at hc
    rcases hc with hc | hc
    · exact dig_plain _ c (hip c hc)
    · cases hfp' : n.fp with
      | none => simp [hfp', dotS] at hc
      | some fp =>
        simp only [hfp', dotS, List.mem_cons] at hc
        rcases hc with rfl | hc
        · exact dot_plain _
        · exact dig_plain _ c (hfp fp hfp' c hc)
  simp only [List.length_append] at hF
  rw [List.append_assoc (n.ip ++ dotS n.fp), numBuf_run _ _ _ hplain F (by simp only [List.length_append]; omega),
    numBuf_exS n.hex m sg n.ex d t hm hex hd _ (by simp only [List.length_append]; omega)]

/-! ## canonical numerals -/

/-- `n` with exponent sign text `sg` is a numeral in the shape `numberStr` prints: well formed, with a
non-empty integer part and, when there is a dot, a non-empty fraction -/
structure CanonNum (n : Numeral) (sg : List Char) : Prop where
  wf : NumWF n (stdMark n.hex) sg
  ip_ne : n.ip ≠ []
  fp_ne : ∀ f, n.fp = some f → f ≠ []

/-- `a` is `D+`, `D+.D+`, each optionally followed by `e[+-]?D+`; or `0xH+`, `0xH+.H+`, each optionally
followed by `p[+-]?D+` -/
def CanonNumeral (a : List Char) : Prop :=
  ∃ n sg, CanonNum n sg ∧ a = numText n 'x' (stdMark n.hex) sg

/-- the numeral that `numberStr` prints (`canon n`) has the canonical shape -/
theorem canonNum_canon (n : Numeral) (m : Char) (sg : List Char) (wf : NumWF n m sg) : CanonNum (canon n) sg := by
  refine ⟨canon_wf n m sg wf, ?_, ?_⟩
  · simp only [canon]
    split
    · simp
    · rename_i hne
      intro h
      apply hne
      simpa using h
  · intro f hf
    simp only [canon] at hf
    cases hfp : n.fp with
    | none => simp [hfp] at hf
    | some f0 =>
      simp only [hfp, Option.bind_some, optStr] at hf
      split at hf
      · cases hf
      · rename_i hne
        simp only [Option.some.injEq] at hf
        subst hf
        intro h
        apply hne
        simp [h]

/-- the numeral `numberStr` prints for a scanned tuple is canonical -/
theorem canonNumeral_numberStr (n : Numeral) (m : Char) (sg : List Char) (wf : NumWF n m sg) :
    CanonNumeral (numberStr (tupleOf n sg)) :=
  ⟨canon n, sg, canonNum_canon n m sg wf, numberStr_tupleOf n m sg wf⟩

theorem getLast?_append_some (x y : List Char) (l : Char) (h : y.getLast? = some l) :
    (x ++ y).getLast? = some l := by
  rw [List.getLast?_append, h]; rfl

/-- last character of the body is alphanumeric -/
theorem body_last (n : Numeral) (sg : List Char) (hc : CanonNum n sg) :
    ∃ l, (n.ip ++ dotS n.fp ++ exS (stdMark n.hex) sg n.ex).getLast? = some l ∧ isAlnum l = true := by
  obtain ⟨hip, hfp, hm, hex, _⟩ := hc.wf
  cases hex' : n.ex with
  | some nd =>
    obtain ⟨neg, ds⟩ := nd
    obtain ⟨_, hne, hds⟩ := hex neg ds hex'
    obtain ⟨l, hl, hal⟩ := getLast?_all (fun x => isDigit x = true) ds hne hds
    refine ⟨l, ?_, digit_alnum l hal⟩
    apply getLast?_append_some
    show ([stdMark n.hex] ++ (sg ++ ds)).getLast? = some l
    exact getLast?_append_some _ _ l (getLast?_append_some _ _ l hl)
  | none =>
    simp only [exS, List.append_nil]
    cases hfp' : n.fp with
    | some f =>
      obtain ⟨l, hl, hal⟩ := getLast?_all (fun x => dig n.hex x = true) f (hc.fp_ne f hfp') (hfp f hfp')
      refine ⟨l, ?_, xdigit_isAlnum l (dig_xdigit _ l hal)⟩
      apply getLast?_append_some
      show (['.'] ++ f).getLast? = some l
      exact getLast?_append_some _ _ l hl
    | none =>
      obtain ⟨l, hl, hal⟩ := getLast?_all (fun x => dig n.hex x = true) n.ip hc.ip_ne hip
      refine ⟨l, ?_, xdigit_isAlnum l (dig_xdigit _ l hal)⟩
      simpa [dotS] using hl

theorem expoHex_eq : expoHex = isExpC true := by
  funext c; simp [isExpC, expoHex]

theorem expoDec_eq : expoDec = isExpC false := by
  funext c; simp [isExpC, expoDec]

/-- the text of a canonical numeral: its first character is a digit, its last one alphanumeric -/
theorem canon_ends (n : Numeral) (sg : List Char) (hc : CanonNum n sg) :
    (∃ f0, (numText n 'x' (stdMark n.hex) sg).head? = some f0 ∧ isDigit f0 = true) ∧
    (∃ l, (numText n 'x' (stdMark n.hex) sg).getLast? = some l ∧ isAlnum l = true) := by
  obtain ⟨l, hl, hal⟩ := body_last n sg hc
  constructor
  · cases hh : n.hex with
    | true => exact ⟨'0', by simp [numText, hh], by decide⟩
    | false =>
      cases hip : n.ip with
      | nil => exact absurd hip hc.ip_ne
      | cons c ip' =>
        refine ⟨c, by simp [numText, hh, hip], ?_⟩
        have := hc.wf.ip_dig c (by simp [hip])
        rw [hh] at this
        exact this
  · refine ⟨l, ?_, hal⟩
    unfold numText
    rw [List.append_assoc, List.append_assoc]
    apply getLast?_append_some
    rw [← List.append_assoc]
    exact hl

/-- NUMERALS: with the separator removed, the reference lexer's numeral scan at `a ++ b ++ rest` hands
exactly `a` to `parseNumeral` (which accepts it) and continues at `b ++ rest` -/
theorem numeral_scan (n : Numeral) (sg : List Char) (hc : CanonNum n sg) (b rest : List Char)
    (h : sepRequired (numText n 'x' (stdMark n.hex) sg) b = .ok false) :
    ∃ c cs, numText n 'x' (stdMark n.hex) sg ++ b ++ rest = c :: cs ∧ isDigit c = true ∧
      numScan c cs = (numText n 'x' (stdMark n.hex) sg, b ++ rest) := by
  obtain ⟨l, d, t, f0, hl, rfl, hf, hn⟩ := noSep_of_sepRequired' _ _ h
  obtain ⟨⟨f0', hf', hdig⟩, ⟨l', hl', hal⟩⟩ := canon_ends n sg hc
  rw [hl] at hl'; rw [hf] at hf'
  simp only [Option.some.injEq] at hl' hf'
  subst hl' hf'
  have hd1 : isAlnum d = false := hn.word hal
  have hd2 : d ≠ '.' := hn.numdot hdig
  have hstop : Stopper n.hex d := stopper_of _ d hd1 hd2
  have hbody := fun F hF => numBuf_body n (stdMark n.hex) sg hc.wf d (t ++ rest) hstop F hF
  cases hh : n.hex with
  | true =>
    rw [hh] at hbody
    refine ⟨'0', 'x' :: (n.ip ++ dotS n.fp ++ exS (stdMark true) sg n.ex ++ d :: (t ++ rest)), ?_, by decide, ?_⟩
    · simp [numText, hh]
    · unfold numScan hexTail
      simp only [show ('0' == '0') = true by decide, show ('x' == 'x' || 'x' == 'X') = true by decide, if_true]
      rw [expoHex_eq, hbody _ (by simp only [List.length_append, List.length_cons]; omega)]
      simp [numText, hh]
  | false =>
    rw [hh] at hbody
    have hnx := dec_no_x n (stdMark n.hex) sg hc.wf hh
    rw [hh] at hnx
    have e0 : numText n 'x' (stdMark false) sg = n.ip ++ dotS n.fp ++ exS (stdMark false) sg n.ex := by
      simp [numText, hh]
    rw [e0]
    cases hip : n.ip with
    | nil => exact absurd hip hc.ip_ne
    | cons c ip' =>
      have hcd : isDigit c = true := by
        have := hc.wf.ip_dig c (by simp [hip])
        rw [hh] at this
        exact this
      rw [hip] at hbody hnx
      refine ⟨c, ip' ++ dotS n.fp ++ exS (stdMark false) sg n.ex ++ d :: (t ++ rest), by simp, hcd, ?_⟩
      -- no `0x` decision: the second character is not `x`
      have hx : ∀ x r, ip' ++ dotS n.fp ++ exS (stdMark false) sg n.ex ++ d :: (t ++ rest) = x :: r →
          (x == 'x' || x == 'X') = false := by
        intro x r heq
        have hmem : x ∈ (c :: ip' ++ dotS n.fp ++ exS (stdMark false) sg n.ex) ∨ x = d := by
          cases hb : ip' ++ dotS n.fp ++ exS (stdMark false) sg n.ex with
          | nil => rw [hb] at heq; simp only [List.nil_append, List.cons.injEq] at heq; exact Or.inr heq.1.symm
          | cons y ys =>
            rw [hb] at heq
            simp only [List.cons_append, List.cons.injEq] at heq
            left
            have : c :: ip' ++ dotS n.fp ++ exS (stdMark false) sg n.ex = c :: y :: ys := by
              simp only [List.cons_append, List.cons.injEq, true_and]; exact hb
            rw [this, ← heq.1]; simp
        rcases hmem with hm | rfl
        · have := hnx x hm; simp [this.1, this.2]
        · obtain ⟨_, _, _, _, _, _, _, e5, e6⟩ := not_alnum_facts x hd1
          simp [e5, e6]
      have hht : hexTail c (ip' ++ dotS n.fp ++ exS (stdMark false) sg n.ex ++ d :: (t ++ rest)) = none := by
        unfold hexTail
        split
        · split
          · rename_i x r heq; rw [hx x r heq]; rfl
          · rfl
        · rfl
      unfold numScan
      rw [hht]
      simp only
      have e1 : c :: (ip' ++ dotS n.fp ++ exS (stdMark false) sg n.ex ++ d :: (t ++ rest)) =
          c :: ip' ++ dotS n.fp ++ exS (stdMark false) sg n.ex ++ d :: (t ++ rest) := by simp
      rw [e1, expoDec_eq, hbody _ (by simp only [List.length_append, List.length_cons]; omega)]
      simp

/-- ... so the reference lexer emits the numeral's token and goes on at `b ++ rest` -/
theorem numeral_lexOne (n : Numeral) (sg : List Char) (hc : CanonNum n sg) (b rest : List Char)
    (h : sepRequired (numText n 'x' (stdMark n.hex) sg) b = .ok false) :
    lexOne (numText n 'x' (stdMark n.hex) sg ++ b ++ rest) = some (.num n, b ++ rest) := by
  obtain ⟨c, cs, e, hd, hs⟩ := numeral_scan n sg hc b rest h
  have hp := parseNumeral_build n 'x' (stdMark n.hex) sg hc.wf (Or.inl rfl)
  have ha : isAlpha c = false := by
    cases hh : isAlpha c with
    | false => rfl
    | true => rw [(alpha_class c hh).2.2.2.2.1] at hd; cases hd
  rw [e]
  unfold lexOne
  simp only [ha, hd, hs, hp, Bool.true_or, Bool.false_eq_true, if_false, if_true, Option.map_some]

/-- the statement in the form of the task: for a canonical numeral `a` and `sepRequired a b = .ok false`,
the scan returns `(a, b ++ rest)` and `parseNumeral a` succeeds -/
theorem numeral_boundary (a b rest : List Char) (ha : CanonNumeral a) (h : sepRequired a b = .ok false) :
    ∃ c cs nm, a ++ b ++ rest = c :: cs ∧ isDigit c = true ∧ numScan c cs = (a, b ++ rest) ∧
      parseNumeral a = some nm ∧ lexOne (a ++ b ++ rest) = some (.num nm, b ++ rest) := by
  obtain ⟨n, sg, hc, rfl⟩ := ha
  obtain ⟨c, cs, e, hd, hs⟩ := numeral_scan n sg hc b rest h
  exact ⟨c, cs, n, e, hd, hs, parseNumeral_build n 'x' (stdMark n.hex) sg hc.wf (Or.inl rfl),
    numeral_lexOne n sg hc b rest h⟩

/-- the separator IS kept between a numeral and a following `.` / `..` / `...` -/
theorem numeral_dot_sep_kept (a : List Char) (ha : CanonNumeral a) (t : List Char) :
    sepRequired a ('.' :: t) = .ok true := by
  obtain ⟨n, sg, hc, rfl⟩ := ha
  obtain ⟨⟨f0, hf, hdig⟩, ⟨l, hl, _⟩⟩ := canon_ends n sg hc
  apply sepRequired_true_of _ _ l '.' f0 hl rfl hf
  simp only [sepBool, digits_contains, hdig]
  simp

/-- ... and between a numeral and anything that starts with a word character -/
theorem numeral_word_sep_kept (a : List Char) (ha : CanonNumeral a) (d : Char) (t : List Char)
    (hd : isAlnum d = true) : sepRequired a (d :: t) = .ok true := by
  obtain ⟨n, sg, hc, rfl⟩ := ha
  obtain ⟨⟨f0, hf, _⟩, ⟨l, hl, hal⟩⟩ := canon_ends n sg hc
  exact alnum_sep_kept _ _ l d f0 hl rfl hf hal hd

end Tumfl.Theory
