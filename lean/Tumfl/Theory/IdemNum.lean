import Tumfl.Theory.IdemNumStream
import Tumfl.Theory.IdemNumParse
import Tumfl.Theory.IdemNumLex
import Tumfl.Theory.IdemNumLay
import Tumfl.Theory.IdemNumEmit
import Tumfl.Theory.IdemExists
/-!
# C15, numerals: the re-parsed tree spells its numerals as the first tree does

`reparse_nums`: the numerals of `parse (format b)` print as the numerals of `b`, in order.  The spelling of an exponent sign
(`1e5` / `1e+5`) is invisible in the reference tokens, so it is followed through the text:
numeral leaves of `b` = numeral pieces of `emit` (`numStrP_emit`) = numeral pieces behind `removeSeparators`
(`numStrP_softDrop`) = numeral items of the layout of the text (`format_lex_rs_num`) = what the NUMBER tokens of the model
lexer print on that text (`munlex_nums`; needs the printer's own spelling `StrongCanon`, which every scanned numeral has:
`getNextToken_strong`) = the numeral leaves of the re-parsed tree (`parseText_nums`, twice, and `numT_streams`).
-/
namespace Tumfl.Theory
open Tumfl Tumfl.Model

theorem reads_strong {cfg : LexCfg} : ∀ {l l' : LexSt} {toks : List Token}, Reads cfg l toks l' →
    ∀ t ∈ toks, ∀ n, tokNum t = some n → StrongCanon (numberStr n)
  | _, _, [], _, _, ht, _, _ => by cases ht
  | l, l', t :: toks, h, x, hx, n, hn => by
    obtain ⟨l1, h1, h2⟩ := Reads.cons_inv h
    rcases List.mem_cons.mp hx with rfl | hx
    · exact getNextToken_strong h1 n hn
    · exact reads_strong h2 x hx n hn

/-- every numeral of a parsed tree prints in the printer's own spelling -/
theorem parseText_strong (src : List Char) (b : Block) (hs : List Hint) (h : parseText src = .ok (b, hs)) :
    ∀ n ∈ numsBlock b, StrongCanon (numberStr n) := by
  obtain ⟨consumed, c, n0, l', hr, _, hnum⟩ := parseText_nums src b hs h
  intro n hn
  rw [hnum] at hn
  unfold numT at hn
  obtain ⟨t, ht, htn⟩ := List.mem_filterMap.mp hn
  exact reads_strong hr t (List.mem_append_left _ ht) n htn

theorem mem_itemTks {a : List Char} {tk : Spec.Tk} {is : List LItem} (h : LItem.tok a tk ∈ is) : tk ∈ itemTks is := by
  unfold itemTks
  exact List.mem_flatMap.mpr ⟨_, h, by simp [LItem.tks]⟩

theorem mem_numItems_of {a : List Char} {m : Spec.Numeral} {is : List LItem} (h : LItem.tok a (.num m) ∈ is) :
    a ∈ numItems is := by
  unfold numItems
  exact List.mem_filterMap.mpr ⟨_, h, rfl⟩

/-- **the numerals survive the round trip textually** -/
theorem reparse_nums (sty : Style) (hd : DocStyle sty) (hic : sty.includeComments = false) (hw : sty.lineWidth = 0)
    (hr : sty.removeUnnecessaryChars = true) (src t1 : List Char) (b : Block) (hs : List Hint)
    (hp : parseText src = .ok (b, hs)) (h1 : format sty b = .ok t1) (b' : Block) (hs' : List Hint)
    (hp' : parseText t1 = .ok (b', hs')) :
    (numsBlock b').map numberStr = (numsBlock b).map numberStr := by
  have hpr := parseText_printable src b hs hp
  have hn := parseText_numsCanon src b hs hp
  have hcm := comments_tidy_of_tree sty b (TreeWF_of_Printable hpr) (.inl hic)
  obtain ⟨ts1, core, hrs, hdisc, hlwf, hren, hsh, hrd, hni⟩ := format_lex_rs_num sty hd b hpr hn hcm hw hr t1 h1
  have hnums : numItems core = (numsBlock b).map numberStr := by
    rw [hni, ← numStrP_softDrop (removeSeparators_softDrop hrs), numStrP_emit sty hic b hpr]
  have hstrong := parseText_strong src b hs hp
  obtain ⟨mts, e1, e2, l2, hr2, hm, he1, _, hmn⟩ := munlex_nums core hlwf (by rw [hren]; exact hsh)
    (fun a tk hit => reading_inScope hdisc hrd tk (mem_itemTks hit))
    (fun a m hit => by
      have ha := mem_numItems_of hit
      rw [hnums] at ha
      obtain ⟨n, hn', rfl⟩ := List.mem_map.mp ha
      exact hstrong n hn')
  rw [hren] at hr2
  obtain ⟨consumed, c, n0, l1, hr1, hc, hcn⟩ := parseText_nums t1 b' hs' hp'
  rw [hcn, numT_streams hr1 hc hr2 hm he1 (fun h ht => reads_after_eof h ht), hmn, hnums]

end Tumfl.Theory

