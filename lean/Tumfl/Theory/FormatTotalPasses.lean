import Tumfl.Theory.FormatTotalDefs
import Tumfl.Theory.IdemPipe2
import Tumfl.Theory.FormatTextIB
import Tumfl.Theory.FormatTextAS
/-!
# `format` returns: the passes other than `indent_brackets`

* `removeSeparators_total`: no empty text piece, so `sep_required` never indexes an empty string; `search_token` always finds
  the dummy piece;
* `addSpacing_total`: the fuel of the model's recursion always suffices;
* the invariants `indBal` / `argOK` / `hasStrB` through `SoftDrop`, `Lay`, `InsNl`, `removeOrphaned`;
* `resolve_indent_total`: `resolve_tokens` finds a piece behind every Argument separator and `indent` ends at level 0.
-/
namespace Tumfl.Theory
namespace TotP
open Tumfl Tumfl.Model

/-! ## the invariants over `++` -/

theorem indBal_append : ∀ (a b : Pieces), indBal (a ++ b) = indBal a + indBal b
  | [], b => by simp [indBal]
  | .str s :: a, b => by simp only [List.cons_append, indBal, indBal_append a b]
  | .sep k :: a, b => by
    cases k <;> simp only [List.cons_append, indBal, indBal_append a b] <;> omega

theorem hasStrB_append : ∀ (a b : Pieces), hasStrB (a ++ b) = (hasStrB a || hasStrB b)
  | [], b => by simp [hasStrB]
  | .str s :: a, b => by simp only [List.cons_append, hasStrB, hasStrB_append a b, Bool.or_assoc]
  | .sep k :: a, b => by simp only [List.cons_append, hasStrB, hasStrB_append a b]

theorem argOK_sep {k : Sep} (hk : k ≠ .argument) (r : Pieces) : argOK (.sep k :: r) = argOK r := by
  cases k <;> first | rfl | exact absurd rfl hk

theorem indBal_sep {k : Sep} (h1 : k ≠ .indent) (h2 : k ≠ .deindent) (r : Pieces) : indBal (.sep k :: r) = indBal r := by
  cases k <;> first | rfl | exact absurd rfl h1 | exact absurd rfl h2

/-! ## `removeSeparators` -/

theorem sepRequired_ok {a b : List Char} (ha : a ≠ []) (hb : b ≠ []) : ∃ r, sepRequired a b = .ok r :=
  ⟨_, sepRequired_eq a b ha hb⟩

theorem rs_total : ∀ (xs rp : Pieces), (∀ s, Piece.str s ∈ xs → s ≠ []) → (∀ s, Piece.str s ∈ rp → s ≠ []) →
    ∃ out, removeSepsFrom rp xs = .ok out
  | [], rp, _, _ => ⟨_, by rw [removeSepsFrom]⟩
  | x :: xs, rp, hxs, hrp => by
    obtain ⟨suf, hs⟩ := rs_total xs (x :: rp) (fun s h => hxs s (List.mem_cons_of_mem _ h))
      (fun s h => by
        rcases List.mem_cons.mp h with e | h
        · exact hxs s (by rw [← e]; exact List.mem_cons_self)
        · exact hrp s h)
    cases hk : keepRS x
    · rw [rs_soft hk, hs]
      obtain ⟨body, rfl, hsd⟩ := rs_softDrop _ _ _ hs
      obtain ⟨q, hq, hqm⟩ := searchFwd_snoc body
      show ∃ out, softDec x rp (body ++ [P "/"]) = .ok out
      unfold softDec
      rw [hq]
      show ∃ out, softDec2 x rp (body ++ [P "/"]) q = .ok out
      unfold softDec2
      cases hb : searchBwd rp with
      | sep k => exact ⟨_, rfl⟩
      | str a =>
        cases q with
        | sep k => exact ⟨_, rfl⟩
        | str b =>
          have ha : a ≠ [] := by
            rcases searchBwd_mem rp a hb with rfl | hm
            · decide
            · exact hrp a hm
          have hbn : b ≠ [] := by
            rcases List.mem_append.mp hqm with hm | hm
            · exact hxs b (List.mem_cons_of_mem _ (softDrop_mem hsd _ hm))
            · simp only [List.mem_singleton, P, Piece.str.injEq] at hm
              rw [hm]; decide
          obtain ⟨r, hr⟩ := sepRequired_ok ha hbn
          simp only [hr]
          cases r <;> exact ⟨_, rfl⟩
    · rw [rs_hard hk, hs]; exact ⟨_, rfl⟩

theorem removeSeparators_total (ts : Pieces) (h : ∀ s, Piece.str s ∈ ts → s ≠ []) : ∃ ts', removeSeparators ts = .ok ts' := by
  cases ts with
  | nil => exact ⟨[], rfl⟩
  | cons x0 xs =>
    obtain ⟨suf, hs⟩ := rs_total xs [x0] (fun s hm => h s (List.mem_cons_of_mem _ hm))
      (fun s hm => by
        simp only [List.mem_singleton] at hm
        exact h s (by rw [← hm]; exact List.mem_cons_self))
    exact ⟨_, by simp only [removeSeparators, hs]; rfl⟩

/-! ## the invariants through `SoftDrop` -/

theorem softDrop_hasStrB {a b : Pieces} (h : SoftDrop a b) : hasStrB b = hasStrB a := by
  induction h with
  | nil => rfl
  | keep p _ ih => cases p <;> simp only [hasStrB, ih]
  | drop hx _ ih =>
    rcases keepRS_eq_false.mp hx with rfl | rfl | rfl <;> simpa [S, hasStrB] using ih

theorem softDrop_argOK {a b : Pieces} (h : SoftDrop a b) : argOK b = argOK a := by
  induction h with
  | nil => rfl
  | @keep p a b hab ih =>
    cases p with
    | str s => simp only [argOK, ih]
    | sep k =>
      by_cases hk : k = .argument
      · subst hk; simp only [argOK, ih, softDrop_hasStrB hab]
      · rw [argOK_sep hk, argOK_sep hk, ih]
  | drop hx _ ih =>
    rcases keepRS_eq_false.mp hx with rfl | rfl | rfl <;> simpa [S, argOK] using ih

theorem softDrop_indBal {a b : Pieces} (h : SoftDrop a b) : indBal b = indBal a := by
  induction h with
  | nil => rfl
  | keep p _ ih =>
    cases p with
    | str s => simp only [indBal, ih]
    | sep k => cases k <;> simp only [indBal, ih]
  | drop hx _ ih =>
    rcases keepRS_eq_false.mp hx with rfl | rfl | rfl <;> simpa [S, indBal] using ih

theorem softDrop_strsOK {a b : Pieces} (h : SoftDrop a b) (ha : StrsOK a) : StrsOK b :=
  fun s hs => ha s (softDrop_mem h _ hs)

/-! ## the invariants through `InsNl` (`add_spacing`) -/

theorem insNl_hasStrB {a b : Pieces} (h : InsNl a b) : hasStrB b = hasStrB a := by
  induction h with
  | nil => rfl
  | keep p _ ih => cases p <;> simp only [hasStrB, ih]
  | ins _ ih => simpa [hasStrB] using ih

theorem insNl_argOK {a b : Pieces} (h : InsNl a b) : argOK b = argOK a := by
  induction h with
  | nil => rfl
  | @keep p a b hab ih =>
    cases p with
    | str s => simp only [argOK, ih]
    | sep k =>
      by_cases hk : k = .argument
      · subst hk; simp only [argOK, ih, insNl_hasStrB hab]
      · rw [argOK_sep hk, argOK_sep hk, ih]
  | ins _ ih => simpa [argOK] using ih

theorem insNl_indBal {a b : Pieces} (h : InsNl a b) : indBal b = indBal a := by
  induction h with
  | nil => rfl
  | keep p _ ih =>
    cases p with
    | str s => simp only [indBal, ih]
    | sep k => cases k <;> simp only [indBal, ih]
  | ins _ ih => simpa [indBal] using ih

/-! ## the invariants through `Lay` (`indent_brackets`) -/

theorem hasStrB_replicate_nl (n : Nat) (G : Pieces) : hasStrB (List.replicate n (.sep .newline) ++ G) = hasStrB G := by
  induction n with
  | zero => rfl
  | succ n ih => rw [List.replicate_succ, List.cons_append, hasStrB, ih]

theorem insIn_hasStrB {ps G : Pieces} (h : InsIn ps G) : hasStrB ps = true → hasStrB G = true := by
  induction h with
  | one p => exact id
  | step p n _ ih =>
    intro hp
    cases p with
    | str s =>
      simp only [hasStrB, Bool.or_eq_true] at hp ⊢
      rcases hp with hp | hp
      · exact .inl hp
      · exact .inr (by rw [hasStrB_replicate_nl]; exact ih hp)
    | sep k =>
      simp only [hasStrB] at hp ⊢
      rw [hasStrB_replicate_nl]; exact ih hp

theorem stringIdent_hasStrB {q : List Char} {ind : Int} {sty : Style} {ps : Pieces}
    (h : stringIdent q ind sty = .ok ps) : hasStrB ps = true := by
  obtain ⟨parts, rfl, hq, hne⟩ := stringIdent_parts h
  cases parts with
  | nil =>
    simp only [List.flatten_nil] at hq
    subst hq
    simp [stringIdent] at h
  | cons p rest =>
    have hp : p ≠ [] := hne p List.mem_cons_self
    cases rest with
    | nil =>
      rw [stringIdent.build]
      simp [hasStrB, hp]
    | cons q2 r2 =>
      rw [build_cons_cons]
      simp [hasStrB, hp]

theorem argOK_laySeps : ∀ (W : Pieces), (∀ x ∈ W, LaySep x) → ∀ r, argOK (W ++ r) = argOK r ∧ hasStrB (W ++ r) = hasStrB r
  | [], _, r => ⟨rfl, rfl⟩
  | x :: W, h, r => by
    obtain ⟨h1, h2⟩ := argOK_laySeps W (fun y hy => h y (List.mem_cons_of_mem _ hy)) r
    rcases h x List.mem_cons_self with rfl | rfl | rfl <;> exact ⟨by simpa [argOK] using h1, by simpa [hasStrB] using h2⟩

theorem argOK_noArg : ∀ (G b : Pieces), (∀ x ∈ G, x ≠ .sep .argument) → argOK (G ++ b) = argOK b
  | [], _, _ => rfl
  | x :: G, b, h => by
    have ih := argOK_noArg G b (fun y hy => h y (List.mem_cons_of_mem _ hy))
    cases x with
    | str s => simpa [argOK] using ih
    | sep k => rw [List.cons_append, argOK_sep (fun e => h _ List.mem_cons_self (by rw [e])), ih]

theorem build_noArg : ∀ (parts : List (List Char)), ∀ x ∈ stringIdent.build parts, x ≠ .sep .argument
  | [], x, hx => by rw [stringIdent.build] at hx; cases hx
  | [p], x, hx => by
    rw [stringIdent.build] at hx
    simp only [List.mem_singleton] at hx
    rw [hx]; simp
  | p :: q :: r, x, hx => by
    rw [build_cons_cons] at hx
    rcases List.mem_cons.mp hx with rfl | hx
    · simp
    · rcases List.mem_cons.mp hx with rfl | hx
      · simp [S]
      · exact build_noArg (q :: r) x hx

theorem insIn_noArg {ps G : Pieces} (h : InsIn ps G) : (∀ x ∈ ps, x ≠ .sep .argument) → ∀ x ∈ G, x ≠ .sep .argument := by
  induction h with
  | one p => exact id
  | step p n _ ih =>
    intro hp x hx
    rcases List.mem_cons.mp hx with rfl | hx
    · exact hp _ List.mem_cons_self
    · rcases List.mem_append.mp hx with hx | hx
      · rw [List.eq_of_mem_replicate hx]; simp
      · exact ih (fun y hy => hp y (List.mem_cons_of_mem _ hy)) x hx

theorem lay_argOK {sty : Style} {tc : Bool} {pv : Option Piece} {a b : Pieces} (h : Lay sty tc pv a b) :
    (hasStrB a = true → hasStrB b = true) ∧ (argOK a = true → argOK b = true) := by
  induction h with
  | nil => exact ⟨id, id⟩
  | keep p _ ih =>
    cases p with
    | str s =>
      refine ⟨fun h => ?_, fun h => ?_⟩
      · simp only [hasStrB, Bool.or_eq_true] at h ⊢
        rcases h with h | h
        · exact .inl h
        · exact .inr (ih.1 h)
      · simp only [argOK] at h ⊢; exact ih.2 h
    | sep k =>
      refine ⟨fun h => ?_, fun h => ?_⟩
      · simp only [hasStrB] at h ⊢; exact ih.1 h
      · by_cases hk : k = .argument
        · subst hk
          simp only [argOK, Bool.and_eq_true] at h ⊢
          exact ⟨ih.1 h.1, ih.2 h.2⟩
        · rw [argOK_sep hk] at h ⊢; exact ih.2 h
  | insNl _ ih => exact ⟨fun h => by simpa [hasStrB] using ih.1 h, fun h => by simpa [argOK] using ih.2 h⟩
  | insInd k hk _ _ ih =>
    rcases hk with rfl | rfl <;>
      exact ⟨fun h => by simpa [hasStrB] using ih.1 h, fun h => by simpa [argOK] using ih.2 h⟩
  | comma W _ _ hW _ ih =>
    refine ⟨fun _ => ?_, fun h => ?_⟩
    · simp only [hasStrB]
      rw [(argOK_laySeps W hW _).2]
      simp [hasStrB]
    · simp only [argOK, Bool.and_eq_true] at h ⊢
      rw [(argOK_laySeps W hW _).2, (argOK_laySeps W hW _).1]
      exact ⟨by simp [hasStrB], by simp only [argOK]; exact ih.2 h⟩
  | dropArg o _ _ ih =>
    refine ⟨fun _ => by simp [hasStrB], fun h => ?_⟩
    simp only [argOK, Bool.and_eq_true] at h ⊢
    exact ih.2 h.2
  | wrap q ind ps G hs hi _ ih =>
    have hG := insIn_hasStrB hi (stringIdent_hasStrB hs)
    refine ⟨fun _ => by rw [hasStrB_append, hG]; rfl, fun h => ?_⟩
    simp only [argOK] at h
    obtain ⟨parts, rfl, _, _⟩ := stringIdent_parts hs
    rw [argOK_noArg G _ (insIn_noArg hi (build_noArg parts))]
    exact ih.2 h

/-! ## `add_spacing` -/

/-- the fuel of `__inner_add_spacing` suffices: every call advances the index, and a nested call returns an index that is not
smaller than the one it was started at -/
theorem innerAddSpacing_total (ts : Array Piece) (spacer : Nat) : ∀ (f index : Nat) (lastStmt : Option Nat)
    (total current : Nat) (toAdd : List Nat), (ts.size + 1 - index) + 1 ≤ f →
    ∃ r, innerAddSpacing ts spacer f index lastStmt total current toAdd = .ok r ∧ index ≤ r.1
  | 0, _, _, _, _, _, h => by omega
  | f + 1, index, lastStmt, total, current, toAdd, h => by
    unfold innerAddSpacing
    split
    · rename_i hlt
      split
      · obtain ⟨r1, h1, hi1⟩ := innerAddSpacing_total ts spacer f (index + 1) none 0 0 toAdd (by omega)
        obtain ⟨i1, n1, t1⟩ := r1
        simp only at hi1
        obtain ⟨r2, h2, hi2⟩ := innerAddSpacing_total ts spacer f (i1 + 1) lastStmt total (current + n1) t1 (by omega)
        refine ⟨r2, ?_, by omega⟩
        rw [h1]
        exact h2
      · exact ⟨_, rfl, Nat.le_refl _⟩
      · obtain ⟨r, hr, hi⟩ := innerAddSpacing_total ts spacer f (index + 1) lastStmt total (current + 1) toAdd (by omega)
        exact ⟨r, hr, by omega⟩
      · obtain ⟨r, hr, hi⟩ := innerAddSpacing_total ts spacer f (index + 1) lastStmt total _ toAdd (by omega)
        exact ⟨r, hr, by omega⟩
      · obtain ⟨r, hr, hi⟩ := innerAddSpacing_total ts spacer f (index + 1) (some index) _ 0 _ (by omega)
        exact ⟨r, hr, by omega⟩
      · obtain ⟨r, hr, hi⟩ := innerAddSpacing_total ts spacer f (index + 1) lastStmt total current toAdd (by omega)
        exact ⟨r, hr, by omega⟩
    · exact ⟨_, rfl, Nat.le_refl _⟩

theorem addSpacing_total (ts : Pieces) (sty : Style) : ∃ ts', addSpacing ts sty = .ok ts' := by
  obtain ⟨⟨i, n, toAdd⟩, hr, _⟩ := innerAddSpacing_total ts.toArray sty.blockSpacer (2 * ts.length + 2) 0 none 0 0 []
    (by simp; omega)
  exact ⟨_, by simp only [addSpacing, hr]; rfl⟩

/-! ## `__remove_orphaned_tokens` -/

theorem ro_step (rp : Pieces) (x : Piece) (xs : Pieces) :
    removeOrphanedFrom rp (x :: xs) = x :: removeOrphanedFrom (x :: rp) xs ∨
    ((x = .str [] ∨ x = .sep .statement) ∧ removeOrphanedFrom rp (x :: xs) = removeOrphanedFrom (x :: rp) xs) := by
  rw [removeOrphanedFrom.eq_def]
  simp only
  split
  · rename_i h
    exact .inr ⟨.inl (by simpa using h), rfl⟩
  · split
    · rename_i h
      have hx : x = .sep .statement := by simpa using h
      split
      · exact .inr ⟨.inr hx, rfl⟩
      · split
        · exact .inr ⟨.inr hx, rfl⟩
        · exact .inl rfl
    · exact .inl rfl

theorem ro_inv : ∀ (xs rp : Pieces), argOK (removeOrphanedFrom rp xs) = argOK xs ∧
    hasStrB (removeOrphanedFrom rp xs) = hasStrB xs ∧ indBal (removeOrphanedFrom rp xs) = indBal xs
  | [], rp => by rw [removeOrphanedFrom]; exact ⟨rfl, rfl, rfl⟩
  | x :: xs, rp => by
    obtain ⟨h1, h2, h3⟩ := ro_inv xs (x :: rp)
    rcases ro_step rp x xs with e | ⟨hx, e⟩
    · rw [e]
      cases x with
      | str s => exact ⟨by simp only [argOK, h1], by simp only [hasStrB, h2], by simp only [indBal, h3]⟩
      | sep k =>
        refine ⟨?_, by simp only [hasStrB, h2], by cases k <;> simp only [indBal, h3]⟩
        by_cases hk : k = .argument
        · subst hk; simp only [argOK, h1, h2]
        · rw [argOK_sep hk, argOK_sep hk, h1]
    · rw [e]
      rcases hx with rfl | rfl
      · exact ⟨by simp only [argOK, h1], by simp [hasStrB, h2], by simp only [indBal, h3]⟩
      · exact ⟨by simp only [argOK, h1], by simp only [hasStrB, h2], by simp only [indBal, h3]⟩

/-! ## `resolve_tokens` and `indent` -/

theorem hasStrB_ne_nil {ps : Pieces} (h : hasStrB ps = true) : ∃ x r, ps = x :: r := by
  cases ps with
  | nil => cases h
  | cons x r => exact ⟨x, r, rfl⟩

theorem indentLoop_str (ind : List Char) (s : List Char) (r : Pieces) (level : Int) (dirty : Bool) :
    indentLoop ind (.str s :: r) level dirty =
      (do let r' ← indentLoop ind r level (if s.getLast? == some '\n' then true else (if dirty then false else dirty))
          .ok (.str (if dirty then (List.replicate level.toNat ind).flatten ++ s else s) :: r')) := by
  rw [indentLoop]

theorem rt_keep (sty : Style) (blank : Bool) (tok : Piece) (rest : Pieces)
    (h : (∃ s, tok = .str s) ∨ tok = .sep .indent ∨ tok = .sep .deindent) :
    resolveTokensAux sty blank (tok :: rest) = (do let r ← resolveTokensAux sty false rest; .ok (tok :: r)) := by
  rcases h with ⟨s, rfl⟩ | rfl | rfl <;> rw [resolveTokensAux] <;> simp

theorem rt_text (sty : Style) (blank : Bool) (k : Sep) (rest : Pieces) :
    (k = .space → resolveTokensAux sty blank (.sep k :: rest) = (do let r ← resolveTokensAux sty false rest; .ok (P " " :: r))) ∧
    (k = .dot → resolveTokensAux sty blank (.sep k :: rest) = (do let r ← resolveTokensAux sty false rest; .ok (P "." :: r))) ∧
    (k = .statement ∨ k = .block → resolveTokensAux sty blank (.sep k :: rest) =
      (do let r ← resolveTokensAux sty false rest; .ok (.str sty.statementSeparator :: r))) := by
  refine ⟨?_, ?_, ?_⟩
  · rintro rfl; rw [resolveTokensAux]; simp
  · rintro rfl; rw [resolveTokensAux]; simp
  · rintro (rfl | rfl) <;> rw [resolveTokensAux] <;> simp

theorem rt_newline (sty : Style) (blank : Bool) (rest : Pieces) :
    ∃ s b', resolveTokensAux sty blank (.sep .newline :: rest) = (do let r ← resolveTokensAux sty b' rest; .ok (.str s :: r)) := by
  cases blank
  · exact ⟨if sty.statementSeparator.contains '\n' then sty.statementSeparator else ['\n'], true, by
      rw [resolveTokensAux]; simp⟩
  · exact ⟨[], false, by rw [resolveTokensAux]; simp⟩

theorem rt_argument (sty : Style) (blank : Bool) (x : Piece) (rest : Pieces) :
    ∃ s, resolveTokensAux sty blank (.sep .argument :: x :: rest) =
      (do let r ← resolveTokensAux sty false (x :: rest); .ok (.str s :: r)) := by
  refine ⟨if x == .sep .newline then pyRstrip sty.argumentSeparator else sty.argumentSeparator, ?_⟩
  rw [resolveTokensAux]
  by_cases hx : x = .sep .newline <;> simp [hx]

/-- `resolve_tokens` finds a piece behind every Argument separator; afterwards only Indent / DeIndent separators are left, and
`indent` ends at level 0 when they are balanced -/
theorem resolve_indent_total (sty : Style) : ∀ (ts : Pieces) (blank : Bool) (level : Int) (dirty : Bool),
    argOK ts = true → level + indBal ts = 0 →
    ∃ ts6 ts7, resolveTokensAux sty blank ts = .ok ts6 ∧ indentLoop sty.indentation ts6 level dirty = .ok ts7
  | [], blank, level, dirty, _, hl => by
    refine ⟨[], [], by rw [resolveTokensAux], ?_⟩
    rw [indentLoop]
    simp only [indBal, Int.add_zero] at hl
    simp [hl]
  | tok :: rest, blank, level, dirty, ha, hl => by
    -- a piece that resolves to a text piece
    have strCase : ∀ (s : List Char) (b' : Bool), argOK rest = true → level + indBal rest = 0 →
        ∃ r6 ts7, resolveTokensAux sty b' rest = .ok r6 ∧ indentLoop sty.indentation (.str s :: r6) level dirty = .ok ts7 := by
      intro s b' ha' hl'
      obtain ⟨r6, r7, h6, h7⟩ := resolve_indent_total sty rest b' level
        (if s.getLast? == some '\n' then true else (if dirty then false else dirty)) ha' hl'
      exact ⟨r6, _, h6, by rw [indentLoop_str, h7]; rfl⟩
    cases tok with
    | str s =>
      obtain ⟨r6, t7, h6, h7⟩ := strCase s false (by simpa [argOK] using ha) (by simpa [indBal] using hl)
      exact ⟨_, t7, by rw [rt_keep sty blank _ rest (.inl ⟨s, rfl⟩), h6]; rfl, h7⟩
    | sep k =>
      cases k with
      | indent =>
        obtain ⟨r6, r7, h6, h7⟩ := resolve_indent_total sty rest false (level + 1) dirty (by simpa [argOK] using ha)
          (by simp only [indBal] at hl; omega)
        exact ⟨_, _, by rw [rt_keep sty blank _ rest (.inr (.inl rfl)), h6]; rfl, by rw [indentLoop, h7]; rfl⟩
      | deindent =>
        obtain ⟨r6, r7, h6, h7⟩ := resolve_indent_total sty rest false (level - 1) dirty (by simpa [argOK] using ha)
          (by simp only [indBal] at hl; omega)
        exact ⟨_, _, by rw [rt_keep sty blank _ rest (.inr (.inr rfl)), h6]; rfl, by rw [indentLoop, h7]; rfl⟩
      | space =>
        obtain ⟨r6, t7, h6, h7⟩ := strCase " ".toList false (by simpa [argOK] using ha) (by simpa [indBal] using hl)
        exact ⟨_, t7, by rw [(rt_text sty blank .space rest).1 rfl, h6]; rfl, h7⟩
      | dot =>
        obtain ⟨r6, t7, h6, h7⟩ := strCase ".".toList false (by simpa [argOK] using ha) (by simpa [indBal] using hl)
        exact ⟨_, t7, by rw [(rt_text sty blank .dot rest).2.1 rfl, h6]; rfl, h7⟩
      | statement =>
        obtain ⟨r6, t7, h6, h7⟩ := strCase sty.statementSeparator false (by simpa [argOK] using ha) (by simpa [indBal] using hl)
        exact ⟨_, t7, by rw [(rt_text sty blank .statement rest).2.2 (.inl rfl), h6]; rfl, h7⟩
      | block =>
        obtain ⟨r6, t7, h6, h7⟩ := strCase sty.statementSeparator false (by simpa [argOK] using ha) (by simpa [indBal] using hl)
        exact ⟨_, t7, by rw [(rt_text sty blank .block rest).2.2 (.inr rfl), h6]; rfl, h7⟩
      | newline =>
        obtain ⟨s, b', he⟩ := rt_newline sty blank rest
        obtain ⟨r6, t7, h6, h7⟩ := strCase s b' (by simpa [argOK] using ha) (by simpa [indBal] using hl)
        exact ⟨_, t7, by rw [he, h6]; rfl, h7⟩
      | argument =>
        simp only [argOK, Bool.and_eq_true] at ha
        obtain ⟨x, r, hr⟩ := hasStrB_ne_nil ha.1
        subst hr
        obtain ⟨s, he⟩ := rt_argument sty blank x r
        obtain ⟨r6, t7, h6, h7⟩ := strCase s false ha.2 (by simpa [indBal] using hl)
        exact ⟨_, t7, by rw [he, h6]; rfl, h7⟩

end TotP
end Tumfl.Theory
