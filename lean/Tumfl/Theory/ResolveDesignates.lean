import Tumfl.Theory.ResolveSpec
import Tumfl.Theory.ResolveInline
import Tumfl.Theory.Resolve
import Tumfl.Theory.LexTotal
import Tumfl.Theory.Hints
import Tumfl.Theory.ResolveDesignatesDefs
/-!
# Dependency resolver: the `InvalidDependencyError` designates the offending call (property C12)

`resolve_designates`: if `resolveRecursive` fails with `.dependency m t`, then the token `t` is the token of a call of
the bare name `require` that really occurs (at a position the walker visits) in a file of the dependency tree of the
main file, and that call is uninlinable for the reason `m` names: its arguments are not exactly one string literal
(`m = "Wrong require() arguments"`), or its module is not found from the directory of that file
(`m = "Could not find dependency"`).

No hypothesis is needed: the only two sites that raise `.dependency` are `getDependencyPath` and the two
`rthrow (.dependency "Wrong require() arguments" t)` sites, and the parser never raises `.dependency`
(`parseText_no_dependency`, from the classification of all parser errors in `Hints.lean` / `LexTotal.lean`).
-/
namespace Tumfl.Theory
open Tumfl.Model

/-! ## 1. The parser raises no `InvalidDependencyError` -/

def NotDep (e : PyErr) : Prop := ∀ m t, e ≠ .dependency m t

instance : GoodErr NotDep where
  fuel := fun _ _ h => by cases h
  parser := fun _ _ _ _ _ h => by cases h
  assertion := fun _ _ _ h => by cases h
  lex := fun cfg s e h m t he => by
    rcases getNextToken_total cfg s with ⟨tok, s', h1⟩ | ⟨e', h1, h2⟩
    · rw [h] at h1; cases h1
    · rw [h] at h1; cases h1
      subst he
      rcases h2 with ⟨_, _, _, h3⟩ | h3 <;> cases h3

theorem parseText_no_dependency (text : List Char) (m : String) (t : Token) : parseText text ≠ .error (.dependency m t) :=
  fun h => parseText_err (G := NotDep) text _ h m t rfl

/-! ## 2. The error postcondition -/

/-- the file `path` parses, and an offending call (message `m`, token `t`) occurs in it or in a file reachable from it -/
def Far (fs : FS) (sp : List Path) (m : String) (t : Token) (path : Path) : Prop :=
  ∃ text b hs, fs.read path = some text ∧ parseText text = .ok (b, hs) ∧
    ∃ dir' b', Reach fs sp (dirOf path) (asChunk b) dir' b' ∧ offendsBlock fs sp dir' m t b'

/-- the call is the offending one, or it is a literal `require` of a file from which the offending one is reached -/
def Hit (fs : FS) (sp : List Path) (dir : Path) (m : String) (t : Token) (t' : Token) (fn : Expr) (args : List Expr) : Prop :=
  Offends fs sp dir m t t' fn args ∨ ∃ path, ReqTo fs sp dir path t' fn args ∧ Far fs sp m t path

/-- the generalised statement for sub-runs, on blocks: a `Hit` call in `b` (directory `d`) leads to an offending call in
`b` itself or in a block reachable from a literal `require` inside `b` -/
theorem reach_of_hit {fs : FS} {sp : List Path} {d : Path} {m : String} {t : Token} {b : Block}
    (h : callInBlock (Hit fs sp d m t) b) : ∃ dir' b', Reach fs sp d b dir' b' ∧ offendsBlock fs sp dir' m t b' := by
  rcases callInBlock_split (A := Offends fs sp d m t) (B := fun path => ReqTo fs sp d path) (C := Far fs sp m t) b h with
    h | ⟨path, h, text, b1, hs, hr, hp, d', b', hreach, hoff⟩
  · exact ⟨d, b, Reach.refl _ _, h⟩
  · exact ⟨d', b', Reach.head h hr hp hreach, hoff⟩

/-- every `.dependency m t` error satisfies `C m t` -/
def DErr (C : String → Token → Prop) : PyErr → Prop := fun e => ∀ m t, e = .dependency m t → C m t

theorem DErr.mono {C C' : String → Token → Prop} (h : ∀ m t, C m t → C' m t) : ∀ e, DErr C e → DErr C' e :=
  fun _ he m t heq => h m t (he m t heq)

theorem DErr.fuel {C : String → Token → Prop} : DErr C .fuel := fun _ _ h => by cases h
theorem DErr.py {C : String → Token → Prop} {k s : String} : DErr C (.py k s) := fun _ _ h => by cases h

theorem parseFile_designates (fs : FS) (p : Path) (C : String → Token → Prop) :
    Spec (parseFile fs p) (fun b => ∃ text hs, fs.read p = some text ∧ parseText text = .ok (b, hs)) (DErr C) := by
  intro st
  refine ⟨?_, ?_⟩
  · intro b st' h
    exact (parseFile_ok h).2
  · intro e h m t he
    subst he
    unfold parseFile at h
    split at h
    · cases h
    · split at h
      · rename_i text _ e' hp
        cases h
        exact absurd hp (parseText_no_dependency _ _ _)
      · cases h

theorem getDependencyPath_designates (fs : FS) (sp : List Path) (name : List Char) (dir : Path) (t : Token) (dedup : Bool)
    {C : String → Token → Prop} (hC : findFileInPath fs sp name dir = none → C "Could not find dependency" t) :
    Spec (getDependencyPath fs sp name dir t dedup)
      (fun p => ∀ path, p = some path → findFileInPath fs sp name dir = some path) (DErr C) :=
  (getDependencyPath_spec fs sp name dir t dedup).mono (fun _ h => h.2)
    (fun e h m t' he => by
      obtain ⟨h1, h2⟩ := h
      rw [h1] at he
      cases he
      exact hC h2)

theorem isStrLit1_false_of {args : List Expr} (h : ∀ tk name, args = [.string tk name] → False) : isStrLit1 args = false := by
  unfold isStrLit1
  split
  · exact absurd rfl (fun h' => h _ _ h')
  · rfl

/-! ## 3. The eight-way induction -/

set_option hygiene false in
macro "de_ih" : tactic => `(tactic|
  first | exact ihE _ _ | exact ihEs _ _ | exact ihFs _ _ | exact ihB _ _ | exact ihSs _ _ | exact ihO _ _
        | exact ihS _ _ | exact ihF _ _)

macro "de_lift" : tactic => `(tactic|
  (intro m t h
   simp only [callInExpr, callInExprs, callInOptExpr, callInOptExprs, callInField, callInFields, callInStmt, callInStmts,
     callInFalse, callInBlock, h, true_or, or_true]))

set_option hygiene false in
macro "de_steps" : tactic => `(tactic|
  repeat (first
    | (refine Spec.bind (P := fun _ => True)
        (Spec.mono (by de_ih) (fun _ _ => trivial) (DErr.mono (by de_lift))) ?_; intro _ _)
    | exact Spec.pure trivial))

/-- the eight per-function lemmas: every `.dependency m t` error raised while resolving `x` (in directory `dir`)
designates a call in `x` that is offending itself or is a literal `require` of a file from which an offending call is
reached -/
theorem resolve_designates_spec (fs : FS) (sp : List Path) : ∀ f : Nat,
    (∀ dir e, Spec (resolveExpr fs sp f dir e) (fun _ => True) (DErr fun m t => callInExpr (Hit fs sp dir m t) e)) ∧
    (∀ dir es, Spec (resolveExprs fs sp f dir es) (fun _ => True) (DErr fun m t => callInExprs (Hit fs sp dir m t) es)) ∧
    (∀ dir fds, Spec (resolveFields fs sp f dir fds) (fun _ => True) (DErr fun m t => callInFields (Hit fs sp dir m t) fds)) ∧
    (∀ dir b, Spec (resolveBlock fs sp f dir b) (fun _ => True) (DErr fun m t => callInBlock (Hit fs sp dir m t) b)) ∧
    (∀ dir ss, Spec (resolveStmts fs sp f dir ss) (fun _ => True) (DErr fun m t => callInStmts (Hit fs sp dir m t) ss)) ∧
    (∀ dir o, Spec (resolveOptExpr fs sp f dir o) (fun _ => True) (DErr fun m t => callInOptExpr (Hit fs sp dir m t) o)) ∧
    (∀ dir s, Spec (resolveStmt fs sp f dir s) (fun _ => True) (DErr fun m t => callInStmt (Hit fs sp dir m t) s)) ∧
    (∀ dir fl, Spec (resolveFalse fs sp f dir fl) (fun _ => True) (DErr fun m t => callInFalse (Hit fs sp dir m t) fl)) := by
  intro f
  induction f with
  | zero =>
    refine ⟨?_, ?_, ?_, ?_, ?_, ?_, ?_, ?_⟩ <;> intro dir x
    · rw [resolveExpr]; exact Spec.rfuel DErr.fuel
    · rw [resolveExprs]; exact Spec.rfuel DErr.fuel
    · rw [resolveFields]; exact Spec.rfuel DErr.fuel
    · rw [resolveBlock]; exact Spec.rfuel DErr.fuel
    · rw [resolveStmts]; exact Spec.rfuel DErr.fuel
    · rw [resolveOptExpr]; exact Spec.rfuel DErr.fuel
    · rw [resolveStmt]; exact Spec.rfuel DErr.fuel
    · rw [resolveFalse]; exact Spec.rfuel DErr.fuel
  | succ f ih =>
    obtain ⟨ihE, ihEs, ihFs, ihB, ihSs, ihO, ihS, ihF⟩ := ih
    refine ⟨?_, ?_, ?_, ?_, ?_, ?_, ?_, ?_⟩
    · intro dir e
      cases e <;> simp only [resolveExpr]
      all_goals try (de_steps; done)
      rename_i t fn args
      cases hreq : isRequireName fn
      · simp only [Bool.false_eq_true, if_false]
        de_steps
      · simp only [if_true]
        split
        · rename_i tk name
          refine Spec.bind (getDependencyPath_designates fs sp name dir t false ?_) ?_
          · intro hnone
            simp only [callInExpr]
            exact Or.inl (Or.inl ⟨rfl, hreq, Or.inr ⟨rfl, tk, name, rfl, hnone⟩⟩)
          · intro p hp
            cases p with
            | none => exact Spec.rthrow DErr.py
            | some path =>
              simp only
              refine Spec.bind (parseFile_designates fs path _) ?_
              intro ast hast
              obtain ⟨text, hs, hr, hpt⟩ := hast
              refine Spec.bind (P := fun _ => True) (Spec.mono (ihB (dirOf path) _) (fun _ _ => trivial) (DErr.mono ?_)) ?_
              · intro m t' h
                obtain ⟨d', b', hreach, hoff⟩ := reach_of_hit h
                simp only [callInExpr]
                refine Or.inl (Or.inr ⟨path, ⟨hreq, tk, name, rfl, hp path rfl⟩, text, ast, hs, hr, hpt, d', b', ?_, hoff⟩)
                cases ast; exact hreach
              · intro _ _; exact Spec.pure trivial
        · rename_i hne
          refine Spec.rthrow ?_
          intro m t' he
          cases he
          simp only [callInExpr]
          exact Or.inl (Or.inl ⟨rfl, hreq, Or.inl ⟨rfl, isStrLit1_false_of hne⟩⟩)
    · intro dir es
      cases es <;> simp only [resolveExprs] <;> de_steps
    · intro dir fds
      cases fds with
      | nil => simp only [resolveFields]; de_steps
      | cons fd rest =>
        simp only [resolveFields]
        refine Spec.bind (P := fun _ => True) ?_ ?_
        · cases fd <;> simp only <;> de_steps
        · intro _ _; de_steps
    · intro dir b
      obtain ⟨t, ss, rs, c⟩ := b
      simp only [resolveBlock]
      refine Spec.bind (P := fun _ => True)
        (Spec.mono (by de_ih) (fun _ _ => trivial) (DErr.mono (by de_lift))) ?_
      intro _ _
      refine Spec.bind (P := fun _ => True) ?_ ?_
      · cases rs <;> simp only <;> de_steps
      · intro _ _; de_steps
    · intro dir ss
      cases ss <;> simp only [resolveStmts] <;> de_steps
    · intro dir o
      cases o <;> simp only [resolveOptExpr] <;> de_steps
    · intro dir s
      cases s <;> simp only [resolveStmt]
      all_goals try (de_steps; done)
      · rename_i t fn args
        cases hreq : isRequireName fn
        · simp only [Bool.false_eq_true, if_false]
          de_steps
        · simp only [if_true]
          split
          · rename_i tk name
            refine Spec.bind (getDependencyPath_designates fs sp name dir t true ?_) ?_
            · intro hnone
              simp only [callInStmt]
              exact Or.inl (Or.inl ⟨rfl, hreq, Or.inr ⟨rfl, tk, name, rfl, hnone⟩⟩)
            · intro p hp
              cases p with
              | none => exact Spec.pure trivial
              | some path =>
                simp only
                refine Spec.bind (parseFile_designates fs path _) ?_
                intro ast hast
                obtain ⟨text, hs, hr, hpt⟩ := hast
                refine Spec.bind (P := fun _ => True) (Spec.mono (ihB (dirOf path) _) (fun _ _ => trivial) (DErr.mono ?_)) ?_
                · intro m t' h
                  obtain ⟨d', b', hreach, hoff⟩ := reach_of_hit h
                  simp only [callInStmt]
                  refine Or.inl (Or.inr ⟨path, ⟨hreq, tk, name, rfl, hp path rfl⟩, text, ast, hs, hr, hpt, d', b', ?_, hoff⟩)
                  cases ast; exact hreach
                · intro _ _; exact Spec.pure trivial
          · rename_i hne
            refine Spec.rthrow ?_
            intro m t' he
            cases he
            simp only [callInStmt]
            exact Or.inl (Or.inl ⟨rfl, hreq, Or.inl ⟨rfl, isStrLit1_false_of hne⟩⟩)
      · rename_i t ns es
        refine Spec.bind (P := fun _ => True) ?_ ?_
        · cases es <;> simp only <;> de_steps
        · intro _ _; de_steps
    · intro dir fl
      cases fl <;> simp only [resolveFalse] <;> de_steps

/-! ## 4. The generalised statement for sub-runs -/

/-- a failing run on a block `b` in directory `dir`, from any state and with any fuel: the error designates an offending
call in `b` itself or in a block reachable from a literal `require` inside `b` -/
theorem resolveBlock_designates {fs : FS} {sp : List Path} {f : Nat} {dir : Path} {b : Block} {st : RSt} {m : String}
    {t : Token} (h : resolveBlock fs sp f dir b st = .error (.dependency m t)) :
    ∃ dir' b', Reach fs sp dir b dir' b' ∧ offendsBlock fs sp dir' m t b' :=
  reach_of_hit (((resolve_designates_spec fs sp f).2.2.2.1 dir b st).2 _ h m t rfl)

/-! ## 5. Main theorem -/

/-- **C12, "raises InvalidDependencyError FOR THAT CALL"**: the token carried by the error is the token of an offending
`require` call that really occurs in a file of the dependency tree -/
theorem resolve_designates (fs : FS) (main : Path) (sp : List Path) (fuel : Nat) (m : String) (t : Token)
    (h : resolveRecursive fs main sp fuel = .error (.dependency m t)) :
    ∃ dir b, InTree fs sp main dir b ∧ offendsBlock fs sp dir m t b := by
  unfold resolveRecursive at h
  split at h
  · rename_i e heq
    cases h
    have hspec : Spec (do let ast ← parseFile fs main; resolveBlock fs sp fuel (dirOf main) ast : RM Block)
        (fun _ => True) (DErr fun m t => ∃ dir b, InTree fs sp main dir b ∧ offendsBlock fs sp dir m t b) := by
      refine Spec.bind (parseFile_designates fs main _) ?_
      intro ast hast
      obtain ⟨text, hs, hr, hpt⟩ := hast
      refine Spec.mono ((resolve_designates_spec fs sp fuel).2.2.2.1 (dirOf main) ast) (fun _ _ => trivial) (DErr.mono ?_)
      intro m t h
      obtain ⟨d', b', hreach, hoff⟩ := reach_of_hit h
      exact ⟨d', b', InTree.of_reach hreach (InTree.main hr hpt), hoff⟩
    exact (hspec _).2 _ heq m t rfl
  · cases h

/-! ## 6. Non-vacuity -/

/-- from a computed check of the outcome to the statement of the theorem -/
theorem resolve_designates_checked {fs : FS} {main : Path} {sp : List Path} {fuel : Nat} {m0 : String} {chk : Token → Bool}
    (key : (match resolveRecursive fs main sp fuel with
      | .error (.dependency m t) => m == m0 && chk t
      | _ => false) = true) :
    ∃ t, resolveRecursive fs main sp fuel = .error (.dependency m0 t) ∧ chk t = true ∧
      ∃ dir b, InTree fs sp main dir b ∧ offendsBlock fs sp dir m0 t b := by
  cases h : resolveRecursive fs main sp fuel with
  | ok b => rw [h] at key; cases key
  | error e =>
    rw [h] at key
    cases e with
    | dependency m t =>
      simp only [Bool.and_eq_true, beq_iff_eq] at key
      obtain ⟨rfl, hc⟩ := key
      exact ⟨t, rfl, hc, resolve_designates fs main sp fuel m t h⟩
    | lexer _ _ _ => cases key
    | parser _ _ _ => cases key
    | py _ _ => cases key
    | fuel => cases key

/-- a missing module inside an inlined file: `main.lua` requires `m` (expression level), `m.lua` requires the missing
`zz` on its line 2 -/
def exMissingFS : FS :=
  { files := [(["p", "main.lua"], "local x = require('m')".toList), (["p", "m.lua"], "y = 1\nreturn require('zz')".toList)],
    dirs := [["p"]] }

/-- the error carries the token of the call in `m.lua` (line 2, the opening parenthesis at column 15), and that call
occurs in a file of the dependency tree -/
example : ∃ t, resolveRecursive exMissingFS ["p", "main.lua"] [] 20 = .error (.dependency "Could not find dependency" t) ∧
    (decide (t.type = .L_PAREN) && t.line == 2 && t.column == 15) = true ∧
    ∃ dir b, InTree exMissingFS [] ["p", "main.lua"] dir b ∧ offendsBlock exMissingFS [] dir "Could not find dependency" t b :=
  resolve_designates_checked (chk := fun t => decide (t.type = .L_PAREN) && t.line == 2 && t.column == 15) (by decide +kernel)

/-- wrong arguments in the main file (statement level, line 2) -/
def exWrongFS : FS :=
  { files := [(["p", "main.lua"], "local x = 1\nrequire(x, 'm')".toList)], dirs := [["p"]] }

/-- the error carries the token of the statement-level call (the name `require` at line 2, column 1) -/
example : ∃ t, resolveRecursive exWrongFS ["p", "main.lua"] [] 20 = .error (.dependency "Wrong require() arguments" t) ∧
    (decide (t.type = .NAME) && t.line == 2 && t.column == 1) = true ∧
    ∃ dir b, InTree exWrongFS [] ["p", "main.lua"] dir b ∧ offendsBlock exWrongFS [] dir "Wrong require() arguments" t b :=
  resolve_designates_checked (chk := fun t => decide (t.type = .NAME) && t.line == 2 && t.column == 1) (by decide +kernel)

end Tumfl.Theory
