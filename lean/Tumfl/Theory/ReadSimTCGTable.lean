import Tumfl.Theory.ReadSimTCGArgs
/-!
# Table constructors, parameter lists, function bodies, for every reading; assembly of `XPropR`
-/
namespace Tumfl.Theory.TCGSim
open Tumfl.Model Tumfl.Spec

variable {sty : Style}

/-! ## pieces without statement / block separators have one reading -/

def NoChoice (ps : Pieces) : Prop := ∀ p ∈ ps, p ≠ .sep .statement ∧ p ≠ .sep .block ∧ p ≠ .str ['}']

theorem NoChoice_nil : NoChoice [] := by intro p h; cases h
theorem NoChoice.cons {p : Piece} {r : Pieces} (hp : p ≠ .sep .statement ∧ p ≠ .sep .block ∧ p ≠ .str ['}'])
    (hr : NoChoice r) : NoChoice (p :: r) := by
  intro q hq
  rcases List.mem_cons.mp hq with rfl | hq
  · exact hp
  · exact hr q hq
theorem NoChoice.append {a b : Pieces} (ha : NoChoice a) (hb : NoChoice b) : NoChoice (a ++ b) := by
  intro q hq
  rcases List.mem_append.mp hq with hq | hq
  · exact ha q hq
  · exact hb q hq

theorem AllRd_noChoice : (ps : Pieces) → NoChoice ps → ∀ (p : Option (List Char)) (K : List Spec.Tok → Prop),
    AllRd p ps K ↔ K (TK false ps)
  | [], _, p, K => by simp [AllRd_nil]
  | .str s :: r, h, p, K => by
    have hs : s ≠ ['}'] := by intro he; exact (h (.str s) (by simp)).2.2 (by rw [he])
    rw [AllRd_str hs, AllRd_noChoice r (fun q hq => h q (by simp [hq])), TK_cons]; rfl
  | .sep k :: r, h, p, K => by
    obtain ⟨h1, h2, _⟩ := h (.sep k) (by simp)
    have ih := fun p K => AllRd_noChoice r (fun q hq => h q (by simp [hq])) p K
    by_cases hk : k = .argument
    · subst hk
      have := AllRd_argument (p := p) (K := K) (r := r)
      simp only [S] at this
      rw [this, ih, TK_cons]; rfl
    · have := AllRd_fixedSep (p := p) (K := K) (r := r) (k := k)
        ⟨hk, fun he => h1 (by rw [he]), fun he => h2 (by rw [he])⟩
      simp only [S] at this
      rw [this, ih, TK_cons]

theorem NoChoice_str {n : List Char} (h : identOK n = true) :
    (Piece.str n) ≠ .sep .statement ∧ (Piece.str n) ≠ .sep .block ∧ (Piece.str n) ≠ .str ['}'] :=
  ⟨by simp, by simp, by intro he; cases he; revert h; decide⟩

theorem NoChoice_nameNode {e : Expr} (h : nameNodeOK e = true) : NoChoice (visitExpr sty e) := by
  obtain ⟨t, n, rfl, hn⟩ := nameNodeOK_iff h
  simp only [visitExpr]
  exact NoChoice.cons (NoChoice_str hn) NoChoice_nil

theorem NoChoice_S_argument : (S .argument : Piece) ≠ .sep .statement ∧ (S .argument : Piece) ≠ .sep .block ∧
    (S .argument : Piece) ≠ .str ['}'] := by simp [S]
theorem NoChoice_S_dot : (S .dot : Piece) ≠ .sep .statement ∧ (S .dot : Piece) ≠ .sep .block ∧
    (S .dot : Piece) ≠ .str ['}'] := by simp [S]
theorem NoChoice_S_space : (S .space : Piece) ≠ .sep .statement ∧ (S .space : Piece) ≠ .sep .block ∧
    (S .space : Piece) ≠ .str ['}'] := by simp [S]
theorem NoChoice_P {s : String} (h : s.toList ≠ ['}']) : (P s : Piece) ≠ .sep .statement ∧ (P s : Piece) ≠ .sep .block ∧
    (P s : Piece) ≠ .str ['}'] := by
  refine ⟨by simp [P], by simp [P], ?_⟩
  intro he; simp only [P, Piece.str.injEq] at he; exact h he

theorem NoChoice_names : (ns : List Expr) → ns.all nameNodeOK = true → NoChoice (visitArgs sty ns)
  | [], _ => by simpa [visitArgs] using NoChoice_nil
  | [e], h => by
    simp only [List.all_cons, List.all_nil, Bool.and_true] at h
    simpa [visitArgs] using NoChoice_nameNode (sty := sty) h
  | e :: e2 :: r, h => by
    simp only [List.all_cons, Bool.and_eq_true] at h
    rw [visitArgs]
    exact (NoChoice_nameNode h.1).append (NoChoice.cons NoChoice_S_argument (NoChoice_names (e2 :: r) (by simp [h.2])))

theorem NoChoice_dotted : (ns : List Expr) → ns.all nameNodeOK = true → NoChoice (visitDotted sty ns)
  | [], _ => by simpa [visitDotted] using NoChoice_nil
  | [e], h => by
    simp only [List.all_cons, List.all_nil, Bool.and_true] at h
    simpa [visitDotted] using NoChoice_nameNode (sty := sty) h
  | e :: e2 :: r, h => by
    simp only [List.all_cons, Bool.and_eq_true] at h
    rw [visitDotted]
    exact (NoChoice_nameNode h.1).append (NoChoice.cons NoChoice_S_dot (NoChoice_dotted (e2 :: r) (by simp [h.2])))

theorem NoChoice_params : (ps : List Expr) → paramsOK ps = true → NoChoice (visitArgs sty ps)
  | [], _ => by simpa [visitArgs] using NoChoice_nil
  | [e], h => by
    rcases paramsOK_cons h with ⟨t, rfl, _⟩ | ⟨hn, _⟩
    · simp only [visitArgs, visitExpr]; exact NoChoice.cons (NoChoice_P (by decide)) NoChoice_nil
    · simpa [visitArgs] using NoChoice_nameNode (sty := sty) hn
  | e :: e2 :: r, h => by
    rcases paramsOK_cons h with ⟨t, _, hh⟩ | ⟨hn, hr⟩
    · cases hh
    · rw [visitArgs]
      exact (NoChoice_nameNode hn).append (NoChoice.cons NoChoice_S_argument (NoChoice_params (e2 :: r) hr))

theorem NoChoice_nameStr {e : Expr} (h : nameNodeOK e = true) :
    (Piece.str (nameStr e)) ≠ .sep .statement ∧ (Piece.str (nameStr e)) ≠ .sep .block ∧ (Piece.str (nameStr e)) ≠ .str ['}'] := by
  obtain ⟨t, n, rfl, hn⟩ := nameNodeOK_iff h
  exact NoChoice_str hn

theorem NoChoice_attName {n : Expr} {a : Option Expr} (h : attOK (.mk n a) = true) : NoChoice (attName n a) := by
  cases a with
  | none =>
    simp only [attOK, Bool.and_true] at h
    simp only [attName]; exact NoChoice.cons (NoChoice_nameStr h) NoChoice_nil
  | some x =>
    simp only [attOK, Bool.and_eq_true] at h
    simp only [attName]
    exact NoChoice.cons (NoChoice_nameStr h.1) (NoChoice.cons NoChoice_S_space (NoChoice.cons (NoChoice_P (by decide))
      (NoChoice.cons (NoChoice_nameStr h.2) (NoChoice.cons (NoChoice_P (by decide)) NoChoice_nil))))

theorem NoChoice_attNames : (names : List AttName) → names.all attOK = true → NoChoice (visitAttNames names)
  | [], _ => by simpa [visitAttNames] using NoChoice_nil
  | [.mk n a], h => by
    simp only [List.all_cons, List.all_nil, Bool.and_true] at h
    simpa [visitAttNames] using NoChoice_attName h
  | .mk n a :: y :: r, h => by
    simp only [List.all_cons, Bool.and_eq_true] at h
    rw [visitAttNames_cons2]
    exact (NoChoice_attName h.1).append (NoChoice.cons NoChoice_S_argument (NoChoice_attNames (y :: r) (by simp [h.2])))

/-! ## table fields -/

def FieldPropR (sty : Style) (f : Model.Field) : Prop :=
  ∀ p, AllRd p (visitField sty f) fun kf => ∃ c, FieldRel (dsField f) (deField c) ∧
    ∀ F rest, 4 * kf.length + 1 ≤ F → (pk rest = .sym "," ∨ pk rest = .sym "}") →
      fieldParse F (kf ++ rest) = .ok (c, rest) ∧ isSym "}" (kf ++ rest) = false

theorem explicit_FR {t : Token} {k v : Expr} (hk : EPropR sty k) (hv : EPropR sty v) :
    FieldPropR sty (.explicit t k v) := by
  unfold FieldPropR
  intro p
  simp only [visitField, AllRd_append, AllRd_lbrack, AllRd_rbrack, AllRd_fmtKey, AllRd_space, AllRd_assign, AllRd_nil]
  intro kk hkk kv hkv
  obtain ⟨_, ck, relk, bk⟩ := hk _ kk hkk
  obtain ⟨_, cv, relv, bv⟩ := hv _ kv hkv
  refine ⟨.keyed ck cv, by simp only [dsField, deField]; exact .keyed t relk relv, ?_⟩
  intro F rest hF hr
  obtain ⟨h1, h2, _⟩ := sep_facts hr
  simp only [List.length_append, List.length_cons, List.length_nil] at hF
  simp only [List.cons_append, List.append_assoc, List.nil_append]
  refine ⟨?_, by simp [isSym_mkTok]⟩
  have e1 := expr_of_EBody bk F (mkTok (.sym "]") :: mkTok (.sym "=") :: (kv ++ rest)) (by omega)
    (by simp [sfx]) (by simp [hdLp, binOfTk])
  have e2 := expr_of_EBody bv F rest (by omega) h1 h2
  unfold fieldParse
  simp only [pk_mkTok, tail_mkTok, e1]
  simp [expectSym, isSym, e2, bind, Except.bind]

theorem named_FR {t : Token} {n v : Expr} (hn : nameNodeOK n = true) (hv : EPropR sty v) :
    FieldPropR sty (.named t n v) := by
  unfold FieldPropR
  intro p
  simp only [visitField, List.append_assoc, AllRd_nameNode sty hn, List.cons_append, List.nil_append, AllRd_space, AllRd_assign]
  intro kv hkv
  obtain ⟨_, cv, relv, bv⟩ := hv _ kv hkv
  refine ⟨.named (nameS n) cv, by simp only [dsField, deField]; exact .named t (NameRel_of_nameNodeOK hn) relv, ?_⟩
  intro F rest hF hr
  obtain ⟨h1, h2, _⟩ := sep_facts hr
  simp only [List.length_cons] at hF
  refine ⟨?_, by simp [isSym_mkTok]⟩
  have e2 := expr_of_EBody bv F rest (by omega) h1 h2
  unfold fieldParse
  simp only [List.cons_append, pk_mkTok, tail_mkTok, isSym_mkTok]
  simp [e2, bind, Except.bind]

theorem numbered_FR {t : Token} {v : Expr} (hv : EPropR sty v) : FieldPropR sty (.numbered t v) := by
  unfold FieldPropR
  intro p
  simp only [visitField]
  intro kv hkv
  obtain ⟨hd, cv, relv, bv⟩ := hv _ kv hkv
  refine ⟨.pos cv, by simp only [dsField, deField]; exact .pos t relv, ?_⟩
  intro F rest hF hr
  obtain ⟨h1, h2, h3⟩ := sep_facts hr
  obtain ⟨k, tks, rfl, hs⟩ := hd
  have e2 := expr_of_EBody bv F rest (by omega) h1 h2
  refine ⟨?_, ?_⟩
  · unfold fieldParse
    simp only [List.cons_append, pk_mkTok, tail_mkTok] at e2 ⊢
    cases k with
    | name n =>
      simp only
      have hne : isSym "=" (tks ++ rest) = false := by
        cases hb : isSym "=" (tks ++ rest) with
        | false => rfl
        | true =>
          exfalso
          have hpk : pk (tks ++ rest) = .sym "=" := by
            unfold isSym at hb
            split at hb
            · rename_i x hx; rw [hx]; simp at hb; rw [hb]
            · cases hb
          have e3 := expr_of_EBody bv (4 * (mkTok (.name n) :: tks).length + 1 + 4) rest (by omega) h1 h2
          rw [List.cons_append, expr_name_stop _ n (tks ++ rest) (by simp [hpk, sfx]) (by simp [hdLp, hpk, binOfTk])] at e3
          simp only [Except.ok.injEq, Prod.mk.injEq] at e3
          have hl := congrArg List.length e3.2
          simp only [List.length_append] at hl
          have : tks = [] := List.eq_nil_of_length_eq_zero (by omega)
          subst this
          simp only [List.nil_append] at hpk
          rcases hr with hr | hr <;> rw [hr] at hpk <;> simp at hpk
      simp [hne, e2, bind, Except.bind]
    | sym s =>
      have : s ≠ "[" := by rintro rfl; simp [exprStartTk] at hs
      split
      · rename_i heq; cases heq
      · rename_i heq; cases heq; exact absurd rfl this
      · simp [e2, bind, Except.bind]
    | kw s => simp [e2, bind, Except.bind]
    | str s => simp [e2, bind, Except.bind]
    | num s => simp [e2, bind, Except.bind]
    | eof => simp [exprStartTk] at hs
  · rw [List.cons_append, isSym_mkTok]
    cases hb : k == .sym "}" with
    | false => rfl
    | true =>
      have : k = .sym "}" := by simpa using hb
      subst this
      simp [exprStartTk] at hs

theorem fields_of_allR : (fs : List Model.Field) → (∀ f ∈ fs, FieldPropR sty f) → FieldsPropR sty fs
  | [], _ => by
    unfold FieldsPropR
    intro p
    simp only [visitFields, AllRd_nil]
    refine ⟨[], by simp only [dsFields, deFields]; exact .nil, ?_, by intro h; exact absurd rfl h⟩
    intro F rest hF
    obtain ⟨F, rfl⟩ : ∃ f, F = f + 1 := ⟨F - 1, by omega⟩
    rw [ps_fields_succ]
    simp [isSym_mkTok]
  | [f], hall => by
    unfold FieldsPropR
    intro p
    simp only [visitFields]
    intro kf hkf
    obtain ⟨c, rel, hb⟩ := hall f (by simp) _ kf hkf
    refine ⟨[c], by simp only [dsFields, deFields]; exact .cons rel .nil, ?_, ?_⟩
    · intro F rest hF
      obtain ⟨F, rfl⟩ : ∃ f, F = f + 1 := ⟨F - 1, by omega⟩
      obtain ⟨h1, h2⟩ := hb F (mkTok (.sym "}") :: rest) (by omega) (.inr rfl)
      rw [ps_fields_succ]
      simp only [h1, h2, Except.bind]
      simp [fieldsRest, isSym_mkTok, expectSym, bind, Except.bind]
    · intro _ F rest hF
      obtain ⟨F, rfl⟩ : ∃ f, F = f + 1 := ⟨F - 1, by omega⟩
      obtain ⟨h1, h2⟩ := hb F (mkTok (.sym ",") :: mkTok (.sym "}") :: rest) (by omega) (.inl rfl)
      obtain ⟨F, rfl⟩ : ∃ f, F = f + 1 := ⟨F - 1, by omega⟩
      have h3 : fields (F + 1) (mkTok (.sym "}") :: rest) = .ok ([], rest) := by
        rw [ps_fields_succ]; simp [isSym_mkTok]
      rw [ps_fields_succ]
      simp only [h1, h2, Except.bind]
      simp [fieldsRest, isSym_mkTok, h3, bind, Except.bind]
  | f :: f2 :: fs, hall => by
    unfold FieldsPropR
    intro p
    rw [visitFields]
    simp only [AllRd_append, AllRd_argument]
    intro kf hkf kr hkr
    obtain ⟨c, rel, hb⟩ := hall f (by simp) _ kf hkf
    obtain ⟨cs, rels, hbs, hbsc⟩ := fields_of_allR (f2 :: fs) (fun x hx => hall x (by simp [hx])) _ kr hkr
    refine ⟨c :: cs, by rw [dsFields, deFields]; exact .cons rel rels, ?_, ?_⟩
    · intro F rest hF
      simp only [List.length_append, List.length_cons] at hF
      obtain ⟨F, rfl⟩ : ∃ f, F = f + 1 := ⟨F - 1, by omega⟩
      obtain ⟨h1, h2⟩ := hb F (mkTok (.sym ",") :: (kr ++ mkTok (.sym "}") :: rest)) (by omega) (.inl rfl)
      have ih := hbs F rest (by omega)
      rw [ps_fields_succ]
      simp only [List.append_assoc, List.cons_append]
      rw [h1]
      simp only [h2, Except.bind]
      simp [fieldsRest, isSym_mkTok, ih, bind, Except.bind]
    · intro _ F rest hF
      simp only [List.length_append, List.length_cons] at hF
      obtain ⟨F, rfl⟩ : ∃ f, F = f + 1 := ⟨F - 1, by omega⟩
      obtain ⟨h1, h2⟩ := hb F (mkTok (.sym ",") :: (kr ++ mkTok (.sym ",") :: mkTok (.sym "}") :: rest)) (by omega) (.inl rfl)
      have ih := hbsc (by simp) F rest (by omega)
      rw [ps_fields_succ]
      simp only [List.append_assoc, List.cons_append]
      rw [h1]
      simp only [h2, Except.bind]
      simp [fieldsRest, isSym_mkTok, ih, bind, Except.bind]

/-! ## function bodies -/

theorem body_stepR {ps : List Expr} {b : Model.Block} (hp : paramsOK ps = true) (hb : BlockPropR sty b) :
    ∀ p, AllRd p (funcBodyPieces sty ps b) fun k =>
      ∃ cb, BlockRel (dsBlock b) (deBlock cb) ∧
        ∀ g rest, 4 * k.length ≤ g → body g (k ++ rest) = .ok ((refParams ps).1, (refParams ps).2, cb, rest) := by
  intro p
  simp only [funcBodyPieces, drop1_eq, List.append_assoc, List.cons_append, List.nil_append, AllRd_lpar, AllRd_append,
    AllRd_noChoice _ (NoChoice_params ps hp), AllRd_rpar, AllRd_block, AllRd_indent, AllRd_deindent, AllRd_end_kw, AllRd_nil]
  intro s hs kb hkb
  obtain ⟨mk, rel, bb⟩ := hb _ kb hkb
  refine ⟨mk s, rel s hs, ?_⟩
  intro g rest hg
  simp only [List.length_cons, List.length_append, List.length_nil] at hg
  have hl := params_length (sty := sty) ps hp
  obtain ⟨g, rfl⟩ : ∃ f, g = f + 1 := ⟨g - 1, by omega⟩
  have h1 := params_step (semi := false) (sty := sty) ps hp g (s ++ (kb ++ mkTok (.kw "end") :: rest)) (by omega)
  have h2 := bb s hs g (mkTok (.kw "end") :: rest) (by omega) (by rfl)
  rw [body]
  simp only [List.cons_append, List.append_assoc, List.nil_append] at h1 h2 ⊢
  simp [expectSym, isSym_mkTok, h1, h2, expectKw, isKw_mkTok, bind, Except.bind]

/-! ## assembly -/

theorem func_ER {t : Token} {ps : List Expr} {b : Model.Block} (hp : paramsOK ps = true) (hb : BlockPropR sty b) :
    EPropR sty (.func t ps b) := by
  unfold EPropR
  intro p
  have hbody := body_stepR hp hb
  have hv : visitExpr sty (.func t ps b) = [P "function", S .space] ++ funcBodyPieces sty ps b := by
    simp [visitExpr, funcBodyPieces]
  rw [hv]
  simp only [List.cons_append, List.nil_append, AllRd_function_kw, AllRd_space]
  intro k hk
  obtain ⟨cb, rel, bb⟩ := hbody _ k hk
  refine ⟨⟨_, _, rfl, rfl⟩, .func (refParams ps).1 (refParams ps).2 cb, ?_, ?_⟩
  · simp only [dsExpr, deExp]; exact .func t (ParamsRel_of_paramsOK ps hp) rel
  · intro g F limit rest hg hF _ _ _
    simp only [List.length_cons] at hg hF ⊢
    obtain ⟨g, rfl⟩ : ∃ f, g = f + 1 := ⟨g - 1, by omega⟩
    obtain ⟨F, rfl⟩ : ∃ f, F = f + 1 := ⟨F - 1, by omega⟩
    refine ⟨F, by omega, ?_⟩
    refine climb_simple _ _ _ _ _ _ (by simp [unOfTk]) ?_
    rw [List.cons_append, simpleexp]
    simp only [pk_mkTok, tail_mkTok, bb g rest (by omega)]
    simp [bind, Except.bind]

theorem table_ER {t : Token} {fs : List Model.Field} (hf : FieldsPropR sty fs) : EPropR sty (.table t fs) := by
  unfold EPropR
  intro p
  simp only [visitExpr]
  apply table_pieces
  intro q kf hkf
  obtain ⟨cs, rel, hb, hbc⟩ := hf q kf hkf
  have hrel : ExpRel (dsExpr (.table t fs)) (deExp (.table cs)) := by simp only [dsExpr, deExp]; exact .table t rel
  refine ⟨⟨⟨_, _, rfl, rfl⟩, .table cs, hrel, ?_⟩, fun hne => ⟨⟨_, _, rfl, rfl⟩, .table cs, hrel, ?_⟩⟩
  · intro g F limit rest hg hF _ _ _
    simp only [List.length_cons, List.length_append, List.length_nil] at hg hF ⊢
    obtain ⟨g, rfl⟩ : ∃ f, g = f + 1 := ⟨g - 1, by omega⟩
    obtain ⟨F, rfl⟩ : ∃ f, F = f + 1 := ⟨F - 1, by omega⟩
    refine ⟨F, by omega, ?_⟩
    refine climb_simple _ _ _ _ _ _ (by simp [unOfTk]) ?_
    simp only [List.cons_append, List.append_assoc, List.nil_append]
    rw [simpleexp]
    simp only [pk_mkTok, tail_mkTok, hb g rest (by omega)]
    simp [bind, Except.bind]
  · intro g F limit rest hg hF _ _ _
    simp only [List.length_cons, List.length_append, List.length_nil] at hg hF ⊢
    obtain ⟨g, rfl⟩ : ∃ f, g = f + 1 := ⟨g - 1, by omega⟩
    obtain ⟨F, rfl⟩ : ∃ f, F = f + 1 := ⟨F - 1, by omega⟩
    refine ⟨F, by omega, ?_⟩
    refine climb_simple _ _ _ _ _ _ (by simp [unOfTk]) ?_
    simp only [List.cons_append, List.append_assoc, List.nil_append]
    rw [simpleexp]
    simp only [pk_mkTok, tail_mkTok, hbc hne g rest (by omega)]
    simp [bind, Except.bind]

theorem XR_of_E {e : Expr} (hv : isVarLike e = false) (ht : ∀ t fs, e ≠ .table t fs) (h : EPropR sty e) : XPropR sty e :=
  ⟨h, by simp [hv], fun t fs he => absurd he (ht t fs)⟩

theorem XR_of_P {e : Expr} (hv : isVarLike e = true) (h : PPropR sty e) : XPropR sty e :=
  ⟨E_of_PR hv h, fun _ => h, by intro t fs he; subst he; simp [isVarLike] at hv⟩

theorem XR_table {t : Token} {fs : List Model.Field} (hf : FieldsPropR sty fs) : XPropR sty (.table t fs) :=
  ⟨table_ER hf, by simp [isVarLike], by intro t' fs' he; cases he; exact hf⟩

end Tumfl.Theory.TCGSim
