import Tumfl.Theory.FormatTextEmitBase
/-!
# The adjacency discipline of the emitter: unary operators, arguments, comments, blocks
-/
namespace Tumfl.Theory
open Tumfl Tumfl.Model

/-! ## unary operators -/

theorem kind_pow_binop {e : Expr} (h : e.kind = .bin .pow) : ∃ t l r, e = .binop t .pow l r := by
  cases e <;> simp [Expr.kind] at h
  subst h
  exact ⟨_, _, _, rfl⟩

theorem head_not_minus (sty : Style) (e : Expr) (hp : pExpr e = true) (hn : NumsCanon (numsExpr e))
    (hk : e.kind = .atom ∨ e.kind = .bin .pow) : HeadIs (visitExpr sty e) (fun c => H5 c ∧ c ≠ '-') := by
  rcases hk with hk | hk
  · exact (head_expr sty e hp hn).imp fun c h => ⟨h.1, h.2 hk⟩
  · obtain ⟨t, l, r, rfl⟩ := kind_pow_binop hk
    simp only [pExpr, Bool.and_eq_true] at hp
    simp only [numsExpr] at hn
    simp only [visitExpr]
    refine HeadIs.append (HeadIs.append ?_ _) _
    split
    · exact headIs_wrapParens _ (by decide)
    · rename_i hb
      have := needL_pow_table (by simpa using hb)
      exact (head_expr sty l hp.1 hn.left).imp fun c h => ⟨h.1, h.2 this⟩

theorem noGlue_uop {u : Spec.UOp} (hu : u ≠ .not) {c : Char} (cs : List Char) (h5 : H5 c) (hm : c ≠ '-') :
    NoGlue u.sym.toList (c :: cs) := by
  have e1 : (c == '-') = false := by simpa using hm
  have e2 : (c == '=') = false := by simpa using h5.2.2.2.2.1
  cases u with
  | not => exact absurd rfl hu
  | neg =>
    show NoGlue "-".toList (c :: cs)
    refine ⟨?_, noFuse_of_not_fusy (by decide) _⟩
    rw [sepRequired_of "-".toList (c :: cs) '-' c '-' (by decide) rfl (by decide)]
    simp only [sepBool, show wordChars.contains '-' = false by decide, show Gen.digits.contains '-' = false by decide,
      show ('-' == '.') = false by decide, show ('-' == '[') = false by decide, cmpChars,
      show (['<', '>', '=', '~'].contains '-') = false by decide, e1, Bool.false_and, Bool.and_false, Bool.or_false]
  | len =>
    show NoGlue "#".toList (c :: cs)
    refine ⟨?_, noFuse_of_not_fusy (by decide) _⟩
    rw [sepRequired_of "#".toList (c :: cs) '#' c '#' (by decide) rfl (by decide)]
    simp only [sepBool, show wordChars.contains '#' = false by decide, show Gen.digits.contains '#' = false by decide,
      show ('#' == '.') = false by decide, show ('#' == '[') = false by decide, cmpChars,
      show (['<', '>', '=', '~'].contains '#') = false by decide, show ('#' == '-') = false by decide,
      Bool.false_and, Bool.and_false, Bool.or_false]
  | bnot =>
    show NoGlue "~".toList (c :: cs)
    refine ⟨?_, noFuse_of_not_fusy (by decide) _⟩
    rw [sepRequired_of "~".toList (c :: cs) '~' c '~' (by decide) rfl (by decide)]
    simp only [sepBool, show wordChars.contains '~' = false by decide, show Gen.digits.contains '~' = false by decide,
      show ('~' == '.') = false by decide, show ('~' == '[') = false by decide, cmpChars,
      show ('~' == '-') = false by decide, e2, Bool.false_and, Bool.and_false, Bool.or_false]

theorem uop_ne (u : Spec.UOp) : u.sym.toList ≠ [] ∧ u.sym.toList ≠ ['.'] ∧ u.sym.toList ≠ [':'] := by
  cases u <;> decide

theorem bop_ne (o : Spec.BOp) : o.sym.toList ≠ [] ∧ o.sym.toList ≠ ['.'] ∧ o.sym.toList ≠ [':'] := by
  cases o <;> decide

theorem isOpener_uop (u : Spec.UOp) : isOpener u.sym.toList = false := by cases u <;> decide
theorem isOpener_bop (o : Spec.BOp) : isOpener o.sym.toList = false := by cases o <;> decide

/-- what follows a unary operator -/
theorem tr_unop_rest {sty : Style} {e : Expr} (he : SE sty e) (hh : HE sty e) (hp : pExpr e = true)
    (hn : NumsCanon (numsExpr e)) (u : Spec.UOp) :
    Tr (Tight u.sym.toList false)
      (if needUn sty.brOpts u e.kind then wrapParens (visitExpr sty e)
       else if unSpace sty.brOpts u e.kind then S .space :: visitExpr sty e else visitExpr sty e) ExitE := by
  split
  · exact ((tr_wrap_expr he hh).post fun _ h => h.exitE).pre fun _ hσ =>
      pre_of_tight hσ (noGlue_inert (uop_ne u).1 [] inert_closers.2.2.2.1)
  · rename_i h1
    split
    · exact Tr.cons (tr_space.pre fun _ h => h.settled (uop_ne u).2.1 (uop_ne u).2.2)
        ((se_calm he hh).post fun _ h => h.1)
    · rename_i h2
      obtain ⟨hu, hk⟩ := unSpace_table (by simpa using h1) (by simpa using h2)
      refine (he.post fun _ h => h.1).pre fun _ hσ => ?_
      exact pre_of_head (head_not_minus sty e hp hn hk) fun c cs hq => pre_of_tight hσ (noGlue_uop hu cs hq.1 hq.2)

/-! ## argument lists -/

def ExitA (es : List Expr) (σ : DS) : Prop := ExitE σ ∧ ∀ e, es = [e] → endsCallee e = true → ExitC σ

def SA (sty : Style) (es : List Expr) : Prop :=
  es ≠ [] → Tr (Pre (firstStr (visitArgs sty es))) (visitArgs sty es) (ExitA es)

theorem head_args (sty : Style) {es : List Expr} (hp : pArgs es = true) (hn : NumsCanon (numsArgs es)) (hne : es ≠ []) :
    HeadIs (visitArgs sty es) H5 := by
  cases es with
  | nil => exact absurd rfl hne
  | cons e rest =>
    simp only [pArgs, Bool.and_eq_true] at hp
    simp only [numsArgs] at hn
    have := (head_expr sty e hp.1 hn.left).imp fun c h => h.1
    cases rest with
    | nil => simpa [visitArgs] using this
    | cons e2 rest => rw [visitArgs]; exact this.append _

theorem sa_calm {sty : Style} {es : List Expr} (hs : SA sty es) (ha : es ≠ [] → HeadIs (visitArgs sty es) H5)
    (hne : es ≠ []) : Tr Calm (visitArgs sty es) (ExitA es) :=
  (hs hne).pre fun _ hσ => pre_of_head (ha hne) fun _ cs hq => pre_of_calm hσ cs hq.h3

/-- `args )` after `(` -/
theorem tr_args_close {sty : Style} {es : List Expr} (hs : SA sty es) (ha : es ≠ [] → HeadIs (visitArgs sty es) H5) :
    Tr (Tight "(".toList true) (visitArgs sty es ++ [P ")"]) ExitC := by
  have hclose : ∀ σ, Tight ")".toList (isOpener ")".toList) σ → ExitC σ := fun _ h =>
    tight_exitC isOpener_rpar calleeEnd_rpar h
  by_cases hne : es = []
  · subst hne
    simp only [visitArgs, List.nil_append]
    exact (tr_lit_tight litOK_rpar (noGlue_inert (by decide) [] inert_closers.1)).post hclose
  · refine Tr.seq (((hs hne).post fun _ h => h.1).pre fun _ hσ => ?_) ?_
    · exact pre_of_head (ha hne) fun c cs _ => pre_of_tight hσ (noGlue_lpar c cs)
    · exact (tr_lit_exitE litOK_rpar (c := ')') (cs := []) (by decide) inert_closers.1).post hclose

/-- `( args )` -/
theorem tr_wrap_args {sty : Style} {es : List Expr} (hs : SA sty es) (ha : es ≠ [] → HeadIs (visitArgs sty es) H5) :
    Tr (Pre "(".toList) (wrapParens (visitArgs sty es)) ExitC := by
  show Tr _ (P "(" :: (visitArgs sty es ++ [P ")"])) _
  exact Tr.cons ((tr_lit_pre litOK_lpar).post fun _ h => by rw [isOpener_lpar] at h; exact h) (tr_args_close hs ha)

theorem pre_lpar_exitC {σ : DS} (h : ExitC σ) : Pre "(".toList σ := by
  obtain ⟨l, ht, hc⟩ := h
  exact pre_of_tight ht (noGlue_callee hc [] (by decide))

/-- `_format_function_args` directly after the callee -/
theorem tr_fargs {sty : Style} {es : List Expr} (hs : SA sty es) (ha : es ≠ [] → HeadIs (visitArgs sty es) H5) :
    Tr ExitC (fmtFunctionArgs sty es (visitArgs sty es)) ExitC := by
  have hw : Tr ExitC (wrapParens (visitArgs sty es)) ExitC := (tr_wrap_args hs ha).pre fun _ h => pre_lpar_exitC h
  unfold fmtFunctionArgs
  split
  · rename_i t v
    split
    · refine ((hs (by simp)).post fun _ h => h.2 _ rfl rfl).pre fun σ hσ => ?_
      obtain ⟨a, hva, _, _, _, _, c, cs, rfl, hc⟩ := visitString_tok sty v
      obtain ⟨l, ht, hce⟩ := hσ
      have : visitArgs sty [.string t v] = [.str (c :: cs)] := by simp [visitArgs, visitExpr, hva]
      rw [this]
      refine pre_of_tight ht (noGlue_callee hce cs ?_)
      rcases hc with rfl | rfl | rfl <;> decide
    · exact hw
  · rename_i t fs
    split
    · refine ((hs (by simp)).post fun _ h => h.2 _ rfl rfl).pre fun σ hσ => ?_
      obtain ⟨l, ht, hce⟩ := hσ
      have : firstStr (visitArgs sty [.table t fs]) = "{".toList := by simp [visitArgs, visitExpr]
      rw [this]
      exact pre_of_tight ht (noGlue_callee hce [] (by decide))
    · exact hw
  · exact hw

/-! ## comments -/

theorem isLongCom_long {lit v : List Char} (h : IsLongLit lit v) : isLongCom ('-' :: '-' :: lit) = true := by
  obtain ⟨lvl, content, rfl, _⟩ := h
  have : '[' :: repeatChar '=' lvl ++ '[' :: content ++ closer lvl = '[' :: repeatChar '=' lvl ++ '[' :: (content ++ closer lvl) := by
    simp
  simp only [isLongCom, List.drop]
  rw [this, longOpener_written]
  rfl

theorem okPiece_com {σ : DS} {s : List Char} (hc : isCom s = true) :
    okPiece σ (.str s) ↔ σ.last ≠ .comShort ∧ σ.last ≠ .dot ∧ ComOK s ∧ Foll σ s := by
  simp [okPiece, hc]

theorem adv_com {σ : DS} {s : List Char} (hc : isCom s = true) :
    adv σ (.str s) = ⟨none, .str, if isLongCom s then .other else .comShort⟩ := by
  simp [adv, hc]

theorem tr_comment_piece {t : List Char} (b : List Char) (ht : t = '-' :: '-' :: b) (hok : ComOK t) :
    Tr Calm [.str t] (fun σ => σ = ⟨none, .str, if isLongCom t then .other else .comShort⟩) := Tr.one fun σ hσ => by
  have hcom : isCom t = true := by subst ht; simp [isCom, startsWith, isPrefix]
  refine ⟨(okPiece_com hcom).mpr ⟨hσ.1, hσ.2.1, hok, ?_⟩, adv_com hcom⟩
  rw [ht]
  exact foll_calm hσ _ (by unfold H3; decide)

theorem tr_formatComment {sty : Style} (hd : DocStyle sty) (c : List Char) : Tr Calm (formatComment sty c) Calm := by
  rcases formatComment_wf_detail sty hd.comSep c with ⟨_, he, _, hlo, hw⟩ | ⟨_, lit, he, hlit, hw⟩
  · rw [he]
    have ht : "--".toList ++ sty.commentSep ++ pyStrip c = '-' :: '-' :: (sty.commentSep ++ pyStrip c) := by simp
    have hlc : isLongCom ("--".toList ++ sty.commentSep ++ pyStrip c) = false := by
      rw [ht]
      simp [isLongCom, hlo]
    refine Tr.cons (tr_comment_piece _ ht ⟨fun h => (by rw [hlc] at h; cases h), fun _ => hw⟩) (Tr.one fun σ hσ => ?_)
    rw [hlc] at hσ
    subst hσ
    exact ⟨by simp [okPiece], by simp [adv], by simp [adv], by simp [adv], by simp [adv]⟩
  · rw [he]
    have hlc := isLongCom_long hlit
    refine Tr.cons (tr_comment_piece _ rfl ⟨fun _ => hw, fun h => (by rw [hlc] at h; cases h)⟩) (Tr.one fun σ hσ => ?_)
    rw [hlc] at hσ
    subst hσ
    exact ⟨by simp [okPiece], by simp [adv], by simp [adv], by simp [adv], by simp [adv]⟩

theorem tr_comments {sty : Style} (hd : DocStyle sty) (s : Stmt) : Tr Calm (stmtCommentPieces sty s) Calm := by
  unfold stmtCommentPieces
  split
  · generalize stmtComments s = cs
    induction cs with
    | nil => exact Tr.nil
    | cons c cs ih => rw [List.flatMap_cons]; exact Tr.seq (tr_formatComment hd c) ih
  · exact Tr.nil

/-! ## the `;` guard -/

theorem tr_guard (first : Bool) (toks : Pieces) : Tr Calm (stmtGuard first toks) EntryS := by
  unfold stmtGuard
  split
  · split
    · exact Tr.nil.post fun _ h => Or.inl h
    · exact (tr_lit_calm litOK_semi (c := ';') (cs := []) (by decide) (by unfold H3; decide)).post
        fun _ h => Or.inr h
  · exact Tr.nil.post fun _ h => Or.inl h

end Tumfl.Theory
