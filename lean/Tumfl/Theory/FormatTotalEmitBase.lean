import Tumfl.Theory.FormatTotalDefs
import Tumfl.Theory.PrintSimDefs
import Tumfl.Theory.FormatTextEmitRoot
import Tumfl.Theory.IdemNumEmitBase
import Tumfl.Props.C06
/-!
# `format` returns: the compositional invariant `Wf` of piece lists

`Wf` (closed under `++`, implies `StrsOK`, `Bal`, `indBal = 0`, `argOK`; a trailing plain separator can be removed),
and the leaves of the emitter (literals, names, numerals, strings, operators, comments, wrappers, slices).
-/
namespace Tumfl.Theory.TotEmit
open Tumfl Tumfl.Model Tumfl.Theory

/-- the separators that are neither Argument nor Indent / DeIndent -/
def plainSep : Sep → Bool
  | .argument | .indent | .deindent => false
  | _ => true

inductive Wf : Pieces → Prop
  | nil : Wf []
  | str (s : List Char) {r : Pieces} : StrOK s → isBr (.str s) = false → Wf r → Wf (.str s :: r)
  | sep (k : Sep) {r : Pieces} : plainSep k = true → Wf r → Wf (.sep k :: r)
  | arg {r : Pieces} : hasStrB r = true → Wf r → Wf (.sep .argument :: r)
  | grp (o : Char) (c : List Char) {inner r : Pieces} : closingOf c = some o → Wf inner → Wf r →
      Wf (.str [o] :: (inner ++ .str c :: r))
  | ind {inner r : Pieces} : Wf inner → Wf r → Wf (.sep .indent :: (inner ++ .sep .deindent :: r))

/-! ## `hasStrB`, `argOK`, `indBal`, `Bal` over `++` -/

theorem hasStrB_append (a b : Pieces) : hasStrB (a ++ b) = (hasStrB a || hasStrB b) := by
  induction a with
  | nil => simp [hasStrB]
  | cons p a ih =>
    cases p with
    | str s => simp [hasStrB, ih, Bool.or_assoc]
    | sep k => simp [hasStrB, ih]

theorem hasStrB_left {a : Pieces} (b : Pieces) (h : hasStrB a = true) : hasStrB (a ++ b) = true := by
  rw [hasStrB_append, h]; rfl

theorem hasStrB_right (a : Pieces) {b : Pieces} (h : hasStrB b = true) : hasStrB (a ++ b) = true := by
  rw [hasStrB_append, h, Bool.or_true]

theorem hasStrB_str {s : List Char} (h : s ≠ []) (r : Pieces) : hasStrB (.str s :: r) = true := by
  cases s with
  | nil => exact absurd rfl h
  | cons c t => rfl

theorem hasStrB_sep (k : Sep) (r : Pieces) : hasStrB (.sep k :: r) = hasStrB r := rfl

theorem argOK_str (s : List Char) (r : Pieces) : argOK (.str s :: r) = argOK r := rfl

theorem argOK_append {a b : Pieces} (ha : argOK a = true) (hb : argOK b = true) : argOK (a ++ b) = true := by
  induction a with
  | nil => exact hb
  | cons p a ih =>
    cases p with
    | str s => exact ih ha
    | sep k =>
      cases k
      case argument =>
        have ha' : (hasStrB a && argOK a) = true := ha
        rw [Bool.and_eq_true] at ha'
        show (hasStrB (a ++ b) && argOK (a ++ b)) = true
        rw [hasStrB_left b ha'.1, ih ha'.2]; rfl
      all_goals exact ih ha

theorem indBal_str (s : List Char) (r : Pieces) : indBal (.str s :: r) = indBal r := rfl

theorem indBal_append (a b : Pieces) : indBal (a ++ b) = indBal a + indBal b := by
  induction a with
  | nil => simp [indBal]
  | cons p a ih =>
    cases p with
    | str s => exact ih
    | sep k =>
      cases k
      case indent => show indBal (a ++ b) + 1 = indBal a + 1 + indBal b; omega
      case deindent => show indBal (a ++ b) - 1 = indBal a - 1 + indBal b; omega
      all_goals exact ih

theorem Bal.append {a b : Pieces} (ha : Bal a) (hb : Bal b) : Bal (a ++ b) := by
  induction ha with
  | nil => exact hb
  | cons p hp _ ih => exact Bal.cons p hp ih
  | grp o c hc hi _ _ ihr =>
    simp only [List.cons_append, List.append_assoc]
    exact Bal.grp o c hc hi ihr

/-! ## closure of `Wf` under `++` -/

theorem Wf.append {a b : Pieces} (ha : Wf a) (hb : Wf b) : Wf (a ++ b) := by
  induction ha with
  | nil => exact hb
  | str s hs hbr _ ih => exact Wf.str s hs hbr ih
  | sep k hk _ ih => exact Wf.sep k hk ih
  | arg hh _ ih => exact Wf.arg (hasStrB_left b hh) ih
  | grp o c hc hi _ _ ihr =>
    simp only [List.cons_append, List.append_assoc]
    exact Wf.grp o c hc hi ihr
  | ind hi _ _ ihr =>
    simp only [List.cons_append, List.append_assoc]
    exact Wf.ind hi ihr

/-! ## the four projections -/

theorem closingOf_cases {c : List Char} {o : Char} (h : closingOf c = some o) :
    (c = ['}'] ∧ o = '{') ∨ (c = [']'] ∧ o = '[') ∨ (c = [')'] ∧ o = '(') := by
  cases c with
  | nil => simp [closingOf] at h
  | cons x t =>
    cases t with
    | cons y t => simp [closingOf] at h
    | nil =>
      by_cases h1 : x = '}'
      · subst h1
        have : closingOf ['}'] = some '{' := by decide
        rw [this] at h; cases h; exact Or.inl ⟨rfl, rfl⟩
      · by_cases h2 : x = ']'
        · subst h2
          have : closingOf [']'] = some '[' := by decide
          rw [this] at h; cases h; exact Or.inr (Or.inl ⟨rfl, rfl⟩)
        · by_cases h3 : x = ')'
          · subst h3
            have : closingOf [')'] = some '(' := by decide
            rw [this] at h; cases h; exact Or.inr (Or.inr ⟨rfl, rfl⟩)
          · exfalso
            have e1 : (x == Char.ofNat 125) = false := by
              rw [beq_eq_false_iff_ne]; exact h1
            have e2 : (x == Char.ofNat 93) = false := by
              rw [beq_eq_false_iff_ne]; exact h2
            have e3 : (x == Char.ofNat 41) = false := by
              rw [beq_eq_false_iff_ne]; exact h3
            simp [closingOf, Gen.matchingBrackets, List.lookup, e1, e2, e3] at h

theorem strOK_of_closing {c : List Char} {o : Char} (h : closingOf c = some o) : StrOK [o] ∧ StrOK c := by
  rcases closingOf_cases h with ⟨rfl, rfl⟩ | ⟨rfl, rfl⟩ | ⟨rfl, rfl⟩ <;>
    exact ⟨⟨by simp, by decide⟩, ⟨by simp, by decide⟩⟩

theorem Wf.strsOK {ps : Pieces} (h : Wf ps) : StrsOK ps := by
  induction h with
  | nil => intro s hs; cases hs
  | str s hs _ _ ih =>
    intro s' hm
    rcases List.mem_cons.mp hm with e | hm
    · cases e; exact hs
    · exact ih _ hm
  | sep k _ _ ih =>
    intro s' hm
    rcases List.mem_cons.mp hm with e | hm
    · cases e
    · exact ih _ hm
  | arg _ _ ih =>
    intro s' hm
    rcases List.mem_cons.mp hm with e | hm
    · cases e
    · exact ih _ hm
  | grp o c hc _ _ ihi ihr =>
    intro s' hm
    rcases List.mem_cons.mp hm with e | hm
    · cases e; exact (strOK_of_closing hc).1
    · rcases List.mem_append.mp hm with hm | hm
      · exact ihi _ hm
      · rcases List.mem_cons.mp hm with e | hm
        · cases e; exact (strOK_of_closing hc).2
        · exact ihr _ hm
  | ind _ _ ihi ihr =>
    intro s' hm
    rcases List.mem_cons.mp hm with e | hm
    · cases e
    · rcases List.mem_append.mp hm with hm | hm
      · exact ihi _ hm
      · rcases List.mem_cons.mp hm with e | hm
        · cases e
        · exact ihr _ hm

theorem Wf.bal {ps : Pieces} (h : Wf ps) : Bal ps := by
  induction h with
  | nil => exact Bal.nil
  | str s _ hbr _ ih => exact Bal.cons _ hbr ih
  | sep k _ _ ih => exact Bal.cons _ rfl ih
  | arg _ _ ih => exact Bal.cons _ rfl ih
  | grp o c hc _ _ ihi ihr => exact Bal.grp o c hc ihi ihr
  | ind _ _ ihi ihr => exact Bal.cons _ rfl (Bal.append ihi (Bal.cons _ rfl ihr))

theorem Wf.indBal {ps : Pieces} (h : Wf ps) : indBal ps = 0 := by
  induction h with
  | nil => rfl
  | str s _ _ _ ih => exact ih
  | sep k hk _ ih => cases k <;> first | exact ih | cases hk
  | arg _ _ ih => exact ih
  | grp o c _ _ _ ihi ihr =>
    rw [indBal_str, indBal_append, indBal_str, ihi, ihr]; rfl
  | @ind inner r _ _ ihi ihr =>
    show Theory.indBal (inner ++ .sep .deindent :: r) + 1 = 0
    rw [indBal_append, ihi]
    show 0 + (Theory.indBal r - 1) + 1 = 0
    rw [ihr]; rfl

theorem Wf.argOK {ps : Pieces} (h : Wf ps) : argOK ps = true := by
  induction h with
  | nil => rfl
  | str s _ _ _ ih => exact ih
  | sep k hk _ ih => cases k <;> first | exact ih | cases hk
  | @arg r hh _ ih =>
    show (hasStrB r && Theory.argOK r) = true
    rw [hh, ih]; rfl
  | grp o c _ _ _ ihi ihr => exact argOK_append ihi ihr
  | ind _ _ ihi ihr => exact argOK_append ihi ihr

/-! ## removing a trailing plain separator -/

theorem split_snoc {l1 : Pieces} {x : Piece} {r a' : Pieces} {y : Piece} (h : l1 ++ x :: r = a' ++ [y]) :
    (r = [] ∧ x = y ∧ l1 = a') ∨ ∃ r', r = r' ++ [y] ∧ a' = l1 ++ x :: r' := by
  rcases List.eq_nil_or_concat r with rfl | ⟨L, b, e⟩
  · left
    have := List.append_inj' h rfl
    exact ⟨rfl, by simpa using this.2, this.1⟩
  · right
    rw [List.concat_eq_append] at e; subst e
    have h' : (l1 ++ x :: L) ++ [b] = a' ++ [y] := by simpa using h
    have := List.append_inj' h' rfl
    refine ⟨L, ?_, this.1.symm⟩
    have e : b = y := by simpa using this.2
    rw [e]

theorem Wf.strip_aux {x : Pieces} (h : Wf x) : ∀ (a : Pieces) (k : Sep), plainSep k = true → x = a ++ [.sep k] → Wf a := by
  induction h with
  | nil => intro a k _ e; cases a <;> simp at e
  | str s hs hbr _ ih =>
    intro a k hk e
    cases a with
    | nil => simp at e
    | cons p a' =>
      simp only [List.cons_append, List.cons.injEq] at e
      obtain ⟨rfl, e⟩ := e
      exact Wf.str s hs hbr (ih a' k hk e)
  | sep k0 hk0 _ ih =>
    intro a k hk e
    cases a with
    | nil => exact Wf.nil
    | cons p a' =>
      simp only [List.cons_append, List.cons.injEq] at e
      obtain ⟨rfl, e⟩ := e
      exact Wf.sep k0 hk0 (ih a' k hk e)
  | arg hh _ ih =>
    intro a k hk e
    cases a with
    | nil =>
      simp only [List.nil_append, List.cons.injEq, Piece.sep.injEq] at e
      rw [← e.1] at hk; cases hk
    | cons p a' =>
      simp only [List.cons_append, List.cons.injEq] at e
      obtain ⟨rfl, e⟩ := e
      refine Wf.arg ?_ (ih a' k hk e)
      rw [e, hasStrB_append] at hh
      simpa [hasStrB] using hh
  | grp o c hc hi _ _ ihr =>
    intro a k hk e
    cases a with
    | nil => simp at e
    | cons p a' =>
      simp only [List.cons_append, List.cons.injEq] at e
      obtain ⟨rfl, e⟩ := e
      rcases split_snoc e with ⟨_, e2, _⟩ | ⟨r', e1, e2⟩
      · cases e2
      · subst e2
        exact Wf.grp o c hc hi (ihr r' k hk e1)
  | ind hi _ _ ihr =>
    intro a k hk e
    cases a with
    | nil =>
      simp only [List.nil_append, List.cons.injEq] at e
      have := e.1
      cases this; cases hk
    | cons p a' =>
      simp only [List.cons_append, List.cons.injEq] at e
      obtain ⟨rfl, e⟩ := e
      rcases split_snoc e with ⟨_, e2, _⟩ | ⟨r', e1, e2⟩
      · cases e2; cases hk
      · subst e2
        exact Wf.ind hi (ihr r' k hk e1)

/-- a plain separator at the very end can be removed -/
theorem Wf.strip {a : Pieces} {k : Sep} (hk : plainSep k = true) (h : Wf (a ++ [.sep k])) : Wf a :=
  Wf.strip_aux h a k hk rfl

/-! ## atoms: text pieces that are no brackets -/

def Atom (s : List Char) : Prop := StrOK s ∧ isBr (.str s) = false

theorem Wf.atom {s : List Char} {r : Pieces} (h : Atom s) (hr : Wf r) : Wf (.str s :: r) := Wf.str s h.1 h.2 hr

theorem Atom.ne_nil {s : List Char} (h : Atom s) : s ≠ [] := h.1.1

def atomB (s : List Char) : Bool := !s.isEmpty && !isQuoted s && !isBr (.str s)

theorem atom_of_B {s : List Char} (h : atomB s = true) : Atom s := by
  simp only [atomB, Bool.and_eq_true, Bool.not_eq_true'] at h
  refine ⟨⟨?_, ?_⟩, h.2⟩
  · intro e; subst e; simp at h
  · intro hq; rw [h.1.2] at hq; cases hq

theorem atom_cons {a : Char} {t : List Char} (h1 : a ≠ '"') (h2 : a ≠ '\'') (hb : t = [] → isBrCh a = false) :
    Atom (a :: t) := by
  refine ⟨⟨by simp, ?_⟩, ?_⟩
  · intro hq
    simp [isQuoted, h1, h2] at hq
  · cases t with
    | nil => exact hb rfl
    | cons b t => rfl

theorem atom_head2 {a b : Char} {t : List Char} (h1 : a ≠ '"') (h2 : a ≠ '\'') : Atom (a :: b :: t) :=
  atom_cons h1 h2 (fun e => by cases e)

/-- literal pieces -/
theorem Wf.lit {s : String} {r : Pieces} (h : atomB s.toList = true) (hr : Wf r) : Wf (P s :: r) :=
  Wf.atom (atom_of_B h) hr

theorem Wf.sepP {k : Sep} {r : Pieces} (hk : plainSep k = true) (hr : Wf r) : Wf (S k :: r) := Wf.sep k hk hr

theorem Wf.argS {r : Pieces} (hh : hasStrB r = true) (hr : Wf r) : Wf (S .argument :: r) := Wf.arg hh hr

theorem Wf.paren {inner r : Pieces} (hi : Wf inner) (hr : Wf r) : Wf (P "(" :: (inner ++ P ")" :: r)) :=
  Wf.grp '(' [')'] (by decide) hi hr

theorem Wf.brack {inner r : Pieces} (hi : Wf inner) (hr : Wf r) : Wf (P "[" :: (inner ++ P "]" :: r)) :=
  Wf.grp '[' [']'] (by decide) hi hr

theorem Wf.curly {inner r : Pieces} (hi : Wf inner) (hr : Wf r) : Wf (P "{" :: (inner ++ P "}" :: r)) :=
  Wf.grp '{' ['}'] (by decide) hi hr

theorem Wf.indS {inner r : Pieces} (hi : Wf inner) (hr : Wf r) : Wf (S .indent :: (inner ++ S .deindent :: r)) :=
  Wf.ind hi hr

theorem Wf.ite {c : Prop} [Decidable c] {a b : Pieces} (ha : Wf a) (hb : Wf b) : Wf (if c then a else b) := by
  split <;> assumption

/-! ## character classes -/

theorem alnum_ok {c : Char} (h : Spec.isAlnum c = true) : c ≠ '"' ∧ c ≠ '\'' ∧ isBrCh c = false := by
  refine ⟨?_, ?_, ?_⟩
  · intro e; subst e; revert h; decide
  · intro e; subst e; revert h; decide
  · rw [Bool.eq_false_iff]
    intro hb
    simp only [isBrCh, Bool.or_eq_true, beq_iff_eq] at hb
    rcases hb with ((((rfl | rfl) | rfl) | rfl) | rfl) | rfl <;> revert h <;> decide

theorem alpha_ok {c : Char} (h : Spec.isAlpha c = true) : c ≠ '"' ∧ c ≠ '\'' ∧ isBrCh c = false :=
  alnum_ok (by simp [Spec.isAlnum, h])

theorem digit_ok {c : Char} (h : Spec.isDigit c = true) : c ≠ '"' ∧ c ≠ '\'' ∧ isBrCh c = false :=
  alnum_ok (by simp [Spec.isAlnum, h])

/-! ## leaves -/

theorem atom_ident {n : List Char} (h : identOK n = true) : Atom n := by
  cases n with
  | nil => simp [identOK] at h
  | cons c cs =>
    simp only [identOK, Bool.and_eq_true] at h
    have := alpha_ok h.1.1
    exact atom_cons this.1 this.2.1 (fun _ => this.2.2)

theorem atom_nameStr {e : Expr} (h : nameNodeOK e = true) : Atom (nameStr e) := by
  obtain ⟨t, n, rfl, hn⟩ := nameNodeOK_iff h
  exact atom_ident hn

theorem atom_number {n : NumTuple} (h : numOKp n = true) : Atom (numberStr n) := by
  simp only [numOKp, Bool.and_eq_true] at h
  have h1 := h.1
  clear h
  generalize numberStr n = s at h1
  cases s with
  | nil => simp at h1
  | cons c cs =>
    simp only [Bool.or_eq_true, Bool.and_eq_true, beq_iff_eq] at h1
    rcases h1 with hd | ⟨rfl, hd⟩
    · have := digit_ok hd
      exact atom_cons this.1 this.2.1 (fun _ => this.2.2)
    · cases cs with
      | nil => simp at hd
      | cons d t => exact atom_head2 (by decide) (by decide)

theorem atom_bop (o : Spec.BOp) : Atom o.sym.toList := by
  cases o <;> exact atom_of_B (by decide)

theorem atom_uop (u : Spec.UOp) : Atom u.sym.toList := by
  cases u <;> exact atom_of_B (by decide)

theorem visitString_atom (sty : Style) (v : List Char) : ∃ a, visitString sty v = [.str a] ∧ Atom a := by
  rcases Props.C06_forms sty v with ⟨q, hq, h⟩ | h
  · refine ⟨_, h, ⟨by simp, ?_⟩, ?_⟩
    · intro _
      show ((q :: v.flatMap (escapeChar q)) ++ [q]).getLast? = some q
      rw [List.getLast?_concat]
    · cases hb : v.flatMap (escapeChar q) with
      | nil => rfl
      | cons b t => rfl
  · refine ⟨_, h, ?_⟩
    cases hb : repeatChar '=' (findLevel v) with
    | nil => exact atom_head2 (by decide) (by decide)
    | cons b t => exact atom_head2 (by decide) (by decide)

theorem wf_visitString (sty : Style) (v : List Char) : Wf (visitString sty v) := by
  obtain ⟨a, e, ha⟩ := visitString_atom sty v
  rw [e]; exact Wf.atom ha Wf.nil

theorem hasStr_visitString (sty : Style) (v : List Char) : hasStrB (visitString sty v) = true := by
  obtain ⟨a, e, ha⟩ := visitString_atom sty v
  rw [e]; exact hasStrB_str ha.ne_nil _

/-! ## comments -/

theorem wf_formatComment (sty : Style) (c : List Char) : Wf (formatComment sty c) := by
  simp only [formatComment]
  split
  · exact Wf.atom (atom_head2 (a := '-') (b := '-') (by decide) (by decide)) (Wf.sepP rfl Wf.nil)
  · exact Wf.atom (atom_head2 (a := '-') (b := '-') (by decide) (by decide)) (Wf.sepP rfl Wf.nil)

theorem wf_flatMap_formatComment (sty : Style) (cs : List (List Char)) : Wf (cs.flatMap (formatComment sty)) := by
  induction cs with
  | nil => exact Wf.nil
  | cons c cs ih =>
    rw [List.flatMap_cons]
    exact Wf.append (wf_formatComment sty c) ih

theorem wf_stmtCommentPieces (sty : Style) (s : Stmt) : Wf (stmtCommentPieces sty s) := by
  unfold stmtCommentPieces
  split
  · exact wf_flatMap_formatComment sty _
  · exact Wf.nil

theorem wf_stmtGuard (first : Bool) (toks : Pieces) : Wf (stmtGuard first toks) := by
  unfold stmtGuard
  split
  · cases first
    · exact Wf.lit (by decide) Wf.nil
    · exact Wf.nil
  · exact Wf.nil

/-! ## wrappers -/

theorem wf_wrapParens {ps : Pieces} (h : Wf ps) : Wf (wrapParens ps) := Wf.paren h Wf.nil

theorem hasStr_wrapParens (ps : Pieces) : hasStrB (wrapParens ps) = true := rfl

theorem wf_fmtVar (e : Expr) {ps : Pieces} (h : Wf ps) : Wf (fmtVar e ps) := by
  unfold fmtVar; split
  · exact h
  · exact wf_wrapParens h

theorem hasStr_fmtVar (e : Expr) {ps : Pieces} (h : hasStrB ps = true) : hasStrB (fmtVar e ps) = true := by
  unfold fmtVar; split
  · exact h
  · rfl

theorem wf_fmtKey {ps : Pieces} (h : Wf ps) : Wf (fmtKey ps) := by
  unfold fmtKey
  split
  · split
    · exact Wf.sepP rfl h
    · exact h
  · exact h

theorem wf_fmtFunctionArgs (sty : Style) (args : List Expr) {ps : Pieces} (h : Wf ps) :
    Wf (fmtFunctionArgs sty args ps) := by
  unfold fmtFunctionArgs
  split <;> (try split) <;> first | exact h | exact wf_wrapParens h

theorem atom_attName_wf (n : Expr) (a : Option Expr) (h : attOK (.mk n a) = true) :
    Wf (attName n a) ∧ hasStrB (attName n a) = true := by
  cases a with
  | none =>
    simp only [attOK, Bool.and_true] at h
    exact ⟨Wf.atom (atom_nameStr h) Wf.nil, hasStrB_str (atom_nameStr h).ne_nil _⟩
  | some att =>
    simp only [attOK, Bool.and_eq_true] at h
    exact ⟨Wf.atom (atom_nameStr h.1) (Wf.sepP rfl (Wf.lit (by decide) (Wf.atom (atom_nameStr h.2)
      (Wf.lit (by decide) Wf.nil)))), hasStrB_str (atom_nameStr h.1).ne_nil _⟩

theorem wf_visitAttNames (names : List AttName) (h : names.all attOK = true) :
    Wf (visitAttNames names) ∧ (names ≠ [] → hasStrB (visitAttNames names) = true) := by
  induction names with
  | nil => exact ⟨Wf.nil, fun h => absurd rfl h⟩
  | cons x rest ih =>
    obtain ⟨n, a⟩ := x
    simp only [List.all_cons, Bool.and_eq_true] at h
    obtain ⟨h1, h2⟩ := atom_attName_wf n a h.1
    cases rest with
    | nil => exact ⟨by simpa [visitAttNames] using h1, fun _ => by simpa [visitAttNames] using h2⟩
    | cons y rest =>
      obtain ⟨i1, i2⟩ := ih h.2
      refine ⟨?_, fun _ => ?_⟩
      · show Wf (attName n a ++ S .argument :: visitAttNames (y :: rest))
        exact Wf.append h1 (Wf.argS (i2 (by simp)) i1)
      · show hasStrB (attName n a ++ S .argument :: visitAttNames (y :: rest)) = true
        exact hasStrB_left _ h2

/-! ## slices -/

theorem drop1_eq (sty : Style) (b : Block) :
    (visitBlockFull sty b).drop 1 = S .block :: S .indent :: (bodyPieces sty b.stmts b.rets ++ [S .deindent, P "end"]) := by
  rw [full_eq]; rfl

theorem wf_drop1 (sty : Style) (b : Block) {r : Pieces} (h : Wf (bodyPieces sty b.stmts b.rets)) (hr : Wf r) :
    Wf ((visitBlockFull sty b).drop 1 ++ r) := by
  rw [drop1_eq]
  simp only [List.cons_append, List.append_assoc, List.nil_append]
  exact Wf.sepP rfl (Wf.indS h (Wf.lit (by decide) hr))

theorem wf_full (sty : Style) (b : Block) (h : Wf (bodyPieces sty b.stmts b.rets)) :
    Wf (visitBlockFull sty b) := by
  rw [full_eq]
  exact Wf.lit (by decide) (Wf.sepP rfl (Wf.indS h (Wf.lit (by decide) Wf.nil)))

theorem wf_blk (sty : Style) (b : Block) (hc : b.isChunk = false) (h : Wf (bodyPieces sty b.stmts b.rets)) :
    Wf (blk b (visitBlockFull sty b)) := by
  rw [blk, hc]
  exact wf_full sty b h

theorem wf_slice21 (sty : Style) (b : Block) (hc : b.isChunk = false) (h : Wf (bodyPieces sty b.stmts b.rets)) :
    Wf (sliceInner 2 1 (blk b (visitBlockFull sty b))) := by
  rw [slice21_eq sty b hc]
  exact Wf.indS h Wf.nil

theorem wf_emit (sty : Style) (b : Block) (hc : b.isChunk = true) (h : Wf (bodyPieces sty b.stmts b.rets)) :
    Wf (emit sty b) := by
  rcases ft_emit_chunk sty b hc with ⟨_, e⟩ | e
  · rw [e]; exact Wf.nil
  · rw [← e] at h
    exact Wf.strip (k := .statement) rfl h

theorem pExpr_of_nameNode {e : Expr} (h : nameNodeOK e = true) : pExpr e = true := NumEmit.pExpr_of_nameNode h

end Tumfl.Theory.TotEmit
