import Tumfl.Theory.FormatTextLay
import Tumfl.Theory.FormatTextTok
/-!
# The discipline of the pieces after the layout passes: `DL`
-/
namespace Tumfl.Theory
open Tumfl Tumfl.Model

/-- what the text produced so far ends with, as far as the next piece is concerned -/
inductive Pend
  /-- white space, a separator token, a long comment, or nothing at all -/
  | none
  /-- the token `x`, nothing since -/
  | t0 (x : List Char)
  /-- the token `x`, then Indent / DeIndent only -/
  | t1 (x : List Char)
  /-- a Dot separator (then Indent / DeIndent only) -/
  | dotp
  /-- a short comment (then Indent / DeIndent only) -/
  | short
  deriving DecidableEq

def Pend.bump : Pend → Pend
  | .t0 x => .t1 x
  | p => p

def FollP : Pend → List Char → Prop
  | .none, _ => True
  | .t0 x, s => NoGlue x s
  | .t1 x, s => NoGlue x s
  | .dotp, s => NoGlue ['.'] s
  | .short, _ => False

/-- the source list with an Argument separator inserted in front of some `}` -/
inductive TC : Pieces → Pieces → Prop
  | nil : TC [] []
  | keep (p : Piece) {a L : Pieces} : TC a L → TC (p :: a) (p :: L)
  | comma {a L : Pieces} : TC (.str ['}'] :: a) L → TC (.str ['}'] :: a) (.sep .argument :: L)

theorem TC.refl : ∀ a : Pieces, TC a a
  | [] => .nil
  | p :: a => .keep p (TC.refl a)

/-- the guarded form of `TC`: an Argument separator is only inserted in front of a `}` when the last text piece before it
(reset by an Argument separator) exists and is not `{`, and only one is inserted -/
inductive TCgd : Option (List Char) → Pieces → Pieces → Prop
  | nil {p} : TCgd p [] []
  | str {p} (s : List Char) {a L : Pieces} : TCgd (some s) a L → TCgd p (.str s :: a) (.str s :: L)
  | arg {p} {a L : Pieces} : TCgd none a L → TCgd p (.sep .argument :: a) (.sep .argument :: L)
  | sep {p} (k : Sep) {a L : Pieces} : k ≠ .argument → TCgd p a L → TCgd p (.sep k :: a) (.sep k :: L)
  | comma {s : List Char} {a L : Pieces} : s ≠ ['{'] → TCgd none (.str ['}'] :: a) L →
      TCgd (some s) (.str ['}'] :: a) (.sep .argument :: L)

theorem TCgd.toTC : ∀ {p a L}, TCgd p a L → TC a L
  | _, _, _, .nil => .nil
  | _, _, _, .str s h => .keep _ h.toTC
  | _, _, _, .arg h => .keep _ h.toTC
  | _, _, _, .sep k _ h => .keep _ h.toTC
  | _, _, _, .comma _ h => .comma h.toTC

theorem TCgd.refl : ∀ (p : Option (List Char)) (a : Pieces), TCgd p a a
  | _, [] => .nil
  | _, .str s :: a => .str s (TCgd.refl _ a)
  | _, .sep .argument :: a => .arg (TCgd.refl _ a)
  | p, .sep .statement :: a => .sep _ (by decide) (TCgd.refl p a)
  | p, .sep .newline :: a => .sep _ (by decide) (TCgd.refl p a)
  | p, .sep .space :: a => .sep _ (by decide) (TCgd.refl p a)
  | p, .sep .dot :: a => .sep _ (by decide) (TCgd.refl p a)
  | p, .sep .indent :: a => .sep _ (by decide) (TCgd.refl p a)
  | p, .sep .deindent :: a => .sep _ (by decide) (TCgd.refl p a)
  | p, .sep .block :: a => .sep _ (by decide) (TCgd.refl p a)

/-- `DL sty d pend out L`: the piece list `out` (after the layout passes; `d`: after `remove_orphaned` as well) is a layout of
the piece list `L` in which tokens that meet without white space do not glue -/
inductive DL (sty : Style) (d : Bool) : Pend → Pieces → Pieces → Prop
  | nil {pend : Pend} : DL sty d pend [] []
  | tok {pend : Pend} {s : List Char} {r L : Pieces} : isCom s = false → GoodTok s → FollP pend s →
      DL sty d (.t0 s) r L → DL sty d pend (.str s :: r) (.str s :: L)
  | grp {pend : Pend} {q : List Char} {ind : Int} {ps G r L : Pieces} : isCom q = false → GoodTok q →
      stringIdent q ind sty = .ok ps → InsIn ps G → FollP pend q →
      DL sty d (.t0 q) r L → DL sty d pend (G ++ r) (.str q :: L)
  | com {pend : Pend} {s : List Char} {r L : Pieces} : isCom s = true → ComOK s → FollP pend s →
      DL sty d (if isLongCom s then .none else .short) r L → DL sty d pend (.str s :: r) (.str s :: L)
  | dot {pend : Pend} {r L : Pieces} : FollP pend ['.'] → DL sty d .dotp r L →
      DL sty d pend (.sep .dot :: r) (.sep .dot :: L)
  | sepT {pend : Pend} {k : Sep} {r L : Pieces} : (k = .space ∨ k = .block ∨ k = .argument) → pend ≠ .short →
      DL sty d .none r L → DL sty d pend (.sep k :: r) (.sep k :: L)
  | stmt {pend : Pend} {r L : Pieces} : pend ≠ .short → pend ≠ .dotp → (∀ x, pend ≠ .t1 x) → DL sty d .none r L →
      DL sty d pend (.sep .statement :: r) (.sep .statement :: L)
  | nl {pend : Pend} {r L : Pieces} : DL sty d .none r L → DL sty d pend (.sep .newline :: r) (.sep .newline :: L)
  | nlIns {pend : Pend} {r L : Pieces} : DL sty d .none r L → DL sty d pend (.sep .newline :: r) L
  | ind {pend : Pend} {k : Sep} {r L : Pieces} : (k = .indent ∨ k = .deindent) → DL sty d pend.bump r L →
      DL sty d pend (.sep k :: r) (.sep k :: L)
  | indIns {pend : Pend} {k : Sep} {r L : Pieces} : (k = .indent ∨ k = .deindent) → (d = false → HeadNotStmt r) →
      DL sty d pend.bump r L → DL sty d pend (.sep k :: r) L
  | dropS {pend : Pend} {r L : Pieces} : d = true → DL sty d pend r L → DL sty d pend r (.sep .statement :: L)

/-! ## from the source discipline and the alignment to `DL` -/

/-- coupling of the source state and the pending state -/
def J (σ : DS) : Pend → Prop
  | .none => True
  | .t0 x => σ.tok = some x ∧ σ.near = .str
  | .t1 x => σ.tok = some x ∧ σ.near = .str
  | .dotp => σ.tok = some ['.'] ∧ σ.last = .dot
  | .short => σ.last = .comShort

theorem J_bump {σ : DS} {pend : Pend} (h : J σ pend) : J σ pend.bump := by
  cases pend <;> exact h

theorem follP_of_J {σ : DS} {pend : Pend} (hj : J σ pend) {s : List Char} (hl : σ.last ≠ .comShort) (hf : Foll σ s) :
    FollP pend s := by
  cases pend with
  | none => trivial
  | t0 x => exact (hf x hj.1).2 (Or.inl hj.2)
  | t1 x => exact (hf x hj.1).2 (Or.inl hj.2)
  | dotp => exact (hf _ hj.1).2 (Or.inr hj.2)
  | short => exact absurd hj hl

/-- the inserted separators in front of a `}` -/
theorem dl_W {sty : Style} : ∀ (W : Pieces), (∀ x ∈ W, LaySep x) → ∀ {s : List Char} {b L : Pieces},
    DL sty false .none (.str s :: b) L → DL sty false .none (W ++ .str s :: b) L
  | [], _, _, _, _, h => h
  | w :: W, hW, s, b, L, h => by
    have ih := dl_W W (fun x hx => hW x (by simp [hx])) h
    have hns : HeadNotStmt (W ++ .str s :: b) := by
      cases W with
      | nil => exact ⟨_, _, rfl, by simp⟩
      | cons w2 W2 =>
        refine ⟨w2, W2 ++ .str s :: b, rfl, ?_⟩
        rcases hW w2 (by simp) with e | e | e <;> rw [e] <;> simp
    rcases hW w (by simp) with rfl | rfl | rfl
    · exact .nlIns ih
    · exact .indIns (.inl rfl) (fun _ => hns) ih
    · exact .indIns (.inr rfl) (fun _ => hns) ih

/-- coupling of the source state with the piece in front and the last text piece since the last Argument separator -/
def KK (σ : DS) (pv : Option Piece) (pt : Option (List Char)) : Prop :=
  ∀ bb, σ.last = .tok bb → ∃ s, pv = some (.str s) ∧ pt = some s

theorem lay_dl {sty : Style} {tc : Bool} {pv : Option Piece} {a b : Pieces} (h : Lay sty tc pv a b) :
    ∀ (σ : DS) (pend : Pend) (pt : Option (List Char)), Disc σ a → J σ pend →
    (∀ x, pend = .t1 x → σ.last = .indent ∨ HeadNotStmt b) → KK σ pv pt →
    ∃ L, TCgd pt a L ∧ DL sty false pend b L ∧ (tc = false → L = a) := by
  induction h with
  | nil => intro σ pend pt _ _ _ _; exact ⟨[], .nil, .nil, fun _ => rfl⟩
  | @keep pv p a b _ ih =>
    intro σ pend pt hd hj h3 hk
    obtain ⟨hok, hrest⟩ := hd
    cases p with
    | str s =>
      by_cases hc : isCom s = true
      · have hok' := hok
        simp only [okPiece, hc, if_true] at hok'
        obtain ⟨h1, _, h2, hf⟩ := hok'
        have hadv : adv σ (.str s) = ⟨none, .str, if isLongCom s then .other else .comShort⟩ := by simp [adv, hc]
        obtain ⟨L, htc, hdl, hL⟩ := ih (adv σ (.str s)) (if isLongCom s then .none else .short) (some s) hrest
          (by rw [hadv]; split <;> simp [J, *]) (by intro x hx; split at hx <;> cases hx)
          (by rw [hadv]; intro bb hb; split at hb <;> cases hb)
        exact ⟨_, .str s htc, .com hc h2 (follP_of_J hj h1 hf) hdl, fun h => by rw [hL h]⟩
      · have hc' : isCom s = false := by simpa using hc
        have hok' := hok
        simp only [okPiece, hc', Bool.false_eq_true, if_false] at hok'
        obtain ⟨h1, h2, hf, _⟩ := hok'
        have hadv : adv σ (.str s) = ⟨some s, .str, .tok (isOpener s)⟩ := by simp [adv, hc']
        obtain ⟨L, htc, hdl, hL⟩ := ih (adv σ (.str s)) (.t0 s) (some s) hrest (by rw [hadv]; exact ⟨rfl, rfl⟩)
          (by intro x hx; cases hx) (fun _ _ => ⟨s, rfl, rfl⟩)
        exact ⟨_, .str s htc, .tok hc' h2 (follP_of_J hj h1 hf) hdl, fun h => by rw [hL h]⟩
    | sep k =>
      have hkk : ∀ pt', k ≠ .argument ∨ True → KK (adv σ (.sep k)) (some (.sep k)) pt' := by
        intro pt' _ bb hb
        cases k <;> simp [adv] at hb
      cases k with
      | dot =>
        obtain ⟨hl, x, hx, hn, hg⟩ := hok
        have hf : FollP pend ['.'] := by
          cases pend with
          | none => trivial
          | t0 y => obtain ⟨h1, _⟩ := hj; rw [hx] at h1; cases h1; exact hg
          | t1 y => obtain ⟨h1, _⟩ := hj; rw [hx] at h1; cases h1; exact hg
          | dotp => obtain ⟨h1, _⟩ := hj; rw [hx] at h1; cases h1; exact hg
          | short => exact absurd hj hl
        obtain ⟨L, htc, hdl, hL⟩ := ih (adv σ (.sep .dot)) .dotp pt hrest ⟨rfl, rfl⟩ (by intro x hx; cases hx)
          (hkk pt (.inr trivial))
        exact ⟨_, .sep _ (by decide) htc, .dot hf hdl, fun h => by rw [hL h]⟩
      | space =>
        obtain ⟨L, htc, hdl, hL⟩ := ih (adv σ (.sep .space)) .none pt hrest trivial (by intro x hx; cases hx)
          (hkk pt (.inr trivial))
        refine ⟨_, .sep _ (by decide) htc, .sepT (Or.inl rfl) ?_ hdl, fun h => by rw [hL h]⟩
        rintro rfl; exact hok.1 hj
      | block =>
        obtain ⟨L, htc, hdl, hL⟩ := ih (adv σ (.sep .block)) .none pt hrest trivial (by intro x hx; cases hx)
          (hkk pt (.inr trivial))
        refine ⟨_, .sep _ (by decide) htc, .sepT (Or.inr (Or.inl rfl)) ?_ hdl, fun h => by rw [hL h]⟩
        rintro rfl; exact hok.1 hj
      | argument =>
        obtain ⟨L, htc, hdl, hL⟩ := ih (adv σ (.sep .argument)) .none none hrest trivial (by intro x hx; cases hx)
          (hkk none (.inr trivial))
        refine ⟨_, .arg htc, .sepT (Or.inr (Or.inr rfl)) ?_ hdl, fun h => by rw [hL h]⟩
        rintro rfl
        have h1 : σ.last = .tok false := hok
        have h2 : σ.last = .comShort := hj
        rw [h1] at h2; cases h2
      | statement =>
        obtain ⟨L, htc, hdl, hL⟩ := ih (adv σ (.sep .statement)) .none pt hrest trivial (by intro x hx; cases hx)
          (hkk pt (.inr trivial))
        obtain ⟨h1, h2, h4⟩ := hok
        refine ⟨_, .sep _ (by decide) htc, .stmt ?_ ?_ ?_ hdl, fun h => by rw [hL h]⟩
        · rintro rfl; exact h1 hj
        · rintro rfl; exact h2 hj.2
        · rintro x rfl
          rcases h3 x rfl with hl | ⟨p, r, e, hp⟩
          · exact h4 hl hj.2
          · cases e; exact hp rfl
      | newline =>
        obtain ⟨L, htc, hdl, hL⟩ := ih (adv σ (.sep .newline)) .none pt hrest trivial (by intro x hx; cases hx)
          (hkk pt (.inr trivial))
        exact ⟨_, .sep _ (by decide) htc, .nl hdl, fun h => by rw [hL h]⟩
      | indent =>
        have hj' : J (adv σ (.sep .indent)) pend.bump := by
          cases pend with
          | none => trivial
          | t0 x => exact hj
          | t1 x => exact hj
          | dotp => exact absurd hj.2 hok.2
          | short => exact absurd hj hok.1
        obtain ⟨L, htc, hdl, hL⟩ := ih (adv σ (.sep .indent)) pend.bump pt hrest hj' (fun x _ => Or.inl rfl)
          (hkk pt (.inr trivial))
        exact ⟨_, .sep _ (by decide) htc, .ind (Or.inl rfl) hdl, fun h => by rw [hL h]⟩
      | deindent =>
        have hj' : J (adv σ (.sep .deindent)) pend.bump := by
          cases pend with
          | none => trivial
          | t0 x => exact hj
          | t1 x => exact hj
          | dotp => exact absurd hj.2 hok.2
          | short => exact absurd hj hok.1
        obtain ⟨L, htc, hdl, hL⟩ := ih (adv σ (.sep .deindent)) pend.bump pt hrest hj' (fun x _ => Or.inl rfl)
          (hkk pt (.inr trivial))
        exact ⟨_, .sep _ (by decide) htc, .ind (Or.inr rfl) hdl, fun h => by rw [hL h]⟩
  | @insNl pv a b _ ih =>
    intro σ pend pt hd _ _ hk
    obtain ⟨L, htc, hdl, hL⟩ := ih σ .none pt hd trivial (by intro x hx; cases hx) hk
    exact ⟨L, htc, .nlIns hdl, hL⟩
  | @insInd pv k a b hk hh _ ih =>
    intro σ pend pt hd hj _ hkk
    obtain ⟨L, htc, hdl, hL⟩ := ih σ pend.bump pt hd (J_bump hj) (fun x _ => Or.inr hh) hkk
    exact ⟨L, htc, .indIns hk (fun _ => hh) hdl, hL⟩
  | @comma pv W a b ht hp hw _ ih =>
    intro σ pend pt hd hj _ hkk
    obtain ⟨hok, hrest⟩ := hd
    have hc : isCom ['}'] = false := by decide
    have hok' := hok
    simp only [okPiece, hc, Bool.false_eq_true, if_false] at hok'
    obtain ⟨h1, h2, _, h4⟩ := hok'
    obtain ⟨bb, hbb⟩ := h4 trivial
    obtain ⟨s, hpv, hpt⟩ := hkk bb hbb
    have hs : s ≠ ['{'] := by
      rintro rfl
      exact hp hpv
    have hadv : adv σ (.str ['}']) = ⟨some ['}'], .str, .tok (isOpener ['}'])⟩ := by simp [adv, hc]
    obtain ⟨L, htc, hdl, _⟩ := ih (adv σ (.str ['}'])) (.t0 ['}']) (some ['}']) hrest (by rw [hadv]; exact ⟨rfl, rfl⟩)
      (by intro x hx; cases hx) (fun _ _ => ⟨_, rfl, rfl⟩)
    subst hpt
    refine ⟨.sep .argument :: .str ['}'] :: L, .comma hs (.str _ htc), ?_, fun h => by rw [ht] at h; cases h⟩
    refine .sepT (Or.inr (Or.inr rfl)) ?_ (dl_W W hw (.tok hc h2 trivial hdl))
    rintro rfl; exact h1 hj
  | @dropArg pv o a b ho _ _ =>
    intro σ pend pt hd _ _ _
    exfalso
    have hc : isCom [o] = false := by rcases ho with rfl | rfl | rfl <;> decide
    have hop : isOpener [o] = true := by rcases ho with rfl | rfl | rfl <;> decide
    have h2 := hd.2.1
    have hadv : adv σ (.str [o]) = ⟨some [o], .str, .tok true⟩ := by simp [adv, hc, hop]
    rw [hadv] at h2
    have : (LastK.tok true) = .tok false := h2
    cases this
  | @wrap pv q ind ps G a b hs hg _ ih =>
    intro σ pend pt hd hj _ _
    obtain ⟨hok, hrest⟩ := hd
    have hq := stringIdent_isQuoted hs
    have hc : isCom q = false := by
      cases q with
      | nil => rfl
      | cons c cs =>
        simp only [isQuoted, List.head?_cons, Bool.or_eq_true, beq_iff_eq] at hq
        rcases hq with rfl | rfl <;> simp [isCom, startsWith, isPrefix]
    simp only [okPiece, hc, Bool.false_eq_true, if_false] at hok
    obtain ⟨h1, h2, hf, _⟩ := hok
    have hadv : adv σ (.str q) = ⟨some q, .str, .tok (isOpener q)⟩ := by simp [adv, hc]
    obtain ⟨L, htc, hdl, hL⟩ := ih (adv σ (.str q)) (.t0 q) (some q) hrest (by rw [hadv]; exact ⟨rfl, rfl⟩)
      (by intro x hx; cases hx) (fun _ _ => ⟨q, rfl, rfl⟩)
    exact ⟨_, .str q htc, .grp hc h2 hs hg (follP_of_J hj h1 hf) hdl, fun h => by rw [hL h]⟩

end Tumfl.Theory
