import Tumfl.Theory.FormatTextDL
/-!
# Stage B4: `remove_orphaned` keeps the discipline `DL` (dropping Statement separators where harmless)
-/
namespace Tumfl.Theory
open Tumfl Tumfl.Model

/-! ## the shape of a wrapped literal -/

theorem build_shape : ∀ (parts : List (List Char)), parts ≠ [] → (∀ p ∈ parts, p ≠ []) →
    (∃ s r, stringIdent.build parts = .str s :: r) ∧ (∃ i s, stringIdent.build parts = i ++ [.str s]) ∧
    ∀ p ∈ stringIdent.build parts, p = .sep .newline ∨ ∃ s, p = .str s ∧ s ≠ []
  | [], h, _ => absurd rfl h
  | [a], _, hne => by
    have ha : a ≠ [] := hne a (by simp)
    refine ⟨⟨a, [], by simp [stringIdent.build]⟩, ⟨[], a, by simp [stringIdent.build]⟩, ?_⟩
    intro p hp
    simp [stringIdent.build] at hp
    exact .inr ⟨a, hp, ha⟩
  | a :: b :: rest, _, hne => by
    obtain ⟨_, ⟨i, s, hi⟩, h3⟩ := build_shape (b :: rest) (by simp) (fun p hp => hne p (by simp [hp]))
    rw [build_cons_cons]
    refine ⟨⟨_, _, rfl⟩, ⟨.str (a ++ ['\\', 'z']) :: S .newline :: i, s, by rw [hi]; simp⟩, ?_⟩
    intro p hp
    rcases List.mem_cons.mp hp with rfl | hp
    · exact .inr ⟨_, rfl, by simp⟩
    · rcases List.mem_cons.mp hp with rfl | hp
      · exact .inl rfl
      · exact h3 p hp

theorem insIn_shape {ps G : Pieces} (h : InsIn ps G) :
    (∀ s r, ps = .str s :: r → ∃ r', G = .str s :: r') ∧ (∀ i x, ps = i ++ [x] → ∃ i', G = i' ++ [x]) ∧
    ∀ p ∈ G, p ∈ ps ∨ p = .sep .newline := by
  induction h with
  | one p =>
    exact ⟨fun s r e => ⟨[], by simp only [List.cons.injEq] at e; rw [e.1]⟩, fun i x e => ⟨i, e⟩, fun q hq => .inl hq⟩
  | @step p n q r G _ ih =>
    obtain ⟨_, h2, h3⟩ := ih
    refine ⟨fun s r' e => ?_, fun i x e => ?_, fun y hy => ?_⟩
    · simp only [List.cons.injEq] at e
      exact ⟨_, by rw [e.1]⟩
    · cases i with
      | nil => simp at e
      | cons i0 i =>
        simp only [List.cons_append, List.cons.injEq] at e
        obtain ⟨i', hi'⟩ := h2 i x e.2
        exact ⟨p :: (List.replicate n (.sep .newline) ++ i'), by rw [hi']; simp⟩
    · rcases List.mem_cons.mp hy with rfl | hy
      · exact .inl (by simp)
      · rcases List.mem_append.mp hy with hy | hy
        · exact .inr (List.eq_of_mem_replicate hy)
        · rcases h3 y hy with h | h
          · exact .inl (List.mem_cons_of_mem _ h)
          · exact .inr h

/-- the pieces of a wrapped literal in the layout: starts and ends with a text piece, consists of non-empty text pieces
and Newline separators -/
theorem group_shape {sty : Style} {q : List Char} {ind : Int} {ps G : Pieces} (hs : stringIdent q ind sty = .ok ps)
    (hg : InsIn ps G) :
    (∃ s r, G = .str s :: r) ∧ (∃ i s, G = i ++ [.str s]) ∧ ∀ p ∈ G, p = .sep .newline ∨ ∃ s, p = .str s ∧ s ≠ [] := by
  obtain ⟨parts, rfl, hq, hne⟩ := stringIdent_parts hs
  have hpn : parts ≠ [] := by
    rintro rfl
    have := stringIdent_isQuoted hs
    simp at hq; subst hq; simp [isQuoted] at this
  obtain ⟨⟨s, r, h1⟩, ⟨i, s2, h2⟩, h3⟩ := build_shape parts hpn hne
  obtain ⟨g1, g2, g3⟩ := insIn_shape hg
  obtain ⟨r', hr'⟩ := g1 s r h1
  obtain ⟨i', hi'⟩ := g2 i _ h2
  refine ⟨⟨s, r', hr'⟩, ⟨i', s2, hi'⟩, fun p hp => ?_⟩
  rcases g3 p hp with h | h
  · exact h3 p h
  · exact .inl h

/-! ## unfolding `removeOrphanedFrom` -/

theorem ro_keep {rp : Pieces} {x : Piece} (xs : Pieces) (h1 : x ≠ .str []) (h2 : x ≠ .sep .statement) :
    removeOrphanedFrom rp (x :: xs) = x :: removeOrphanedFrom (x :: rp) xs := by
  cases rp <;> rw [removeOrphanedFrom] <;> simp [h1, h2]

theorem ro_stmt_sep (k : Sep) (rp xs : Pieces) :
    removeOrphanedFrom (.sep k :: rp) (.sep .statement :: xs) = removeOrphanedFrom (.sep .statement :: .sep k :: rp) xs := by
  rw [removeOrphanedFrom]; simp

theorem ro_stmt_str (s : List Char) (rp xs : Pieces) :
    (removeOrphanedFrom (.str s :: rp) (.sep .statement :: xs) =
        removeOrphanedFrom (.sep .statement :: .str s :: rp) xs ∧
      ∃ r, removeOrphanedFrom (.sep .statement :: .str s :: rp) xs = .sep .newline :: r) ∨
    removeOrphanedFrom (.str s :: rp) (.sep .statement :: xs) =
      .sep .statement :: removeOrphanedFrom (.sep .statement :: .str s :: rp) xs := by
  rw [removeOrphanedFrom]
  simp only [beq_iff_eq, reduceCtorEq, if_false, if_true]
  generalize removeOrphanedFrom (.sep .statement :: .str s :: rp) xs = suf
  rcases suf with _ | ⟨a, _ | ⟨b, t⟩⟩
  · exact .inr rfl
  · rcases a with _ | k
    · exact .inr rfl
    · cases k <;> exact .inr rfl
  · rcases a with _ | k
    · exact .inr rfl
    · rcases b with _ | k'
      · cases k <;> exact .inr rfl
      · cases k <;> cases k' <;> first | exact .inr rfl | exact .inl ⟨rfl, _, rfl⟩

theorem ro_group : ∀ (G : Pieces) (rp r : Pieces), (∀ p ∈ G, p ≠ .str [] ∧ p ≠ .sep .statement) →
    removeOrphanedFrom rp (G ++ r) = G ++ removeOrphanedFrom (G.reverse ++ rp) r
  | [], rp, r, _ => by simp
  | p :: G, rp, r, h => by
    rw [List.cons_append, ro_keep _ (h p (by simp)).1 (h p (by simp)).2,
      ro_group G (p :: rp) r (fun y hy => h y (by simp [hy]))]
    simp

/-! ## a pending state in front of a Newline does not matter -/

theorem dl_nl_any {sty : Style} {d : Bool} {p0 : Pend} {xs L : Pieces} (h : DL sty d p0 xs L) :
    ∀ {r : Pieces}, xs = .sep .newline :: r → ∀ p, DL sty d p xs L := by
  induction h with
  | nil => intro r e; cases e
  | tok _ _ _ _ _ => intro r e; cases e
  | @grp pend q ind ps G r' L hc hg hs hi hf _ _ =>
    intro r e
    obtain ⟨⟨s, r2, h1⟩, _, _⟩ := group_shape hs hi
    rw [h1] at e; cases e
  | com _ _ _ _ _ => intro r e; cases e
  | dot _ _ _ => intro r e; cases e
  | sepT hk _ _ _ => intro r e; cases e; rcases hk with h | h | h <;> cases h
  | stmt _ _ _ _ _ => intro r e; cases e
  | nl hd _ => intro r _ p; exact .nl hd
  | nlIns hd _ => intro r _ p; exact .nlIns hd
  | ind hk _ _ => intro r e; cases e; rcases hk with h | h <;> cases h
  | indIns hk _ _ _ => intro r e; cases e; rcases hk with h | h <;> cases h
  | dropS hd _ ih => intro r e p; exact .dropS hd (ih e p)

/-! ## the pass -/

/-- when the piece in front is a separator, no token is pending directly -/
def PL (rp : Pieces) (pend : Pend) : Prop := ∀ k r', rp = .sep k :: r' → ∀ x, pend ≠ .t0 x

theorem pl_str (s : List Char) (rp : Pieces) (pend : Pend) : PL (.str s :: rp) pend := by
  intro k r' e; cases e

theorem ro_dl {sty : Style} {pend : Pend} {xs L : Pieces} (h : DL sty false pend xs L) :
    ∀ rp, rp ≠ [] → PL rp pend → DL sty true pend (removeOrphanedFrom rp xs) L := by
  induction h with
  | nil => intro rp _ _; simp [removeOrphanedFrom]; exact .nil
  | @tok pend s r L hc hg hf _ ih =>
    intro rp _ _
    have hne : s ≠ [] := hg.1.choose_spec.1.1
    rw [ro_keep _ (by simpa using hne) (by simp)]
    exact .tok hc hg hf (ih _ (by simp) (pl_str _ _ _))
  | @grp pend q ind ps G r L hc hg hs hi hf _ ih =>
    intro rp _ _
    obtain ⟨_, ⟨i, s, hlast⟩, hall⟩ := group_shape hs hi
    rw [ro_group G rp r (fun p hp => by
      rcases hall p hp with rfl | ⟨s', rfl, hs'⟩
      · exact ⟨by simp, by simp⟩
      · exact ⟨by simpa using hs', by simp⟩)]
    refine .grp hc hg hs hi hf (ih _ (by simp [hlast]) ?_)
    rw [hlast]; simp only [List.reverse_append, List.reverse_cons, List.reverse_nil, List.nil_append, List.cons_append]
    exact pl_str _ _ _
  | @com pend s r L hc hok hf _ ih =>
    intro rp _ _
    have hne : s ≠ [] := by rintro rfl; simp [isCom, startsWith, isPrefix] at hc
    rw [ro_keep _ (by simpa using hne) (by simp)]
    exact .com hc hok hf (ih _ (by simp) (pl_str _ _ _))
  | @dot pend r L hf _ ih =>
    intro rp _ _
    rw [ro_keep _ (by simp) (by simp)]
    exact .dot hf (ih _ (by simp) (fun k r' _ x hx => by cases hx))
  | @sepT pend k r L hk hp _ ih =>
    intro rp _ _
    rw [ro_keep _ (by simp) (by rcases hk with rfl | rfl | rfl <;> simp)]
    exact .sepT hk hp (ih _ (by simp) (fun k r' _ x hx => by cases hx))
  | @stmt pend r L h1 h2 h3 _ ih =>
    intro rp hrp hpl
    cases rp with
    | nil => exact absurd rfl hrp
    | cons p rp' =>
      have ihs := ih (.sep .statement :: p :: rp') (by simp) (fun k r' _ x hx => by cases hx)
      cases p with
      | sep k =>
        rw [ro_stmt_sep]
        -- nothing is pending
        have hnone : pend = .none := by
          cases pend with
          | none => rfl
          | t0 x => exact absurd rfl (hpl k rp' rfl x)
          | t1 x => exact absurd rfl (h3 x)
          | dotp => exact absurd rfl h2
          | short => exact absurd rfl h1
        subst hnone
        exact .dropS rfl ihs
      | str s =>
        rcases ro_stmt_str s rp' r with ⟨e, r2, hr2⟩ | e
        · rw [e]
          exact .dropS rfl (dl_nl_any ihs hr2 pend)
        · rw [e]
          exact .stmt h1 h2 h3 ihs
  | @nl pend r L _ ih =>
    intro rp _ _
    rw [ro_keep _ (by simp) (by simp)]
    exact .nl (ih _ (by simp) (fun k r' _ x hx => by cases hx))
  | @nlIns pend r L _ ih =>
    intro rp _ _
    rw [ro_keep _ (by simp) (by simp)]
    exact .nlIns (ih _ (by simp) (fun k r' _ x hx => by cases hx))
  | @ind pend k r L hk _ ih =>
    intro rp _ _
    rw [ro_keep _ (by simp) (by rcases hk with rfl | rfl <;> simp)]
    refine .ind hk (ih _ (by simp) (fun k r' _ x hx => ?_))
    cases pend <;> cases hx
  | @indIns pend k r L hk _ _ ih =>
    intro rp _ _
    rw [ro_keep _ (by simp) (by rcases hk with rfl | rfl <;> simp)]
    refine .indIns hk (fun h => by cases h) (ih _ (by simp) (fun k r' _ x hx => ?_))
    cases pend <;> cases hx
  | dropS hd _ _ => cases hd

end Tumfl.Theory
