import Tumfl.Theory.PrintSimStmt2
/-!
# Statements, continued: generic `for`, `local`, function definitions, calls, assignments
-/
namespace Tumfl.Theory
open Tumfl.Model Tumfl.Spec

variable {semi : Bool} {sty : Style}

/-! ## generic `for` -/

theorem iterFor_S {t : Token} {n : Expr} {ns es : List Expr} {body : Model.Block} (hn : nameNodeOK n = true)
    (hns : ns.all nameNodeOK = true) (hes : es ≠ []) (hall : ∀ e ∈ es, XProp semi sty e)
    (hc : body.isChunk = false) (hbody : BlockProp semi sty body) : StmtProp semi sty (.iterFor t (n :: ns) es body) := by
  intro _ F rest hF _
  simp only [nS, List.length_cons] at hF
  obtain ⟨F, rfl⟩ : ∃ f, F = f + 1 := ⟨F - 1, by omega⟩
  have h3 := hbody F (mkTok (.kw "end") :: rest) (by omega) (by rfl)
  have h2 := args_of_all es hall F (mkTok (.kw "do") :: (semiT semi ++ (TK semi (bodyPieces sty body.stmts body.rets) ++
    mkTok (.kw "end") :: rest))) (by omega) (by rfl) hes
  have h1 := namelistRest_step ns F (mkTok (.kw "in") :: (TK semi (visitArgs sty es) ++ mkTok (.kw "do") :: (semiT semi ++
    (TK semi (bodyPieces sty body.stmts body.rets) ++ mkTok (.kw "end") :: rest)))) (by omega) (by simp [isSym_mkTok])
  have hhead : isSym "=" (sepTail "," ns ++ mkTok (.kw "in") :: (TK semi (visitArgs sty es) ++ mkTok (.kw "do") ::
      (semiT semi ++ (TK semi (bodyPieces sty body.stmts body.rets) ++ mkTok (.kw "end") :: rest)))) = false ∧
      (isSym "," (sepTail "," ns ++ mkTok (.kw "in") :: (TK semi (visitArgs sty es) ++ mkTok (.kw "do") ::
      (semiT semi ++ (TK semi (bodyPieces sty body.stmts body.rets) ++ mkTok (.kw "end") :: rest)))) ||
      isKw "in" (sepTail "," ns ++ mkTok (.kw "in") :: (TK semi (visitArgs sty es) ++ mkTok (.kw "do") ::
      (semiT semi ++ (TK semi (bodyPieces sty body.stmts body.rets) ++ mkTok (.kw "end") :: rest))))) = true := by
    rcases sepTail_head "," ns (mkTok (.kw "in") :: (TK semi (visitArgs sty es) ++ mkTok (.kw "do") ::
      (semiT semi ++ (TK semi (bodyPieces sty body.stmts body.rets) ++ mkTok (.kw "end") :: rest)))) with h | ⟨tl, h⟩ <;>
      rw [h] <;> simp [isSym_mkTok, isKw_mkTok]
  rw [statement]
  simp only [visitStmt, TK_append, TK_for_kw, TK_in_kw, TK_sep_space, TK_blk sty body hc, TK_visitArgs_names n ns hn hns,
    TK_nil, List.cons_append, List.append_assoc, List.nil_append, pk_mkTok, tail_mkTok] at h1 h2 h3 hhead ⊢
  simp only [expectName, pk_mkTok, tail_mkTok, bind, Except.bind, hhead.1, hhead.2, Bool.false_eq_true, if_false, if_true, h1]
  simp [expectKw, isKw_mkTok, h2, h3, refStmt, trailT, hasTrail]

/-! ## `local` -/

def attTail (a : Option Expr) : List Spec.Tok :=
  match a with
  | some x => [mkTok (.sym "<"), mkTok (.name (nameS x)), mkTok (.sym ">")]
  | none => []

theorem TK_attName {n : Expr} {a : Option Expr} (h : attOK (.mk n a) = true) (r : Pieces) :
    TK semi (attName n a ++ r) =
      mkTok (.name (nameS n)) :: (attTail a ++ TK semi r) := by
  cases a with
  | none =>
    simp only [attOK, Bool.and_true] at h
    simp [attName, TK_nameStr h, attTail]
  | some x =>
    simp only [attOK, Bool.and_eq_true] at h
    simp [attName, TK_nameStr h.1, TK_nameStr h.2, attTail]

theorem visitAttNames_cons2 (n : Expr) (a : Option Expr) (y : AttName) (rest : List AttName) :
    visitAttNames (.mk n a :: y :: rest) = attName n a ++ S .argument :: visitAttNames (y :: rest) := by
  rw [visitAttNames]; simp

theorem attname_one (F : Nat) (n : Expr) (a : Option Expr) (X : List Spec.Tok) (hc : isSym "," X = false)
    (hl : isSym "<" X = false) :
    attnamelist (F + 1) (mkTok (.name (nameS n)) :: (attTail a ++ X)) = .ok ([refAtt (.mk n a)], X) := by
  rw [attnamelist]
  cases a with
  | none => simp [attTail, expectName, hl, hc, refAtt, bind, Except.bind]
  | some x => simp [attTail, expectName, expectSym, isSym_mkTok, hc, refAtt, bind, Except.bind]

theorem attname_cons (F : Nat) (n : Expr) (a : Option Expr) (X X' : List Spec.Tok) (r : List (String × Option String))
    (h : attnamelist F X = .ok (r, X')) :
    attnamelist (F + 1) (mkTok (.name (nameS n)) :: (attTail a ++ mkTok (.sym ",") :: X)) = .ok (refAtt (.mk n a) :: r, X') := by
  rw [attnamelist]
  cases a with
  | none => simp [attTail, expectName, isSym_mkTok, h, refAtt, bind, Except.bind]
  | some x => simp [attTail, expectName, expectSym, isSym_mkTok, h, refAtt, bind, Except.bind]

theorem attnames_step : (names : List AttName) → names.all attOK = true → names ≠ [] → ∀ F X, names.length ≤ F →
    isSym "," X = false → isSym "<" X = false →
    attnamelist F (TK semi (visitAttNames names) ++ X) = .ok (names.map refAtt, X)
  | [], _, h => absurd rfl h
  | [.mk n a], hp, _ => by
    intro F X hF hc hl
    obtain ⟨F, rfl⟩ : ∃ f, F = f + 1 := ⟨F - 1, by simp at hF; omega⟩
    simp only [List.all_cons, List.all_nil, Bool.and_true] at hp
    have := TK_attName (semi := semi) hp []
    simp only [List.append_nil, TK_nil] at this
    simp only [visitAttNames, this, List.cons_append, List.append_assoc, List.map_cons, List.map_nil]
    exact attname_one F n a X hc hl
  | .mk n a :: y :: rest, hp, _ => by
    intro F X hF hc hl
    obtain ⟨F, rfl⟩ : ∃ f, F = f + 1 := ⟨F - 1, by simp at hF; omega⟩
    simp only [List.all_cons, Bool.and_eq_true] at hp
    have ih := attnames_step (y :: rest) (by simp [hp.2]) (by simp) F X (by simp at hF ⊢; omega) hc hl
    rw [visitAttNames_cons2, TK_attName hp.1]
    simp only [TK_sep_argument, List.cons_append, List.append_assoc, List.map_cons]
    exact attname_cons F n a _ X _ ih

theorem localAssign_S {t : Token} {names : List AttName} {es : Option (List Expr)} (hne : names ≠ [])
    (hp : names.all attOK = true) (hes : ∀ l, es = some l → l ≠ [] ∧ ∀ e ∈ l, XProp semi sty e) :
    StmtProp semi sty (.localAssign t names es) := by
  intro _ F rest hF hsafe
  obtain ⟨hs1, hs2, hs3, hs4⟩ := safe_facts hsafe
  have hlt : isSym "<" rest = false := by
    have : binOfTk (pk rest) = none := by
      simp only [safeTk, Bool.and_eq_true, Option.isNone_iff_eq_none] at hsafe
      exact hsafe.1.1.2
    unfold isSym
    split
    · rename_i x hx
      cases hb : x == "<" with
      | false => rfl
      | true =>
        have : x = "<" := by simpa using hb
        subst this
        rw [hx] at this
        simp [binOfTk] at this
    · rfl
  have hfun : ∀ X, isKw "function" (TK semi (visitAttNames names) ++ X) = false := by
    intro X
    cases names with
    | nil => exact absurd rfl hne
    | cons a r =>
      obtain ⟨n, att⟩ := a
      simp only [List.all_cons, Bool.and_eq_true] at hp
      cases r with
      | nil =>
        have := TK_attName (semi := semi) hp.1 []
        simp only [List.append_nil] at this
        simp [visitAttNames, this, isKw_mkTok]
      | cons y r => rw [visitAttNames_cons2, TK_attName hp.1]; simp [isKw_mkTok]
  cases es with
  | none =>
    simp only [nS] at hF
    obtain ⟨F, rfl⟩ : ∃ f, F = f + 1 := ⟨F - 1, by omega⟩
    have h1 := attnames_step (semi := semi) names hp hne F rest (by omega) hs3 hlt
    rw [statement]
    simp only [visitStmt, TK_append, TK_local_kw, TK_sep_space, TK_nil, List.cons_append, List.append_assoc,
      List.nil_append, List.append_nil, pk_mkTok, tail_mkTok, hfun]
    simp [h1, hs4, refStmt, trailT, hasTrail, bind, Except.bind]
  | some l =>
    obtain ⟨hl, hall⟩ := hes l rfl
    cases l with
    | nil => exact absurd rfl hl
    | cons e r =>
      simp only [nS] at hF
      obtain ⟨F, rfl⟩ : ∃ f, F = f + 1 := ⟨F - 1, by omega⟩
      have h2 := args_of_all (e :: r) hall F rest (by omega) (stopTk_of_safe hsafe) (by simp)
      have h1 := attnames_step (semi := semi) names hp hne F (mkTok (.sym "=") :: (TK semi (visitArgs sty (e :: r)) ++ rest))
        (by omega) (by simp [isSym_mkTok]) (by simp [isSym_mkTok])
      rw [statement]
      simp only [visitStmt, TK_append, TK_local_kw, TK_sep_space, TK_assign, TK_nil, List.cons_append, List.append_assoc,
        List.nil_append, pk_mkTok, tail_mkTok, hfun]
      simp [h1, h2, isSym_mkTok, refStmt, trailT, hasTrail, bind, Except.bind]

/-! ## function definitions -/

theorem localFunc_S {t : Token} {n : Expr} {ps : List Expr} {body : Model.Block} (hn : nameNodeOK n = true)
    (hp : paramsOK ps = true) (hb : BlockProp semi sty body) : StmtProp semi sty (.localFunc t n ps body) := by
  intro _ F rest hF _
  simp only [nS] at hF
  obtain ⟨F, rfl⟩ : ∃ f, F = f + 1 := ⟨F - 1, by omega⟩
  have h1 := body_step hp hb F (semiT semi ++ rest) (by omega)
  have hnm := TK_nameNode (semi := semi) sty hn
  rw [statement]
  simp only [visitStmt, TK_append, TK_local_kw, TK_function_kw, TK_lpar, TK_rpar, TK_sep_space, TK_sep_newline,
    TK_sep_statement, hnm, TK_nil, List.drop_one, List.cons_append, List.append_assoc, List.nil_append, List.append_nil, pk_mkTok,
    tail_mkTok] at h1 ⊢
  simp [isKw_mkTok, expectName, h1, refStmt, trailT, hasTrail, bind, Except.bind]

theorem funcDef_S {t : Token} {n : Expr} {ns : List Expr} {m : Option Expr} {ps : List Expr} {body : Model.Block}
    (hn : nameNodeOK n = true) (hns : ns.all nameNodeOK = true) (hm : ∀ x, m = some x → nameNodeOK x = true)
    (hp : paramsOK ps = true) (hb : BlockProp semi sty body) : StmtProp semi sty (.funcDef t (n :: ns) m ps body) := by
  intro _ F rest hF _
  simp only [nS, List.length_cons] at hF
  obtain ⟨F, rfl⟩ : ∃ f, F = f + 1 := ⟨F - 1, by omega⟩
  have h1 := body_step hp hb F (semiT semi ++ rest) (by omega)
  cases m with
  | none =>
    have h0 := dottedRest_step ns F (mkTok (.sym "(") :: (TK semi (visitArgs sty ps) ++ mkTok (.sym ")") ::
      (TK semi ((visitBlockFull sty body).drop 1) ++ (semiT semi ++ rest)))) (by omega) (by simp [isSym_mkTok])
    rw [statement]
    simp only [visitStmt, TK_append, TK_function_kw, TK_lpar, TK_rpar, TK_sep_space, TK_sep_newline, TK_sep_block,
      TK_visitDotted_names n ns hn hns, TK_nil, List.drop_one, List.cons_append, List.append_assoc, List.nil_append, List.append_nil, pk_mkTok,
      tail_mkTok] at h0 h1 ⊢
    simp [expectName, h0, isSym_mkTok, h1, refStmt, trailT, hasTrail, bind, Except.bind]
  | some x =>
    have hnm := TK_nameNode (semi := semi) sty (hm x rfl)
    have h0 := dottedRest_step ns F (mkTok (.sym ":") :: mkTok (.name (nameS x)) :: mkTok (.sym "(") ::
      (TK semi (visitArgs sty ps) ++ mkTok (.sym ")") ::
      (TK semi ((visitBlockFull sty body).drop 1) ++ (semiT semi ++ rest)))) (by omega) (by simp [isSym_mkTok])
    rw [statement]
    simp only [visitStmt, TK_append, TK_function_kw, TK_lpar, TK_rpar, TK_colon, TK_sep_space, TK_sep_newline, TK_sep_block,
      TK_visitDotted_names n ns hn hns, hnm, TK_nil, List.drop_one, List.cons_append, List.append_assoc, List.nil_append, List.append_nil,
      pk_mkTok, tail_mkTok] at h0 h1 ⊢
    simp [expectName, h0, isSym_mkTok, h1, refStmt, trailT, hasTrail, bind, Except.bind]

/-! ## expression statements -/

/-- the `exprstat` branch of `Spec.statement` -/
def exprstat (f : Nat) (ts : List Spec.Tok) : Except PErr (Stat × List Spec.Tok) := do
  let (e, ts1) ← suffixedexp f ts
  if isSym "=" ts1 || isSym "," ts1 then do
    let (vs, ts2) ← restassign f ts1
    let ts3 ← expectSym "=" ts2
    let (es, ts4) ← explist f ts3
    if (e :: vs).all isVar then .ok (.assign (e :: vs) es, ts4) else perr "syntax error" ts
  else if isCall e then .ok (.call e, ts1)
  else perr "syntax error" ts1

theorem statement_var {k : Tk} (hk : k = .sym "(" ∨ ∃ n, k = .name n) (f : Nat) (ts : List Spec.Tok) :
    statement (f + 1) (mkTok k :: ts) = exprstat f (mkTok k :: ts) := by
  rcases hk with rfl | ⟨n, rfl⟩ <;> (rw [statement]; simp [exprstat])

theorem callstat_step {e : Expr} (hv : isVarLike e = true) (hp : pExpr e = true) (h : PProp semi sty e)
    (hcall : isCall (refExpr semi sty e) = true) (F : Nat) (rest : List Spec.Tok) (hF : nE semi sty e ≤ F)
    (hsafe : safeTk (pk rest) = true) :
    statement F (TK semi (visitExpr sty e) ++ rest) = .ok (.call (refExpr semi sty e), rest) := by
  obtain ⟨hs1, _, hs3, hs4⟩ := safe_facts hsafe
  have h3 := nE_var_ge semi sty hv
  obtain ⟨F, rfl⟩ : ∃ f, F = f + 1 := ⟨F - 1, by omega⟩
  obtain ⟨k, tks, hk, hkv⟩ := HeadOK_TK (semi := semi) (varHead sty e hp hv)
  obtain ⟨F', hF', hsx⟩ := h F rest (by omega)
  obtain ⟨F', rfl⟩ : ∃ f, F' = f + 1 := ⟨F' - 1, by omega⟩
  rw [suffixes_stop _ _ _ hs1] at hsx
  rw [hk, List.cons_append, statement_var hkv, ← List.cons_append, ← hk]
  simp [exprstat, hsx, hs3, hs4, hcall, bind, Except.bind]

theorem call_S {t : Token} {f : Expr} {args : List Expr} (hf : pExpr f = true) (hxf : XProp semi sty f)
    (hpa : pArgs args = true) (hall : ∀ e ∈ args, XProp semi sty e) : StmtProp semi sty (.call t f args) := by
  intro _ F rest hF hsafe
  have hp : pExpr (.call t f args) = true := by simp [pExpr, hf, hpa]
  have := callstat_step (e := .call t f args) rfl hp (call_P hf hxf hpa hall) (by simp [refExpr, isCall]) F rest
    (by simpa [nS, nE] using hF) hsafe
  simpa [visitStmt, visitExpr, refStmt, refExpr, trailT, hasTrail] using this

theorem method_S {t : Token} {f m : Expr} {args : List Expr} (hf : pExpr f = true) (hxf : XProp semi sty f)
    (hm : nameNodeOK m = true) (hpa : pArgs args = true) (hall : ∀ e ∈ args, XProp semi sty e) :
    StmtProp semi sty (.method t f m args) := by
  intro _ F rest hF hsafe
  have hp : pExpr (.method t f m args) = true := by simp [pExpr, hf, hm, hpa]
  have := callstat_step (e := .method t f m args) rfl hp (method_P hf hxf hm hpa hall) (by simp [refExpr, isCall]) F rest
    (by simpa [nS, nE] using hF) hsafe
  simpa [visitStmt, visitExpr, refStmt, refExpr, trailT, hasTrail] using this

end Tumfl.Theory
