import Tumfl.Model.Parser
import Tumfl.Theory.HintsCore
import Tumfl.Theory.ParserFuelMonoLadder
/-!
# Fuel monotonicity of the model parser, outcome by outcome

`MLe m m'` : wherever `m` does not fail with `.fuel`, `m'` has the very same outcome (result and state,
or error).  By one induction on the fuel, every parse function at fuel `f + 1` is above itself at fuel `f`.
Consequently the result of `parseChunk` does not depend on the fuel as soon as the fuel suffices.
-/
namespace Tumfl.Theory
open Tumfl.Model Tumfl.Spec

set_option linter.unusedVariables false

variable {α β : Type}

abbrev MLe (m m' : PM α) : Prop := FLe PyErr.fuel m m'

theorem MLe_refl (m : PM α) : MLe m m := FLe.refl _ _

theorem MLe_of_fuel {m m' : PM α} (h : ∀ s, m s = .error .fuel) : MLe m m' := fun s hs => absurd (h s) hs

theorem MLe_bind {m m' : PM α} {k k' : α → PM β} (hm : MLe m m') (hk : ∀ a, MLe (k a) (k' a)) :
    MLe (m >>= k) (m' >>= k') := by
  intro s h
  cases hms : m s with
  | error e =>
    rw [bind_err hms] at h ⊢
    have : m' s = .error e := by rw [hm s (by rw [hms]; intro hh; cases hh; exact h rfl), hms]
    rw [bind_err this]
  | ok r =>
    obtain ⟨a, s1⟩ := r
    rw [bind_ok hms] at h ⊢
    have : m' s = .ok (a, s1) := by rw [hm s (by rw [hms]; intro hh; cases hh), hms]
    rw [bind_ok this]
    exact hk a s1 h

theorem MLe_ite {c : Prop} [Decidable c] {a a' b b' : PM α} (ha : MLe a a') (hb : MLe b b') :
    MLe (if c then a else b) (if c then a' else b') := by
  split
  · exact ha
  · exact hb

theorem MLe_map {γ : Type} {m m' : PM α} {g : α → γ} (hm : MLe m m') : MLe (g <$> m) (g <$> m') := by
  intro s h
  have hne : m s ≠ .error .fuel := by
    intro hh
    apply h
    simp [Functor.map, StateT.map, hh, bind, Except.bind]
  have := hm s hne
  simp only [Functor.map, StateT.map, bind, Except.bind] at h ⊢
  rw [this]

/-- all parse functions at fuel `f + 1` are above themselves at fuel `f` -/
structure AllM (f : Nat) : Prop where
  parseBlock : ∀ (tok : Token) (b : Bool), MLe (Model.parseBlock f tok b) (Model.parseBlock (f + 1) tok b)
  parseStatements : MLe (Model.parseStatements f) (Model.parseStatements (f + 1))
  parseStatement : MLe (Model.parseStatement f) (Model.parseStatement (f + 1))
  parseDotted : MLe (Model.parseDotted f) (Model.parseDotted (f + 1))
  parseAttNames : MLe (Model.parseAttNames f) (Model.parseAttNames (f + 1))
  parseIf : MLe (Model.parseIf f) (Model.parseIf (f + 1))
  parseElseIfs : MLe (Model.parseElseIfs f) (Model.parseElseIfs (f + 1))
  parseFuncBody : ∀ (tok : Token), MLe (Model.parseFuncBody f tok) (Model.parseFuncBody (f + 1) tok)
  parseNameList : ∀ (first : Option Expr) (lv : Bool), MLe (Model.parseNameList f first lv) (Model.parseNameList (f + 1) first lv)
  parseNames : ∀ (lv : Bool), MLe (Model.parseNames f lv) (Model.parseNames (f + 1) lv)
  parseExpList : MLe (Model.parseExpList f) (Model.parseExpList (f + 1))
  parseVarStmt : MLe (Model.parseVarStmt f) (Model.parseVarStmt (f + 1))
  parseMoreVars : MLe (Model.parseMoreVars f) (Model.parseMoreVars (f + 1))
  parseExp : MLe (Model.parseExp f) (Model.parseExp (f + 1))
  parseAtom : MLe (Model.parseAtom f) (Model.parseAtom (f + 1))
  parseVar : ∀ (b : Bool), MLe (Model.parseVar f b) (Model.parseVar (f + 1) b)
  parseVarTerminal : ∀ (e : Expr), MLe (Model.parseVarTerminal f e) (Model.parseVarTerminal (f + 1) e)
  parseTable : MLe (Model.parseTable f) (Model.parseTable (f + 1))
  parseFields : MLe (Model.parseFields f) (Model.parseFields (f + 1))
  parseField : MLe (Model.parseField f) (Model.parseField (f + 1))
  parseArgs : MLe (Model.parseArgs f) (Model.parseArgs (f + 1))

macro "guard_mle" : tactic => `(tactic| with_reducible show FLe _ _ _)

syntax "mle_step " ident : tactic
macro_rules
  | `(tactic| mle_step $ih) => `(tactic| (guard_mle; first
    | with_reducible exact MLe_refl _
    | with_reducible apply ($ih).parseBlock
    | with_reducible exact ($ih).parseStatements
    | with_reducible exact ($ih).parseStatement
    | with_reducible exact ($ih).parseDotted
    | with_reducible exact ($ih).parseAttNames
    | with_reducible exact ($ih).parseIf
    | with_reducible exact ($ih).parseElseIfs
    | with_reducible apply ($ih).parseFuncBody
    | with_reducible apply ($ih).parseNameList
    | with_reducible apply ($ih).parseNames
    | with_reducible exact ($ih).parseExpList
    | with_reducible exact ($ih).parseVarStmt
    | with_reducible exact ($ih).parseMoreVars
    | with_reducible exact ($ih).parseExp
    | with_reducible exact ($ih).parseAtom
    | with_reducible apply ($ih).parseVar
    | with_reducible apply ($ih).parseVarTerminal
    | with_reducible exact ($ih).parseTable
    | with_reducible exact ($ih).parseFields
    | with_reducible exact ($ih).parseField
    | with_reducible exact ($ih).parseArgs
    | (with_reducible refine MLe_bind ?_ (fun _ => ?_))
    | with_reducible apply MLe_ite
    | with_reducible apply MLe_map
    | split))
macro "mle " ih:ident : tactic => `(tactic| repeat' mle_step $ih)

theorem parseBlock_mono_step {f : Nat} (ih : AllM f) (tok : Token) (b : Bool) :
    MLe (Model.parseBlock (f + 1) tok b) (Model.parseBlock (f + 1 + 1) tok b) := by
  rw [Model.parseBlock, Model.parseBlock]
  mle ih

theorem parseStatement_mono_step {f : Nat} (ih : AllM f) :
    MLe (Model.parseStatement (f + 1)) (Model.parseStatement (f + 1 + 1)) := by
  rw [Model.parseStatement, Model.parseStatement]
  mle ih

theorem parseStatements_mono_step {f : Nat} (ih : AllM f)  :
    MLe (Model.parseStatements (f + 1) ) (Model.parseStatements (f + 1 + 1) ) := by
  rw [Model.parseStatements, Model.parseStatements]
  mle ih

theorem parseDotted_mono_step {f : Nat} (ih : AllM f)  :
    MLe (Model.parseDotted (f + 1) ) (Model.parseDotted (f + 1 + 1) ) := by
  rw [Model.parseDotted, Model.parseDotted]
  mle ih

theorem parseAttNames_mono_step {f : Nat} (ih : AllM f)  :
    MLe (Model.parseAttNames (f + 1) ) (Model.parseAttNames (f + 1 + 1) ) := by
  rw [Model.parseAttNames, Model.parseAttNames]
  mle ih

theorem parseIf_mono_step {f : Nat} (ih : AllM f)  :
    MLe (Model.parseIf (f + 1) ) (Model.parseIf (f + 1 + 1) ) := by
  rw [Model.parseIf, Model.parseIf]
  mle ih

theorem parseElseIfs_mono_step {f : Nat} (ih : AllM f)  :
    MLe (Model.parseElseIfs (f + 1) ) (Model.parseElseIfs (f + 1 + 1) ) := by
  rw [Model.parseElseIfs, Model.parseElseIfs]
  mle ih

theorem parseFuncBody_mono_step {f : Nat} (ih : AllM f) (tok : Token) :
    MLe (Model.parseFuncBody (f + 1) tok) (Model.parseFuncBody (f + 1 + 1) tok) := by
  rw [Model.parseFuncBody, Model.parseFuncBody]
  mle ih

theorem parseNames_mono_step {f : Nat} (ih : AllM f) (lv : Bool) :
    MLe (Model.parseNames (f + 1) lv) (Model.parseNames (f + 1 + 1) lv) := by
  rw [Model.parseNames, Model.parseNames]
  mle ih

theorem parseExpList_mono_step {f : Nat} (ih : AllM f)  :
    MLe (Model.parseExpList (f + 1) ) (Model.parseExpList (f + 1 + 1) ) := by
  rw [Model.parseExpList, Model.parseExpList]
  mle ih

theorem parseVarStmt_mono_step {f : Nat} (ih : AllM f)  :
    MLe (Model.parseVarStmt (f + 1) ) (Model.parseVarStmt (f + 1 + 1) ) := by
  rw [Model.parseVarStmt, Model.parseVarStmt]
  mle ih

theorem parseMoreVars_mono_step {f : Nat} (ih : AllM f)  :
    MLe (Model.parseMoreVars (f + 1) ) (Model.parseMoreVars (f + 1 + 1) ) := by
  rw [Model.parseMoreVars, Model.parseMoreVars]
  mle ih

theorem parseAtom_mono_step {f : Nat} (ih : AllM f)  :
    MLe (Model.parseAtom (f + 1) ) (Model.parseAtom (f + 1 + 1) ) := by
  rw [Model.parseAtom, Model.parseAtom]
  mle ih

theorem parseVar_mono_step {f : Nat} (ih : AllM f) (b : Bool) :
    MLe (Model.parseVar (f + 1) b) (Model.parseVar (f + 1 + 1) b) := by
  rw [Model.parseVar, Model.parseVar]
  mle ih

theorem parseVarTerminal_mono_step {f : Nat} (ih : AllM f) (e : Expr) :
    MLe (Model.parseVarTerminal (f + 1) e) (Model.parseVarTerminal (f + 1 + 1) e) := by
  rw [Model.parseVarTerminal, Model.parseVarTerminal]
  mle ih

theorem parseTable_mono_step {f : Nat} (ih : AllM f)  :
    MLe (Model.parseTable (f + 1) ) (Model.parseTable (f + 1 + 1) ) := by
  rw [Model.parseTable, Model.parseTable]
  mle ih

theorem parseFields_mono_step {f : Nat} (ih : AllM f)  :
    MLe (Model.parseFields (f + 1) ) (Model.parseFields (f + 1 + 1) ) := by
  rw [Model.parseFields, Model.parseFields]
  mle ih

theorem parseField_mono_step {f : Nat} (ih : AllM f)  :
    MLe (Model.parseField (f + 1) ) (Model.parseField (f + 1 + 1) ) := by
  rw [Model.parseField, Model.parseField]
  mle ih

theorem parseArgs_mono_step {f : Nat} (ih : AllM f)  :
    MLe (Model.parseArgs (f + 1) ) (Model.parseArgs (f + 1 + 1) ) := by
  rw [Model.parseArgs, Model.parseArgs]
  mle ih

theorem parseNameList_mono_step {f : Nat} (ih : AllM f) (first : Option Expr) (lv : Bool) :
    MLe (Model.parseNameList (f + 1) first lv) (Model.parseNameList (f + 1 + 1) first lv) := by
  cases first <;> rw [Model.parseNameList, Model.parseNameList] <;> mle ih

/-! ## the expression ladder -/

theorem parseExp_succ (f : Nat) (s : PSt) :
    Model.parseExp (f + 1) s = ladderExp (modelSig (Model.parseAtom f)) ladderLevels powOps (f + 1) s := by
  rw [Model.parseExp]

theorem sameCursor_modelSig (a a' : PM Expr) : SameCursor (modelSig a) (modelSig a') :=
  ⟨rfl, rfl, rfl, rfl, rfl, rfl, rfl⟩

theorem parseExp_mono_step {f : Nat} (ih : AllM f) :
    MLe (Model.parseExp (f + 1)) (Model.parseExp (f + 1 + 1)) := by
  intro s
  rw [parseExp_succ, parseExp_succ]
  exact ladderExp_fle (sameCursor_modelSig _ _) ladderLevels powOps (fun s h => ih.parseAtom s h) (f + 1) s

/-! ## the induction -/

theorem allM_zero : AllM 0 where
  parseBlock := fun _ _ => MLe_of_fuel (fun s => by rw [Model.parseBlock]; rfl)
  parseStatements := MLe_of_fuel (fun s => by rw [Model.parseStatements]; rfl)
  parseStatement := MLe_of_fuel (fun s => by rw [Model.parseStatement]; rfl)
  parseDotted := MLe_of_fuel (fun s => by rw [Model.parseDotted]; rfl)
  parseAttNames := MLe_of_fuel (fun s => by rw [Model.parseAttNames]; rfl)
  parseIf := MLe_of_fuel (fun s => by rw [Model.parseIf]; rfl)
  parseElseIfs := MLe_of_fuel (fun s => by rw [Model.parseElseIfs]; rfl)
  parseFuncBody := fun _ => MLe_of_fuel (fun s => by rw [Model.parseFuncBody]; rfl)
  parseNameList := fun _ _ => MLe_of_fuel (fun s => by rw [Model.parseNameList]; rfl)
  parseNames := fun _ => MLe_of_fuel (fun s => by rw [Model.parseNames]; rfl)
  parseExpList := MLe_of_fuel (fun s => by rw [Model.parseExpList]; rfl)
  parseVarStmt := MLe_of_fuel (fun s => by rw [Model.parseVarStmt]; rfl)
  parseMoreVars := MLe_of_fuel (fun s => by rw [Model.parseMoreVars]; rfl)
  parseExp := MLe_of_fuel (fun s => by rw [Model.parseExp]; rfl)
  parseAtom := MLe_of_fuel (fun s => by rw [Model.parseAtom]; rfl)
  parseVar := fun _ => MLe_of_fuel (fun s => by rw [Model.parseVar]; rfl)
  parseVarTerminal := fun _ => MLe_of_fuel (fun s => by rw [Model.parseVarTerminal]; rfl)
  parseTable := MLe_of_fuel (fun s => by rw [Model.parseTable]; rfl)
  parseFields := MLe_of_fuel (fun s => by rw [Model.parseFields]; rfl)
  parseField := MLe_of_fuel (fun s => by rw [Model.parseField]; rfl)
  parseArgs := MLe_of_fuel (fun s => by rw [Model.parseArgs]; rfl)

theorem allM_succ {f : Nat} (ih : AllM f) : AllM (f + 1) where
  parseBlock := parseBlock_mono_step ih
  parseStatements := parseStatements_mono_step ih
  parseStatement := parseStatement_mono_step ih
  parseDotted := parseDotted_mono_step ih
  parseAttNames := parseAttNames_mono_step ih
  parseIf := parseIf_mono_step ih
  parseElseIfs := parseElseIfs_mono_step ih
  parseFuncBody := parseFuncBody_mono_step ih
  parseNameList := parseNameList_mono_step ih
  parseNames := parseNames_mono_step ih
  parseExpList := parseExpList_mono_step ih
  parseVarStmt := parseVarStmt_mono_step ih
  parseMoreVars := parseMoreVars_mono_step ih
  parseExp := parseExp_mono_step ih
  parseAtom := parseAtom_mono_step ih
  parseVar := parseVar_mono_step ih
  parseVarTerminal := parseVarTerminal_mono_step ih
  parseTable := parseTable_mono_step ih
  parseFields := parseFields_mono_step ih
  parseField := parseField_mono_step ih
  parseArgs := parseArgs_mono_step ih

theorem allM : ∀ f, AllM f
  | 0 => allM_zero
  | f + 1 => allM_succ (allM f)

/-- **Fuel monotonicity of `_parse_block`**: more fuel never changes an outcome other than `.fuel` -/
theorem parseBlock_mono_le (tok : Token) (b : Bool) {f g : Nat} (hfg : f ≤ g) :
    MLe (Model.parseBlock f tok b) (Model.parseBlock g tok b) := by
  induction hfg with
  | refl => exact MLe_refl _
  | step _ ih => exact ih.trans ((allM _).parseBlock tok b)

/-- **Fuel monotonicity of `parse_chunk`** -/
theorem parseChunk_mono_le {f g : Nat} (hfg : f ≤ g) : MLe (parseChunk f) (parseChunk g) := by
  unfold parseChunk
  refine MLe_bind (MLe_refl _) (fun t => ?_)
  exact MLe_bind (parseBlock_mono_le t false hfg) (fun _ => MLe_refl _)

end Tumfl.Theory
