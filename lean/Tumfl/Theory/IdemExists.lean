import Tumfl.Theory.IdemLex
import Tumfl.Theory.ReadSim
import Tumfl.Theory.SameProgram
import Tumfl.Theory.ParseAgree
import Tumfl.Theory.EmitI
import Tumfl.Theory.ParseNums
import Tumfl.Inst.Styles
/-!
# C15, first part: the minified text is accepted again, by the reference and by the model parser
-/
namespace Tumfl.Theory
open Tumfl Tumfl.Model

theorem inScope_ch (v : List Char) : InScopeTk (.str (v.map fun c => Spec.SUnit.ch c.toNat)) := by
  intro x hx
  obtain ⟨c, _, rfl⟩ := List.mem_map.mp hx
  exact c.valid

/-- the tokens of a text piece are in the scope of the Python lexer when a quoted piece is written by `visitString` -/
theorem strTk_inScope (s : List Char) (hq : isQuoted s = true → QuotedForm s) : ∀ k ∈ strTk s, InScopeTk k := by
  intro k hk
  by_cases hqs : isQuoted s = true
  · obtain ⟨q, v, hq', rfl⟩ := hq hqs
    rw [strTk_quoted q hq' v] at hk
    simp only [List.mem_singleton] at hk
    subst hk
    exact inScope_ch v
  · unfold strTk at hk
    repeat' split at hk
    all_goals try simp only [List.mem_singleton, List.not_mem_nil] at hk
    all_goals first
      | (subst hk; first | trivial | exact inScope_ch _)
      | (exfalso; apply hqs; simp_all [isQuoted])

theorem readTks_mem {ps : Pieces} {ks : List Spec.Tk} (h : ReadTks ps ks) :
    ∀ k ∈ ks, k = .sym ";" ∨ ∃ p ∈ ps, k ∈ pieceTks false p := by
  induction h with
  | nil => intro k hk; cases hk
  | semi _ _ ih =>
    intro k hk
    rcases List.mem_cons.mp hk with rfl | hk
    · exact .inl rfl
    · rcases ih k hk with h | ⟨p, hp, hkp⟩
      · exact .inl h
      · exact .inr ⟨p, List.mem_cons_of_mem _ hp, hkp⟩
  | skip _ _ ih =>
    intro k hk
    rcases ih k hk with h | ⟨p, hp, hkp⟩
    · exact .inl h
    · exact .inr ⟨p, List.mem_cons_of_mem _ hp, hkp⟩
  | @other p ps ks _ _ _ ih =>
    intro k hk
    rcases List.mem_append.mp hk with hk | hk
    · exact .inr ⟨p, List.mem_cons_self, hk⟩
    · rcases ih k hk with h | ⟨q, hq, hkq⟩
      · exact .inl h
      · exact .inr ⟨q, List.mem_cons_of_mem _ hq, hkq⟩

theorem disc_goodTok : ∀ (ps : Pieces) (σ : DS), Disc σ ps → ∀ s, .str s ∈ ps → isCom s = false → GoodTok s
  | [], _, _, s, hs, _ => by cases hs
  | p :: r, σ, hd, s, hs, hc => by
    obtain ⟨hok, hr⟩ := hd
    rcases List.mem_cons.mp hs with e | hs
    · subst e
      simp only [okPiece, hc, Bool.false_eq_true, if_false] at hok
      exact hok.2.1
    · exact disc_goodTok r _ hr s hs hc

theorem strTk_com {s : List Char} (h : isCom s = true) : strTk s = [] := by
  unfold strTk
  unfold isCom at h
  rw [if_pos h]

/-- every token of a reading of disciplined pieces is in the scope of the Python lexer -/
theorem reading_inScope {σ : DS} {ps : Pieces} {ks : List Spec.Tk} (hd : Disc σ ps) (h : ReadTks ps ks) :
    ∀ k ∈ ks, InScopeTk k := by
  intro k hk
  rcases readTks_mem h k hk with rfl | ⟨p, hp, hkp⟩
  · trivial
  · cases p with
    | sep x =>
      cases x <;> simp only [pieceTks, List.mem_singleton, List.not_mem_nil, Bool.false_eq_true, if_false] at hkp <;>
        first | (subst hkp; trivial) | exact False.elim hkp
    | str s =>
      simp only [pieceTks] at hkp
      by_cases hc : isCom s = true
      · rw [strTk_com hc] at hkp; cases hkp
      · exact strTk_inScope s (disc_goodTok ps σ hd s hp (by simpa using hc)).2.1 k hkp

/-- **the minified text is accepted again**: the reference accepts it with a tree `c'` that is the tree of `b` up to empty
statements, the model parser accepts it with a tree `b'` related to `c'` exactly; the tokens `ks` of the text are a reading
of the pieces `ts1` that `removeSeparators` leaves -/
theorem reparse (sty : Style) (hd : DocStyle sty) (hic : sty.includeComments = false) (hw : sty.lineWidth = 0)
    (he : sty.removeUnnecessaryChars = true) (b : Block) (hp : Printable b) (hn : NumsCanon (numsBlock b))
    (t1 : List Char) (h : format sty b = .ok t1) :
    ∃ ts1 ks f c' b' hs', removeSeparators (emit sty b) = .ok ts1 ∧ Disc DS.init ts1 ∧ ReadTks ts1 ks ∧
      Spec.block f (toToks ks) = .ok (c', [eofTok]) ∧ BlockRel (dropSemis b) (dropEmpty c') ∧ Spec.Accepts t1 c' ∧
      parseText t1 = .ok (b', hs') ∧ BlockRel b' c' := by
  have hcm := comments_tidy_of_tree sty b (TreeWF_of_Printable hp) (.inl hic)
  obtain ⟨ts1, ts, ks, h1, hdisc, hl, hk, hrd⟩ := format_lex_rs sty hd b hp hn hcm hw he t1 h
  have hrd0 : ReadTks (emit sty b) ks := softDrop_read (removeSeparators_softDrop h1) _ hrd
  obtain ⟨f, c', hb, hrel⟩ := read_sim sty b hp ks hrd0
  have hacc : Spec.Accepts t1 c' := accepts_of_tks hl hk hb
  have hin : ∀ ts', Spec.lex t1 = .ok ts' → ∀ x ∈ ts', InScopeTk x.tk := by
    intro ts' hl' x hx
    rw [hl] at hl'
    cases hl'
    have hm : x.tk ∈ ks ++ [.eof] := by rw [← hk]; exact List.mem_map.mpr ⟨x, hx, rfl⟩
    rcases List.mem_append.mp hm with hm | hm
    · exact reading_inScope hdisc hrd _ hm
    · simp only [List.mem_singleton] at hm; rw [hm]; trivial
  obtain ⟨b', hs', hp', hrel'⟩ := parse_complete t1 c' hacc hin
  exact ⟨ts1, ks, f, c', b', hs', h1, hdisc, hrd, hb, hrel, hacc, hp', hrel'⟩

/-- the two model trees denote the same program -/
theorem reparse_denote {b b' : Block} {c' : Spec.Block} (h1 : BlockRel (dropSemis b) (dropEmpty c')) (h2 : BlockRel b' c') :
    denote b' = denote (dropSemis b) := by
  rw [← blockRel_normS h2, ← normS_dropEmpty c', blockRel_normS h1]

end Tumfl.Theory
