import Tumfl.Theory.LayoutKeepsString
/-!
# `indent_brackets` keeps the tokens

`core ps` are the pieces of `ps` other than Argument / Newline / Indent / Deindent separators (the ones
the pass inserts and removes).  `Rw sty a b` says that `b` is `a` with every quoted string piece `q`
replaced by the `core` pieces of some `stringIdent q ind sty`, everything else unchanged.  Main theorem
`indentBrackets_keeps : indentBrackets ts sty = .ok ts' → Rw sty (core ts) (core ts')`.

The mutually recursive `innerCollect` / `innerIndent` are handled by one induction on the fuel over the
pair of specifications `CollectSpec` / `IndentSpec` (`inner_specs`), the outer loop by
`indentBracketsRev_spec`.  All functions work on the reversed stream, hence the `.reverse`s.
-/
namespace Tumfl.Theory
open Tumfl.Model

/-- the separators `indent_brackets` may insert or remove -/
def isLayoutSep : Piece → Bool
  | .sep .argument | .sep .newline | .sep .indent | .sep .deindent => true
  | _ => false

/-- everything but the layout separators -/
def core (ps : Pieces) : Pieces := ps.filter (fun p => !isLayoutSep p)

@[simp] theorem core_nil : core [] = [] := rfl
theorem core_cons (p : Piece) (l : Pieces) : core (p :: l) = if isLayoutSep p then core l else p :: core l := by
  cases h : isLayoutSep p <;> simp [core, h]
@[simp] theorem core_cons_str (s : List Char) (l : Pieces) : core (.str s :: l) = .str s :: core l := by
  simp [core_cons, isLayoutSep]
@[simp] theorem core_append (a b : Pieces) : core (a ++ b) = core a ++ core b := by simp [core]
theorem core_reverse (a : Pieces) : core a.reverse = (core a).reverse := by simp [core, List.filter_reverse]
theorem core_cons_layout {p : Piece} (h : isLayoutSep p = true) (l : Pieces) : core (p :: l) = core l := by
  simp [core_cons, h]
theorem core_cons_keep {p : Piece} (h : isLayoutSep p = false) (l : Pieces) : core (p :: l) = p :: core l := by
  simp [core_cons, h]

@[simp] theorem core_S_argument (l : Pieces) : core (S .argument :: l) = core l := core_cons_layout rfl l
@[simp] theorem core_S_newline (l : Pieces) : core (S .newline :: l) = core l := core_cons_layout rfl l
@[simp] theorem core_S_indent (l : Pieces) : core (S .indent :: l) = core l := core_cons_layout rfl l
@[simp] theorem core_S_deindent (l : Pieces) : core (S .deindent :: l) = core l := core_cons_layout rfl l

/-- not a quoted string piece -/
def plain (p : Piece) : Prop := ∀ s, p = .str s → isQuoted s = false

theorem plain_sep (x : Sep) : plain (.sep x) := fun _ h => by cases h
theorem plain_str {s : List Char} (h : isQuoted s = false) : plain (.str s) := fun _ e => by cases e; exact h

/-- `Rw sty a b`: `b` is `a` with every quoted string piece `q` replaced by the (non-layout) pieces of
some `stringIdent q ind sty`, everything else unchanged -/
inductive Rw (sty : Style) : Pieces → Pieces → Prop
  | nil : Rw sty [] []
  | keep {a b : Pieces} (p : Piece) : plain p → Rw sty a b → Rw sty (p :: a) (p :: b)
  | wrap {a b : Pieces} (q : List Char) (ind : Int) (ps : Pieces) :
      stringIdent q ind sty = .ok ps → Rw sty a b → Rw sty (.str q :: a) (core ps ++ b)

theorem Rw.append {sty : Style} {a b c d : Pieces} (h1 : Rw sty a b) (h2 : Rw sty c d) :
    Rw sty (a ++ c) (b ++ d) := by
  induction h1 with
  | nil => exact h2
  | keep p hp _ ih => exact .keep p hp ih
  | wrap q ind ps hs _ ih => rw [List.cons_append, List.append_assoc]; exact .wrap q ind ps hs ih

theorem Rw.snoc_keep {sty : Style} {a b : Pieces} (h : Rw sty a b) {p : Piece} (hp : plain p) :
    Rw sty (a ++ [p]) (b ++ [p]) := h.append (.keep p hp .nil)

theorem Rw.snoc_wrap {sty : Style} {a b : Pieces} (h : Rw sty a b) {q : List Char} {ind : Int} {ps : Pieces}
    (hs : stringIdent q ind sty = .ok ps) : Rw sty (a ++ [.str q]) (b ++ core ps) := by
  have := h.append (.wrap q ind ps hs .nil)
  simpa using this

/-- a bracketed group: open bracket, rewritten content, closing bracket -/
theorem Rw.bracket {sty : Style} {a m : Pieces} (h : Rw sty a m) {o : Char} {s : List Char}
    (ho : isQuoted [o] = false) (hs : isQuoted s = false) :
    Rw sty (.str [o] :: a ++ [.str s]) (.str [o] :: m ++ [.str s]) :=
  .keep _ (plain_str ho) (h.snoc_keep (plain_str hs))

/-! ## table facts -/

theorem closingOf_some {s : List Char} {o : Char} (h : closingOf s = some o) :
    isQuoted s = false ∧ isQuoted [o] = false := by
  unfold closingOf at h
  split at h
  · rename_i x
    simp only [Gen.matchingBrackets, List.lookup] at h
    split at h
    · rename_i hx; simp at hx; cases h; subst hx; decide
    · split at h
      · rename_i hx; simp at hx; cases h; subst hx; decide
      · split at h
        · rename_i hx; simp at hx; cases h; subst hx; decide
        · cases h
  · cases h

/-! ## helper facts about the output shapes of `__inner_indent` -/

theorem core_joinSep : ∀ comps : List Pieces, core (joinSep .argument comps) = core comps.flatten
  | [] => rfl
  | [x] => by simp [joinSep]
  | x :: y :: rest => by
    have ih := core_joinSep (y :: rest)
    simp only [joinSep, core_append, List.flatten_cons] at ih ⊢
    rw [core_cons_layout (by rfl), ih]

theorem core_flatMap_arg : ∀ comps : List Pieces,
    core (comps.flatMap fun c => c ++ [S .argument, S .newline]) = core comps.flatten
  | [] => rfl
  | c :: comps => by
    simp only [List.flatMap_cons, core_append, List.flatten_cons, core_flatMap_arg comps]
    rw [show core [S .argument, S .newline] = [] from rfl]
    simp

theorem take_drop_two (X : Pieces) (a b : Piece) :
    (X ++ [a, b]).take ((X ++ [a, b]).length - 2) ++ (X ++ [a, b]).drop ((X ++ [a, b]).length - 1) = X ++ [b] := by
  have h1 : (X ++ [a, b]).length - 2 = X.length := by simp
  have h2 : (X ++ [a, b]).length - 1 = (X ++ [a]).length := by simp
  rw [h1, List.take_left' rfl, h2]
  have : X ++ [a, b] = (X ++ [a]) ++ [b] := by simp
  rw [this, List.drop_left' rfl]

theorem core_body' (comps : List Pieces) :
    core (((comps.flatMap fun c => c ++ [S .argument, S .newline]).take
        ((comps.flatMap fun c => c ++ [S .argument, S .newline]).length - 2)) ++
      (comps.flatMap fun c => c ++ [S .argument, S .newline]).drop
        ((comps.flatMap fun c => c ++ [S .argument, S .newline]).length - 1)) = core comps.flatten := by
  rcases List.eq_nil_or_concat comps with rfl | ⟨init, c, rfl⟩
  · rfl
  · rw [List.concat_eq_append]
    have e : ((init ++ [c]).flatMap fun c => c ++ [S .argument, S .newline]) =
        ((init.flatMap fun c => c ++ [S .argument, S .newline]) ++ c) ++ [S .argument, S .newline] := by
      simp
    rw [e, take_drop_two]
    simp only [core_append, core_flatMap_arg, List.flatten_append, List.flatten_cons, List.flatten_nil]
    rw [show core [S .newline] = [] from rfl]
    simp

theorem core_wrapped (openCh : Char) (closeTok : List Char) (body' : Pieces) :
    core ([.str [openCh], S .indent, S .newline] ++ body' ++ [S .deindent, .str closeTok]) =
      .str [openCh] :: core body' ++ [.str closeTok] := by
  simp

/-! ## the mutually recursive `__inner_indent` / collecting loop -/

/-- specification of the collecting loop with fuel `f`: it consumes `pre` up to the matching opening
bracket; the collected components consist of the rewritten `pre` (in source order), then what was
already in `cur`, then the already finished components -/
def CollectSpec (sty : Style) (f : Nat) : Prop :=
  ∀ (openCh : Char) (ind : Int) (stream : Pieces) (comps : List Pieces) (cur : Pieces)
    (components : List Pieces) (rest' : Pieces),
    isQuoted [openCh] = false →
    innerCollect sty f openCh ind stream comps cur = .ok (components, rest') →
    ∃ pre mid, stream = pre ++ .str [openCh] :: rest' ∧ Rw sty (core pre).reverse mid ∧
      core components.flatten = mid ++ core cur ++ core comps.flatten

/-- specification of `__inner_indent` with fuel `f` -/
def IndentSpec (sty : Style) (f : Nat) : Prop :=
  ∀ (closeTok : List Char) (openCh : Char) (ind : Int) (rest content rest' : Pieces),
    isQuoted closeTok = false → isQuoted [openCh] = false →
    innerCollect.innerIndent sty f closeTok openCh ind rest = .ok (content, rest') →
    ∃ pre mid, rest = pre ++ .str [openCh] :: rest' ∧ Rw sty (core pre).reverse mid ∧
      core content = .str [openCh] :: mid ++ [.str closeTok]

theorem indentSpec_zero (sty : Style) : IndentSpec sty 0 := by
  intro closeTok openCh ind rest content rest' _ _ h
  rw [innerCollect.innerIndent] at h; cases h

theorem collectSpec_zero (sty : Style) : CollectSpec sty 0 := by
  intro openCh ind stream comps cur components rest' _ h
  rw [innerCollect] at h; cases h

theorem indentSpec_succ {sty : Style} {f : Nat} (hc : CollectSpec sty f) : IndentSpec sty (f + 1) := by
  intro closeTok openCh ind rest content rest' hq ho h
  rw [innerCollect.innerIndent] at h
  obtain ⟨⟨components, rest1⟩, hcol, h⟩ := lk_bind_ok h
  obtain ⟨pre, mid, hpre, hrw, hcore⟩ := hc openCh ind rest [] [] components rest1 ho hcol
  simp only [core_nil, List.append_nil, List.flatten_nil] at hcore
  simp only at h
  split at h
  · simp only [Except.ok.injEq, Prod.mk.injEq] at h
    obtain ⟨rfl, rfl⟩ := h
    refine ⟨pre, mid, hpre, hrw, ?_⟩
    simp [core_joinSep, hcore]
  · simp only [Except.ok.injEq, Prod.mk.injEq] at h
    obtain ⟨rfl, rfl⟩ := h
    refine ⟨pre, mid, hpre, hrw, ?_⟩
    rw [core_wrapped]
    split
    · rw [core_flatMap_arg, hcore]
    · rw [core_body', hcore]

/-- the common "push the token onto the current component" step -/
theorem collect_push {sty : Style} {openCh : Char} {tok : Piece} {rest rest' : Pieces} {comps : List Pieces}
    {cur : Pieces} {components : List Pieces} (hp : plain tok)
    (ih : ∃ pre mid, rest = pre ++ .str [openCh] :: rest' ∧ Rw sty (core pre).reverse mid ∧
      core components.flatten = mid ++ core (tok :: cur) ++ core comps.flatten) :
    ∃ pre mid, tok :: rest = pre ++ .str [openCh] :: rest' ∧ Rw sty (core pre).reverse mid ∧
      core components.flatten = mid ++ core cur ++ core comps.flatten := by
  obtain ⟨pre, mid, hpre, hrw, hcore⟩ := ih
  cases hl : isLayoutSep tok
  · refine ⟨tok :: pre, mid ++ [tok], by simp [hpre], ?_, ?_⟩
    · rw [core_cons_keep hl, List.reverse_cons]
      exact hrw.snoc_keep hp
    · rw [hcore, core_cons_keep hl]; simp
  · refine ⟨tok :: pre, mid, by simp [hpre], ?_, ?_⟩
    · rw [core_cons_layout hl]; exact hrw
    · rw [hcore, core_cons_layout hl]

theorem collect_done {sty : Style} {openCh : Char} {rest : Pieces} {comps : List Pieces} {cur : Pieces} :
    ∃ pre mid, .str [openCh] :: rest = pre ++ .str [openCh] :: rest ∧ Rw sty (core pre).reverse mid ∧
      core (if cur.isEmpty then comps else cur :: comps).flatten = mid ++ core cur ++ core comps.flatten := by
  refine ⟨[], [], rfl, .nil, ?_⟩
  cases cur with
  | nil => simp
  | cons c cs =>
    simp only [List.isEmpty_cons, Bool.false_eq_true, if_false, List.flatten_cons, core_append, List.nil_append]

theorem collectSpec_succ {sty : Style} {f : Nat} (hc : CollectSpec sty f) (hi : IndentSpec sty f) :
    CollectSpec sty (f + 1) := by
  intro openCh ind stream comps cur components rest' ho h
  cases stream with
  | nil => rw [innerCollect] at h; cases h
  | cons tok rest =>
    cases tok with
    | str s =>
      rw [innerCollect] at h
      split at h
      · rename_i heq
        simp only [beq_iff_eq, Piece.str.injEq] at heq
        subst heq
        simp only [Except.ok.injEq, Prod.mk.injEq] at h
        obtain ⟨rfl, rfl⟩ := h
        exact collect_done
      · split at h
        · rename_i o2 hcl
          obtain ⟨hqs, hqo⟩ := closingOf_some hcl
          obtain ⟨⟨content, rest1⟩, hind, h⟩ := lk_bind_ok h
          simp only at h
          obtain ⟨pre1, mid1, hpre1, hrw1, hcore1⟩ := hi s o2 (ind + 1) rest content rest1 hqs hqo hind
          obtain ⟨pre2, mid2, hpre2, hrw2, hcore2⟩ := hc openCh ind rest1 comps (content ++ cur) components rest' ho h
          refine ⟨.str s :: pre1 ++ .str [o2] :: pre2, mid2 ++ (.str [o2] :: mid1 ++ [.str s]), ?_, ?_, ?_⟩
          · rw [hpre1, hpre2]; simp
          · have e : (core (.str s :: pre1 ++ .str [o2] :: pre2)).reverse =
                (core pre2).reverse ++ (.str [o2] :: (core pre1).reverse ++ [.str s]) := by
              simp
            rw [e]
            exact hrw2.append (hrw1.bracket hqo hqs)
          · rw [hcore2, core_append, hcore1]; simp
        · split at h
          · rename_i hq
            obtain ⟨ps, hps, h⟩ := lk_bind_ok h
            obtain ⟨pre2, mid2, hpre2, hrw2, hcore2⟩ := hc openCh ind rest comps (ps ++ cur) components rest' ho h
            refine ⟨.str s :: pre2, mid2 ++ core ps, by simp [hpre2], ?_, ?_⟩
            · rw [core_cons_str, List.reverse_cons]
              exact hrw2.snoc_wrap hps
            · rw [hcore2, core_append]; simp
          · rename_i hq
            exact collect_push (plain_str (by simpa using hq)) (hc openCh ind rest comps _ components rest' ho h)
    | sep x =>
      by_cases hx : x = .argument
      · subst hx
        rw [innerCollect] at h
        simp only [beq_iff_eq, reduceCtorEq, if_false] at h
        obtain ⟨pre2, mid2, hpre2, hrw2, hcore2⟩ := hc openCh ind rest (cur :: comps) [] components rest' ho h
        refine ⟨.sep .argument :: pre2, mid2, by simp [hpre2], ?_, ?_⟩
        · rw [core_cons_layout rfl]; exact hrw2
        · rw [hcore2]; simp
      · rw [innerCollect] at h
        · simp only [beq_iff_eq, reduceCtorEq, if_false] at h
          exact collect_push (plain_sep x) (hc openCh ind rest comps _ components rest' ho h)
        · intro s hs; cases hs
        · intro hs; cases hs; exact hx rfl

theorem inner_specs (sty : Style) : ∀ f : Nat, CollectSpec sty f ∧ IndentSpec sty f
  | 0 => ⟨collectSpec_zero sty, indentSpec_zero sty⟩
  | f + 1 =>
    have ih := inner_specs sty f
    ⟨collectSpec_succ ih.1 ih.2, indentSpec_succ ih.1⟩

/-! ## the outer loop -/

theorem indentBracketsRev_spec (sty : Style) : ∀ (f : Nat) (rev : Pieces) (ind : Int) (acc out : Pieces),
    indentBracketsRev sty f rev ind acc = .ok out →
    ∃ mid, core out = mid ++ core acc ∧ Rw sty (core rev).reverse mid
  | 0, rev, ind, acc, out, h => by rw [indentBracketsRev] at h; cases h
  | f + 1, [], ind, acc, out, h => by
    rw [indentBracketsRev] at h; cases h
    exact ⟨[], rfl, .nil⟩
  | f + 1, .str s :: rest, ind, acc, out, h => by
    rw [indentBracketsRev] at h
    split at h
    · rename_i o hcl
      obtain ⟨hqs, hqo⟩ := closingOf_some hcl
      obtain ⟨⟨content, rest1⟩, hind, h⟩ := lk_bind_ok h
      simp only at h
      obtain ⟨pre1, mid1, hpre1, hrw1, hcore1⟩ :=
        (inner_specs sty _).2 s o ind rest content rest1 hqs hqo hind
      obtain ⟨mid2, hcore2, hrw2⟩ := indentBracketsRev_spec sty f rest1 ind _ out h
      refine ⟨mid2 ++ (.str [o] :: mid1 ++ [.str s]), ?_, ?_⟩
      · rw [hcore2, core_append, hcore1]; simp
      · have e : (core (.str s :: rest)).reverse =
            (core rest1).reverse ++ (.str [o] :: (core pre1).reverse ++ [.str s]) := by
          rw [hpre1]; simp
        rw [e]
        exact hrw2.append (hrw1.bracket hqo hqs)
    · split at h
      · obtain ⟨ps, hps, h⟩ := lk_bind_ok h
        obtain ⟨mid2, hcore2, hrw2⟩ := indentBracketsRev_spec sty f rest ind _ out h
        refine ⟨mid2 ++ core ps, ?_, ?_⟩
        · rw [hcore2, core_append]; simp
        · rw [core_cons_str, List.reverse_cons]
          exact hrw2.snoc_wrap hps
      · rename_i hq
        obtain ⟨mid2, hcore2, hrw2⟩ := indentBracketsRev_spec sty f rest ind _ out h
        refine ⟨mid2 ++ [.str s], ?_, ?_⟩
        · rw [hcore2]; simp
        · rw [core_cons_str, List.reverse_cons]
          exact hrw2.snoc_keep (plain_str (by simpa using hq))
  | f + 1, .sep x :: rest, ind, acc, out, h => by
    have key : ∃ ind', indentBracketsRev sty f rest ind' (.sep x :: acc) = .ok out := by
      cases x <;> simp only [indentBracketsRev] at h <;> exact ⟨_, h⟩
    obtain ⟨ind', h⟩ := key
    obtain ⟨mid2, hcore2, hrw2⟩ := indentBracketsRev_spec sty f rest ind' _ out h
    cases hl : isLayoutSep (.sep x)
    · refine ⟨mid2 ++ [.sep x], ?_, ?_⟩
      · rw [hcore2, core_cons_keep hl]; simp
      · rw [core_cons_keep hl, List.reverse_cons]
        exact hrw2.snoc_keep (plain_sep x)
    · refine ⟨mid2, ?_, ?_⟩
      · rw [hcore2, core_cons_layout hl]
      · rw [core_cons_layout hl]; exact hrw2

/-- **`indent_brackets` keeps the tokens.**  Apart from Argument / Newline / Indent / Deindent
separators (which it inserts and removes), the result is the input with every quoted string piece
`q` replaced by the pieces of some `stringIdent q ind sty`; all other pieces are unchanged and in
order. -/
theorem indentBrackets_keeps {ts ts' : Pieces} {sty : Style} (h : indentBrackets ts sty = .ok ts') :
    Rw sty (core ts) (core ts') := by
  obtain ⟨mid, hcore, hrw⟩ := indentBracketsRev_spec sty _ _ _ _ _ h
  rw [core_reverse, List.reverse_reverse] at hrw
  simp only [core_nil, List.append_nil] at hcore
  rw [hcore]; exact hrw

end Tumfl.Theory
