import Tumfl.Model.Emit
import Tumfl.Spec.Lex
/-!
# Writing a string value as a literal that reads back identically (core of the string property)

`visitString` (Model/Emit.lean) writes a value `v : List Char` either as a quoted literal
`q :: v.flatMap (escapeChar q) ++ [q]` or as a long bracket `[=*[ start ++ v ]=*]`.  This file proves
that the *reference* lexer (Spec/Lex.lean) reads either form back as exactly `v`:

* `EscTableOK` - the decidable obligation on the escape table (discharged for the extracted table in
  `Tumfl/Inst/StrWrite.lean`); `escapeCharWith tbl` is `escapeChar` with the table as a parameter
  (`escapeChar_eq : escapeChar = escapeCharWith Gen.escapeCharacters := rfl`).
* `readUHex_roundtrip` - `\u{hex}` round trip for every n < 2^31.
* `quoted_roundtrip_with` - quoted form, any table satisfying `EscTableOK`, fuel `v.length + 1`.
* `findLevel_closer`, `findLevel_opener` - `findLevel` always ends at a level whose exit condition holds
  (the fuel `length + 3` suffices: any level >= length is good).
* `long_roundtrip` - long form, no hypotheses.
-/
namespace Tumfl.Theory
open Tumfl.Model

/-! ## the escape table, as a parameter -/

/-- What the proof needs of an escape table `character -> escape letter`: the letter is a simple
escape of the reference lexer standing for exactly that character, and is none of the letters that
start a longer escape. -/
def EscTableOK (tbl : List (Char × Char)) : Bool :=
  tbl.all fun (c, l) =>
    Spec.escChar l == some c.toNat && l != 'x' && l != 'u' && l != 'z' && !Spec.isDigit l

/-- `escapeChar` with the table as a parameter -/
def escapeCharWith (tbl : List (Char × Char)) (quote : Char) (c : Char) : List Char :=
  if c == quote || c == '\\' then ['\\', c]
  else if 32 ≤ c.toNat && c.toNat < 127 then [c]
  else
    match tbl.lookup c with
    | some l => ['\\', l]
    | none =>
      if c.toNat < 128 then '\\' :: 'x' :: hex2 c.toNat
      else "\\u{".toList ++ natToHex 8 c.toNat ++ ['}']

theorem escapeChar_eq : escapeChar = escapeCharWith Gen.escapeCharacters := rfl

theorem lookup_mem {α β} [BEq α] (tbl : List (α × β)) (c : α) (l : β) (h : tbl.lookup c = some l) :
    ∃ c', (c', l) ∈ tbl ∧ (c == c') = true := by
  induction tbl with
  | nil => simp at h
  | cons p t ih =>
    obtain ⟨a, b⟩ := p
    rw [List.lookup_cons] at h
    cases hc : c == a with
    | true =>
      rw [hc] at h
      simp only [Option.some.injEq] at h
      subst h
      exact ⟨a, by simp, hc⟩
    | false =>
      rw [hc] at h
      obtain ⟨c', hm, hc'⟩ := ih h
      exact ⟨c', by simp [hm], hc'⟩

theorem escTable_lookup {tbl : List (Char × Char)} (hok : EscTableOK tbl = true) {c l : Char}
    (h : tbl.lookup c = some l) :
    Spec.escChar l = some c.toNat ∧ l ≠ 'x' ∧ l ≠ 'u' ∧ l ≠ 'z' ∧ Spec.isDigit l = false := by
  obtain ⟨c', hm, hc⟩ := lookup_mem tbl c l h
  have hc : c = c' := by simpa using hc
  subst hc
  have := List.all_eq_true.mp hok _ hm
  simp only [Bool.and_eq_true, beq_iff_eq, bne_iff_ne, ne_eq, Bool.not_eq_true'] at this
  obtain ⟨⟨⟨⟨h1, h2⟩, h3⟩, h4⟩, h5⟩ := this
  exact ⟨h1, h2, h3, h4, h5⟩

/-! ## hexadecimal digits -/

theorem hexDigit_facts : ∀ k : Fin 16,
    Spec.isXDigit (hexDigitLower k.val) = true ∧ Spec.xdigitVal (hexDigitLower k.val) = k.val ∧
    hexDigitLower k.val ≠ '}' := by decide

theorem isXDigit_hexDigit {k : Nat} (h : k < 16) : Spec.isXDigit (hexDigitLower k) = true :=
  (hexDigit_facts ⟨k, h⟩).1

theorem xdigitVal_hexDigit {k : Nat} (h : k < 16) : Spec.xdigitVal (hexDigitLower k) = k :=
  (hexDigit_facts ⟨k, h⟩).2.1

theorem hexDigit_ne_brace {k : Nat} (h : k < 16) : hexDigitLower k ≠ '}' :=
  (hexDigit_facts ⟨k, h⟩).2.2

theorem readUHex_digit {k : Nat} (hk : k < 16) (cs : List Char) (acc : Nat) (seen : Bool)
    (hv : acc * 16 + k < 2 ^ 31) :
    Spec.readUHex (hexDigitLower k :: cs) acc seen = Spec.readUHex cs (acc * 16 + k) true := by
  have h1 := isXDigit_hexDigit hk
  have h2 := xdigitVal_hexDigit hk
  have h3 := hexDigit_ne_brace hk
  rw [Spec.readUHex.eq_def]
  split
  · rename_i heq
    simp only [List.cons.injEq] at heq
    exact absurd heq.1 h3
  · rename_i heq
    simp only [List.cons.injEq] at heq
    obtain ⟨rfl, rfl⟩ := heq
    simp [h1, h2, hv]
  · rename_i heq
    simp at heq

theorem readUHex_natToHex : ∀ (f n : Nat), 0 < f → n < 16 ^ f → n < 2 ^ 31 → ∀ (rest : List Char) (seen : Bool),
    Spec.readUHex (natToHex f n ++ rest) 0 seen = Spec.readUHex rest n true := by
  intro f
  induction f with
  | zero => intro n h; simp at h
  | succ f ih =>
    intro n _ hn h31 rest seen
    rw [natToHex]
    by_cases h16 : n < 16
    · simp only [h16, if_true, List.cons_append, List.nil_append]
      rw [readUHex_digit h16 _ _ _ (by omega)]
      simp
    · simp only [h16, if_false, List.append_assoc, List.cons_append, List.nil_append]
      have hdiv : n / 16 < 16 ^ f := by
        rw [Nat.pow_succ] at hn
        exact Nat.div_lt_of_lt_mul (by omega)
      have hf : 0 < f := by
        rcases f with _ | f
        · simp at hdiv; omega
        · omega
      rw [ih (n / 16) hf hdiv (by omega)]
      rw [readUHex_digit (Nat.mod_lt _ (by omega)) _ _ _ (by omega)]
      congr 1
      omega

/-- hexadecimal round trip -/
theorem readUHex_roundtrip (n : Nat) (hn : n < 2 ^ 31) (rest : List Char) :
    Spec.readUHex (natToHex 8 n ++ '}' :: rest) 0 false = some (n, rest) := by
  rw [readUHex_natToHex 8 n (by omega) (by omega) hn]
  simp [Spec.readUHex]

/-! ## one unit of a quoted string -/

/-- what reading one more unit `u` adds to a result -/
def consUnit (u : Spec.SUnit) (x : Option (List Spec.SUnit × List Char)) : Option (List Spec.SUnit × List Char) :=
  x.map fun (v, r) => (u :: v, r)

theorem sw_strBody_plain (q c : Char) (f : Nat) (cs : List Char) (h1 : c ≠ q) (h2 : c ≠ '\n') (h3 : c ≠ '\r')
    (h4 : c ≠ '\\') :
    Spec.strBody q (f + 1) (c :: cs) = consUnit (.ch c.toNat) (Spec.strBody q f cs) := by
  rw [Spec.strBody.eq_def]
  simp [h1, h2, h3, h4, consUnit]

theorem sw_strBody_simple (q d : Char) (f : Nat) (r : List Char) (hq : q ≠ '\\') (hx : d ≠ 'x') (hu : d ≠ 'u')
    (hz : d ≠ 'z') (hd : Spec.isDigit d = false) (v : Nat) (he : Spec.escChar d = some v) :
    Spec.strBody q (f + 1) ('\\' :: d :: r) = consUnit (.ch v) (Spec.strBody q f r) := by
  rw [Spec.strBody]
  have hq' : ('\\' == q) = false := by simpa using hq.symm
  simp only [hq', Bool.false_eq_true, if_false]
  simp only [show (('\\' : Char) == '\n' || ('\\' : Char) == '\r') = false by decide, Bool.false_eq_true, if_false,
    show (('\\' : Char) == '\\') = true by decide, if_true]
  split
  · rename_i h; rw [hd] at h; exact absurd h (by decide)
  · simp [he, consUnit]
  all_goals (intros; simp_all)

theorem strBody_x (q h1 h2 : Char) (f : Nat) (r : List Char) (hq : q ≠ '\\')
    (hh1 : Spec.isXDigit h1 = true) (hh2 : Spec.isXDigit h2 = true) :
    Spec.strBody q (f + 1) ('\\' :: 'x' :: h1 :: h2 :: r) =
      consUnit (Spec.byteUnit (Spec.xdigitVal h1 * 16 + Spec.xdigitVal h2)) (Spec.strBody q f r) := by
  rw [Spec.strBody.eq_def]
  have hq' : ('\\' == q) = false := by simpa using hq.symm
  simp [hq', hh1, hh2, consUnit]

theorem strBody_u (q : Char) (f : Nat) (r r' : List Char) (v : Nat) (hq : q ≠ '\\')
    (hr : Spec.readUHex r 0 false = some (v, r')) :
    Spec.strBody q (f + 1) ('\\' :: 'u' :: '{' :: r) = consUnit (.ch v) (Spec.strBody q f r') := by
  rw [Spec.strBody.eq_def]
  have hq' : ('\\' == q) = false := by simpa using hq.symm
  simp [hq', hr, consUnit]

/-- reading back what `escapeCharWith` wrote for one character yields exactly that character -/
theorem strBody_escapeChar {tbl : List (Char × Char)} (hok : EscTableOK tbl = true) (q : Char)
    (hq : q = '"' ∨ q = '\'') (c : Char) (f : Nat) (tail : List Char) :
    Spec.strBody q (f + 1) (escapeCharWith tbl q c ++ tail) =
      consUnit (.ch c.toNat) (Spec.strBody q f tail) := by
  have hqb : q ≠ '\\' := by rcases hq with rfl | rfl <;> decide
  unfold escapeCharWith
  by_cases h1 : (c == q || c == '\\') = true
  · rw [if_pos h1]
    have hc : c = '"' ∨ c = '\'' ∨ c = '\\' := by
      simp only [Bool.or_eq_true, beq_iff_eq] at h1
      rcases h1 with h | h
      · subst h; rcases hq with h | h <;> simp [h]
      · simp [h]
    have he : Spec.escChar c = some c.toNat := by
      rcases hc with rfl | rfl | rfl <;> rfl
    refine sw_strBody_simple q c f tail hqb ?_ ?_ ?_ ?_ _ he <;>
      rcases hc with rfl | rfl | rfl <;> decide
  · rw [if_neg h1]
    simp only [Bool.or_eq_true, beq_iff_eq, not_or] at h1
    by_cases h2 : (decide (32 ≤ c.toNat) && decide (c.toNat < 127)) = true
    · rw [if_pos h2]
      simp only [Bool.and_eq_true, decide_eq_true_eq] at h2
      refine sw_strBody_plain q c f tail h1.1 ?_ ?_ h1.2
      · intro h; subst h; revert h2; decide
      · intro h; subst h; revert h2; decide
    · rw [if_neg h2]
      cases hl : tbl.lookup c with
      | some l =>
        obtain ⟨e1, e2, e3, e4, e5⟩ := escTable_lookup hok hl
        exact sw_strBody_simple q l f tail hqb e2 e3 e4 e5 _ e1
      | none =>
        by_cases h3 : c.toNat < 128
        · simp only [h3, if_true, hex2, List.cons_append, List.nil_append]
          rw [strBody_x q _ _ f tail hqb (isXDigit_hexDigit (Nat.mod_lt _ (by omega)))
            (isXDigit_hexDigit (Nat.mod_lt _ (by omega)))]
          rw [xdigitVal_hexDigit (Nat.mod_lt _ (by omega)), xdigitVal_hexDigit (Nat.mod_lt _ (by omega))]
          have : c.toNat / 16 % 16 * 16 + c.toNat % 16 = c.toNat := by omega
          rw [this, Spec.byteUnit, if_pos h3]
        · simp only [h3, if_false]
          have hlt : c.toNat < 2 ^ 31 := by
            have := c.valid
            have : c.toNat < 0x110000 := by
              rcases c.valid with h | ⟨_, h⟩
              · exact Nat.lt_trans h (by decide)
              · exact h
            omega
          show Spec.strBody q (f + 1) ('\\' :: 'u' :: '{' :: ((natToHex 8 c.toNat ++ ['}']) ++ tail)) = _
          rw [List.append_assoc]
          exact strBody_u q f _ tail c.toNat hqb (readUHex_roundtrip c.toNat hlt tail)

/-- THE MAIN THEOREM (quoted form), generic in the escape table -/
theorem quoted_roundtrip_with {tbl : List (Char × Char)} (hok : EscTableOK tbl = true) (q : Char)
    (hq : q = '"' ∨ q = '\'') (v rest : List Char) :
    Spec.strBody q (v.length + 1) (v.flatMap (escapeCharWith tbl q) ++ q :: rest) =
      some (v.map (fun c => Spec.SUnit.ch c.toNat), rest) := by
  induction v with
  | nil => simp [Spec.strBody]
  | cons c cs ih =>
    rw [List.flatMap_cons, List.append_assoc, List.length_cons, strBody_escapeChar hok q hq, ih]
    rfl

/-! ## long brackets -/

theorem isPrefix_iff (p w : List Char) : isPrefix p w = true ↔ ∃ s, w = p ++ s := by
  induction p generalizing w with
  | nil => simp [isPrefix]
  | cons a as ih =>
    cases w with
    | nil => simp [isPrefix]
    | cons b bs =>
      simp only [isPrefix, Bool.and_eq_true, beq_iff_eq, ih, List.cons_append, List.cons.injEq]
      constructor
      · rintro ⟨rfl, s, rfl⟩; exact ⟨s, rfl, rfl⟩
      · rintro ⟨s, rfl, rfl⟩; exact ⟨rfl, s, rfl⟩

theorem containsSub_iff (p w : List Char) : containsSub p w = true ↔ ∃ a s, w = a ++ (p ++ s) := by
  induction w with
  | nil =>
    simp only [containsSub, List.isEmpty_iff]
    constructor
    · rintro rfl; exact ⟨[], [], rfl⟩
    · rintro ⟨a, s, h⟩
      have := congrArg List.length h
      simp at this
      exact List.eq_nil_of_length_eq_zero (by omega)
  | cons c cs ih =>
    simp only [containsSub, Bool.or_eq_true, isPrefix_iff, ih]
    constructor
    · rintro (⟨s, h⟩ | ⟨a, s, h⟩)
      · exact ⟨[], s, h⟩
      · exact ⟨c :: a, s, by simp [h]⟩
    · rintro ⟨a, s, h⟩
      cases a with
      | nil => exact Or.inl ⟨s, h⟩
      | cons x a =>
        simp only [List.cons_append, List.cons.injEq] at h
        exact Or.inr ⟨a, s, h.2⟩

/-- the closing bracket of level `lvl` -/
def closer (lvl : Nat) : List Char := ']' :: repeatChar '=' lvl ++ [']']

theorem closer_dropLast (lvl : Nat) : (closer lvl).dropLast = ']' :: repeatChar '=' lvl := by
  show ((']' :: repeatChar '=' lvl) ++ [']']).dropLast = _
  rw [List.dropLast_concat]

theorem closesAt_closer (lvl : Nat) (rest : List Char) :
    Spec.closesAt lvl (repeatChar '=' lvl ++ ']' :: rest) = some rest := by
  induction lvl with
  | zero => simp [repeatChar, Spec.closesAt]
  | succ n ih =>
    simp only [repeatChar, List.replicate_succ, List.cons_append, Spec.closesAt] at ih ⊢
    exact ih

theorem closesAt_some : ∀ (lvl : Nat) (cs r : List Char), Spec.closesAt lvl cs = some r →
    cs = repeatChar '=' lvl ++ ']' :: r := by
  intro lvl
  induction lvl with
  | zero =>
    intro cs r h
    rw [Spec.closesAt.eq_def] at h
    split at h
    · simp only [Option.some.injEq] at h; subst h; simp [repeatChar]
    · rename_i heq; cases heq
    · simp at h
  | succ n ih =>
    intro cs r h
    rw [Spec.closesAt.eq_def] at h
    split at h
    · rename_i heq; cases heq
    · rename_i heq
      cases heq
      rw [ih _ _ h]
      simp [repeatChar, List.replicate_succ]
    · simp at h

theorem isPrefix_of_append (p x y : List Char) (hl : p.length ≤ x.length)
    (h : isPrefix p (x ++ y) = true) : isPrefix p x = true := by
  induction p generalizing x with
  | nil => simp [isPrefix]
  | cons a as ih =>
    cases x with
    | nil => simp at hl
    | cons b bs =>
      simp only [List.cons_append, isPrefix, Bool.and_eq_true] at h ⊢
      exact ⟨h.1, ih bs (by simpa using hl) h.2⟩

/-- `longBody` stops exactly at the closer we wrote when that closer does not occur earlier -/
theorem longBody_closer (lvl : Nat) (v rest : List Char)
    (h : containsSub (closer lvl) (v ++ (closer lvl).dropLast) = false) :
    Spec.longBody lvl (v ++ closer lvl ++ rest) = some (v, rest) := by
  induction v with
  | nil =>
    simp only [List.nil_append, closer, List.cons_append, List.append_assoc, Spec.longBody]
    rw [closesAt_closer]
  | cons c cs ih =>
    simp only [List.cons_append, containsSub, Bool.or_eq_false_iff] at h
    have ih' := ih h.2
    by_cases hc : c = ']'
    · subst hc
      simp only [List.cons_append, Spec.longBody]
      cases hca : Spec.closesAt lvl (cs ++ closer lvl ++ rest) with
      | none => simp only [List.append_assoc] at ih'; simp [ih']
      | some r =>
        exfalso
        have e := closesAt_some _ _ _ hca
        have hp : isPrefix (closer lvl) ((']' :: (cs ++ (closer lvl).dropLast)) ++ ([']'] ++ rest)) = true := by
          rw [isPrefix_iff]
          refine ⟨r, ?_⟩
          have : closer lvl = (closer lvl).dropLast ++ [']'] := by
            rw [closer_dropLast]; simp [closer]
          calc (']' :: (cs ++ (closer lvl).dropLast)) ++ ([']'] ++ rest)
              = ']' :: (cs ++ ((closer lvl).dropLast ++ [']']) ++ rest) := by simp
            _ = ']' :: (cs ++ closer lvl ++ rest) := by rw [← this]
            _ = closer lvl ++ r := by rw [e]; simp [closer]
        have := isPrefix_of_append _ _ _ (by simp [closer, repeatChar]) hp
        rw [h.1] at this
        exact absurd this (by decide)
    · rw [List.cons_append, List.cons_append, Spec.longBody.eq_def]
      split
      · rename_i heq; simp at heq
      · rename_i heq; simp only [List.cons.injEq] at heq; exact absurd heq.1 hc
      · rename_i heq
        simp only [List.cons.injEq] at heq
        obtain ⟨rfl, rfl⟩ := heq
        rw [ih']; rfl

/-- the loop's exit condition at `level` -/
def levelGood (v : List Char) (level : Nat) : Bool :=
  !containsSub ('[' :: repeatChar '=' level ++ ['[']) v &&
    !containsSub (closer level) (v ++ (closer level).dropLast)

theorem findLevelLoop_good (v : List Char) : ∀ (f level : Nat),
    (∃ k, k < f ∧ levelGood v (level + k) = true) → levelGood v (findLevelLoop v f level) = true := by
  intro f
  induction f with
  | zero => rintro level ⟨k, hk, _⟩; omega
  | succ f ih =>
    rintro level ⟨k, hk, hg⟩
    rw [findLevelLoop]
    by_cases h0 : levelGood v level = true
    · have h0' := h0
      simp only [levelGood, closer] at h0
      simp only [h0, if_true]
      exact h0'
    · have h0' := h0
      simp only [levelGood, closer] at h0
      simp only [h0]
      apply ih
      cases k with
      | zero => exact absurd hg h0'
      | succ k => exact ⟨k, by omega, by rw [← hg]; congr 1; omega⟩

theorem containsSub_length {p w : List Char} (h : containsSub p w = true) : p.length ≤ w.length := by
  obtain ⟨a, s, rfl⟩ := (containsSub_iff p w).mp h
  simp; omega

theorem levelGood_of_large (v : List Char) (level : Nat) (hl : v.length ≤ level) :
    levelGood v level = true := by
  simp only [levelGood, Bool.and_eq_true, Bool.not_eq_true']
  constructor
  · cases h : containsSub ('[' :: repeatChar '=' level ++ ['[']) v with
    | false => rfl
    | true =>
      have := containsSub_length h
      simp [repeatChar] at this
      omega
  · cases h : containsSub (closer level) (v ++ (closer level).dropLast) with
    | false => rfl
    | true =>
      exfalso
      obtain ⟨a, s, e⟩ := (containsSub_iff _ _).mp h
      rw [closer_dropLast] at e
      have hlen := congrArg List.length e
      simp [closer, repeatChar] at hlen
      have hi := congrArg (fun l => l[a.length + (level + 1)]?) e
      rw [List.getElem?_append_right (by omega), List.getElem?_append_right (by omega)] at hi
      have e1 : a.length + (level + 1) - a.length = level + 1 := by omega
      obtain ⟨j, hj⟩ : ∃ j, a.length + (level + 1) - v.length = j + 1 := ⟨a.length + level - v.length, by omega⟩
      rw [e1, hj] at hi
      have hjl : j < level := by omega
      simp [closer, repeatChar, hjl] at hi

theorem findLevel_good (v : List Char) : levelGood v (findLevel v) = true := by
  unfold findLevel
  apply findLevelLoop_good
  exact ⟨v.length, by omega, levelGood_of_large _ _ (by omega)⟩

/-- characterisation of `findLevel`: its closer does not occur in `v ++ closer.dropLast` -/
theorem findLevel_closer (v : List Char) :
    containsSub (closer (findLevel v)) (v ++ (closer (findLevel v)).dropLast) = false := by
  have := findLevel_good v
  simp only [levelGood, Bool.and_eq_true, Bool.not_eq_true'] at this
  exact this.2

/-- ... and neither does the opener of that level occur in `v` -/
theorem findLevel_opener (v : List Char) :
    containsSub ('[' :: repeatChar '=' (findLevel v) ++ ['[']) v = false := by
  have := findLevel_good v
  simp only [levelGood, Bool.and_eq_true, Bool.not_eq_true'] at this
  exact this.1

theorem dropFirstNewline_start (v tail : List Char) :
    Spec.dropFirstNewline ((if startsWith v ['\n'] then ['\n'] else []) ++ v ++ ']' :: tail) = v ++ ']' :: tail := by
  cases v with
  | nil => simp [startsWith, isPrefix, Spec.dropFirstNewline]
  | cons c cs =>
    by_cases hc : c = '\n'
    · subst hc; simp [startsWith, isPrefix, Spec.dropFirstNewline]
    · have : (('\n' : Char) == c) = false := by simpa using fun h => hc h.symm
      simp only [startsWith, isPrefix, this, Bool.false_and, Bool.false_eq_true, if_false, List.nil_append,
        List.cons_append]
      rw [Spec.dropFirstNewline.eq_def]
      split
      · rename_i heq; simp only [List.cons.injEq] at heq; exact absurd heq.1 hc
      · rfl

/-- THE MAIN THEOREM (long form) -/
theorem long_roundtrip (v rest : List Char) :
    let lvl := findLevel v
    let closer := ']' :: repeatChar '=' lvl ++ [']']
    let start := if startsWith v ['\n'] then ['\n'] else []
    Spec.longBody lvl (Spec.dropFirstNewline (start ++ v ++ closer ++ rest)) = some (v, rest) := by
  intro lvl cl start
  have h := longBody_closer lvl v rest (findLevel_closer v)
  have e : start ++ v ++ cl ++ rest = start ++ v ++ ']' :: (repeatChar '=' lvl ++ [']'] ++ rest) := by
    simp [cl]
  rw [e, dropFirstNewline_start]
  rw [← h]
  simp [closer]

end Tumfl.Theory
