import Tumfl.Theory.ParserSimComplete4
/-!
# Completeness, step lemmas: atoms, blocks
-/
namespace Tumfl.Theory
open Tumfl.Model Tumfl.Spec

variable {B : Bridge} (hC : B.Complete)
include hC

theorem simpleexp_complete_step {f' : Nat} (ih : AllComplete B f') : AtomComplete B (f' + 1) := by
  intro ts e' ts' h n
  refine TPF_succ ?_
  simp only [Model.parseAtom]
  rw [Spec.simpleexp] at h
  inv h
  all_goals tp hC ih
  · rename_i m _ t hk hp _
    rw [hp] at hk
    obtain ⟨nn, hv, hn⟩ := hk.num_val
    simp only [hv]
    exact TPF_pure ⟨rfl, .num _ hn⟩
  · rename_i v _ t hk hp _
    rw [hp] at hk
    have hval := hk.str_val
    subst hval
    exact ⟨rfl, .str _ _⟩
  · exact ⟨rfl, .nil _⟩
  · exact ⟨rfl, .tru _⟩
  · exact ⟨rfl, .fls _⟩
  · exact ⟨rfl, .vararg _⟩
  · exact parseTable_complete hC ih _ _ _ asm asm _
  · exact ⟨rfl, .func _ asm asm⟩
  · rename_i hsuf t hk
    have hprim := suffixedexp_ok_start hsuf
    unfold primaryTk at hprim
    split at hprim
    · next hp =>
      have ht := type_of_pk' hk hp
      simp only [ht]
      exact ih.suffixedexp _ _ _ hsuf false _ (fun h => by cases h)
    · next nm hp =>
      have ht := type_of_name hk hp
      simp only [ht]
      exact ih.suffixedexp _ _ _ hsuf false _ (fun h => by cases h)
    · cases hprim

omit hC in
theorem blockEndTk_of_follow {k : Tk} (h : blockFollow true k = true) : blockEndTk k = true := by
  unfold blockEndTk
  split
  · rfl
  · exact h

omit hC in
theorem blockEndTk_eq_false {k : Tk} (h1 : ¬ blockFollow true k = true) (h2 : k ≠ .kw "return") : blockEndTk k = false := by
  unfold blockEndTk
  split
  · exact absurd rfl h2
  · simpa using h1

omit hC in
theorem follow_ne_return {k : Tk} (h : blockFollow true k = true) : k ≠ .kw "return" := by
  intro hk; rw [hk] at h; revert h; decide

omit hC in
theorem pstmts_nil {ts : List Tok} (hbe : blockEndTk (pk ts) = true) (n : Nat) :
    TPF B (fun g => Model.parseStatements g) ts n n (fun r tsx => tsx = ts ∧ Forall₂ StmtRel r []) := by
  refine TPF_succ ?_
  simp only [Model.parseStatements]
  apply TPF_bind
  refine TPF_curTok fun t hk => ?_
  apply TPF_ite_pos (by rw [blockEnd_rel hk]; exact hbe)
  exact TPF_pure ⟨rfl, .nil⟩

theorem statlist_complete_step {f' : Nat} (ih : AllComplete B f') (ts : List Tok) (ss : List Stat)
    (rt : Option (List Exp)) (ts' : List Tok) (h : Spec.statlist (f' + 1) ts = .ok (ss, rt, ts')) : ∃ ts1,
    (∀ n, TPF B (fun g => Model.parseStatements g) ts n n (fun r tsx => tsx = ts1 ∧ Forall₂ StmtRel r ss)) ∧
    (∀ n, TPF B retCode ts1 n n (fun r tsx => tsx = ts' ∧ RetsRel r rt)) := by
  rw [Spec.statlist] at h
  inv h
  · rename_i hbf
    refine ⟨ts, pstmts_nil (blockEndTk_of_follow hbf), fun n => ?_⟩
    have hnr := follow_ne_return hbf
    unfold retCode
    tp hC ih
    exact ⟨rfl, .none⟩
  · rename_i hbf hret hc
    refine ⟨ts, pstmts_nil (by rw [hret]; rfl), fun n => ?_⟩
    unfold retCode
    tp hC ih
    rename_i t hk
    apply TPF_ite_pos (by
      rw [Bool.or_eq_true, hk.beq_iff, blockEnd_rel hk]
      rcases hc with hc | hc
      · exact .inr (blockEndTk_of_follow hc)
      · exact .inl hc)
    by_cases hsemi : pk ts.tail = .sym ";"
    · simp only [hsemi, if_true]
      tp hC ih
      exact ⟨rfl, .some .nil⟩
    · simp only [hsemi, if_false]
      tp hC ih
      exact ⟨rfl, .some .nil⟩
  · rename_i hbf hret hc es ts2 hes
    refine ⟨ts, pstmts_nil (by rw [hret]; rfl), fun n => ?_⟩
    rw [not_or] at hc
    have hbe : blockEndTk (pk ts.tail) = false :=
      blockEndTk_eq_false hc.1 (expStart_ne_return (explist_ok_start hes))
    unfold retCode
    tp hC ih
    rename_i t hk
    apply TPF_ite_neg (by
      rw [Bool.or_eq_true, hk.beq_iff, blockEnd_rel hk, hbe]
      simp [hc.2])
    by_cases hsemi : pk ts2 = .sym ";"
    · simp only [hsemi, if_true]
      tp_call (ih.explist _ _ _ hes _)
      tp hC ih
      exact ⟨rfl, .some asm⟩
    · simp only [hsemi, if_false]
      tp_call (ih.explist _ _ _ hes _)
      tp hC ih
      exact ⟨rfl, .some asm⟩
  · rename_i hbf hret s ts2 hs ss' rt' ts3 hrec
    obtain ⟨ts1, hT, hR⟩ := ih.statlist _ _ _ _ hrec
    refine ⟨ts1, fun n => ?_, hR⟩
    refine TPF_succ ?_
    simp only [Model.parseStatements]
    apply TPF_bind
    refine TPF_curTok fun t hk => ?_
    apply TPF_ite_neg (by rw [blockEnd_rel hk, blockEndTk_eq_false hbf hret]; simp)
    tp hC ih
    tp_call (hT _)
    tp hC ih
    exact ⟨rfl, .cons asm asm⟩

end Tumfl.Theory
