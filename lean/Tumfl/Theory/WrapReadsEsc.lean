import Tumfl.Model.Layout
import Tumfl.Theory.StrWrite
import Tumfl.Inst.StrWrite
/-!
# `__escape_positions` on the body of a written literal

The body of a literal written by `visitString` is `v.flatMap (escapeChar q)`: a concatenation of items,
one per value character, each a plain character or one complete escape sequence.  `escapePositions`
marks (at least) every position strictly inside such an item, so a position that is *not* marked lies
between two items (`not_forbidden_boundary`).
-/
namespace Tumfl.Theory
open Tumfl.Model

/-- the written body of a value -/
def escBody (q : Char) (v : List Char) : List Char := v.flatMap (escapeChar q)

theorem escBody_def (q : Char) (v : List Char) : v.flatMap (escapeChar q) = escBody q v := rfl
@[simp] theorem escBody_nil (q : Char) : escBody q [] = [] := rfl
@[simp] theorem escBody_cons (q c : Char) (cs : List Char) :
    escBody q (c :: cs) = escapeChar q c ++ escBody q cs := by simp [escBody]
theorem escBody_append (q : Char) (a b : List Char) : escBody q (a ++ b) = escBody q a ++ escBody q b := by
  simp [escBody]

theorem escapePositions_plain (f pos : Nat) (c : Char) (rest : List Char) (hc : c ≠ '\\') :
    escapePositions (f + 1) pos (c :: rest) = escapePositions f (pos + 1) rest := by
  rw [escapePositions]
  simp [hc]

theorem escapePositions_esc2 (f pos : Nat) (d : Char) (rest : List Char) (hx : d ≠ 'x') (hu : d ≠ 'u')
    (hd : isDigitC d = false) :
    escapePositions (f + 1) pos ('\\' :: d :: rest) =
      (List.range 1).map (· + pos + 1) ++ escapePositions f (pos + 2) rest := by
  rw [escapePositions]
  have e : pos + 2 - (pos + 1) = 1 := by omega
  have e2 : pos + 2 - pos = 2 := by omega
  simp [hx, hu, hd, e, e2]

theorem escapePositions_x (f pos : Nat) (a b : Char) (rest : List Char) :
    escapePositions (f + 1) pos ('\\' :: 'x' :: a :: b :: rest) =
      (List.range 3).map (· + pos + 1) ++ escapePositions f (pos + 4) rest := by
  rw [escapePositions]
  have e : pos + 4 - (pos + 1) = 3 := by omega
  have e2 : pos + 4 - pos = 4 := by omega
  simp [e, e2]

theorem idxOf?_append_not_mem (hex : List Char) (c : Char) (rest : List Char) (h : c ∉ hex) :
    (hex ++ c :: rest).idxOf? c = some hex.length := by
  induction hex with
  | nil => simp [List.idxOf?, List.findIdx?_cons]
  | cons a as ih =>
    have ha : a ≠ c := by intro e; subst e; simp at h
    have has : c ∉ as := by intro e; exact h (by simp [e])
    have := ih has
    simp only [List.idxOf?] at this ⊢
    rw [List.cons_append, List.findIdx?_cons]
    simp [ha, this]

theorem escapePositions_u (f pos : Nat) (hex rest : List Char) (h : '}' ∉ hex) :
    escapePositions (f + 1) pos ('\\' :: 'u' :: '{' :: (hex ++ '}' :: rest)) =
      (List.range (hex.length + 3)).map (· + pos + 1) ++ escapePositions f (pos + (hex.length + 4)) rest := by
  have hi : ('\\' :: 'u' :: '{' :: (hex ++ '}' :: rest)).idxOf? '}' = some (hex.length + 3) := by
    have := idxOf?_append_not_mem ('\\' :: 'u' :: '{' :: hex) '}' rest (by simp [h])
    simpa using this
  rw [escapePositions]
  simp only [show (('\\' : Char) == '\\') = true by decide, if_true, List.head?_cons,
    show (some 'u' == some 'x') = false by decide, show (some 'u' == some 'u') = true by decide,
    Bool.false_eq_true, if_false, hi]
  have e1 : max (pos + (hex.length + 3) + 1) (pos + 2) = pos + (hex.length + 4) := by omega
  rw [e1]
  have e2 : pos + (hex.length + 4) - (pos + 1) = hex.length + 3 := by omega
  have e3 : pos + (hex.length + 4) - pos = hex.length + 4 := by omega
  rw [e2, e3]
  congr 2
  have : '\\' :: 'u' :: '{' :: (hex ++ '}' :: rest) = ('\\' :: 'u' :: '{' :: hex ++ ['}']) ++ rest := by simp
  rw [this, List.drop_left' (by simp)]

theorem natToHex_no_brace : ∀ (f n : Nat), '}' ∉ natToHex f n := by
  intro f
  induction f with
  | zero => intro n; simp [natToHex]
  | succ f ih =>
    intro n
    rw [natToHex]
    split
    · rename_i h
      simp only [List.mem_singleton]
      exact fun e => hexDigit_ne_brace h e.symm
    · simp only [List.mem_append, List.mem_singleton, not_or]
      exact ⟨ih _, fun e => hexDigit_ne_brace (Nat.mod_lt _ (by omega)) e.symm⟩

/-- one item of the written body: `escapePositions` marks its interior and continues right after it -/
theorem escapePositions_escapeChar (q : Char) (hq : q = '"' ∨ q = '\'') (c : Char) (f pos : Nat)
    (tail : List Char) :
    escapePositions (f + 1) pos (escapeChar q c ++ tail) =
      (List.range ((escapeChar q c).length - 1)).map (· + pos + 1) ++
        escapePositions f (pos + (escapeChar q c).length) tail := by
  unfold escapeChar
  by_cases h1 : (c == q || c == '\\') = true
  · rw [if_pos h1]
    have hc : c = '"' ∨ c = '\'' ∨ c = '\\' := by
      simp only [Bool.or_eq_true, beq_iff_eq] at h1
      rcases h1 with h | h
      · subst h; rcases hq with h | h <;> simp [h]
      · simp [h]
    have := escapePositions_esc2 f pos c tail (by rcases hc with rfl | rfl | rfl <;> decide)
      (by rcases hc with rfl | rfl | rfl <;> decide) (by rcases hc with rfl | rfl | rfl <;> decide)
    simpa using this
  · rw [if_neg h1]
    simp only [Bool.or_eq_true, beq_iff_eq, not_or] at h1
    by_cases h2 : (decide (32 ≤ c.toNat) && decide (c.toNat < 127)) = true
    · rw [if_pos h2]
      simpa using escapePositions_plain f pos c tail h1.2
    · rw [if_neg h2]
      cases hl : Gen.escapeCharacters.lookup c with
      | some l =>
        obtain ⟨_, e2, e3, _, e5⟩ := escTable_lookup Inst.escTable_ok hl
        simpa using escapePositions_esc2 f pos l tail e2 e3 e5
      | none =>
        by_cases h3 : c.toNat < 128
        · simp only [h3, if_true, hex2]
          simpa using escapePositions_x f pos _ _ tail
        · simp only [h3, if_false]
          have := escapePositions_u f pos (natToHex 8 c.toNat) tail (natToHex_no_brace _ _)
          have e : "\\u{".toList = ['\\', 'u', '{'] := rfl
          rw [e]
          simp only [List.cons_append, List.nil_append, List.append_assoc,
            List.length_cons, List.length_append, List.length_nil]
          have e' : (natToHex 8 c.toNat).length + (0 + 1) + 1 + 1 + 1 - 1 = (natToHex 8 c.toNat).length + 3 := by omega
          have e'' : (natToHex 8 c.toNat).length + (0 + 1) + 1 + 1 + 1 = (natToHex 8 c.toNat).length + 4 := by omega
          rw [e', e'']
          exact this

theorem escapeChar_length_pos (q c : Char) : 1 ≤ (escapeChar q c).length := by
  unfold escapeChar
  split
  · simp
  · split
    · simp
    · split
      · simp
      · split <;> simp

theorem escBody_length_ge (q : Char) (v : List Char) : v.length ≤ (escBody q v).length := by
  induction v with
  | nil => simp
  | cons c cs ih =>
    have := escapeChar_length_pos q c
    simp only [escBody_cons, List.length_append, List.length_cons]
    omega

/-- a position in `escBody q v ++ [q]` (which starts at offset `pos`) that `escapePositions` does not
mark is a boundary between two items, or the very end -/
theorem not_forbidden_boundary (q : Char) (hq : q = '"' ∨ q = '\'') :
    ∀ (v : List Char) (f pos p : Nat), v.length < f → pos ≤ p → p ≤ pos + (escBody q v).length + 1 →
      p ∉ escapePositions f pos (escBody q v ++ [q]) →
      (∃ k, k ≤ v.length ∧ p = pos + (escBody q (v.take k)).length) ∨ p = pos + (escBody q v).length + 1 := by
  intro v
  induction v with
  | nil =>
    intro f pos p _ h1 h2 _
    simp only [escBody_nil, List.length_nil] at h2 ⊢
    by_cases hp : p = pos
    · exact .inl ⟨0, by simp, by simp [hp]⟩
    · exact .inr (by omega)
  | cons c cs ih =>
    intro f pos p hf h1 h2 hn
    obtain ⟨f, rfl⟩ : ∃ f', f = f' + 1 := ⟨f - 1, by simp at hf; omega⟩
    have hL := escapeChar_length_pos q c
    simp only [escBody_cons, List.append_assoc, List.length_append] at h2 hn ⊢
    rw [escapePositions_escapeChar q hq] at hn
    simp only [List.mem_append, List.mem_map, List.mem_range, not_or, not_exists, not_and] at hn
    obtain ⟨hn1, hn2⟩ := hn
    by_cases hp : p = pos
    · exact .inl ⟨0, by simp, by simp [hp]⟩
    · by_cases hin : p < pos + (escapeChar q c).length
      · exfalso
        exact hn1 (p - pos - 1) (by omega) (by omega)
      · rcases ih f (pos + (escapeChar q c).length) p (by simpa using hf) (by omega) (by omega) hn2 with
          ⟨k, hk, e⟩ | e
        · refine .inl ⟨k + 1, by simpa using hk, ?_⟩
          simp only [List.take_succ_cons, escBody_cons, List.length_append]
          omega
        · exact .inr (by omega)

/-! ## the converse: a boundary between two items is never marked

Together with `not_forbidden_boundary`: on `escBody q v ++ [q]`, `escapePositions` (with enough fuel)
marks exactly the positions strictly inside an item. -/

theorem escapePositions_nil (f pos : Nat) : escapePositions f pos [] = [] := by
  cases f <;> rw [escapePositions]

theorem escapePositions_gt (q : Char) (hq : q = '"' ∨ q = '\'') :
    ∀ (v : List Char) (f pos n : Nat), n ∈ escapePositions f pos (escBody q v ++ [q]) → pos < n := by
  have hqb : q ≠ '\\' := by rcases hq with rfl | rfl <;> decide
  intro v
  induction v with
  | nil =>
    intro f pos n h
    cases f with
    | zero => rw [escapePositions] at h; cases h
    | succ f =>
      simp only [escBody_nil, List.nil_append] at h
      rw [escapePositions_plain _ _ _ _ hqb, escapePositions_nil] at h
      cases h
  | cons c cs ih =>
    intro f pos n h
    cases f with
    | zero => rw [escapePositions] at h; cases h
    | succ f =>
      simp only [escBody_cons, List.append_assoc] at h
      rw [escapePositions_escapeChar q hq] at h
      simp only [List.mem_append, List.mem_map, List.mem_range] at h
      rcases h with ⟨x, _, rfl⟩ | h
      · omega
      · have := ih f _ n h
        omega

/-- a position between two items (or in front of the closing quote) is not marked -/
theorem boundary_not_forbidden (q : Char) (hq : q = '"' ∨ q = '\'') :
    ∀ (v : List Char) (f pos k : Nat), k ≤ v.length →
      pos + (escBody q (v.take k)).length ∉ escapePositions f pos (escBody q v ++ [q]) := by
  intro v
  induction v with
  | nil =>
    intro f pos k _ h
    have := escapePositions_gt q hq [] f pos _ h
    simp at this
  | cons c cs ih =>
    intro f pos k hk h
    cases k with
    | zero =>
      have := escapePositions_gt q hq (c :: cs) f pos _ h
      simp at this
    | succ k =>
      cases f with
      | zero => rw [escapePositions] at h; cases h
      | succ f =>
        simp only [escBody_cons, List.append_assoc, List.take_succ_cons, List.length_append] at h
        rw [escapePositions_escapeChar q hq] at h
        simp only [List.mem_append, List.mem_map, List.mem_range] at h
        have hL := escapeChar_length_pos q c
        rcases h with ⟨x, hx, e⟩ | h
        · omega
        · rw [← Nat.add_assoc] at h
          exact ih f _ k (by simpa using hk) h

end Tumfl.Theory
