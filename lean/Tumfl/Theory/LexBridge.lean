import Tumfl.Theory.LexBridgeRef
import Tumfl.Theory.LexTotal
import Tumfl.Theory.LayoutKeepsBase
/-!
# LexBridge: the Python lexer (model) and the reference lexer deliver related tokens

Untyped mode (`cfg.typed = false`, `cfg.ignoreUnicode = false`).  `TkRel` (SimTok.lean) relates a model token and a
reference token kind; `InScopeTk` (LexBridgeDefs.lean) is the scope of the Python lexer (string units are Unicode scalar
values); `NoCR` says that the text contains no carriage return (needed for the soundness direction only: the model ends a
quoted string at a raw LF only, the reference - like `llex.c` - also at a raw CR).

* A `scanToken_sound`, B `scanToken_complete` (LexBridgeTok.lean): one token at a token start, class by class
  (LexBridgeWord, LexBridgeNum, LexBridgeStrA/B, LexBridgeSym);
* C `getNextToken_sound` / `getNextToken_complete`: `get_next_token` against `specNext` (skip `trivia`, then `eof` or `lexOne`);
* D `lexText_sound` / `lexText_complete`: whole texts, `lexText {}` against `Spec.lex`.

The pointwise list relation is the project's `Fa2` (core Lean has no `List.Forall₂`).
-/
namespace Tumfl.Theory
open Tumfl.Model Tumfl

/-! ## C. `get_next_token` -/

/-- the shebang test of `get_next_token` fires -/
def shebangCase (s : LexSt) : Prop := s.line = 0 ∧ s.col = 0 ∧ s.cur = some '#'

theorem startSt_of_not_shebang {s : LexSt} (h : ¬ shebangCase s) : startSt s = s := by
  unfold startSt
  split
  · rename_i hc
    simp only [Bool.and_eq_true, beq_iff_eq] at hc
    exact absurd ⟨hc.1.1, hc.1.2, hc.2⟩ h
  · rfl

/-- one token of the reference lexer, after white space and comments: `eof` at the end of the text, else `lexOne` -/
def specNext (r : List Char) : Option (Spec.Tk × List Char) :=
  match triviaOf r with
  | some (_, []) => some (.eof, [])
  | some (_, c :: cs) => lexOne (c :: cs)
  | none => none

theorem noCR_suffix {a b : List Char} (h : a <:+ b) (hb : NoCR b) : NoCR a := by
  obtain ⟨p, rfl⟩ := h
  exact fun hm => hb (List.mem_append_right _ hm)

/-- **C (soundness)**: a token delivered by `get_next_token` (not in the shebang situation) is the related next token of
the reference lexer, and both continue at the same place -/
theorem getNextToken_sound (cfg : LexCfg) (hty : cfg.typed = false) (hiu : cfg.ignoreUnicode = false)
    {s : LexSt} {tok : Token} {s' : LexSt} (h : getNextToken cfg s = .ok (tok, s')) (hns : ¬ shebangCase s)
    (hcr : NoCR s.rest) : ∃ tk, specNext s.rest = some (tk, s'.rest) ∧ TkRel tok tk := by
  obtain ⟨cms, s0, h1, h2, _, h4⟩ := getNextToken_trivia h
  rw [startSt_of_not_shebang hns] at h1
  have hsuf := (triviaOf_spec _ _ (Nat.lt_succ_self _) _ _ h1).2
  rcases h4 with ⟨h0, rfl, rfl⟩ | ⟨c, cs, h0, hsc⟩
  · refine ⟨.eof, ?_, rfl⟩
    unfold specNext
    rw [h1, h0]
    exact congrArg (fun r => some (Spec.Tk.eof, r)) h0.symm
  · obtain ⟨tk, e1, e2⟩ := scanToken_sound cfg hty hiu s0 c cs h0 h2 (noCR_suffix hsuf hcr) tok s' hsc
    refine ⟨tk, ?_, e2⟩
    unfold specNext
    rw [h1, h0]
    rw [h0] at e1
    exact e1

/-- **C (completeness)**: the next in-scope token of the reference lexer is delivered, as the related token, by
`get_next_token` (not in the shebang situation), and both continue at the same place -/
theorem getNextToken_complete (cfg : LexCfg) (hty : cfg.typed = false) (hiu : cfg.ignoreUnicode = false)
    {s : LexSt} {tk : Spec.Tk} {r' : List Char} (h : specNext s.rest = some (tk, r')) (hns : ¬ shebangCase s)
    (hin : InScopeTk tk) : ∃ tok s', getNextToken cfg s = .ok (tok, s') ∧ s'.rest = r' ∧ TkRel tok tk := by
  unfold specNext at h
  cases ht : triviaOf s.rest with
  | none => rw [ht] at h; cases h
  | some x =>
    obtain ⟨cms, rest⟩ := x
    have hat := (triviaOf_spec _ _ (Nat.lt_succ_self _) _ _ ht).1
    obtain ⟨s0, hs0, _, hg⟩ := getNextToken_factor cfg s (cms := cms) (rest := rest)
      (by rw [startSt_of_not_shebang hns]; exact ht)
    rw [ht] at h
    cases rest with
    | nil =>
      simp only [Option.some.injEq, Prod.mk.injEq] at h
      obtain ⟨rfl, rfl⟩ := h
      rw [cur_eq_none hs0] at hg
      exact ⟨_, _, hg, hs0, rfl⟩
    | cons c cs =>
      simp only at h
      obtain ⟨tok, s', e1, e2, e3⟩ := scanToken_complete cfg hty hiu s0 c cs hs0 (by rw [hs0]; exact hat) tk r'
        (by rw [hs0]; exact h) hin
      rw [cur_of hs0] at hg
      exact ⟨tok, s', by rw [hg]; exact e1, e2, e3⟩

/-! ## D. whole texts -/

/-- scanning a token consumes at least one character -/
theorem scanToken_progress {cfg : LexCfg} {s0 : LexSt} {c : Char} {cs : List Char} {tok : Token} {s' : LexSt}
    (hs : s0.rest = c :: cs) (hat : AtToken s0.rest) (h : scanToken cfg s0 c = .ok (tok, s')) :
    s'.rest.length < s0.rest.length := by
  have hg := nextTokenLoop_good cfg (s0.rest.length + 1) s0 (Nat.lt_succ_self _)
  rw [nextTokenLoop_atToken cfg _ hat, cur_of hs] at hg
  simp only at hg
  rw [h] at hg
  rcases hg with ⟨h1, _⟩ | ⟨_, h2⟩
  · exact absurd h1 (scanToken_not_eof h)
  · exact h2

theorem skipShebang_suffix (t : List Char) : Spec.skipShebang t <:+ t := by
  cases t with
  | nil => exact List.suffix_refl _
  | cons c cs =>
    by_cases hc : c = '#'
    · subst hc
      rw [Spec.skipShebang]
      exact (untilNewline_suffix cs).trans (List.suffix_cons _ _)
    · rw [Spec.skipShebang.eq_2]
      · exact List.suffix_refl _
      · intro cs' h; simp at h; exact hc h.1

/-- the model's token list against the reference loop (soundness), for any start state whose later states never
satisfy the shebang test -/
theorem lexAll_sound {Q : LexSt → Prop} (hQ : Stable Q) (hno : ∀ s, Q s → startSt s = s)
    (cfg : LexCfg) (hty : cfg.typed = false) (hiu : cfg.ignoreUnicode = false) :
    ∀ (f : Nat) (s : LexSt) (mts : List Token), Q (startSt s) → NoCR (startSt s).rest → lexAll cfg f s = .ok mts →
      ∀ n g cm, (startSt s).rest.length < g →
        ∃ ts, Spec.lexLoop n g (startSt s).rest cm = .ok ts ∧ Fa2 (fun m x => TkRel m x.tk) mts ts
  | 0, s, mts, _, _, h => by rw [lexAll] at h; cases h
  | f + 1, s, mts, hq, hcr, h => by
    rw [lexAll] at h
    split at h
    · cases h
    · rename_i t s1 heq
      obtain ⟨cms, s0, h1, h2, _, h4⟩ := getNextToken_trivia heq
      obtain ⟨_, _, f3, f4⟩ := h4.facts
      obtain ⟨k, hk1, hk2⟩ := lexLoop_factor _ (startSt s).rest (Nat.lt_succ_self _) cms s0.rest h1
      have hsuf := (triviaOf_spec _ _ (Nat.lt_succ_self _) _ _ h1).2
      have hq1 : Q s1 := by
        rw [getNextToken_eq] at heq
        exact (nextTokenLoop_core hQ _ _ _ _ hq heq).1
      intro n g cm hg
      rw [hk2]
      obtain ⟨g', hg'⟩ : ∃ g', g - k = g' + 1 := ⟨g - k - 1, by omega⟩
      rw [hg']
      split at h
      · rename_i hty'
        cases h
        rcases h4 with ⟨h0, rfl, rfl⟩ | ⟨c, cs, h0, hsc⟩
        · rw [h0, lexLoop_nil]
          exact ⟨_, rfl, .cons rfl .nil⟩
        · exact absurd (by simpa using hty') (scanToken_not_eof hsc)
      · rename_i hty'
        cases hr : lexAll cfg f s1 with
        | error e => rw [hr] at h; cases h
        | ok r =>
          rw [hr] at h
          cases h
          rcases h4 with ⟨h0, rfl, rfl⟩ | ⟨c, cs, h0, hsc⟩
          · exact (hty' rfl).elim
          · obtain ⟨tk, e1, e2⟩ := scanToken_sound cfg hty hiu s0 c cs h0 h2 (noCR_suffix hsuf hcr) t s1 hsc
            have hprog := scanToken_progress h0 h2 hsc
            have hs1 : startSt s1 = s1 := hno s1 hq1
            obtain ⟨ts, ht1, ht2⟩ := lexAll_sound hQ hno cfg hty hiu f s1 r (by rw [hs1]; exact hq1)
              (by rw [hs1]; exact noCR_suffix (f3.trans hsuf) hcr) hr n g' [] (by rw [hs1]; omega)
            rw [hs1] at ht1
            rw [h0] at e1 ⊢
            rw [lexLoop_lexOne n g' c cs _ tk s1.rest e1]
            unfold emitTok
            rw [ht1]
            exact ⟨_, rfl, .cons e2 ht2⟩

/-- the reference's token list against the model (completeness) -/
theorem lexLoop_complete {Q : LexSt → Prop} (hQ : Stable Q) (hno : ∀ s, Q s → startSt s = s)
    (cfg : LexCfg) (hty : cfg.typed = false) (hiu : cfg.ignoreUnicode = false) (n : Nat) :
    ∀ (F g : Nat), g < F → ∀ (s : LexSt) (cm : List (List Char)) (ts : List Spec.Tok), Q (startSt s) →
      Spec.lexLoop n g (startSt s).rest cm = .ok ts → (∀ x ∈ ts, InScopeTk x.tk) →
      ∀ f, (startSt s).rest.length + 2 ≤ f →
        ∃ mts, lexAll cfg f s = .ok mts ∧ Fa2 (fun m x => TkRel m x.tk) mts ts
  | 0, _, hF, _, _, _, _, _, _, _, _ => by omega
  | F + 1, g, hF, s, cm, ts, hq, h, hin, f, hf => by
    cases ht : triviaOf (startSt s).rest with
    | none =>
      obtain ⟨k, j, _, _, h2⟩ := lexLoop_trivia_none _ (startSt s).rest (Nat.lt_succ_self _) ht
      rw [h2] at h
      split at h <;> cases h
    | some x =>
      obtain ⟨cms, rest⟩ := x
      obtain ⟨k, h1, h2⟩ := lexLoop_factor _ (startSt s).rest (Nat.lt_succ_self _) cms rest ht
      have hat := (triviaOf_spec _ _ (Nat.lt_succ_self _) _ _ ht).1
      rw [h2] at h
      obtain ⟨s0, hs0, _, hgn⟩ := getNextToken_factor cfg s ht
      obtain ⟨f', rfl⟩ : ∃ f', f = f' + 1 := ⟨f - 1, by omega⟩
      cases hg : g - k with
      | zero => rw [hg, lexLoop_zero] at h; cases h
      | succ g' =>
        rw [hg] at h
        cases rest with
        | nil =>
          rw [lexLoop_nil] at h
          cases h
          rw [cur_eq_none hs0] at hgn
          simp only at hgn
          refine ⟨[mkTok .EOF (.str "eof".toList) (tokenArgs s0).1], ?_, .cons rfl .nil⟩
          rw [lexAll, hgn]
          rfl
        | cons c cs =>
          obtain ⟨tk, r', hl⟩ := lexLoop_ok_lexOne n g' c cs _ hat ts h
          rw [lexLoop_lexOne n g' c cs _ tk r' hl] at h
          unfold emitTok at h
          obtain ⟨ts', hts', rfl⟩ := except_map_ok h
          have hat0 : AtToken s0.rest := by rw [hs0]; exact hat
          obtain ⟨mtok, s1, e1, e2, e3⟩ := scanToken_complete cfg hty hiu s0 c cs hs0 hat0 tk r'
            (by rw [hs0]; exact hl) (hin _ List.mem_cons_self)
          rw [cur_of hs0] at hgn
          simp only at hgn
          have hgn' : getNextToken cfg s = .ok (mtok, s1) := by rw [hgn]; exact e1
          have hq1 : Q s1 := by
            have := hgn'
            rw [getNextToken_eq] at this
            exact (nextTokenLoop_core hQ _ _ _ _ hq this).1
          have hs1 : startSt s1 = s1 := hno s1 hq1
          have hprog := scanToken_progress hs0 hat0 e1
          rw [hs0] at hprog
          simp only [List.length_cons] at hprog h1
          obtain ⟨mts, hm1, hm2⟩ := lexLoop_complete hQ hno cfg hty hiu n F g' (by omega) s1 [] ts'
            (by rw [hs1]; exact hq1) (by rw [hs1, e2]; exact hts') (fun x hx => hin x (List.mem_cons_of_mem _ hx)) f'
            (by rw [hs1]; omega)
          refine ⟨mtok :: mts, ?_, .cons e3 hm2⟩
          have hne : (mtok.type == .EOF) = false := by simpa using scanToken_not_eof e1
          rw [lexAll, hgn']
          simp only [hne, Bool.false_eq_true, if_false, hm1]
          rfl

theorem lex_eq (t : List Char) :
    Spec.lex t = Spec.lexLoop t.length ((Spec.skipShebang t).length + 1) (Spec.skipShebang t) [] := rfl

/-- **D (soundness)**: if the Python lexer lexes a text (without carriage returns), so does the reference lexer, and
the two token lists are related token by token -/
theorem lexText_sound {t : List Char} {mts : List Token} (hcr : NoCR t) (h : lexText {} t = .ok mts) :
    ∃ ts, Spec.lex t = .ok ts ∧ Fa2 (fun m x => TkRel m x.tk) mts ts := by
  have := lexAll_sound (stable_pastShebang t) (fun _ hs => pastShebang_startSt hs) {} rfl rfl _ _ _
    (pastShebang_initLex t) (by rw [startSt_initLex_rest]; exact noCR_suffix (skipShebang_suffix t) hcr) h
    t.length ((Spec.skipShebang t).length + 1) [] (by rw [startSt_initLex_rest]; omega)
  rw [startSt_initLex_rest] at this
  exact this

/-- **D (completeness)**: if the reference lexer lexes a text into in-scope tokens, so does the Python lexer, and the two
token lists are related token by token -/
theorem lexText_complete {t : List Char} {ts : List Spec.Tok} (h : Spec.lex t = .ok ts)
    (hin : ∀ x ∈ ts, InScopeTk x.tk) :
    ∃ mts, lexText {} t = .ok mts ∧ Fa2 (fun m x => TkRel m x.tk) mts ts := by
  rw [lex_eq] at h
  have hl := (skipShebang_suffix t).length_le
  exact lexLoop_complete (stable_pastShebang t) (fun _ hs => pastShebang_startSt hs) {} rfl rfl t.length _ _
    (Nat.lt_succ_self _) (initLex t) [] ts (pastShebang_initLex t) (by rw [startSt_initLex_rest]; exact h) hin
    (t.length + 2) (by rw [startSt_initLex_rest]; omega)

/-! ## non-vacuity, and why the extra hypotheses are needed -/

def okM (r : Except PyErr (List Token)) : Bool := match r with | .ok _ => true | .error _ => false
def okR (r : Except Spec.LexErr (List Spec.Tok)) : Bool := match r with | .ok _ => true | .error _ => false

/-- `NoCR` cannot be dropped from the soundness direction: a raw carriage return inside a quoted string is accepted by
the model (it ends a string at a raw LF only) and rejected by the reference -/
example : okM (lexText {} "x = \"a\rb\"".toList) = true ∧ okR (Spec.lex "x = \"a\rb\"".toList) = false := by
  decide +kernel

/-- `InScopeTk` cannot be dropped from the completeness direction: `"\200"` is a raw byte for the reference and a
`LexerError` for the (non-`ignore_unicode`) model -/
example : okR (Spec.lex "x = \"\\200\"".toList) = true ∧ okM (lexText {} "x = \"\\200\"".toList) = false := by
  decide +kernel

/-- both lexers succeed on a text with a shebang line, every token class, and comments -/
example : okM (lexText {} "#!lua\nlocal x = 0x1p4 .. [==[s]==] .. 'a\\65\\z  b' --c\nreturn x ~= 3.".toList) = true ∧
    okR (Spec.lex "#!lua\nlocal x = 0x1p4 .. [==[s]==] .. 'a\\65\\z  b' --c\nreturn x ~= 3.".toList) = true := by
  decide +kernel

end Tumfl.Theory
