import Tumfl.Model.Lexer
import Tumfl.Spec.Lex
/-!
# Character facts for the numeral theorem (C07)

The lexer's character tables agree with the reference character classes; lower-casing a
hexadecimal digit keeps its value.  Facts about all characters are reduced to the 128 ASCII
characters (checked by evaluation) plus a bound: the classes and the tables only contain ASCII.
-/
namespace Tumfl.Theory
open Tumfl.Model Tumfl

theorem char_eq_ofNat (c : Char) : c = Char.ofNat c.toNat := (Char.ofNat_toNat c).symm

theorem le_toNat {a b : Char} (h : (decide (a ≤ b)) = true) : a.toNat ≤ b.toNat := by
  have h' : a ≤ b := of_decide_eq_true h
  exact h'

theorem isXDigit_lt (c : Char) (h : Spec.isXDigit c = true) : c.toNat < 128 := by
  simp only [Spec.isXDigit, Spec.isDigit, Bool.or_eq_true, Bool.and_eq_true] at h
  rcases h with (⟨_, h⟩ | ⟨_, h⟩) | ⟨_, h⟩ <;> have := le_toNat h <;>
    simp only [Char.reduceToNat] at this <;> omega

theorem isDigit_lt (c : Char) (h : Spec.isDigit c = true) : c.toNat < 128 :=
  isXDigit_lt c (by simp [Spec.isXDigit, h])

theorem contains_lt (l : List Char) (hl : ∀ x ∈ l, x.toNat < 128) (c : Char) (h : l.contains c = true) :
    c.toNat < 128 := by
  have : c ∈ l := by simpa using h
  exact hl c this

/-- transfer a fact checked on the ASCII range to all characters satisfying a bound -/
theorem ascii_all (P : Char → Prop) (h : ∀ n : Fin 128, P (Char.ofNat n.val)) (c : Char) (hc : c.toNat < 128) : P c := by
  rw [char_eq_ofNat c]; exact h ⟨c.toNat, hc⟩

theorem number_ascii : ∀ x ∈ Gen.number, x.toNat < 128 := by decide +kernel
theorem hexNumber_ascii : ∀ x ∈ Gen.hexNumber, x.toNat < 128 := by decide +kernel
theorem alphanumeric_ascii : ∀ x ∈ Gen.alphanumeric, x.toNat < 128 := by decide +kernel

theorem number_tab : ∀ n : Fin 128, Gen.number.contains (Char.ofNat n.val) = Spec.isDigit (Char.ofNat n.val) := by
  decide +kernel
theorem hexNumber_tab : ∀ n : Fin 128, Gen.hexNumber.contains (Char.ofNat n.val) = Spec.isXDigit (Char.ofNat n.val) := by
  decide +kernel

theorem number_contains (c : Char) : Gen.number.contains c = Spec.isDigit c := by
  by_cases hc : c.toNat < 128
  · exact ascii_all (fun c => Gen.number.contains c = Spec.isDigit c) number_tab c hc
  · have h1 : Gen.number.contains c = false := by
      cases h : Gen.number.contains c with
      | false => rfl
      | true => exact absurd (contains_lt _ number_ascii c h) hc
    have h2 : Spec.isDigit c = false := by
      cases h : Spec.isDigit c with
      | false => rfl
      | true => exact absurd (isDigit_lt c h) hc
    rw [h1, h2]

theorem hexNumber_contains (c : Char) : Gen.hexNumber.contains c = Spec.isXDigit c := by
  by_cases hc : c.toNat < 128
  · exact ascii_all (fun c => Gen.hexNumber.contains c = Spec.isXDigit c) hexNumber_tab c hc
  · have h1 : Gen.hexNumber.contains c = false := by
      cases h : Gen.hexNumber.contains c with
      | false => rfl
      | true => exact absurd (contains_lt _ hexNumber_ascii c h) hc
    have h2 : Spec.isXDigit c = false := by
      cases h : Spec.isXDigit c with
      | false => rfl
      | true => exact absurd (isXDigit_lt c h) hc
    rw [h1, h2]

/-- everything the numeral grammar can continue with is an alphanumeric (or the dot) -/
theorem xdigit_alnum_tab : ∀ n : Fin 128, Spec.isXDigit (Char.ofNat n.val) = true →
    Gen.alphanumeric.contains (Char.ofNat n.val) = true := by decide +kernel

theorem xdigit_alnum (c : Char) (h : Spec.isXDigit c = true) : Gen.alphanumeric.contains c = true :=
  ascii_all (fun c => Spec.isXDigit c = true → Gen.alphanumeric.contains c = true) xdigit_alnum_tab c
    (isXDigit_lt c h) h

theorem digit_xdigit (c : Char) (h : Spec.isDigit c = true) : Spec.isXDigit c = true := by
  simp [Spec.isXDigit, h]

/-- lower-casing on hexadecimal digits -/
theorem lower_tab : ∀ n : Fin 128, Spec.isXDigit (Char.ofNat n.val) = true →
    Spec.isXDigit (lowerChar (Char.ofNat n.val)) = true ∧
    Spec.xdigitVal (lowerChar (Char.ofNat n.val)) = Spec.xdigitVal (Char.ofNat n.val) ∧
    (Spec.isDigit (Char.ofNat n.val) = true → lowerChar (Char.ofNat n.val) = Char.ofNat n.val) := by
  decide +kernel

theorem lower_xdigit (c : Char) (h : Spec.isXDigit c = true) :
    Spec.isXDigit (lowerChar c) = true ∧ Spec.xdigitVal (lowerChar c) = Spec.xdigitVal c ∧
    (Spec.isDigit c = true → lowerChar c = c) :=
  ascii_all (fun c => Spec.isXDigit c = true →
    Spec.isXDigit (lowerChar c) = true ∧ Spec.xdigitVal (lowerChar c) = Spec.xdigitVal c ∧
    (Spec.isDigit c = true → lowerChar c = c)) lower_tab c (isXDigit_lt c h) h

end Tumfl.Theory
