import Tumfl.Theory.BoundaryChars
/-!
# Boundary lemmas, part 1: one step of the reference lexer

`Spec.lexLoop n (f+1) (c :: cs) cm` either skips (whitespace, comment), fails, or *emits* one token and
continues at some `rest` with an empty comment list.  `emitTok` is that last shape.  This file proves
one-step lemmas for every kind of token:

* `lexLoop_word` - a letter or `_` starts a name/keyword, its text is `spanName`'s first component;
* `lexLoop_num`, `lexLoop_num_dot` - a digit (or `.` digit) starts a numeral; `numScan` is the text
  `lexLoop` hands to `parseNumeral` and the point where it continues;
* `lexLoop_quoted`, `lexLoop_long` - string literals;
* `lexLoop_symAt` - `symAt` is the transcription of all symbol branches;
* `lexOne` packs them into a one-token function and `lexLoop_lexOne` is the resulting unfolding.
-/
namespace Tumfl.Theory
open Tumfl Tumfl.Spec Tumfl.Model

/-- what `lexLoop` does when it emits token `tk` for an input of length `len` and goes on at `rest` -/
def emitTok (n f len : Nat) (cm : List (List Char)) (tk : Tk) (rest : List Char) : Except LexErr (List Tok) :=
  (lexLoop n f rest []).map fun ts => { tk := tk, off := n - len, comments := cm.reverse } :: ts

theorem alpha_class_tab : ∀ n : Fin 128, isAlpha (Char.ofNat n.val) = true →
    isSpace (Char.ofNat n.val) = false ∧ (Char.ofNat n.val == '-') = false ∧ (Char.ofNat n.val == '[') = false ∧
    (Char.ofNat n.val == '"' || Char.ofNat n.val == '\'') = false ∧ isDigit (Char.ofNat n.val) = false ∧
    (Char.ofNat n.val == '.') = false := by decide +kernel

theorem alpha_class (c : Char) (h : isAlpha c = true) :
    isSpace c = false ∧ (c == '-') = false ∧ (c == '[') = false ∧ (c == '"' || c == '\'') = false ∧
    isDigit c = false ∧ (c == '.') = false :=
  ascii_all (fun c => isAlpha c = true → isSpace c = false ∧ (c == '-') = false ∧ (c == '[') = false ∧
    (c == '"' || c == '\'') = false ∧ isDigit c = false ∧ (c == '.') = false) alpha_class_tab c
    (isAlnum_lt c (alpha_alnum c h)) h

theorem digit_class_tab : ∀ n : Fin 128, isDigit (Char.ofNat n.val) = true →
    isSpace (Char.ofNat n.val) = false ∧ (Char.ofNat n.val == '-') = false ∧ (Char.ofNat n.val == '[') = false ∧
    (Char.ofNat n.val == '"' || Char.ofNat n.val == '\'') = false := by decide +kernel

theorem digit_class (c : Char) (h : isDigit c = true) :
    isSpace c = false ∧ (c == '-') = false ∧ (c == '[') = false ∧ (c == '"' || c == '\'') = false :=
  ascii_all (fun c => isDigit c = true → isSpace c = false ∧ (c == '-') = false ∧ (c == '[') = false ∧
    (c == '"' || c == '\'') = false) digit_class_tab c (isDigit_lt c h) h

/-- the token of a word -/
def wordTk (nm : List Char) : Tk :=
  if keywords.contains (String.ofList nm) then .kw (String.ofList nm) else .name (String.ofList nm)

theorem lexLoop_word (n f : Nat) (c : Char) (cs : List Char) (cm : List (List Char)) (h : isAlpha c = true) :
    lexLoop n (f + 1) (c :: cs) cm =
      emitTok n f (cs.length + 1) cm (wordTk (spanName (c :: cs)).1) (spanName (c :: cs)).2 := by
  obtain ⟨h1, h2, h3, h4, h5, h6⟩ := alpha_class c h
  unfold lexLoop
  simp only [h1, h2, h3, h4, h5, h6, h, Bool.false_and, Bool.or_self, Bool.false_eq_true, if_false, if_true,
    emitTok, wordTk]
  split <;> rfl

theorem lexLoop_quoted (n f : Nat) (c : Char) (cs : List Char) (cm : List (List Char)) (hq : c = '"' ∨ c = '\'')
    (v : List SUnit) (rest : List Char) (h : strBody c (cs.length + 1) cs = some (v, rest)) :
    lexLoop n (f + 1) (c :: cs) cm = emitTok n f (cs.length + 1) cm (.str v) rest := by
  unfold lexLoop
  rcases hq with rfl | rfl
  · simp only [show isSpace '"' = false by decide, show ('"' == '-') = false by decide,
      show ('"' == '[') = false by decide, show ('"' == '"' || '"' == '\'') = true by decide,
      Bool.false_eq_true, if_false, if_true, h, emitTok]
  · simp only [show isSpace '\'' = false by decide, show ('\'' == '-') = false by decide,
      show ('\'' == '[') = false by decide, show ('\'' == '"' || '\'' == '\'') = true by decide,
      Bool.false_eq_true, if_false, if_true, h, emitTok]

theorem lexLoop_long (n f : Nat) (cs : List Char) (cm : List (List Char)) (lvl : Nat) (body b rest : List Char)
    (ho : longOpener ('[' :: cs) = some (lvl, body))
    (hb : longBody lvl (dropFirstNewline body) = some (b, rest)) :
    lexLoop n (f + 1) ('[' :: cs) cm =
      emitTok n f (cs.length + 1) cm (.str (b.map fun ch => .ch ch.toNat)) rest := by
  unfold lexLoop
  simp only [show isSpace '[' = false by decide, show ('[' == '-') = false by decide,
      show ('[' == '[') = true by decide, Bool.false_eq_true, if_false, if_true, ho, hb, emitTok]


def expoHex : Char → Bool := fun e => e == 'p' || e == 'P'
def expoDec : Char → Bool := fun e => e == 'e' || e == 'E'

/-- `lexLoop`'s `0x` decision -/
def hexTail (c : Char) (cs : List Char) : Option (Char × List Char) :=
  if c == '0' then
    match cs with
    | x :: r => if x == 'x' || x == 'X' then some (x, r) else none
    | [] => none
  else none

/-- the numeral scan of `lexLoop` at `c :: cs`: the text handed to `parseNumeral`, and the rest -/
def numScan (c : Char) (cs : List Char) : List Char × List Char :=
  match hexTail c cs with
  | some (x, r) => ([c, x] ++ (numBuf expoHex (r.length + 1) r).1, (numBuf expoHex (r.length + 1) r).2)
  | none => ((numBuf expoDec (cs.length + 1 + 1) (c :: cs)).1, (numBuf expoDec (cs.length + 1 + 1) (c :: cs)).2)

/-- what `lexLoop` does after the numeral scan -/
def numResult (n f len : Nat) (cm : List (List Char)) (scan : List Char × List Char) : Except LexErr (List Tok) :=
  match parseNumeral scan.1 with
  | some nm => emitTok n f len cm (.num nm) scan.2
  | none => .error (.mk "malformed number" (n - len))

theorem lexLoop_num (n f : Nat) (c : Char) (cs : List Char) (cm : List (List Char)) (h : isDigit c = true) :
    lexLoop n (f + 1) (c :: cs) cm = numResult n f (cs.length + 1) cm (numScan c cs) := by
  obtain ⟨h1, h2, h3, h4⟩ := digit_class c h
  unfold lexLoop
  simp only [h1, h2, h3, h4, h, Bool.true_or, Bool.false_eq_true, if_false, if_true]
  unfold numResult numScan hexTail emitTok expoDec expoHex
  by_cases h0 : (c == '0') = true
  · cases cs with
    | nil => simp only [h0, if_true, List.nil_append, List.length_cons]; rfl
    | cons x r =>
      by_cases hx : (x == 'x' || x == 'X') = true
      · simp only [h0, hx, if_true, List.length_cons]; rfl
      · simp only [h0, hx, if_true, List.length_cons]; rfl
  · simp only [h0]; rfl

theorem lexLoop_num_dot (n f : Nat) (d : Char) (r : List Char) (cm : List (List Char)) (h : isDigit d = true) :
    lexLoop n (f + 1) ('.' :: d :: r) cm = numResult n f (r.length + 1 + 1) cm (numScan '.' (d :: r)) := by
  unfold lexLoop
  simp only [show isSpace '.' = false by decide, show ('.' == '-') = false by decide,
    show ('.' == '[') = false by decide, show ('.' == '"' || '.' == '\'') = false by decide,
    show ('.' == '.') = true by decide, h, Bool.true_and, Bool.or_true, Bool.false_eq_true, if_false, if_true,
    show ('.' == '0') = false by decide]
  rfl


/-- the symbol branches of `lexLoop`, transcribed: which symbol is read at the head of the input, and
where the lexer continues.  `none`: the input does not start with a symbol token (whitespace, quote,
digit, letter, comment `--`, long bracket `[=*[`, `[=` error, numeral `.5`, unknown character). -/
def symAt : List Char → Option (String × List Char)
  | [] => none
  | c :: cs =>
    if isSpace c || c == '"' || c == '\'' || isDigit c || isAlpha c then none
    else if c == '-' then
      match cs with
      | '-' :: _ => none
      | _ => some ("-", cs)
    else if c == '[' then
      match longOpener (c :: cs) with
      | some _ => none
      | none =>
        match cs with
        | '=' :: _ => none
        | _ => some ("[", cs)
    else if c == '.' then
      match cs with
      | '.' :: '.' :: r => some ("...", r)
      | '.' :: r => some ("..", r)
      | d :: _ => if isDigit d then none else some (".", cs)
      | [] => some (".", cs)
    else
      match cs with
      | d :: r =>
        if symbols2.contains (String.ofList [c, d]) then some (String.ofList [c, d], r)
        else if symbols1.contains c then some (String.ofList [c], cs)
        else none
      | [] =>
        if symbols1.contains c then some (String.ofList [c], cs)
        else none

theorem lexLoop_symAt (n f : Nat) (c : Char) (cs : List Char) (cm : List (List Char)) (s : String) (rest : List Char)
    (h : symAt (c :: cs) = some (s, rest)) :
    lexLoop n (f + 1) (c :: cs) cm = emitTok n f (cs.length + 1) cm (.sym s) rest := by
  unfold symAt at h
  dsimp only at h
  by_cases hg : (isSpace c || c == '"' || c == '\'' || isDigit c || isAlpha c) = true
  · rw [if_pos hg] at h; cases h
  rw [if_neg hg] at h
  simp only [Bool.or_eq_true, not_or, Bool.not_eq_true] at hg
  obtain ⟨⟨⟨⟨g1, g2⟩, g3⟩, g4⟩, g5⟩ := hg
  unfold lexLoop
  simp only [g1, g2, g3, g4, g5, Bool.false_or, Bool.or_self, Bool.false_eq_true, if_false, emitTok]
  by_cases h2 : (c == '-') = true
  · simp only [h2, if_true] at h ⊢
    split at h
    · cases h
    · simp only [Option.some.injEq, Prod.mk.injEq] at h
      obtain ⟨rfl, rfl⟩ := h
      split
      · rename_i hh; exact absurd rfl (hh _)
      · rfl
  simp only [h2, Bool.false_eq_true, if_false] at h ⊢
  by_cases h3 : (c == '[') = true
  · simp only [h3, if_true] at h ⊢
    split at h
    · cases h
    · rename_i hlo
      simp only [hlo]
      split at h
      · cases h
      · simp only [Option.some.injEq, Prod.mk.injEq] at h
        obtain ⟨rfl, rfl⟩ := h
        split
        · rename_i hh; exact (hh _ rfl).elim
        · rfl
  simp only [h3, Bool.false_eq_true, if_false] at h ⊢
  by_cases h4 : (c == '.') = true
  · simp only [h4, if_true, Bool.true_and] at h ⊢
    split at h
    · simp only [Option.some.injEq, Prod.mk.injEq] at h
      obtain ⟨rfl, rfl⟩ := h
      simp only [show isDigit '.' = false by decide, Bool.false_eq_true, if_false]
    · rename_i r hne
      simp only [Option.some.injEq, Prod.mk.injEq] at h
      obtain ⟨rfl, rfl⟩ := h
      simp only [show isDigit '.' = false by decide, Bool.false_eq_true, if_false]
    · rename_i d t hne1 hne2
      by_cases hd : isDigit d = true
      · simp only [hd, if_true] at h; cases h
      · simp only [hd, Bool.false_eq_true, if_false, Option.some.injEq, Prod.mk.injEq] at h
        obtain ⟨rfl, rfl⟩ := h
        simp only [hd, Bool.false_eq_true, if_false]
        split
        · rename_i heq; simp only [List.cons.injEq] at heq; exact (hne1 _ heq.1 heq.2).elim
        · rename_i heq; simp only [List.cons.injEq] at heq; exact (hne2 heq.1).elim
        · rfl
    · simp only [Option.some.injEq, Prod.mk.injEq] at h
      obtain ⟨rfl, rfl⟩ := h
      simp only [Bool.false_eq_true, if_false]
  simp only [h4, Bool.false_and, Bool.false_eq_true, if_false] at h ⊢
  split at h
  · rename_i d r
    by_cases hs2 : symbols2.contains (String.ofList [c, d]) = true
    · simp only [hs2, if_true, Option.some.injEq, Prod.mk.injEq] at h ⊢
      obtain ⟨rfl, rfl⟩ := h
      trivial
    · simp only [hs2, Bool.false_eq_true, if_false] at h ⊢
      by_cases hs1 : symbols1.contains c = true
      · simp only [hs1, if_true, Option.some.injEq, Prod.mk.injEq] at h ⊢
        obtain ⟨rfl, rfl⟩ := h
        trivial
      · simp only [hs1, Bool.false_eq_true, if_false] at h; cases h
  · by_cases hs1 : symbols1.contains c = true
    · simp only [hs1, if_true, Option.some.injEq, Prod.mk.injEq] at h ⊢
      obtain ⟨rfl, rfl⟩ := h
      trivial
    · simp only [hs1, Bool.false_eq_true, if_false] at h; cases h

/-! ## one token -/

def nextIsDigit : List Char → Bool
  | d :: _ => isDigit d
  | [] => false

/-- The token at the head of the input and the place where the lexer goes on.  `none`: the input is
empty, or starts with whitespace or a comment, or the reference lexer reports an error there. -/
def lexOne : List Char → Option (Tk × List Char)
  | [] => none
  | c :: cs =>
    if isAlpha c then some (wordTk (spanName (c :: cs)).1, (spanName (c :: cs)).2)
    else if isDigit c || (c == '.' && nextIsDigit cs) then
      (parseNumeral (numScan c cs).1).map fun nm => (.num nm, (numScan c cs).2)
    else if c == '"' || c == '\'' then
      (strBody c (cs.length + 1) cs).map fun p => (.str p.1, p.2)
    else
      match symAt (c :: cs) with
      | some (s, r) => some (.sym s, r)
      | none =>
        if c == '[' then
          match longOpener (c :: cs) with
          | some (lvl, body) =>
            (longBody lvl (dropFirstNewline body)).map fun p => (.str (p.1.map fun ch => .ch ch.toNat), p.2)
          | none => none
        else none

theorem numResult_of_some (n f len : Nat) (cm : List (List Char)) (scan : List Char × List Char) (nm : Numeral)
    (h : parseNumeral scan.1 = some nm) : numResult n f len cm scan = emitTok n f len cm (.num nm) scan.2 := by
  unfold numResult; rw [h]

/-- one unfolding of `lexLoop` at a token -/
theorem lexLoop_lexOne (n f : Nat) (c : Char) (cs : List Char) (cm : List (List Char)) (tk : Tk) (rest : List Char)
    (h : lexOne (c :: cs) = some (tk, rest)) :
    lexLoop n (f + 1) (c :: cs) cm = emitTok n f (cs.length + 1) cm tk rest := by
  unfold lexOne at h
  dsimp only at h
  by_cases ha : isAlpha c = true
  · rw [if_pos ha] at h
    simp only [Option.some.injEq, Prod.mk.injEq] at h
    obtain ⟨rfl, rfl⟩ := h
    exact lexLoop_word n f c cs cm ha
  rw [if_neg ha] at h
  by_cases hn : (isDigit c || (c == '.' && nextIsDigit cs)) = true
  · rw [if_pos hn] at h
    cases hp : parseNumeral (numScan c cs).1 with
    | none => rw [hp] at h; cases h
    | some nm =>
      rw [hp] at h
      simp only [Option.map_some, Option.some.injEq, Prod.mk.injEq] at h
      obtain ⟨rfl, rfl⟩ := h
      by_cases hd : isDigit c = true
      · rw [lexLoop_num n f c cs cm hd]; exact numResult_of_some _ _ _ _ _ _ hp
      · simp only [hd, Bool.false_or, Bool.and_eq_true, beq_iff_eq] at hn
        obtain ⟨rfl, hn⟩ := hn
        cases cs with
        | nil => cases hn
        | cons d r =>
          rw [lexLoop_num_dot n f d r cm hn]; exact numResult_of_some _ _ _ _ _ _ hp
  rw [if_neg hn] at h
  by_cases hq : (c == '"' || c == '\'') = true
  · rw [if_pos hq] at h
    cases hs : strBody c (cs.length + 1) cs with
    | none => rw [hs] at h; cases h
    | some p =>
      rw [hs] at h
      simp only [Option.map_some, Option.some.injEq, Prod.mk.injEq] at h
      obtain ⟨rfl, rfl⟩ := h
      exact lexLoop_quoted n f c cs cm (by simpa using hq) p.1 p.2 hs
  rw [if_neg hq] at h
  cases hsy : symAt (c :: cs) with
  | some p =>
    obtain ⟨s, r⟩ := p
    rw [hsy] at h
    simp only [Option.some.injEq, Prod.mk.injEq] at h
    obtain ⟨rfl, rfl⟩ := h
    exact lexLoop_symAt n f c cs cm s r hsy
  | none =>
    rw [hsy] at h
    dsimp only at h
    by_cases hb : (c == '[') = true
    · rw [if_pos hb] at h
      simp only [beq_iff_eq] at hb
      subst hb
      cases ho : longOpener ('[' :: cs) with
      | none => rw [ho] at h; cases h
      | some q =>
        obtain ⟨lvl, body⟩ := q
        rw [ho] at h
        dsimp only at h
        cases hl : longBody lvl (dropFirstNewline body) with
        | none => rw [hl] at h; cases h
        | some p =>
          rw [hl] at h
          simp only [Option.map_some, Option.some.injEq, Prod.mk.injEq] at h
          obtain ⟨rfl, rfl⟩ := h
          exact lexLoop_long n f cs cm lvl body p.1 p.2 ho hl
    · rw [if_neg hb] at h; cases h

theorem lexOne_of_symAt (inp : List Char) (s : String) (r : List Char) (h : symAt inp = some (s, r)) :
    lexOne inp = some (.sym s, r) := by
  cases inp with
  | nil => unfold symAt at h; cases h
  | cons c cs =>
    have hg : (isSpace c || c == '"' || c == '\'' || isDigit c || isAlpha c) = false := by
      cases hh : (isSpace c || c == '"' || c == '\'' || isDigit c || isAlpha c) with
      | false => rfl
      | true =>
        unfold symAt at h
        dsimp only at h
        rw [if_pos hh] at h; cases h
    simp only [Bool.or_eq_false_iff] at hg
    obtain ⟨⟨⟨⟨g1, g2⟩, g3⟩, g4⟩, g5⟩ := hg
    have hdot : (c == '.' && nextIsDigit cs) = false := by
      cases hc : (c == '.') with
      | false => rfl
      | true =>
        simp only [beq_iff_eq] at hc
        subst hc
        cases cs with
        | nil => rfl
        | cons d t =>
          cases hd : isDigit d with
          | false => simp [nextIsDigit, hd]
          | true =>
            exfalso
            unfold symAt at h
            simp only [show (isSpace '.' || '.' == '"' || '.' == '\'' || isDigit '.' || isAlpha '.') = false by decide,
              show ('.' == '-') = false by decide, show ('.' == '[') = false by decide,
              show ('.' == '.') = true by decide, Bool.false_eq_true, if_false, if_true] at h
            split at h
            · rename_i heq; simp only [List.cons.injEq] at heq; rw [heq.1] at hd; revert hd; decide
            · rename_i heq; simp only [List.cons.injEq] at heq; rw [heq.1] at hd; revert hd; decide
            · rename_i heq; simp only [List.cons.injEq] at heq; rw [← heq.1] at h; rw [hd] at h
              simp at h
            · rename_i heq; cases heq
    unfold lexOne
    simp only [g5, g4, g3, g2, hdot, h, Bool.or_self, Bool.false_eq_true, if_false]

end Tumfl.Theory
