import Tumfl.Theory.LexBridgeDefs
import Tumfl.Theory.Trivia
import Tumfl.Theory.BoundarySym
/-!
# LexBridge, part 1: shared helpers

* the tables `Gen.letter` / `Gen.alphanumeric` are the reference classes `isAlpha` / `isAlnum`;
* `takeWhileIn` is `Spec.spanP` (inversion form, no hypothesis on the text);
* the last consumed character (`prev`) of a scanner that moves only through `advance`;
* `lookup` in an association list gives membership.
-/
namespace Tumfl.Theory
open Tumfl.Model Tumfl

/-! ## tables -/

theorem isAlpha_lt (c : Char) (h : Spec.isAlpha c = true) : c.toNat < 128 := isAlnum_lt c (alpha_alnum c h)

theorem letter_ascii : ∀ x ∈ Gen.letter, x.toNat < 128 := by decide +kernel

theorem letter_tab : ∀ n : Fin 128, Gen.letter.contains (Char.ofNat n.val) = Spec.isAlpha (Char.ofNat n.val) := by
  decide +kernel
theorem alphanumeric_tab : ∀ n : Fin 128, Gen.alphanumeric.contains (Char.ofNat n.val) = Spec.isAlnum (Char.ofNat n.val) := by
  decide +kernel

theorem class_eq (l : List Char) (p : Char → Bool) (hl : ∀ x ∈ l, x.toNat < 128) (hp : ∀ c, p c = true → c.toNat < 128)
    (htab : ∀ n : Fin 128, l.contains (Char.ofNat n.val) = p (Char.ofNat n.val)) (c : Char) : l.contains c = p c := by
  by_cases hc : c.toNat < 128
  · exact ascii_all (fun c => l.contains c = p c) htab c hc
  · have h1 : l.contains c = false := by
      cases h : l.contains c with
      | false => rfl
      | true => exact absurd (contains_lt _ hl c h) hc
    have h2 : p c = false := by
      cases h : p c with
      | false => rfl
      | true => exact absurd (hp c h) hc
    rw [h1, h2]

/-- `Gen.letter` is the reference lexer's `isAlpha` -/
theorem letter_contains (c : Char) : Gen.letter.contains c = Spec.isAlpha c :=
  class_eq _ _ letter_ascii isAlpha_lt letter_tab c

/-- `Gen.alphanumeric` is the reference lexer's `isAlnum` -/
theorem alphanumeric_contains (c : Char) : Gen.alphanumeric.contains c = Spec.isAlnum c :=
  class_eq _ _ alphanumeric_ascii isAlnum_lt alphanumeric_tab c

/-! ## `takeWhileIn` is `spanP` -/

/-- whatever the text: `takeWhileIn` (with enough fuel) reads the longest prefix in `set` -/
theorem takeWhileIn_span (set : List Char) (lower : Bool) (f : Nat) (s : LexSt) (acc : List Char)
    (hf : s.rest.length < f) :
    ∃ s', takeWhileIn set lower f s acc =
        (acc.reverse ++ (Spec.spanP set.contains s.rest).1.map (fun c => if lower then lowerChar c else c), s') ∧
      s'.rest = (Spec.spanP set.contains s.rest).2 := by
  generalize hq : Spec.spanP set.contains s.rest = q
  obtain ⟨a, b⟩ := q
  obtain ⟨h1, h2, h3⟩ := spanP_inv _ _ _ _ hq
  have hl : a.length ≤ s.rest.length := by rw [h1]; simp
  exact takeWhileIn_spec set lower a b h2 h3 f s acc h1 (by omega)

/-! ## the last consumed character -/

/-- `x` is reached from a state with text `t` by `advance`s, and remembers the last character it passed -/
def PrevOf (t : List Char) (x : LexSt) : Prop :=
  ∃ pre, t = pre ++ x.rest ∧ (pre ≠ [] → x.prev = pre.getLast?)

theorem prevOf_start (s : LexSt) : PrevOf s.rest s := ⟨[], rfl, fun h => absurd rfl h⟩

theorem advStable_prevOf (t : List Char) : AdvStable (PrevOf t) := by
  intro x ⟨pre, h1, h2⟩
  cases hr : x.rest with
  | nil =>
    have : advance x = x := by unfold advance; rw [hr]
    rw [this]; exact ⟨pre, h1, h2⟩
  | cons d r =>
    refine ⟨pre ++ [d], by rw [advance_rest_of hr, h1, hr]; simp, fun _ => ?_⟩
    have hp : (advance x).prev = some d := by
      unfold advance
      rw [hr]
      cases r with
      | nil => rfl
      | cons e r' => simp only; split <;> rfl
    rw [hp]; simp

/-- if the scan from text `src ++ rest` ends at `rest` (and `src` is not empty), `prev` is the last character of `src` -/
theorem prevOf_last {src rest : List Char} {x : LexSt} (h : PrevOf (src ++ rest) x) (hr : x.rest = rest) (hne : src ≠ []) :
    x.prev = src.getLast? := by
  obtain ⟨pre, h1, h2⟩ := h
  rw [hr] at h1
  have : src = pre := List.append_cancel_right h1
  subst this
  exact h2 hne

/-! ## association lists -/

theorem lb_lookup_mem {α β : Type} [BEq α] [LawfulBEq α] {k : α} {v : β} : ∀ {l : List (α × β)}, l.lookup k = some v → (k, v) ∈ l
  | [], h => by simp [List.lookup] at h
  | (a, b) :: l, h => by
    rw [List.lookup] at h
    split at h
    · rename_i heq
      cases h
      have : k = a := by simpa using heq
      subst this
      simp
    · exact List.mem_cons_of_mem _ (lb_lookup_mem h)

theorem lookup_none_not_mem {α β : Type} [BEq α] [LawfulBEq α] {k : α} : ∀ {l : List (α × β)}, l.lookup k = none →
    ∀ v, (k, v) ∉ l
  | [], _, v => by simp
  | (a, b) :: l, h, v => by
    rw [List.lookup] at h
    split at h
    · cases h
    · rename_i heq
      intro hm
      simp only [List.mem_cons, Prod.mk.injEq] at hm
      rcases hm with ⟨rfl, _⟩ | hm
      · simp at heq
      · exact lookup_none_not_mem h v hm

/-! ## small facts about states -/

theorem tokenArgs_rest (s : LexSt) : (tokenArgs s).2.rest = s.rest := rfl
theorem tokenArgs_cur (s : LexSt) : (tokenArgs s).2.cur = s.cur := rfl
theorem tokenArgs_peek (s : LexSt) : (tokenArgs s).2.peek = s.peek := rfl

theorem peek_cons {s : LexSt} {c : Char} {cs : List Char} (h : s.rest = c :: cs) : s.peek = cs.head? := peek_eq h

end Tumfl.Theory
