import Tumfl.Spec.Climb
/-!
# Big-step semantics of Lua's `subexpr` (`climb` / `climbLoop`) over an abstract cursor

`CR S limit none s r`       : `climb` at `limit` from cursor `s` returns `r` (for some fuel)
`CR S limit (some acc) s r` : `climbLoop` at `limit` with accumulator `acc` from `s` returns `r`

(one inductive with an `Option` mode instead of a mutual pair, so that `induction` works).
Proved here: adequacy w.r.t. the fuel-indexed functions, `quiet` (the prototype's `stops`),
`join` (the prototype's `loop_split`) and its converse `split`.
-/
namespace Tumfl.Theory
open Tumfl.Spec

variable {σ ε Err T : Type}

inductive CR (S : ExprSig σ ε Err T) : Nat → Option ε → σ → ε × σ → Prop
  | un {limit s u s1 e s2 r} : S.unOf (S.peek s) = some u → S.eat s = .ok s1 →
      CR S UPRI none s1 (e, s2) → CR S limit (some (S.mkUn (S.peek s) u e)) s2 r → CR S limit none s r
  | simple {limit s e s1 r} : S.unOf (S.peek s) = none → S.simple s = .ok (e, s1) →
      CR S limit (some e) s1 r → CR S limit none s r
  | step {limit acc s o s1 e2 s2 r} : S.binOf (S.peek s) = some o → limit < lp o → S.eat s = .ok s1 →
      CR S (rp o) none s1 (e2, s2) → CR S limit (some (S.mkBin (S.peek s) o acc e2)) s2 r →
      CR S limit (some acc) s r
  | stop {limit acc s} : (∀ o, S.binOf (S.peek s) = some o → lp o ≤ limit) → CR S limit (some acc) s (acc, s)

/-! ## one-step unfolding of the fuel-indexed functions -/

theorem climb_zero (S : ExprSig σ ε Err T) (limit : Nat) (s : σ) : climb S 0 limit s = .error S.fuelErr := by
  conv => lhs; rw [climb]
  try rfl

theorem climbLoop_zero (S : ExprSig σ ε Err T) (limit : Nat) (acc : ε) (s : σ) :
    climbLoop S 0 limit acc s = .error S.fuelErr := by
  conv => lhs; rw [climbLoop]
  try rfl

theorem climb_succ (S : ExprSig σ ε Err T) (f limit : Nat) (s : σ) :
    climb S (f + 1) limit s =
      match S.unOf (S.peek s) with
      | some u =>
        match S.eat s with
        | .error e => .error e
        | .ok s1 =>
          match climb S f UPRI s1 with
          | .error e => .error e
          | .ok (e, s2) => climbLoop S f limit (S.mkUn (S.peek s) u e) s2
      | none =>
        match S.simple s with
        | .error e => .error e
        | .ok (e, s1) => climbLoop S f limit e s1 := by
  conv => lhs; rw [climb]
  try rfl

theorem climbLoop_succ (S : ExprSig σ ε Err T) (f limit : Nat) (acc : ε) (s : σ) :
    climbLoop S (f + 1) limit acc s =
      match S.binOf (S.peek s) with
      | some o =>
        if limit < lp o then
          match S.eat s with
          | .error e => .error e
          | .ok s1 =>
            match climb S f (rp o) s1 with
            | .error e => .error e
            | .ok (e2, s2) => climbLoop S f limit (S.mkBin (S.peek s) o acc e2) s2
        else .ok (acc, s)
      | none => .ok (acc, s) := by
  conv => lhs; rw [climbLoop]
  try rfl

/-! ## adequacy -/

theorem climb_sound (S : ExprSig σ ε Err T) : ∀ f,
    (∀ limit s r, climb S f limit s = .ok r → CR S limit none s r) ∧
    (∀ limit acc s r, climbLoop S f limit acc s = .ok r → CR S limit (some acc) s r) := by
  intro f
  induction f with
  | zero =>
    constructor
    · intro limit s r h; rw [climb_zero] at h; cases h
    · intro limit acc s r h; rw [climbLoop_zero] at h; cases h
  | succ f ih =>
    obtain ⟨ihc, ihl⟩ := ih
    constructor
    · intro limit s r h
      rw [climb_succ] at h
      split at h
      · rename_i u hu
        split at h
        · cases h
        · rename_i s1 he
          split at h
          · cases h
          · rename_i e s2 hc
            exact CR.un hu he (ihc _ _ _ hc) (ihl _ _ _ _ h)
      · rename_i hu
        split at h
        · cases h
        · rename_i e s1 hs
          exact CR.simple hu hs (ihl _ _ _ _ h)
    · intro limit acc s r h
      rw [climbLoop_succ] at h
      split at h
      · rename_i o ho
        split at h
        · rename_i hlt
          split at h
          · cases h
          · rename_i s1 he
            split at h
            · cases h
            · rename_i e2 s2 hc
              exact CR.step ho hlt he (ihc _ _ _ hc) (ihl _ _ _ _ h)
        · rename_i hlt
          cases h
          exact CR.stop (fun o' ho' => by rw [ho] at ho'; cases ho'; omega)
      · rename_i ho
        cases h
        exact CR.stop (fun o' ho' => by rw [ho] at ho'; cases ho')

theorem climb_mono (S : ExprSig σ ε Err T) : ∀ f,
    (∀ limit s r, climb S f limit s = .ok r → climb S (f + 1) limit s = .ok r) ∧
    (∀ limit acc s r, climbLoop S f limit acc s = .ok r → climbLoop S (f + 1) limit acc s = .ok r) := by
  intro f
  induction f with
  | zero =>
    constructor
    · intro limit s r h; rw [climb_zero] at h; cases h
    · intro limit acc s r h; rw [climbLoop_zero] at h; cases h
  | succ f ih =>
    obtain ⟨ihc, ihl⟩ := ih
    constructor
    · intro limit s r h
      rw [climb_succ] at h
      rw [climb_succ]
      split at h
      · rename_i u hu
        split at h
        · cases h
        · rename_i s1 he
          split at h
          · cases h
          · rename_i e s2 hc
            simp only [ihc _ _ _ hc]
            exact ihl _ _ _ _ h
      · rename_i hu
        split at h
        · cases h
        · rename_i e s1 hs
          exact ihl _ _ _ _ h
    · intro limit acc s r h
      rw [climbLoop_succ] at h
      rw [climbLoop_succ]
      split at h
      · rename_i o ho
        split at h
        · rename_i hlt
          split at h
          · cases h
          · rename_i s1 he
            split at h
            · cases h
            · rename_i e2 s2 hc
              simp only [ihc _ _ _ hc, if_pos hlt]
              exact ihl _ _ _ _ h
        · rename_i hlt
          rw [if_neg hlt]; exact h
      · exact h

theorem climb_mono_le (S : ExprSig σ ε Err T) {f g : Nat} (hfg : f ≤ g) {limit : Nat} {s : σ} {r : ε × σ}
    (h : climb S f limit s = .ok r) : climb S g limit s = .ok r := by
  induction hfg with
  | refl => exact h
  | step _ ih => exact (climb_mono S _).1 _ _ _ ih

theorem climbLoop_mono_le (S : ExprSig σ ε Err T) {f g : Nat} (hfg : f ≤ g) {limit : Nat} {acc : ε} {s : σ}
    {r : ε × σ} (h : climbLoop S f limit acc s = .ok r) : climbLoop S g limit acc s = .ok r := by
  induction hfg with
  | refl => exact h
  | step _ ih => exact (climb_mono S _).2 _ _ _ _ ih

/-- the fuel-indexed function run in mode `m` -/
def runMode (S : ExprSig σ ε Err T) (f limit : Nat) : Option ε → σ → Except Err (ε × σ)
  | none, s => climb S f limit s
  | some acc, s => climbLoop S f limit acc s

theorem climbRel_complete (S : ExprSig σ ε Err T) {limit : Nat} {m : Option ε} {s : σ} {r : ε × σ}
    (h : CR S limit m s r) : ∃ f, runMode S f limit m s = .ok r := by
  induction h with
  | @un limit s u s1 e s2 r hu he _ _ ih1 ih2 =>
    obtain ⟨f1, h1⟩ := ih1
    obtain ⟨f2, h2⟩ := ih2
    refine ⟨max f1 f2 + 1, ?_⟩
    simp only [runMode] at h1 h2 ⊢
    rw [climb_succ]
    simp only [hu, he, climb_mono_le S (Nat.le_max_left f1 f2) h1]
    exact climbLoop_mono_le S (Nat.le_max_right f1 f2) h2
  | @simple limit s e s1 r hu hs _ ih =>
    obtain ⟨f, h⟩ := ih
    refine ⟨f + 1, ?_⟩
    simp only [runMode] at h ⊢
    rw [climb_succ]
    simp only [hu, hs]
    exact h
  | @step limit acc s o s1 e2 s2 r ho hlt he _ _ ih1 ih2 =>
    obtain ⟨f1, h1⟩ := ih1
    obtain ⟨f2, h2⟩ := ih2
    refine ⟨max f1 f2 + 1, ?_⟩
    simp only [runMode] at h1 h2 ⊢
    rw [climbLoop_succ]
    simp only [ho, hlt, if_true, he, climb_mono_le S (Nat.le_max_left f1 f2) h1]
    exact climbLoop_mono_le S (Nat.le_max_right f1 f2) h2
  | @stop limit acc s hq =>
    refine ⟨1, ?_⟩
    simp only [runMode]
    rw [climbLoop_succ]
    split
    · rename_i o ho
      have := hq o ho
      rw [if_neg (by omega)]
    · rfl

/-- adequacy of the big-step relation for `climb` -/
theorem climb_iff (S : ExprSig σ ε Err T) (limit : Nat) (s : σ) (r : ε × σ) :
    (∃ f, climb S f limit s = .ok r) ↔ CR S limit none s r :=
  ⟨fun ⟨f, h⟩ => (climb_sound S f).1 _ _ _ h, fun h => climbRel_complete S h⟩

/-! ## facts about climbing -/

/-- (`stops`) after a parse at `limit` the next token is not a binary operator that `limit` absorbs -/
theorem CR.quiet {S : ExprSig σ ε Err T} {limit : Nat} {m : Option ε} {s : σ} {r : ε × σ}
    (h : CR S limit m s r) : ∀ o, S.binOf (S.peek r.2) = some o → lp o ≤ limit := by
  induction h with
  | un _ _ _ _ _ ih => exact ih
  | simple _ _ _ ih => exact ih
  | step _ _ _ _ _ _ ih => exact ih
  | stop hq => exact hq

/-- a loop that starts at a token it does not absorb returns immediately -/
theorem CR.loop_inv_quiet {S : ExprSig σ ε Err T} {limit : Nat} {acc : ε} {s : σ} {r : ε × σ}
    (h : CR S limit (some acc) s r) (hq : ∀ o, S.binOf (S.peek s) = some o → lp o ≤ limit) : r = (acc, s) := by
  cases h with
  | step ho hlt _ _ _ => have := hq _ ho; omega
  | stop _ => rfl

/-- (`loop_split`) parsing at a high limit and continuing the loop at a lower one = parsing at the lower one -/
theorem CR.join {S : ExprSig σ ε Err T} {L L' : Nat} (hLL : ∀ o, L' < lp o → L < lp o)
    {limit : Nat} {m : Option ε} {s : σ} {r : ε × σ} (h : CR S limit m s r) :
    limit = L' → ∀ r2, CR S L (some r.1) r.2 r2 → CR S L m s r2 := by
  induction h with
  | un hu he h1 _ _ ih2 => intro hl r2 hc; exact CR.un hu he h1 (ih2 hl r2 hc)
  | simple hu hs _ ih => intro hl r2 hc; exact CR.simple hu hs (ih hl r2 hc)
  | step ho hlt he h1 _ _ ih2 =>
    intro hl r2 hc
    exact CR.step ho (hLL _ (hl ▸ hlt)) he h1 (ih2 hl r2 hc)
  | stop _ => intro _ r2 hc; exact hc

/-- converse of `join`: a parse at a low limit starts with a parse at any higher limit -/
theorem CR.split {S : ExprSig σ ε Err T} {L L' : Nat} (hLL : ∀ o, L' < lp o → L < lp o)
    {limit : Nat} {m : Option ε} {s : σ} {r : ε × σ} (h : CR S limit m s r) :
    limit = L → ∃ n s1, CR S L' m s (n, s1) ∧ CR S L (some n) s1 r := by
  induction h with
  | un hu he h1 _ _ ih2 =>
    intro hl
    obtain ⟨n, s1, ha, hb⟩ := ih2 hl
    exact ⟨n, s1, CR.un hu he h1 ha, hb⟩
  | simple hu hs _ ih =>
    intro hl
    obtain ⟨n, s1, ha, hb⟩ := ih hl
    exact ⟨n, s1, CR.simple hu hs ha, hb⟩
  | @step limit acc s o s1 e2 s2 r ho hlt he h1 h2 _ ih2 =>
    intro hl
    by_cases hl' : L' < lp o
    · obtain ⟨n, s1', ha, hb⟩ := ih2 hl
      exact ⟨n, s1', CR.step ho hl' he h1 ha, hb⟩
    · refine ⟨acc, s, CR.stop (fun o' ho' => ?_), hl ▸ CR.step ho hlt he h1 h2⟩
      rw [ho] at ho'; cases ho'; omega
  | @stop limit acc s hq =>
    intro hl
    refine ⟨acc, s, CR.stop (fun o ho => ?_), hl ▸ CR.stop hq⟩
    have := hq o ho
    by_cases hl' : L' < lp o
    · have := hLL o hl'; omega
    · omega

end Tumfl.Theory
