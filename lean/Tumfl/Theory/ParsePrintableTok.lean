import Tumfl.Theory.LexBridgeTok
import Tumfl.Theory.ParserWFTok
import Tumfl.Theory.PrintSimDefs
/-!
# What the (untyped) lexer guarantees about `NAME` and `NUMBER` tokens, in the vocabulary of `Printable`

`TokP t` :
* a `NAME` token carries a string that is a Lua identifier and not a keyword (`identOK`);
* a `NUMBER` token carries a numeral tuple whose printed form (`numberStr`) starts like a numeral and is read by the
  reference numeral grammar as its own canonical form (`numOKp`).  This includes `5.` (printed `5`) and `0x.8`
  (printed `0x1.8`): `numOKp` speaks about what IS printed.

`getNextToken_tokP` : every token delivered by `get_next_token` of an untyped lexer satisfies `TokP`.
-/
namespace Tumfl.Theory
open Tumfl.Model Tumfl

/-! ## numerals -/

theorem lowerChar_idem_tab : ∀ n : Fin 128, lowerChar (lowerChar (Char.ofNat n.val)) = lowerChar (Char.ofNat n.val) := by
  decide +kernel

theorem lowerChar_idem (c : Char) : lowerChar (lowerChar c) = lowerChar c := by
  by_cases h : ('A' ≤ c && c ≤ 'Z') = true
  · have hlt : c.toNat < 128 := by
      simp only [Bool.and_eq_true] at h
      have := le_toNat h.2
      have e : 'Z'.toNat = 90 := by decide
      omega
    exact ascii_all (fun c => lowerChar (lowerChar c) = lowerChar c) lowerChar_idem_tab c hlt
  · have e : lowerChar c = c := by
      unfold lowerChar
      simp only [h, Bool.false_eq_true, if_false]
    rw [e, e]

theorem map_lower_idem (l : List Char) : (l.map lowerChar).map lowerChar = l.map lowerChar := by
  rw [List.map_map]
  apply List.map_congr_left
  intro c _
  exact lowerChar_idem c

/-- the canonical respelling is canonical -/
theorem canon_idem (m : Spec.Numeral) : canon (canon m) = canon m := by
  obtain ⟨h, ip, fp, ex⟩ := m
  simp only [canon]
  congr 1
  · cases ip with
    | nil => cases h <;> simp <;> decide
    | cons d ip' =>
      simp only [List.isEmpty_cons, Bool.false_eq_true, if_false, List.map_cons, lowerChar_idem, map_lower_idem]
  · cases fp with
    | none => rfl
    | some f =>
      cases f with
      | nil => rfl
      | cons d f' =>
        simp only [Option.bind_some, optStr, List.map_cons, List.isEmpty_cons, Bool.false_eq_true, if_false,
          lowerChar_idem, map_lower_idem]

/-- the text of a canonical numeral starts with a decimal digit -/
theorem numText_canon_head (m : Spec.Numeral) (x mk : Char) (sg : List Char) (wf : NumWF (canon m) mk sg) :
    ∃ c cs, numText (canon m) x mk sg = c :: cs ∧ Spec.isDigit c = true := by
  cases hh : (canon m).hex with
  | true =>
    refine ⟨'0', x :: ((canon m).ip ++ dotS (canon m).fp ++ exS mk sg (canon m).ex), ?_, by decide⟩
    simp only [numText, hh, if_true, List.cons_append, List.nil_append, List.append_assoc]
  | false =>
    have hne : ∃ d r, (canon m).ip = d :: r := by
      simp only [canon]
      cases m.ip with
      | nil => exact ⟨_, _, rfl⟩
      | cons a b => exact ⟨_, _, rfl⟩
    obtain ⟨d, r, hip⟩ := hne
    have hd := wf.ip_dig d (by rw [hip]; exact List.mem_cons_self ..)
    rw [hh] at hd
    refine ⟨d, r ++ dotS (canon m).fp ++ exS mk sg (canon m).ex, ?_, by simpa [dig] using hd⟩
    simp only [numText, hh, Bool.false_eq_true, if_false, List.nil_append, hip, List.cons_append]

/-- a scanned tuple that is `NumRel`-related to some reference numeral is printable -/
theorem numOKp_of_NumRel {n : NumTuple} {m : Spec.Numeral} (h : NumRel n m) : numOKp n = true := by
  unfold NumRel at h
  obtain ⟨x, mk, sg, _, hsrc, wf⟩ := parseNumeral_inv _ _ h
  obtain ⟨c, cs, hc, hd⟩ := numText_canon_head m x mk sg wf
  unfold numOKp
  rw [h, hsrc, hc]
  simp only [hd, Bool.true_or, Bool.true_and, canon_idem, beq_self_eq_true]

/-! ## names -/

theorem identOK_of {name : List Char} {c : Char} {cs : List Char} (hn : name = c :: cs)
    (hl : Gen.letter.contains c = true) (ha : ∀ x ∈ cs, Gen.alphanumeric.contains x = true)
    (hk : Spec.keywords.contains (String.ofList name) = false) : identOK name = true := by
  subst hn
  rw [letter_contains] at hl
  have ha' : cs.all Spec.isAlnum = true := by
    rw [List.all_eq_true]
    intro x hx
    rw [← alphanumeric_contains]
    exact ha x hx
  simp only [identOK, hl, ha', isKwText, hk, Bool.not_false, Bool.and_self]

/-! ## the token invariant -/

def TokP (t : Token) : Prop :=
  (t.type = .NAME → ∃ n, t.value = .str n ∧ identOK n = true) ∧
  (t.type = .NUMBER → ∃ n, t.value = .num n ∧ numOKp n = true)

/-- a successful outcome carries a good token -/
def TokResP (r : Except PyErr (Token × LexSt)) : Prop := ∀ tok s', r = .ok (tok, s') → TokP tok

theorem TokResP_error (e : PyErr) : TokResP (.error e) := by intro _ _ h; cases h

theorem TokP_other {ty : TT} {v : TokVal} {a : Nat × Int × List (List Char)}
    (h1 : ty ≠ .NAME) (h2 : ty ≠ .NUMBER) : TokP (Model.mkTok ty v a) :=
  ⟨fun h => absurd h h1, fun h => absurd h h2⟩

theorem TokResP_other {ty : TT} {v : TokVal} {a : Nat × Int × List (List Char)} {X : LexSt}
    (h : ty ≠ .NAME ∧ ty ≠ .NUMBER) : TokResP (.ok (Model.mkTok ty v a, X)) := by
  intro tok s' he; cases he; exact TokP_other h.1 h.2

theorem TokResP_ite {c : Prop} [Decidable c] {a b : Except PyErr (Token × LexSt)}
    (ha : c → TokResP a) (hb : ¬ c → TokResP b) : TokResP (if c then a else b) := by
  split
  · exact ha ‹_›
  · exact hb ‹_›

theorem nextTokenLoop_tokP (cfg : LexCfg) (hty : cfg.typed = false) :
    ∀ (f : Nat) (s : LexSt), TokResP (nextTokenLoop cfg f s)
  | 0, s => by rw [nextTokenLoop]; exact TokResP_error _
  | f + 1, s => by
    rw [nextTokenLoop]
    split
    · exact TokResP_other (ty := .EOF) (by decide)
    · rename_i c hc
      refine TokResP_ite (fun _ => nextTokenLoop_tokP cfg hty f _) (fun hws => ?_)
      refine TokResP_ite (fun _ => ?_) (fun hcm => ?_)
      · split
        · exact TokResP_error _
        · exact nextTokenLoop_tokP cfg hty f _
      simp only [tokenArgs]
      have hc0 : ({ s with comments := [] } : LexSt).cur = some c := hc
      obtain ⟨cs, hrest⟩ := rest_of_cur hc0
      refine TokResP_ite (fun hl => ?_) (fun _ => ?_)
      · -- name or keyword
        split
        · exact TokResP_error _
        · rename_i name s1 hn
          have hkw := keywordOf_spec cfg hty name
          split
          · rename_i t ht
            exact TokResP_other (keywordOf_ne ht)
          · rename_i hnone
            rw [hnone] at hkw
            intro tok s' he
            cases he
            refine ⟨fun _ => ⟨name, rfl, ?_⟩, fun h => (by cases h)⟩
            -- the characters of the name, from the token invariant of `ParserWFTok`
            have hok : TokOK (Model.mkTok .NAME (.str name) (s.line + 1, s.col + 1, s.comments)) := by
              have := nextTokenLoop_tokOK cfg (f + 1) s
              rw [nextTokenLoop] at this
              simp only [hc, tokenArgs] at this
              rw [if_neg hws, if_neg hcm, if_pos hl, hn] at this
              simp only [hnone] at this
              exact this _ _ rfl
            obtain ⟨d, ds, hstr, hld, hds⟩ := hok.2.2 rfl
            exact identOK_of hstr hld hds hkw
      refine TokResP_ite (fun hnum => ?_) (fun _ => ?_)
      · -- number
        refine TokResP_ite (fun _ => TokResP_error _) (fun hacc => ?_)
        intro tok s' he
        cases he
        refine ⟨fun h => (by cases h), fun _ => ⟨_, rfl, ?_⟩⟩
        have hcond : Spec.isDigit c = true ∨ (c = '.' ∧ nextIsDigit cs = true) := by
          rw [number_contains, inStr_peek _ c cs hrest] at hnum
          simpa using hnum
        have hrej : numReject (getNumber { s with comments := [] }) = false := by
          cases hr : numReject (getNumber { s with comments := [] }) with
          | false => rfl
          | true => exact absurd hr hacc
        obtain ⟨m, _, _, hrel⟩ := number_sound _ c cs hrest hcond hrej
        exact numOKp_of_NumRel hrel
      refine TokResP_ite (fun _ => ?_) (fun _ => ?_)
      · split
        · exact TokResP_error _
        · exact TokResP_other (ty := .STRING) (by decide)
      refine TokResP_ite (fun _ => ?_) (fun _ => ?_)
      · split
        · exact TokResP_error _
        · exact TokResP_other (ty := .STRING) (by decide)
      refine TokResP_ite (fun _ => ?_) (fun _ => ?_)
      · exact TokResP_ite (fun _ => TokResP_other (ty := .ELLIPSIS) (by decide))
          (fun _ => TokResP_other (ty := .CONCAT) (by decide))
      split
      · rename_i t v htwo
        split at htwo
        · rename_i p hp
          cases hs : symbolOf [c, p] with
          | none => rw [hs] at htwo; cases htwo
          | some t' =>
            rw [hs] at htwo
            cases htwo
            exact TokResP_other (symbolOf_ne hs)
        · cases htwo
      · split
        · rename_i t ht
          exact TokResP_other (symbolOf_ne ht)
        · exact TokResP_error _

/-- **every token delivered by `get_next_token` of an untyped lexer satisfies `TokP`** -/
theorem getNextToken_tokP {cfg : LexCfg} (hty : cfg.typed = false) {s : LexSt} {tok : Token} {s' : LexSt}
    (h : getNextToken cfg s = .ok (tok, s')) : TokP tok := by
  unfold getNextToken at h
  exact nextTokenLoop_tokP cfg hty _ _ tok s' h

end Tumfl.Theory
