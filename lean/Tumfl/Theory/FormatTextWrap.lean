import Tumfl.Theory.FormatTextStep
import Tumfl.Theory.FormatTextLay
import Tumfl.Theory.FormatTextRO
/-!
# A wrapped literal in the final text
-/
namespace Tumfl.Theory
open Tumfl Tumfl.Spec Tumfl.Model

/-! ## `wrap_reads` for any white-space fill -/

theorem joined_reads_sp (fill : Nat → List Char) (hfill : ∀ i, ∀ ch ∈ fill i, isSpace ch = true)
    (q : Char) (hq : q = '"' ∨ q = '\'') (rest : List Char) :
    ∀ (gs : List (List Char)) (i : Nat) (g : List Char), (∀ g' ∈ gs, g'.head? ≠ some ' ') →
      ∃ n, n ≤ (joined fill q i g gs).length + 1 ∧
        ReadsFrom q n (joined fill q i g gs ++ q :: rest)
          ((g ++ gs.flatten).map fun c => SUnit.ch c.toNat) rest := by
  intro gs
  induction gs with
  | nil =>
    intro i g _
    refine ⟨1 + g.length, ?_, ?_⟩
    · have := escBody_length_ge q g
      simp only [joined]; omega
    · have := readsFrom_group q hq g (readsFrom_close q rest)
      simpa [joined] using this
  | cons g' gs ih =>
    intro i g hgs
    obtain ⟨n, hn, hr⟩ := ih (i + 1) g' (fun x hx => hgs x (by simp [hx]))
    obtain ⟨c, t, e, hc⟩ := joined_head fill q hq (i + 1) g' gs rest (hgs g' (by simp))
    rw [e] at hr
    have hws : ∀ w ∈ '\n' :: fill i, isSpace w = true := by
      intro w hw
      rcases List.mem_cons.mp hw with rfl | hw
      · decide
      · exact hfill i w hw
    have h1 := readsFrom_z q hq ('\n' :: fill i) c t hws hc hr
    have h2 := readsFrom_group q hq g h1
    refine ⟨n + 1 + g.length, ?_, ?_⟩
    · have := escBody_length_ge q g
      simp only [joined, List.length_append, List.length_cons]; omega
    · rw [← e] at h2
      simpa [joined] using h2

/-- a wrapped literal reads back identically, whatever white space follows each `\z` + line break -/
theorem wrap_reads_sp (sty : Style) (quote : Char) (hq : quote = '"' ∨ quote = '\'') (v : List Char) (ind : Int)
    (ps : Pieces)
    (h : stringIdent (quote :: v.flatMap (escapeChar quote) ++ [quote]) ind sty = .ok ps)
    (fill : Nat → List Char) (hfill : ∀ i, ∀ ch ∈ fill i, isSpace ch = true) :
    IsQuotedLit (wrappedText ps fill) (v.map fun c => Spec.SUnit.ch c.toNat) := by
  obtain ⟨g, gs, hv, hgs, e⟩ := wrap_shape sty quote hq v ind ps h fill
  rw [e]
  refine ⟨quote, joined fill quote 0 g gs, hq, by simp, ?_⟩
  intro rest F hF
  obtain ⟨n, hn, hr⟩ := joined_reads_sp fill hfill quote hq rest gs 0 g hgs
  rw [← hv]
  exact hr F (by omega)

/-! ## a run of Newline separators -/

theorem layout_of_blank {c : Char} (h : c = ' ' ∨ c = '\t') : isLayoutSpace c = true := by
  rcases h with rfl | rfl <;> decide

/-- `k` Newline separators: white space; starting with a line break when nothing but a token is in front -/
theorem nl_run {sty : Style} (hd : DocStyle sty) : ∀ (k : Nat) (X : Pieces) (blank : Bool) (level : Int) (dirty : Bool)
    (ts6 ts7 : Pieces), resolveTokensAux sty blank (List.replicate k (.sep .newline) ++ X) = .ok ts6 →
    indentLoop sty.indentation ts6 level dirty = .ok ts7 →
    ∃ W blank' dirty' r6 r7, resolveTokensAux sty blank' X = .ok r6 ∧
      indentLoop sty.indentation r6 level dirty' = .ok r7 ∧ joinTokens ts7 = W ++ joinTokens r7 ∧
      (∀ c ∈ W, isLayoutSpace c = true) ∧
      (k = 0 → W = [] ∧ blank' = blank ∧ dirty' = dirty) ∧
      (1 ≤ k → blank = false → dirty = false → ∃ w, W = '\n' :: w)
  | 0, X, blank, level, dirty, ts6, ts7, h6, h7 =>
    ⟨[], blank, dirty, ts6, ts7, by simpa using h6, h7, rfl, by simp, fun _ => ⟨rfl, rfl, rfl⟩, fun h => by omega⟩
  | k + 1, X, blank, level, dirty, ts6, ts7, h6, h7 => by
    rw [List.replicate_succ, List.cons_append] at h6
    obtain ⟨txt, blank1, level1, dirty1, r6, r7, hr6, hr7, hj, hout⟩ := step_cons hd _ _ _ _ _ _ _ h6 h7
    simp only [StepOut] at hout
    have hlev : level1 = level := by
      split at hout
      · exact hout.2.2.1
      · exact hout.2.2.1
    subst hlev
    obtain ⟨W, blank', dirty', r6', r7', hr6', hr7', hj', hW, _, _⟩ := nl_run hd k X blank1 level1 dirty1 r6 r7 hr6 hr7
    refine ⟨txt ++ W, blank', dirty', r6', r7', hr6', hr7', by rw [hj, hj']; simp, ?_, fun h => by omega, ?_⟩
    · intro c hc
      rcases List.mem_append.mp hc with hc | hc
      · split at hout
        · rw [hout.1] at hc
          exact layout_of_blank (indPre_layout hd _ _ c hc)
        · rw [hout.1] at hc
          rcases List.mem_append.mp hc with hc | hc
          · exact layout_of_blank (indPre_layout hd _ _ c hc)
          · simp only [List.mem_singleton] at hc; subst hc; decide
      · exact hW c hc
    · intro _ hb hdirty
      subst hb hdirty
      simp only [Bool.false_eq_true, if_false, indPre_false, List.nil_append] at hout
      exact ⟨W, by rw [hout.1]; rfl⟩

/-! ## the pieces of a wrapped literal -/

theorem insIn_one_inv {p : Piece} {G : Pieces} (h : InsIn [p] G) : G = [p] := by
  cases h; rfl

theorem insIn_cons2_inv {p q : Piece} {r G : Pieces} (h : InsIn (p :: q :: r) G) :
    ∃ n G', G = p :: (List.replicate n (.sep .newline) ++ G') ∧ InsIn (q :: r) G' := by
  cases h with
  | step _ n h' => exact ⟨n, _, rfl, h'⟩

theorem wtf_shift (fill fill' : Nat → List Char) (h : ∀ i, fill (i + 1) = fill' i) :
    ∀ (ps : Pieces) (k : Nat), wrappedTextFrom fill (k + 1) ps = wrappedTextFrom fill' k ps
  | [], k => rfl
  | .str s :: ps, k => by simp only [wrappedTextFrom]; rw [wtf_shift fill fill' h ps k]
  | .sep x :: ps, k => by
    cases x <;> simp only [wrappedTextFrom]
    case newline => rw [h k, wtf_shift fill fill' h ps (k + 1)]
    all_goals exact wtf_shift fill fill' h ps k

theorem endsNl_z (a : List Char) : endsNl (a ++ ['\\', 'z']) = false := by
  have : a ++ ['\\', 'z'] = (a ++ ['\\']) ++ ['z'] := by simp
  rw [endsNl, this, List.getLast?_append]
  rfl

/-- the text of the pieces of a wrapped literal (with Newline separators inserted between them) -/
theorem grp_text {sty : Style} (hd : DocStyle sty) : ∀ (parts : List (List Char)), parts ≠ [] →
    (∀ a, parts.getLast? = some a → endsNl a = false) →
    ∀ (G : Pieces), InsIn (stringIdent.build parts) G →
    ∀ (r : Pieces) (blank : Bool) (level : Int) (dirty : Bool) (ts6 ts7 : Pieces),
      resolveTokensAux sty blank (G ++ r) = .ok ts6 → indentLoop sty.indentation ts6 level dirty = .ok ts7 →
      ∃ fill : Nat → List Char, (∀ i, ∀ ch ∈ fill i, isLayoutSpace ch = true) ∧
        ∃ r6 r7, resolveTokensAux sty false r = .ok r6 ∧ indentLoop sty.indentation r6 level false = .ok r7 ∧
          joinTokens ts7 = indPre sty.indentation level dirty ++ wrappedTextFrom fill 0 (stringIdent.build parts) ++
            joinTokens r7
  | [], h, _ => absurd rfl h
  | [a], _, hlast => by
    intro G hg r blank level dirty ts6 ts7 h6 h7
    have hb : stringIdent.build [a] = [.str a] := by simp [stringIdent.build]
    rw [hb] at hg ⊢
    rw [insIn_one_inv hg] at h6
    obtain ⟨txt, blank1, level1, dirty1, r6, r7, hr6, hr7, hj, hout⟩ := step_cons hd _ _ _ _ _ _ _ h6 h7
    simp only [StepOut] at hout
    obtain ⟨rfl, rfl, rfl, rfl⟩ := hout
    rw [hlast a rfl] at hr7
    exact ⟨fun _ => [], fun _ _ h => (by cases h), r6, r7, by simpa using hr6, hr7, by rw [hj]; simp [wrappedTextFrom]⟩
  | a :: b :: rest, _, hlast => by
    intro G hg r blank level dirty ts6 ts7 h6 h7
    rw [build_cons_cons] at hg ⊢
    obtain ⟨n, G1, rfl, hg1⟩ := insIn_cons2_inv hg
    have hbs : ∃ s t, stringIdent.build (b :: rest) = .str s :: t := by
      cases rest with
      | nil => exact ⟨b, [], by simp [stringIdent.build]⟩
      | cons c rest => exact ⟨_, _, build_cons_cons b c rest⟩
    obtain ⟨s, t, hst⟩ := hbs
    rw [S, hst] at hg1
    obtain ⟨m, G2, rfl, hg2⟩ := insIn_cons2_inv hg1
    rw [← hst] at hg2
    -- the first part
    have e : (.str (a ++ ['\\', 'z']) :: (List.replicate n (.sep .newline) ++
        .sep .newline :: (List.replicate m (.sep .newline) ++ G2))) ++ r =
        .str (a ++ ['\\', 'z']) :: (List.replicate (n + 1 + m) (.sep .newline) ++ (G2 ++ r)) := by
      rw [← List.replicate_append_replicate, ← List.replicate_append_replicate]
      simp
    rw [e] at h6
    obtain ⟨txt, blank1, level1, dirty1, r6, r7, hr6, hr7, hj, hout⟩ := step_cons hd _ _ _ _ _ _ _ h6 h7
    simp only [StepOut] at hout
    obtain ⟨rfl, rfl, rfl, rfl⟩ := hout
    rw [endsNl_z] at hr7
    -- the newlines
    obtain ⟨W, blank2, dirty2, r6', r7', hr6', hr7', hj', hW, _, hW1⟩ := nl_run hd _ _ _ _ _ _ _ hr6 hr7
    obtain ⟨w, rfl⟩ := hW1 (by omega) rfl rfl
    -- the rest
    obtain ⟨fill', hfill', r6'', r7'', hr6'', hr7'', hj''⟩ :=
      grp_text hd (b :: rest) (by simp) (fun x hx => hlast x (by simpa using hx)) G2 hg2 r blank2 level1 dirty2
        r6' r7' hr6' hr7'
    refine ⟨fun i => match i with | 0 => w ++ indPre sty.indentation level1 dirty2 | i + 1 => fill' i, ?_, r6'', r7'',
      hr6'', hr7'', ?_⟩
    · intro i ch hch
      cases i with
      | zero =>
        rcases List.mem_append.mp hch with h | h
        · exact hW ch (by simp [h])
        · exact layout_of_blank (indPre_layout hd _ _ ch h)
      | succ i => exact hfill' i ch hch
    · rw [hj, hj', hj'']
      simp only [S, wrappedTextFrom]
      rw [wtf_shift _ fill' (fun i => rfl)]
      simp

end Tumfl.Theory
