import Tumfl.Theory.ParseAgree
/-!
# Non-vacuity of `parse_sound` / `parse_complete` / `parse_accept_iff`
-/
namespace Tumfl.Theory
open Tumfl.Model Tumfl.Spec

def okP (r : Except PyErr (Model.Block × List Hint)) : Bool := match r with | .ok _ => true | .error _ => false
def okS (r : Except SpecErr Spec.Block) : Bool := match r with | .ok _ => true | .error _ => false

theorem exists_of_okP {r : Except PyErr (Model.Block × List Hint)} (h : okP r = true) : ∃ b hs, r = .ok (b, hs) := by
  cases r with
  | error e => exact absurd h (by simp [okP])
  | ok p => exact ⟨p.1, p.2, rfl⟩

theorem exists_of_okS {r : Except SpecErr Spec.Block} (h : okS r = true) : ∃ c, r = .ok c := by
  cases r with
  | error e => exact absurd h (by simp [okS])
  | ok c => exact ⟨c, rfl⟩

/-- Boolean version of "all tokens are in scope" -/
def inScopeB (r : Except LexErr (List Tok)) : Bool :=
  match r with
  | .error _ => true
  | .ok ts => ts.all fun x =>
      match x.tk with
      | .str u => u.all fun y => match y with | .ch c => decide c.isValidChar | .byte _ => false
      | _ => true

theorem inScope_of_inScopeB {src : List Char} (h : inScopeB (Spec.lex src) = true) :
    ∀ ts, Spec.lex src = .ok ts → ∀ x ∈ ts, InScopeTk x.tk := by
  intro ts hl x hx
  rw [hl] at h
  simp only [inScopeB, List.all_eq_true] at h
  have hx' := h x hx
  unfold InScopeTk
  split
  · rename_i u hu
    rw [hu] at hx'
    simp only [List.all_eq_true] at hx'
    intro y hy
    have := hx' y hy
    unfold InScopeUnit
    split
    · simpa using this
    · simp at this
  · trivial

/-! ## a text both parsers accept -/

/-- ```
#!/usr/bin/lua
local x <const>, y = 0x10, 'a\65'
function m.f:g(a, ...) return a .. y, ... end
if x < 2 then x = f(x, {1, k = 2; [3] = 4}) elseif not x then goto l else print 'hi' end
for i = 1, 3 do x = -x ^ 2 * i end ::l::
for k, v in pairs(t) do t[k].z = v:m() end
while true do repeat break until x == nil end
return x;
``` -/
def prog1 : List Char :=
  [
   '#', '!', '/', 'u', 's', 'r', '/', 'b', 'i', 'n', '/', 'l', 'u', 'a', '\n', 'l', 'o', 'c', 'a', 'l',
   ' ', 'x', ' ', '<', 'c', 'o', 'n', 's', 't', '>', ',', ' ', 'y', ' ', '=', ' ', '0', 'x', '1', '0',
   ',', ' ', '\'', 'a', '\\', '6', '5', '\'', '\n', 'f', 'u', 'n', 'c', 't', 'i', 'o', 'n', ' ', 'm', '.',
   'f', ':', 'g', '(', 'a', ',', ' ', '.', '.', '.', ')', ' ', 'r', 'e', 't', 'u', 'r', 'n', ' ', 'a',
   ' ', '.', '.', ' ', 'y', ',', ' ', '.', '.', '.', ' ', 'e', 'n', 'd', '\n', 'i', 'f', ' ', 'x', ' ',
   '<', ' ', '2', ' ', 't', 'h', 'e', 'n', ' ', 'x', ' ', '=', ' ', 'f', '(', 'x', ',', ' ', '{', '1',
   ',', ' ', 'k', ' ', '=', ' ', '2', ';', ' ', '[', '3', ']', ' ', '=', ' ', '4', '}', ')', ' ', 'e',
   'l', 's', 'e', 'i', 'f', ' ', 'n', 'o', 't', ' ', 'x', ' ', 't', 'h', 'e', 'n', ' ', 'g', 'o', 't',
   'o', ' ', 'l', ' ', 'e', 'l', 's', 'e', ' ', 'p', 'r', 'i', 'n', 't', ' ', '\'', 'h', 'i', '\'', ' ',
   'e', 'n', 'd', '\n', 'f', 'o', 'r', ' ', 'i', ' ', '=', ' ', '1', ',', ' ', '3', ' ', 'd', 'o', ' ',
   'x', ' ', '=', ' ', '-', 'x', ' ', '^', ' ', '2', ' ', '*', ' ', 'i', ' ', 'e', 'n', 'd', ' ', ':',
   ':', 'l', ':', ':', '\n', 'f', 'o', 'r', ' ', 'k', ',', ' ', 'v', ' ', 'i', 'n', ' ', 'p', 'a', 'i',
   'r', 's', '(', 't', ')', ' ', 'd', 'o', ' ', 't', '[', 'k', ']', '.', 'z', ' ', '=', ' ', 'v', ':',
   'm', '(', ')', ' ', 'e', 'n', 'd', '\n', 'w', 'h', 'i', 'l', 'e', ' ', 't', 'r', 'u', 'e', ' ', 'd',
   'o', ' ', 'r', 'e', 'p', 'e', 'a', 't', ' ', 'b', 'r', 'e', 'a', 'k', ' ', 'u', 'n', 't', 'i', 'l',
   ' ', 'x', ' ', '=', '=', ' ', 'n', 'i', 'l', ' ', 'e', 'n', 'd', '\n', 'r', 'e', 't', 'u', 'r', 'n',
   ' ', 'x', ';']

theorem prog1_length : prog1.length = 323 := by decide +kernel

/-- (the fuel `5 * length + 64` of `parseText` is turned into a numeral first: the kernel evaluates `List.length` in unary) -/
theorem prog1_model_ok : okP (parseText prog1) = true := by
  rw [parseText_eq_parseTextWith, prog1_length]
  decide +kernel
theorem prog1_ref_ok : okS (Spec.parse prog1) = true := by decide +kernel
theorem prog1_noCR : NoCR prog1 := by unfold NoCR; decide +kernel
theorem prog1_inScope : inScopeB (Spec.lex prog1) = true := by decide +kernel

/-- `parse_sound` applies: the model's tree for `prog1` is related to the tree the reference accepts -/
theorem prog1_sound : ∃ b hs c, parseText prog1 = .ok (b, hs) ∧ Spec.Accepts prog1 c ∧ BlockRel b c := by
  obtain ⟨b, hs, h⟩ := exists_of_okP prog1_model_ok
  obtain ⟨c, hc, hrel⟩ := parse_sound prog1 prog1_noCR b hs h
  exact ⟨b, hs, c, h, hc, hrel⟩

/-- `parse_complete` applies: the tree of the executable reference `Spec.parse` is related to the model's tree -/
theorem prog1_complete : ∃ c b hs, Spec.parse prog1 = .ok c ∧ parseText prog1 = .ok (b, hs) ∧ BlockRel b c := by
  obtain ⟨c, hc⟩ := exists_of_okS prog1_ref_ok
  obtain ⟨b, hs, h, hrel⟩ := parse_complete prog1 c (accepts_of_parse hc) (inScope_of_inScopeB prog1_inScope)
  exact ⟨c, b, hs, hc, h, hrel⟩

/-- the tree is a real one: seven statements and a `return` -/
theorem prog1_shape : ∃ c, Spec.parse prog1 = .ok c ∧
    (match c with | .mk ss r => ss.length = 7 ∧ r.isSome = true) := by
  obtain ⟨c, hc⟩ := exists_of_okS prog1_ref_ok
  refine ⟨c, hc, ?_⟩
  have : (match Spec.parse prog1 with | .ok (.mk ss r) => ss.length == 7 && r.isSome | .error _ => false) = true := by
    decide +kernel
  rw [hc] at this
  cases c
  simpa using this

/-! ## a text the reference rejects: `x = = 1` -/

def bad1 : List Char := ['x', ' ', '=', ' ', '=', ' ', '1']

def isSyntaxErr (r : Except SpecErr Spec.Block) : Bool :=
  match r with
  | .error (.parse m o) => !(m == fuelErr.1 && o == fuelErr.2)
  | _ => false

theorem bad1_ref_error : isSyntaxErr (Spec.parse bad1) = true := by decide +kernel

/-- the reference accepts no tree for `x = = 1`, under any fuel -/
theorem bad1_ref_rejects : ¬ ∃ c, Spec.Accepts bad1 c := by
  have h := bad1_ref_error
  cases hp : Spec.parse bad1 with
  | ok c => rw [hp] at h; cases h
  | error e =>
    refine not_accepts_of_parse_error hp ?_
    rintro rfl
    rw [hp] at h
    simp [isSyntaxErr] at h

/-- hence, by `parse_sound`, the model rejects it too .. -/
theorem bad1_model_rejects : ¬ ∃ b hs, parseText bad1 = .ok (b, hs) := by
  rintro ⟨b, hs, h⟩
  obtain ⟨c, hc, _⟩ := parse_sound bad1 (by unfold NoCR; decide +kernel) b hs h
  exact bad1_ref_rejects ⟨c, hc⟩

/-- .. as evaluation confirms -/
example : okP (parseText bad1) = false := by decide +kernel

/-! ## the extra hypotheses cannot be dropped -/

def okL (r : Except LexErr (List Tok)) : Bool := match r with | .ok _ => true | .error _ => false

/-- `x = "a\rb"` (a raw carriage return inside a quoted string) -/
def cr1 : List Char := ['x', ' ', '=', ' ', '"', 'a', '\r', 'b', '"']

/-- `NoCR` cannot be dropped from `parse_sound`: the model accepts `cr1`, the reference does not even lex it -/
theorem noCR_needed : (∃ b hs, parseText cr1 = .ok (b, hs)) ∧ ¬ ∃ c, Spec.Accepts cr1 c := by
  refine ⟨exists_of_okP (by decide +kernel), ?_⟩
  rintro ⟨c, ts, f, ts', hl, _⟩
  have : okL (Spec.lex cr1) = false := by decide +kernel
  rw [hl] at this
  cases this

/-- `x = "\200"` (a decimal escape denoting the raw byte 200) -/
def byte1 : List Char := ['x', ' ', '=', ' ', '"', '\\', '2', '0', '0', '"']

/-- the scope hypothesis cannot be dropped from `parse_complete`: the reference accepts `byte1` (the string is the raw
byte 200), the model (without `ignore_unicode`) raises a `LexerError` -/
theorem inScope_needed : (∃ c, Spec.Accepts byte1 c) ∧ ¬ ∃ b hs, parseText byte1 = .ok (b, hs) := by
  constructor
  · obtain ⟨c, hc⟩ := exists_of_okS (r := Spec.parse byte1) (by decide +kernel)
    exact ⟨c, accepts_of_parse hc⟩
  · rintro ⟨b, hs, h⟩
    have : okP (parseText byte1) = false := by decide +kernel
    rw [h] at this
    cases this

end Tumfl.Theory
