import Tumfl.Theory.ErrorPosDefs
/-!
# Every lexer error is raised at the position of a state the scanner has been in

`ErrAt P e` : a lexer error `e = .lexer msg line col` carries the `(line, col)` of some state satisfying `P`
(`.py ..` and `.fuel` carry no position; the lexer raises no parser errors).  For every `Stable P` and every
scanner: started in a `P` state, each error satisfies `ErrAt P` - the errors raised with `lexError` at the
current state because every scanner keeps `P`, the errors raised with `lexErrorAt` at a *remembered* position
(`longBody`: the opening bracket; `escapeSeq`: the character after the backslash; `nextTokenLoop`: the start of
the malformed number) because the remembered `(line, col)` were read off a state satisfying `P`.
-/
namespace Tumfl.Theory
open Tumfl.Model

/-- the position carried by a lexer error is that of a `P` state -/
def ErrAt (P : LexSt → Prop) : PyErr → Prop
  | .lexer _ l c => ∃ s0, P s0 ∧ s0.line = l ∧ s0.col = c
  | .py _ _ => True
  | .fuel => True
  | .parser _ _ _ => False
  | .dependency _ _ => False

variable {P : LexSt → Prop}

theorem errAt_lexError {α : Type} {msg : String} {s : LexSt} {e : PyErr} (hs : P s)
    (h : (lexError msg s : Except PyErr α) = .error e) : ErrAt P e := by
  simp only [lexError, Except.error.injEq] at h
  subst h
  exact ⟨s, hs, rfl, rfl⟩

theorem errAt_lexErrorAt {α : Type} {msg : String} {s : LexSt} {e : PyErr} (hs : P s)
    (h : (lexErrorAt msg s.line s.col : Except PyErr α) = .error e) : ErrAt P e := by
  simp only [lexErrorAt, Except.error.injEq] at h
  subst h
  exact ⟨s, hs, rfl, rfl⟩

theorem errAt_py {α : Type} {k site : String} {e : PyErr}
    (h : (Except.error (.py k site) : Except PyErr α) = .error e) : ErrAt P e := by
  cases h; trivial

theorem longBody_errAt {eq : Nat} {s0 : LexSt} (h0 : P s0) :
    ∀ (f : Nat) (s : LexSt) (ce : Option Nat) (acc : List Char) (e : PyErr),
      longBody eq s0.line s0.col f s ce acc = .error e → ErrAt P e
  | 0, s, ce, acc, e, h => by rw [longBody] at h; cases h; trivial
  | f + 1, s, ce, acc, e, h => by
    rw [longBody] at h
    split at h
    · exact errAt_lexErrorAt h0 h
    · split at h
      · cases h
      · exact longBody_errAt h0 f _ _ _ _ h

theorem getLongBrackets_errAt (hP : Stable P) {s : LexSt} {e : PyErr}
    (hs : P s) (h : getLongBrackets s = .error e) : ErrAt P e := by
  unfold getLongBrackets at h
  split at h
  · exact errAt_py h
  · have h2 := countEquals_pres hP ((advance s).rest.length + 1) (advance s) 0 (hP.adv _ hs)
    dsimp only at h
    revert h h2
    generalize countEquals ((advance s).rest.length + 1) (advance s) 0 = p
    obtain ⟨eq, s2⟩ := p
    intro h h2
    simp only at h h2
    split at h
    · exact errAt_lexError h2 h
    · exact longBody_errAt hs _ _ _ _ _ h

theorem skipComment_errAt (hP : Stable P) {s : LexSt} {e : PyErr} (hs : P s) (h : skipComment s = .error e) :
    ErrAt P e := by
  unfold skipComment at h
  split at h
  · exact errAt_py h
  · have hs2 : P (advance (advance s)) := hP.adv _ (hP.adv _ hs)
    dsimp only at h
    split at h
    · split at h
      · rename_i e' heq
        cases h
        exact getLongBrackets_errAt hP hs2 heq
      · cases h
    · revert h
      generalize shortComment ((advance (advance s)).rest.length + 1) (advance (advance s)) [] = p
      obtain ⟨c, s3⟩ := p
      intro h
      cases h

theorem safeDecode_errAt {iu : Bool} {b : Nat} {s : LexSt} {e : PyErr} (hs : P s)
    (h : safeDecode iu b s = .error e) : ErrAt P e := by
  unfold safeDecode at h
  split at h
  · cases h
  · split at h
    · cases h
    · exact errAt_lexError hs h

theorem safeCodePoint_errAt {iu : Bool} {b : Nat} {s : LexSt} {e : PyErr} (hs : P s)
    (h : safeCodePoint iu b s = .error e) : ErrAt P e := by
  unfold safeCodePoint at h
  split at h
  · split at h
    · cases h
    · exact errAt_lexError hs h
  · split at h
    · exact errAt_py h
    · cases h

theorem ddd_aux {iu : Bool} {s X : LexSt} {v : Nat} {msg : String} {e : PyErr} (hs : P s) (hX : P X)
    (h : (if v > 255 then lexErrorAt msg s.line s.col
          else match safeDecode iu v X with
            | .error e => .error e
            | .ok r => .ok (r, X) : Except PyErr (List Char × LexSt)) = .error e) : ErrAt P e := by
  split at h
  · exact errAt_lexErrorAt hs h
  · split at h
    · rename_i e' heq
      cases h
      exact safeDecode_errAt hX heq
    · cases h

theorem escapeSeq_errAt (hP : Stable P) {iu : Bool} {s : LexSt} {e : PyErr}
    (hs : P s) (h : escapeSeq iu s = .error e) : ErrAt P e := by
  unfold escapeSeq at h
  dsimp only at h
  split at h
  · exact errAt_py h
  · split at h
    · cases h
    · split at h
      · -- \x
        split at h
        · exact errAt_lexErrorAt hs h
        · split at h
          · exact errAt_lexErrorAt hs h
          · split at h
            · exact errAt_lexErrorAt hs h
            · split at h
              · exact errAt_lexErrorAt hs h
              · split at h
                · rename_i e' heq
                  cases h
                  exact safeDecode_errAt (hP.adv _ (hP.adv _ (hP.adv _ hs))) heq
                · cases h
      · split at h
        · -- \u
          split at h
          · exact errAt_lexError (hP.adv _ hs) h
          · have h2 := takeWhileIn_pres hP (set := Gen.hexNumber) (lower := false) ((advance (advance s)).rest.length + 1) _ [] (hP.adv _ (hP.adv _ hs))
            revert h h2
            generalize takeWhileIn Gen.hexNumber false ((advance (advance s)).rest.length + 1) (advance (advance s)) [] = p
            obtain ⟨cp, s3⟩ := p
            intro h h2
            dsimp only at h h2
            split at h
            · exact errAt_lexError h2 h
            · split at h
              · exact errAt_lexError h2 h
              · split at h
                · exact errAt_lexError h2 h
                · split at h
                  · rename_i e' heq
                    cases h
                    exact safeCodePoint_errAt (hP.adv _ h2) heq
                  · cases h
        · split at h
          · -- \ddd
            refine ddd_aux hs ?_ h
            have h1 : P (advance s) := hP.adv _ hs
            repeat' split
            all_goals first
              | exact hP.adv _ (hP.adv _ h1)
              | exact hP.adv _ h1
              | exact h1
          · split at h
            · exact errAt_lexErrorAt hs h
            · cases h

theorem stringLoop_errAt (hP : Stable P) {iu : Bool} {q : Char} :
    ∀ (f : Nat) (esc : Bool) (s : LexSt) (acc : List Char) (e : PyErr),
      P s → stringLoop iu q f esc s acc = .error e → ErrAt P e
  | 0, esc, s, acc, e, _, h => by rw [stringLoop] at h; cases h; trivial
  | f + 1, esc, s, acc, e, hs, h => by
    rw [stringLoop] at h
    split at h
    · exact errAt_lexError hs h
    · split at h
      · cases h
      · split at h
        · split at h
          · rename_i e' heq
            cases h
            exact escapeSeq_errAt hP hs heq
          · rename_i r s1 heq
            exact stringLoop_errAt hP f _ _ _ _ (escapeSeq_pres hP hs heq) h
        · split at h
          · exact stringLoop_errAt hP f _ _ _ _ (hP.adv _ hs) h
          · split at h
            · exact errAt_lexError hs h
            · exact stringLoop_errAt hP f _ _ _ _ (hP.adv _ hs) h

theorem getString_errAt (hP : Stable P) {iu : Bool} {s : LexSt} {e : PyErr}
    (hs : P s) (h : getString iu s = .error e) : ErrAt P e := by
  unfold getString at h
  split at h
  · split at h
    · exact stringLoop_errAt hP _ _ _ _ _ (hP.adv _ hs) h
    · exact errAt_py h
  · exact errAt_py h

theorem getName_errAt {s : LexSt} {e : PyErr} (h : getName s = .error e) : ErrAt P e := by
  unfold getName at h
  split at h
  · exact errAt_py h
  · cases h

theorem nextTokenLoop_errAt (hP : Stable P) {cfg : LexCfg} : ∀ (f : Nat) (s : LexSt) (e : PyErr),
    P s → nextTokenLoop cfg f s = .error e → ErrAt P e
  | 0, s, e, _, h => by rw [nextTokenLoop] at h; cases h; trivial
  | f + 1, s, e, hs, h => by
    rw [nextTokenLoop] at h
    split at h
    · simp only [tokenArgs] at h
      cases h
    · rename_i c hcur
      split at h
      · exact nextTokenLoop_errAt hP f _ _ (skipWhitespace_pres hP _ _ hs) h
      · split at h
        · split at h
          · rename_i e' heq
            cases h
            exact skipComment_errAt hP hs heq
          · rename_i s1 heq
            exact nextTokenLoop_errAt hP f _ _ (skipComment_pres hP hs heq) h
        · have hs0 : P { s with comments := [] } := hP.com _ _ hs
          simp only [tokenArgs] at h
          split at h
          · -- name
            split at h
            · rename_i e' heq
              cases h
              exact getName_errAt heq
            · split at h <;> cases h
          · rcases ite_cases h with ⟨_, h⟩ | ⟨_, h⟩
            · -- number
              rcases ite_cases h with ⟨_, h⟩ | ⟨_, h⟩
              · simp only [lexErrorAt, Except.error.injEq] at h
                subst h
                exact ⟨s, hs, by simp, by simp⟩
              · cases h
            · rcases ite_cases h with ⟨_, h⟩ | ⟨_, h⟩
              · -- string
                split at h
                · rename_i e' heq
                  cases h
                  exact getString_errAt hP hs0 heq
                · cases h
              · rcases ite_cases h with ⟨_, h⟩ | ⟨_, h⟩
                · -- long bracket
                  split at h
                  · rename_i e' heq
                    cases h
                    exact getLongBrackets_errAt hP hs0 heq
                  · cases h
                · rcases ite_cases h with ⟨_, h⟩ | ⟨_, h⟩
                  · rcases ite_cases h with ⟨_, h⟩ | ⟨_, h⟩ <;> cases h
                  · split at h
                    · cases h
                    · split at h
                      · cases h
                      · exact errAt_lexError hs0 h

theorem getNextToken_errAt (hP : Stable P) {cfg : LexCfg} {s : LexSt} {e : PyErr}
    (hs : P s) (h : getNextToken cfg s = .error e) : ErrAt P e := by
  unfold getNextToken at h
  refine nextTokenLoop_errAt hP _ _ _ ?_ h
  split
  · exact skipShebang_pres hP _ _ hs
  · exact hs

theorem lexAll_errAt (hP : Stable P) {cfg : LexCfg} : ∀ (f : Nat) (s : LexSt) (e : PyErr),
    P s → lexAll cfg f s = .error e → ErrAt P e
  | 0, s, e, _, h => by rw [lexAll] at h; cases h; trivial
  | f + 1, s, e, hs, h => by
    rw [lexAll] at h
    split at h
    · rename_i e' heq
      cases h
      exact getNextToken_errAt hP hs heq
    · rename_i t s1 heq
      split at h
      · cases h
      · cases hr : lexAll cfg f s1 with
        | error e' =>
          rw [hr] at h
          cases h
          exact lexAll_errAt hP f s1 _ (getNextToken_core hP hs heq).1 hr
        | ok r => rw [hr] at h; cases h

end Tumfl.Theory
