import Tumfl.Theory.ResolveSpec
/-!
# Dependency resolver: the main mutual induction (postcondition + error classification)

`resolve_spec`: for every fuel and every function of the `resolve*` family, a successful run returns a tree without a
`require(<string literal>)` call (`hasRequire* = false`), and a failing run fails with a `RGoodErr`
(`InvalidDependencyError`, a parser error on a file of `fs`, or fuel exhaustion).
-/
namespace Tumfl.Theory
open Tumfl.Model

def RGoodErr (fs : FS) (e : PyErr) : Prop :=
  (∃ m t, e = .dependency m t) ∨ (∃ p text, fs.read p = some text ∧ parseText text = .error e) ∨ e = .fuel

theorem RGoodErr.fuel {fs : FS} : RGoodErr fs .fuel := Or.inr (Or.inr rfl)
theorem RGoodErr.dep {fs : FS} {m : String} {t : Token} : RGoodErr fs (.dependency m t) := Or.inl ⟨m, t, rfl⟩

theorem getDependencyPath_spec (fs : FS) (sp : List Path) (name : List Char) (dir : Path) (t : Token) (dedup : Bool) :
    Spec (getDependencyPath fs sp name dir t dedup)
      (fun p => (dedup = false → p ≠ none) ∧ ∀ path, p = some path → findFileInPath fs sp name dir = some path)
      (fun e => e = .dependency "Could not find dependency" t ∧ findFileInPath fs sp name dir = none) := by
  intro st
  unfold getDependencyPath
  cases h : findFileInPath fs sp name dir with
  | none => 
    refine ⟨?_, ?_⟩
    · intro a st' h'; cases h'
    · intro e h'; cases h'; exact ⟨rfl, rfl⟩
  | some p =>
    refine ⟨?_, ?_⟩
    · intro a st' h'
      simp only at h'
      split at h'
      · cases h'
        rename_i hc
        refine ⟨?_, ?_⟩
        · intro hd; subst hd; simp at hc
        · intro path hp; cases hp
      · cases h'
        refine ⟨?_, ?_⟩
        · intro _; simp
        · intro path hp; cases hp; rfl
    · intro e h'
      simp only at h'
      split at h' <;> cases h'

theorem parseFile_spec (fs : FS) (p : Path) (hp : fs.isFile p = true) :
    Spec (parseFile fs p) (fun _ => True) (RGoodErr fs) := by
  intro st
  unfold parseFile
  unfold FS.isFile at hp
  cases h : fs.read p with
  | none => unfold FS.read at h; simp [h] at hp
  | some text =>
    refine ⟨fun _ _ _ => trivial, ?_⟩
    intro e h'
    simp only at h'
    cases hpt : parseText text with
    | error e' =>
      rw [hpt] at h'
      cases h'
      exact Or.inr (Or.inl ⟨p, text, h, hpt⟩)
    | ok r =>
      rw [hpt] at h'
      cases h'

theorem findFileInPath_isFile {fs : FS} {sp : List Path} {name : List Char} {dir p : Path}
    (h : findFileInPath fs sp name dir = some p) : fs.isFile p = true := by
  rw [findFileInPath_eq] at h
  split at h
  · cases h
  · exact List.find?_some h

theorem getDep_spec' (fs : FS) (sp : List Path) (name : List Char) (dir : Path) (t : Token) (dedup : Bool) :
    Spec (getDependencyPath fs sp name dir t dedup)
      (fun p => (dedup = false → p ≠ none) ∧ ∀ path, p = some path → fs.isFile path = true) (RGoodErr fs) :=
  (getDependencyPath_spec fs sp name dir t dedup).mono
    (fun _ h => ⟨h.1, fun path hp => findFileInPath_isFile (h.2 path hp)⟩)
    (fun _ h => h.1 ▸ RGoodErr.dep)

set_option hygiene false in
macro "spec_ih" : tactic => `(tactic|
  first | exact ihE _ _ | exact ihEs _ _ | exact ihFs _ _ | exact ihB _ _ | exact ihSs _ _ | exact ihO _ _
        | exact ihS _ _ | exact ihF _ _)

set_option hygiene false in
macro "spec_steps" : tactic => `(tactic|
  repeat (first
    | (refine Spec.bind (by spec_ih) ?_; intro _ _)
    | (apply Spec.pure; simp_all [hasRequireExpr, hasRequireExprs, hasRequireOptExpr, hasRequireOptExprs, hasRequireField,
        hasRequireFields, hasRequireStmt, hasRequireStmts, hasRequireFalse, hasRequireBlock, isRequireName, isReqLit])))

theorem resolve_spec (fs : FS) (sp : List Path) : ∀ f : Nat,
    (∀ dir e, Spec (resolveExpr fs sp f dir e)
        (fun e' => hasRequireExpr e' = false ∧ isRequireName e' = isRequireName e) (RGoodErr fs)) ∧
    (∀ dir es, Spec (resolveExprs fs sp f dir es) (fun es' => hasRequireExprs es' = false) (RGoodErr fs)) ∧
    (∀ dir fds, Spec (resolveFields fs sp f dir fds) (fun fds' => hasRequireFields fds' = false) (RGoodErr fs)) ∧
    (∀ dir b, Spec (resolveBlock fs sp f dir b) (fun b' => hasRequireBlock b' = false) (RGoodErr fs)) ∧
    (∀ dir ss, Spec (resolveStmts fs sp f dir ss) (fun ss' => hasRequireStmts ss' = false) (RGoodErr fs)) ∧
    (∀ dir o, Spec (resolveOptExpr fs sp f dir o) (fun o' => hasRequireOptExpr o' = false) (RGoodErr fs)) ∧
    (∀ dir s, Spec (resolveStmt fs sp f dir s) (fun s' => hasRequireStmt s' = false) (RGoodErr fs)) ∧
    (∀ dir fl, Spec (resolveFalse fs sp f dir fl) (fun fl' => hasRequireFalse fl' = false) (RGoodErr fs)) := by
  intro f
  induction f with
  | zero =>
    refine ⟨?_, ?_, ?_, ?_, ?_, ?_, ?_, ?_⟩ <;> intro dir x
    · rw [resolveExpr]; exact Spec.rfuel RGoodErr.fuel
    · rw [resolveExprs]; exact Spec.rfuel RGoodErr.fuel
    · rw [resolveFields]; exact Spec.rfuel RGoodErr.fuel
    · rw [resolveBlock]; exact Spec.rfuel RGoodErr.fuel
    · rw [resolveStmts]; exact Spec.rfuel RGoodErr.fuel
    · rw [resolveOptExpr]; exact Spec.rfuel RGoodErr.fuel
    · rw [resolveStmt]; exact Spec.rfuel RGoodErr.fuel
    · rw [resolveFalse]; exact Spec.rfuel RGoodErr.fuel
  | succ f ih =>
    obtain ⟨ihE, ihEs, ihFs, ihB, ihSs, ihO, ihS, ihF⟩ := ih
    refine ⟨?_, ?_, ?_, ?_, ?_, ?_, ?_, ?_⟩
    · intro dir e
      cases e <;> simp only [resolveExpr]
      all_goals try (spec_steps; done)
      rename_i t fn args
      cases hreq : isRequireName fn
      · simp only [Bool.false_eq_true, if_false]
        spec_steps
      · simp only [if_true]
        split
        · refine Spec.bind (getDep_spec' _ _ _ _ _ _) ?_
          intro p hp
          cases p with
          | none => exact absurd rfl (hp.1 rfl)
          | some path =>
            simp only
            refine Spec.bind (parseFile_spec fs path (hp.2 _ rfl)) ?_
            intro ast _
            spec_steps
        · exact Spec.rthrow RGoodErr.dep
    · intro dir es
      cases es <;> simp only [resolveExprs] <;> spec_steps
    · intro dir fds
      cases fds with
      | nil => simp only [resolveFields]; spec_steps
      | cons fd rest =>
        simp only [resolveFields]
        refine Spec.bind (P := fun fd' => hasRequireField fd' = false) ?_ ?_
        · cases fd <;> simp only <;> spec_steps
        · intro _ _; spec_steps
    · intro dir b
      obtain ⟨t, ss, rs, c⟩ := b
      simp only [resolveBlock]
      refine Spec.bind (by spec_ih) ?_
      intro _ _
      refine Spec.bind (P := fun rs' => hasRequireOptExprs rs' = false) ?_ ?_
      · cases rs <;> simp only <;> spec_steps
      · intro _ _; spec_steps
    · intro dir ss
      cases ss <;> simp only [resolveStmts] <;> spec_steps
    · intro dir o
      cases o <;> simp only [resolveOptExpr] <;> spec_steps
    · intro dir s
      cases s <;> simp only [resolveStmt]
      all_goals try (spec_steps; done)
      · rename_i t fn args
        cases hreq : isRequireName fn
        · simp only [Bool.false_eq_true, if_false]
          spec_steps
        · simp only [if_true]
          split
          · refine Spec.bind (getDep_spec' _ _ _ _ _ _) ?_
            intro p hp
            cases p with
            | none => simp only; spec_steps
            | some path =>
              simp only
              refine Spec.bind (parseFile_spec fs path (hp.2 _ rfl)) ?_
              intro ast _
              spec_steps
          · exact Spec.rthrow RGoodErr.dep
      · rename_i t ns es
        refine Spec.bind (P := fun rs' => hasRequireOptExprs rs' = false) ?_ ?_
        · cases es <;> simp only <;> spec_steps
        · intro _ _; spec_steps
    · intro dir fl
      cases fl <;> simp only [resolveFalse] <;> spec_steps
