import Tumfl.Theory.FormatTextDL
import Tumfl.Theory.FormatTextRS
import Tumfl.Theory.FormatTextRsl
/-!
# Glue for the main theorem: weak start states, dropped separators, trailing commas
-/
namespace Tumfl.Theory
open Tumfl Tumfl.Model

/-! ## the check does not depend on how a token-free state came about -/

def Weak (σ : DS) : Prop :=
  σ.tok = none ∧ σ.near ≠ .str ∧ (σ.last = .start ∨ σ.last = .other ∨ σ.last = .indent)

theorem disc_weak : ∀ (ps : Pieces) (σ σ' : DS), Weak σ → Weak σ' → Disc σ ps → Disc σ' ps
  | [], _, _, _, _, _ => trivial
  | p :: ps, σ, σ', hw, hw', hd => by
    obtain ⟨hok, hrest⟩ := hd
    have hl : ∀ {τ : DS}, Weak τ → τ.last ≠ .comShort ∧ τ.last ≠ .dot ∧ (∀ b, τ.last ≠ .tok b) := by
      intro τ h
      rcases h.2.2 with e | e | e <;> rw [e] <;> simp
    have hfoll : ∀ s, Foll σ' s := fun s x hx => by rw [hw'.1] at hx; cases hx
    cases p with
    | str s =>
      have hadv : adv σ (.str s) = adv σ' (.str s) := by simp only [adv]
      refine ⟨?_, by rw [← hadv]; exact hrest⟩
      simp only [okPiece] at hok ⊢
      split
      · rename_i hc
        rw [if_pos hc] at hok
        exact ⟨(hl hw').1, (hl hw').2.1, hok.2.2.1, hfoll s⟩
      · rename_i hc
        rw [if_neg hc] at hok
        exact ⟨(hl hw').1, hok.2.1, hfoll s, fun e => by
          obtain ⟨b, hb⟩ := hok.2.2.2 e
          exact absurd hb ((hl hw).2.2 b)⟩
    | sep k =>
      cases k with
      | dot =>
        obtain ⟨_, x, hx, _⟩ := hok
        rw [hw.1] at hx; cases hx
      | argument =>
        have : σ.last = .tok false := hok
        exact absurd this ((hl hw).2.2 false)
      | space => exact ⟨⟨(hl hw').1, (hl hw').2.1⟩, by simpa [adv, hw.1, hw'.1] using hrest⟩
      | block => exact ⟨⟨(hl hw').1, (hl hw').2.1⟩, by simpa [adv, hw.1, hw'.1] using hrest⟩
      | statement =>
        exact ⟨⟨(hl hw').1, (hl hw').2.1, fun _ => hw'.2.1⟩, by simpa [adv, hw.1, hw'.1] using hrest⟩
      | newline => exact ⟨(hl hw').2.1, by simpa [adv] using hrest⟩
      | indent =>
        refine ⟨⟨(hl hw').1, (hl hw').2.1⟩, disc_weak ps _ _ ?_ ?_ hrest⟩
        · exact ⟨hw.1, hw.2.1, .inr (.inr rfl)⟩
        · exact ⟨hw'.1, hw'.2.1, .inr (.inr rfl)⟩
      | deindent =>
        refine ⟨⟨(hl hw').1, (hl hw').2.1⟩, disc_weak ps _ _ ?_ ?_ hrest⟩
        · exact ⟨hw.1, hw.2.1, .inr (.inr rfl)⟩
        · exact ⟨hw'.1, hw'.2.1, .inr (.inr rfl)⟩

/-! ## dropped Space / Statement / Block separators -/

/-- `b` is `a` without some of its Space / Statement / Block separators -/
inductive SoftDrop : Pieces → Pieces → Prop
  | nil : SoftDrop [] []
  | keep (p : Piece) {a b : Pieces} : SoftDrop a b → SoftDrop (p :: a) (p :: b)
  | drop {x : Piece} {a b : Pieces} : keepRS x = false → SoftDrop a b → SoftDrop (x :: a) b

theorem SoftDrop.refl : ∀ a : Pieces, SoftDrop a a
  | [] => .nil
  | p :: a => .keep p (SoftDrop.refl a)

theorem softDrop_read {a b : Pieces} (h : SoftDrop a b) : ∀ ks, ReadTks b ks → ReadTks a ks := by
  induction h with
  | nil => exact fun _ h => h
  | keep p _ ih => exact fun ks hk => readTks_cons_mono ih hk
  | drop hx _ ih => exact fun ks hk => readTks_drop hx (ih ks hk)

theorem softDrop_snoc {a b : Pieces} (h : SoftDrop a b) (p : Piece) : SoftDrop (a ++ [p]) (b ++ [p]) := by
  induction h with
  | nil => exact .keep p .nil
  | keep q _ ih => exact .keep q ih
  | drop hx _ ih => exact .drop hx ih

theorem softDrop_mem {a b : Pieces} (h : SoftDrop a b) : ∀ p ∈ b, p ∈ a := by
  induction h with
  | nil => exact fun _ h => h
  | keep q _ ih =>
    intro p hp
    rcases List.mem_cons.mp hp with rfl | hp
    · simp
    · exact List.mem_cons_of_mem _ (ih p hp)
  | drop _ _ ih => exact fun p hp => List.mem_cons_of_mem _ (ih p hp)

theorem rs_softDrop : ∀ (xs rp out : Pieces), removeSepsFrom rp xs = .ok out →
    ∃ body, out = body ++ [P "/"] ∧ SoftDrop xs body
  | [], rp, out, h => by
    rw [removeSepsFrom] at h
    exact ⟨[], by simpa using h.symm, .nil⟩
  | x :: xs, rp, out, h => by
    obtain ⟨suf, hs, hout⟩ := removeSepsFrom_cons h
    obtain ⟨body, rfl, hb⟩ := rs_softDrop xs _ _ hs
    rcases hout with rfl | ⟨rfl, hx⟩
    · exact ⟨x :: body, rfl, .keep x hb⟩
    · exact ⟨body, rfl, .drop hx hb⟩

theorem removeSeparators_softDrop {ts ts' : Pieces} (h : removeSeparators ts = .ok ts') : SoftDrop ts ts' := by
  cases ts with
  | nil => simp [removeSeparators] at h; subst h; exact .nil
  | cons x0 xs =>
    simp only [removeSeparators] at h
    obtain ⟨suf, hs, h⟩ := lk_bind_ok h
    obtain ⟨body, rfl, hb⟩ := rs_softDrop _ _ _ hs
    simp at h; subst h
    exact .keep x0 hb

/-! ## trailing commas -/

theorem tc_cons_inv {p : Piece} {b Lb : Pieces} (h : TC (p :: b) Lb) :
    ∃ n Lb', Lb = List.replicate n (.sep .argument) ++ p :: Lb' ∧ TC b Lb' ∧ (0 < n → p = .str ['}']) := by
  generalize hx : p :: b = x at h
  induction h with
  | nil => cases hx
  | keep q ht _ => cases hx; exact ⟨0, _, rfl, ht, fun h => by omega⟩
  | comma _ ih =>
    obtain ⟨n, Lb', rfl, ht, _⟩ := ih hx
    cases hx
    exact ⟨n + 1, Lb', by simp [List.replicate_succ], ht, fun _ => rfl⟩

theorem tc_commas : ∀ (n : Nat) {a L : Pieces}, TC (.str ['}'] :: a) L →
    TC (.str ['}'] :: a) (List.replicate n (.sep .argument) ++ L)
  | 0, _, _, h => h
  | n + 1, _, _, h => by rw [List.replicate_succ, List.cons_append]; exact .comma (tc_commas n h)

theorem softDrop_replicate_keep : ∀ (n : Nat) (x : Piece) {a b : Pieces}, SoftDrop a b →
    SoftDrop (List.replicate n x ++ a) (List.replicate n x ++ b)
  | 0, _, _, _, h => h
  | n + 1, x, _, _, h => by rw [List.replicate_succ, List.cons_append, List.cons_append]; exact .keep x (softDrop_replicate_keep n x h)

/-- the trailing commas of the shorter list can be put into the longer one -/
theorem tc_softDrop {a b : Pieces} (h : SoftDrop a b) : ∀ {Lb : Pieces}, TC b Lb → ∃ La, TC a La ∧ SoftDrop La Lb := by
  induction h with
  | nil =>
    intro Lb ht
    cases ht
    exact ⟨[], .nil, .nil⟩
  | @keep p a b _ ih =>
    intro Lb ht
    obtain ⟨n, Lb', rfl, ht', hn⟩ := tc_cons_inv ht
    obtain ⟨La', h1, h2⟩ := ih ht'
    refine ⟨List.replicate n (.sep .argument) ++ p :: La', ?_, softDrop_replicate_keep n _ (.keep p h2)⟩
    cases n with
    | zero => exact .keep p h1
    | succ n =>
      have := hn (by omega)
      subst this
      exact tc_commas (n + 1) (.keep _ h1)
  | @drop x a b hx _ ih =>
    intro Lb ht
    obtain ⟨La', h1, h2⟩ := ih ht
    exact ⟨x :: La', .keep x h1, .drop hx h2⟩

/-- the guarded trailing commas of the shorter list can be put into the longer one -/
theorem tcgd_softDrop {a b : Pieces} (h : SoftDrop a b) : ∀ {p : Option (List Char)} {Lb : Pieces}, TCgd p b Lb →
    ∃ La, TCgd p a La ∧ SoftDrop La Lb := by
  induction h with
  | nil =>
    intro p Lb ht
    cases ht
    exact ⟨[], .nil, .nil⟩
  | @keep x a b _ ih =>
    intro p Lb ht
    cases ht with
    | str s ht' =>
      obtain ⟨La', h1, h2⟩ := ih ht'
      exact ⟨_, .str s h1, .keep _ h2⟩
    | arg ht' =>
      obtain ⟨La', h1, h2⟩ := ih ht'
      exact ⟨_, .arg h1, .keep _ h2⟩
    | sep k hk ht' =>
      obtain ⟨La', h1, h2⟩ := ih ht'
      exact ⟨_, .sep k hk h1, .keep _ h2⟩
    | comma hs ht' =>
      cases ht' with
      | str s ht'' =>
        obtain ⟨La', h1, h2⟩ := ih ht''
        exact ⟨_, .comma hs (.str _ h1), .keep _ (.keep _ h2)⟩
  | @drop x a b hx _ ih =>
    intro p Lb ht
    obtain ⟨La', h1, h2⟩ := ih ht
    rcases keepRS_eq_false.mp hx with rfl | rfl | rfl
    · exact ⟨_, .sep _ (by decide) h1, .drop hx h2⟩
    · exact ⟨_, .sep _ (by decide) h1, .drop hx h2⟩
    · exact ⟨_, .sep _ (by decide) h1, .drop hx h2⟩

theorem tc_mem {a L : Pieces} (h : TC a L) : ∀ s, .str s ∈ L → .str s ∈ a := by
  induction h with
  | nil => exact fun _ h => h
  | keep p _ ih =>
    intro s hs
    rcases List.mem_cons.mp hs with e | hs
    · rw [← e]; simp
    · exact List.mem_cons_of_mem _ (ih s hs)
  | comma _ ih =>
    intro s hs
    rcases List.mem_cons.mp hs with e | hs
    · cases e
    · exact ih s hs

theorem comStrs_tc {a L : Pieces} (h : TC a L) : comStrs L = comStrs a := by
  induction h with
  | nil => rfl
  | keep p _ ih =>
    cases p with
    | str s => rw [comStrs_cons_str, comStrs_cons_str, ih]
    | sep k => rw [comStrs_cons_sep, comStrs_cons_sep, ih]
  | comma _ ih => rw [comStrs_cons_sep, ih]

theorem comStrs_softDrop {a b : Pieces} (h : SoftDrop a b) : comStrs a = comStrs b := by
  induction h with
  | nil => rfl
  | keep p _ ih =>
    cases p with
    | str s => rw [comStrs_cons_str, comStrs_cons_str, ih]
    | sep k => rw [comStrs_cons_sep, comStrs_cons_sep, ih]
  | drop hx _ ih =>
    rcases keepRS_eq_false.mp hx with rfl | rfl | rfl <;> rw [comStrs_cons_sep, ih]

end Tumfl.Theory
