import Tumfl.Theory.UnlexEndStr
import Tumfl.Theory.UnlexEndSym
/-!
# Unlex, part 0d: the one-token function of the reference lexer is local

`lexOne_end`: if `lexOne` reads `tk` from `a ++ " "` and stops in front of the blank, it reads `tk` from `a` and stops at the
end of the text.  Consequently (`ReadsAs.end_`) a robust spelling `ReadsAs a tk` is also read at the very end of a text, a case
that `ReadsAs` itself does not cover (`sepRequired a []` is an `IndexError`, so its third clause is vacuous for `b = []`).
-/
namespace Tumfl.Theory
open Tumfl Tumfl.Spec Tumfl.Model

theorem hexTail_blank (c : Char) (cs : List Char) : hexTail c (cs ++ [' ']) = (hexTail c cs).map blankR := by
  unfold hexTail
  by_cases h0 : (c == '0') = true
  · simp only [h0, if_true]
    cases cs with
    | nil => simp
    | cons x r =>
      simp only [List.cons_append]
      by_cases hx : (x == 'x' || x == 'X') = true
      · simp only [hx, if_true]; rfl
      · simp only [hx, Bool.false_eq_true, if_false]; rfl
  · simp only [h0, Bool.false_eq_true, if_false]; rfl

theorem numScan_end_blank (c : Char) (cs : List Char) (h : (numScan c (cs ++ [' '])).2 = [' ']) :
    numScan c cs = ((numScan c (cs ++ [' '])).1, []) := by
  unfold numScan at h ⊢
  rw [hexTail_blank] at h ⊢
  cases hh : hexTail c cs with
  | none =>
    rw [hh] at h
    simp only [Option.map_none] at h ⊢
    have := numBuf_end_blank expoDec (by decide) (cs.length + 1 + 1) ((cs ++ [' ']).length + 1 + 1) (c :: cs) (by simp)
      (by rw [List.cons_append]; exact h)
    rw [List.cons_append] at this
    rw [this]
  | some p =>
    obtain ⟨x, r⟩ := p
    rw [hh] at h
    simp only [Option.map_some, blankR] at h ⊢
    have := numBuf_end_blank expoHex (by decide) (r.length + 1) ((r ++ [' ']).length + 1) r (by simp) h
    rw [this]

theorem nextIsDigit_blank (cs : List Char) : nextIsDigit (cs ++ [' ']) = nextIsDigit cs := by
  cases cs with
  | nil => decide
  | cons d t => rfl

theorem lexOne_blank : lexOne [' '] = none := by
  rw [lexOne_cons, symAt_guard ' ' [] (by decide)]
  decide

/-- **Locality of `lexOne`**: a token read from `a ++ " "` up to the blank is read from `a` up to the end. -/
theorem lexOne_end (a : List Char) (tk : Tk) (h : lexOne (a ++ [' ']) = some (tk, [' '])) : lexOne a = some (tk, []) := by
  cases a with
  | nil => rw [List.nil_append, lexOne_blank] at h; cases h
  | cons c cs =>
    rw [List.cons_append, lexOne_cons] at h
    rw [lexOne_cons]
    by_cases ha : isAlpha c = true
    · simp only [ha, if_true, Option.some.injEq, Prod.mk.injEq] at h ⊢
      obtain ⟨h1, h2⟩ := h
      have hsp : spanP isAlnum (c :: (cs ++ [' '])) =
          ((spanName (c :: (cs ++ [' ']))).1, (spanName (c :: (cs ++ [' ']))).2) := rfl
      obtain ⟨e1, e2, _⟩ := spanP_inv isAlnum (c :: (cs ++ [' '])) _ _ hsp
      rw [h2] at e1
      have e3 : (spanName (c :: (cs ++ [' ']))).1 = c :: cs :=
        (List.append_cancel_right (bs := [' ']) (by simpa using e1)).symm
      rw [e3] at h1 e2
      have : spanName (c :: cs) = (c :: cs, []) := spanP_all isAlnum _ e2
      rw [this]
      exact ⟨h1, rfl⟩
    simp only [ha, Bool.false_eq_true, if_false] at h ⊢
    rw [nextIsDigit_blank] at h
    by_cases hn : (isDigit c || (c == '.' && nextIsDigit cs)) = true
    · simp only [hn, if_true] at h ⊢
      cases hp : parseNumeral (numScan c (cs ++ [' '])).1 with
      | none => rw [hp] at h; cases h
      | some nm =>
        rw [hp] at h
        simp only [Option.map_some, Option.some.injEq, Prod.mk.injEq] at h
        obtain ⟨h1, h2⟩ := h
        rw [numScan_end_blank c cs h2]
        simp only [hp, Option.map_some, h1]
    simp only [hn, Bool.false_eq_true, if_false] at h ⊢
    by_cases hq : (c == '"' || c == '\'') = true
    · simp only [hq, if_true] at h ⊢
      have hq' : c = '"' ∨ c = '\'' := by simpa using hq
      cases hs : strBody c ((cs ++ [' ']).length + 1) (cs ++ [' ']) with
      | none => rw [hs] at h; cases h
      | some p =>
        obtain ⟨v, r⟩ := p
        rw [hs] at h
        simp only [Option.map_some, Option.some.injEq, Prod.mk.injEq] at h
        obtain ⟨h1, rfl⟩ := h
        rw [strBody_end_blank c hq' _ (cs.length + 1) cs v (by simp) hs]
        simp only [Option.map_some, h1]
    simp only [hq, Bool.false_eq_true, if_false] at h ⊢
    cases hsy : symAt (c :: (cs ++ [' '])) with
    | some p =>
      obtain ⟨s, r⟩ := p
      rw [hsy] at h
      simp only [Option.some.injEq, Prod.mk.injEq] at h
      obtain ⟨h1, rfl⟩ := h
      have := symAt_end_blank (c :: cs) s (by rw [List.cons_append]; exact hsy)
      rw [this]
      simp only [h1]
    | none =>
      rw [hsy] at h
      simp only at h
      by_cases hb : (c == '[') = true
      · simp only [hb, if_true] at h ⊢
        have hb' : c = '[' := by simpa using hb
        subst hb'
        unfold longTk at h ⊢
        rw [← List.cons_append, longOpener_blank] at h
        cases ho : longOpener ('[' :: cs) with
        | none => rw [ho] at h; cases h
        | some p =>
          obtain ⟨lvl, body⟩ := p
          rw [ho] at h
          simp only [Option.map_some, blankR] at h ⊢
          have hhead : cs.head? = some '[' ∨ cs.head? = some '=' := by
            by_cases h1 : cs.head? = some '['
            · exact Or.inl h1
            · by_cases h2 : cs.head? = some '='
              · exact Or.inr h2
              · rw [longOpener_none' cs h1 h2] at ho; cases ho
          rw [symAt_long cs hhead]
          simp only
          by_cases hbody : body = []
          · subst hbody
            rw [List.nil_append, dropFirstNewline_ne (by decide), ← List.nil_append [' '], longBody_blank,
              spec_longBody_nil] at h
            cases h
          · rw [dropFirstNewline_blank body hbody, longBody_blank] at h
            cases hl : longBody lvl (dropFirstNewline body) with
            | none => rw [hl] at h; cases h
            | some p =>
              obtain ⟨p1, p2⟩ := p
              rw [hl] at h
              simp only [Option.map_some, blankR, Option.some.injEq, Prod.mk.injEq] at h ⊢
              obtain ⟨h1, h2⟩ := h
              exact ⟨h1, append_blank_eq_blank h2⟩
      · simp only [hb, Bool.false_eq_true, if_false] at h; cases h

end Tumfl.Theory
