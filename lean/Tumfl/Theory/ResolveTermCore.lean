import Tumfl.Theory.ResolveTermGrow
import Tumfl.Theory.ParserFuel
/-!
# Termination of the dependency resolver: the fuel bound

`RNF fs k x`: started in a state with at most `k` unfound files, `x` does not run out of fuel.

The potential of a resolver call on a subtree `n` of file `p`, in a state with at most `k` unfound files, is

    depth n + W k r        where   W k r = (k * (R + 1) + r) * D,

`r` bounds the rank of every file an expression-level `require` inside `n` can lead to (`Bnd`), `R` bounds the rank of
all files and `D` the depth of all parsed files.  Every recursive call of the resolver lowers the potential by at least
one: inside a tree the depth drops; an expression-level `require` drops `r` (and pays `D` for the new tree); a
statement-level `require` of an unfound file drops `k` (and pays `D`, and `r` is reset to at most `R`).
-/
namespace Tumfl.Theory
open Tumfl.Model

/-! ## The calculus -/

def RNF {α : Type} (fs : FS) (k : Nat) (x : RM α) : Prop := ∀ st, unfound fs st ≤ k → x st ≠ .error .fuel

theorem RNF.pure {α : Type} {fs : FS} {k : Nat} {a : α} : RNF fs k (Pure.pure a : RM α) := by
  intro st _ h; cases h

theorem RNF.rthrow {α : Type} {fs : FS} {k : Nat} {e : PyErr} (he : e ≠ .fuel) : RNF fs k (rthrow e : RM α) := by
  intro st _ h; cases h; exact he rfl

/-- bind with a postcondition on the first computation -/
theorem RNF.bindQ {α β : Type} {fs : FS} {k : Nat} {x : RM α} {g : α → RM β} (Q : α → RSt → Prop)
    (hx : RNF fs k x) (hQ : ∀ st a st', unfound fs st ≤ k → x st = .ok (a, st') → Q a st')
    (hg : ∀ a st', Q a st' → g a st' ≠ .error .fuel) : RNF fs k (x >>= g) := by
  intro st hst
  show StateT.bind x g st ≠ _
  unfold StateT.bind
  cases h : x st with
  | error e =>
    intro h'
    apply hx st hst
    rw [h]
    have h'' : (Except.error e : Except PyErr (β × RSt)) = .error .fuel := h'
    cases h''
    rfl
  | ok r =>
    obtain ⟨a, s⟩ := r
    exact hg a s (hQ st a s hst h)

theorem RNF.bind {α β : Type} {fs : FS} {k : Nat} {x : RM α} {g : α → RM β}
    (hx : RNF fs k x) (gx : Grow x) (hg : ∀ a, RNF fs k (g a)) : RNF fs k (x >>= g) :=
  RNF.bindQ (fun _ st' => unfound fs st' ≤ k) hx
    (fun _ _ _ hst h => Nat.le_trans (gx.unfound_le fs h) hst) (fun a st' h => hg a st' h)

/-- bind with a postcondition on the value only -/
theorem RNF.bindP {α β : Type} {fs : FS} {k : Nat} {x : RM α} {g : α → RM β} (P : α → Prop)
    (hx : RNF fs k x) (gx : Grow x) (hP : ∀ st a st', x st = .ok (a, st') → P a)
    (hg : ∀ a, P a → RNF fs k (g a)) : RNF fs k (x >>= g) :=
  RNF.bindQ (fun a st' => P a ∧ unfound fs st' ≤ k) hx
    (fun st a st' hst h => ⟨hP st a st' h, Nat.le_trans (gx.unfound_le fs h) hst⟩) (fun a st' h => hg a h.1 st' h.2)

theorem getDependencyPath_nf (fs : FS) (sp : List Path) (name : List Char) (dir : Path) (t : Token) (dedup : Bool)
    (k : Nat) : RNF fs k (getDependencyPath fs sp name dir t dedup) := by
  intro st _ h
  unfold getDependencyPath at h
  split at h
  · cases h
  · split at h <;> cases h

theorem parseFile_nf (fs : FS) (p : Path) (k : Nat) : RNF fs k (parseFile fs p) := by
  intro st _ h
  unfold parseFile at h
  split at h
  · cases h
  · rename_i text _
    split at h
    · rename_i e he
      cases h
      exact parseText_no_fuel text he
    · cases h

/-! ## Rank bounds -/

/-- every expression-level `require` among `names`, looked up from `dir`, leads to a file of rank below `r` -/
def Bnd (fs : FS) (sp : List Path) (rank : Path → Nat) (dir : Path) (r : Nat) (names : List (List Char)) : Prop :=
  ∀ name ∈ names, ∀ q, findFileInPath fs sp name dir = some q → rank q < r

theorem Bnd_nil {fs : FS} {sp : List Path} {rank : Path → Nat} {dir : Path} {r : Nat} :
    Bnd fs sp rank dir r [] ↔ True := by
  simp [Bnd]

theorem Bnd_append {fs : FS} {sp : List Path} {rank : Path → Nat} {dir : Path} {r : Nat} {a b : List (List Char)} :
    Bnd fs sp rank dir r (a ++ b) ↔ Bnd fs sp rank dir r a ∧ Bnd fs sp rank dir r b := by
  simp only [Bnd, List.mem_append]
  constructor
  · intro h; exact ⟨fun n hn => h n (Or.inl hn), fun n hn => h n (Or.inr hn)⟩
  · rintro ⟨h1, h2⟩ n (hn | hn)
    · exact h1 n hn
    · exact h2 n hn

/-- the hypotheses of the termination theorem: `rank` decreases along expression-level edges, `R` bounds the rank of
the files and `D` the recursion depth of the parsed files -/
structure Ranked (fs : FS) (sp : List Path) (rank : Path → Nat) (R D : Nat) : Prop where
  edge : ∀ p q, ExprEdge fs sp p q → rank q < rank p
  rankLe : ∀ p, fs.isFile p = true → rank p ≤ R
  depthLe : ∀ p text b hs, fs.read p = some text → parseText text = .ok (b, hs) → depthBlock b ≤ D

def W (R D k r : Nat) : Nat := (k * (R + 1) + r) * D

theorem W_expr {R D k r r' : Nat} (h : r' < r) : D + W R D k r' ≤ W R D k r := by
  unfold W
  have : (k * (R + 1) + r' + 1) * D ≤ (k * (R + 1) + r) * D := Nat.mul_le_mul_right D (by omega)
  rw [Nat.succ_mul] at this
  omega

theorem W_stmt {R D k k' r r' : Nat} (hk : k' < k) (hr : r' ≤ R) : D + W R D k' r' ≤ W R D k r := by
  unfold W
  have h1 : (k' * (R + 1) + r' + 1) * D ≤ (k * (R + 1) + r) * D := by
    apply Nat.mul_le_mul_right
    have : (k' + 1) * (R + 1) ≤ k * (R + 1) := Nat.mul_le_mul_right _ hk
    rw [Nat.succ_mul] at this
    omega
  rw [Nat.succ_mul] at h1
  omega

end Tumfl.Theory
