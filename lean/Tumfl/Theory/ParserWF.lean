import Tumfl.Theory.ParserWFCore
/-!
# What the parser builds: no `AssertionError`, and a well-formed tree

By one induction on the fuel (the conjunction `AllWF f` over all 21 parse functions), in the
weakest-precondition calculus of `ParserWFCore.lean` (`WP m Q s`, error predicate `NoAssert`):

* every parse function keeps the parser-state invariant `StOK` (both buffered tokens satisfy the
  token invariant `TokOK` of `ParserWFTok.lean`);
* no parse function raises an `AssertionError`: `Number.from_token` is reached only on a `NUMBER`
  token, whose value is a numeral tuple; `_parse_var_terminal` is entered (from `_parse_var` and from
  itself) only when the current token type is in `suffixStarts`, which is its precondition here;
* every tree that is built is well formed (`wfExpr`, `wfStmt`, `wfBlock` .. of `EmitCommentsBase.lean`):
  names come from `eatName` on a `NAME` token, numerals from `NUMBER` tokens, and `parseBlock` always
  sets `isChunk = false`.

Main results: `parseText_no_assertion`, `parseText_wf`, `parseText_isChunk`.
The expression ladder is handled by the generic `ladderExp_keepsW` (`ParserWFLadder.lean`).
-/
namespace Tumfl.Theory
open Tumfl.Model Tumfl.Spec

set_option linter.unusedVariables false

/-! ## helpers about the tree predicates -/

@[simp] theorem wfBlock_extendComment (b : Block) (c : List (List Char)) : wfBlock (b.extendComment c) = wfBlock b := by
  cases b with
  | mk t ss rs ch => cases rs <;> simp only [Block.extendComment, wfBlock]

@[simp] theorem isChunk_extendComment (b : Block) (c : List (List Char)) : (b.extendComment c).isChunk = b.isChunk := by
  cases b; simp [Block.extendComment, Block.isChunk]

@[simp] theorem isChunk_mk (t : Token) (ss : List Stmt) (rs : Option (List Expr)) (c : Bool) :
    (Block.mk t ss rs c).isChunk = c := rfl

/-- the `elseif` branches collected by `parseElseIfs` -/
def wfElifs : List (Token × Expr × Block) → Bool
  | [] => true
  | x :: rest => wfExpr x.2.1 && !x.2.2.isChunk && wfBlock x.2.2 && wfElifs rest

@[simp] theorem wfFalse_foldr (c : List (List Char)) (tail : IfFalse) :
    ∀ (elifs : List (Token × Expr × Block)),
      wfFalse (elifs.foldr (fun (x : Token × Expr × Block) acc => .elif x.1 x.2.1 (x.2.2.extendComment c) acc) tail)
        = (wfElifs elifs && wfFalse tail)
  | [] => by simp [wfElifs]
  | x :: rest => by
    simp only [List.foldr_cons, wfFalse, wfElifs, wfBlock_extendComment, isChunk_extendComment,
      wfFalse_foldr c tail rest, Bool.and_assoc]

theorem wfArgs_append (a b : List Expr) : wfArgs (a ++ b) = (wfArgs a && wfArgs b) := by
  induction a with
  | nil => simp [wfArgs]
  | cons x xs ih => simp [wfArgs, ih, Bool.and_assoc]

/-! ## the contracts of all parse functions at fuel `f` -/

structure AllWF (f : Nat) : Prop where
  parseBlock : ∀ (tok : Token) (b : Bool), PSpec (Model.parseBlock f tok b) (fun r => wfBlock r = true ∧ r.isChunk = false)
  parseStatements : PSpec (Model.parseStatements f) (fun r => wfStmts r = true)
  parseStatement : PSpec (Model.parseStatement f) (fun r => wfStmt r = true)
  parseDotted : PSpec (Model.parseDotted f) (fun r => wfArgs r = true)
  parseAttNames : PSpec (Model.parseAttNames f) (fun r => r.all wfAttName = true)
  parseIf : PSpec (Model.parseIf f) (fun r => wfStmt r = true)
  parseElseIfs : PSpec (Model.parseElseIfs f) (fun r => wfElifs r = true)
  parseFuncBody : ∀ (tok : Token), PSpec (Model.parseFuncBody f tok) (fun r => wfArgs r.1 = true ∧ wfBlock r.2 = true)
  parseNameList : ∀ (first : Option Expr) (lv : Bool), (∀ n, first = some n → wfExpr n = true) →
    PSpec (Model.parseNameList f first lv) (fun r => wfArgs r = true)
  parseNames : ∀ (lv : Bool), PSpec (Model.parseNames f lv) (fun r => wfArgs r = true)
  parseExpList : PSpec (Model.parseExpList f) (fun r => wfArgs r = true)
  parseVarStmt : PSpec (Model.parseVarStmt f) (fun r => wfStmt r = true)
  parseMoreVars : PSpec (Model.parseMoreVars f) (fun r => wfArgs r = true)
  parseExp : PSpec (Model.parseExp f) (fun r => wfExpr r = true)
  parseAtom : PSpec (Model.parseAtom f) (fun r => wfExpr r = true)
  parseVar : ∀ (b : Bool), PSpec (Model.parseVar f b) (fun r => wfExpr r = true)
  /-- `_parse_var_terminal` must be entered on a token that starts a suffix -/
  parseVarTerminal : ∀ (base : Expr) (s : PSt), StOK s → wfExpr base = true → suffixStarts.contains s.cur.type = true →
    WP (Model.parseVarTerminal f base) (fun r s' => StOK s' ∧ wfExpr r = true) s
  parseTable : PSpec (Model.parseTable f) (fun r => wfExpr r = true)
  parseFields : PSpec (Model.parseFields f) (fun r => wfFields r = true)
  parseField : PSpec (Model.parseField f) (fun r => wfField r = true)
  parseArgs : PSpec (Model.parseArgs f) (fun r => wfArgs r = true)

theorem PSpec.call {α : Type} {m : PM α} {W : α → Prop} {Q : α → PSt → Prop} {s : PSt}
    (h : PSpec m W) (hs : StOK s) (hq : ∀ a s', StOK s' → W a → Q a s') : WP m Q s :=
  WP_call (h s hs) (fun a s' hh => hq a s' hh.1 hh.2)

macro "guard_wp" : tactic => `(tactic| with_reducible show WP _ _ _)

/-- a call of a function with a `PSpec` -/
syntax "wp_spec " term : tactic
macro_rules
  | `(tactic| wp_spec $t) => `(tactic| (apply PSpec.call $t; assumption; intro _ _ _ _))

/-- one syntax-directed step -/
syntax "wp_step " ident : tactic
macro_rules
  | `(tactic| wp_step $ih) => `(tactic| (guard_wp; with_reducible first
    | apply WP_pure
    | apply WP_curTok
    | apply WP_nxtTok
    | apply WP_curIs
    | apply WP_perror
    | wp_spec (PSpec_eat _)
    | wp_spec PSpec_eatName
    | wp_spec (PSpec_assertTok _)
    | wp_spec (PSpec_addHint _ _)
    | wp_spec PSpec_removeHint
    | wp_spec (PSpec_switchHint _)
    | wp_spec (($ih).parseBlock _ _)
    | wp_spec ($ih).parseStatements
    | wp_spec ($ih).parseStatement
    | wp_spec ($ih).parseDotted
    | wp_spec ($ih).parseAttNames
    | wp_spec ($ih).parseIf
    | wp_spec ($ih).parseElseIfs
    | wp_spec (($ih).parseFuncBody _)
    | (show WP (Model.parseNameList _ _ _) _ _; refine PSpec.call (($ih).parseNameList _ _ (by simp [*])) (by assumption) ?_; intro _ _ _ _)
    | wp_spec (($ih).parseNames _)
    | wp_spec ($ih).parseExpList
    | wp_spec ($ih).parseVarStmt
    | wp_spec ($ih).parseMoreVars
    | wp_spec ($ih).parseExp
    | wp_spec ($ih).parseAtom
    | wp_spec (($ih).parseVar _)
    | (show WP (Model.parseVarTerminal _ _) _ _; refine WP_call (($ih).parseVarTerminal _ _ (by assumption) (by simp [wfExpr, *]) (Cond.elim (by assumption))) ?_; rintro _ _ ⟨_, _⟩)
    | wp_spec ($ih).parseTable
    | wp_spec ($ih).parseFields
    | wp_spec ($ih).parseField
    | wp_spec ($ih).parseArgs
    | apply WP_bind
    | apply WP_map
    | (apply WP_ite' <;> intro _)
    | split))
macro "wp " ih:ident : tactic => `(tactic| repeat' wp_step $ih)

theorem tok_num {t : Token} {n : NumTuple} (h : TokOK t) (hty : t.type = .NUMBER) (hv : t.value = .num n) :
    numOK n = true := by
  obtain ⟨m, hm, hok⟩ := h.1 hty
  rw [hv] at hm
  cases hm
  exact numOK_of_numTupleOK hok

theorem tok_num_str {t : Token} {x : List Char} (h : TokOK t) (hty : t.type = .NUMBER) (hv : t.value = .str x) : False := by
  obtain ⟨m, hm, _⟩ := h.1 hty
  rw [hv] at hm
  cases hm

/-- close the final goals `StOK s ∧ wf.. = true` -/
macro "wf_fin" : tactic => `(tactic| first
  | (simp [wfBlock, wfStmts, wfStmt, wfExpr, wfArgs, wfFields, wfField, wfFalse, wfAttName, wfElifs, wfArgs_append, *]; done)
  | (simp_all [wfBlock, wfStmts, wfStmt, wfExpr, wfArgs, wfFields, wfField, wfFalse, wfAttName, wfElifs, wfArgs_append]; done))

theorem parseBlock_wf_step {f : Nat} (ih : AllWF f) (tok : Token) (b : Bool) :
    PSpec (Model.parseBlock (f + 1) tok b) (fun r => wfBlock r = true ∧ r.isChunk = false) := by
  intro s hs
  rw [Model.parseBlock]
  wp ih
  all_goals wf_fin

theorem parseStatements_wf_step {f : Nat} (ih : AllWF f)  :
    PSpec (Model.parseStatements (f + 1) ) (fun r => wfStmts r = true) := by
  intro s hs
  rw [Model.parseStatements]
  wp ih
  all_goals wf_fin

theorem parseStatement_wf_step {f : Nat} (ih : AllWF f)  :
    PSpec (Model.parseStatement (f + 1) ) (fun r => wfStmt r = true) := by
  intro s hs
  rw [Model.parseStatement]
  wp ih
  all_goals wf_fin

theorem parseDotted_wf_step {f : Nat} (ih : AllWF f)  :
    PSpec (Model.parseDotted (f + 1) ) (fun r => wfArgs r = true) := by
  intro s hs
  rw [Model.parseDotted]
  wp ih
  all_goals wf_fin

theorem parseAttNames_wf_step {f : Nat} (ih : AllWF f)  :
    PSpec (Model.parseAttNames (f + 1) ) (fun r => r.all wfAttName = true) := by
  intro s hs
  rw [Model.parseAttNames]
  wp ih
  all_goals wf_fin

theorem parseIf_wf_step {f : Nat} (ih : AllWF f)  :
    PSpec (Model.parseIf (f + 1) ) (fun r => wfStmt r = true) := by
  intro s hs
  rw [Model.parseIf]
  wp ih
  all_goals wf_fin

theorem parseElseIfs_wf_step {f : Nat} (ih : AllWF f)  :
    PSpec (Model.parseElseIfs (f + 1) ) (fun r => wfElifs r = true) := by
  intro s hs
  rw [Model.parseElseIfs]
  wp ih
  all_goals wf_fin

theorem parseFuncBody_wf_step {f : Nat} (ih : AllWF f) (tok : Token) :
    PSpec (Model.parseFuncBody (f + 1) tok) (fun r => wfArgs r.1 = true ∧ wfBlock r.2 = true) := by
  intro s hs
  rw [Model.parseFuncBody]
  wp ih
  all_goals wf_fin

theorem parseNames_wf_step {f : Nat} (ih : AllWF f) (lv : Bool) :
    PSpec (Model.parseNames (f + 1) lv) (fun r => wfArgs r = true) := by
  intro s hs
  rw [Model.parseNames]
  wp ih
  all_goals wf_fin

theorem parseExpList_wf_step {f : Nat} (ih : AllWF f)  :
    PSpec (Model.parseExpList (f + 1) ) (fun r => wfArgs r = true) := by
  intro s hs
  rw [Model.parseExpList]
  wp ih
  all_goals wf_fin

theorem parseVarStmt_wf_step {f : Nat} (ih : AllWF f)  :
    PSpec (Model.parseVarStmt (f + 1) ) (fun r => wfStmt r = true) := by
  intro s hs
  rw [Model.parseVarStmt]
  wp ih
  all_goals wf_fin

theorem parseMoreVars_wf_step {f : Nat} (ih : AllWF f)  :
    PSpec (Model.parseMoreVars (f + 1) ) (fun r => wfArgs r = true) := by
  intro s hs
  rw [Model.parseMoreVars]
  wp ih
  all_goals wf_fin

theorem parseAtom_wf_step {f : Nat} (ih : AllWF f)  :
    PSpec (Model.parseAtom (f + 1) ) (fun r => wfExpr r = true) := by
  intro s hs
  rw [Model.parseAtom]
  wp ih
  all_goals first
    | wf_fin
    | exact ⟨by assumption, by simpa [wfExpr] using tok_num hs.1 ‹_› ‹_›⟩
    | exact (tok_num_str hs.1 ‹_› ‹_›).elim

theorem parseVar_wf_step {f : Nat} (ih : AllWF f) (b : Bool) :
    PSpec (Model.parseVar (f + 1) b) (fun r => wfExpr r = true) := by
  intro s hs
  rw [Model.parseVar]
  wp ih
  all_goals wf_fin

theorem parseTable_wf_step {f : Nat} (ih : AllWF f)  :
    PSpec (Model.parseTable (f + 1) ) (fun r => wfExpr r = true) := by
  intro s hs
  rw [Model.parseTable]
  wp ih
  all_goals wf_fin

theorem parseFields_wf_step {f : Nat} (ih : AllWF f)  :
    PSpec (Model.parseFields (f + 1) ) (fun r => wfFields r = true) := by
  intro s hs
  rw [Model.parseFields]
  wp ih
  all_goals wf_fin

theorem parseField_wf_step {f : Nat} (ih : AllWF f)  :
    PSpec (Model.parseField (f + 1) ) (fun r => wfField r = true) := by
  intro s hs
  rw [Model.parseField]
  wp ih
  all_goals wf_fin

theorem parseArgs_wf_step {f : Nat} (ih : AllWF f)  :
    PSpec (Model.parseArgs (f + 1) ) (fun r => wfArgs r = true) := by
  intro s hs
  rw [Model.parseArgs]
  wp ih
  all_goals wf_fin

theorem parseNameList_wf_step {f : Nat} (ih : AllWF f) (first : Option Expr) (lv : Bool)
    (hfirst : ∀ n, first = some n → wfExpr n = true) :
    PSpec (Model.parseNameList (f + 1) first lv) (fun r => wfArgs r = true) := by
  intro s hs
  cases first with
  | none =>
    rw [Model.parseNameList]
    wp ih
    all_goals wf_fin
  | some n =>
    have hn := hfirst n rfl
    rw [Model.parseNameList]
    wp ih
    all_goals wf_fin

theorem parseVarTerminal_wf_step {f : Nat} (ih : AllWF f) (base : Expr) (s : PSt) (hs : StOK s)
    (hb : wfExpr base = true) (hsuf : suffixStarts.contains s.cur.type = true) :
    WP (Model.parseVarTerminal (f + 1) base) (fun r s' => StOK s' ∧ wfExpr r = true) s := by
  rw [Model.parseVarTerminal]
  wp ih
  all_goals first
    | wf_fin
    | (exfalso; simp_all [suffixStarts])

/-! ### the expression ladder -/

theorem keepsEat_modelSig' (atom : PM Expr) : KeepsEat StOK NoAssert (modelSig atom).eat := by
  intro s hs
  have h := (PSpec_eatRaw s hs).run
  simp only [modelSig]
  cases he : eatRaw s with
  | error e => rw [he] at h; exact h
  | ok r => obtain ⟨a, s1⟩ := r; rw [he] at h; exact h.1

theorem keepsW_of_PSpec {α : Type} {m : PM α} {W : α → Prop} (h : PSpec m W) : KeepsW StOK W NoAssert m := by
  intro s hs
  have h1 := (h s hs).run
  unfold ResW
  cases hm : m s with
  | error e => rw [hm] at h1; exact h1
  | ok r => obtain ⟨a, s1⟩ := r; rw [hm] at h1; exact h1

theorem PSpec_of_keepsW {α : Type} {m : PM α} {W : α → Prop} (h : KeepsW StOK W NoAssert m) : PSpec m W := by
  intro s hs
  have h1 := h s hs
  unfold ResW at h1
  constructor
  cases hm : m s with
  | error e => rw [hm] at h1; exact h1
  | ok r => obtain ⟨a, s1⟩ := r; rw [hm] at h1; exact h1

theorem parseExp_wf_step {f : Nat} (ih : AllWF f) : PSpec (Model.parseExp (f + 1)) (fun r => wfExpr r = true) := by
  rw [Model.parseExp]
  apply PSpec_of_keepsW
  apply ladderExp_keepsW
  · exact NoAssert_fuel
  · exact keepsEat_modelSig' _
  · intro t o l r hl hr
    simp only [modelSig, wfExpr, hl, hr, Bool.and_self]
  · intro t u e he
    simp only [modelSig, wfExpr, he]
  · exact keepsW_of_PSpec ih.parseAtom

/-! ### the induction -/

theorem allWF_zero : AllWF 0 := by
  constructor
  · intros; rw [Model.parseBlock]; exact PSpec_fuelErrP
  · intros; rw [Model.parseStatements]; exact PSpec_fuelErrP
  · intros; rw [Model.parseStatement]; exact PSpec_fuelErrP
  · intros; rw [Model.parseDotted]; exact PSpec_fuelErrP
  · intros; rw [Model.parseAttNames]; exact PSpec_fuelErrP
  · intros; rw [Model.parseIf]; exact PSpec_fuelErrP
  · intros; rw [Model.parseElseIfs]; exact PSpec_fuelErrP
  · intros; rw [Model.parseFuncBody]; exact PSpec_fuelErrP
  · intros; rw [Model.parseNameList]; exact PSpec_fuelErrP
  · intros; rw [Model.parseNames]; exact PSpec_fuelErrP
  · intros; rw [Model.parseExpList]; exact PSpec_fuelErrP
  · intros; rw [Model.parseVarStmt]; exact PSpec_fuelErrP
  · intros; rw [Model.parseMoreVars]; exact PSpec_fuelErrP
  · intros; rw [Model.parseExp]; exact PSpec_fuelErrP
  · intros; rw [Model.parseAtom]; exact PSpec_fuelErrP
  · intros; rw [Model.parseVar]; exact PSpec_fuelErrP
  · intros; rw [Model.parseVarTerminal]; exact WP_fuelErrP
  · intros; rw [Model.parseTable]; exact PSpec_fuelErrP
  · intros; rw [Model.parseFields]; exact PSpec_fuelErrP
  · intros; rw [Model.parseField]; exact PSpec_fuelErrP
  · intros; rw [Model.parseArgs]; exact PSpec_fuelErrP

theorem allWF_succ {f : Nat} (ih : AllWF f) : AllWF (f + 1) where
  parseBlock := parseBlock_wf_step ih
  parseStatements := parseStatements_wf_step ih
  parseStatement := parseStatement_wf_step ih
  parseDotted := parseDotted_wf_step ih
  parseAttNames := parseAttNames_wf_step ih
  parseIf := parseIf_wf_step ih
  parseElseIfs := parseElseIfs_wf_step ih
  parseFuncBody := parseFuncBody_wf_step ih
  parseNameList := parseNameList_wf_step ih
  parseNames := parseNames_wf_step ih
  parseExpList := parseExpList_wf_step ih
  parseVarStmt := parseVarStmt_wf_step ih
  parseMoreVars := parseMoreVars_wf_step ih
  parseExp := parseExp_wf_step ih
  parseAtom := parseAtom_wf_step ih
  parseVar := parseVar_wf_step ih
  parseVarTerminal := parseVarTerminal_wf_step ih
  parseTable := parseTable_wf_step ih
  parseFields := parseFields_wf_step ih
  parseField := parseField_wf_step ih
  parseArgs := parseArgs_wf_step ih

/-- every parse function, at every fuel, keeps the token invariant, raises no `AssertionError`, and
builds a well-formed tree -/
theorem allWF (f : Nat) : AllWF f := by
  induction f with
  | zero => exact allWF_zero
  | succ f ih => exact allWF_succ ih

/-! ## The chunk and the whole text -/

theorem wfBlock_chunk (t : Token) (ss : List Stmt) (rs : Option (List Expr)) (c c' : Bool) :
    wfBlock (.mk t ss rs c) = wfBlock (.mk t ss rs c') := by
  cases rs <;> simp only [wfBlock]

theorem parseChunk_PSpec (fuel : Nat) : PSpec (parseChunk fuel) (fun r => wfBlock r = true ∧ r.isChunk = true) := by
  have ih := allWF fuel
  intro s hs
  unfold parseChunk
  wp ih
  rename_i h
  exact ⟨by assumption, by rw [wfBlock_chunk _ _ _ true]; exact h.1, rfl⟩

/-- the computation run by `parseText` after `initParser` -/
theorem parseText_body_PSpec (n : Nat) :
    PSpec (do let b ← parseChunk n; assertTok .EOF; pure b : PM Block) (fun r => wfBlock r = true ∧ r.isChunk = true) := by
  intro s hs
  refine WP_bind (PSpec.call (parseChunk_PSpec n) hs ?_)
  intro b s1 hs1 hb
  refine WP_bind (PSpec.call (PSpec_assertTok _) hs1 ?_)
  intro _ s2 hs2 _
  exact WP_pure ⟨hs2, hb⟩

/-- **the parser raises no `AssertionError`**: neither `Number.from_token` (a `NUMBER` token always
carries a numeral tuple) nor `_parse_var_terminal` (only entered on a token that starts a suffix),
nor any assertion of the lexer -/
theorem parseText_no_assertion (src : List Char) (site : String) :
    parseText src ≠ .error (.py "AssertionError" site) := by
  intro h
  unfold parseText at h
  split at h
  · next e0 h0 => cases h; exact initParser_noAssert h0 site rfl
  · next s0 h0 =>
    have hs0 := initParser_StOK h0
    split at h
    · next e1 h1 =>
      cases h
      exact WP_err (parseText_body_PSpec _ s0 hs0) h1 site rfl
    · cases h

/-- **the tree the parser builds is well formed** (the hypothesis of the comment-emission theorem) -/
theorem parseText_wf (src : List Char) (b : Block) (hs : List Hint) :
    parseText src = .ok (b, hs) → TreeWF b := by
  intro h
  unfold parseText at h
  split at h
  · cases h
  · next s0 h0 =>
    have hs0 := initParser_StOK h0
    split at h
    · cases h
    · next b1 s1 h1 =>
      cases h
      exact (WP_ok (parseText_body_PSpec _ s0 hs0) h1).2.1

/-- only `parse_chunk` makes a `Chunk`, at the root -/
theorem parseText_isChunk (src : List Char) (b : Block) (hs : List Hint) :
    parseText src = .ok (b, hs) → b.isChunk = true := by
  intro h
  unfold parseText at h
  split at h
  · cases h
  · next s0 h0 =>
    have hs0 := initParser_StOK h0
    split at h
    · cases h
    · next b1 s1 h1 =>
      cases h
      exact (WP_ok (parseText_body_PSpec _ s0 hs0) h1).2.2

/-! ## Per-function corollaries -/

/-- no parse function, started in a state satisfying the token invariant, raises an `AssertionError` -/
theorem no_assertion_of_PSpec {α : Type} {m : PM α} {W : α → Prop} (h : PSpec m W) (s : PSt) (hs : StOK s)
    (site : String) : m s ≠ .error (.py "AssertionError" site) :=
  fun he => WP_err (h s hs) he site rfl

theorem parseBlock_no_assertion (f : Nat) (tok : Token) (b : Bool) (s : PSt) (hs : StOK s) (site : String) :
    Model.parseBlock f tok b s ≠ .error (.py "AssertionError" site) :=
  no_assertion_of_PSpec ((allWF f).parseBlock tok b) s hs site

theorem parseStatement_no_assertion (f : Nat) (s : PSt) (hs : StOK s) (site : String) :
    Model.parseStatement f s ≠ .error (.py "AssertionError" site) :=
  no_assertion_of_PSpec (allWF f).parseStatement s hs site

theorem parseExp_no_assertion (f : Nat) (s : PSt) (hs : StOK s) (site : String) :
    Model.parseExp f s ≠ .error (.py "AssertionError" site) :=
  no_assertion_of_PSpec (allWF f).parseExp s hs site

theorem parseAtom_no_assertion (f : Nat) (s : PSt) (hs : StOK s) (site : String) :
    Model.parseAtom f s ≠ .error (.py "AssertionError" site) :=
  no_assertion_of_PSpec (allWF f).parseAtom s hs site

/-- `_parse_var_terminal` raises no `AssertionError` when entered on a token that starts a suffix -/
theorem parseVarTerminal_no_assertion (f : Nat) (base : Expr) (s : PSt) (hs : StOK s) (hb : wfExpr base = true)
    (hsuf : suffixStarts.contains s.cur.type = true) (site : String) :
    Model.parseVarTerminal f base s ≠ .error (.py "AssertionError" site) :=
  fun he => WP_err ((allWF f).parseVarTerminal base s hs hb hsuf) he site rfl

/-- every parse function keeps the parser-state invariant; e.g. blocks, statements, expressions -/
theorem parseBlock_StOK (f : Nat) (tok : Token) (b : Bool) (s s' : PSt) (r : Block) (hs : StOK s)
    (h : Model.parseBlock f tok b s = .ok (r, s')) : StOK s' ∧ wfBlock r = true ∧ r.isChunk = false :=
  WP_ok ((allWF f).parseBlock tok b s hs) h

theorem parseStatement_StOK (f : Nat) (s s' : PSt) (r : Stmt) (hs : StOK s)
    (h : Model.parseStatement f s = .ok (r, s')) : StOK s' ∧ wfStmt r = true :=
  WP_ok ((allWF f).parseStatement s hs) h

theorem parseExp_StOK (f : Nat) (s s' : PSt) (r : Expr) (hs : StOK s)
    (h : Model.parseExp f s = .ok (r, s')) : StOK s' ∧ wfExpr r = true :=
  WP_ok ((allWF f).parseExp s hs) h

end Tumfl.Theory
