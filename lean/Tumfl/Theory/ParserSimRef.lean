import Tumfl.Spec.Parse
/-!
# Big-step ("for all sufficiently large fuel") reading of the reference parser, production by production

`Ev F r` : the fuel-indexed computation `F` returns `r` for every sufficiently large fuel.
-/
namespace Tumfl.Theory
open Tumfl.Spec

def Ev {α : Type} (F : Nat → Except PErr α) (r : α) : Prop := ∃ f0, ∀ g, f0 ≤ g → F g = .ok r

variable {α α1 α2 α3 α4 : Type}

theorem Ev.intro0 {F : Nat → Except PErr α} {r : α} (k : ∀ g, F (g + 1) = .ok r) : Ev F r :=
  ⟨1, fun g hg => by obtain ⟨g', rfl⟩ : ∃ g', g = g' + 1 := ⟨g - 1, by omega⟩; exact k g'⟩

theorem Ev.intro1 {F : Nat → Except PErr α} {r : α} {F1 : Nat → Except PErr α1} {r1 : α1}
    (h1 : Ev F1 r1) (k : ∀ g, F1 g = .ok r1 → F (g + 1) = .ok r) : Ev F r := by
  obtain ⟨f1, h1⟩ := h1
  refine ⟨f1 + 1, fun g hg => ?_⟩
  obtain ⟨g', rfl⟩ : ∃ g', g = g' + 1 := ⟨g - 1, by omega⟩
  exact k g' (h1 g' (by omega))

theorem Ev.intro2 {F : Nat → Except PErr α} {r : α} {F1 : Nat → Except PErr α1} {r1 : α1}
    {F2 : Nat → Except PErr α2} {r2 : α2}
    (h1 : Ev F1 r1) (h2 : Ev F2 r2) (k : ∀ g, F1 g = .ok r1 → F2 g = .ok r2 → F (g + 1) = .ok r) : Ev F r := by
  obtain ⟨f1, h1⟩ := h1
  obtain ⟨f2, h2⟩ := h2
  refine ⟨f1 + f2 + 1, fun g hg => ?_⟩
  obtain ⟨g', rfl⟩ : ∃ g', g = g' + 1 := ⟨g - 1, by omega⟩
  exact k g' (h1 g' (by omega)) (h2 g' (by omega))

theorem Ev.intro3 {F : Nat → Except PErr α} {r : α} {F1 : Nat → Except PErr α1} {r1 : α1}
    {F2 : Nat → Except PErr α2} {r2 : α2} {F3 : Nat → Except PErr α3} {r3 : α3}
    (h1 : Ev F1 r1) (h2 : Ev F2 r2) (h3 : Ev F3 r3)
    (k : ∀ g, F1 g = .ok r1 → F2 g = .ok r2 → F3 g = .ok r3 → F (g + 1) = .ok r) : Ev F r := by
  obtain ⟨f1, h1⟩ := h1
  obtain ⟨f2, h2⟩ := h2
  obtain ⟨f3, h3⟩ := h3
  refine ⟨f1 + f2 + f3 + 1, fun g hg => ?_⟩
  obtain ⟨g', rfl⟩ : ∃ g', g = g' + 1 := ⟨g - 1, by omega⟩
  exact k g' (h1 g' (by omega)) (h2 g' (by omega)) (h3 g' (by omega))

theorem Ev.intro4 {F : Nat → Except PErr α} {r : α} {F1 : Nat → Except PErr α1} {r1 : α1}
    {F2 : Nat → Except PErr α2} {r2 : α2} {F3 : Nat → Except PErr α3} {r3 : α3} {F4 : Nat → Except PErr α4} {r4 : α4}
    (h1 : Ev F1 r1) (h2 : Ev F2 r2) (h3 : Ev F3 r3) (h4 : Ev F4 r4)
    (k : ∀ g, F1 g = .ok r1 → F2 g = .ok r2 → F3 g = .ok r3 → F4 g = .ok r4 → F (g + 1) = .ok r) : Ev F r := by
  obtain ⟨f1, h1⟩ := h1
  obtain ⟨f2, h2⟩ := h2
  obtain ⟨f3, h3⟩ := h3
  obtain ⟨f4, h4⟩ := h4
  refine ⟨f1 + f2 + f3 + f4 + 1, fun g hg => ?_⟩
  obtain ⟨g', rfl⟩ : ∃ g', g = g' + 1 := ⟨g - 1, by omega⟩
  exact k g' (h1 g' (by omega)) (h2 g' (by omega)) (h3 g' (by omega)) (h4 g' (by omega))

/-- the same result at the same fuels: transfer along an equality of the computations at large fuel -/
theorem Ev.congr {F G : Nat → Except PErr α} {r : α} (h : Ev F r) (hfg : ∀ g, F (g + 1) = G (g + 1)) : Ev G r := by
  obtain ⟨f0, h⟩ := h
  refine ⟨f0 + 1, fun g hg => ?_⟩
  obtain ⟨g', rfl⟩ : ∃ g', g = g' + 1 := ⟨g - 1, by omega⟩
  rw [← hfg]; exact h _ (by omega)

theorem Ev.det {F : Nat → Except PErr α} {r r' : α} (h : Ev F r) (h' : Ev F r') : r = r' := by
  obtain ⟨f0, h⟩ := h
  obtain ⟨f1, h'⟩ := h'
  have a := h (f0 + f1) (by omega)
  have b := h' (f0 + f1) (by omega)
  rw [a] at b; cases b; rfl

theorem Ev.of_fuel {F : Nat → Except PErr α} {r : α} (h : Ev F r) : ∃ f, F f = .ok r := by
  obtain ⟨f0, h⟩ := h; exact ⟨f0, h f0 (Nat.le_refl _)⟩

/-! ## token tests -/

@[simp] theorem isSym_iff {s : String} {ts : List Tok} : isSym s ts = true ↔ pk ts = .sym s := by
  unfold isSym
  split
  · next x h => rw [h]; simp
  · next h =>
    constructor
    · intro h'; cases h'
    · intro h'; exact absurd h' (h s)

@[simp] theorem isKw_iff {s : String} {ts : List Tok} : isKw s ts = true ↔ pk ts = .kw s := by
  unfold isKw
  split
  · next x h => rw [h]; simp
  · next h =>
    constructor
    · intro h'; cases h'
    · intro h'; exact absurd h' (h s)

theorem isSym_false {s : String} {ts : List Tok} (h : pk ts ≠ .sym s) : isSym s ts = false := by
  cases h' : isSym s ts
  · rfl
  · exact absurd (isSym_iff.1 h') h

theorem isKw_false {s : String} {ts : List Tok} (h : pk ts ≠ .kw s) : isKw s ts = false := by
  cases h' : isKw s ts
  · rfl
  · exact absurd (isKw_iff.1 h') h

theorem expectSym_ok {s : String} {ts : List Tok} (h : pk ts = .sym s) : expectSym s ts = .ok ts.tail := by
  unfold expectSym; rw [if_pos (isSym_iff.2 h)]

theorem expectKw_ok {s : String} {ts : List Tok} (h : pk ts = .kw s) : expectKw s ts = .ok ts.tail := by
  unfold expectKw; rw [if_pos (isKw_iff.2 h)]

theorem expectName_ok {n : String} {ts : List Tok} (h : pk ts = .name n) : expectName ts = .ok (n, ts.tail) := by
  unfold expectName; rw [h]

theorem Ev.lift1 {F : Nat → Except PErr α} {r : α} {F1 : Nat → Except PErr α1} {r1 : α1}
    (h1 : Ev F1 r1) (k : ∀ g, F1 g = .ok r1 → F g = .ok r) : Ev F r := by
  obtain ⟨f1, h1⟩ := h1
  exact ⟨f1, fun g hg => k g (h1 g hg)⟩

theorem Ev.lift2 {F : Nat → Except PErr α} {r : α} {F1 : Nat → Except PErr α1} {r1 : α1}
    {F2 : Nat → Except PErr α2} {r2 : α2}
    (h1 : Ev F1 r1) (h2 : Ev F2 r2) (k : ∀ g, F1 g = .ok r1 → F2 g = .ok r2 → F g = .ok r) : Ev F r := by
  obtain ⟨f1, h1⟩ := h1
  obtain ⟨f2, h2⟩ := h2
  exact ⟨f1 + f2, fun g hg => k g (h1 g (by omega)) (h2 g (by omega))⟩

/-- close a production: unfold the monadic plumbing and use the hypotheses -/
macro "prod" : tactic =>
  `(tactic| simp [bind, Except.bind, pure, Except.pure, expectSym, expectKw, expectName, perr, *])

/-- the reference-side reading of `_BLOCK_END_TYPES` -/
def blockEndTk : Tk → Bool
  | .kw "return" => true
  | k => blockFollow true k

def suffixTk : Tk → Bool
  | .sym "[" | .sym "." | .sym "(" | .sym "{" | .sym ":" | .str _ => true
  | _ => false

/-- the tokens that send `statement` / `simpleexp` to `suffixedexp` -/
def primaryTk : Tk → Bool
  | .sym "(" | .name _ => true
  | _ => false

variable {ts ts1 ts2 ts3 ts4 ts5 ts6 ts7 : List Tok}

/-! ## productions: lists of names -/

theorem ev_namelistRest_nil (h : pk ts ≠ .sym ",") : Ev (namelistRest · ts) ([], ts) :=
  Ev.intro0 fun g => by rw [namelistRest]; prod

theorem ev_namelistRest_cons {n : String} {ns : List String} (h : pk ts = .sym ",")
    (hn : pk ts.tail = .name n) (h1 : Ev (namelistRest · ts.tail.tail) (ns, ts2)) :
    Ev (namelistRest · ts) (n :: ns, ts2) :=
  Ev.intro1 h1 fun g e1 => by rw [namelistRest]; prod

theorem ev_dottedRest_nil (h : pk ts ≠ .sym ".") : Ev (dottedRest · ts) ([], ts) :=
  Ev.intro0 fun g => by rw [dottedRest]; prod

theorem ev_dottedRest_cons {n : String} {ns : List String} (h : pk ts = .sym ".")
    (hn : pk ts.tail = .name n) (h1 : Ev (dottedRest · ts.tail.tail) (ns, ts2)) :
    Ev (dottedRest · ts) (n :: ns, ts2) :=
  Ev.intro1 h1 fun g e1 => by rw [dottedRest]; prod

/-- the optional attribute `'<' NAME '>'` -/
inductive AttPart : List Tok → Option String → List Tok → Prop
  | some {l : List Tok} {a : String} : pk l = .sym "<" → pk l.tail = .name a → pk l.tail.tail = .sym ">" →
      AttPart l (some a) l.tail.tail.tail
  | none {l : List Tok} : pk l ≠ .sym "<" → AttPart l none l

theorem ev_attnamelist_cons {n : String} {a : Option String} {ns : List (String × Option String)}
    (hn : pk ts = .name n) (ha : AttPart ts.tail a ts2) (hc : pk ts2 = .sym ",")
    (h1 : Ev (attnamelist · ts2.tail) (ns, ts3)) : Ev (attnamelist · ts) ((n, a) :: ns, ts3) :=
  Ev.intro1 h1 fun g e1 => by
    rw [attnamelist]
    cases ha with
    | some h1 h2 h3 => prod
    | none h1 => prod

theorem ev_attnamelist_last {n : String} {a : Option String}
    (hn : pk ts = .name n) (ha : AttPart ts.tail a ts2) (hc : pk ts2 ≠ .sym ",") :
    Ev (attnamelist · ts) ([(n, a)], ts2) :=
  Ev.intro0 fun g => by
    rw [attnamelist]
    cases ha with
    | some h1 h2 h3 => prod
    | none h1 => prod

/-! ## parameter lists -/

theorem ev_parlist1_vararg (h : pk ts = .sym "...") : Ev (parlist1 · ts) ([], true, ts.tail) :=
  Ev.intro0 fun g => by rw [parlist1]; prod

theorem ev_parlist1_cons {n : String} {ps : List String} {va : Bool} (h : pk ts = .name n) (hc : pk ts.tail = .sym ",")
    (h1 : Ev (parlist1 · ts.tail.tail) (ps, va, ts1)) : Ev (parlist1 · ts) (n :: ps, va, ts1) :=
  Ev.intro1 h1 fun g e1 => by rw [parlist1]; prod

theorem ev_parlist1_last {n : String} (h : pk ts = .name n) (hc : pk ts.tail ≠ .sym ",") :
    Ev (parlist1 · ts) ([n], false, ts.tail) :=
  Ev.intro0 fun g => by rw [parlist1]; prod

theorem ev_parlist_empty (h : pk ts = .sym ")") : Ev (parlist · ts) ([], false, ts) :=
  Ev.intro0 fun g => by rw [parlist]; prod

theorem ev_parlist_vararg (h : pk ts = .sym "...") : Ev (parlist · ts) ([], true, ts.tail) :=
  Ev.intro0 fun g => by rw [parlist]; prod

theorem ev_parlist_names {n : String} {r : List String × Bool × List Tok} (h : pk ts = .name n)
    (h1 : Ev (parlist1 · ts) r) : Ev (parlist · ts) r :=
  h1.congr fun g => by rw [parlist, parlist1]; prod

/-! ## expression lists, assignment targets -/

theorem expr_succ (g : Nat) (ts : List Tok) : expr (g + 1) ts = climb (specSig (simpleexp g)) (g + 1) 0 ts := by
  rw [expr]

theorem ev_explist_cons {e : Exp} {es : List Exp} (h1 : Ev (expr · ts) (e, ts1)) (hc : pk ts1 = .sym ",")
    (h2 : Ev (explist · ts1.tail) (es, ts2)) : Ev (explist · ts) (e :: es, ts2) :=
  Ev.intro2 h1 h2 fun g e1 e2 => by rw [explist]; prod

theorem ev_explist_last {e : Exp} (h1 : Ev (expr · ts) (e, ts1)) (hc : pk ts1 ≠ .sym ",") :
    Ev (explist · ts) ([e], ts1) :=
  Ev.intro1 h1 fun g e1 => by rw [explist]; prod

theorem ev_restassign_nil (h : pk ts ≠ .sym ",") : Ev (restassign · ts) ([], ts) :=
  Ev.intro0 fun g => by rw [restassign]; prod

theorem ev_restassign_cons {e : Exp} {es : List Exp} (h : pk ts = .sym ",")
    (h1 : Ev (suffixedexp · ts.tail) (e, ts1)) (h2 : Ev (restassign · ts1) (es, ts2)) :
    Ev (restassign · ts) (e :: es, ts2) :=
  Ev.intro2 h1 h2 fun g e1 e2 => by rw [restassign]; prod

/-! ## function bodies -/

theorem ev_body {ps : List String} {va : Bool} {b : Block} (h : pk ts = .sym "(")
    (h1 : Ev (parlist · ts.tail) (ps, va, ts2)) (hc : pk ts2 = .sym ")") (h2 : Ev (block · ts2.tail) (b, ts4))
    (he : pk ts4 = .kw "end") : Ev (body · ts) (ps, va, b, ts4.tail) :=
  Ev.intro2 h1 h2 fun g e1 e2 => by rw [body]; prod

/-! ## blocks -/

theorem ev_block {ss : List Stat} {r : Option (List Exp)} (h : Ev (statlist · ts) (ss, r, ts1)) :
    Ev (block · ts) (.mk ss r, ts1) :=
  Ev.intro1 h fun g e1 => by rw [block]; prod

theorem blockFollow_return : blockFollow true (.kw "return") = false := by decide

theorem ev_statlist_end (h : blockFollow true (pk ts) = true) : Ev (statlist · ts) ([], none, ts) :=
  Ev.intro0 fun g => by rw [statlist]; prod

theorem ev_statlist_ret0 (hr : pk ts = .kw "return")
    (hc : (blockFollow true (pk ts.tail) || isSym ";" ts.tail) = true) :
    Ev (statlist · ts) ([], some [], if isSym ";" ts.tail then ts.tail.tail else ts.tail) :=
  Ev.intro0 fun g => by
    rw [statlist, hr, if_neg (by decide), if_pos (by simpa using hr), if_pos hc]

theorem ev_statlist_ret1 {es : List Exp} (hr : pk ts = .kw "return")
    (hc : (blockFollow true (pk ts.tail) || isSym ";" ts.tail) = false) (h1 : Ev (explist · ts.tail) (es, ts2)) :
    Ev (statlist · ts) ([], some es, if isSym ";" ts2 then ts2.tail else ts2) :=
  Ev.intro1 h1 fun g e1 => by
    rw [statlist, hr, if_neg (by decide), if_pos (by simpa using hr), if_neg (by simp [hc]), e1]
    rfl

theorem ev_statlist_cons {s : Stat} {ss : List Stat} {r : Option (List Exp)} (h : blockFollow true (pk ts) = false)
    (hr : pk ts ≠ .kw "return") (h1 : Ev (statement · ts) (s, ts1)) (h2 : Ev (statlist · ts1) (ss, r, ts2)) :
    Ev (statlist · ts) (s :: ss, r, ts2) :=
  Ev.intro2 h1 h2 fun g e1 e2 => by rw [statlist]; prod

/-! ## `if` -/

theorem ev_ifrest_elseif {c : Exp} {b : Block} {elifs : List ElseIf} {els : Option Block}
    (h : pk ts = .kw "elseif") (h1 : Ev (expr · ts.tail) (c, ts1)) (ht : pk ts1 = .kw "then")
    (h2 : Ev (block · ts1.tail) (b, ts3)) (h3 : Ev (ifrest · ts3) (elifs, els, ts4)) :
    Ev (ifrest · ts) (.mk c b :: elifs, els, ts4) :=
  Ev.intro3 h1 h2 h3 fun g e1 e2 e3 => by rw [ifrest]; prod

theorem ev_ifrest_else {b : Block} (h : pk ts = .kw "else") (h1 : Ev (block · ts.tail) (b, ts1))
    (he : pk ts1 = .kw "end") : Ev (ifrest · ts) ([], some b, ts1.tail) :=
  Ev.intro1 h1 fun g e1 => by rw [ifrest]; prod

theorem ev_ifrest_end (h : pk ts = .kw "end") : Ev (ifrest · ts) ([], none, ts.tail) :=
  Ev.intro0 fun g => by rw [ifrest]; prod

end Tumfl.Theory
