import Tumfl.Theory.ParserSimRel
import Tumfl.Theory.EmitCommentsBase
import Tumfl.Model.Emit
/-!
# Formatting preserves the program, at token level: definitions

* `pieceTks` / `piecesTks` / `toToks`: the token reading of emitted pieces (no lexer is run; one piece is
  classified on its own, exactly the way the reference lexer classifies a maximal token);
* `Printable`: the trees for which the theorem is stated (style independent, decidable);
* `dropSemis` / `dropEmpty`: erasure of empty statements on the model side and on the reference side;
* `refRoot semi sty b` (with `refBlock`, `refExpr`, `refStmt`, ...): the *exact* reference tree the parser returns on the
  tokens of `emit sty b` (parentheses where the emitter puts them, an empty statement for every `;`: the guard of
  `visitStmts`, a kept `Semicolon` statement, and - when `semi` - every statement / block separator).
-/
namespace Tumfl.Theory
open Tumfl.Model

/-! ## Token reading of pieces -/

/-- the symbol spellings the reference lexer produces (`Spec.lexLoop`: `symbols2`, `symbols1`, `...`) -/
def symbolTexts : List (List Char) :=
  Spec.symbols2.map String.toList ++ Spec.symbols1.map (fun c => [c]) ++ ["...".toList]

def isKwText (s : List Char) : Bool := Spec.keywords.contains (String.ofList s)
def isSymText (s : List Char) : Bool := symbolTexts.contains s

/-- the token(s) of one text piece, classified as the reference lexer classifies a token by its first characters -/
def strTk (s : List Char) : List Spec.Tk :=
  if startsWith s ['-', '-'] then []
  else if isKwText s then [.kw (String.ofList s)]
  else if isSymText s then [.sym (String.ofList s)]
  else
    match s with
    | [] => []
    | c :: cs =>
      if c == '"' || c == '\'' then
        match Spec.strBody c (cs.length + 1) cs with
        | some (v, []) => [.str v]
        | _ => []
      else if c == '[' then
        match Spec.longOpener (c :: cs) with
        | some (lvl, body) =>
          match Spec.longBody lvl (Spec.dropFirstNewline body) with
          | some (b, []) => [.str (b.map fun ch => .ch ch.toNat)]
          | _ => []
        | none => []
      else if Spec.isDigit c || (c == '.' && (match cs with | d :: _ => Spec.isDigit d | [] => false)) then
        match Spec.parseNumeral (c :: cs) with
        | some n => [.num n]
        | none => []
      else [.name (String.ofList (c :: cs))]

/-- The token reading of one piece.  `semi` says how the later pass `resolveTokens` spells the statement separator
(`.sep .statement` and `.sep .block` both become the style's `statementSeparator`): as a `;` (`semi = true`) or as white
space (`semi = false`). -/
def pieceTks (semi : Bool) : Piece → List Spec.Tk
  | .sep .argument => [.sym ","]
  | .sep .dot => [.sym "."]
  | .sep .statement => if semi then [.sym ";"] else []
  | .sep .block => if semi then [.sym ";"] else []
  | .sep _ => []
  | .str s => strTk s

def piecesTks (semi : Bool) (ps : Pieces) : List Spec.Tk := ps.flatMap (pieceTks semi)

/-- a reference token with dummy offset and no comments (the parser only looks at `.tk`) -/
def mkTok (k : Spec.Tk) : Spec.Tok := ⟨k, 0, []⟩

def eofTok : Spec.Tok := mkTok .eof

/-- the tokens of a piece list, without the final `eof` -/
def TK (semi : Bool) (ps : Pieces) : List Spec.Tok := (piecesTks semi ps).map mkTok

/-- the tokens of one statement / block separator -/
def semiT (semi : Bool) : List Spec.Tok := if semi then [mkTok (.sym ";")] else []

/-- the token list handed to the reference parser -/
def toToks (ks : List Spec.Tk) : List Spec.Tok := ks.map mkTok ++ [eofTok]

/-! ## Printable trees -/

/-- a Lua identifier that is not a keyword -/
def identOK (n : List Char) : Bool :=
  match n with
  | c :: cs => Spec.isAlpha c && cs.all Spec.isAlnum && !isKwText n
  | [] => false

/-- the printed numeral is read by the reference grammar, starts like a numeral, and reads as its own canonical form
(what `NumRel` asks) -/
def numOKp (n : NumTuple) : Bool :=
  (match numberStr n with
   | c :: cs => Spec.isDigit c || (c == '.' && (match cs with | d :: _ => Spec.isDigit d | [] => false))
   | [] => false) &&
  (match Spec.parseNumeral (numberStr n) with
   | some m => canon m == m
   | none => false)

def nameNodeOK : Expr → Bool
  | .name _ n => identOK n
  | _ => false

/-- parameters: names, optionally ended by a vararg -/
def paramsOK : List Expr → Bool
  | [] => true
  | [.vararg _] => true
  | e :: rest => nameNodeOK e && paramsOK rest

def attOK : AttName → Bool
  | .mk n a => nameNodeOK n && (match a with | some x => nameNodeOK x | none => true)

/-- assignment targets are variables -/
def isTargetShape : Expr → Bool
  | .name _ _ | .index _ _ _ | .namedIndex _ _ _ => true
  | _ => false

mutual
def pExpr : Expr → Bool
  | .nil _ | .bool _ _ | .vararg _ | .string _ _ => true
  | .number _ n => numOKp n
  | .func _ ps body => paramsOK ps && pBlock body
  | .table _ fs => pFields fs
  | .binop _ _ l r => pExpr l && pExpr r
  | .unop _ _ e => pExpr e
  | .name _ n => identOK n
  | .index _ l k => pExpr l && pExpr k
  | .namedIndex _ l nm => pExpr l && nameNodeOK nm
  | .call _ f args => pExpr f && pArgs args
  | .method _ f m args => pExpr f && nameNodeOK m && pArgs args

def pArgs : List Expr → Bool
  | [] => true
  | e :: rest => pExpr e && pArgs rest

def pFields : List Field → Bool
  | [] => true
  | f :: rest => pField f && pFields rest

def pField : Field → Bool
  | .explicit _ k v => pExpr k && pExpr v
  | .named _ n v => nameNodeOK n && pExpr v
  | .numbered _ v => pExpr v

/-- a block (function body or root): its chunk flag is irrelevant here -/
def pBlock : Block → Bool
  | .mk _ stmts rets _ => pStmts stmts && (match rets with | some es => pArgs es | none => true)

def pStmts : List Stmt → Bool
  | [] => true
  | s :: rest => pStmt s && pStmts rest

/-- blocks printed through `blk` (`do`, `while`, `for`, `if`, `else`, `repeat` bodies) must be `Block`s, not `Chunk`s:
a nested `Chunk` is printed without its `do` ... `end` -/
def pStmt : Stmt → Bool
  | .assign _ ts es => !ts.isEmpty && ts.all isTargetShape && pArgs ts && !es.isEmpty && pArgs es
  | .block b => !b.isChunk && pBlock b
  | .brk _ => true
  | .call _ f args => pExpr f && pArgs args
  | .funcDef _ names m ps body =>
    !names.isEmpty && names.all nameNodeOK && (match m with | some mn => nameNodeOK mn | none => true) &&
      paramsOK ps && pBlock body
  | .goto _ l => nameNodeOK l
  | .label _ n => nameNodeOK n
  | .iff _ test tr fl => pExpr test && !tr.isChunk && pBlock tr && pFalse fl
  | .iterFor _ ns es body => !ns.isEmpty && ns.all nameNodeOK && !es.isEmpty && pArgs es && !body.isChunk && pBlock body
  | .localAssign _ names es =>
    !names.isEmpty && names.all attOK &&
      (match es with | some (e :: rest) => pArgs (e :: rest) | some [] => false | none => true)
  | .localFunc _ n ps body => nameNodeOK n && paramsOK ps && pBlock body
  | .method _ f m args => pExpr f && nameNodeOK m && pArgs args
  | .numFor _ v a b step body =>
    nameNodeOK v && pExpr a && pExpr b && (match step with | some s => pExpr s | none => true) &&
      !body.isChunk && pBlock body
  | .repeat _ c body => !body.isChunk && pBlock body && pExpr c
  | .semi _ => true
  | .whl _ c body => pExpr c && !body.isChunk && pBlock body

def pFalse : IfFalse → Bool
  | .none => true
  | .block b => !b.isChunk && pBlock b
  | .elif _ test tr fl => pExpr test && !tr.isChunk && pBlock tr && pFalse fl
end

/-- The trees the token-level theorem is stated for: the root is a `Chunk` (`emit` prints a root `Block` as one
`do ... end` statement) and
* every `Name` text is a Lua identifier that is not a keyword; the slots that must hold a `Name` node do
  (`a.b`, `a:m()`, labels, `goto`, function names, loop variables, attributes, table keys `k = v`);
* parameters are names with an optional final vararg; assignment targets are name / index / namedIndex nodes and there is at
  least one target and one value; `for ... in` has at least one name and one expression; `local` has at least one name and
  `local x =` with no value (`some []`) does not occur;
* a printed numeral is read by the reference grammar as its own canonical form;
* blocks printed through `visit_Chunk`'s slice are not nested. -/
def Printable (b : Block) : Prop := b.isChunk = true ∧ pBlock b = true

instance (b : Block) : Decidable (Printable b) := by unfold Printable; exact inferInstance

/-! ## Erasure of empty statements -/

def isSemi : Stmt → Bool
  | .semi _ => true
  | _ => false

mutual
def dsExpr : Expr → Expr
  | .func t ps body => .func t ps (dsBlock body)
  | .table t fs => .table t (dsFields fs)
  | .binop t o l r => .binop t o (dsExpr l) (dsExpr r)
  | .unop t o e => .unop t o (dsExpr e)
  | .index t l k => .index t (dsExpr l) (dsExpr k)
  | .namedIndex t l nm => .namedIndex t (dsExpr l) nm
  | .call t f args => .call t (dsExpr f) (dsArgs args)
  | .method t f m args => .method t (dsExpr f) m (dsArgs args)
  | e => e

def dsArgs : List Expr → List Expr
  | [] => []
  | e :: rest => dsExpr e :: dsArgs rest

def dsFields : List Field → List Field
  | [] => []
  | f :: rest => dsField f :: dsFields rest

def dsField : Field → Field
  | .explicit t k v => .explicit t (dsExpr k) (dsExpr v)
  | .named t n v => .named t n (dsExpr v)
  | .numbered t v => .numbered t (dsExpr v)

def dsBlock : Block → Block
  | .mk t stmts rets c => .mk t (dsStmts stmts) (match rets with | some es => some (dsArgs es) | none => none) c

def dsStmts : List Stmt → List Stmt
  | [] => []
  | s :: rest => if isSemi s then dsStmts rest else dsStmt s :: dsStmts rest

def dsStmt : Stmt → Stmt
  | .assign t ts es => .assign t (dsArgs ts) (dsArgs es)
  | .block b => .block (dsBlock b)
  | .brk t => .brk t
  | .call t f args => .call t (dsExpr f) (dsArgs args)
  | .funcDef t names m ps body => .funcDef t names m ps (dsBlock body)
  | .goto t l => .goto t l
  | .label t n => .label t n
  | .iff t test tr fl => .iff t (dsExpr test) (dsBlock tr) (dsFalse fl)
  | .iterFor t ns es body => .iterFor t ns (dsArgs es) (dsBlock body)
  | .localAssign t names es => .localAssign t names (match es with | some es => some (dsArgs es) | none => none)
  | .localFunc t n ps body => .localFunc t n ps (dsBlock body)
  | .method t f m args => .method t (dsExpr f) m (dsArgs args)
  | .numFor t v a b step body =>
    .numFor t v (dsExpr a) (dsExpr b) (match step with | some s => some (dsExpr s) | none => none) (dsBlock body)
  | .repeat t c body => .repeat t (dsExpr c) (dsBlock body)
  | .semi t => .semi t
  | .whl t c body => .whl t (dsExpr c) (dsBlock body)

def dsFalse : IfFalse → IfFalse
  | .none => .none
  | .block b => .block (dsBlock b)
  | .elif t test tr fl => .elif t (dsExpr test) (dsBlock tr) (dsFalse fl)
end

/-- the model tree without its `Semicolon` statements (at every depth) -/
def dropSemis (b : Block) : Block := dsBlock b

def isEmptyStat : Spec.Stat → Bool
  | .empty => true
  | _ => false

mutual
def deExp : Spec.Exp → Spec.Exp
  | .func ps va body => .func ps va (deBlock body)
  | .table fs => .table (deFields fs)
  | .bin o l r => .bin o (deExp l) (deExp r)
  | .un o e => .un o (deExp e)
  | .paren e => .paren (deExp e)
  | .index p k => .index (deExp p) (deExp k)
  | .dot p n => .dot (deExp p) n
  | .call f args => .call (deExp f) (deExps args)
  | .mcall f m args => .mcall (deExp f) m (deExps args)
  | e => e

def deExps : List Spec.Exp → List Spec.Exp
  | [] => []
  | e :: rest => deExp e :: deExps rest

def deFields : List Spec.Field → List Spec.Field
  | [] => []
  | f :: rest => deField f :: deFields rest

def deField : Spec.Field → Spec.Field
  | .pos e => .pos (deExp e)
  | .named n e => .named n (deExp e)
  | .keyed k e => .keyed (deExp k) (deExp e)

def deBlock : Spec.Block → Spec.Block
  | .mk ss ret => .mk (deStats ss) (match ret with | some es => some (deExps es) | none => none)

def deStats : List Spec.Stat → List Spec.Stat
  | [] => []
  | s :: rest => if isEmptyStat s then deStats rest else deStat s :: deStats rest

def deStat : Spec.Stat → Spec.Stat
  | .assign ts es => .assign (deExps ts) (deExps es)
  | .call e => .call (deExp e)
  | .doo b => .doo (deBlock b)
  | .whl c b => .whl (deExp c) (deBlock b)
  | .rep b c => .rep (deBlock b) (deExp c)
  | .iff c t elifs els => .iff (deExp c) (deBlock t) (deElifs elifs) (deOptBlock els)
  | .fornum v a b s body =>
    .fornum v (deExp a) (deExp b) (match s with | some s => some (deExp s) | none => none) (deBlock body)
  | .forin ns es body => .forin ns (deExps es) (deBlock body)
  | .func ns m ps va body => .func ns m ps va (deBlock body)
  | .localfunc n ps va body => .localfunc n ps va (deBlock body)
  | .locl ns es => .locl ns (deExps es)
  | s => s

def deElifs : List Spec.ElseIf → List Spec.ElseIf
  | [] => []
  | .mk c b :: rest => .mk (deExp c) (deBlock b) :: deElifs rest

def deOptBlock : Option Spec.Block → Option Spec.Block
  | some b => some (deBlock b)
  | none => none
end

/-- the reference tree without its empty statements (at every depth) -/
def dropEmpty (b : Spec.Block) : Spec.Block := deBlock b

/-! ## The expected reference tree -/

def wrapP (b : Bool) (e : Spec.Exp) : Spec.Exp := if b then .paren e else e

def nameS (e : Expr) : String := String.ofList (nameStr e)

/-- the reference reading of a parameter list -/
def refParams : List Expr → List String × Bool
  | [] => ([], false)
  | .vararg _ :: _ => ([], true)
  | e :: rest => (nameS e :: (refParams rest).1, (refParams rest).2)

def refAtt : AttName → String × Option String
  | .mk n a => (nameS n, match a with | some x => some (nameS x) | none => none)

/-- does `visitStmts` put its `;` guard in front of a statement printed as `toks`? -/
def guardNeeded (first : Bool) (toks : Pieces) : Bool :=
  match toks with
  | .str ['('] :: _ => !first
  | _ => false

/-- a `Semicolon` statement that prints nothing -/
def droppedSemi (sty : Style) (s : Stmt) : Bool := isSemi s && !sty.keepSemicolon

/-- `n` empty statements -/
def emp (n : Nat) : List Spec.Stat := List.replicate n .empty

def semiN (semi : Bool) : Nat := if semi then 1 else 0

/-- the number of `;` the comments printed before a statement are read as (one per long comment when `semi`) -/
def cmtN (semi : Bool) (sty : Style) (s : Stmt) : Nat := (piecesTks semi (stmtCommentPieces sty s)).length

/-- statements whose own pieces end with a statement / block separator -/
def hasTrail : Stmt → Bool
  | .funcDef _ _ _ _ _ | .localFunc _ _ _ _ => true
  | _ => false

mutual
def refExpr (semi : Bool) (sty : Style) : Expr → Spec.Exp
  | .nil _ => .nil
  | .bool _ v => if v then .tru else .fls
  | .vararg _ => .vararg
  | .number _ n => .num ((Spec.parseNumeral (numberStr n)).getD default)
  | .string _ v => .str (v.map fun c => Spec.SUnit.ch c.toNat)
  | .func _ ps body => .func (refParams ps).1 (refParams ps).2 (refBlock semi sty body)
  | .table _ fs => .table (refFields semi sty fs)
  | .binop _ o l r =>
    .bin o (wrapP (needBin sty.brOpts o true l.kind) (refExpr semi sty l)) (wrapP (needBin sty.brOpts o false r.kind) (refExpr semi sty r))
  | .unop _ u e => .un u (wrapP (needUn sty.brOpts u e.kind) (refExpr semi sty e))
  | .name _ n => .name (String.ofList n)
  | .index _ l k => .index (wrapP (!isVarLike l) (refExpr semi sty l)) (refExpr semi sty k)
  | .namedIndex _ l nm => .dot (wrapP (!isVarLike l) (refExpr semi sty l)) (nameS nm)
  | .call _ f args => .call (wrapP (!isVarLike f) (refExpr semi sty f)) (refArgs semi sty args)
  | .method _ f m args => .mcall (wrapP (!isVarLike f) (refExpr semi sty f)) (nameS m) (refArgs semi sty args)

def refArgs (semi : Bool) (sty : Style) : List Expr → List Spec.Exp
  | [] => []
  | e :: rest => refExpr semi sty e :: refArgs semi sty rest

def refFields (semi : Bool) (sty : Style) : List Field → List Spec.Field
  | [] => []
  | f :: rest => refField semi sty f :: refFields semi sty rest

def refField (semi : Bool) (sty : Style) : Field → Spec.Field
  | .explicit _ k v => .keyed (refExpr semi sty k) (refExpr semi sty v)
  | .named _ n v => .named (nameS n) (refExpr semi sty v)
  | .numbered _ v => .pos (refExpr semi sty v)

def refBlock (semi : Bool) (sty : Style) : Block → Spec.Block
  | .mk _ stmts rets _ =>
    .mk (emp (semiN semi) ++ refStmts semi sty true stmts ++ (if stmts.isEmpty then [] else emp (semiN semi)))
      (match rets with | some es => some (refArgs semi sty es) | none => none)

def refStmts (semi : Bool) (sty : Style) : Bool → List Stmt → List Spec.Stat
  | _, [] => []
  | first, s :: rest =>
    emp (cmtN semi sty s) ++
    (if guardNeeded first (visitStmt sty s) then [Spec.Stat.empty] else []) ++
    (if droppedSemi sty s then [] else refStmt semi sty s :: (if hasTrail s then emp (semiN semi) else [])) ++
    (if rest.isEmpty then [] else emp (semiN semi)) ++ refStmts semi sty false rest

def refStmt (semi : Bool) (sty : Style) : Stmt → Spec.Stat
  | .assign _ ts es => .assign (refArgs semi sty ts) (refArgs semi sty es)
  | .block b => .doo (refBlock semi sty b)
  | .brk _ => .brk
  | .call _ f args => .call (.call (wrapP (!isVarLike f) (refExpr semi sty f)) (refArgs semi sty args))
  | .funcDef _ names m ps body =>
    .func (names.map nameS) (match m with | some mn => some (nameS mn) | none => none) (refParams ps).1 (refParams ps).2
      (refBlock semi sty body)
  | .goto _ l => .goto (nameS l)
  | .label _ n => .label (nameS n)
  | .iff _ test tr fl => .iff (refExpr semi sty test) (refBlock semi sty tr) (refElifs semi sty fl) (refElse semi sty fl)
  | .iterFor _ ns es body => .forin (ns.map nameS) (refArgs semi sty es) (refBlock semi sty body)
  | .localAssign _ names es => .locl (names.map refAtt) (match es with | some es => refArgs semi sty es | none => [])
  | .localFunc _ n ps body => .localfunc (nameS n) (refParams ps).1 (refParams ps).2 (refBlock semi sty body)
  | .method _ f m args => .call (.mcall (wrapP (!isVarLike f) (refExpr semi sty f)) (nameS m) (refArgs semi sty args))
  | .numFor _ v a b step body =>
    .fornum (nameS v) (refExpr semi sty a) (refExpr semi sty b) (match step with | some s => some (refExpr semi sty s) | none => none)
      (refBlock semi sty body)
  | .repeat _ c body => .rep (refBlock semi sty body) (refExpr semi sty c)
  | .semi _ => .empty
  | .whl _ c body => .whl (refExpr semi sty c) (refBlock semi sty body)

def refElifs (semi : Bool) (sty : Style) : IfFalse → List Spec.ElseIf
  | .none => []
  | .block _ => []
  | .elif _ test tr fl => .mk (refExpr semi sty test) (refBlock semi sty tr) :: refElifs semi sty fl

def refElse (semi : Bool) (sty : Style) : IfFalse → Option Spec.Block
  | .none => none
  | .block b => some (refBlock semi sty b)
  | .elif _ _ _ fl => refElse semi sty fl
end

/-- the reference tree of the root: no separator in front, and `visit_Chunk`'s slice removes the last one -/
def refRoot (semi : Bool) (sty : Style) : Block → Spec.Block
  | .mk _ stmts rets _ =>
    .mk (refStmts semi sty true stmts ++ (if stmts.isEmpty || rets.isNone then [] else emp (semiN semi)))
      (match rets with | some es => some (refArgs semi sty es) | none => none)

end Tumfl.Theory
