import Tumfl.Model.Ladder
/-!
# The generic ladder preserves every state invariant that `S.eat` and `S.simple` preserve

`Keeps I G m` : started in a state satisfying `I`, the computation `m` either succeeds in a state
satisfying `I`, or fails with an error satisfying `G`.  The theorem `ladderExp_keeps` says that the
whole expression ladder (`ladderExp`, `binLevels`, `leftAssoc`/`leftLoop`, `rightAssoc`/`rightCollect`,
`unLevel`, `powLevel`) keeps `(I, G)` as soon as `S.eat` and `S.simple` do and `G S.fuelErr` holds.
-/
namespace Tumfl.Theory
open Tumfl.Model Tumfl.Spec

variable {σ ε Err T α : Type}

/-- the result of a state computation satisfies the invariant / the error predicate -/
def Res (I : σ → Prop) (G : Err → Prop) (r : Except Err (α × σ)) : Prop :=
  match r with
  | .ok (_, s') => I s'
  | .error e => G e

/-- `m` keeps the state invariant `I`, and all its errors satisfy `G` -/
def Keeps (I : σ → Prop) (G : Err → Prop) (m : σ → Except Err (α × σ)) : Prop :=
  ∀ s, I s → Res I G (m s)

/-- the same for the result-less `S.eat` -/
def KeepsEat (I : σ → Prop) (G : Err → Prop) (m : σ → Except Err σ) : Prop :=
  ∀ s, I s → match m s with
    | .ok s' => I s'
    | .error e => G e

section
variable {I : σ → Prop} {G : Err → Prop} {S : ExprSig σ ε Err T}

theorem leftLoop_keeps (hf : G S.fuelErr) (he : KeepsEat I G S.eat) (ops : List BOp)
    {base : σ → PR σ ε Err} (hb : Keeps I G base) :
    ∀ (f : Nat) (node : ε), Keeps I G (leftLoop S ops base f node) := by
  intro f
  induction f with
  | zero => intro node s _; simpa [leftLoop, Res] using hf
  | succ f ih =>
    intro node s hs
    rw [leftLoop]
    split
    · split
      · have h1 := he s hs
        split
        · next e he1 => rw [he1] at h1; simpa [Res] using h1
        · next s1 hs1 =>
          rw [hs1] at h1
          have h2 := hb s1 h1
          split
          · next e he2 => rw [he2] at h2; simpa [Res] using h2
          · next r s2 hs2 =>
            rw [hs2] at h2
            exact ih _ s2 h2
      · simpa [Res] using hs
    · simpa [Res] using hs

theorem leftAssoc_keeps (hf : G S.fuelErr) (he : KeepsEat I G S.eat) (ops : List BOp)
    {base : σ → PR σ ε Err} (hb : Keeps I G base) (f : Nat) :
    Keeps I G (leftAssoc S ops base f) := by
  intro s hs
  unfold leftAssoc
  have h1 := hb s hs
  split
  · next e h => rw [h] at h1; simpa [Res] using h1
  · next n s1 h => rw [h] at h1; exact leftLoop_keeps hf he ops hb f n s1 h1

theorem rightCollect_keeps (hf : G S.fuelErr) (he : KeepsEat I G S.eat) (ops : List BOp)
    {operand : σ → PR σ ε Err} (ho : Keeps I G operand) :
    ∀ (f : Nat), Keeps I G (rightCollect S ops operand f) := by
  intro f
  induction f with
  | zero => intro s _; simpa [rightCollect, Res] using hf
  | succ f ih =>
    intro s hs
    rw [rightCollect]
    split
    · split
      · have h1 := he s hs
        split
        · next e he1 => rw [he1] at h1; simpa [Res] using h1
        · next s1 hs1 =>
          rw [hs1] at h1
          have h2 := ho s1 h1
          split
          · next e he2 => rw [he2] at h2; simpa [Res] using h2
          · next r s2 hs2 =>
            rw [hs2] at h2
            have h3 := ih s2 h2
            split
            · next e he3 => rw [he3] at h3; simpa [Res] using h3
            · next rest s3 hs3 => rw [hs3] at h3; simpa [Res] using h3
      · simpa [Res] using hs
    · simpa [Res] using hs

theorem rightAssoc_keeps (hf : G S.fuelErr) (he : KeepsEat I G S.eat) (ops : List BOp)
    {base operand : σ → PR σ ε Err} (hb : Keeps I G base) (ho : Keeps I G operand) (f : Nat) :
    Keeps I G (rightAssoc S ops base operand f) := by
  intro s hs
  unfold rightAssoc
  have h1 := hb s hs
  split
  · next e h => rw [h] at h1; simpa [Res] using h1
  · next n s1 h =>
    rw [h] at h1
    have h2 := rightCollect_keeps hf he ops ho f s1 h1
    split
    · next e h' => rw [h'] at h2; simpa [Res] using h2
    · next items s2 h' => rw [h'] at h2; simpa [Res] using h2

theorem unLevel_powLevel_keeps (hf : G S.fuelErr) (he : KeepsEat I G S.eat)
    (hs : Keeps I G S.simple) (powOps : List BOp) :
    ∀ (f : Nat), Keeps I G (unLevel S powOps f) ∧ Keeps I G (powLevel S powOps f) := by
  intro f
  induction f with
  | zero =>
    constructor
    · intro s _; simpa [unLevel, Res] using hf
    · intro s _; simpa [powLevel, Res] using hf
  | succ f ih =>
    constructor
    · intro s h0
      rw [unLevel]
      split
      · have h1 := he s h0
        split
        · next e he1 => rw [he1] at h1; simpa [Res] using h1
        · next s1 hs1 =>
          rw [hs1] at h1
          have h2 := ih.1 s1 h1
          split
          · next e he2 => rw [he2] at h2; simpa [Res] using h2
          · next r s2 hs2 => rw [hs2] at h2; simpa [Res] using h2
      · exact ih.2 s h0
    · intro s h0
      rw [powLevel]
      exact rightAssoc_keeps hf he powOps hs ih.1 f s h0

theorem unLevel_keeps (hf : G S.fuelErr) (he : KeepsEat I G S.eat)
    (hs : Keeps I G S.simple) (powOps : List BOp) (f : Nat) : Keeps I G (unLevel S powOps f) :=
  (unLevel_powLevel_keeps hf he hs powOps f).1

theorem powLevel_keeps (hf : G S.fuelErr) (he : KeepsEat I G S.eat)
    (hs : Keeps I G S.simple) (powOps : List BOp) (f : Nat) : Keeps I G (powLevel S powOps f) :=
  (unLevel_powLevel_keeps hf he hs powOps f).2

theorem binLevels_keeps (hf : G S.fuelErr) (he : KeepsEat I G S.eat)
    (hs : Keeps I G S.simple) (powOps : List BOp) :
    ∀ (f : Nat) (levels : List LevelDesc), Keeps I G (binLevels S powOps levels f) := by
  intro f
  induction f with
  | zero =>
    intro levels
    cases levels with
    | nil => intro s h0; rw [binLevels]; exact unLevel_keeps hf he hs powOps 0 s h0
    | cons d rest => intro s _; simpa [binLevels, Res] using hf
  | succ f ih =>
    intro levels
    cases levels with
    | nil => intro s h0; rw [binLevels]; exact unLevel_keeps hf he hs powOps (f + 1) s h0
    | cons d rest =>
      intro s h0
      rw [binLevels]
      split
      · exact rightAssoc_keeps hf he d.ops (ih rest) (ih (d :: rest)) f s h0
      · exact leftAssoc_keeps hf he d.ops (ih rest) f s h0

/-- **The generic ladder lemma**: the expression ladder keeps every invariant that the cursor's
`eat` and the atom parser `simple` keep. -/
theorem ladderExp_keeps (hf : G S.fuelErr) (he : KeepsEat I G S.eat)
    (hs : Keeps I G S.simple) (levels : List LevelDesc) (powOps : List BOp) (f : Nat) :
    Keeps I G (ladderExp S levels powOps f) := by
  intro s h0
  unfold ladderExp
  exact binLevels_keeps hf he hs powOps f levels s h0

end
end Tumfl.Theory
