import Tumfl.Theory.ParsePrintableTok
import Tumfl.Theory.ParserWF
import Tumfl.Theory.PrintSimTok
/-!
# The parser-state invariant for `Printable`, and the primitives of the parser in the `WP` calculus

`StP s` : the lexer is untyped and both buffered tokens satisfy `TokP` (a `NAME` token carries an identifier that is not a
keyword, a `NUMBER` token a numeral tuple with `numOKp`).  `PSpecP m W` is `PSpec` of `ParserWFCore.lean` with `StP` in
place of `StOK`.
-/
namespace Tumfl.Theory
open Tumfl.Model Tumfl.Spec

set_option linter.unusedVariables false

/-- the parser-state invariant -/
def StP (s : PSt) : Prop := TokP s.cur ∧ TokP s.nxt ∧ s.cfg.typed = false

variable {α β : Type}

/-- `m` keeps `StP` and delivers a result satisfying `W` -/
def PSpecP (m : PM α) (W : α → Prop) : Prop := ∀ s, StP s → WP m (fun a s' => StP s' ∧ W a) s

theorem PSpecP.call {m : PM α} {W : α → Prop} {Q : α → PSt → Prop} {s : PSt}
    (h : PSpecP m W) (hs : StP s) (hq : ∀ a s', StP s' → W a → Q a s') : WP m Q s :=
  WP_call (h s hs) (fun a s' hh => hq a s' hh.1 hh.2)

theorem PSpecP_fuelErrP {W : α → Prop} : PSpecP (fuelErrP : PM α) W := fun _ _ => WP_fuelErrP

theorem PSpecP_addHint (wher what : String) : PSpecP (addHint wher what) (fun _ => True) :=
  fun _ hs => ⟨⟨hs, trivial⟩⟩

theorem PSpecP_removeHint : PSpecP removeHint (fun _ => True) := by
  intro s hs
  by_cases h : s.hints.isEmpty = true
  · constructor; simp only [removeHint, h, if_true]; exact NoAssert_index _
  · constructor; simp only [removeHint, h]; exact ⟨hs, trivial⟩

theorem PSpecP_switchHint (what : String) : PSpecP (switchHint what) (fun _ => True) := by
  intro s hs
  cases h : s.hints.getLast? with
  | none => constructor; simp only [switchHint, h]; exact NoAssert_index _
  | some x => constructor; simp only [switchHint, h]; exact ⟨hs, trivial⟩

theorem PSpecP_assertTok (t : TT) : PSpecP (assertTok t) (fun _ => True) := by
  intro s hs
  refine WP_call (WP_assertTok t s) ?_
  rintro _ _ ⟨rfl, _⟩
  exact ⟨hs, trivial⟩

/-- the state invariant is preserved by `_eat_token` -/
theorem PSpecP_eatRaw : PSpecP eatRaw (fun _ => True) := by
  intro s hs
  constructor
  unfold eatRaw
  cases h : getNextToken s.cfg s.lex with
  | error e => exact NoAssert_lex h
  | ok r =>
    obtain ⟨t, lx⟩ := r
    exact ⟨⟨hs.2.1, getNextToken_tokP hs.2.2 h, hs.2.2⟩, trivial⟩

theorem PSpecP_eat (t : Option TT) : PSpecP (eat t) (fun _ => True) := by
  intro s hs
  unfold eat
  cases t with
  | none => exact PSpecP_eatRaw s hs
  | some ty =>
    refine WP_bind (WP_call (PSpecP_assertTok ty s hs) ?_)
    intro _ s' h
    exact PSpecP_eatRaw s' h.1

theorem pExpr_of_nameNodeOK {e : Expr} (h : nameNodeOK e = true) : pExpr e = true := by
  obtain ⟨t, n, rfl, hn⟩ := nameNodeOK_iff h
  simpa [pExpr] using hn

/-- `__eat_name` yields a `Name` node whose text is an identifier that is not a keyword -/
theorem PSpecP_eatName : PSpecP eatName (fun r => nameNodeOK r = true ∧ pExpr r = true ∧ isTargetShape r = true) := by
  intro s hs
  unfold eatName
  refine WP_bind (WP_curTok ?_)
  unfold eat
  refine WP_bind (WP_bind (WP_call (WP_assertTok .NAME s) ?_))
  rintro _ s1 ⟨rfl, hty⟩
  refine WP_call (PSpecP_eatRaw _ hs) ?_
  intro _ s' h
  obtain ⟨n, hv, hn⟩ := hs.1.1 hty
  have : nameNodeOK (.name s1.cur (tokStr s1.cur)) = true := by
    simp only [nameNodeOK, tokStr, hv, hn]
  exact WP_pure ⟨h.1, this, pExpr_of_nameNodeOK this, rfl⟩

/-! ## `initParser` -/

theorem initParser_StP {text : List Char} {s0 : PSt} (h : initParser {} text = .ok s0) : StP s0 := by
  unfold initParser at h
  split at h
  · cases h
  · next t1 l1 h1 =>
    split at h
    · cases h
    · next t2 l2 h2 =>
      cases h
      exact ⟨getNextToken_tokP rfl h1, getNextToken_tokP rfl h2, rfl⟩

/-! ## helpers about the tree predicates -/

@[simp] theorem pBlock_extendComment (b : Model.Block) (c : List (List Char)) : pBlock (b.extendComment c) = pBlock b := by
  cases b with
  | mk t ss rs ch => cases rs <;> simp only [Block.extendComment, pBlock]

theorem pBlock_chunk (t : Token) (ss : List Stmt) (rs : Option (List Expr)) (c c' : Bool) :
    pBlock (.mk t ss rs c) = pBlock (.mk t ss rs c') := by
  cases rs <;> simp only [pBlock]

/-- the `elseif` branches collected by `parseElseIfs` -/
def pElifs : List (Token × Expr × Model.Block) → Bool
  | [] => true
  | x :: rest => pExpr x.2.1 && !x.2.2.isChunk && pBlock x.2.2 && pElifs rest

@[simp] theorem pFalse_foldr (c : List (List Char)) (tail : IfFalse) :
    ∀ (elifs : List (Token × Expr × Model.Block)),
      pFalse (elifs.foldr (fun (x : Token × Expr × Model.Block) acc => .elif x.1 x.2.1 (x.2.2.extendComment c) acc) tail)
        = (pElifs elifs && pFalse tail)
  | [] => by simp [pElifs]
  | x :: rest => by
    simp only [List.foldr_cons, pFalse, pElifs, pBlock_extendComment, isChunk_extendComment,
      pFalse_foldr c tail rest, Bool.and_assoc]

theorem paramsOK_names : ∀ (ns : List Expr), ns.all nameNodeOK = true → paramsOK ns = true
  | [], _ => rfl
  | e :: r, h => by
    simp only [List.all_cons, Bool.and_eq_true] at h
    obtain ⟨t, n, rfl, hn⟩ := nameNodeOK_iff h.1
    have := paramsOK_names r h.2
    cases r <;> simp_all [paramsOK, nameNodeOK]

theorem paramsOK_names_vararg (c : Token) : ∀ (ns : List Expr), ns.all nameNodeOK = true →
    paramsOK (ns ++ [.vararg c]) = true
  | [], _ => rfl
  | e :: r, h => by
    simp only [List.all_cons, Bool.and_eq_true] at h
    obtain ⟨t, n, rfl, hn⟩ := nameNodeOK_iff h.1
    have := paramsOK_names_vararg c r h.2
    cases r <;> simp_all [paramsOK, nameNodeOK]

theorem pArgs_of_names : ∀ (ns : List Expr), ns.all nameNodeOK = true → pArgs ns = true
  | [], _ => rfl
  | e :: r, h => by
    simp only [List.all_cons, Bool.and_eq_true] at h
    simp only [pArgs, pExpr_of_nameNodeOK h.1, pArgs_of_names r h.2, Bool.and_self]

theorem isVarNode_eq (e : Expr) : isVarNode e = isTargetShape e := by
  cases e <;> rfl

theorem all_isVarNode (vs : List Expr) : vs.all isVarNode = vs.all isTargetShape := by
  have : isVarNode = isTargetShape := funext isVarNode_eq
  rw [this]

end Tumfl.Theory
