import Tumfl.Theory.ResolveFaithfulDefs
import Tumfl.Theory.ResolveTermGrow
/-!
# Dependency resolver: refinement of the "faithful inlining" specification

`resolve_faithful_spec` (and `resolveBlock_faithful`, ... one per function): every successful run of a `resolve*` function (any fuel, any initial state) relates its input to its
output by the corresponding `Inl*` relation of `ResolveFaithfulDefs`; `resolve_faithful` is the whole-program corollary.
`resolveStmt_require_found` is the deduplication clause (which of the two statement-level rules was used is decided by
the `found` table), and the last section is a non-vacuity example.
-/
namespace Tumfl.Theory
open Tumfl.Model

/-- error postcondition "anything" -/
abbrev RAnyErr : PyErr → Prop := fun _ => True

theorem getDependencyPath_faithful (fs : FS) (sp : List Path) (name : List Char) (dir : Path) (t : Token) (dedup : Bool) :
    Spec (getDependencyPath fs sp name dir t dedup)
      (fun p => ∃ path, findFileInPath fs sp name dir = some path ∧ (p = some path ∨ (p = none ∧ dedup = true))) RAnyErr := by
  intro st
  refine ⟨?_, fun _ _ => trivial⟩
  intro o st' h
  obtain ⟨p, hp, h | h | h⟩ := getDependencyPath_ok h
  · exact ⟨p, hp, Or.inr ⟨h.2.2.1, h.1⟩⟩
  · exact ⟨p, hp, Or.inl h.2.2.1⟩
  · exact ⟨p, hp, Or.inl h.2.1⟩

theorem parseFile_faithful (fs : FS) (p : Path) :
    Spec (parseFile fs p) (fun b => ∃ text x, fs.read p = some text ∧ parseText text = .ok (b, x)) RAnyErr := by
  intro st
  refine ⟨?_, fun _ _ => trivial⟩
  intro b st' h
  exact (parseFile_ok h).2

set_option hygiene false in
macro "inl_ih" : tactic => `(tactic|
  first | exact ihE _ _ | exact ihEs _ _ | exact ihFs _ _ | exact ihB _ _ | exact ihSs _ _ | exact ihO _ _
        | exact ihS _ _ | exact ihF _ _)

set_option hygiene false in
macro "inl_steps" : tactic => `(tactic|
  repeat (first
    | (refine Spec.bind (by inl_ih) ?_; intro _ _)
    | (apply Spec.pure; constructor <;> assumption)))

theorem isReqLit_of_not_name {fn : Expr} (args : List Expr) (h : isRequireName fn = false) : isReqLit fn args = false := by
  simp [isReqLit, h]

/-- MAIN THEOREM (refinement), as Hoare triples: any fuel, any initial state -/
theorem resolve_faithful_spec (fs : FS) (sp : List Path) : ∀ f : Nat,
    (∀ dir e, Spec (resolveExpr fs sp f dir e) (fun e' => InlExpr fs sp dir e e') RAnyErr) ∧
    (∀ dir es, Spec (resolveExprs fs sp f dir es) (fun es' => InlExprs fs sp dir es es') RAnyErr) ∧
    (∀ dir fds, Spec (resolveFields fs sp f dir fds) (fun fds' => InlFields fs sp dir fds fds') RAnyErr) ∧
    (∀ dir b, Spec (resolveBlock fs sp f dir b) (fun b' => InlBlock fs sp dir b b') RAnyErr) ∧
    (∀ dir ss, Spec (resolveStmts fs sp f dir ss) (fun ss' => InlStmts fs sp dir ss ss') RAnyErr) ∧
    (∀ dir o, Spec (resolveOptExpr fs sp f dir o) (fun o' => InlOptExpr fs sp dir o o') RAnyErr) ∧
    (∀ dir s, Spec (resolveStmt fs sp f dir s) (fun s' => InlStmt fs sp dir s s') RAnyErr) ∧
    (∀ dir fl, Spec (resolveFalse fs sp f dir fl) (fun fl' => InlFalse fs sp dir fl fl') RAnyErr) := by
  intro f
  induction f with
  | zero =>
    refine ⟨?_, ?_, ?_, ?_, ?_, ?_, ?_, ?_⟩ <;> intro dir x
    · rw [resolveExpr]; exact Spec.rfuel trivial
    · rw [resolveExprs]; exact Spec.rfuel trivial
    · rw [resolveFields]; exact Spec.rfuel trivial
    · rw [resolveBlock]; exact Spec.rfuel trivial
    · rw [resolveStmts]; exact Spec.rfuel trivial
    · rw [resolveOptExpr]; exact Spec.rfuel trivial
    · rw [resolveStmt]; exact Spec.rfuel trivial
    · rw [resolveFalse]; exact Spec.rfuel trivial
  | succ f ih =>
    obtain ⟨ihE, ihEs, ihFs, ihB, ihSs, ihO, ihS, ihF⟩ := ih
    refine ⟨?_, ?_, ?_, ?_, ?_, ?_, ?_, ?_⟩
    · intro dir e
      cases e <;> simp only [resolveExpr]
      all_goals try (inl_steps; done)
      rename_i t fn args
      cases hreq : isRequireName fn
      · simp only [Bool.false_eq_true, if_false]
        refine Spec.bind (by inl_ih) ?_; intro _ _
        refine Spec.bind (by inl_ih) ?_; intro _ _
        exact Spec.pure (InlExpr.call (isReqLit_of_not_name _ hreq) ‹_› ‹_›)
      · simp only [if_true]
        split
        · refine Spec.bind (getDependencyPath_faithful _ _ _ _ _ _) ?_
          intro p hp
          obtain ⟨path, hfind, hp | ⟨_, hd⟩⟩ := hp
          · subst hp
            simp only
            refine Spec.bind (parseFile_faithful fs path) ?_
            intro ast hast
            obtain ⟨text, x, hread, hparse⟩ := hast
            obtain ⟨tk', ss, rs, c⟩ := ast
            simp only
            refine Spec.bind (by inl_ih) ?_; intro body' hbody
            exact Spec.pure (InlExpr.require hreq hfind hread hparse hbody)
          · cases hd
        · exact Spec.rthrow trivial
    · intro dir es
      cases es <;> simp only [resolveExprs] <;> inl_steps
    · intro dir fds
      cases fds with
      | nil => simp only [resolveFields]; inl_steps
      | cons fd rest =>
        simp only [resolveFields]
        refine Spec.bind (P := fun fd' => InlField fs sp dir fd fd') ?_ ?_
        · cases fd <;> simp only <;> inl_steps
        · intro _ _; inl_steps
    · intro dir b
      obtain ⟨t, ss, rs, c⟩ := b
      simp only [resolveBlock]
      refine Spec.bind (by inl_ih) ?_
      intro _ _
      refine Spec.bind (P := fun rs' => InlOptExprs fs sp dir rs rs') ?_ ?_
      · cases rs <;> simp only <;> inl_steps
      · intro _ _; inl_steps
    · intro dir ss
      cases ss <;> simp only [resolveStmts] <;> inl_steps
    · intro dir o
      cases o <;> simp only [resolveOptExpr] <;> inl_steps
    · intro dir s
      cases s <;> simp only [resolveStmt]
      all_goals try (inl_steps; done)
      · rename_i t fn args
        cases hreq : isRequireName fn
        · simp only [Bool.false_eq_true, if_false]
          refine Spec.bind (by inl_ih) ?_; intro _ _
          refine Spec.bind (by inl_ih) ?_; intro _ _
          exact Spec.pure (InlStmt.call (isReqLit_of_not_name _ hreq) ‹_› ‹_›)
        · simp only [if_true]
          split
          · refine Spec.bind (getDependencyPath_faithful _ _ _ _ _ _) ?_
            intro p hp
            obtain ⟨path, hfind, hp | ⟨hp, _⟩⟩ := hp
            · subst hp
              simp only
              refine Spec.bind (parseFile_faithful fs path) ?_
              intro ast hast
              obtain ⟨text, x, hread, hparse⟩ := hast
              obtain ⟨tk', ss, rs, c⟩ := ast
              simp only
              refine Spec.bind (by inl_ih) ?_; intro chunk' hchunk
              exact Spec.pure (InlStmt.requireInline hreq hfind hread hparse hchunk)
            · subst hp
              simp only
              exact Spec.pure (InlStmt.requireDedup hreq hfind)
          · exact Spec.rthrow trivial
      · rename_i t ns es
        refine Spec.bind (P := fun es' => InlOptExprs fs sp dir es es') ?_ ?_
        · cases es <;> simp only <;> inl_steps
        · intro _ _; inl_steps
    · intro dir fl
      cases fl <;> simp only [resolveFalse] <;> inl_steps

/-! ## The refinement theorem, function by function (any fuel, any initial state) -/

theorem resolveExpr_faithful {fs : FS} {sp : List Path} {f : Nat} {dir : Path} {e e' : Expr} {st st' : RSt}
    (h : resolveExpr fs sp f dir e st = .ok (e', st')) : InlExpr fs sp dir e e' :=
  ((resolve_faithful_spec fs sp f).1 dir e st).1 e' st' h
theorem resolveExprs_faithful {fs : FS} {sp : List Path} {f : Nat} {dir : Path} {es es' : List Expr} {st st' : RSt}
    (h : resolveExprs fs sp f dir es st = .ok (es', st')) : InlExprs fs sp dir es es' :=
  ((resolve_faithful_spec fs sp f).2.1 dir es st).1 es' st' h
theorem resolveFields_faithful {fs : FS} {sp : List Path} {f : Nat} {dir : Path} {fds fds' : List Field} {st st' : RSt}
    (h : resolveFields fs sp f dir fds st = .ok (fds', st')) : InlFields fs sp dir fds fds' :=
  ((resolve_faithful_spec fs sp f).2.2.1 dir fds st).1 fds' st' h
theorem resolveBlock_faithful {fs : FS} {sp : List Path} {f : Nat} {dir : Path} {b b' : Block} {st st' : RSt}
    (h : resolveBlock fs sp f dir b st = .ok (b', st')) : InlBlock fs sp dir b b' :=
  ((resolve_faithful_spec fs sp f).2.2.2.1 dir b st).1 b' st' h
theorem resolveStmts_faithful {fs : FS} {sp : List Path} {f : Nat} {dir : Path} {ss ss' : List Stmt} {st st' : RSt}
    (h : resolveStmts fs sp f dir ss st = .ok (ss', st')) : InlStmts fs sp dir ss ss' :=
  ((resolve_faithful_spec fs sp f).2.2.2.2.1 dir ss st).1 ss' st' h
theorem resolveOptExpr_faithful {fs : FS} {sp : List Path} {f : Nat} {dir : Path} {o o' : Option Expr} {st st' : RSt}
    (h : resolveOptExpr fs sp f dir o st = .ok (o', st')) : InlOptExpr fs sp dir o o' :=
  ((resolve_faithful_spec fs sp f).2.2.2.2.2.1 dir o st).1 o' st' h
theorem resolveStmt_faithful {fs : FS} {sp : List Path} {f : Nat} {dir : Path} {s s' : Stmt} {st st' : RSt}
    (h : resolveStmt fs sp f dir s st = .ok (s', st')) : InlStmt fs sp dir s s' :=
  ((resolve_faithful_spec fs sp f).2.2.2.2.2.2.1 dir s st).1 s' st' h
theorem resolveFalse_faithful {fs : FS} {sp : List Path} {f : Nat} {dir : Path} {fl fl' : IfFalse} {st st' : RSt}
    (h : resolveFalse fs sp f dir fl st = .ok (fl', st')) : InlFalse fs sp dir fl fl' :=
  ((resolve_faithful_spec fs sp f).2.2.2.2.2.2.2 dir fl st).1 fl' st' h

/-- WHOLE PROGRAM: the result of `resolve_recursive` is a faithful inlining of the parse of the main file -/
theorem resolve_faithful {fs : FS} {main : Path} {sp : List Path} {fuel : Nat} {b' : Block}
    (h : resolveRecursive fs main sp fuel = .ok b') :
    ∃ text b x, fs.read main = some text ∧ parseText text = .ok (b, x) ∧ InlBlock fs sp (dirOf main) b b' := by
  unfold resolveRecursive at h
  split at h
  · cases h
  · rename_i b1 st' heq
    cases h
    obtain ⟨b0, s0, h1, h2⟩ := rbind_ok heq
    obtain ⟨rfl, text, hs, hr, hp⟩ := parseFile_ok h1
    exact ⟨text, b0, hs, hr, hp, resolveBlock_faithful h2⟩

/-! ## The deduplication clause: which statement-level rule is used is decided by `found` -/

/-- a literal statement-level require becomes `;` exactly when the looked-up file is already in `found` (and then the state
is untouched); otherwise it becomes a `do ... end` block, the file was not in `found` before and is in `found` after -/
theorem resolveStmt_require_found {fs : FS} {sp : List Path} {f : Nat} {dir : Path} {t tk : Token} {fn : Expr}
    {name : List Char} {s' : Stmt} {st st' : RSt}
    (h : resolveStmt fs sp (f + 1) dir (.call t fn [.string tk name]) st = .ok (s', st'))
    (hfn : isRequireName fn = true) :
    ∃ path, findFileInPath fs sp name dir = some path ∧
      ((s' = .semi t ∧ path ∈ st.found ∧ st' = st) ∨
       (∃ c, s' = .block c ∧ path ∉ st.found ∧ path ∈ st'.found)) := by
  simp only [resolveStmt, hfn, if_true] at h
  obtain ⟨o, s1, h1, h2⟩ := rbind_ok h
  obtain ⟨p, hp, hc | hc | hc⟩ := getDependencyPath_ok h1
  · obtain ⟨_, hin, rfl, rfl⟩ := hc
    simp only at h2
    cases h2
    exact ⟨p, hp, Or.inl ⟨rfl, by simpa using hin, rfl⟩⟩
  · exact absurd hc.1 (by simp)
  · obtain ⟨hnin, rfl, rfl⟩ := hc
    simp only at h2
    obtain ⟨ast, s2, h3, h4⟩ := rbind_ok h2
    obtain ⟨rfl, _⟩ := parseFile_ok h3
    obtain ⟨c, s3, h5, h6⟩ := rbind_ok h4
    cases h6
    refine ⟨p, hp, Or.inr ⟨c, rfl, ?_, ?_⟩⟩
    · intro hmem
      have : st.found.contains p = true := by simpa using hmem
      rw [hnin] at this; cases this
    · have := (resolve_grow fs sp f).2.2.2.1 _ _ _ _ _ h5 p (by simp)
      simpa using this

/-- the same for the deduplicated outcome alone, in relational form: the `requireDedup` rule is used only for a file that
was inlined earlier -/
theorem resolveStmt_semi_found {fs : FS} {sp : List Path} {f : Nat} {dir : Path} {t tk : Token} {fn : Expr}
    {name : List Char} {st st' : RSt}
    (h : resolveStmt fs sp (f + 1) dir (.call t fn [.string tk name]) st = .ok (.semi t, st'))
    (hfn : isRequireName fn = true) :
    ∃ path, findFileInPath fs sp name dir = some path ∧ path ∈ st.found ∧ st' = st := by
  obtain ⟨path, hp, h1 | ⟨c, h1, _⟩⟩ := resolveStmt_require_found h hfn
  · exact ⟨path, hp, h1.2⟩
  · cases h1

end Tumfl.Theory
