import Tumfl.Theory.PrintSimBlock2
/-!
# Blocks and the root
-/
namespace Tumfl.Theory
open Tumfl.Model Tumfl.Spec

variable {semi : Bool} {sty : Style}

/-- the pieces of `return ...` at the end of a block -/
def retPieces (sty : Style) (rets : Option (List Expr)) : Pieces :=
  match rets with
  | some es => [P "return"] ++ (if es.isEmpty then [] else [S .space]) ++ visitArgs sty es ++ [S .statement]
  | none => []

theorem bodyPieces_eq (sty : Style) (ss : List Stmt) (rets : Option (List Expr)) :
    bodyPieces sty ss rets = visitStmts sty true ss ++ retPieces sty rets := by
  cases rets <;> rfl

def retNeed (semi : Bool) (sty : Style) (rets : Option (List Expr)) : Nat :=
  match rets with
  | some es => nA semi sty es + 1
  | none => 1

def refRet (semi : Bool) (sty : Style) (rets : Option (List Expr)) : Option (List Exp) :=
  match rets with
  | some es => some (refArgs semi sty es)
  | none => none

def retTks (semi : Bool) (sty : Style) (sep : Bool) (rets : Option (List Expr)) : List Spec.Tok :=
  match rets with
  | some es => mkTok (.kw "return") :: (TK semi (visitArgs sty es) ++ semiT sep)
  | none => []

theorem refBlock_eq (t : Token) (ss : List Stmt) (rets : Option (List Expr)) (c : Bool) :
    refBlock semi sty (.mk t ss rets c) =
      .mk (emp (semiN semi) ++ refStmts semi sty true ss ++ (if ss.isEmpty then [] else emp (semiN semi)))
        (refRet semi sty rets) := by
  cases rets <;> rfl

theorem refRoot_eq (t : Token) (ss : List Stmt) (rets : Option (List Expr)) (c : Bool) :
    refRoot semi sty (.mk t ss rets c) =
      .mk (refStmts semi sty true ss ++ (if ss.isEmpty || rets.isNone then [] else emp (semiN semi)))
        (refRet semi sty rets) := by
  cases rets <;> rfl

theorem nB_eq (t : Token) (ss : List Stmt) (rets : Option (List Expr)) (c : Bool) :
    nB semi sty (.mk t ss rets c) = nSs semi sty true ss (retNeed semi sty rets + semiN semi) + semiN semi + 1 := by
  cases rets <;> rfl

theorem nRoot_eq (t : Token) (ss : List Stmt) (rets : Option (List Expr)) (c : Bool) :
    nRoot semi sty (.mk t ss rets c) = nSs semi sty true ss (retNeed semi sty rets + semiN semi) + 1 := by
  cases rets <;> rfl

/-- the end of a block: `return ...` with its separator (`sep`; `visit_Chunk` slices it off at the root), or nothing -/
theorem ret_cont (rets : Option (List Expr))
    (hr : ∀ es, rets = some es → pArgs es = true ∧ ∀ e ∈ es, XProp semi sty e) (sep : Bool) {rest : List Spec.Tok}
    (h : blockFollow true (pk rest) = true) :
    SLCont (retNeed semi sty rets)
      (retTks semi sty sep rets ++ rest) [] (refRet semi sty rets) rest := by
  cases rets with
  | none => simpa [retNeed, refRet, retTks] using SL_none h
  | some es =>
    obtain ⟨hp, hall⟩ := hr es rfl
    simpa [retNeed, refRet, retTks] using SL_ret es hp hall sep h

theorem TK_retPieces (sty : Style) (rets : Option (List Expr)) :
    TK semi (retPieces sty rets) = retTks semi sty semi rets := by
  cases rets with
  | none => rfl
  | some es => by_cases h : es.isEmpty = true <;> simp [retPieces, retTks, h]

theorem safe_ret (rets : Option (List Expr)) (sep : Bool) {rest : List Spec.Tok} (h : blockFollow true (pk rest) = true) :
    safeTk (pk (retTks semi sty sep rets ++ rest)) = true := by
  cases rets with
  | none => exact (blockFollow_facts h).1
  | some es => rfl

theorem pStmts_of_all : (l : List Stmt) → (∀ x ∈ l, pStmt x = true) → pStmts l = true
  | [], _ => rfl
  | a :: l, h => by simp [pStmts, h a (by simp), pStmts_of_all l (fun x hx => h x (by simp [hx]))]

theorem block_step {t : Token} {ss : List Stmt} {rets : Option (List Expr)} {c : Bool}
    (hss : ∀ s ∈ ss, pStmt s = true ∧ StmtProp semi sty s)
    (hr : ∀ es, rets = some es → pArgs es = true ∧ ∀ e ∈ es, XProp semi sty e) :
    BlockProp semi sty (.mk t ss rets c) := by
  intro F rest hF hbf
  rw [nB_eq] at hF
  obtain ⟨F, rfl⟩ : ∃ f, F = f + 1 := ⟨F - 1, by omega⟩
  have c0 := ret_cont rets hr semi hbf
  have key : SLCont (nSs semi sty true ss (retNeed semi sty rets + semiN semi) + semiN semi)
      (semiT semi ++ TK semi (bodyPieces sty ss rets) ++ rest)
      (emp (semiN semi) ++ refStmts semi sty true ss ++ (if ss.isEmpty then [] else emp (semiN semi)))
      (refRet semi sty rets) rest := by
    rw [bodyPieces_eq, TK_append, TK_retPieces]
    cases ss with
    | nil =>
      have := SL_semiT c0 semi
      have e : nSs semi sty true [] (retNeed semi sty rets + semiN semi) = retNeed semi sty rets + semiN semi := rfl
      rw [e]
      simpa [visitStmts, refStmts] using SLCont.mono this (by omega)
    | cons s r =>
      rw [visitStmts_init sty true (s :: r) (by simp)]
      have c1 := SL_semiT c0 semi
      have c2 := stmts_step (s :: r) hss true _ _ _ _ _ c1 (by rw [semiT_eq]; exact safe_replicate _ _ (safe_ret rets semi hbf))
      have c3 := SL_semiT c2 semi
      simpa [List.append_assoc] using c3
  have := key F (by omega)
  rw [block, refBlock_eq]
  simp only [Block.stmts, Block.rets, this, bind, Except.bind]

/-! ## the root -/

theorem emit_chunk (sty : Style) (t : Token) (ss : List Stmt) (rets : Option (List Expr)) :
    emit sty (.mk t ss rets true) = (bodyPieces sty ss rets).dropLast := by
  simp only [emit, blk, Block.isChunk, if_true]
  rw [visitBlockFull_eq]
  rcases bodyPieces_last sty ss rets with h | ⟨init, h⟩
  · rw [h]; rfl
  · rw [h]
    have : [P "do", S .block, S .indent] ++ (init ++ [S .statement]) ++ [S .deindent, P "end"] =
        [P "do", S .block, S .indent] ++ init ++ [S .statement, S .deindent, P "end"] := by simp
    rw [this, sliceInner_mid _ _ _ 3 3 rfl rfl]
    simp

theorem TK_emit_chunk (sty : Style) (t : Token) (ss : List Stmt) (rets : Option (List Expr)) :
    TK semi (emit sty (.mk t ss rets true)) =
      (if rets.isNone then TK semi (initStmts sty true ss) else TK semi (visitStmts sty true ss)) ++
        retTks semi sty false rets := by
  rw [emit_chunk, bodyPieces_eq]
  cases rets with
  | some es =>
    have : visitStmts sty true ss ++ retPieces sty (some es) =
        (visitStmts sty true ss ++ ([P "return"] ++ (if es.isEmpty then [] else [S .space]) ++ visitArgs sty es)) ++
          [S .statement] := by simp [retPieces]
    rw [this, List.dropLast_concat]
    by_cases h : es.isEmpty = true <;> simp [h, retTks, semiT]
  | none =>
    simp only [retPieces, List.append_nil, retTks, Option.isNone_none, if_true]
    cases ss with
    | nil => rfl
    | cons s r => rw [visitStmts_init sty true (s :: r) (by simp), List.dropLast_concat]

theorem root_step {t : Token} {ss : List Stmt} {rets : Option (List Expr)}
    (hss : ∀ s ∈ ss, pStmt s = true ∧ StmtProp semi sty s)
    (hr : ∀ es, rets = some es → pArgs es = true ∧ ∀ e ∈ es, XProp semi sty e) (F : Nat)
    (hF : nRoot semi sty (.mk t ss rets true) ≤ F) :
    block F (TK semi (emit sty (.mk t ss rets true)) ++ [eofTok]) = .ok (refRoot semi sty (.mk t ss rets true), [eofTok]) := by
  rw [nRoot_eq] at hF
  obtain ⟨F, rfl⟩ : ∃ f, F = f + 1 := ⟨F - 1, by omega⟩
  have hbf : blockFollow true (pk [eofTok]) = true := rfl
  have c0 := ret_cont rets hr false hbf
  have key : SLCont (nSs semi sty true ss (retNeed semi sty rets + semiN semi))
      (TK semi (emit sty (.mk t ss rets true)) ++ [eofTok])
      (refStmts semi sty true ss ++ (if ss.isEmpty || rets.isNone then [] else emp (semiN semi)))
      (refRet semi sty rets) [eofTok] := by
    rw [TK_emit_chunk, List.append_assoc]
    cases hn : rets.isNone with
    | true =>
      simp only [Bool.or_true, if_true, List.append_nil]
      have := stmts_step ss hss true _ _ _ _ _ (SLCont.mono c0 (Nat.le_add_right _ (semiN semi)))
        (safe_ret rets false hbf)
      simpa using this
    | false =>
      simp only [Bool.or_false, Bool.false_eq_true, if_false]
      cases ss with
      | nil =>
        simp only [visitStmts, TK_nil, List.nil_append, refStmts, List.isEmpty_nil, if_true, nSs]
        exact SLCont.mono c0 (by omega)
      | cons s r =>
        rw [visitStmts_init sty true (s :: r) (by simp)]
        have c1 := SL_semiT c0 semi
        have c2 := stmts_step (s :: r) hss true _ _ _ _ _ c1
          (by rw [semiT_eq]; exact safe_replicate _ _ (safe_ret rets false hbf))
        simpa [List.append_assoc] using c2
  have := key F (by omega)
  rw [block, refRoot_eq]
  simp only [this, bind, Except.bind]

end Tumfl.Theory
