import Tumfl.Theory.UnlexEndBase
import Tumfl.Theory.LexBridgeStrB
/-!
# Unlex, part 0b: a quoted string at the very end of the text

`strBody q G (x ++ " ") = some (v, " ")` implies `strBody q F x = some (v, [])` (enough fuel `F`).
-/
namespace Tumfl.Theory
open Tumfl Tumfl.Spec Tumfl.Model
open StrB (strBody_zero strBody_nil strBody_newline strBody_x_short strBody_u_bad)

theorem skipSpaces_nil : skipSpaces [] = [] := by rw [skipSpaces]

theorem skipSpaces_cons (c : Char) (cs : List Char) :
    skipSpaces (c :: cs) = if isSpace c then skipSpaces cs else c :: cs := by rw [skipSpaces]

theorem skipSpaces_blank : ∀ r : List Char,
    skipSpaces (r ++ [' ']) = if skipSpaces r = [] then [] else skipSpaces r ++ [' ']
  | [] => by
    rw [List.nil_append, skipSpaces_cons, skipSpaces_nil]
    simp [show isSpace ' ' = true by decide]
  | c :: cs => by
    rw [List.cons_append, skipSpaces_cons, skipSpaces_cons]
    by_cases hc : isSpace c = true
    · simp only [hc, if_true]; exact skipSpaces_blank cs
    · simp only [hc, Bool.false_eq_true, if_false]
      simp

theorem readUHex_blank : ∀ (r : List Char) (acc : Nat) (seen : Bool),
    readUHex (r ++ [' ']) acc seen = (readUHex r acc seen).map blankR
  | [], acc, seen => by
    rw [List.nil_append, readUHex.eq_2, readUHex.eq_3]
    · simp [show isXDigit ' ' = false by decide]
    · intro h; cases h
  | c :: cs, acc, seen => by
    by_cases hc : c = '}'
    · subst hc
      rw [List.cons_append, readUHex, readUHex]
      cases seen <;> rfl
    · rw [List.cons_append, readUHex.eq_2 _ _ _ _ (fun h => hc h), readUHex.eq_2 _ _ _ _ (fun h => hc h)]
      by_cases hx : isXDigit c = true
      · simp only [hx, if_true]
        by_cases hv : acc * 16 + xdigitVal c < 2 ^ 31
        · simp only [hv, if_true]; exact readUHex_blank cs _ true
        · simp only [hv, if_false]; rfl
      · simp only [hx, Bool.false_eq_true, if_false]; rfl

theorem readDec3_blank (d : Char) (r : List Char) :
    readDec3 (d :: r ++ [' ']) = blankR (readDec3 (d :: r)) := by
  have hb : isDigit ' ' = false := by decide
  match r with
  | [] => simp [readDec3, hb, blankR]
  | [b] =>
    by_cases h : (isDigit d && isDigit b) = true
    · simp [readDec3, hb, blankR, h]
    · simp [readDec3, hb, blankR, h]
  | b :: c :: r =>
    simp only [List.cons_append, readDec3, blankR]
    split
    · rfl
    · split <;> rfl

theorem map_end_blank {g : List SUnit × List Char → List SUnit × List Char} {u : SUnit}
    (hg : ∀ x, g x = (u :: x.1, x.2)) {o o' : Option (List SUnit × List Char)} {v : List SUnit}
    (h : o.map g = some (v, [' '])) (ih : ∀ v', o = some (v', [' ']) → o' = some (v', [])) :
    o'.map g = some (v, []) := by
  cases o with
  | none => cases h
  | some p =>
    obtain ⟨p1, p2⟩ := p
    simp only [Option.map_some, hg, Option.some.injEq, Prod.mk.injEq] at h
    obtain ⟨rfl, rfl⟩ := h
    rw [ih p1 rfl]
    simp [hg]

/-- a quoted-string body read from `x ++ " "` up to the blank is read from `x` up to the end -/
theorem strBody_end_blank (q : Char) (hq : q = '"' ∨ q = '\'') : ∀ (G F : Nat) (x : List Char) (v : List SUnit),
    x.length < F → strBody q G (x ++ [' ']) = some (v, [' ']) → strBody q F x = some (v, []) := by
  have hqb := quote_ne_backslash hq
  have hqs : (' ' : Char) ≠ q := by rcases hq with rfl | rfl <;> decide
  intro G
  induction G with
  | zero => intro F x v _ h; rw [strBody_zero] at h; cases h
  | succ G ih =>
    intro F x v hF h
    obtain ⟨F, rfl⟩ : ∃ F', F = F' + 1 := ⟨F - 1, by omega⟩
    cases x with
    | nil =>
      rw [List.nil_append, strBody_plain q G ' ' [] hqs (by decide) (by decide) (by decide), strBody_nil] at h
      cases h
    | cons c cs =>
      simp only [List.length_cons] at hF
      rw [List.cons_append] at h
      by_cases hcq : c = q
      · subst hcq
        rw [strBody_close] at h ⊢
        simp only [Option.some.injEq, Prod.mk.injEq] at h
        obtain ⟨rfl, h2⟩ := h
        have : cs = [] := by
          have := congrArg List.length h2
          simp at this
          exact this
        rw [this]
      by_cases hnl : c = '\n' ∨ c = '\r'
      · rw [strBody_newline q G c _ hcq hnl] at h; cases h
      simp only [not_or] at hnl
      by_cases hbs : c = '\\'
      · subst hbs
        cases cs with
        | nil =>
          rw [List.nil_append, strBody_esc_other q G ' ' [] hqb (by decide) (by decide) (by decide)] at h
          simp [show isDigit ' ' = false by decide, show escChar ' ' = none by decide] at h
        | cons d r =>
          simp only [List.length_cons] at hF
          rw [List.cons_append] at h
          by_cases hx : d = 'x'
          · subst hx
            match r, hF, h with
            | [], _, h => rw [strBody_x_short q G _ hqb (by simp)] at h; cases h
            | [a], _, h =>
              rw [List.cons_append, List.nil_append, StrB.strBody_x q G a ' ' [] hqb] at h
              simp [show isXDigit ' ' = false by decide] at h
            | a :: b :: r', hF, h =>
              simp only [List.cons_append] at h
              rw [StrB.strBody_x q G a b _ hqb] at h
              rw [StrB.strBody_x q F a b _ hqb]
              by_cases hab : (isXDigit a && isXDigit b) = true
              · simp only [hab, if_true] at h ⊢
                exact map_end_blank (fun _ => rfl) h (fun v' hv' => ih F r' v' (by simp at hF; omega) hv')
              · simp only [hab, Bool.false_eq_true, if_false] at h; cases h
          by_cases hu : d = 'u'
          · subst hu
            cases r with
            | nil => rw [List.nil_append, strBody_u_bad q G _ hqb (by intro t ht; cases ht)] at h; cases h
            | cons e r' =>
              by_cases he : e = '{'
              · subst he
                rw [List.cons_append, strBody_uni q G _ hqb, readUHex_blank] at h
                rw [strBody_uni q F _ hqb]
                cases hr : readUHex r' 0 false with
                | none => rw [hr] at h; cases h
                | some p =>
                  obtain ⟨p1, p2⟩ := p
                  rw [hr] at h
                  simp only [Option.map_some, Option.bind_some, blankR] at h ⊢
                  have hl := (readUHex_suffix _ _ _ _ _ hr).length_le
                  exact map_end_blank (fun _ => rfl) h
                    (fun v' hv' => ih F p2 v' (by simp at hF; omega) hv')
              · rw [List.cons_append, strBody_u_bad q G _ hqb (by intro t ht; simp at ht; exact he ht.1)] at h
                cases h
          by_cases hz : d = 'z'
          · subst hz
            rw [strBody_z q G _ hqb, skipSpaces_blank] at h
            rw [strBody_z q F _ hqb]
            by_cases hsk : skipSpaces r = []
            · rw [if_pos hsk, strBody_nil] at h; cases h
            · rw [if_neg hsk] at h
              have hl := (skipSpaces_suffix r).length_le
              exact ih F _ v (by omega) h
          have hx' : (d == 'x') = false := by simpa using hx
          have hu' : (d == 'u') = false := by simpa using hu
          have hz' : (d == 'z') = false := by simpa using hz
          rw [strBody_esc_other q G d _ hqb hx' hu' hz'] at h
          rw [strBody_esc_other q F d _ hqb hx' hu' hz']
          by_cases hd : isDigit d = true
          · simp only [hd, if_true] at h ⊢
            rw [← List.cons_append, readDec3_blank] at h
            simp only [blankR] at h
            by_cases hv : (readDec3 (d :: r)).1 ≤ 255
            · simp only [hv, if_true] at h ⊢
              have hl := (readDec3_suffix (d :: r)).length_le
              simp only [List.length_cons] at hl
              exact map_end_blank (fun _ => rfl) h (fun v' hv' => ih F _ v' (by omega) hv')
            · simp only [hv, if_false] at h; cases h
          · simp only [hd, Bool.false_eq_true, if_false] at h ⊢
            cases hec : escChar d with
            | none => rw [hec] at h; cases h
            | some w =>
              rw [hec] at h
              simp only [Option.bind_some] at h ⊢
              exact map_end_blank (fun _ => rfl) h (fun v' hv' => ih F r v' (by omega) hv')
      · rw [strBody_plain q G c _ hcq hbs hnl.1 hnl.2] at h
        rw [strBody_plain q F c _ hcq hbs hnl.1 hnl.2]
        exact map_end_blank (fun ⟨_, _⟩ => rfl) h (fun v' hv' => ih F cs v' (by omega) hv')

end Tumfl.Theory
