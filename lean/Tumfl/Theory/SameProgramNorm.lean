import Tumfl.Theory.PrintSimDefs
import Tumfl.Theory.ParsePrintableTok
/-!
# Normalisation of reference trees, and the reference tree a model tree denotes

* `normS : Spec.Block → Spec.Block` (structural; `nsExp`, `nsStat`, ...): erase every `paren`, drop every `Stat.empty`,
  replace every numeral by its canonical form `canon`.
* `denote : Model.Block → Spec.Block` (`toE`, `toS`, ...): the normal reference tree of a model tree (`Semicolon` statements
  dropped, numerals as the reference grammar reads their printed form).
* `nfBlock` (`nfExp`, ...): normal reference trees: no `paren`, no `Stat.empty`, every numeral canonical.
-/
namespace Tumfl.Theory
open Tumfl.Model

/-! ## normalisation of reference trees -/

mutual
def nsExp : Spec.Exp → Spec.Exp
  | .nil => .nil
  | .tru => .tru
  | .fls => .fls
  | .vararg => .vararg
  | .num n => .num (canon n)
  | .str v => .str v
  | .func ps va body => .func ps va (nsBlock body)
  | .table fs => .table (nsFields fs)
  | .bin o l r => .bin o (nsExp l) (nsExp r)
  | .un o e => .un o (nsExp e)
  | .paren e => nsExp e
  | .name s => .name s
  | .index p k => .index (nsExp p) (nsExp k)
  | .dot p n => .dot (nsExp p) n
  | .call f args => .call (nsExp f) (nsExps args)
  | .mcall f m args => .mcall (nsExp f) m (nsExps args)

def nsExps : List Spec.Exp → List Spec.Exp
  | [] => []
  | e :: rest => nsExp e :: nsExps rest

def nsFields : List Spec.Field → List Spec.Field
  | [] => []
  | f :: rest => nsField f :: nsFields rest

def nsField : Spec.Field → Spec.Field
  | .pos e => .pos (nsExp e)
  | .named n e => .named n (nsExp e)
  | .keyed k e => .keyed (nsExp k) (nsExp e)

def nsBlock : Spec.Block → Spec.Block
  | .mk ss ret => .mk (nsStats ss) (match ret with | some es => some (nsExps es) | none => none)

def nsStats : List Spec.Stat → List Spec.Stat
  | [] => []
  | s :: rest => if isEmptyStat s then nsStats rest else nsStat s :: nsStats rest

def nsStat : Spec.Stat → Spec.Stat
  | .empty => .empty
  | .assign ts es => .assign (nsExps ts) (nsExps es)
  | .call e => .call (nsExp e)
  | .label n => .label n
  | .brk => .brk
  | .goto n => .goto n
  | .doo b => .doo (nsBlock b)
  | .whl c b => .whl (nsExp c) (nsBlock b)
  | .rep b c => .rep (nsBlock b) (nsExp c)
  | .iff c t elifs els => .iff (nsExp c) (nsBlock t) (nsElifs elifs) (nsOptBlock els)
  | .fornum v a b s body =>
    .fornum v (nsExp a) (nsExp b) (match s with | some s => some (nsExp s) | none => none) (nsBlock body)
  | .forin ns es body => .forin ns (nsExps es) (nsBlock body)
  | .func ns m ps va body => .func ns m ps va (nsBlock body)
  | .localfunc n ps va body => .localfunc n ps va (nsBlock body)
  | .locl ns es => .locl ns (nsExps es)

def nsElifs : List Spec.ElseIf → List Spec.ElseIf
  | [] => []
  | .mk c b :: rest => .mk (nsExp c) (nsBlock b) :: nsElifs rest

def nsOptBlock : Option Spec.Block → Option Spec.Block
  | some b => some (nsBlock b)
  | none => none
end

/-- the reference tree without parentheses, without empty statements, every numeral in canonical form -/
def normS (b : Spec.Block) : Spec.Block := nsBlock b

/-! ## normal reference trees -/

mutual
def nfExp : Spec.Exp → Bool
  | .nil | .tru | .fls | .vararg | .str _ | .name _ => true
  | .num n => canon n == n
  | .func _ _ body => nfBlock body
  | .table fs => nfFields fs
  | .bin _ l r => nfExp l && nfExp r
  | .un _ e => nfExp e
  | .paren _ => false
  | .index p k => nfExp p && nfExp k
  | .dot p _ => nfExp p
  | .call f args => nfExp f && nfExps args
  | .mcall f _ args => nfExp f && nfExps args

def nfExps : List Spec.Exp → Bool
  | [] => true
  | e :: rest => nfExp e && nfExps rest

def nfFields : List Spec.Field → Bool
  | [] => true
  | f :: rest => nfField f && nfFields rest

def nfField : Spec.Field → Bool
  | .pos e => nfExp e
  | .named _ e => nfExp e
  | .keyed k e => nfExp k && nfExp e

def nfBlock : Spec.Block → Bool
  | .mk ss ret => nfStats ss && (match ret with | some es => nfExps es | none => true)

def nfStats : List Spec.Stat → Bool
  | [] => true
  | s :: rest => !isEmptyStat s && nfStat s && nfStats rest

def nfStat : Spec.Stat → Bool
  | .empty | .label _ | .brk | .goto _ => true
  | .assign ts es => nfExps ts && nfExps es
  | .call e => nfExp e
  | .doo b => nfBlock b
  | .whl c b => nfExp c && nfBlock b
  | .rep b c => nfBlock b && nfExp c
  | .iff c t elifs els => nfExp c && nfBlock t && nfElifs elifs && nfOptBlock els
  | .fornum _ a b s body => nfExp a && nfExp b && (match s with | some s => nfExp s | none => true) && nfBlock body
  | .forin _ es body => nfExps es && nfBlock body
  | .func _ _ _ _ body => nfBlock body
  | .localfunc _ _ _ body => nfBlock body
  | .locl _ es => nfExps es

def nfElifs : List Spec.ElseIf → Bool
  | [] => true
  | .mk c b :: rest => nfExp c && nfBlock b && nfElifs rest

def nfOptBlock : Option Spec.Block → Bool
  | some b => nfBlock b
  | none => true
end

/-- a normal reference tree: no `paren` node, no `Stat.empty` in a statement list, every numeral equal to its canonical
form -/
def NormalS (b : Spec.Block) : Prop := nfBlock b = true

instance (b : Spec.Block) : Decidable (NormalS b) := by unfold NormalS; exact inferInstance

/-! ## the reference tree a model tree denotes -/

mutual
def toE : Expr → Spec.Exp
  | .nil _ => .nil
  | .bool _ v => if v then .tru else .fls
  | .vararg _ => .vararg
  | .number _ n => .num ((Spec.parseNumeral (numberStr n)).getD default)
  | .string _ v => .str (v.map fun c => Spec.SUnit.ch c.toNat)
  | .func _ ps body => .func (refParams ps).1 (refParams ps).2 (toB body)
  | .table _ fs => .table (toFs fs)
  | .binop _ o l r => .bin o (toE l) (toE r)
  | .unop _ u e => .un u (toE e)
  | .name _ n => .name (String.ofList n)
  | .index _ l k => .index (toE l) (toE k)
  | .namedIndex _ l nm => .dot (toE l) (nameS nm)
  | .call _ f args => .call (toE f) (toEs args)
  | .method _ f m args => .mcall (toE f) (nameS m) (toEs args)

def toEs : List Expr → List Spec.Exp
  | [] => []
  | e :: rest => toE e :: toEs rest

def toFs : List Field → List Spec.Field
  | [] => []
  | f :: rest => toF f :: toFs rest

def toF : Field → Spec.Field
  | .explicit _ k v => .keyed (toE k) (toE v)
  | .named _ n v => .named (nameS n) (toE v)
  | .numbered _ v => .pos (toE v)

def toB : Block → Spec.Block
  | .mk _ stmts rets _ => .mk (toSs stmts) (match rets with | some es => some (toEs es) | none => none)

def toSs : List Stmt → List Spec.Stat
  | [] => []
  | s :: rest => if isSemi s then toSs rest else toS s :: toSs rest

def toS : Stmt → Spec.Stat
  | .assign _ ts es => .assign (toEs ts) (toEs es)
  | .block b => .doo (toB b)
  | .brk _ => .brk
  | .call _ f args => .call (.call (toE f) (toEs args))
  | .funcDef _ names m ps body =>
    .func (names.map nameS) (match m with | some mn => some (nameS mn) | none => none) (refParams ps).1 (refParams ps).2
      (toB body)
  | .goto _ l => .goto (nameS l)
  | .label _ n => .label (nameS n)
  | .iff _ test tr fl => .iff (toE test) (toB tr) (toElifs fl) (toElse fl)
  | .iterFor _ ns es body => .forin (ns.map nameS) (toEs es) (toB body)
  | .localAssign _ names es => .locl (names.map refAtt) (match es with | some es => toEs es | none => [])
  | .localFunc _ n ps body => .localfunc (nameS n) (refParams ps).1 (refParams ps).2 (toB body)
  | .method _ f m args => .call (.mcall (toE f) (nameS m) (toEs args))
  | .numFor _ v a b step body =>
    .fornum (nameS v) (toE a) (toE b) (match step with | some s => some (toE s) | none => none) (toB body)
  | .repeat _ c body => .rep (toB body) (toE c)
  | .semi _ => .empty
  | .whl _ c body => .whl (toE c) (toB body)

def toElifs : IfFalse → List Spec.ElseIf
  | .none => []
  | .block _ => []
  | .elif _ test tr fl => .mk (toE test) (toB tr) :: toElifs fl

def toElse : IfFalse → Option Spec.Block
  | .none => none
  | .block b => some (toB b)
  | .elif _ _ _ fl => toElse fl
end

/-- the normal reference tree of a model tree -/
def denote (b : Block) : Spec.Block := toB b

end Tumfl.Theory
