import Tumfl.Theory.SimTok
/-!
# The tree relation between model trees (`Model.Expr/Stmt/Block`) and reference trees (`Spec.Exp/Stat/Block`)

`ExpRel e c` : the reference tree `c` with every `paren` erased is the model tree `e` under the evident
constructor correspondence.  Tokens stored in model nodes are unconstrained.
-/
namespace Tumfl.Theory
open Tumfl.Model

/-- pointwise relation of two lists (core has no `List.Forall₂`) -/
inductive Forall₂ {α β : Type} (R : α → β → Prop) : List α → List β → Prop
  | nil : Forall₂ R [] []
  | cons {a b l l'} : R a b → Forall₂ R l l' → Forall₂ R (a :: l) (b :: l')

/-- a model `Name` node and a reference name -/
def NameRel (e : Expr) (n : String) : Prop := ∃ t cs, e = .name t cs ∧ n = String.ofList cs

def OptNameRel : Option Expr → Option String → Prop
  | none, none => True
  | some e, some n => NameRel e n
  | _, _ => False

/-- function parameters: a list of `Name` nodes, possibly ended by a `Vararg` node ~ (names, vararg flag) -/
inductive ParamsRel : List Expr → List String → Bool → Prop
  | nil : ParamsRel [] [] false
  | vararg (t : Token) : ParamsRel [.vararg t] [] true
  | cons {e n ps ns va} : NameRel e n → ParamsRel ps ns va → ParamsRel (e :: ps) (n :: ns) va

/-- a name with an optional attribute -/
def AttRel : AttName → String × Option String → Prop
  | .mk nm att, (n, a) => NameRel nm n ∧ OptNameRel att a

mutual
inductive ExpRel : Expr → Spec.Exp → Prop
  | nil (t : Token) : ExpRel (.nil t) .nil
  | tru (t : Token) : ExpRel (.bool t true) .tru
  | fls (t : Token) : ExpRel (.bool t false) .fls
  | vararg (t : Token) : ExpRel (.vararg t) .vararg
  | num (t : Token) {n m} : NumRel n m → ExpRel (.number t n) (.num m)
  | str (t : Token) (v : List Char) : ExpRel (.string t v) (.str (v.map fun c => Spec.SUnit.ch c.toNat))
  | func (t : Token) {ps ns va body b} : ParamsRel ps ns va → BlockRel body b → ExpRel (.func t ps body) (.func ns va b)
  | table (t : Token) {fs fs'} : Forall₂ FieldRel fs fs' → ExpRel (.table t fs) (.table fs')
  | bin (t : Token) (o : Spec.BOp) {l r l' r'} : ExpRel l l' → ExpRel r r' → ExpRel (.binop t o l r) (.bin o l' r')
  | un (t : Token) (o : Spec.UOp) {e e'} : ExpRel e e' → ExpRel (.unop t o e) (.un o e')
  | name (t : Token) (n : List Char) : ExpRel (.name t n) (.name (String.ofList n))
  | index (t : Token) {l k l' k'} : ExpRel l l' → ExpRel k k' → ExpRel (.index t l k) (.index l' k')
  | dot (t : Token) {l nm l' n} : ExpRel l l' → NameRel nm n → ExpRel (.namedIndex t l nm) (.dot l' n)
  | call (t : Token) {f args f' args'} : ExpRel f f' → Forall₂ ExpRel args args' → ExpRel (.call t f args) (.call f' args')
  | mcall (t : Token) {f m args f' m' args'} : ExpRel f f' → NameRel m m' → Forall₂ ExpRel args args' →
      ExpRel (.method t f m args) (.mcall f' m' args')
  /-- a parenthesis of the reference tree is erased -/
  | paren {e c} : ExpRel e c → ExpRel e (.paren c)
inductive FieldRel : Field → Spec.Field → Prop
  | keyed (t : Token) {k v k' v'} : ExpRel k k' → ExpRel v v' → FieldRel (.explicit t k v) (.keyed k' v')
  | named (t : Token) {nm v n v'} : NameRel nm n → ExpRel v v' → FieldRel (.named t nm v) (.named n v')
  | pos (t : Token) {v v'} : ExpRel v v' → FieldRel (.numbered t v) (.pos v')
inductive StmtRel : Stmt → Spec.Stat → Prop
  | assign (t : Token) {ts es ts' es'} : Forall₂ ExpRel ts ts' → Forall₂ ExpRel es es' →
      StmtRel (.assign t ts es) (.assign ts' es')
  | doo {b b'} : BlockRel b b' → StmtRel (.block b) (.doo b')
  | brk (t : Token) : StmtRel (.brk t) .brk
  | call (t : Token) {f args f' args'} : ExpRel f f' → Forall₂ ExpRel args args' →
      StmtRel (.call t f args) (.call (.call f' args'))
  | mcall (t : Token) {f m args f' m' args'} : ExpRel f f' → NameRel m m' → Forall₂ ExpRel args args' →
      StmtRel (.method t f m args) (.call (.mcall f' m' args'))
  | func (t : Token) {names method ps body ns m ns' va b} : Forall₂ NameRel names ns → OptNameRel method m →
      ParamsRel ps ns' va → BlockRel body b → StmtRel (.funcDef t names method ps body) (.func ns m ns' va b)
  | goto (t : Token) {l n} : NameRel l n → StmtRel (.goto t l) (.goto n)
  | label (t : Token) {l n} : NameRel l n → StmtRel (.label t l) (.label n)
  | iff (t : Token) {c tr fl c' tr' elifs els} : ExpRel c c' → BlockRel tr tr' → IfFalseRel fl elifs els →
      StmtRel (.iff t c tr fl) (.iff c' tr' elifs els)
  | forin (t : Token) {names es body ns es' b} : Forall₂ NameRel names ns → Forall₂ ExpRel es es' →
      BlockRel body b → StmtRel (.iterFor t names es body) (.forin ns es' b)
  | locl0 (t : Token) {names ns} : Forall₂ AttRel names ns → StmtRel (.localAssign t names none) (.locl ns [])
  | locl1 (t : Token) {names es ns es'} : Forall₂ AttRel names ns → Forall₂ ExpRel es es' → es ≠ [] →
      StmtRel (.localAssign t names (some es)) (.locl ns es')
  | localfunc (t : Token) {nm ps body n ns va b} : NameRel nm n → ParamsRel ps ns va → BlockRel body b →
      StmtRel (.localFunc t nm ps body) (.localfunc n ns va b)
  | fornum0 (t : Token) {v a b body v' a' b' body'} : NameRel v v' → ExpRel a a' → ExpRel b b' → BlockRel body body' →
      StmtRel (.numFor t v a b none body) (.fornum v' a' b' none body')
  | fornum1 (t : Token) {v a b st body v' a' b' st' body'} : NameRel v v' → ExpRel a a' → ExpRel b b' → ExpRel st st' →
      BlockRel body body' → StmtRel (.numFor t v a b (some st) body) (.fornum v' a' b' (some st') body')
  | rep (t : Token) {c body c' b} : ExpRel c c' → BlockRel body b → StmtRel (.repeat t c body) (.rep b c')
  | empty (t : Token) : StmtRel (.semi t) .empty
  | whl (t : Token) {c body c' b} : ExpRel c c' → BlockRel body b → StmtRel (.whl t c body) (.whl c' b)
/-- the `false` slot of a model `If` ~ the flattened `elseif` list and the optional `else` block -/
inductive IfFalseRel : IfFalse → List Spec.ElseIf → Option Spec.Block → Prop
  | none : IfFalseRel .none [] none
  | els {b b'} : BlockRel b b' → IfFalseRel (.block b) [] (some b')
  | elif (t : Token) {c tr fl c' tr' elifs els} : ExpRel c c' → BlockRel tr tr' → IfFalseRel fl elifs els →
      IfFalseRel (.elif t c tr fl) (.mk c' tr' :: elifs) els
inductive BlockRel : Block → Spec.Block → Prop
  | blk0 (t : Token) (ch : Bool) {ss ss'} : Forall₂ StmtRel ss ss' → BlockRel (.mk t ss none ch) (.mk ss' none)
  | blk1 (t : Token) (ch : Bool) {ss es ss' es'} : Forall₂ StmtRel ss ss' → Forall₂ ExpRel es es' →
      BlockRel (.mk t ss (some es) ch) (.mk ss' (some es'))
end

/-- the reference tree is not a bare parenthesis -/
def NoParen : Spec.Exp → Prop
  | .paren _ => False
  | _ => True

theorem BlockRel.extendComment {b : Block} {b' : Spec.Block} (h : BlockRel b b') (c : List (List Char)) :
    BlockRel (b.extendComment c) b' := by
  cases h with
  | blk0 t ch h => exact .blk0 _ _ h
  | blk1 t ch h1 h2 => exact .blk1 _ _ h1 h2

theorem BlockRel.chunk {t : Token} {ss rs c c'} {b' : Spec.Block} (h : BlockRel (.mk t ss rs c) b') :
    BlockRel (.mk t ss rs c') b' := by
  cases h with
  | blk0 t ch h => exact .blk0 _ _ h
  | blk1 t ch h1 h2 => exact .blk1 _ _ h1 h2

end Tumfl.Theory
