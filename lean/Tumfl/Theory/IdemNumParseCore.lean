import Tumfl.Theory.IdemNumDefs
import Tumfl.Theory.FormatTextNums
/-!
# The numerals of the parsed tree are the numerals of the consumed `NUMBER` tokens: the calculus

* `Adv s cs s'` : the parser state `s'` is `s` advanced over the tokens `cs`.
* `Tr s0 s acc` : `s` is `s0` advanced over some tokens whose `NUMBER` tokens carry the tuples `acc`.
* `SPN s0 m acc c Q` : a success-only weakest-precondition calculus with two ghost values, the tuples `acc` consumed so
  far (since `s0`) and the current token `c`.
* `ladder_keepsT` : the generic expression ladder threads such an accumulator.
-/
namespace Tumfl.Theory.NumParse
open Tumfl Tumfl.Model Tumfl.Spec Tumfl.Theory

/-! ## `numT` -/

theorem numT_append (a b : List Token) : numT (a ++ b) = numT a ++ numT b := by
  simp [numT, List.filterMap_append]

theorem numT_single (t : Token) : numT [t] = (tokNum t).toList := by
  unfold numT
  cases h : tokNum t <;> simp [h]

theorem tokNum_of_ne {t : Token} (h : t.type ≠ .NUMBER) : tokNum t = none := by
  simp [tokNum, h]

theorem tokNum_of_num {t : Token} {n : NumTuple} (h : t.type = .NUMBER) (hv : t.value = .num n) : tokNum t = some n := by
  simp [tokNum, h, hv]

/-! ## `Reads` composes -/

theorem reads_append {cfg : LexCfg} {l l1 l2 : LexSt} {a b : List Token}
    (h1 : Reads cfg l a l1) (h2 : Reads cfg l1 b l2) : Reads cfg l (a ++ b) l2 := by
  induction h1 with
  | nil l => exact h2
  | cons hg _ ih => exact .cons hg (ih h2)

/-! ## `Adv` -/

/-- `s'` is `s` advanced over the token list `cs` -/
def Adv (s : PSt) (cs : List Token) (s' : PSt) : Prop :=
  s'.cfg = s.cfg ∧ ∃ rd, Reads s.cfg s.lex rd s'.lex ∧ s.cur :: s.nxt :: rd = cs ++ [s'.cur, s'.nxt]

theorem Adv.refl (s : PSt) : Adv s [] s := ⟨rfl, [], .nil _, rfl⟩

theorem Adv.eat {s s' : PSt} (h : eatRaw s = .ok ((), s')) : Adv s [s.cur] s' := by
  obtain ⟨t, lx, hg, rfl⟩ := eatRaw_ok h
  exact ⟨rfl, [t], .cons hg (.nil _), rfl⟩

theorem Adv.trans {s s1 s2 : PSt} {a b : List Token} (h1 : Adv s a s1) (h2 : Adv s1 b s2) : Adv s (a ++ b) s2 := by
  obtain ⟨c1, rd1, r1, e1⟩ := h1
  obtain ⟨c2, rd2, r2, e2⟩ := h2
  refine ⟨c2.trans c1, rd1 ++ rd2, reads_append r1 (c1 ▸ r2), ?_⟩
  have : s.cur :: s.nxt :: (rd1 ++ rd2) = (s.cur :: s.nxt :: rd1) ++ rd2 := rfl
  rw [this, e1, List.append_assoc]
  show a ++ (s1.cur :: s1.nxt :: rd2) = _
  rw [e2, List.append_assoc]

theorem Adv.hints {s s' : PSt} {cs : List Token} (h : Adv s cs s') (hh : List Hint) :
    Adv s cs { s' with hints := hh } := h

/-! ## `Tr` -/

/-- `s` is `s0` advanced over tokens whose numerals are `acc` -/
def Tr (s0 s : PSt) (acc : List NumTuple) : Prop := ∃ cs, Adv s0 cs s ∧ numT cs = acc

theorem Tr.refl (s0 : PSt) : Tr s0 s0 [] := ⟨[], Adv.refl _, rfl⟩

theorem Tr.eat {s0 s s' : PSt} {acc : List NumTuple} (h : Tr s0 s acc) (he : eatRaw s = .ok ((), s')) :
    Tr s0 s' (acc ++ (tokNum s.cur).toList) := by
  obtain ⟨cs, ha, hn⟩ := h
  exact ⟨cs ++ [s.cur], ha.trans (Adv.eat he), by rw [numT_append, numT_single, hn]⟩

theorem Tr.hints {s0 s : PSt} {acc : List NumTuple} (h : Tr s0 s acc) (hh : List Hint) :
    Tr s0 { s with hints := hh } acc := by
  obtain ⟨cs, ha, hn⟩ := h
  exact ⟨cs, ha.hints hh, hn⟩

/-! ## the calculus -/

variable {α β : Type} (s0 : PSt)

/-- whenever `m` is started in a state that is `s0` advanced over tokens with numerals `acc`, with current token `c`,
and succeeds with result `a`, the final state is `s0` advanced over tokens with numerals `acc'`, with current token `c'`,
such that `Q a acc' c'` -/
def SPN (m : PM α) (acc : List NumTuple) (c : Token) (Q : α → List NumTuple → Token → Prop) : Prop :=
  ∀ s, Tr s0 s acc → s.cur = c → ∀ a s', m s = .ok (a, s') → ∃ acc', Tr s0 s' acc' ∧ Q a acc' s'.cur

variable {s0}

theorem SPN_bind {m : PM α} {k : α → PM β} {acc : List NumTuple} {c : Token} {Q : β → List NumTuple → Token → Prop}
    (h : SPN s0 m acc c (fun a acc1 c1 => SPN s0 (k a) acc1 c1 Q)) : SPN s0 (m >>= k) acc c Q := by
  intro s hf hc b s' hr
  cases hm : m s with
  | error e => rw [bind_err hm] at hr; cases hr
  | ok r =>
    obtain ⟨a, s1⟩ := r
    rw [bind_ok hm] at hr
    obtain ⟨acc1, hf1, h1⟩ := h s hf hc a s1 hm
    exact h1 s1 hf1 rfl b s' hr

theorem SPN_call {m : PM α} {acc : List NumTuple} {c : Token} {Q' Q : α → List NumTuple → Token → Prop}
    (h : SPN s0 m acc c Q') (hq : ∀ a acc' c', Q' a acc' c' → Q a acc' c') : SPN s0 m acc c Q := by
  intro s hf hc a s' hr
  obtain ⟨acc', hf', h'⟩ := h s hf hc a s' hr
  exact ⟨acc', hf', hq _ _ _ h'⟩

theorem SPN_pure {a : α} {acc : List NumTuple} {c : Token} {Q : α → List NumTuple → Token → Prop}
    (h : Q a acc c) : SPN s0 (pure a : PM α) acc c Q := by
  intro s hf hc a' s' hr
  cases hr
  exact ⟨acc, hf, hc ▸ h⟩

theorem SPN_map {γ : Type} {m : PM α} {g : α → γ} {acc : List NumTuple} {c : Token}
    {Q : γ → List NumTuple → Token → Prop}
    (h : SPN s0 m acc c (fun a acc' c' => Q (g a) acc' c')) : SPN s0 (g <$> m) acc c Q := by
  intro s hf hc x s' hr
  cases hm : m s with
  | error e => simp [Functor.map, StateT.map, hm, bind, Except.bind] at hr
  | ok r =>
    obtain ⟨a, s1⟩ := r
    simp [Functor.map, StateT.map, hm, bind, Except.bind, pure, Except.pure] at hr
    obtain ⟨rfl, rfl⟩ := hr
    exact h s hf hc a s1 hm

theorem SPN_ite {p : Prop} [Decidable p] {a b : PM α} {acc : List NumTuple} {c : Token}
    {Q : α → List NumTuple → Token → Prop}
    (ha : Cond p → SPN s0 a acc c Q) (hb : Cond (¬ p) → SPN s0 b acc c Q) : SPN s0 (if p then a else b) acc c Q := by
  split
  · exact ha ‹_›
  · exact hb ‹_›

theorem SPN_curTok {acc : List NumTuple} {c : Token} {Q : Token → List NumTuple → Token → Prop}
    (h : Q c acc c) : SPN s0 curTok acc c Q := by
  intro s hf hc a s' hr
  cases hr
  exact ⟨acc, hf, by rw [hc]; exact h⟩

theorem SPN_nxtTok {acc : List NumTuple} {c : Token} {Q : Token → List NumTuple → Token → Prop}
    (h : ∀ n, Q n acc c) : SPN s0 nxtTok acc c Q := by
  intro s hf hc a s' hr
  cases hr
  exact ⟨acc, hf, by rw [hc]; exact h _⟩

theorem SPN_curIs {ty : TT} {acc : List NumTuple} {c : Token} {Q : Bool → List NumTuple → Token → Prop}
    (h : Q (c.type == ty) acc c) : SPN s0 (curIs ty) acc c Q := by
  intro s hf hc a s' hr
  cases hr
  exact ⟨acc, hf, by rw [hc]; exact h⟩

theorem SPN_perror {msg : String} {tok : Token} {acc : List NumTuple} {c : Token}
    {Q : α → List NumTuple → Token → Prop} : SPN s0 (perror msg tok : PM α) acc c Q := by
  intro s hf hc a s' hr; cases hr

theorem SPN_pyerr {kind site : String} {acc : List NumTuple} {c : Token}
    {Q : α → List NumTuple → Token → Prop} : SPN s0 (pyerr kind site : PM α) acc c Q := by
  intro s hf hc a s' hr; cases hr

theorem SPN_fuelErrP {acc : List NumTuple} {c : Token}
    {Q : α → List NumTuple → Token → Prop} : SPN s0 (fuelErrP : PM α) acc c Q := by
  intro s hf hc a s' hr; cases hr

theorem SPN_addHint {w x : String} {acc : List NumTuple} {c : Token} {Q : Unit → List NumTuple → Token → Prop}
    (h : Q () acc c) : SPN s0 (addHint w x) acc c Q := by
  intro s hf hc a s' hr
  cases hr
  exact ⟨acc, hf.hints _, by show Q () acc s.cur; rw [hc]; exact h⟩

theorem SPN_removeHint {acc : List NumTuple} {c : Token} {Q : Unit → List NumTuple → Token → Prop}
    (h : Q () acc c) : SPN s0 removeHint acc c Q := by
  intro s hf hc a s' hr
  unfold removeHint at hr
  split at hr
  · cases hr
  · cases hr; exact ⟨acc, hf.hints _, by show Q () acc s.cur; rw [hc]; exact h⟩

theorem SPN_switchHint {w : String} {acc : List NumTuple} {c : Token} {Q : Unit → List NumTuple → Token → Prop}
    (h : Q () acc c) : SPN s0 (switchHint w) acc c Q := by
  intro s hf hc a s' hr
  unfold switchHint at hr
  split at hr
  · cases hr
  · cases hr; exact ⟨acc, hf.hints _, by show Q () acc s.cur; rw [hc]; exact h⟩

theorem SPN_assertTok {ty : TT} {acc : List NumTuple} {c : Token} {Q : Unit → List NumTuple → Token → Prop}
    (h : c.type = ty → Q () acc c) : SPN s0 (assertTok ty) acc c Q := by
  intro s hf hc a s' hr
  unfold assertTok at hr
  split at hr
  · cases hr
  · rename_i hne
    cases hr
    refine ⟨acc, hf, ?_⟩
    rw [hc]
    exact h (by rw [← hc]; simpa using hne)

/-- `_eat_token`: the eaten token joins the consumed ones -/
theorem SPN_eatRaw {acc : List NumTuple} {c : Token} {Q : Unit → List NumTuple → Token → Prop}
    (h : ∀ c', Q () (acc ++ (tokNum c).toList) c') : SPN s0 eatRaw acc c Q := by
  intro s hf hc a s' hr
  exact ⟨_, hf.eat hr, by rw [hc]; exact h _⟩

/-- `_eat_token()` on a token that is not a `NUMBER` -/
theorem SPN_eatNone {acc : List NumTuple} {c : Token} {Q : Unit → List NumTuple → Token → Prop}
    (hne : c.type ≠ .NUMBER) (h : ∀ c', Q () acc c') : SPN s0 (eat none) acc c Q := by
  refine SPN_eatRaw (fun c' => ?_)
  rw [tokNum_of_ne hne]
  simpa using h c'

/-- `_eat_token()` on a `NUMBER` token -/
theorem SPN_eatNum {acc : List NumTuple} {c : Token} {Q : Unit → List NumTuple → Token → Prop}
    (h : ∀ c', Q () (acc ++ (tokNum c).toList) c') : SPN s0 (eat none) acc c Q := SPN_eatRaw h

/-- `_eat_token(ty)` -/
theorem SPN_eatSome {ty : TT} {acc : List NumTuple} {c : Token} {Q : Unit → List NumTuple → Token → Prop}
    (h : c.type = ty → ∀ c', Q () acc c') (hty : ty ≠ .NUMBER := by decide) : SPN s0 (eat (some ty)) acc c Q := by
  unfold eat
  refine SPN_bind (SPN_assertTok fun hp => ?_)
  refine SPN_eatRaw (fun c' => ?_)
  rw [tokNum_of_ne (by rw [hp]; exact hty)]
  simpa using h hp c'

/-- `__eat_name` yields a `Name` node: no numeral, and the eaten token is a `NAME` -/
theorem SPN_eatName {acc : List NumTuple} {c : Token} {Q : Expr → List NumTuple → Token → Prop}
    (h : ∀ e c', numsExpr e = [] → Q e acc c') : SPN s0 eatName acc c Q := by
  unfold eatName
  refine SPN_bind (SPN_curTok ?_)
  refine SPN_bind (SPN_eatSome fun _ c' => ?_)
  exact SPN_pure (h _ c' (by simp [numsExpr]))

/-! ## the generic ladder with an accumulator -/

section ladder
variable {σ ε Err T X : Type} {Tc : σ → List X → Prop} {N : ε → List X} {S : ExprSig σ ε Err T}

/-- a successful run of `m` appends the numerals of its result -/
def KeepsT (Tc : σ → List X → Prop) (N : ε → List X) (m : σ → Except Err (ε × σ)) : Prop :=
  ∀ s acc r s', Tc s acc → m s = .ok (r, s') → Tc s' (acc ++ N r)

/-- the numerals of the items collected by `rightCollect` -/
def itemsN (N : ε → List X) : List (T × BOp × ε) → List X
  | [] => []
  | x :: rest => N x.2.2 ++ itemsN N rest

theorem foldRight_N (hB : ∀ t o l r, N (S.mkBin t o l r) = N l ++ N r) :
    ∀ (items : List (T × BOp × ε)) (first : ε), N (foldRight S first items) = N first ++ itemsN N items
  | [], first => by simp [foldRight, itemsN]
  | (t, o, e) :: rest, first => by
    rw [foldRight, hB, foldRight_N hB rest e]
    rfl

theorem leftLoop_keepsT
    (heB : ∀ s acc o s', Tc s acc → S.binOf (S.peek s) = some o → S.eat s = .ok s' → Tc s' acc)
    (hB : ∀ t o l r, N (S.mkBin t o l r) = N l ++ N r) (ops : List BOp)
    {base : σ → PR σ ε Err} (hb : KeepsT Tc N base) :
    ∀ (f : Nat) (node : ε) (s : σ) (acc : List X) (r : ε) (s' : σ), Tc s (acc ++ N node) →
      leftLoop S ops base f node s = .ok (r, s') → Tc s' (acc ++ N r) := by
  intro f
  induction f with
  | zero => intro node s acc r s' _ h; simp [leftLoop] at h
  | succ f ih =>
    intro node s acc r s' ht h
    rw [leftLoop] at h
    split at h
    · next o ho =>
      split at h
      · split at h
        · cases h
        · next s1 hs1 =>
          split at h
          · cases h
          · next r2 s2 hs2 =>
            have h1 := heB _ _ _ _ ht ho hs1
            have h2 := hb _ _ _ _ h1 hs2
            refine ih _ s2 acc r s' ?_ h
            rw [hB, ← List.append_assoc]
            exact h2
      · cases h; exact ht
    · cases h; exact ht

theorem leftAssoc_keepsT
    (heB : ∀ s acc o s', Tc s acc → S.binOf (S.peek s) = some o → S.eat s = .ok s' → Tc s' acc)
    (hB : ∀ t o l r, N (S.mkBin t o l r) = N l ++ N r) (ops : List BOp)
    {base : σ → PR σ ε Err} (hb : KeepsT Tc N base) (f : Nat) : KeepsT Tc N (leftAssoc S ops base f) := by
  intro s acc r s' ht h
  unfold leftAssoc at h
  split at h
  · cases h
  · next n s1 hn => exact leftLoop_keepsT heB hB ops hb f n s1 acc r s' (hb _ _ _ _ ht hn) h

theorem rightCollect_keepsT
    (heB : ∀ s acc o s', Tc s acc → S.binOf (S.peek s) = some o → S.eat s = .ok s' → Tc s' acc)
    (ops : List BOp) {operand : σ → PR σ ε Err} (ho : KeepsT Tc N operand) :
    ∀ (f : Nat) (s : σ) (acc : List X) (items : List (T × BOp × ε)) (s' : σ), Tc s acc →
      rightCollect S ops operand f s = .ok (items, s') → Tc s' (acc ++ itemsN N items) := by
  intro f
  induction f with
  | zero => intro s acc items s' _ h; simp [rightCollect] at h
  | succ f ih =>
    intro s acc items s' ht h
    rw [rightCollect] at h
    split at h
    · next o hbo =>
      split at h
      · split at h
        · cases h
        · next s1 hs1 =>
          split at h
          · cases h
          · next r2 s2 hs2 =>
            split at h
            · cases h
            · next rest s3 hs3 =>
              cases h
              have h1 := heB _ _ _ _ ht hbo hs1
              have h2 := ho _ _ _ _ h1 hs2
              have h3 := ih _ _ _ _ h2 hs3
              simpa [itemsN, List.append_assoc] using h3
      · cases h; simpa [itemsN] using ht
    · cases h; simpa [itemsN] using ht

theorem rightAssoc_keepsT
    (heB : ∀ s acc o s', Tc s acc → S.binOf (S.peek s) = some o → S.eat s = .ok s' → Tc s' acc)
    (hB : ∀ t o l r, N (S.mkBin t o l r) = N l ++ N r) (ops : List BOp)
    {base operand : σ → PR σ ε Err} (hb : KeepsT Tc N base) (ho : KeepsT Tc N operand) (f : Nat) :
    KeepsT Tc N (rightAssoc S ops base operand f) := by
  intro s acc r s' ht h
  unfold rightAssoc at h
  split at h
  · cases h
  · next n s1 hn =>
    split at h
    · cases h
    · next items s2 hi =>
      cases h
      have h1 := hb _ _ _ _ ht hn
      have h2 := rightCollect_keepsT heB ops ho f _ _ _ _ h1 hi
      rw [foldRight_N hB, ← List.append_assoc]
      exact h2

theorem unLevel_powLevel_keepsT
    (heB : ∀ s acc o s', Tc s acc → S.binOf (S.peek s) = some o → S.eat s = .ok s' → Tc s' acc)
    (heU : ∀ s acc u s', Tc s acc → S.unOf (S.peek s) = some u → S.eat s = .ok s' → Tc s' acc)
    (hB : ∀ t o l r, N (S.mkBin t o l r) = N l ++ N r) (hU : ∀ t u e, N (S.mkUn t u e) = N e)
    (hs : KeepsT Tc N S.simple) (powOps : List BOp) :
    ∀ (f : Nat), KeepsT Tc N (unLevel S powOps f) ∧ KeepsT Tc N (powLevel S powOps f) := by
  intro f
  induction f with
  | zero =>
    constructor
    · intro s acc r s' _ h; simp [unLevel] at h
    · intro s acc r s' _ h; simp [powLevel] at h
  | succ f ih =>
    constructor
    · intro s acc r s' ht h
      rw [unLevel] at h
      split at h
      · next u hu =>
        split at h
        · cases h
        · next s1 hs1 =>
          split at h
          · cases h
          · next e s2 hs2 =>
            cases h
            rw [hU]
            exact ih.1 _ _ _ _ (heU _ _ _ _ ht hu hs1) hs2
      · exact ih.2 _ _ _ _ ht h
    · intro s acc r s' ht h
      rw [powLevel] at h
      exact rightAssoc_keepsT heB hB powOps hs ih.1 f _ _ _ _ ht h

theorem binLevels_keepsT
    (heB : ∀ s acc o s', Tc s acc → S.binOf (S.peek s) = some o → S.eat s = .ok s' → Tc s' acc)
    (heU : ∀ s acc u s', Tc s acc → S.unOf (S.peek s) = some u → S.eat s = .ok s' → Tc s' acc)
    (hB : ∀ t o l r, N (S.mkBin t o l r) = N l ++ N r) (hU : ∀ t u e, N (S.mkUn t u e) = N e)
    (hs : KeepsT Tc N S.simple) (powOps : List BOp) :
    ∀ (f : Nat) (levels : List LevelDesc), KeepsT Tc N (binLevels S powOps levels f) := by
  intro f
  induction f with
  | zero =>
    intro levels
    cases levels with
    | nil =>
      intro s acc r s' ht h; rw [binLevels] at h
      exact (unLevel_powLevel_keepsT heB heU hB hU hs powOps 0).1 _ _ _ _ ht h
    | cons d rest => intro s acc r s' _ h; simp [binLevels] at h
  | succ f ih =>
    intro levels
    cases levels with
    | nil =>
      intro s acc r s' ht h; rw [binLevels] at h
      exact (unLevel_powLevel_keepsT heB heU hB hU hs powOps (f + 1)).1 _ _ _ _ ht h
    | cons d rest =>
      intro s acc r s' ht h
      rw [binLevels] at h
      split at h
      · exact rightAssoc_keepsT heB hB d.ops (ih rest) (ih (d :: rest)) f _ _ _ _ ht h
      · exact leftAssoc_keepsT heB hB d.ops (ih rest) f _ _ _ _ ht h

/-- **the generic ladder threads the accumulator** -/
theorem ladder_keepsT
    (heB : ∀ s acc o s', Tc s acc → S.binOf (S.peek s) = some o → S.eat s = .ok s' → Tc s' acc)
    (heU : ∀ s acc u s', Tc s acc → S.unOf (S.peek s) = some u → S.eat s = .ok s' → Tc s' acc)
    (hB : ∀ t o l r, N (S.mkBin t o l r) = N l ++ N r) (hU : ∀ t u e, N (S.mkUn t u e) = N e)
    (hs : KeepsT Tc N S.simple) (levels : List LevelDesc) (powOps : List BOp) (f : Nat) :
    KeepsT Tc N (ladderExp S levels powOps f) := by
  intro s acc r s' ht h
  unfold ladderExp at h
  exact binLevels_keepsT heB heU hB hU hs powOps f levels _ _ _ _ ht h

end ladder

/-! ## operator tokens are not `NUMBER` tokens -/

theorem binOfTok_ne_number {t : Token} {o : BOp} (h : binOfTok t = some o) : t.type ≠ .NUMBER := by
  intro hn
  have : Gen.binaryTokens.lookup (TT.name .NUMBER) = none := by decide
  simp [binOfTok, hn, this] at h

theorem unOfTok_ne_number {t : Token} {u : UOp} (h : unOfTok t = some u) : t.type ≠ .NUMBER := by
  intro hn
  have : Gen.unaryTokens.lookup (TT.name .NUMBER) = none := by decide
  simp [unOfTok, hn, this] at h

theorem modelSig_eat_tr {s0 : PSt} (atom : PM Expr) {s s' : PSt} {acc : List NumTuple} (ht : Tr s0 s acc)
    (hne : s.cur.type ≠ .NUMBER) (h : (modelSig atom).eat s = .ok s') : Tr s0 s' acc := by
  simp only [modelSig] at h
  split at h
  · next u s1 he =>
    cases h
    have := ht.eat he
    rwa [tokNum_of_ne hne, Option.toList, List.append_nil] at this
  · cases h

end Tumfl.Theory.NumParse
