import Tumfl.Theory.UnlexDefs
import Tumfl.Theory.LexBridgeRef
/-!
# Unlex, part 0: a token at the very end of the text - scanners that do not fail

`ReadsAs a tk` speaks about `a` followed by a non-empty text (`sepRequired a []` is an error).  The last token of a text is
followed by nothing.  This file and `UnlexEnd*` show that the reference lexer's one-token function is *local*: if it reads
`tk` from `a ++ " "` and stops in front of the blank, it reads `tk` from `a` alone and stops at the end
(`lexOne_end`).  Here: `numBuf`, `countEq`, `longOpener`, `closesAt`, `longBody`.
-/
namespace Tumfl.Theory
open Tumfl Tumfl.Spec Tumfl.Model

/-! ## `numBuf` -/

theorem numBuf_nil (expo : Char → Bool) (F : Nat) : numBuf expo F [] = ([], []) := by
  cases F <;> rw [numBuf]

theorem numBuf_blank (expo : Char → Bool) (he : expo ' ' = false) (F : Nat) : numBuf expo F [' '] = ([], [' ']) := by
  cases F with
  | zero => rw [numBuf]
  | succ F =>
    rw [numBuf_cons]
    simp only [he, show (isXDigit ' ' || ' ' == '.') = false by decide, show isAlpha ' ' = false by decide,
      Bool.false_eq_true, if_false]

/-- with enough fuel, a scan of `x ++ " "` that stops in front of the blank is a scan of `x` that stops at the end -/
theorem numBuf_end_blank (expo : Char → Bool) (he : expo ' ' = false) : ∀ (F G : Nat) (x : List Char), x.length < F →
    (numBuf expo G (x ++ [' '])).2 = [' '] → numBuf expo F x = ((numBuf expo G (x ++ [' '])).1, [])
  | 0, _, _, h, _ => by omega
  | F + 1, 0, x, _, h2 => by
    rw [numBuf] at h2
    have := congrArg List.length h2
    simp at this
    subst this
    rw [numBuf_nil]; rw [numBuf]
  | F + 1, G + 1, [], _, _ => by
    rw [List.nil_append, numBuf_blank expo he, numBuf_nil]
  | F + 1, G + 1, c :: cs, h1, h2 => by
    simp only [List.length_cons] at h1
    rw [List.cons_append, numBuf_cons] at h2 ⊢
    rw [numBuf_cons]
    by_cases hc : expo c = true
    · simp only [hc, if_true] at h2 ⊢
      cases cs with
      | nil =>
        simp only [List.nil_append, show (' ' == '+' || ' ' == '-') = false by decide, Bool.false_eq_true, if_false,
          numBuf_blank expo he]
      | cons s cs' =>
        simp only [List.cons_append] at h2 ⊢
        by_cases hs : (s == '+' || s == '-') = true
        · simp only [hs, if_true] at h2 ⊢
          simp only [List.length_cons] at h1
          rw [numBuf_end_blank expo he F G cs' (by omega) h2]
        · simp only [hs, Bool.false_eq_true, if_false] at h2 ⊢
          have := numBuf_end_blank expo he F G (s :: cs') (by simpa using h1) h2
          rw [List.cons_append] at this
          rw [this]
    · simp only [hc, Bool.false_eq_true, if_false] at h2 ⊢
      by_cases hx : (isXDigit c || c == '.') = true
      · simp only [hx, if_true] at h2 ⊢
        rw [numBuf_end_blank expo he F G cs (by omega) h2]
      · simp only [hx, Bool.false_eq_true, if_false] at h2 ⊢
        by_cases ha : isAlpha c = true
        · simp only [ha, if_true] at h2 ⊢
          have := congrArg List.length h2
          simp at this
          subst this
          rfl
        · simp only [ha, Bool.false_eq_true, if_false] at h2 ⊢
          have := congrArg List.length h2
          simp at this

/-! ## long brackets: appending a blank never closes or opens anything -/

/-- append a blank to the rest -/
def blankR {α : Type} (x : α × List Char) : α × List Char := (x.1, x.2 ++ [' '])

theorem countEq_blank : ∀ cs : List Char, countEq (cs ++ [' ']) = blankR (countEq cs)
  | [] => by rw [List.nil_append, countEq_cons_ne (by decide), countEq_nil]; rfl
  | c :: cs => by
    by_cases hc : c = '='
    · subst hc
      rw [List.cons_append, countEq_cons_eq, countEq_cons_eq, countEq_blank cs]
      rfl
    · rw [List.cons_append, countEq_cons_ne hc, countEq_cons_ne hc]; rfl

theorem longOpener_blank (cs : List Char) :
    longOpener ('[' :: cs ++ [' ']) = (longOpener ('[' :: cs)).map blankR := by
  rw [List.cons_append, longOpener_cons, longOpener_cons, countEq_blank]
  generalize countEq cs = p
  obtain ⟨n, t⟩ := p
  cases t with
  | nil => simp only [blankR, List.nil_append]; rfl
  | cons d t =>
    by_cases hd : d = '['
    · subst hd; simp only [blankR, List.cons_append]; rfl
    · simp only [blankR, List.cons_append]
      split
      · rename_i heq; simp only [Prod.mk.injEq, List.cons.injEq] at heq; exact absurd heq.2.1 hd
      · split
        · rename_i heq; simp only [Prod.mk.injEq, List.cons.injEq] at heq; exact absurd heq.2.1 hd
        · rfl

theorem closesAt_blank : ∀ (lvl : Nat) (cs : List Char), closesAt lvl (cs ++ [' ']) = (closesAt lvl cs).map (· ++ [' '])
  | 0, [] => by rw [List.nil_append, closesAt.eq_3, closesAt.eq_3] <;> simp
  | n + 1, [] => by rw [List.nil_append, closesAt.eq_3, closesAt.eq_3] <;> simp
  | 0, c :: cs => by
    by_cases hc : c = ']'
    · subst hc; rw [List.cons_append, closesAt, closesAt]; rfl
    · rw [List.cons_append, closesAt.eq_3, closesAt.eq_3]
      · rfl
      all_goals (intros; simp_all)
  | n + 1, c :: cs => by
    by_cases hc : c = '='
    · subst hc; rw [List.cons_append, closesAt, closesAt, closesAt_blank n cs]
    · rw [List.cons_append, closesAt.eq_3, closesAt.eq_3]
      · rfl
      all_goals (intros; simp_all)

theorem longBody_blank (lvl : Nat) : ∀ cs : List Char, longBody lvl (cs ++ [' ']) = (longBody lvl cs).map blankR
  | [] => by
    rw [List.nil_append, spec_longBody_cons_ne lvl (by decide), spec_longBody_nil]; rfl
  | c :: cs => by
    by_cases hc : c = ']'
    · subst hc
      rw [List.cons_append, spec_longBody_rb, spec_longBody_rb, closesAt_blank]
      cases closesAt lvl cs with
      | some r => rfl
      | none =>
        simp only [Option.map_none]
        rw [longBody_blank lvl cs]
        cases longBody lvl cs <;> rfl
    · rw [List.cons_append, spec_longBody_cons_ne lvl hc, spec_longBody_cons_ne lvl hc, longBody_blank lvl cs]
      cases longBody lvl cs <;> rfl

theorem dropFirstNewline_blank (cs : List Char) (h : cs ≠ []) :
    dropFirstNewline (cs ++ [' ']) = dropFirstNewline cs ++ [' '] := by
  cases cs with
  | nil => exact absurd rfl h
  | cons c cs =>
    by_cases hc : c = '\n'
    · subst hc; rw [List.cons_append, dropFirstNewline_nl, dropFirstNewline_nl]
    · rw [List.cons_append, dropFirstNewline_ne hc, dropFirstNewline_ne hc]; rfl

end Tumfl.Theory
