import Tumfl.Theory.PrintSimStmt
/-!
# Statements, continued: `if`, loops, `local`, function definitions, calls, assignments
-/
namespace Tumfl.Theory
open Tumfl.Model Tumfl.Spec

variable {semi : Bool} {sty : Style}

/-! ## `if` -/

theorem false_head (sty : Style) (fl : IfFalse) (rest : List Spec.Tok) :
    blockFollow true (pk (TK semi (visitFalse sty fl) ++ mkTok (.kw "end") :: rest)) = true := by
  cases fl <;> simp [visitFalse, blockFollow]

theorem none_Fl : FalseProp semi sty .none := by
  intro F rest hF
  simp only [nFl] at hF
  obtain ⟨F, rfl⟩ : ∃ f, F = f + 1 := ⟨F - 1, by omega⟩
  rw [ifrest]
  simp [visitFalse, isKw_mkTok, expectKw, refElifs, refElse, bind, Except.bind]

theorem else_Fl {b : Model.Block} (hc : b.isChunk = false) (hb : BlockProp semi sty b) : FalseProp semi sty (.block b) := by
  intro F rest hF
  simp only [nFl] at hF
  obtain ⟨F, rfl⟩ : ∃ f, F = f + 1 := ⟨F - 1, by omega⟩
  have h1 := hb F (mkTok (.kw "end") :: rest) (by omega) (by rfl)
  rw [ifrest]
  simp only [visitFalse, TK_append, TK_else_kw, TK_sep_block, TK_slice21 sty b hc, TK_nil, List.cons_append, List.append_assoc,
    List.nil_append, tail_mkTok] at h1 ⊢
  simp [isKw_mkTok, h1, expectKw, refElifs, refElse, bind, Except.bind]

theorem elif_Fl {t : Token} {c : Expr} {b : Model.Block} {fl : IfFalse} (he : EProp semi sty c) (hc : b.isChunk = false)
    (hb : BlockProp semi sty b) (hfl : FalseProp semi sty fl) : FalseProp semi sty (.elif t c b fl) := by
  intro F rest hF
  simp only [nFl] at hF
  obtain ⟨F, rfl⟩ : ∃ f, F = f + 1 := ⟨F - 1, by omega⟩
  have h2 := hfl F rest (by omega)
  have h1 := hb F (TK semi (visitFalse sty fl) ++ mkTok (.kw "end") :: rest) (by omega) (false_head sty fl rest)
  have h0 := expr_of_EProp he F (mkTok (.kw "then") :: (semiT semi ++ (TK semi (bodyPieces sty b.stmts b.rets) ++
    (TK semi (visitFalse sty fl) ++ mkTok (.kw "end") :: rest)))) (by omega) (by simp [sfx]) (by simp [hdLp, binOfTk])
  rw [ifrest]
  simp only [visitFalse, TK_append, TK_elseif_kw, TK_then_kw, TK_sep_space, TK_sep_block, TK_slice21 sty b hc, TK_nil,
    List.cons_append, List.append_assoc, List.nil_append, tail_mkTok] at h0 h1 ⊢
  simp [isKw_mkTok, h0, h1, h2, expectKw, refElifs, refElse, bind, Except.bind]

theorem iff_S {t : Token} {c : Expr} {b : Model.Block} {fl : IfFalse} (he : EProp semi sty c) (hc : b.isChunk = false)
    (hb : BlockProp semi sty b) (hfl : FalseProp semi sty fl) : StmtProp semi sty (.iff t c b fl) := by
  intro _ F rest hF _
  simp only [nS] at hF
  obtain ⟨F, rfl⟩ : ∃ f, F = f + 1 := ⟨F - 1, by omega⟩
  have h2 := hfl F rest (by omega)
  have h1 := hb F (TK semi (visitFalse sty fl) ++ mkTok (.kw "end") :: rest) (by omega) (false_head sty fl rest)
  have h0 := expr_of_EProp he F (mkTok (.kw "then") :: (semiT semi ++ (TK semi (bodyPieces sty b.stmts b.rets) ++
    (TK semi (visitFalse sty fl) ++ mkTok (.kw "end") :: rest)))) (by omega) (by simp [sfx]) (by simp [hdLp, binOfTk])
  rw [statement]
  simp only [visitStmt, TK_append, TK_if_kw, TK_then_kw, TK_end_kw, TK_sep_space, TK_sep_block, TK_slice21 sty b hc, TK_nil,
    List.cons_append, List.append_assoc, List.nil_append, pk_mkTok, tail_mkTok] at h0 h1 ⊢
  simp [h0, h1, h2, expectKw, isKw_mkTok, refStmt, trailT, hasTrail, bind, Except.bind]

/-! ## numeric `for` -/

theorem numFor_S {t : Token} {v a b : Expr} {step : Option Expr} {body : Model.Block} (hv : nameNodeOK v = true)
    (ha : EProp semi sty a) (hb : EProp semi sty b) (hs : ∀ s, step = some s → EProp semi sty s)
    (hc : body.isChunk = false) (hbody : BlockProp semi sty body) : StmtProp semi sty (.numFor t v a b step body) := by
  intro _ F rest hF _
  have hnm := TK_nameNode (semi := semi) sty hv
  cases step with
  | none =>
    simp only [nS] at hF
    obtain ⟨F, rfl⟩ : ∃ f, F = f + 1 := ⟨F - 1, by omega⟩
    have h3 := hbody F (mkTok (.kw "end") :: rest) (by omega) (by rfl)
    have h2 := expr_of_EProp hb F (mkTok (.kw "do") :: (semiT semi ++ (TK semi (bodyPieces sty body.stmts body.rets) ++
      mkTok (.kw "end") :: rest))) (by omega) (by simp [sfx]) (by simp [hdLp, binOfTk])
    have h1 := expr_of_EProp ha F (mkTok (.sym ",") :: (TK semi (visitExpr sty b) ++ mkTok (.kw "do") :: (semiT semi ++
      (TK semi (bodyPieces sty body.stmts body.rets) ++ mkTok (.kw "end") :: rest)))) (by omega) (by simp [sfx])
      (by simp [hdLp, binOfTk])
    rw [statement]
    simp only [visitStmt, TK_append, TK_for_kw, TK_sep_space, TK_sep_argument, TK_assign, TK_blk sty body hc, hnm, TK_nil,
      List.cons_append, List.append_assoc, List.nil_append, pk_mkTok, tail_mkTok] at h1 h2 h3 ⊢
    simp [h1, h2, h3, expectName, expectSym, expectKw, isSym_mkTok, isKw_mkTok, refStmt, trailT, hasTrail, bind, Except.bind]
  | some s =>
    simp only [nS] at hF
    obtain ⟨F, rfl⟩ : ∃ f, F = f + 1 := ⟨F - 1, by omega⟩
    have h3 := hbody F (mkTok (.kw "end") :: rest) (by omega) (by rfl)
    have hF' : nE semi sty s + 1 ≤ F ∧ nE semi sty a + 1 ≤ F ∧ nE semi sty b + 1 ≤ F := by
      omega
    have h2' := expr_of_EProp (hs s rfl) F (mkTok (.kw "do") :: (semiT semi ++ (TK semi (bodyPieces sty body.stmts body.rets) ++
      mkTok (.kw "end") :: rest))) hF'.1 (by simp [sfx]) (by simp [hdLp, binOfTk])
    have h2 := expr_of_EProp hb F (mkTok (.sym ",") :: (TK semi (visitExpr sty s) ++ mkTok (.kw "do") :: (semiT semi ++
      (TK semi (bodyPieces sty body.stmts body.rets) ++ mkTok (.kw "end") :: rest)))) hF'.2.2 (by simp [sfx])
      (by simp [hdLp, binOfTk])
    have h1 := expr_of_EProp ha F (mkTok (.sym ",") :: (TK semi (visitExpr sty b) ++ mkTok (.sym ",") ::
      (TK semi (visitExpr sty s) ++ mkTok (.kw "do") :: (semiT semi ++
      (TK semi (bodyPieces sty body.stmts body.rets) ++ mkTok (.kw "end") :: rest))))) hF'.2.1 (by simp [sfx])
      (by simp [hdLp, binOfTk])
    rw [statement]
    simp only [visitStmt, TK_append, TK_for_kw, TK_sep_space, TK_sep_argument, TK_assign, TK_blk sty body hc, hnm, TK_nil,
      List.cons_append, List.append_assoc, List.nil_append, pk_mkTok, tail_mkTok] at h1 h2 h2' h3 ⊢
    simp [h1, h2, h2', h3, expectName, expectSym, expectKw, isSym_mkTok, isKw_mkTok, refStmt, trailT, hasTrail, bind,
      Except.bind]

/-! ## name lists -/

/-- `sep name` for every name of the list -/
def sepTail (sep : String) (r : List Expr) : List Spec.Tok :=
  r.flatMap fun e => [mkTok (.sym sep), mkTok (.name (nameS e))]

theorem TK_visitArgs_names : (e : Expr) → (r : List Expr) → nameNodeOK e = true → r.all nameNodeOK = true →
    TK semi (visitArgs sty (e :: r)) = mkTok (.name (nameS e)) :: sepTail "," r
  | e, [], he, _ => by
    have hnm := TK_nameNode (semi := semi) sty he []
    simpa [visitArgs, sepTail] using hnm
  | e, e2 :: r, he, hr => by
    simp only [List.all_cons, Bool.and_eq_true] at hr
    have ih := TK_visitArgs_names e2 r hr.1 hr.2
    rw [visitArgs, TK_nameNode sty he, TK_sep_argument, ih]
    simp [sepTail]

theorem TK_visitDotted_names : (e : Expr) → (r : List Expr) → nameNodeOK e = true → r.all nameNodeOK = true →
    TK semi (visitDotted sty (e :: r)) = mkTok (.name (nameS e)) :: sepTail "." r
  | e, [], he, _ => by
    have hnm := TK_nameNode (semi := semi) sty he []
    simpa [visitDotted, sepTail] using hnm
  | e, e2 :: r, he, hr => by
    simp only [List.all_cons, Bool.and_eq_true] at hr
    have ih := TK_visitDotted_names e2 r hr.1 hr.2
    rw [visitDotted, TK_nameNode sty he, TK_sep_dot, ih]
    simp [sepTail]

theorem namelistRest_step : (r : List Expr) → ∀ F X, r.length + 1 ≤ F → isSym "," X = false →
    namelistRest F (sepTail "," r ++ X) = .ok (r.map nameS, X)
  | [], F, X, hF, hX => by
    obtain ⟨F, rfl⟩ : ∃ f, F = f + 1 := ⟨F - 1, by omega⟩
    rw [namelistRest]; simp [sepTail, hX]
  | e :: r, F, X, hF, hX => by
    obtain ⟨F, rfl⟩ : ∃ f, F = f + 1 := ⟨F - 1, by omega⟩
    have ih := namelistRest_step r F X (by simp at hF; omega) hX
    rw [namelistRest]
    simp only [sepTail, List.flatMap_cons, List.cons_append, List.nil_append, List.append_assoc, isSym_mkTok] at ih ⊢
    simp [expectName, ih, bind, Except.bind]

theorem dottedRest_step : (r : List Expr) → ∀ F X, r.length + 1 ≤ F → isSym "." X = false →
    dottedRest F (sepTail "." r ++ X) = .ok (r.map nameS, X)
  | [], F, X, hF, hX => by
    obtain ⟨F, rfl⟩ : ∃ f, F = f + 1 := ⟨F - 1, by omega⟩
    rw [dottedRest]; simp [sepTail, hX]
  | e :: r, F, X, hF, hX => by
    obtain ⟨F, rfl⟩ : ∃ f, F = f + 1 := ⟨F - 1, by omega⟩
    have ih := dottedRest_step r F X (by simp at hF; omega) hX
    rw [dottedRest]
    simp only [sepTail, List.flatMap_cons, List.cons_append, List.nil_append, List.append_assoc, isSym_mkTok] at ih ⊢
    simp [expectName, ih, bind, Except.bind]

theorem sepTail_head (sep : String) (r : List Expr) (X : List Spec.Tok) :
    sepTail sep r ++ X = X ∨ ∃ tl, sepTail sep r ++ X = mkTok (.sym sep) :: tl := by
  cases r with
  | nil => left; simp [sepTail]
  | cons e r => right; exact ⟨_, by simp [sepTail]; rfl⟩

end Tumfl.Theory
