import Tumfl.Theory.LexPos
import Tumfl.Spec.Lex
/-!
# Every scanner of the lexer model preserves the position invariant (C16 for the lexer model)

All scanners move through the text only with `advance` (and touch `comments`), so every state
predicate that is stable under these two operations (`Stable P`) is preserved by every scanner.
`Inv t` (from `LexPos`) is such a predicate, and so is the stronger `Inv' t` defined here, which also
bounds the line field at the end of the text.
-/
namespace Tumfl.Theory
open Tumfl.Model

/-- a state predicate preserved by the two primitive state changes of the lexer -/
structure Stable (P : LexSt → Prop) : Prop where
  adv : ∀ s, P s → P (advance s)
  com : ∀ s cs, P s → P { s with comments := cs }

variable {P : LexSt → Prop}

/-! ## one preservation lemma per scanner -/

theorem skipWhitespace_pres (hP : Stable P) : ∀ (f : Nat) (s : LexSt), P s → P (skipWhitespace f s)
  | 0, s, h => by rw [skipWhitespace]; exact h
  | f + 1, s, h => by
    rw [skipWhitespace]
    split
    · exact skipWhitespace_pres hP f _ (hP.adv _ h)
    · exact h

theorem countEquals_pres (hP : Stable P) : ∀ (f : Nat) (s : LexSt) (n : Nat), P s → P (countEquals f s n).2
  | 0, s, n, h => by rw [countEquals]; exact h
  | f + 1, s, n, h => by
    rw [countEquals]
    split
    · exact countEquals_pres hP f _ _ (hP.adv _ h)
    · exact h

theorem longBody_pres (hP : Stable P) {e l : Nat} {c : Int} :
    ∀ (f : Nat) (s : LexSt) (ce : Option Nat) (acc v : List Char) (s' : LexSt),
      P s → longBody e l c f s ce acc = .ok (v, s') → P s'
  | 0, s, ce, acc, v, s', _, h => by rw [longBody] at h; cases h
  | f + 1, s, ce, acc, v, s', hs, h => by
    rw [longBody] at h
    split at h
    · cases h
    · split at h
      · cases h; exact hP.adv _ hs
      · exact longBody_pres hP f _ _ _ _ _ (hP.adv _ hs) h

theorem getLongBrackets_pres (hP : Stable P) {s : LexSt} {v : List Char} {s' : LexSt}
    (hs : P s) (h : getLongBrackets s = .ok (v, s')) : P s' := by
  unfold getLongBrackets at h
  split at h
  · cases h
  · have h2 := countEquals_pres hP ((advance s).rest.length + 1) (advance s) 0 (hP.adv _ hs)
    dsimp only at h
    revert h h2
    generalize countEquals ((advance s).rest.length + 1) (advance s) 0 = p
    obtain ⟨eq, s2⟩ := p
    intro h h2
    simp only at h h2
    split at h
    · cases h
    · refine longBody_pres hP _ _ _ _ _ _ ?_ h
      split
      · exact hP.adv _ (hP.adv _ h2)
      · exact hP.adv _ h2

theorem shortComment_pres (hP : Stable P) : ∀ (f : Nat) (s : LexSt) (acc : List Char), P s → P (shortComment f s acc).2
  | 0, s, acc, h => by rw [shortComment]; exact h
  | f + 1, s, acc, h => by
    rw [shortComment]
    split
    · split
      · exact shortComment_pres hP f _ _ (hP.adv _ h)
      · exact h
    · exact h

theorem skipComment_pres (hP : Stable P) {s s' : LexSt} (hs : P s) (h : skipComment s = .ok s') : P s' := by
  unfold skipComment at h
  split at h
  · cases h
  · have hs2 : P (advance (advance s)) := hP.adv _ (hP.adv _ hs)
    dsimp only at h
    split at h
    · split at h
      · cases h
      · rename_i c s3 heq
        cases h
        exact hP.com _ _ (getLongBrackets_pres hP hs2 heq)
    · have h3 := shortComment_pres hP ((advance (advance s)).rest.length + 1) _ [] hs2
      revert h h3
      generalize shortComment ((advance (advance s)).rest.length + 1) (advance (advance s)) [] = p
      obtain ⟨c, s3⟩ := p
      intro h h3
      cases h
      exact hP.com _ _ h3

theorem takeWhileIn_pres (hP : Stable P) {set : List Char} {lower : Bool} :
    ∀ (f : Nat) (s : LexSt) (acc : List Char), P s → P (takeWhileIn set lower f s acc).2
  | 0, s, acc, h => by rw [takeWhileIn]; exact h
  | f + 1, s, acc, h => by
    rw [takeWhileIn]
    split
    · split
      · exact takeWhileIn_pres hP f _ _ (hP.adv _ h)
      · exact h
    · exact h

/-! `getNumber` cut into its three stages (the equation is `rfl`) -/

/-- `getNumber`, integer part -/
def numInt (fuel : Nat) (s : LexSt) : Bool × Option (List Char) × LexSt :=
  if inStr s.cur Gen.number then
    let p : Bool × List Char × LexSt :=
      if s.cur == some '0' && (s.peek == some 'x' || s.peek == some 'X') then (true, Gen.hexNumber, advance (advance s))
      else (false, Gen.number, s)
    let q := takeWhileIn p.2.1 true fuel p.2.2 []
    (p.1, optStr q.1, q.2)
  else (false, none, s)

/-- `getNumber`, fractional part -/
def numFrac (digs : List Char) (fuel : Nat) (s1 : LexSt) : Option (List Char) × LexSt :=
  if s1.cur == some '.' then
    let q := takeWhileIn digs true fuel (advance s1) []
    (optStr q.1, q.2)
  else (none, s1)

def numSign (s3 : LexSt) : List Char × LexSt :=
  match s3.cur with
  | some c => if c == '+' || c == '-' then ([c], advance s3) else ([], s3)
  | none => ([], s3)

/-- `getNumber`, exponent part -/
def numExp (isHex : Bool) (ip fp : Option (List Char)) (fuel : Nat) (s2 : LexSt) : NumTuple × LexSt :=
  let isMark := if isHex then (s2.cur == some 'p' || s2.cur == some 'P') else (s2.cur == some 'e' || s2.cur == some 'E')
  if isMark then
    let p := numSign (advance s2)
    let q := takeWhileIn Gen.number false fuel p.2 []
    let r := p.1 ++ q.1
    if !r.isEmpty && isHex then ({ isHex := isHex, ip := ip, fp := fp, ex := none, fo := some r }, q.2)
    else if !r.isEmpty then ({ isHex := isHex, ip := ip, fp := fp, ex := some r, fo := none }, q.2)
    else ({ isHex := isHex, ip := ip, fp := fp, ex := none, fo := none }, q.2)
  else ({ isHex := isHex, ip := ip, fp := fp, ex := none, fo := none }, s2)

theorem getNumber_eq (s : LexSt) :
    getNumber s =
      numExp (numInt (s.rest.length + 1) s).1 (numInt (s.rest.length + 1) s).2.1
        (numFrac (if (numInt (s.rest.length + 1) s).1 then Gen.hexNumber else Gen.number) (s.rest.length + 1)
          (numInt (s.rest.length + 1) s).2.2).1 (s.rest.length + 1)
        (numFrac (if (numInt (s.rest.length + 1) s).1 then Gen.hexNumber else Gen.number) (s.rest.length + 1)
          (numInt (s.rest.length + 1) s).2.2).2 := rfl


theorem numInt_pres (hP : Stable P) (fuel : Nat) {s : LexSt} (hs : P s) : P (numInt fuel s).2.2 := by
  unfold numInt
  split
  · refine takeWhileIn_pres hP _ _ _ ?_
    split
    · exact hP.adv _ (hP.adv _ hs)
    · exact hs
  · exact hs

theorem numFrac_pres (hP : Stable P) (digs : List Char) (fuel : Nat) {s : LexSt} (hs : P s) : P (numFrac digs fuel s).2 := by
  unfold numFrac
  split
  · exact takeWhileIn_pres hP _ _ _ (hP.adv _ hs)
  · exact hs

theorem numSign_pres (hP : Stable P) {s : LexSt} (hs : P s) : P (numSign s).2 := by
  unfold numSign
  split
  · split
    · exact hP.adv _ hs
    · exact hs
  · exact hs

theorem numExp_pres (hP : Stable P) (isHex : Bool) (ip fp : Option (List Char)) (fuel : Nat) {s : LexSt} (hs : P s) :
    P (numExp isHex ip fp fuel s).2 := by
  unfold numExp
  have h := takeWhileIn_pres hP (set := Gen.number) (lower := false) fuel _ [] (numSign_pres hP (hP.adv _ hs))
  dsimp only
  repeat' split
  all_goals first | exact h | exact hs

theorem getNumber_pres (hP : Stable P) {s : LexSt} (hs : P s) : P (getNumber s).2 := by
  rw [getNumber_eq]
  exact numExp_pres hP _ _ _ _ (numFrac_pres hP _ _ (numInt_pres hP _ hs))


theorem ok_snd {ε α β : Type} {a a' : α} {b b' : β} (h : (Except.ok (a, b) : Except ε (α × β)) = .ok (a', b')) : b = b' := by
  cases h; rfl

theorem getName_pres (hP : Stable P) {s : LexSt} {v : List Char} {s' : LexSt}
    (hs : P s) (h : getName s = .ok (v, s')) : P s' := by
  unfold getName at h
  split at h
  · cases h
  · have h2 := takeWhileIn_pres hP (set := Gen.alphanumeric) (lower := false) (s.rest.length + 1) s [] hs
    simp only [Except.ok.injEq] at h
    rw [h] at h2
    exact h2

theorem escapeSeq_pres (hP : Stable P) {iu : Bool} {s : LexSt} {v : List Char} {s' : LexSt}
    (hs : P s) (h : escapeSeq iu s = .ok (v, s')) : P s' := by
  unfold escapeSeq at h
  dsimp only at h
  split at h
  · cases h
  · split at h
    · cases ok_snd h; exact skipWhitespace_pres hP _ _ (hP.adv _ hs)
    · split at h
      · repeat' split at h
        all_goals first | (cases h; done) | skip
        cases ok_snd h
        exact hP.adv _ (hP.adv _ (hP.adv _ hs))
      · split at h
        · split at h
          · cases h
          · have h2 := takeWhileIn_pres hP (set := Gen.hexNumber) (lower := false) ((advance (advance s)).rest.length + 1) _ [] (hP.adv _ (hP.adv _ hs))
            revert h h2
            generalize takeWhileIn Gen.hexNumber false ((advance (advance s)).rest.length + 1) (advance (advance s)) [] = p
            obtain ⟨cp, s3⟩ := p
            intro h h2
            dsimp only at h h2
            repeat' split at h
            all_goals first | (cases h; done) | skip
            cases ok_snd h
            exact hP.adv _ h2
        · split at h
          · repeat' split at h
            all_goals first | (cases h; done) | skip
            all_goals
              cases ok_snd h
              first
                | exact hP.adv _ (hP.adv _ (hP.adv _ hs))
                | exact hP.adv _ (hP.adv _ hs)
                | exact hP.adv _ hs
          · split at h
            · cases h
            · cases ok_snd h; exact hP.adv _ hs


theorem stringLoop_pres (hP : Stable P) {iu : Bool} {q : Char} :
    ∀ (f : Nat) (esc : Bool) (s : LexSt) (acc v : List Char) (s' : LexSt),
      P s → stringLoop iu q f esc s acc = .ok (v, s') → P s'
  | 0, esc, s, acc, v, s', _, h => by rw [stringLoop] at h; cases h
  | f + 1, esc, s, acc, v, s', hs, h => by
    rw [stringLoop] at h
    split at h
    · cases h
    · split at h
      · cases ok_snd h; exact hP.adv _ hs
      · split at h
        · split at h
          · cases h
          · rename_i r s1 heq
            exact stringLoop_pres hP f _ _ _ _ _ (escapeSeq_pres hP hs heq) h
        · split at h
          · exact stringLoop_pres hP f _ _ _ _ _ (hP.adv _ hs) h
          · split at h
            · cases h
            · exact stringLoop_pres hP f _ _ _ _ _ (hP.adv _ hs) h

theorem getString_pres (hP : Stable P) {iu : Bool} {s : LexSt} {v : List Char} {s' : LexSt}
    (hs : P s) (h : getString iu s = .ok (v, s')) : P s' := by
  unfold getString at h
  split at h
  · split at h
    · exact stringLoop_pres hP _ _ _ _ _ _ (hP.adv _ hs) h
    · cases h
  · cases h

theorem skipShebang_pres (hP : Stable P) : ∀ (f : Nat) (s : LexSt), P s → P (skipShebang f s)
  | 0, s, h => by rw [skipShebang]; exact h
  | f + 1, s, h => by
    rw [skipShebang]
    split
    · split
      · exact skipShebang_pres hP f _ (hP.adv _ h)
      · exact h
    · exact h


theorem ok_pair {ε α β : Type} {a a' : α} {b b' : β} (h : (Except.ok (a, b) : Except ε (α × β)) = .ok (a', b')) :
    a = a' ∧ b = b' := by
  cases h; exact ⟨rfl, rfl⟩

theorem ite_cases {α : Type} {c : Prop} [Decidable c] {a b r : α} (h : (if c then a else b) = r) :
    (c ∧ a = r) ∨ (¬c ∧ b = r) := by
  split at h
  · exact Or.inl ⟨‹_›, h⟩
  · exact Or.inr ⟨‹_›, h⟩

/-- where a token was started: at a state `s0` satisfying `P`, whose position fields the token records; either the
text is exhausted there (and the token is EOF) or the current character is not white space -/
def StartedAt (P : LexSt → Prop) (tok : Token) : Prop :=
  ∃ s0, P s0 ∧ tok.line = s0.line + 1 ∧ tok.column = s0.col + 1 ∧
    ((s0.cur = none ∧ tok.type = .EOF) ∨ ∃ c, s0.cur = some c ∧ Gen.whitespace.contains c = false)

theorem nextTokenLoop_core (hP : Stable P) {cfg : LexCfg} : ∀ (f : Nat) (s : LexSt) (tok : Token) (s' : LexSt),
    P s → nextTokenLoop cfg f s = .ok (tok, s') → P s' ∧ StartedAt P tok
  | 0, s, tok, s', _, h => by rw [nextTokenLoop] at h; cases h
  | f + 1, s, tok, s', hs, h => by
    rw [nextTokenLoop] at h
    split at h
    · rename_i hcur
      simp only [tokenArgs, Except.ok.injEq, Prod.mk.injEq] at h
      obtain ⟨rfl, rfl⟩ := h
      exact ⟨hP.com _ _ hs, s, hs, rfl, rfl, Or.inl ⟨hcur, rfl⟩⟩
    · rename_i c hcur
      split at h
      · exact nextTokenLoop_core hP f _ _ _ (skipWhitespace_pres hP _ _ hs) h
      · rename_i hws
        split at h
        · split at h
          · cases h
          · rename_i s1 heq
            exact nextTokenLoop_core hP f _ _ _ (skipComment_pres hP hs heq) h
        · have hs0 : P { s with comments := [] } := hP.com _ _ hs
          have hst : ∀ ty v, StartedAt P (mkTok ty v (s.line + 1, s.col + 1, s.comments)) := fun ty v =>
            ⟨s, hs, rfl, rfl, Or.inr ⟨c, hcur, by simpa using hws⟩⟩
          simp only [tokenArgs] at h
          have fin : ∀ {ty v X}, P X → (Except.ok (mkTok ty v (s.line + 1, s.col + 1, s.comments), X) : Except PyErr (Token × LexSt)) = Except.ok (tok, s') →
              P s' ∧ StartedAt P tok := by
            intro ty v X hX h
            obtain ⟨rfl, rfl⟩ := ok_pair h
            exact ⟨hX, hst _ _⟩
          split at h
          · -- name
            split at h
            · cases h
            · rename_i name s1 heq
              have h1 := getName_pres hP hs0 heq
              split at h <;> exact fin h1 h
          · rcases ite_cases h with ⟨_, h⟩ | ⟨_, h⟩
            · -- number
              rcases ite_cases h with ⟨_, h⟩ | ⟨_, h⟩
              · cases h
              · exact fin (getNumber_pres hP hs0) h
            · rcases ite_cases h with ⟨_, h⟩ | ⟨_, h⟩
              · -- string
                split at h
                · cases h
                · rename_i v s1 heq
                  exact fin (getString_pres hP hs0 heq) h
              · rcases ite_cases h with ⟨_, h⟩ | ⟨_, h⟩
                · -- long bracket
                  split at h
                  · cases h
                  · rename_i v s1 heq
                    exact fin (getLongBrackets_pres hP hs0 heq) h
                · rcases ite_cases h with ⟨_, h⟩ | ⟨_, h⟩
                  · rcases ite_cases h with ⟨_, h⟩ | ⟨_, h⟩
                    · exact fin (hP.adv _ (hP.adv _ (hP.adv _ hs0))) h
                    · exact fin (hP.adv _ (hP.adv _ hs0)) h
                  · split at h
                    · exact fin (hP.adv _ (hP.adv _ hs0)) h
                    · split at h
                      · exact fin (hP.adv _ hs0) h
                      · cases h


theorem getNextToken_core (hP : Stable P) {cfg : LexCfg} {s : LexSt} {tok : Token} {s' : LexSt}
    (hs : P s) (h : getNextToken cfg s = .ok (tok, s')) : P s' ∧ StartedAt P tok := by
  unfold getNextToken at h
  refine nextTokenLoop_core hP _ _ _ _ ?_ h
  split
  · exact skipShebang_pres hP _ _ hs
  · exact hs

theorem lexAll_core (hP : Stable P) {cfg : LexCfg} : ∀ (f : Nat) (s : LexSt) (toks : List Token),
    P s → lexAll cfg f s = .ok toks → ∀ tok ∈ toks, StartedAt P tok
  | 0, s, toks, _, h => by rw [lexAll] at h; cases h
  | f + 1, s, toks, hs, h => by
    rw [lexAll] at h
    split at h
    · cases h
    · rename_i t s1 heq
      obtain ⟨hs1, ht⟩ := getNextToken_core hP hs heq
      split at h
      · cases h
        intro tok htok
        simp only [List.mem_singleton] at htok
        subst htok
        exact ht
      · cases hr : lexAll cfg f s1 with
        | error e => rw [hr] at h; cases h
        | ok r =>
          rw [hr] at h
          cases h
          intro tok htok
          rcases List.mem_cons.mp htok with rfl | htok
          · exact ht
          · exact lexAll_core hP f s1 r hs1 hr tok htok

/-! ## instantiation: `Inv t` -/

theorem stable_inv (t : List Char) : Stable (Inv t) :=
  ⟨fun _ h => inv_advance h, fun _ cs h => inv_comments cs h⟩

theorem whitespace_newline : Gen.whitespace.contains '\n' = true := by decide

/-- the token's recorded (1-based) line and column are those of a character of the text that is not white space -/
def TokenAt (t : List Char) (tok : Token) : Prop :=
  ∃ pre c rest, t = pre ++ c :: rest ∧ Gen.whitespace.contains c = false ∧
    tok.line = lineOf pre + 1 ∧ tok.column = (colOf pre : Int) + 1

theorem tokenAt_of_started {t : List Char} {tok : Token} (h : StartedAt (Inv t) tok) (hne : tok.type ≠ .EOF) :
    TokenAt t tok := by
  obtain ⟨s0, ⟨pre, ht, hp⟩, hl, hc, hcase⟩ := h
  rcases hcase with ⟨_, he⟩ | ⟨c, hcur, hws⟩
  · exact absurd he hne
  · have hcn : c ≠ '\n' := by
      rintro rfl
      rw [whitespace_newline] at hws
      cases hws
    cases hr : s0.rest with
    | nil => simp [LexSt.cur, hr] at hcur
    | cons d r =>
      have hd : d = c := by simpa [LexSt.cur, hr] using hcur
      subst hd
      simp only [PosAt, hr, hcn, if_false] at hp
      exact ⟨pre, d, r, by rw [ht, hr], hws, by rw [hl, hp.1], by rw [hc, hp.2]⟩


theorem nextTokenLoop_pos {t : List Char} {cfg : LexCfg} : ∀ (f : Nat) (s : LexSt) (tok : Token) (s' : LexSt),
    Inv t s → nextTokenLoop cfg f s = .ok (tok, s') → Inv t s' ∧ (tok.type ≠ .EOF → TokenAt t tok) := by
  intro f s tok s' hs h
  obtain ⟨h1, h2⟩ := nextTokenLoop_core (stable_inv t) f s tok s' hs h
  exact ⟨h1, tokenAt_of_started h2⟩

theorem getNextToken_pos {t : List Char} {cfg : LexCfg} (s : LexSt) (tok : Token) (s' : LexSt) :
    Inv t s → getNextToken cfg s = .ok (tok, s') → Inv t s' ∧ (tok.type ≠ .EOF → TokenAt t tok) := by
  intro hs h
  obtain ⟨h1, h2⟩ := getNextToken_core (stable_inv t) hs h
  exact ⟨h1, tokenAt_of_started h2⟩

theorem lexAll_pos {t : List Char} {cfg : LexCfg} : ∀ (f : Nat) (s : LexSt) (toks : List Token),
    Inv t s → lexAll cfg f s = .ok toks → ∀ tok ∈ toks, tok.type ≠ .EOF → TokenAt t tok := by
  intro f s toks hs h tok htok
  exact tokenAt_of_started (lexAll_core (stable_inv t) f s toks hs h tok htok)

/-- C16 for the lexer model -/
theorem lexText_pos (cfg : LexCfg) (t : List Char) (toks : List Token) :
    lexText cfg t = .ok toks → ∀ tok ∈ toks, tok.type ≠ .EOF → TokenAt t tok := by
  intro h
  exact lexAll_pos _ _ _ (inv_init t) h

/-- the position function of the reference side agrees -/
theorem posOf_split (pre rest : List Char) :
    Spec.posOf (pre ++ rest) pre.length = (lineOf pre + 1, colOf pre + 1) := by
  simp [Spec.posOf, lineOf, colOf, Nat.add_comm]

/-! ## the end of the text: a stronger invariant -/

/-- `Inv` plus: the line field never exceeds the number of newlines of the text (this is what `Inv` lacks when
`rest = []`, where `PosAt` says nothing) -/
def Inv' (t : List Char) (s : LexSt) : Prop := Inv t s ∧ s.line ≤ lineOf t

theorem lineOf_append (a b : List Char) : lineOf (a ++ b) = lineOf a + lineOf b := by
  simp [lineOf, List.count_append]

theorem inv_line_le {t : List Char} {s : LexSt} (h : Inv t s) (hne : s.rest ≠ []) : s.line ≤ lineOf t := by
  obtain ⟨pre, ht, hp⟩ := h
  cases hr : s.rest with
  | nil => exact absurd hr hne
  | cons c r =>
    simp only [PosAt, hr] at hp
    rw [ht, hr, lineOf_append]
    by_cases hc : c = '\n'
    · subst hc
      simp only [if_true] at hp
      rw [hp.1]
      simp [lineOf]
    · simp only [hc, if_false] at hp
      rw [hp.1]
      omega

theorem advance_line_of_rest_nil {s : LexSt} (h : (advance s).rest = []) : (advance s).line = s.line := by
  cases hr : s.rest with
  | nil =>
    have : advance s = s := by unfold advance; rw [hr]
    rw [this]
  | cons c r =>
    rw [advance_rest_cons hr] at h
    subst h
    unfold advance
    rw [hr]

theorem inv'_advance {t : List Char} {s : LexSt} (h : Inv' t s) : Inv' t (advance s) := by
  refine ⟨inv_advance h.1, ?_⟩
  by_cases hr : (advance s).rest = []
  · rw [advance_line_of_rest_nil hr]; exact h.2
  · exact inv_line_le (inv_advance h.1) hr

theorem inv'_init (t : List Char) : Inv' t (initLex t) := by
  refine ⟨inv_init t, ?_⟩
  cases t with
  | nil => simp [initLex]
  | cons c cs =>
    apply inv_line_le (inv_init _)
    simp only [initLex]
    split <;> simp

theorem stable_inv' (t : List Char) : Stable (Inv' t) :=
  ⟨fun _ h => inv'_advance h, fun _ cs h => ⟨inv_comments cs h.1, h.2⟩⟩

/-- every token (the end-of-file token in particular) lies within the text's lines -/
theorem lexText_line (cfg : LexCfg) (t : List Char) (toks : List Token) :
    lexText cfg t = .ok toks → ∀ tok ∈ toks, 1 ≤ tok.line ∧ tok.line ≤ lineOf t + 1 := by
  intro h tok htok
  obtain ⟨s0, hs0, hl, _, _⟩ := lexAll_core (stable_inv' t) _ _ _ (inv'_init t) h tok htok
  have := hs0.2
  omega

/-- the end-of-file token lies within the text's lines -/
theorem lexText_eof_line (cfg : LexCfg) (t : List Char) (toks : List Token) :
    lexText cfg t = .ok toks → ∀ tok ∈ toks, tok.type = .EOF → 1 ≤ tok.line ∧ tok.line ≤ lineOf t + 1 :=
  fun h tok htok _ => lexText_line cfg t toks h tok htok

/-! ## non-vacuity: a concrete text that lexes (4 tokens and EOF; `y` is recorded at line 2, column 2) -/

example : ∃ toks, lexText {} "x = 1\n y".toList = .ok toks := ⟨_, rfl⟩

/-- the recorded positions of a lexing result -/
def positions (r : Except PyErr (List Token)) : Option (List (Nat × Int)) :=
  match r with
  | .ok toks => some (toks.map fun tok => (tok.line, tok.column))
  | .error _ => none

/-- `x` `=` `1` `y` and EOF (which repeats the position of the last character) -/
example : positions (lexText {} "x = 1\n y".toList) = some [(1, 1), (1, 3), (1, 5), (2, 2), (2, 2)] := by
  decide +kernel

end Tumfl.Theory
