import Tumfl.Theory.IdemTree
import Tumfl.Theory.SameProgramNorm
import Tumfl.Theory.FormatTextNums
/-!
# C15: the `cn` toolkit (piece lists up to superfluous Statement separators)

* `cn_append`, `cnSt_cn`, the values of `cn` on single pieces;
* `CE a b` (`cn d a = cn d b` for every state `d`), `CT a b` (`cn true a = cn true b`) and their combinators;
* `Rel2 ls gs ns ms Q`: the shape of the tree theorems (two length facts, and `Q` from the flag and the numeral
  hypotheses).
-/
namespace Tumfl.Theory
namespace IdemE
open Tumfl Tumfl.Model

/-! ## `cn` on one piece -/

theorem cn_nil (d : Bool) : cn d [] = [] := by cases d <;> rfl

theorem cn_str (d : Bool) (s : List Char) (r : Pieces) : cn d (.str s :: r) = .str s :: cn false r := by
  simp [cn]

theorem cn_P (d : Bool) (s : String) (r : Pieces) : cn d (P s :: r) = P s :: cn false r := cn_str d _ r

theorem cn_statement (d : Bool) (r : Pieces) :
    cn d (S .statement :: r) = if d then cn true r else S .statement :: cn true r := by
  simp [cn, S]

theorem cn_block (d : Bool) (r : Pieces) : cn d (S .block :: r) = S .block :: cn true r := by
  simp [cn, S]

theorem cn_indent (d : Bool) (r : Pieces) : cn d (S .indent :: r) = S .indent :: cn d r := by
  simp [cn, S]

theorem cn_deindent (d : Bool) (r : Pieces) : cn d (S .deindent :: r) = S .deindent :: cn d r := by
  simp [cn, S]

theorem cnSt_nil (d : Bool) : cnSt d [] = d := by cases d <;> rfl

/-- `cn false` keeps the first piece -/
theorem cn_false_cons (p : Piece) (r : Pieces) : ∃ d, cn false (p :: r) = p :: cn d r := by
  cases p with
  | str s => exact ⟨false, cn_str false s r⟩
  | sep x => cases x <;> simp [cn]

theorem head_cn_false (a : Pieces) : (cn false a).head? = a.head? := by
  cases a with
  | nil => rfl
  | cons p r =>
    obtain ⟨d, h⟩ := cn_false_cons p r
    rw [h]; rfl

/-! ## `cn` and `++` -/

theorem cn_append : ∀ (a b : Pieces) (d : Bool), cn d (a ++ b) = cn d a ++ cn (cnSt d a) b
  | [], b, d => by simp [cn_nil, cnSt_nil]
  | p :: a, b, d => by
    cases p with
    | str s => simp [cn, cnSt, cn_append a b]
    | sep x => cases x <;> cases d <;> simp [cn, cnSt, cn_append a b]

theorem cnSt_append : ∀ (a b : Pieces) (d : Bool), cnSt d (a ++ b) = cnSt (cnSt d a) b
  | [], b, d => by simp [cnSt_nil]
  | p :: a, b, d => by
    cases p with
    | str s => simp [cnSt, cnSt_append a b]
    | sep x => cases x <;> simp [cnSt, cnSt_append a b]

theorem cnSt_cn : ∀ (a : Pieces) (d : Bool), cnSt d (cn d a) = cnSt d a
  | [], d => by simp [cn_nil]
  | p :: a, d => by
    cases p with
    | str s => simp [cn, cnSt, cnSt_cn a]
    | sep x => cases x <;> cases d <;> simp [cn, cnSt, cnSt_cn a]

theorem cnSt_congr {a b : Pieces} {d : Bool} (h : cn d a = cn d b) : cnSt d a = cnSt d b := by
  rw [← cnSt_cn a, ← cnSt_cn b, h]

/-! ## the two relations -/

/-- equal up to superfluous Statement separators, in every state -/
def CE (a b : Pieces) : Prop := ∀ d, cn d a = cn d b

/-- equal up to superfluous Statement separators, after a Statement / Block separator -/
def CT (a b : Pieces) : Prop := cn true a = cn true b

theorem CE.rfl' (a : Pieces) : CE a a := fun _ => rfl

theorem CE.of_eq {a b : Pieces} (h : a = b) : CE a b := h ▸ CE.rfl' a

theorem CE.ct {a b : Pieces} (h : CE a b) : CT a b := h true

theorem CE.append {a b a' b' : Pieces} (h : CE a b) (h' : CE a' b') : CE (a ++ a') (b ++ b') := fun d => by
  rw [cn_append, cn_append, h d, cnSt_congr (h d), h' _]

theorem CT.append {a b a' b' : Pieces} (h : CT a b) (h' : CE a' b') : CT (a ++ a') (b ++ b') := by
  unfold CT at *
  rw [cn_append, cn_append, h, cnSt_congr h, h' _]

theorem CE.cons (p : Piece) {a b : Pieces} (h : CE a b) : CE (p :: a) (p :: b) :=
  CE.append (a := [p]) (b := [p]) (CE.rfl' _) h

theorem CE.pre (c : Pieces) {a b : Pieces} (h : CE a b) : CE (c ++ a) (c ++ b) := CE.append (CE.rfl' c) h

theorem CE.post {a b : Pieces} (h : CE a b) (c : Pieces) : CE (a ++ c) (b ++ c) := CE.append h (CE.rfl' c)

/-- after a Block separator the state is `true` -/
theorem CT.block {a b : Pieces} (h : CT a b) : CE (S .block :: a) (S .block :: b) := fun d => by
  rw [cn_block, cn_block, h]

theorem CT.indent {a b : Pieces} (h : CT a b) : CT (S .indent :: a) (S .indent :: b) := by
  unfold CT at *
  rw [cn_indent, cn_indent, h]

/-- after a Statement separator the state is `true` -/
theorem CT.statement {a b : Pieces} (h : CT a b) : CE (S .statement :: a) (S .statement :: b) := fun d => by
  unfold CT at h
  rw [cn_statement, cn_statement, h]

/-- a Statement separator in state `true` disappears -/
theorem cn_true_statement (r : Pieces) : cn true (S .statement :: r) = cn true r := by
  rw [cn_statement]; rfl

theorem CE.head {a b : Pieces} (h : CE a b) : a.head? = b.head? := by
  rw [← head_cn_false a, ← head_cn_false b, h false]

theorem CE.wrap {a b : Pieces} (h : CE a b) : CE (wrapParens a) (wrapParens b) := by
  unfold wrapParens
  exact CE.cons _ (h.post _)

/-- what `_format_key` looks at -/
def keyB (h : Option Piece) : Bool :=
  match h with
  | some (.str s) => startsWith s ['[']
  | _ => false

/-- `_format_key` looks at the first piece only -/
theorem fmtKey_eq (r : Pieces) : fmtKey r = if keyB r.head? then S .space :: r else r := by
  unfold fmtKey
  cases r with
  | nil => rfl
  | cons p r =>
    cases p with
    | str s => rfl
    | sep x => rfl

theorem CE.fmtKey {a b : Pieces} (h : CE a b) : CE (fmtKey a) (fmtKey b) := by
  rw [fmtKey_eq a, fmtKey_eq b, h.head]
  cases keyB b.head?
  · exact h
  · exact CE.cons _ h

theorem CE.ite (c : Bool) {a b a' b' : Pieces} (h : CE a b) (h' : CE a' b') :
    CE (if c then a else a') (if c then b else b') := by
  cases c
  · exact h'
  · exact h

/-! ## the shape of the tree theorems -/

/-- two length facts (they let the list hypotheses be split over `++`), and `Q` from the flag hypothesis and the numeral
hypothesis -/
def Rel2 (ls : List Bool) (gs : List Kd) (ns ms : List NumTuple) (Q : Prop) : Prop :=
  ls.length = gs.length ∧ ns.length = ms.length ∧ (KL gs ls → ns.map numberStr = ms.map numberStr → Q)

theorem Rel2.pure {Q : Prop} (h : Q) : Rel2 [] [] [] [] Q := ⟨rfl, rfl, fun _ _ => h⟩

theorem Rel2.mono {ls gs ns ms} {Q Q' : Prop} (h : Rel2 ls gs ns ms Q) (f : Q → Q') : Rel2 ls gs ns ms Q' :=
  ⟨h.1, h.2.1, fun a b => f (h.2.2 a b)⟩

theorem Rel2.and {ls gs ns ms ls' gs' ns' ms'} {Q Q' : Prop} (h : Rel2 ls gs ns ms Q) (h' : Rel2 ls' gs' ns' ms' Q') :
    Rel2 (ls ++ ls') (gs ++ gs') (ns ++ ns') (ms ++ ms') (Q ∧ Q') := by
  refine ⟨by simp only [List.length_append, h.1, h'.1], by simp only [List.length_append, h.2.1, h'.2.1], fun hk hn => ?_⟩
  have hk' := (KL_append h.1.symm).1 hk
  rw [List.map_append, List.map_append] at hn
  have hn' := List.append_inj hn (by simp only [List.length_map, h.2.1])
  exact ⟨h.2.2 hk'.1 hn'.1, h'.2.2 hk'.2 hn'.2⟩

/-- a component without blocks (names, parameters) -/
theorem Rel2.nums_nil {ls gs ns ms} {Q : Prop} (h : Rel2 ls gs ns ms Q) : Rel2 ls gs (ns ++ []) (ms ++ []) Q := by
  simpa only [List.append_nil] using h

end IdemE
end Tumfl.Theory
