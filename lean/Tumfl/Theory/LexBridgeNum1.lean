import Tumfl.Theory.LexBridgeBase
/-!
# LexBridge, numerals, part 1: the reference side

* `numScan_text` - the numeral scan splits the text;
* `numScan_wf` - on a well-formed numeral text followed by a `Boundary` the scan returns exactly that text;
* `numText_last` - the last character of an accepted numeral text is a digit of its base or the dot;
* `numScan_boundary` - if `parseNumeral` accepts the scanned text, the scan stopped at a `Boundary`.
-/
namespace Tumfl.Theory
open Tumfl.Model Tumfl

/-! ## `numBuf` splits its input -/

theorem numBuf_cons (expo : Char → Bool) (F : Nat) (c : Char) (cs : List Char) :
    Spec.numBuf expo (F + 1) (c :: cs) =
      (if expo c then
        match cs with
        | s :: cs' =>
          if s == '+' || s == '-' then
            (c :: s :: (Spec.numBuf expo F cs').1, (Spec.numBuf expo F cs').2)
          else (c :: (Spec.numBuf expo F cs).1, (Spec.numBuf expo F cs).2)
        | [] => ([c], [])
      else if Spec.isXDigit c || c == '.' then
        (c :: (Spec.numBuf expo F cs).1, (Spec.numBuf expo F cs).2)
      else if Spec.isAlpha c then ([c], cs)
      else ([], c :: cs)) := by
  cases cs <;> (rw [Spec.numBuf])

theorem numBuf_text (expo : Char → Bool) : ∀ (F : Nat) (t : List Char),
    (Spec.numBuf expo F t).1 ++ (Spec.numBuf expo F t).2 = t
  | 0, t => by rw [Spec.numBuf]; rfl
  | F + 1, [] => by rw [Spec.numBuf]; rfl
  | F + 1, c :: cs => by
    rw [numBuf_cons]
    split
    · split
      · rename_i s cs'
        split
        · have := numBuf_text expo F cs'
          simp only [List.cons_append, this]
        · have := numBuf_text expo F (s :: cs')
          simp only [List.cons_append, this]
      · rfl
    · split
      · have := numBuf_text expo F cs
        simp only [List.cons_append, this]
      · split <;> rfl

theorem numScan_text (c : Char) (cs : List Char) : (numScan c cs).1 ++ (numScan c cs).2 = c :: cs := by
  unfold numScan
  cases hh : hexTail c cs with
  | none => simp only; exact numBuf_text _ _ _
  | some p =>
    obtain ⟨x, r⟩ := p
    simp only
    unfold hexTail at hh
    split at hh
    · rename_i h0
      split at hh
      · rename_i x' r'
        split at hh
        · simp only [Option.some.injEq, Prod.mk.injEq] at hh
          obtain ⟨rfl, rfl⟩ := hh
          have := numBuf_text expoHex (r'.length + 1) r'
          simp only [List.cons_append, List.nil_append, this]
        · cases hh
      · cases hh
    · cases hh

/-! ## `numBuf` on a well-formed body followed by something at which it stops -/

theorem boundary_alnum {c : Char} {t : List Char} (hb : Boundary (c :: t)) : Spec.isAlnum c = false ∧ c ≠ '.' := by
  obtain ⟨h1, h2⟩ := hb
  rw [alphanumeric_contains] at h1
  exact ⟨h1, h2⟩

theorem numBuf_boundary_stop (h : Bool) (rest : List Char) (hb : Boundary rest) :
    ∀ F, 0 < F → Spec.numBuf (isExpC h) F rest = ([], rest) := by
  intro F hF
  obtain ⟨F', rfl⟩ : ∃ F', F = F' + 1 := ⟨F - 1, by omega⟩
  cases rest with
  | nil => rw [Spec.numBuf]
  | cons d t =>
    obtain ⟨h1, h2⟩ := boundary_alnum hb
    have hd := stopper_of h d h1 h2
    exact numBuf_stop _ d t F' hd.noexp hd.nox hd.nodot hd.noalpha

/-- the exponent part followed by a place where the scan stops -/
theorem numBuf_exS' (h : Bool) (m : Char) (sg : List Char) (ex : Option (Bool × List Char)) (rest : List Char)
    (hm : isExpC h m = true)
    (hex : ∀ neg ds, ex = some (neg, ds) → SignOK sg neg ∧ ds ≠ [] ∧ ∀ c ∈ ds, Spec.isDigit c = true)
    (hstop : ∀ F, 0 < F → Spec.numBuf (isExpC h) F rest = ([], rest)) (F : Nat) (hF : (exS m sg ex).length < F) :
    Spec.numBuf (isExpC h) F (exS m sg ex ++ rest) = (exS m sg ex, rest) := by
  cases ex with
  | none => simp only [exS, List.nil_append]; exact hstop F (by omega)
  | some nd =>
    obtain ⟨neg, ds⟩ := nd
    obtain ⟨hs, hne, hds⟩ := hex neg ds rfl
    have hrun : ∀ F, ds.length < F → Spec.numBuf (isExpC h) F (ds ++ rest) = (ds, rest) := by
      intro F hF
      rw [numBuf_run _ ds _ (fun c hc => digit_plain h c (hds c hc)) F (by omega), hstop _ (by omega)]
      simp
    obtain ⟨F', rfl⟩ : ∃ F', F = F' + 1 := ⟨F - 1, by omega⟩
    rcases hs with ⟨rfl, _⟩ | ⟨rfl, _⟩ | ⟨rfl, _⟩
    · cases ds with
      | nil => exact absurd rfl hne
      | cons d0 ds' =>
        have hns := digit_not_sign d0 (hds d0 (by simp))
        simp only [exS, List.nil_append, List.cons_append, List.length_cons] at hF ⊢
        rw [numBuf_nosign _ m d0 _ _ hm hns]
        have := hrun F' (by simp; omega)
        simp only [List.cons_append] at this
        rw [this]
    · simp only [exS, List.cons_append, List.nil_append, List.length_cons] at hF ⊢
      rw [numBuf_sign _ m '+' _ _ hm (Or.inl rfl), hrun F' (by omega)]
    · simp only [exS, List.cons_append, List.nil_append, List.length_cons] at hF ⊢
      rw [numBuf_sign _ m '-' _ _ hm (Or.inr rfl), hrun F' (by omega)]

/-- the whole body `ip . fp e±ds` of a well-formed numeral followed by a place where the scan stops -/
theorem numBuf_body' (n : Spec.Numeral) (m : Char) (sg : List Char) (wf : NumWF n m sg) (rest : List Char)
    (hstop : ∀ F, 0 < F → Spec.numBuf (isExpC n.hex) F rest = ([], rest))
    (F : Nat) (hF : (n.ip ++ dotS n.fp ++ exS m sg n.ex).length < F) :
    Spec.numBuf (isExpC n.hex) F (n.ip ++ dotS n.fp ++ exS m sg n.ex ++ rest) =
      (n.ip ++ dotS n.fp ++ exS m sg n.ex, rest) := by
  obtain ⟨hip, hfp, hm, hex, _⟩ := wf
  have hplain : ∀ c ∈ n.ip ++ dotS n.fp, isExpC n.hex c = false ∧ (Spec.isXDigit c || c == '.') = true := by
    intro c hc
    simp only [List.mem_append] at hc
    rcases hc with hc | hc
    · exact dig_plain _ c (hip c hc)
    · cases hfp' : n.fp with
      | none => simp [hfp', dotS] at hc
      | some fp =>
        simp only [hfp', dotS, List.mem_cons] at hc
        rcases hc with rfl | hc
        · exact dot_plain _
        · exact dig_plain _ c (hfp fp hfp' c hc)
  simp only [List.length_append] at hF
  rw [List.append_assoc (n.ip ++ dotS n.fp), numBuf_run _ _ _ hplain F (by simp only [List.length_append]; omega),
    numBuf_exS' n.hex m sg n.ex rest hm hex hstop _ (by simp only [List.length_append]; omega)]

/-- the body of a valid numeral is not empty -/
theorem body_ne_nil (n : Spec.Numeral) (m : Char) (sg : List Char) (hv : n.valid = true) :
    n.ip ++ dotS n.fp ++ exS m sg n.ex ≠ [] := by
  intro h
  simp only [List.append_eq_nil_iff] at h
  obtain ⟨⟨h1, h2⟩, _⟩ := h
  cases hfp : n.fp with
  | none => simp [Spec.Numeral.valid, h1, hfp] at hv
  | some f => simp [hfp, dotS] at h2

/-- on a well-formed numeral text followed by a `Boundary`, the reference scan returns exactly that text -/
theorem numScan_wf (c : Char) (cs : List Char) (n : Spec.Numeral) (x m : Char) (sg rest : List Char)
    (wf : NumWF n m sg) (hx : x = 'x' ∨ x = 'X') (hb : Boundary rest)
    (hs : c :: cs = numText n x m sg ++ rest) :
    numScan c cs = (numText n x m sg, rest) := by
  have hbody := fun F hF => numBuf_body' n m sg wf rest (numBuf_boundary_stop n.hex rest hb) F hF
  cases hh : n.hex with
  | true =>
    rw [hh] at hbody
    have e0 : numText n x m sg = '0' :: x :: (n.ip ++ dotS n.fp ++ exS m sg n.ex) := by
      simp [numText, hh]
    rw [e0] at hs ⊢
    simp only [List.cons_append, List.cons.injEq] at hs
    obtain ⟨rfl, rfl⟩ := hs
    have hxb : (x == 'x' || x == 'X') = true := by rcases hx with rfl | rfl <;> decide
    unfold numScan hexTail
    simp only [show ('0' == '0') = true by decide, hxb, if_true]
    rw [expoHex_eq, hbody _ (by simp only [List.length_append]; omega)]
    simp
  | false =>
    rw [hh] at hbody
    have hnx := dec_no_x n m sg wf hh
    have hne := body_ne_nil n m sg wf.valid
    have e0 : numText n x m sg = n.ip ++ dotS n.fp ++ exS m sg n.ex := by
      simp [numText, hh]
    rw [e0] at hs ⊢
    generalize hB : n.ip ++ dotS n.fp ++ exS m sg n.ex = B at hs hne hnx hbody
    have hht : hexTail c cs = none := by
      unfold hexTail
      split
      · split
        · rename_i y r
          have hy : (y == 'x' || y == 'X') = false := by
            cases B with
            | nil => exact absurd rfl hne
            | cons b0 B' =>
              simp only [List.cons_append, List.cons.injEq] at hs
              obtain ⟨_, hs⟩ := hs
              cases B' with
              | nil =>
                simp only [List.nil_append] at hs
                subst hs
                obtain ⟨h1, _⟩ := boundary_alnum hb
                obtain ⟨_, _, _, _, _, _, _, e5, e6⟩ := not_alnum_facts y h1
                simp [e5, e6]
              | cons b1 B'' =>
                simp only [List.cons_append, List.cons.injEq] at hs
                have := hnx y (by rw [hs.1]; simp)
                simp [this.1, this.2]
          rw [hy]; rfl
        · rfl
      · rfl
    unfold numScan
    rw [hht]
    simp only
    have hlen : B.length < cs.length + 1 + 1 := by
      have := congrArg List.length hs
      simp only [List.length_cons, List.length_append] at this
      omega
    rw [hs, expoDec_eq, hbody _ hlen]

/-! ## the last character of a numeral text -/

theorem getLast?_app_some (x y : List Char) (l : Char) (h : y.getLast? = some l) :
    (x ++ y).getLast? = some l := by
  rw [List.getLast?_append, h]; rfl

/-- the last character of a well-formed numeral text is a digit of its base, or the dot -/
theorem numText_last (n : Spec.Numeral) (x m : Char) (sg : List Char) (wf : NumWF n m sg) :
    ∃ l, (numText n x m sg).getLast? = some l ∧ (dig n.hex l = true ∨ l = '.') := by
  obtain ⟨hip, hfp, hm, hex, hv⟩ := wf
  unfold numText
  cases hex' : n.ex with
  | some nd =>
    obtain ⟨neg, ds⟩ := nd
    obtain ⟨_, hne, hds⟩ := hex neg ds hex'
    obtain ⟨l, hl, hal⟩ := getLast?_all (fun x => Spec.isDigit x = true) ds hne hds
    refine ⟨l, ?_, Or.inl ?_⟩
    · apply getLast?_app_some
      show ([m] ++ (sg ++ ds)).getLast? = some l
      exact getLast?_app_some _ _ l (getLast?_app_some _ _ l hl)
    · cases n.hex
      · exact hal
      · exact digit_xdigit l hal
  | none =>
    simp only [exS, List.append_nil]
    cases hfp' : n.fp with
    | some f =>
      cases f with
      | nil => exact ⟨'.', getLast?_app_some _ _ '.' rfl, Or.inr rfl⟩
      | cons f0 f' =>
        obtain ⟨l, hl, hal⟩ := getLast?_all (fun x => dig n.hex x = true) (f0 :: f') (by simp) (hfp _ hfp')
        refine ⟨l, ?_, Or.inl hal⟩
        apply getLast?_app_some
        show (['.'] ++ (f0 :: f')).getLast? = some l
        exact getLast?_app_some _ _ l hl
    | none =>
      have hne : n.ip ≠ [] := by
        intro h
        simp [Spec.Numeral.valid, h, hfp'] at hv
      obtain ⟨l, hl, hal⟩ := getLast?_all (fun x => dig n.hex x = true) n.ip hne hip
      refine ⟨l, ?_, Or.inl hal⟩
      simp only [dotS, List.append_nil]
      exact getLast?_app_some _ _ l hl

/-! ## an accepted scan stopped at a boundary -/

/-- `numBuf` (enough fuel) stops at a `Boundary`, or it has taken one touching letter -/
theorem numBuf_end (expo : Char → Bool) : ∀ (F : Nat) (t : List Char), t.length < F →
    Boundary (Spec.numBuf expo F t).2 ∨
      ∃ l, (Spec.numBuf expo F t).1.getLast? = some l ∧ Spec.isXDigit l = false ∧ l ≠ '.'
  | 0, t, h => by omega
  | F + 1, [], _ => by rw [Spec.numBuf]; exact Or.inl trivial
  | F + 1, c :: cs, hF => by
    simp only [List.length_cons] at hF
    rw [numBuf_cons]
    have lift : ∀ (pre t' : List Char), t'.length < F →
        Boundary (Spec.numBuf expo F t').2 ∨
          ∃ l, (pre ++ (Spec.numBuf expo F t').1).getLast? = some l ∧ Spec.isXDigit l = false ∧ l ≠ '.' := by
      intro pre t' h'
      rcases numBuf_end expo F t' h' with hb | ⟨l, h1, h2, h3⟩
      · exact Or.inl hb
      · exact Or.inr ⟨l, getLast?_app_some _ _ l h1, h2, h3⟩
    split
    · split
      · rename_i s cs'
        split
        · exact lift [c, s] cs' (by simp only [List.length_cons] at hF; omega)
        · exact lift [c] (s :: cs') (by omega)
      · exact Or.inl trivial
    · rename_i hexp
      split
      · exact lift [c] cs (by omega)
      · rename_i hxd
        simp only [Bool.or_eq_true, beq_iff_eq, not_or] at hxd
        split
        · rename_i hal
          refine Or.inr ⟨c, rfl, by simpa using hxd.1, hxd.2⟩
        · rename_i hal
          left
          have hx : Spec.isXDigit c = false := by simpa using hxd.1
          have hd : Spec.isDigit c = false := by
            cases hh : Spec.isDigit c with
            | false => rfl
            | true => rw [digit_xdigit c hh] at hx; cases hx
          have ha : Spec.isAlpha c = false := by simpa using hal
          show Gen.alphanumeric.contains c = false ∧ c ≠ '.'
          rw [alphanumeric_contains]
          exact ⟨by simp [Spec.isAlnum, ha, hd], hxd.2⟩

/-- if `parseNumeral` accepts the scanned text, the scan stopped at a `Boundary` -/
theorem numScan_boundary (c : Char) (cs : List Char) (m : Spec.Numeral)
    (hp : Spec.parseNumeral (numScan c cs).1 = some m) : Boundary (numScan c cs).2 := by
  obtain ⟨x, mk, sg, hx, htxt, wf⟩ := parseNumeral_inv _ _ hp
  obtain ⟨l, hl, hlc⟩ := numText_last m x mk sg wf
  rw [← htxt] at hl
  have hbad : ∀ l', (numScan c cs).1.getLast? = some l' → ¬ (Spec.isXDigit l' = false ∧ l' ≠ '.') := by
    intro l' h' ⟨h1, h2⟩
    rw [hl] at h'
    simp only [Option.some.injEq] at h'
    subst h'
    rcases hlc with hd | rfl
    · rw [dig_xdigit _ _ hd] at h1; cases h1
    · exact h2 rfl
  revert hbad
  unfold numScan
  cases hh : hexTail c cs with
  | none =>
    simp only
    intro hbad
    rcases numBuf_end expoDec (cs.length + 1 + 1) (c :: cs) (by simp) with hb | ⟨l', h1, h2, h3⟩
    · exact hb
    · exact absurd ⟨h2, h3⟩ (hbad l' h1)
  | some p =>
    obtain ⟨y, r⟩ := p
    simp only
    intro hbad
    rcases numBuf_end expoHex (r.length + 1) r (by simp) with hb | ⟨l', h1, h2, h3⟩
    · exact hb
    · exact absurd ⟨h2, h3⟩ (hbad l' (getLast?_app_some _ _ l' h1))

end Tumfl.Theory
