import Tumfl.Theory.ResolveDesignatesDefs
import Tumfl.Theory.Resolve
import Tumfl.Theory.ResolveTermGrow
/-!
# Dependency resolver, completeness of the error (property C12): vocabulary

* `callIn*_mono`: `callIn* Q x` is monotone in the call test `Q`;
* `Bad fs sp dir F`: the call is an offending one (any message, any token), or it is a literal `require` whose lookup
  from `dir` finds a path that is NOT in the table `F`;  `¬ callIn* (Bad fs sp dir F) x` therefore says: `x` contains no
  offending call and every file a literal `require` in `x` finds is in `F`;
* `Done fs sp F p`: the file `p` parses, and its chunk (with its own directory) is clean with respect to `F`;
* `Ext fs sp F F'`: the table grew from `F` to `F'`, and every path that is new in `F'` is `Done` with respect to `F'`.
-/
namespace Tumfl.Theory
open Tumfl.Model

/-! ## 1. `callIn*` is monotone in the call test -/

section mono
variable {Q Q' : Token → Expr → List Expr → Prop}

mutual
theorem callInExpr_mono (hQ : ∀ t fn args, Q t fn args → Q' t fn args) : ∀ e : Expr, callInExpr Q e → callInExpr Q' e
  | .nil _, h | .bool _ _, h | .vararg _, h | .number _ _, h | .string _ _, h | .name _ _, h => by
    simp [callInExpr] at h
  | .func _ ps body, h => by
    have h1 := callInExprs_mono hQ ps; have h2 := callInBlock_mono hQ body
    simp only [callInExpr] at h ⊢
    grind
  | .table _ fs, h => by
    have h1 := callInFields_mono hQ fs
    simp only [callInExpr] at h ⊢
    grind
  | .binop _ _ l r, h => by
    have h1 := callInExpr_mono hQ l; have h2 := callInExpr_mono hQ r
    simp only [callInExpr] at h ⊢
    grind
  | .unop _ _ x, h => by
    have h1 := callInExpr_mono hQ x
    simp only [callInExpr] at h ⊢
    grind
  | .index _ l k, h => by
    have h1 := callInExpr_mono hQ l; have h2 := callInExpr_mono hQ k
    simp only [callInExpr] at h ⊢
    grind
  | .namedIndex _ l n, h => by
    have h1 := callInExpr_mono hQ l; have h2 := callInExpr_mono hQ n
    simp only [callInExpr] at h ⊢
    grind
  | .call t fn args, h => by
    have h0 := hQ t fn args
    have h1 := callInExpr_mono hQ fn; have h2 := callInExprs_mono hQ args
    simp only [callInExpr] at h ⊢
    grind
  | .method _ fn m args, h => by
    have h1 := callInExpr_mono hQ fn; have h2 := callInExpr_mono hQ m; have h3 := callInExprs_mono hQ args
    simp only [callInExpr] at h ⊢
    grind
theorem callInExprs_mono (hQ : ∀ t fn args, Q t fn args → Q' t fn args) : ∀ es : List Expr, callInExprs Q es → callInExprs Q' es
  | [], h => by simp [callInExprs] at h
  | e :: es, h => by
    have h1 := callInExpr_mono hQ e; have h2 := callInExprs_mono hQ es
    simp only [callInExprs] at h ⊢
    grind
theorem callInOptExpr_mono (hQ : ∀ t fn args, Q t fn args → Q' t fn args) : ∀ o : Option Expr, callInOptExpr Q o → callInOptExpr Q' o
  | none, h => by simp [callInOptExpr] at h
  | some e, h => by
    have h1 := callInExpr_mono hQ e
    simp only [callInOptExpr] at h ⊢
    grind
theorem callInOptExprs_mono (hQ : ∀ t fn args, Q t fn args → Q' t fn args) : ∀ o : Option (List Expr), callInOptExprs Q o → callInOptExprs Q' o
  | none, h => by simp [callInOptExprs] at h
  | some es, h => by
    have h1 := callInExprs_mono hQ es
    simp only [callInOptExprs] at h ⊢
    grind
theorem callInField_mono (hQ : ∀ t fn args, Q t fn args → Q' t fn args) : ∀ fd : Field, callInField Q fd → callInField Q' fd
  | .explicit _ k v, h => by
    have h1 := callInExpr_mono hQ k; have h2 := callInExpr_mono hQ v
    simp only [callInField] at h ⊢
    grind
  | .named _ n v, h => by
    have h1 := callInExpr_mono hQ n; have h2 := callInExpr_mono hQ v
    simp only [callInField] at h ⊢
    grind
  | .numbered _ v, h => by
    have h1 := callInExpr_mono hQ v
    simp only [callInField] at h ⊢
    grind
theorem callInFields_mono (hQ : ∀ t fn args, Q t fn args → Q' t fn args) : ∀ fds : List Field, callInFields Q fds → callInFields Q' fds
  | [], h => by simp [callInFields] at h
  | fd :: rest, h => by
    have h1 := callInField_mono hQ fd; have h2 := callInFields_mono hQ rest
    simp only [callInFields] at h ⊢
    grind
theorem callInStmt_mono (hQ : ∀ t fn args, Q t fn args → Q' t fn args) : ∀ s : Stmt, callInStmt Q s → callInStmt Q' s
  | .brk _, h | .semi _, h => by simp [callInStmt] at h
  | .assign _ ts es, h => by
    have h1 := callInExprs_mono hQ ts; have h2 := callInExprs_mono hQ es
    simp only [callInStmt] at h ⊢
    grind
  | .block b, h => by
    have h1 := callInBlock_mono hQ b
    simp only [callInStmt] at h ⊢
    grind
  | .call t fn args, h => by
    have h0 := hQ t fn args
    have h1 := callInExpr_mono hQ fn; have h2 := callInExprs_mono hQ args
    simp only [callInStmt] at h ⊢
    grind
  | .funcDef _ ns m ps body, h => by
    have h1 := callInExprs_mono hQ ns; have h2 := callInOptExpr_mono hQ m; have h3 := callInExprs_mono hQ ps
    have h4 := callInBlock_mono hQ body
    simp only [callInStmt] at h ⊢
    grind
  | .goto _ l, h => by
    have h1 := callInExpr_mono hQ l
    simp only [callInStmt] at h ⊢
    grind
  | .label _ n, h => by
    have h1 := callInExpr_mono hQ n
    simp only [callInStmt] at h ⊢
    grind
  | .iff _ c tr fl, h => by
    have h1 := callInExpr_mono hQ c; have h2 := callInBlock_mono hQ tr; have h3 := callInFalse_mono hQ fl
    simp only [callInStmt] at h ⊢
    grind
  | .iterFor _ ns es body, h => by
    have h1 := callInExprs_mono hQ ns; have h2 := callInExprs_mono hQ es; have h3 := callInBlock_mono hQ body
    simp only [callInStmt] at h ⊢
    grind
  | .localAssign _ _ es, h => by
    have h1 := callInOptExprs_mono hQ es
    simp only [callInStmt] at h ⊢
    grind
  | .localFunc _ n ps body, h => by
    have h1 := callInExpr_mono hQ n; have h2 := callInExprs_mono hQ ps; have h3 := callInBlock_mono hQ body
    simp only [callInStmt] at h ⊢
    grind
  | .method _ fn m args, h => by
    have h1 := callInExpr_mono hQ fn; have h2 := callInExpr_mono hQ m; have h3 := callInExprs_mono hQ args
    simp only [callInStmt] at h ⊢
    grind
  | .numFor _ v a b st body, h => by
    have h1 := callInExpr_mono hQ v; have h2 := callInExpr_mono hQ a; have h3 := callInExpr_mono hQ b
    have h4 := callInOptExpr_mono hQ st; have h5 := callInBlock_mono hQ body
    simp only [callInStmt] at h ⊢
    grind
  | .repeat _ c body, h => by
    have h1 := callInExpr_mono hQ c; have h2 := callInBlock_mono hQ body
    simp only [callInStmt] at h ⊢
    grind
  | .whl _ c body, h => by
    have h1 := callInExpr_mono hQ c; have h2 := callInBlock_mono hQ body
    simp only [callInStmt] at h ⊢
    grind
theorem callInStmts_mono (hQ : ∀ t fn args, Q t fn args → Q' t fn args) : ∀ ss : List Stmt, callInStmts Q ss → callInStmts Q' ss
  | [], h => by simp [callInStmts] at h
  | s :: rest, h => by
    have h1 := callInStmt_mono hQ s; have h2 := callInStmts_mono hQ rest
    simp only [callInStmts] at h ⊢
    grind
theorem callInFalse_mono (hQ : ∀ t fn args, Q t fn args → Q' t fn args) : ∀ fl : IfFalse, callInFalse Q fl → callInFalse Q' fl
  | .none, h => by simp [callInFalse] at h
  | .block b, h => by
    have h1 := callInBlock_mono hQ b
    simp only [callInFalse] at h ⊢
    grind
  | .elif _ c tr fl, h => by
    have h1 := callInExpr_mono hQ c; have h2 := callInBlock_mono hQ tr; have h3 := callInFalse_mono hQ fl
    simp only [callInFalse] at h ⊢
    grind
theorem callInBlock_mono (hQ : ∀ t fn args, Q t fn args → Q' t fn args) : ∀ b : Block, callInBlock Q b → callInBlock Q' b
  | .mk _ ss rs _, h => by
    have h1 := callInStmts_mono hQ ss; have h2 := callInOptExprs_mono hQ rs
    simp only [callInBlock] at h ⊢
    grind
end


end mono

/-! ## 2. Bad calls, clean trees -/

/-- the call `.call t' fn args`, seen from a file in directory `dir`, is an offending `require` call (whatever message
and token), or a literal `require` of a file that is not in the table `F` -/
def Bad (fs : FS) (sp : List Path) (dir : Path) (F : List Path) (t' : Token) (fn : Expr) (args : List Expr) : Prop :=
  (∃ m t, Offends fs sp dir m t t' fn args) ∨ (∃ path, ReqTo fs sp dir path t' fn args ∧ path ∉ F)

theorem Bad.isRequire {fs : FS} {sp : List Path} {dir : Path} {F : List Path} {t' : Token} {fn : Expr} {args : List Expr}
    (h : Bad fs sp dir F t' fn args) : isRequireName fn = true := by
  rcases h with ⟨m, t, h⟩ | ⟨path, h, _⟩
  · exact h.2.1
  · exact h.1

/-- a bigger table has fewer bad calls -/
theorem Bad.anti {fs : FS} {sp : List Path} {dir : Path} {F F' : List Path} (hF : ∀ p ∈ F, p ∈ F') (t' : Token) (fn : Expr)
    (args : List Expr) (h : Bad fs sp dir F' t' fn args) : Bad fs sp dir F t' fn args := by
  rcases h with h | ⟨path, h, hn⟩
  · exact Or.inl h
  · exact Or.inr ⟨path, h, fun hm => hn (hF _ hm)⟩

theorem Bad.of_offends {fs : FS} {sp : List Path} {dir : Path} {F : List Path} {m : String} {t : Token} (t' : Token)
    (fn : Expr) (args : List Expr) (h : Offends fs sp dir m t t' fn args) : Bad fs sp dir F t' fn args :=
  Or.inl ⟨m, t, h⟩

theorem Bad.of_reqTo {fs : FS} {sp : List Path} {dir : Path} {F : List Path} {path : Path} (hn : path ∉ F) (t' : Token)
    (fn : Expr) (args : List Expr) (h : ReqTo fs sp dir path t' fn args) : Bad fs sp dir F t' fn args :=
  Or.inr ⟨path, h, hn⟩

/-- a require-named callee is a name: nothing occurs in it -/
theorem callInExpr_of_isRequireName {Q : Token → Expr → List Expr → Prop} {fn : Expr} (h : isRequireName fn = true) :
    ¬ callInExpr Q fn := by
  cases fn <;> simp [isRequireName] at h
  simp [callInExpr]

/-- a literal `require` whose file is in the table is not bad -/
theorem not_bad_lit {fs : FS} {sp : List Path} {dir : Path} {F : List Path} {t tk : Token} {fn : Expr} {name : List Char}
    {p : Path} (hlook : findFileInPath fs sp name dir = some p) (hp : p ∈ F) :
    ¬ Bad fs sp dir F t fn [.string tk name] := by
  rintro (⟨m, t', _, _, ⟨_, h⟩ | ⟨_, tk', name', h1, h2⟩⟩ | ⟨path, ⟨_, tk', name', h1, h2⟩, hn⟩)
  · simp [isStrLit1] at h
  · cases h1; rw [hlook] at h2; cases h2
  · cases h1; rw [hlook] at h2; cases h2; exact hn hp

theorem clean_lit_expr {fs : FS} {sp : List Path} {dir : Path} {F : List Path} {t tk : Token} {fn : Expr} {name : List Char}
    {p : Path} (hreq : isRequireName fn = true) (hlook : findFileInPath fs sp name dir = some p) (hp : p ∈ F) :
    ¬ callInExpr (Bad fs sp dir F) (.call t fn [.string tk name]) := by
  simp only [callInExpr, callInExprs, or_false, not_or]
  exact ⟨not_bad_lit hlook hp, callInExpr_of_isRequireName hreq⟩

theorem clean_lit_stmt {fs : FS} {sp : List Path} {dir : Path} {F : List Path} {t tk : Token} {fn : Expr} {name : List Char}
    {p : Path} (hreq : isRequireName fn = true) (hlook : findFileInPath fs sp name dir = some p) (hp : p ∈ F) :
    ¬ callInStmt (Bad fs sp dir F) (.call t fn [.string tk name]) := by
  simp only [callInStmt, callInExpr, callInExprs, or_false, not_or]
  exact ⟨not_bad_lit hlook hp, callInExpr_of_isRequireName hreq⟩

/-- what a clean block is, in the vocabulary of `ResolveDesignatesDefs` -/
theorem clean_block_elim {fs : FS} {sp : List Path} {dir : Path} {F : List Path} {b : Block}
    (h : ¬ callInBlock (Bad fs sp dir F) b) :
    (∀ m t, ¬ offendsBlock fs sp dir m t b) ∧ ∀ path, requiresBlock fs sp dir path b → path ∈ F := by
  refine ⟨fun m t ho => h (callInBlock_mono (fun t' fn args => Bad.of_offends t' fn args) b ho), fun path hr => ?_⟩
  apply Classical.byContradiction
  intro hn
  exact h (callInBlock_mono (fun t' fn args => Bad.of_reqTo hn t' fn args) b hr)

/-! ## 3. Done files, extension of the table -/

/-- the file `p` parses and its chunk, with its own directory, is clean with respect to the table `F` -/
def Done (fs : FS) (sp : List Path) (F : List Path) (p : Path) : Prop :=
  ∃ text b hs, fs.read p = some text ∧ parseText text = .ok (b, hs) ∧ ¬ callInBlock (Bad fs sp (dirOf p) F) (asChunk b)

theorem Done.mono {fs : FS} {sp : List Path} {F F' : List Path} {p : Path} (hF : ∀ q ∈ F, q ∈ F') (h : Done fs sp F p) :
    Done fs sp F' p := by
  obtain ⟨text, b, hs, hr, hp, hc⟩ := h
  exact ⟨text, b, hs, hr, hp, fun hb => hc (callInBlock_mono (Bad.anti hF) _ hb)⟩

/-- the table grew, and every new path is done with respect to the new table -/
def Ext (fs : FS) (sp : List Path) (F F' : List Path) : Prop :=
  (∀ p ∈ F, p ∈ F') ∧ ∀ p ∈ F', p ∉ F → Done fs sp F' p

theorem Ext.refl {fs : FS} {sp : List Path} (F : List Path) : Ext fs sp F F :=
  ⟨fun _ h => h, fun _ h hn => absurd h hn⟩

theorem Ext.trans {fs : FS} {sp : List Path} {F F1 F2 : List Path} (h1 : Ext fs sp F F1) (h2 : Ext fs sp F1 F2) :
    Ext fs sp F F2 := by
  refine ⟨fun p hp => h2.1 p (h1.1 p hp), fun p hp hn => ?_⟩
  by_cases hp1 : p ∈ F1
  · exact (h1.2 p hp1 hn).mono h2.1
  · exact h2.2 p hp hp1

/-- the file `p` enters the table, then its chunk is resolved (extending `F ++ [p]` to `F2`) and found clean -/
theorem Ext.enter {fs : FS} {sp : List Path} {F F2 : List Path} {p : Path} (h : Ext fs sp (F ++ [p]) F2)
    (hd : Done fs sp F2 p) : Ext fs sp F F2 := by
  refine ⟨fun q hq => h.1 q (List.mem_append_left _ hq), fun q hq hn => ?_⟩
  by_cases hqp : q = p
  · subst hqp; exact hd
  · refine h.2 q hq ?_
    simp only [List.mem_append, List.mem_singleton, not_or]
    exact ⟨hn, hqp⟩

end Tumfl.Theory
