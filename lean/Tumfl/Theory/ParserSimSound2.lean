import Tumfl.Theory.ParserSimSound1
/-!
# Soundness, step lemmas: name lists (continued), attributes, function bodies, tables, arguments
-/
namespace Tumfl.Theory
open Tumfl.Model Tumfl.Spec

variable {B : Bridge}

theorem parseNameList_some_sound_step {f : Nat} (ih : AllSound B f) (n : Expr) (ts : List Tok) :
    SPF B (Model.parseNameList (f + 1) (some n) false) ts (fun r ts' =>
    ∃ ns rest, r = n :: rest ∧ Ev (namelistRest · ts) (ns, ts') ∧ Forall₂ NameRel rest ns) := by
  rw [Model.parseNameList]
  sp ih
  · exact ⟨_, _, rfl, ev_namelistRest_cons asm asm asm, asm⟩
  · exact ⟨_, _, rfl, ev_namelistRest_nil asm, .nil⟩

theorem parseNameList_none_sound_step {f : Nat} (ih : AllSound B f) (ts : List Tok) :
    SPF B (Model.parseNameList (f + 1) none true) ts (fun r ts' =>
    ∃ ns va, Ev (parlist1 · ts) (ns, va, if va then ts'.tail else ts') ∧ (va = true ↔ pk ts' = .sym "...") ∧
      Forall₂ NameRel r ns) := by
  rw [Model.parseNameList]
  sp ih
  exact ⟨_, _, asm, asm, asm⟩

theorem parseAttNames_sound_step {f : Nat} (ih : AllSound B f) (ts : List Tok) :
    SPF B (Model.parseAttNames (f + 1)) ts (fun r ts' =>
    ∃ ns, Ev (attnamelist · ts) (ns, ts') ∧ Forall₂ AttRel r ns) := by
  rw [Model.parseAttNames]
  sp ih
  · exact ⟨_, ev_attnamelist_cons asm (.some asm asm asm) asm asm, .cons ⟨asm, asm⟩ asm⟩
  · exact ⟨_, ev_attnamelist_last asm (.some asm asm asm) asm, .cons ⟨asm, asm⟩ .nil⟩
  · exact ⟨_, ev_attnamelist_cons asm (.none asm) asm asm, .cons ⟨asm, trivial⟩ asm⟩
  · exact ⟨_, ev_attnamelist_last asm (.none asm) asm, .cons ⟨asm, trivial⟩ .nil⟩

theorem parseFuncBody_sound_step {f : Nat} (ih : AllSound B f) (tok : Token) (ts : List Tok) :
    SPF B (Model.parseFuncBody (f + 1) tok) ts (fun r ts' =>
    ∃ ps va b, Ev (body · ts) (ps, va, b, ts') ∧ ParamsRel r.1 ps va ∧ BlockRel r.2 b) := by
  rw [Model.parseFuncBody]
  sp ih
  · rename_i va hev hva hns _ _ hell _ _ _ _ _ hbp
    obtain ⟨c, tsm, hb, hrel, hend, rfl⟩ := BlockPost.true hbp
    obtain rfl : va = true := hva.2 hell
    simp only [if_true] at hev
    exact ⟨_, _, _, ev_body asm (ev_parlist_names asm hev) asm hb hend, ParamsRel.of_names_va _ hns, hrel.extendComment _⟩
  · rename_i va hev hva hns _ _ hell _ _ _ _ _ hbp
    obtain ⟨c, tsm, hb, hrel, hend, rfl⟩ := BlockPost.true hbp
    obtain rfl : va = false := by
      cases va
      · rfl
      · exact absurd (hva.1 rfl) hell
    simp only [Bool.false_eq_true, if_false] at hev
    exact ⟨_, _, _, ev_body asm (ev_parlist_names asm hev) asm hb hend, ParamsRel.of_names hns, hrel.extendComment _⟩
  · rename_i hbp
    obtain ⟨c, tsm, hb, hrel, hend, rfl⟩ := BlockPost.true hbp
    exact ⟨_, _, _, ev_body asm (ev_parlist_vararg asm) asm hb hend, .vararg _, hrel.extendComment _⟩
  · rename_i hbp
    obtain ⟨c, tsm, hb, hrel, hend, rfl⟩ := BlockPost.true hbp
    exact ⟨_, _, _, ev_body asm (ev_parlist_empty asm) asm hb hend, .nil, hrel.extendComment _⟩

end Tumfl.Theory
